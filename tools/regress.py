#!/venv/bin/python
"""Regression self-validation: for every `fixed` entry of known_findings.json, revert that fix
commit on a scratch copy of /repo (outside /repo and /verif, removed afterwards) and run the quick
check of its property: the violation must be reported again."""
import json, os, shutil, subprocess, sys, tempfile
from pathlib import Path
V = Path(__file__).resolve().parent.parent
k = json.loads((V / "known_findings.json").read_text())
sel = sys.argv[1:]
tmp = Path(tempfile.mkdtemp(prefix="symm_regress_"))
try:
    for e in k:
        if e.get("status") != "fixed" or (sel and e["id"] not in sel and e["property"] not in sel):
            continue
        dst = tmp / "repo"
        if dst.exists():
            shutil.rmtree(dst)
        shutil.copytree("/repo", dst, ignore=shutil.ignore_patterns(".git", "docs", "examples", "__pycache__"))
        diff = subprocess.run(["git", "-C", "/repo", "show", "--format=", e["commit"]], capture_output=True, text=True).stdout
        p = subprocess.run(["patch", "-R", "-p1", "-d", str(dst)], input=diff, capture_output=True, text=True)
        if p.returncode != 0:
            print(e["id"], e["property"], "REVERT-FAILED", p.stdout[-200:]); continue
        r = subprocess.run([str(V / "check"), e["property"], "--tier", "quick", "--no-build"],
                           env=dict(os.environ, SYMMRAY_REPO=str(dst)), capture_output=True, text=True, timeout=3600)
        viol = [l for l in r.stdout.splitlines() if l.startswith("VIOLATION")]
        tag = "DETECTED" if (r.returncode == 1 and viol) else ("clean" if r.returncode == 0 else f"exit{r.returncode}")
        if viol and "no-failing-input-found" in viol[0]:
            tag += "(no-input)"
        print(e["id"], e["property"], e["commit"], tag, flush=True)
finally:
    shutil.rmtree(tmp, ignore_errors=True)
