#!/venv/bin/python
"""Self-validation: apply the catalogued mutants (notes/mutants.md) one at a time to a scratch
copy of /repo (outside /repo and /verif, removed afterwards) and run the quick check of the
mutant's property against it.  Usage: tools/mutants.py [ids or property ids ...] [--all-props]"""
import os, re, shutil, subprocess, sys, tempfile, json
from pathlib import Path

VERIF = Path(__file__).resolve().parent.parent
src = (VERIF / "notes" / "mutants.md").read_text()
code = src[src.index("M = ["):]
code = code[: code.index("\n]\n") + 3]
ns = {}
exec(code, ns)
M = ns["M"]
extra = VERIF / "notes" / "mutants_extra.py"
if extra.exists():
    ns2 = {}
    exec(extra.read_text(), ns2)
    M += ns2["M"]

sel = [a for a in sys.argv[1:] if not a.startswith("--")]
allprops = "--all-props" in sys.argv
props_all = [f"C{i:02d}" for i in range(1, 21)]
tmp = Path(tempfile.mkdtemp(prefix="symm_mut_"))
res = []
try:
    for mid, prop, fname, old, new, note in M:
        if sel and mid not in sel and prop not in sel:
            continue
        dst = tmp / "repo"
        if dst.exists():
            shutil.rmtree(dst)
        shutil.copytree("/repo", dst, ignore=shutil.ignore_patterns(".git", "docs", "examples", "__pycache__"))
        f = dst / "symmray" / fname
        s = f.read_text()
        if s.count(old) != 1:
            res.append((mid, prop, "SKIP(edit does not apply)", note)); print(res[-1], flush=True)
            continue
        f.write_text(s.replace(old, new))
        targets = props_all if (prop == "NEG" or allprops) else [prop]
        for t in targets:
            if not (VERIF / "harness" / "props" / f"{t.lower()}.py").exists():
                continue
            env = dict(os.environ, SYMMRAY_REPO=str(dst))
            p = subprocess.run([str(VERIF / "check"), t, "--tier", "quick", "--no-build"], env=env,
                               capture_output=True, text=True, timeout=1800)
            viol = [l for l in p.stdout.splitlines() if l.startswith("VIOLATION")]
            tag = "DETECTED" if p.returncode == 1 and viol else ("clean" if p.returncode == 0 else f"exit{p.returncode}")
            if viol and "no-failing-input-found" in viol[0]:
                tag += "(no-input)"
            res.append((mid, prop, t, tag, note)); print(res[-1], flush=True)
            if p.returncode == 2:
                print(p.stdout[-800:], p.stderr[-800:])
finally:
    shutil.rmtree(tmp, ignore_errors=True)
