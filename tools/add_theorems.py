#!/venv/bin/python
"""tools/add_theorems.py cXX --module M --ns SymmModel.CXX --thms "a b c" [--files "F G"] [--planned "x;y"] [--import M ...]
Extend the proof header of harness/props/cXX.py and the import list of lean/SymmModel.lean."""
import argparse, ast, json, re, sys
from pathlib import Path
V = Path(__file__).resolve().parent.parent
ap = argparse.ArgumentParser()
ap.add_argument("prop"); ap.add_argument("--module"); ap.add_argument("--ns"); ap.add_argument("--thms", default="")
ap.add_argument("--files", default=""); ap.add_argument("--planned", default=None); ap.add_argument("--imports", default="")
a = ap.parse_args()
p = V / "harness" / "props" / f"{a.prop}.py"
s = p.read_text()
def get(name):
    m = re.search(rf"^{name} = (\[.*?\])\n(?=[A-Z_]+ = |\n)", s, flags=re.S | re.M)
    return m, ast.literal_eval(m.group(1))
m, thms = get("THEOREMS")
new = thms + [f"{a.ns}.{t}" for t in a.thms.split() if f"{a.ns}.{t}" not in thms]
s = s[:m.start(1)] + json.dumps(new, indent=4) + s[m.end(1):]
m, files = get("LEAN_FILES")
newf = files + [f for f in a.files.split() if f not in files]
s = s[:m.start(1)] + json.dumps(newf) + s[m.end(1):]
if a.planned is not None:
    m, _ = get("PLANNED")
    s = s[:m.start(1)] + json.dumps([x.strip() for x in a.planned.split(";") if x.strip()]) + s[m.end(1):]
if a.module:
    s = re.sub(r'^PROPS_MODULE = .*$', f'PROPS_MODULE = "{a.module}"', s, count=1, flags=re.M)
p.write_text(s)
if a.imports:
    f = V / "lean" / "SymmModel.lean"
    t = f.read_text()
    for imp in a.imports.split():
        if f"import {imp}\n" not in t:
            t += f"import {imp}\n"
    f.write_text(t)
print(a.prop, len(new), "theorems")
