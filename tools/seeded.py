#!/venv/bin/python
"""Confirm and evaluate a seeded breaking change.

  tools/seeded.py import <src_dir> <name>   # src_dir holds patch.diff, demo.py, meta.json (from a sub-agent)
  tools/seeded.py run [name ...] [--all-props] [--tier quick]

`import` copies the change to /verif/seeded/<name>/ after confirming, on a scratch copy of /repo
(outside /repo and /verif, removed afterwards): the patch applies, the library's test suite still
passes with it, the demonstration fails with it and passes without it.  `run` applies each stored
patch to a scratch copy and runs the checks against it (SYMMRAY_REPO), recording which detect it.
"""
import json, os, shutil, subprocess, sys, tempfile
from pathlib import Path

VERIF = Path(__file__).resolve().parent.parent
SEEDED = VERIF / "seeded"
PY = "/venv/bin/python"


def scratch_copy(tmp):
    dst = Path(tmp) / "repo"
    if dst.exists():
        shutil.rmtree(dst)
    shutil.copytree("/repo", dst, ignore=shutil.ignore_patterns(".git", "docs", "examples", "__pycache__"))
    return dst


def apply_patch(dst, patch):
    p = subprocess.run(["git", "apply", "--unsafe-paths", "-p1", "--directory", str(dst), str(patch)],
                       capture_output=True, text=True, cwd="/")
    if p.returncode != 0:
        p = subprocess.run(["patch", "-p1", "-d", str(dst), "-i", str(patch)], capture_output=True, text=True)
    return p.returncode == 0, (p.stdout + p.stderr)[-500:]


def run_demo(dst, demo):
    env = dict(os.environ, PYTHONPATH=str(dst))
    p = subprocess.run([PY, str(demo)], env=env, capture_output=True, text=True, timeout=300, cwd=str(dst))
    return p.returncode, (p.stdout + p.stderr)[-600:]


def run_suite(dst):
    env = dict(os.environ, PYTHONPATH=str(dst))
    p = subprocess.run([PY, "-m", "pytest", "-q", "-p", "no:cacheprovider", "-x", "-n", "12"], env=env,
                       capture_output=True, text=True, timeout=1800, cwd=str(dst))
    tail = (p.stdout.strip().splitlines() or [""])[-1]
    return p.returncode == 0, tail


def cmd_import(src, name):
    src = Path(src)
    tmp = tempfile.mkdtemp(prefix="symm_seed_")
    try:
        clean = scratch_copy(tmp)
        rc0, out0 = run_demo(clean, src / "demo.py")
        ok, msg = apply_patch(clean, src / "patch.diff")
        if not ok:
            print("patch does not apply:", msg); return 1
        imp = subprocess.run([PY, "-c", "import symmray"], env=dict(os.environ, PYTHONPATH=str(clean)),
                             capture_output=True, text=True)
        suite_ok, tail = run_suite(clean)
        rc1, out1 = run_demo(clean, src / "demo.py")
        print(f"{name}: import={'ok' if imp.returncode == 0 else 'FAIL'} suite={'pass' if suite_ok else 'FAIL'} ({tail}) "
              f"demo_unmodified={rc0} demo_modified={rc1}")
        if not (imp.returncode == 0 and suite_ok and rc0 == 0 and rc1 != 0):
            print("NOT CONFIRMED", out0[-300:], out1[-300:]); return 1
        d = SEEDED / name
        d.mkdir(parents=True, exist_ok=True)
        shutil.copy(src / "patch.diff", d / "patch.diff")
        shutil.copy(src / "demo.py", d / "demo.py")
        meta = json.loads((src / "meta.json").read_text()) if (src / "meta.json").exists() else {}
        meta["confirmed"] = dict(patch_applies=True, imports=True, test_suite=tail, demo_exit_unmodified=rc0,
                                 demo_exit_modified=rc1, demo_output_modified=out1[-300:],
                                 how="tools/seeded.py import: scratch copy of /repo outside /repo and /verif")
        (d / "meta.json").write_text(json.dumps(meta, indent=1))
        return 0
    finally:
        shutil.rmtree(tmp, ignore_errors=True)


def cmd_run_in_repo(names, tier):
    """the brief's own procedure: git -C /repo apply <patch>; run the home check against /repo; git -C /repo
    checkout -- .  (use only when nothing else reads /repo; evidence/ must be regenerated on the clean tree
    afterwards)"""
    names = names or sorted(p.name for p in SEEDED.iterdir() if (p / "patch.diff").exists())
    for name in names:
        d = SEEDED / name
        meta = json.loads((d / "meta.json").read_text())
        prop = meta.get("property", name[:3])
        if subprocess.run(["git", "-C", "/repo", "status", "--porcelain", "--untracked-files=no"],
                          capture_output=True, text=True).stdout.strip():
            print("refusing: /repo has uncommitted changes"); return
        try:
            a = subprocess.run(["git", "-C", "/repo", "apply", str(d / "patch.diff")], capture_output=True, text=True)
            if a.returncode != 0:
                print(name, "patch does not apply", a.stderr[-300:]); continue
            p = subprocess.run([str(VERIF / "check"), prop, "--tier", tier, "--no-build"], capture_output=True,
                               text=True, timeout=3600)
            viol = [l for l in p.stdout.splitlines() if l.startswith("VIOLATION")]
            tag = "detected" if (p.returncode == 1 and viol) else ("clean" if p.returncode == 0 else f"exit{p.returncode}")
            if viol and "no-failing-input-found" in viol[0]:
                tag += "(no-input)"
            print(name, prop, tag, flush=True)
            meta.setdefault("checks", {})["in_repo_" + tier] = {prop: tag}
            (d / "meta.json").write_text(json.dumps(meta, indent=1))
        finally:
            subprocess.run(["git", "-C", "/repo", "checkout", "--", "."], capture_output=True)


def cmd_run(names, allprops, tier):
    names = names or sorted(p.name for p in SEEDED.iterdir() if (p / "patch.diff").exists())
    props_all = [f"C{i:02d}" for i in range(1, 21)]
    for name in names:
        d = SEEDED / name
        meta = json.loads((d / "meta.json").read_text())
        prop = meta.get("property", name[:3])
        tmp = tempfile.mkdtemp(prefix="symm_seed_")
        try:
            dst = scratch_copy(tmp)
            ok, msg = apply_patch(dst, d / "patch.diff")
            if not ok:
                print(name, "patch does not apply", msg); continue
            res = {}
            for t in (props_all if allprops else [prop]):
                if not (VERIF / "harness" / "props" / f"{t.lower()}.py").exists():
                    continue
                p = subprocess.run([str(VERIF / "check"), t, "--tier", tier, "--no-build"],
                                   env=dict(os.environ, SYMMRAY_REPO=str(dst)), capture_output=True, text=True,
                                   timeout=3600)
                viol = [l for l in p.stdout.splitlines() if l.startswith("VIOLATION")]
                tag = "detected" if (p.returncode == 1 and viol) else ("clean" if p.returncode == 0 else f"exit{p.returncode}")
                if viol and "no-failing-input-found" in viol[0]:
                    tag += "(no-input)"
                res[t] = tag
                print(name, t, tag, flush=True)
            meta.setdefault("checks", {})[tier] = dict(meta.get("checks", {}).get(tier, {}), **res)
            (d / "meta.json").write_text(json.dumps(meta, indent=1))
        finally:
            shutil.rmtree(tmp, ignore_errors=True)


if __name__ == "__main__":
    a = sys.argv[1:]
    if a and a[0] == "import":
        sys.exit(cmd_import(a[1], a[2]))
    if a and a[0] == "run":
        rest = [x for x in a[1:] if not x.startswith("--")]
        tier = "thorough" if "--thorough" in a else "quick"
        if "--in-repo" in a:
            cmd_run_in_repo(rest, tier)
        else:
            cmd_run(rest, "--all-props" in a, tier)
