#!/venv/bin/python
"""Regenerate the machine-written blocks of DESIGN.md (between `<!-- AUTO:name -->` and `<!-- /AUTO:name -->`):
  proof-status : per property, number of audited theorems, what they state, what remains planned
  seeded       : per seeded change, which checks detect it (from seeded/<id>/meta.json)
  fixes        : fixed / known entries of known_findings.json
"""
import importlib, json, re, sys
from pathlib import Path

V = Path(__file__).resolve().parent.parent
sys.path.insert(0, str(V)); sys.path.insert(0, "/repo")
claims = json.loads((V / "tools" / "claims.json").read_text())
props = [json.loads(l) for l in (V / "properties.jsonl").read_text().splitlines() if l.strip()]


def proof_status():
    rows = ["| id | audited theorems | proved for all inputs (about the model) | not yet a theorem (tied by correspondence only) |", "|---|---|---|---|"]
    total = 0
    for p in props:
        pid = p["id"]
        mod = importlib.import_module(f"harness.props.{pid.lower()}")
        n = len(mod.THEOREMS); total += n
        text = claims[pid]["text"].replace("{n}", str(n))
        proved = text.split("Correspondence:")[0].replace("Proof:", "").strip()
        proved = re.sub(r"Remaining theorem gaps:.*$", "", proved).strip()
        planned = "; ".join(getattr(mod, "PLANNED", [])) or "—"
        rows.append(f"| {pid} | {n} | {proved} | {planned} |")
    rows.append(f"\nTotal: {total} audited theorems.")
    return "\n".join(rows)


def seeded():
    rows = ["| change | property | home check (quick) | other checks that detect it |", "|---|---|---|---|"]
    nd = n = 0
    for d in sorted((V / "seeded").iterdir()):
        mp = d / "meta.json"
        if not mp.exists():
            continue
        m = json.loads(mp.read_text())
        prop = m.get("property", d.name[:3])
        q = m.get("checks", {}).get("quick", {})
        home = q.get(prop, "not run")
        others = [k for k, v in sorted(q.items()) if k != prop and v.startswith("detected")]
        n += 1; nd += home.startswith("detected")
        rows.append(f"| {d.name} | {prop} | {home} | {', '.join(others) or '—'} |")
    rows.append(f"\n{nd} of {n} seeded changes are detected by the quick check of their own property.")
    return "\n".join(rows)


def fixes():
    k = json.loads((V / "known_findings.json").read_text())
    rows = ["| status | property | id | commit | what |", "|---|---|---|---|---|"]
    for e in k:
        rows.append(f"| {e['status']} | {e['property']} | {e['id']} | {e.get('commit', '')} | {e['what'].replace('|', '/')[:400]} |")
    return "\n".join(rows)


def refactors():
    rows = ["| name | what was refactored | result (quick tier, all twenty checks) |", "|---|---|---|"]
    n = ok = 0
    for d in sorted((V / "refactors").iterdir()):
        mp = d / "meta.json"
        if not mp.exists():
            continue
        m = json.loads(mp.read_text())
        q = m.get("checks", {}).get("quick", {})
        clean = len(q) == 20 and all(v == "clean" for v in q.values())
        n += 1; ok += clean
        res = "all 20 checks exit 0" if clean else ("not run" if not q else str({k: v for k, v in q.items() if v != "clean"}))
        rows.append(f"| {d.name} | {str(m.get('what', '')).replace('|', '/')[:330]} | {res} |")
    rows.append(f"\n{ok} of {n} refactorings leave all twenty checks at exit 0 with no VIOLATION line.")
    return "\n".join(rows)


gens = {"proof-status": proof_status, "seeded": seeded, "fixes": fixes, "refactors": refactors}
s = (V / "DESIGN.md").read_text()
for name, fn in gens.items():
    pat = re.compile(rf"(<!-- AUTO:{name} -->\n).*?(<!-- /AUTO:{name} -->)", re.S)
    if not pat.search(s):
        print("marker missing:", name); continue
    body = fn()
    s = pat.sub(lambda m: m.group(1) + body + "\n" + m.group(2), s)
(V / "DESIGN.md").write_text(s)
print("DESIGN.md blocks regenerated")
