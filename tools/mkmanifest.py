#!/venv/bin/python
"""Write /verif/MANIFEST.json from the property modules (level, theorem lists) and a table of
claim texts kept here."""
import importlib, json, sys
from pathlib import Path

VERIF = Path(__file__).resolve().parent.parent
sys.path.insert(0, str(VERIF))
sys.path.insert(0, "/repo")

CLAIMS = json.loads((VERIF / "tools" / "claims.json").read_text())
props = [json.loads(l) for l in (VERIF / "properties.jsonl").read_text().splitlines() if l.strip()]
checks = []
na = []
for p in props:
    pid = p["id"]
    f = VERIF / "harness" / "props" / f"{pid.lower()}.py"
    if not f.exists() or pid not in CLAIMS:
        na.append({"property_id": pid, "reason": CLAIMS.get(pid + ":na", "check not built yet in this round (Lean model + correspondence planned, see DESIGN.md §5)")})
        continue
    mod = importlib.import_module(f"harness.props.{pid.lower()}")
    level = "proof" if (getattr(mod, "LEVEL", "") == "proof" and getattr(mod, "THEOREMS", [])) else "translation_validation"
    c = dict(CLAIMS[pid])
    planned = getattr(mod, "PLANNED", [])
    c["text"] = c["text"].replace("{n}", str(len(getattr(mod, "THEOREMS", [])))).replace(
        "{planned}", "; ".join(planned) if planned else "none recorded")
    checks.append({
        "property_id": pid,
        "quick_cmd": f"./check {pid} --tier quick",
        "thorough_cmd": f"./check {pid} --tier thorough",
        "evidence_file": f"evidence/{pid}.json",
        "replay_cmd_template": f"./check {pid} --replay {{path}}",
        "engine": "lean-model+correspondence",
        "level_claimed": {"category": level, "text": c["text"], "design_ref": f"DESIGN.md §5 {pid}"},
        "level_note": c["note"],
        "technique": c["technique"],
    })
manifest = {
    "version": 1,
    "setup_cmd": "cd lean && lake build && lake build SymmModel.Gen.Tie",
    "notes": "Lean 4 model SymmModel (lean/) with property theorems in lean/SymmModel/Props, native driver "
             "lean/.lake/build/bin/drv, Python correspondence harness (harness/). See DESIGN.md.",
    "hooks": {
        "guard": "SYMMRAY_VERIF",
        "enable": "no source hooks are needed: checks import symmray from /repo's working tree (PYTHONPATH=/repo); thread schedules are forced from the harness by replacing a module-level dict",
        "baseline_off_cmd": "cd /repo && /venv/bin/python -m pytest -ra -q -p no:cacheprovider --timeout=900 --continue-on-collection-errors",
        "source_commits": [],
        "add_only": True,
    },
    "engines": [{
        "name": "lean-model+correspondence", "path": "lean/",
        "serves_properties": [c["property_id"] for c in checks],
        "kind_free_text": "hand-written executable Lean 4 model + kernel-checked theorems (lake build, #print axioms audit); compiled driver run against the real symmray on the same inputs by harness/",
    }],
    "checks": checks,
    "not_applicable": na,
}
(VERIF / "MANIFEST.json").write_text(json.dumps(manifest, indent=1))
print(len(checks), "checks;", len(na), "not claimed")
