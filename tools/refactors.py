#!/venv/bin/python
"""Negative controls: behaviour-preserving refactorings written by sub-agents.

  tools/refactors.py import <src_dir> <name>   # src_dir holds patch.diff, meta.json (equiv.py optional)
  tools/refactors.py run [name ...] [--tier quick]

`import` confirms on a scratch copy of /repo (outside /repo and /verif, removed afterwards) that the patch applies,
the package imports and the library's test suite passes with it, then stores it under /verif/refactors/<name>/.
`run` applies each stored patch to a scratch copy and runs ALL twenty checks against it: every check must exit 0.
"""
import json, os, shutil, subprocess, sys, tempfile
from pathlib import Path

sys.path.insert(0, str(Path(__file__).resolve().parent))
from seeded import VERIF, PY, scratch_copy, apply_patch, run_suite  # noqa

REF = VERIF / "refactors"


def cmd_import(src, name):
    src = Path(src)
    tmp = tempfile.mkdtemp(prefix="symm_refac_")
    try:
        dst = scratch_copy(tmp)
        ok, msg = apply_patch(dst, src / "patch.diff")
        if not ok:
            print(name, "patch does not apply:", msg); return 1
        imp = subprocess.run([PY, "-c", "import symmray"], env=dict(os.environ, PYTHONPATH=str(dst)), capture_output=True)
        suite_ok, tail = run_suite(dst)
        print(f"{name}: import={'ok' if imp.returncode == 0 else 'FAIL'} suite={'pass' if suite_ok else 'FAIL'} ({tail})")
        if imp.returncode or not suite_ok:
            return 1
        d = REF / name
        d.mkdir(parents=True, exist_ok=True)
        shutil.copy(src / "patch.diff", d / "patch.diff")
        if (src / "equiv.py").exists():
            shutil.copy(src / "equiv.py", d / "equiv.py")
        meta = json.loads((src / "meta.json").read_text()) if (src / "meta.json").exists() else {}
        meta["confirmed"] = dict(patch_applies=True, imports=True, test_suite=tail)
        (d / "meta.json").write_text(json.dumps(meta, indent=1))
        return 0
    finally:
        shutil.rmtree(tmp, ignore_errors=True)


def cmd_run(names, tier):
    names = names or sorted(p.name for p in REF.iterdir() if (p / "patch.diff").exists())
    for name in names:
        d = REF / name
        meta = json.loads((d / "meta.json").read_text())
        tmp = tempfile.mkdtemp(prefix="symm_refac_")
        try:
            dst = scratch_copy(tmp)
            ok, msg = apply_patch(dst, d / "patch.diff")
            if not ok:
                print(name, "patch does not apply", msg); continue
            res = {}
            for i in range(1, 21):
                t = f"C{i:02d}"
                p = subprocess.run([str(VERIF / "check"), t, "--tier", tier, "--no-build"],
                                   env=dict(os.environ, SYMMRAY_REPO=str(dst)), capture_output=True, text=True, timeout=3600)
                viol = [l for l in p.stdout.splitlines() if l.startswith("VIOLATION")]
                tag = "clean" if p.returncode == 0 and not viol else ("ALARM" + ("(no-input)" if viol and "no-failing-input-found" in viol[0] else "") if viol else f"exit{p.returncode}")
                res[t] = tag
                if tag != "clean":
                    print(name, t, tag, (viol or [""])[0][:200], flush=True)
            meta.setdefault("checks", {})[tier] = res
            (d / "meta.json").write_text(json.dumps(meta, indent=1))
            print(name, "all clean" if all(v == "clean" for v in res.values()) else "NOT CLEAN", flush=True)
        finally:
            shutil.rmtree(tmp, ignore_errors=True)


if __name__ == "__main__":
    a = sys.argv[1:]
    if a and a[0] == "import":
        sys.exit(cmd_import(a[1], a[2]))
    if a and a[0] == "run":
        cmd_run([x for x in a[1:] if not x.startswith("--")], "thorough" if "--thorough" in a else "quick")
