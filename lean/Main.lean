import SymmModel.Driver.Main
import SymmModel.Driver.SymH
import SymmModel.Driver.HamH
import SymmModel.Driver.TruncH
import SymmModel.Driver.FermiOpsH
import SymmModel.Driver.ReshapeH
import SymmModel.Driver.CacheH
import SymmModel.Driver.HeapH
import SymmModel.Driver.Heap2H
import SymmModel.Driver.DTypeFlowH
import SymmModel.Driver.CheckH
import SymmModel.Driver.RandH
import SymmModel.Driver.SparseH
open Lean SymmModel.Driver

/-- plug-in handlers of the self-contained property models are tried in order -/
def handlers : List (String → Json → Option (D Json)) := [handleCore, handleSym, handleHam, handleTrunc, handleFermiOps, handleReshape, handleCache, handleHeap, handleHeap2, handleDFlow, handleCheck, handleRand, handleSparse]

def handleLine (line : String) : Json :=
  match Json.parse line with
  | .error e => Json.mkObj [("bad", Json.str s!"parse: {e}")]
  | .ok j =>
    let id := (j.getObjVal? "id").toOption.getD Json.null
    match j.getObjVal? "kind" with
    | .ok (.str kind) =>
      match handlers.findSome? (fun h => h kind j) with
      | none => Json.mkObj [("id", id), ("bad", Json.str s!"unknown kind {kind}")]
      | some (.error e) => Json.mkObj [("id", id), ("bad", Json.str e)]
      | some (.ok (.obj kvs)) => Json.obj (kvs.insert "id" id)
      | some (.ok r) => Json.mkObj [("id", id), ("result", r)]
    | _ => Json.mkObj [("id", id), ("bad", Json.str "missing kind")]

partial def loop (hin hout : IO.FS.Stream) : IO Unit := do
  let line ← hin.getLine
  if line.isEmpty then return ()
  if line.trimAscii.isEmpty then loop hin hout else
  hout.putStrLn (handleLine line).compress
  loop hin hout

def main : IO Unit := do
  let hin ← IO.getStdin
  let hout ← IO.getStdout
  loop hin hout
  hout.flush
