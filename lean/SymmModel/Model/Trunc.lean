/-
  SymmModel.Model.Trunc — the selection logic of `svd_truncated` over exact rationals.
  Python: symmray/linalg.py  `argsort` (:211), `calc_sub_max_bonds` (:216),
  `svd_truncated` (:239, lines 274–342: which singular values are kept).

  Input of the model: `s : List (Charge × List Rat)` = `s.blocks` of the untruncated `svd`
  in dict order (one entry per stored block of `x`, keyed by the column charge), each with
  the singular values of that block as LAPACK returns them (non-increasing: `SortedDesc`).

  What is *not* modelled here (stated contract, validated numerically by the harness):
  float rounding inside `np.sort`/`np.cumsum`/the comparisons, and inside
  `int(frac * sz)` of `calc_sub_max_bonds` (modelled as the exact floor, see `baseSplit`).

  THE SWITCH.  Line 305 was `abs_cutoff = sall[-n_chi_all]`; with `n_chi_all = 0` Python's
  `-0 == 0` made this `sall[0]`, the *smallest* value, so everything was kept (DESIGN §8 #9).
  Repaired in repo commit 4bfec24: `abs_cutoff = sall[-max(int(n_chi_all), 1)]`.
  Every definition below takes `fix : Bool`: `fix = true` is the code as it stands now,
  `fix = false` the code before the repair (kept for the regression counterexample).  The only
  place where `fix` is looked at is `nChiAdjust`.  `wrapFixed` selects which of the two
  `keepCounts` denotes.
-/
import SymmModel.Model.Sym
namespace SymmModel

/-- the exceptions `svd_truncated`'s selection logic can raise -/
inductive TruncErr where
  | key      -- `{3: 2, 4: 2, 5: 1, 6: 1}[cutoff_mode]` with an unknown mode
  | index    -- `sall[-1]`, `cum_spow[-1]`, `sall[-0]` on an empty array
  | zerodiv  -- `max_bond / sum(sizes)` with no singular values at all
  deriving DecidableEq, Repr, Inhabited

/-- **THE SWITCH** (finding #9): `true` = `sall[-max(n_chi_all, 1)]` as in the repo today
    (commit 4bfec24), `false` = `sall[-n_chi_all]` as before the repair (wraps for
    `n_chi_all = 0`). -/
def wrapFixed : Bool := true

/-- the single branch that differs between the two behaviours -/
def nChiAdjust (fix : Bool) (n : Nat) : Nat :=
  if fix then max n 1 else n   -- <<< n = 0 case: `else n` is the old wrap-around `sall[-0]`

/-! ### numpy pieces -/

def leRat (a b : Rat) : Bool := decide (a ≤ b)
def ltRat (a b : Rat) : Bool := decide (a < b)

/-- `np.sort` (ascending); the result depends only on the multiset of values, so the
    (structurally recursive, kernel-reducible) stable insertion sort of `Basic` is used -/
def sortAsc (l : List Rat) : List Rat := isort ltRat l

/-- `BlockVector.to_dense`: blocks concatenated in sorted charge order -/
def toDense (s : List (Charge × List Rat)) : List Rat :=
  (isort (fun a b => Charge.lt a.1 b.1) s).flatMap (·.2)

/-- line 276–277: `sall = sort(s.to_dense())` -/
def sall (s : List (Charge × List Rat)) : List Rat := sortAsc (toDense s)

/-- `np.cumsum` (running sums, left to right, starting from `acc`) -/
def cumsumFrom (acc : Rat) : List Rat → List Rat
  | [] => []
  | x :: xs => (acc + x) :: cumsumFrom (acc + x) xs

def cumsum (l : List Rat) : List Rat := cumsumFrom 0 l

/-- `a[-n]` for a 1-d numpy array and `n ≥ 0`: position `len - n` for `1 ≤ n ≤ len`,
    **position 0 for `n = 0`** (`-0 == 0`), `IndexError` otherwise. -/
def negIndex (a : List Rat) (n : Nat) : Except TruncErr Rat :=
  if a.length < n then .error .index else
  match a[(if n = 0 then 0 else a.length - n)]? with
  | some v => .ok v
  | none => .error .index

/-- `count_nonzero(a >= t)` -/
def countGe (t : Rat) (a : List Rat) : Nat := a.countP (fun v => leRat t v)

/-! ### lines 279–305: the cutoff rule → an absolute threshold -/

/-- `sall ** power` (lines 287–293); modes 3, 4 square, modes 5, 6 do not -/
def weights (mode : Nat) (sa : List Rat) : List Rat :=
  if mode = 3 ∨ mode = 4 then sa.map (fun x => x * x) else sa

/-- right-hand side of `cond` (lines 295–300): `cutoff * cum_spow[-1]` for the relative modes
    4 and 6, `cutoff` for 3 and 5 -/
def condRhs (mode : Nat) (cum : List Rat) (cutoff : Rat) : Except TruncErr Rat :=
  if mode = 4 ∨ mode = 6 then
    match negIndex cum 1 with
    | .ok tot => .ok (cutoff * tot)
    | .error e => .error e
  else .ok cutoff

/-- line 303: `n_chi_all = count_nonzero(cum_spow >= rhs)` -/
def nChiAll (mode : Nat) (sa : List Rat) (cutoff : Rat) : Except TruncErr Nat :=
  let cum := cumsum (weights mode sa)
  match condRhs mode cum cutoff with
  | .ok rhs => .ok (countGe rhs cum)
  | .error e => .error e

/-- lines 279–305: `abs_cutoff` before the bond limit is looked at -/
def ruleThreshold (fix : Bool) (sa : List Rat) (cutoff : Rat) (mode : Nat) :
    Except TruncErr Rat :=
  if mode = 1 then .ok cutoff
  else if mode = 2 then
    match negIndex sa 1 with
    | .ok top => .ok (top * cutoff)
    | .error e => .error e
  else if mode = 3 ∨ mode = 4 ∨ mode = 5 ∨ mode = 6 then
    match nChiAll mode sa cutoff with
    | .ok n => negIndex sa (nChiAdjust fix n)
    | .error e => .error e
  else .error .key

/-- lines 307–311: `if 0 < max_bond < size(sall): abs_cutoff = max(abs_cutoff, sall[-max_bond])` -/
def bondClamp (sa : List Rat) (t : Rat) (maxBond : Int) : Rat :=
  if 0 < maxBond ∧ maxBond < (sa.length : Int) then
    match negIndex sa maxBond.toNat with
    | .ok b => if t < b then b else t
    | .error _ => t      -- unreachable: 1 ≤ maxBond < len
  else t

/-- the final `abs_cutoff` of lines 274–311 -/
def threshold (fix : Bool) (s : List (Charge × List Rat)) (cutoff : Rat) (mode : Nat)
    (maxBond : Int) : Except TruncErr Rat :=
  match ruleThreshold fix (sall s) cutoff mode with
  | .ok t => .ok (bondClamp (sall s) t maxBond)
  | .error e => .error e

/-- lines 313–317: per-sector `count_nonzero(ss >= abs_cutoff)`, in the order of `s`.
    When the threshold computation raises, no counts exist: `[]` (see `threshold`). -/
def keepCountsG (fix : Bool) (s : List (Charge × List Rat)) (cutoff : Rat) (mode : Nat)
    (maxBond : Int) : List Nat :=
  match threshold fix s cutoff mode maxBond with
  | .ok t => s.map (fun p => countGe t p.2)
  | .error _ => []

/-- `sub_max_bonds` of the `cutoff > 0` branch for the code selected by `wrapFixed` -/
def keepCounts (s : List (Charge × List Rat)) (cutoff : Rat) (mode : Nat) (maxBond : Int) :
    List Nat :=
  keepCountsG wrapFixed s cutoff mode maxBond

/-! ### `calc_sub_max_bonds` (no-cutoff branch) -/

def sumNat (l : List Nat) : Nat := l.foldr (· + ·) 0

/-- `argsort(seq) = sorted(range(len(seq)), key=seq.__getitem__)` — a stable sort -/
def argsortNat (l : List Nat) : List Nat :=
  isort (fun i j => decide (l.getD i 0 < l.getD j 0)) (List.range l.length)

/-- `[int(frac * sz) for sz in sizes]` with `frac = max_bond / sum(sizes)`, modelled exactly:
    `floor(max_bond * sz / total)`.  Python computes this in double precision
    (`fl(fl(mb / total) * sz)` then truncation), which can give one less when the exact
    quotient is an integer; the harness compares both exhaustively for `sum(sizes) ≤ 24`. -/
def baseSplit (sizes : List Nat) (mb : Nat) : List Nat :=
  sizes.map (fun sz => mb * sz / sumNat sizes)

/-- `sub_max_bonds[i] += 1` -/
def bump (l : List Nat) (i : Nat) : List Nat := l.modify i (· + 1)

/-- lines 216–236 -/
def calcSubMaxBonds (sizes : List Nat) (maxBond : Int) : List Nat :=
  if maxBond < 0 then sizes
  else if sumNat sizes ≤ maxBond.toNat then sizes      -- `frac >= 1.0` (or ZeroDivisionError, see below)
  else
    let base := baseSplit sizes maxBond.toNat
    let rem := maxBond.toNat - sumNat base
    ((argsortNat base).take rem).foldl bump base

/-- `max_bond / sum(sizes)` raises `ZeroDivisionError` when there is no singular value -/
def calcSubMaxBondsRaises (sizes : List Nat) (maxBond : Int) : Bool :=
  decide (0 ≤ maxBond) && sumNat sizes == 0

/-! ### the whole of lines 274–342 -/

/-- `sub_max_bonds` for either branch (line 274: `if cutoff > 0.0`) -/
def truncCounts (fix : Bool) (s : List (Charge × List Rat)) (cutoff : Rat) (mode : Nat)
    (maxBond : Int) : Except TruncErr (List Nat) :=
  if 0 < cutoff then
    match threshold fix s cutoff mode maxBond with
    | .ok t => .ok (s.map (fun p => countGe t p.2))
    | .error e => .error e
  else if calcSubMaxBondsRaises (s.map (·.2.length)) maxBond then .error .zerodiv
  else .ok (calcSubMaxBonds (s.map (·.2.length)) maxBond)

/-- lines 335–337: the kept values of each sector, `s.blocks[c1][:n_chi]` -/
def keptValues (s : List (Charge × List Rat)) (counts : List Nat) : List (List Rat) :=
  List.zipWith (fun p n => p.2.take n) s counts

/-- the discarded values of each sector -/
def droppedValues (s : List (Charge × List Rat)) (counts : List Nat) : List (List Rat) :=
  List.zipWith (fun p n => p.2.drop n) s counts

/-- lines 324–342: `new_inner_chargemap = dict(sorted({c1: n_chi, n_chi != 0}.items()))` -/
def bondChargemap (s : List (Charge × List Rat)) (counts : List Nat) : List (Charge × Nat) :=
  isort (fun a b => Charge.lt a.1 b.1) (((s.map (·.1)).zip counts).filter (fun p => p.2 != 0))

/-- hypothesis of the LAPACK contract: singular values of a block come non-increasing -/
def SortedDesc (l : List Rat) : Prop := l.Pairwise (fun a b => b ≤ a)

/-- singular values are non-negative -/
def NonNeg (l : List Rat) : Prop := ∀ x ∈ l, 0 ≤ x

end SymmModel
