/-
  SymmModel.Model.Ham — edge-wise Hamiltonian builders and the site description derived from
  an edge list (property C19).  Core Lean only.

  Python counterparts
    symmray/hamiltonians.py : make_edge_factory, make_node_factory, the `coordinations` loop,
        ham_fermi_hubbard_from_edges, ham_fermi_hubbard_spinless_from_edges, ham_tfim_from_edges,
        tfim_local_array (its three-term sum), ham_heisenberg_from_edges
    symmray/fermionic_local_operators.py : the `terms` lists of fermi_hubbard_local_array and
        fermi_hubbard_spinless_local_array (how t, U, V, mu and `coordinations` enter)
    symmray/networks.py : parse_edges_to_site_info

  Sites are rank-encoded labels (the harness replaces every label by its rank among the labels
  of the case in Python's own order, which is all `sorted(edges)` and `sitea > siteb` look at).
  Operators are *symbolic*: a term is (coefficient, kind, sites); the local labels "a"/"b" of the
  two-site constructor are replaced by the global sites the builder passes for them
  (a ↦ first element of the edge as given, b ↦ second).
-/
import SymmModel.Model.Basic
namespace SymmModel

abbrev Site := Nat
abbrev Edge := Site × Site

/-! ### coordination counting

    coordinations = {}
    for cooa, coob in edges:
        coordinations[cooa] = coordinations.setdefault(cooa, 0) + 1
        coordinations[coob] = coordinations.setdefault(coob, 0) + 1
-/

def coordStep (acc : List (Site × Nat)) (e : Edge) : List (Site × Nat) :=
  let acc1 := ainsert acc e.1 ((alookup acc e.1).getD 0 + 1)
  ainsert acc1 e.2 ((alookup acc1 e.2).getD 0 + 1)

def coordTable (edges : List Edge) : List (Site × Nat) := edges.foldl coordStep []

/-- `coordinations[v]` (`none` = KeyError) -/
def coordination (edges : List Edge) (v : Site) : Option Nat := alookup (coordTable edges) v

/-- specification side: number of edge ends at `v` (a self-loop counts twice) -/
def degree : List Edge → Site → Nat
  | [], _ => 0
  | e :: es, v => (if e.1 = v then 1 else 0) + (if e.2 = v then 1 else 0) + degree es v

/-- the vertex set as a duplicate-free list -/
def sitesOf : List Edge → List Site
  | [] => []
  | e :: es =>
    let r := sitesOf es
    let r1 := if e.1 ∈ r then r else e.1 :: r
    if e.2 ∈ r1 then r1 else e.2 :: r1

/-- no self-loop and no edge twice, in either orientation -/
def simpleB : List Edge → Bool
  | [] => true
  | e :: es => e.1 != e.2 && !es.contains e && !es.contains (e.2, e.1) && simpleB es

/-! ### coefficient factories (`make_edge_factory`, `make_node_factory`) -/

inductive EdgeCoef where
  | scalar (c : Rat)
  | dict (d : List (Edge × Rat))
  | fn (f : Site → Site → Rat)

inductive NodeCoef where
  | scalar (c : Rat)
  | dict (d : List (Site × Rat))
  | fn (f : Site → Rat)

/-- `edge_factory(cooa, coob)`: `t[(cooa, coob)]`, on KeyError `t[(coob, cooa)]`;
    `none` = the second KeyError escapes. -/
def EdgeCoef.get : EdgeCoef → Site → Site → Option Rat
  | .scalar c, _, _ => some c
  | .dict d, a, b =>
    match alookup d (a, b) with
    | some x => some x
    | none => alookup d (b, a)
  | .fn f, a, b => some (f a b)

/-- `node_factory(coo)` -/
def NodeCoef.get : NodeCoef → Site → Option Rat
  | .scalar c, _ => some c
  | .dict d, v => alookup d v
  | .fn f, v => some (f v)

/-! ### symbolic operator terms -/

inductive Spin where
  | up | dn | none
  deriving DecidableEq, Repr, Inhabited

inductive Kind where
  | hop (s : Spin)   -- c†_{x,s} c_{y,s}        sites [x, y]
  | nn               -- n_x n_y                  sites [x, y]
  | dbl              -- n_{x,up} n_{x,dn}        sites [x]
  | num (s : Spin)   -- n_{x,s}                  sites [x]
  | xx               -- X_x X_y                  sites [x, y]
  | zf               -- Z_x                      sites [x]
  deriving DecidableEq, Repr, Inhabited

structure Term where
  coef : Rat
  kind : Kind
  sites : List Site
  deriving DecidableEq, Repr, Inhabited

/-- arguments handed to the two-site constructor for one edge -/
structure LocalArgs where
  t : Rat      -- t   (jx for the TFIM)
  v : Rat      -- V   (spinless only; 0 otherwise)
  ua : Rat     -- U[0]  (hz[0] for the TFIM)
  ub : Rat     -- U[1]
  mua : Rat    -- mu[0]
  mub : Rat    -- mu[1]
  ca : Nat     -- coordinations[0]
  cb : Nat     -- coordinations[1]
  deriving DecidableEq, Repr, Inhabited

/-- `terms` of `fermi_hubbard_local_array`, in the order of the source, with a ↦ x, b ↦ y. -/
def hubbardLocalTerms (x y : Site) (g : LocalArgs) : List Term :=
  [ ⟨-g.t, .hop .up, [x, y]⟩,
    ⟨-g.t, .hop .up, [y, x]⟩,
    ⟨-g.t, .hop .dn, [x, y]⟩,
    ⟨-g.t, .hop .dn, [y, x]⟩,
    ⟨g.ua / (g.ca : Rat), .dbl, [x]⟩,
    ⟨g.ub / (g.cb : Rat), .dbl, [y]⟩,
    ⟨-g.mua / (g.ca : Rat), .num .up, [x]⟩,
    ⟨-g.mua / (g.ca : Rat), .num .dn, [x]⟩,
    ⟨-g.mub / (g.cb : Rat), .num .up, [y]⟩,
    ⟨-g.mub / (g.cb : Rat), .num .dn, [y]⟩ ]

/-- `terms` of `fermi_hubbard_spinless_local_array`. -/
def spinlessLocalTerms (x y : Site) (g : LocalArgs) : List Term :=
  [ ⟨-g.t, .hop .none, [x, y]⟩,
    ⟨-g.t, .hop .none, [y, x]⟩,
    ⟨g.v, .nn, [x, y]⟩,
    ⟨-g.mua / (g.ca : Rat), .num .none, [x]⟩,
    ⟨-g.mub / (g.cb : Rat), .num .none, [y]⟩ ]

/-- the three summands of `tfim_local_array`: jx X⊗X + (ha/c0) Z⊗I + (hb/c1) I⊗Z -/
def tfimLocalTerms (x y : Site) (g : LocalArgs) : List Term :=
  [ ⟨g.t, .xx, [x, y]⟩,
    ⟨g.ua / (g.ca : Rat), .zf, [x]⟩,
    ⟨g.ub / (g.cb : Rat), .zf, [y]⟩ ]

/-- Option-valued map that stops at the first failure (a dict comprehension whose value
    expression may raise). -/
def mapOpt {α β : Type} (f : α → Option β) : List α → Option (List β)
  | [] => some []
  | a :: as =>
    match f a with
    | none => none
    | some b =>
      match mapOpt f as with
      | none => none
      | some bs => some (b :: bs)

/-! ### the builders

    Arguments of the constructor call are evaluated left to right:
    t_factory(a,b), U_factory(a), U_factory(b), mu_factory(a), mu_factory(b),
    coordinations[a], coordinations[b].  All failures are KeyErrors (`none`). -/

def hubbardArgs (edges : List Edge) (t : EdgeCoef) (U mu : NodeCoef) (e : Edge) :
    Option LocalArgs := do
  let tv ← t.get e.1 e.2
  let ua ← U.get e.1
  let ub ← U.get e.2
  let ma ← mu.get e.1
  let mb ← mu.get e.2
  let ca ← coordination edges e.1
  let cb ← coordination edges e.2
  pure ⟨tv, 0, ua, ub, ma, mb, ca, cb⟩

def spinlessArgs (edges : List Edge) (t V : EdgeCoef) (mu : NodeCoef) (e : Edge) :
    Option LocalArgs := do
  let tv ← t.get e.1 e.2
  let vv ← V.get e.1 e.2
  let ma ← mu.get e.1
  let mb ← mu.get e.2
  let ca ← coordination edges e.1
  let cb ← coordination edges e.2
  pure ⟨tv, vv, 0, 0, ma, mb, ca, cb⟩

def tfimArgs (edges : List Edge) (jx : EdgeCoef) (hz : NodeCoef) (e : Edge) :
    Option LocalArgs := do
  let j ← jx.get e.1 e.2
  let ha ← hz.get e.1
  let hb ← hz.get e.2
  let ca ← coordination edges e.1
  let cb ← coordination edges e.2
  pure ⟨j, 0, ha, hb, 0, 0, ca, cb⟩

/-- the items of the dict comprehension, in comprehension order, keyed by the edge as given -/
def edgeItems (args : Edge → Option LocalArgs) (terms : Site → Site → LocalArgs → List Term)
    (edges : List Edge) : Option (List (Edge × LocalArgs × List Term)) :=
  mapOpt (fun e => (args e).map (fun g => (e, g, terms e.1 e.2 g))) edges

/-- the returned dict (a later duplicate key overwrites the value, first position kept) -/
def edgeDict (args : Edge → Option LocalArgs) (terms : Site → Site → LocalArgs → List Term)
    (edges : List Edge) : Option (List (Edge × LocalArgs × List Term)) :=
  (edgeItems args terms edges).map adict

/-- `ham_fermi_hubbard_from_edges(symmetry, edges, t, U, mu)` -/
def hamHubbard (edges : List Edge) (t : EdgeCoef) (U mu : NodeCoef) :=
  edgeDict (hubbardArgs edges t U mu) hubbardLocalTerms edges

/-- `ham_fermi_hubbard_spinless_from_edges(symmetry, edges, t, V, mu)` -/
def hamSpinless (edges : List Edge) (t V : EdgeCoef) (mu : NodeCoef) :=
  edgeDict (spinlessArgs edges t V mu) spinlessLocalTerms edges

/-- `ham_tfim_from_edges(symmetry, edges, jx, hz)` -/
def hamTfim (edges : List Edge) (jx : EdgeCoef) (hz : NodeCoef) :=
  edgeDict (tfimArgs edges jx hz) tfimLocalTerms edges

/-- `ham_heisenberg_from_edges`: every edge is mapped to the same two-site operator. -/
def hamHeisenberg {α : Type} (edges : List Edge) (h2 : α) : List (Edge × α) :=
  adict (edges.map (fun e => (e, h2)))

/-- all terms of a returned dict -/
def allTerms (H : List (Edge × LocalArgs × List Term)) : List Term := H.flatMap (·.2.2)

/-- coefficient of the monomial `(k, s)` in a term list read as a formal polynomial -/
def coefAt (ts : List Term) (k : Kind) (s : List Site) : Rat :=
  (ts.map (fun t => if t.kind = k ∧ t.sites = s then t.coef else 0)).sum

/-! ### lattice Hamiltonians (specification side) -/

def latticeHubbard (edges : List Edge) (tb : Site → Site → Rat) (U mu : Site → Rat) : List Term :=
  edges.flatMap (fun e =>
    [ ⟨-tb e.1 e.2, .hop .up, [e.1, e.2]⟩, ⟨-tb e.1 e.2, .hop .up, [e.2, e.1]⟩,
      ⟨-tb e.1 e.2, .hop .dn, [e.1, e.2]⟩, ⟨-tb e.1 e.2, .hop .dn, [e.2, e.1]⟩ ])
  ++ (sitesOf edges).flatMap (fun v =>
    [ ⟨U v, .dbl, [v]⟩, ⟨-mu v, .num .up, [v]⟩, ⟨-mu v, .num .dn, [v]⟩ ])

def latticeSpinless (edges : List Edge) (tb vb : Site → Site → Rat) (mu : Site → Rat) : List Term :=
  edges.flatMap (fun e =>
    [ ⟨-tb e.1 e.2, .hop .none, [e.1, e.2]⟩, ⟨-tb e.1 e.2, .hop .none, [e.2, e.1]⟩,
      ⟨vb e.1 e.2, .nn, [e.1, e.2]⟩ ])
  ++ (sitesOf edges).flatMap (fun v => [ ⟨-mu v, .num .none, [v]⟩ ])

def latticeTfim (edges : List Edge) (jb : Site → Site → Rat) (hz : Site → Rat) : List Term :=
  edges.flatMap (fun e => [ ⟨jb e.1 e.2, .xx, [e.1, e.2]⟩ ])
  ++ (sitesOf edges).flatMap (fun v => [ ⟨hz v, .zf, [v]⟩ ])

/-! ### parse_edges_to_site_info -/

inductive IndName where
  | bond (a b : Site)     -- bond_ind_id.format(a, b)
  | phys (v : Site)       -- site_ind_id.format(v)
  deriving DecidableEq, Repr, Inhabited

/-- one entry of the three parallel lists "inds" / "duals" / "shape" -/
structure Leg where
  name : IndName
  dual : Nat
  dim : Nat
  deriving DecidableEq, Repr, Inhabited

structure SiteInfo where
  legs : List Leg
  coordination : Nat
  tag : Site            -- site_tag_id.format(site)
  deriving DecidableEq, Repr, Inhabited

/-- Python's `<` on 2-tuples -/
def edgeLt (e f : Edge) : Bool := e.1 < f.1 || (e.1 == f.1 && e.2 < f.2)

/-- one pass of the bond loop: swap so that sitea ≤ siteb, then append to both ends
    (`setdefault` creates the entry of sitea before that of siteb). -/
def parseStep (bondDim : Nat) (acc : List (Site × List Leg)) (e : Edge) : List (Site × List Leg) :=
  let a := if e.1 > e.2 then e.2 else e.1
  let b := if e.1 > e.2 then e.1 else e.2
  let acc1 := ainsert acc a ((alookup acc a).getD [] ++ [⟨.bond a b, 0, bondDim⟩])
  ainsert acc1 b ((alookup acc1 b).getD [] ++ [⟨.bond a b, 1, bondDim⟩])

def parseBonds (bondDim : Nat) (edges : List Edge) : List (Site × List Leg) :=
  (isort edgeLt edges).foldl (parseStep bondDim) []

/-- the physical index appended last when `phys_dim is not None` -/
def physLegs (physDim : Option Nat) (v : Site) : List Leg :=
  match physDim with
  | none => []
  | some d => [⟨.phys v, 0, d⟩]

/-- `parse_edges_to_site_info(edges, bond_dim, phys_dim)`; sites in dict order.
    The second loop sets `coordination = len(inds)` *before* the physical index is appended. -/
def parseEdges (edges : List Edge) (bondDim : Nat) (physDim : Option Nat) : List (Site × SiteInfo) :=
  (parseBonds bondDim edges).map (fun p =>
    (p.1, { legs := p.2 ++ physLegs physDim p.1,
            coordination := p.2.length,
            tag := p.1 }))

/-- legs of site `v` (empty if the site is absent) -/
def legsAt (info : List (Site × SiteInfo)) (v : Site) : List Leg :=
  match alookup info v with
  | some i => i.legs
  | none => []

/-- what one (sorted) edge contributes to the leg list of site `v` -/
def bondContrib (bondDim : Nat) (v : Site) (e : Edge) : List Leg :=
  let a := if e.1 > e.2 then e.2 else e.1
  let b := if e.1 > e.2 then e.1 else e.2
  (if a = v then [⟨.bond a b, 0, bondDim⟩] else []) ++ (if b = v then [⟨.bond a b, 1, bondDim⟩] else [])

end SymmModel
