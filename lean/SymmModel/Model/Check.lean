/-
  SymmModel.Model.Check — a literal executable model of symmray's OWN validity audit
  (the routines a `SYMMRAY_DEBUG=1` run calls on every constructed / returned array):

    BlockIndex.check                         symmray/abelian_core.py:153
    BlockIndex.matches                       symmray/abelian_core.py:172
    dicts_dont_conflict                      symmray/abelian_core.py:243
    SubIndexInfo.matches                     symmray/abelian_core.py:314
    AbelianArray.is_valid_sector             symmray/abelian_core.py:1224
    AbelianArray.get_block_shape             symmray/abelian_core.py:1273
    AbelianArray.check                       symmray/abelian_core.py:1297
    AbelianArray.check_chargemaps_aligned    symmray/abelian_core.py:1328
    AbelianArray.check_with                  symmray/abelian_core.py:1348
    BlockVector.check                        symmray/block_core.py:525
    FermionicArray.check                     DOES NOT EXIST: `FermionicArray` inherits
                                             `AbelianArray.check` (symmray/fermionic_core.py
                                             defines no `check`), so the pending-sign table and
                                             the odd-position labels are never audited.

  The audit is modelled on the RAW state (`RIndex`, `RArr`, `RVec`): sizes are arbitrary Python
  ints (so that a zero / negative size is representable), a block is its numpy shape plus the
  result of `all(isfinite(block))`.  Every routine returns `.ok ()` or the class of the Python
  exception raised first, at the same point of the same loop order (`Err.value` = ValueError,
  `Err.assertion` = AssertionError, `Err.key` = KeyError, `Err.index` = IndexError,
  `Err.attr` = AttributeError).  `zip` truncation is kept where Python's `zip` truncates.

  Not modelled (stated in the harness stream's assumptions): a size that is not a Python `int`
  (`isinstance(d, int)` fails for floats and for numpy integers), blocks that are not arrays.

  `C01`'s validity predicate `Arr.validB` (Model/Valid.lean) is independent of this file; the
  relation between the two is proved in Props/C01c.lean.
-/
import SymmModel.Model.Valid
namespace SymmModel
namespace Check

/-! ### raw state -/

abbrev RExtent := List (Sector × Int)
abbrev RExtents := List (Charge × RExtent)

/-- raw `BlockIndex`: `_chargemap` in dict order, `_dual`, `_subinfo` (`indices`, `extents`) -/
inductive RIndex where
  | mk (cm : List (Charge × Int)) (dual : Bool) (sub : Option (List RIndex × RExtents))
  deriving Inhabited

namespace RIndex
def cm : RIndex → List (Charge × Int)
  | mk c _ _ => c
def dual : RIndex → Bool
  | mk _ d _ => d
def sub : RIndex → Option (List RIndex × RExtents)
  | mk _ _ s => s
end RIndex

/-- what the audit can see of a numpy block: `ar.shape(array)` and `all(isfinite(array))` -/
structure RBlock where
  shape : List Nat
  finite : Bool := true
  deriving Inhabited, DecidableEq

/-- raw `AbelianArray` / `FermionicArray` as far as the audit reads it -/
structure RArr where
  sym : Sym
  indices : List RIndex
  charge : Charge
  blocks : List (Sector × RBlock)
  deriving Inhabited

/-- raw `BlockVector` -/
structure RVec where
  blocks : List (Charge × RBlock)
  deriving Inhabited

/-! ### small Python idioms -/

def sumZ : List Int → Int
  | [] => 0
  | d :: ds => d + sumZ ds

/-- a Python `for` loop whose body may raise: stop at the first exception -/
def forE {α : Type} (f : α → Except Err Unit) : List α → Except Err Unit
  | [] => .ok ()
  | x :: xs => match f x with
    | .ok _ => forE f xs
    | .error e => .error e

/-- `if not cond: raise e` / `assert cond` -/
def guardE (cond : Bool) (e : Err) : Except Err Unit := if cond then .ok () else .error e

/-- `seq[i]` on a tuple / list with Python's negative indices; `none` = IndexError -/
def pyIdx {α : Type} (l : List α) (i : Int) : Option α :=
  if 0 ≤ i then l[i.toNat]?
  else if 0 ≤ (l.length : Int) + i then l[((l.length : Int) + i).toNat]?
  else none

/-- `set(a) == set(b)` -/
def setEq {α : Type} [BEq α] (a b : List α) : Bool :=
  a.all (fun x => b.contains x) && b.all (fun x => a.contains x)

/-- `da == db` for two dicts (order-insensitive) given as association lists with distinct keys -/
def dictEq {κ β : Type} [BEq κ] [BEq β] (da db : List (κ × β)) : Bool :=
  da.length == db.length && da.all (fun p => alookup db p.1 == some p.2)

/-- `dicts_dont_conflict(da, db)`:
    `for k, va in da.items(): vb = db.get(k, None); if vb is not None and va != vb: return False` -/
def dictsDontConflict {κ β : Type} [BEq κ] (ne : β → β → Bool) (da db : List (κ × β)) : Bool :=
  da.all (fun p => match alookup db p.1 with
    | some vb => !(ne p.2 vb)
    | none => true)

/-! ### `BlockIndex.check` -/

/-- the loop `for c, d in self._chargemap.items(): if d <= 0: raise ValueError` -/
def checkSizes (cm : List (Charge × Int)) : Except Err Unit :=
  forE (fun p => guardE (decide (0 < p.2)) Err.value) cm

/-- `sum(d for extent in self.subinfo.extents.values() for d in extent.values())` -/
def extentsTotal (exts : RExtents) : Int :=
  sumZ (exts.flatMap (fun e => e.2.map (·.2)))

/-- `BlockIndex.check`.  Sub-indices are NOT visited (Python does not recurse). -/
def RIndex.check : RIndex → Except Err Unit
  | .mk cm _ sub =>
    match checkSizes cm with
    | .error e => .error e
    | .ok _ =>
      -- assert sorted(self._chargemap) == list(self._chargemap)
      if !(isort Charge.lt (cm.map (·.1)) == cm.map (·.1)) then .error Err.assertion
      else match sub with
        -- `if self.subinfo:` (a SubIndexInfo object is always truthy)
        | none => .ok ()
        | some (_, exts) =>
          -- assert self.size_total == sum(...)
          guardE (sumZ (cm.map (·.2)) == extentsTotal exts) Err.assertion

/-! ### `BlockIndex.matches` / `SubIndexInfo.matches` -/

mutual
  /-- `BlockIndex.matches(other)`; `.error Err.attr` where Python raises AttributeError (exactly
      one of the two has `subinfo is None` and the first two conjuncts hold) -/
  def RIndex.matchesE : RIndex → RIndex → Except Err Bool
    | .mk cm1 d1 s1, .mk cm2 d2 s2 =>
      if !dictsDontConflict (fun (x y : Int) => x != y) cm1 cm2 then .ok false
      else if !(d1 != d2) then .ok false          -- `self.dual ^ other.dual`
      else match s1, s2 with
        | none, none => .ok true                  -- `self.subinfo is other.subinfo is None`
        | none, some _ => .error Err.attr         -- `None.matches`
        | some _, none => .error Err.attr         -- `other._indices` with `other = None`
        | some (l1, e1), some (l2, e2) =>
          -- all(i.matches(j) for i, j in zip(...)) and dicts_dont_conflict(extents, extents)
          match RIndex.matchesAll l1 l2 with
          | .ok true => .ok (dictsDontConflict (fun (x y : RExtent) => !dictEq x y) e1 e2)
          | r => r
  /-- `all(i.matches(j) for i, j in zip(self._indices, other._indices))` (short-circuit) -/
  def RIndex.matchesAll : List RIndex → List RIndex → Except Err Bool
    | i :: is, j :: js =>
      match RIndex.matchesE i j with
      | .ok true => RIndex.matchesAll is js
      | r => r
    | [], _ => .ok true
    | _ :: _, [] => .ok true
end

/-! ### `AbelianArray.check` -/

def RArr.duals (a : RArr) : List Bool := a.indices.map RIndex.dual

/-- `is_valid_sector` (`zip(sector, self._indices)` truncates) -/
def RArr.isValidSector (a : RArr) (sector : Sector) : Bool :=
  Arr.sectorCharge a.sym a.duals sector == a.charge

/-- `get_block_shape`: `tuple(ix.size_of(c) for ix, c in zip(self._indices, sector))`;
    `Err.key` where `size_of` raises KeyError; `zip` truncates -/
def blockShapeE : List RIndex → Sector → Except Err (List Int)
  | ix :: ixs, c :: cs =>
    match alookup ix.cm c with
    | none => .error Err.key
    | some d => match blockShapeE ixs cs with
      | .ok r => .ok (d :: r)
      | .error e => .error e
  | [], _ => .ok []
  | _ :: _, [] => .ok []

/-- `all(di == dj for di, dj in zip(ar.shape(array), self.get_block_shape(sector)))` -/
def shapesAgree : List Nat → List Int → Bool
  | d :: ds, e :: es => ((d : Int) == e) && shapesAgree ds es
  | [], _ => true
  | _ :: _, [] => true

/-- body of the loop `for sector, array in self.blocks.items()` -/
def RArr.checkBlock (a : RArr) (sb : Sector × RBlock) : Except Err Unit :=
  if !a.isValidSector sb.1 then .error Err.value
  else match blockShapeE a.indices sb.1 with
    | .error e => .error e
    | .ok expected =>
      if !shapesAgree sb.2.shape expected then .error Err.value
      else if !sb.2.finite then .error Err.value
      else .ok ()

/-- `AbelianArray.check` (= `FermionicArray.check`, inherited) -/
def RArr.check (a : RArr) : Except Err Unit :=
  match forE RIndex.check a.indices with
  | .error e => .error e
  | .ok _ => forE a.checkBlock a.blocks

/-! ### `AbelianArray.check_chargemaps_aligned` -/

/-- `actual_charges[i].add(c)` raises IndexError for a sector longer than `ndim`; then, only when
    there is at least one block, `set` equality per axis over `zip(actual_charges, indices)` -/
def RArr.checkAligned (a : RArr) : Except Err Unit :=
  if a.blocks.any (fun sb => decide (a.indices.length < sb.1.length)) then .error Err.index
  else if a.blocks.isEmpty then .ok ()
  else forE (fun (p : RIndex × Nat) =>
      guardE (setEq (a.blocks.filterMap (fun sb => sb.1[p.2]?)) (p.1.cm.map (·.1))) Err.value)
    a.indices.zipIdx

/-! ### `AbelianArray.check_with` -/

/-- `check_with(other: BlockVector, ax)` -/
def RArr.checkWithVec (a : RArr) (v : RVec) (ax : Int) : Except Err Unit :=
  forE (fun (sb : Sector × RBlock) =>
    match pyIdx sb.1 ax with                    -- charge = sector[ax]
    | none => .error Err.index
    | some c => match alookup v.blocks c with   -- v_block = other.blocks[charge]
      | none => .error Err.key
      | some vb => match pyIdx sb.2.shape ax with   -- ar.shape(array)[ax]
        | none => .error Err.index
        | some d => guardE (d == prod vb.shape) Err.assertion) a.blocks

/-- `check_with(other: AbelianArray, axes_a, axes_b)` (`zip(axes_a, axes_b)` truncates) -/
def RArr.checkWith (a b : RArr) (axesA axesB : List Int) : Except Err Unit :=
  if !decide (a.sym = b.sym) then .error Err.assertion
  else forE (fun (p : Int × Int) =>
    match pyIdx a.indices p.1 with
    | none => .error Err.index
    | some ia => match pyIdx b.indices p.2 with
      | none => .error Err.index
      | some ib => match RIndex.matchesE ia ib with
        | .error e => .error e
        | .ok true => .ok ()
        | .ok false => .error Err.assertion) (axesA.zip axesB)

/-! ### `BlockVector.check` -/

/-- `ndims = {ar.ndim(x) for x in self.blocks.values()}; if len(ndims) != 1: raise ValueError`;
    the following `assert self.size == sum(...)` compares a sum with itself and cannot fail.
    An EMPTY vector is rejected, a vector of rank-2 blocks is accepted. -/
def RVec.check (v : RVec) : Except Err Unit :=
  guardE ((v.blocks.map (fun cb => cb.2.shape.length)).eraseDups.length == 1) Err.value

/-! ### embedding of the model's arrays into raw states -/

def cmToRaw (cm : List (Charge × Nat)) : List (Charge × Int) := cm.map (fun p => (p.1, (p.2 : Int)))

def extentsToRaw (exts : Extents) : RExtents :=
  exts.map (fun e => (e.1, e.2.map (fun q => (q.1, (q.2 : Int)))))

mutual
  def indexToRaw : Index → RIndex
    | .mk cm d none => .mk (cmToRaw cm) d none
    | .mk cm d (some (subs, exts)) => .mk (cmToRaw cm) d (some (indexListToRaw subs, extentsToRaw exts))
  def indexListToRaw : List Index → List RIndex
    | [] => []
    | i :: is => indexToRaw i :: indexListToRaw is
end

/-- the raw state the audit sees of a model array (model scalars are exact: always finite).
    `fermi`, `phases`, `oddpos` are dropped: no audit routine reads them. -/
def arrToRaw {R : Type} (a : Arr R) : RArr :=
  { sym := a.sym, indices := indexListToRaw a.indices, charge := a.charge,
    blocks := a.blocks.map (fun sb => (sb.1, { shape := sb.2.shape, finite := true })) }

def vecToRaw {R : Type} (v : BVec R) : RVec :=
  { blocks := v.blocks.map (fun cb => (cb.1, { shape := cb.2.shape, finite := true })) }

/-- `x.check()` on a model array -/
def checkArr {R : Type} (a : Arr R) : Except Err Unit := (arrToRaw a).check

end Check
end SymmModel
