/-
  SymmModel.Model.Reshape — autoray's `find_full_reshape` (autoray/lazy/core.py:1355) and
  `AbelianArray.reshape` (symmray/abelian_core.py:2083).  The planner `calcReshapeArgs`
  (`calc_reshape_args`) is in `Model/ReshapePlan.lean`.
-/
import SymmModel.Model.Fermi
import SymmModel.Model.ReshapePlan
namespace SymmModel

/-- autoray's `find_full_reshape(newshape, size)`: the first `-1` is replaced by
    `size // prod(others)` (Python floor division; `ZeroDivisionError` → `Err.other`) -/
def findFullReshape (newshape : List Int) (size : Nat) : Except Err (List Int) :=
  match indexOf? newshape (-1) with
  | none => pure newshape
  | some expand =>
    let before := newshape.take expand
    let after := newshape.drop (expand + 1)
    let p := (before ++ after).foldl (· * ·) 1
    if p == 0 then throw Err.other
    else pure (before ++ [Int.fdiv (size : Int) p] ++ after)

/-- `subsizes` as computed by `AbelianArray.reshape` -/
def Arr.subsizes {R : Type} (a : Arr R) : List (Option (List Nat)) :=
  a.indices.map (fun ix => ix.sub.map (fun s => s.1.map Index.sizeTotal))

/-- `x.unfuse(ax)` with Python's method resolution -/
def unfuseDispatch {R : Type} [Zero R] [Neg R] (x : Arr R) (ax : Nat) : Except Err (Arr R) :=
  if x.fermi then x.unfuseF ax else unfuseA x ax

/-- `x.fuse(*grouping)` with Python's method resolution (mode "auto" is "insert" on numpy) -/
def fuseDispatch {R : Type} [Zero R] [Neg R] (x : Arr R) (grouping : List (List Nat)) : Except Err (Arr R) :=
  if x.fermi then x.fuseF grouping else fuseA x grouping

/-- `x.expand_dims(ax)`; an axis beyond `ndim` raises `IndexError` (`x.indices[axis - 1]`) -/
def expandDispatch {R : Type} (x : Arr R) (ax : Nat) : Except Err (Arr R) :=
  if ax > x.ndim then throw Err.index else pure (x.expandDims ax none none)

/-- the three loops at the end of `AbelianArray.reshape` -/
def applyPlan {R : Type} [Zero R] [Neg R] (a : Arr R)
    (plan : List Nat × List (List (List Nat)) × List Nat) : Except Err (Arr R) := do
  let x ← plan.1.foldlM unfuseDispatch a
  let x ← plan.2.1.foldlM fuseDispatch x
  plan.2.2.foldlM expandDispatch x

/-- `AbelianArray.reshape(newshape)`.  Entries of `newshape` that are still negative after
    `find_full_reshape` are outside the modelled domain (`Err.notimpl`). -/
def reshapeArr {R : Type} [Zero R] [Neg R] (a : Arr R) (newshape : List Int) : Except Err (Arr R) := do
  let full ← findFullReshape newshape a.size
  let ns ← full.mapM (fun (d : Int) => if d < 0 then (throw Err.notimpl : Except Err Nat) else pure d.toNat)
  let plan ← calcReshapeArgs a.shape ns a.subsizes
  applyPlan a plan

end SymmModel
