/-
  SymmModel.Model.Reshape — `calc_reshape_args` and `AbelianArray.reshape`.
  (placeholder until the planner model lands)
-/
import SymmModel.Model.Fermi
namespace SymmModel

def reshapeArr {R : Type} [Zero R] [Neg R] (_a : Arr R) (_newshape : List Int) : Except Err (Arr R) :=
  throw Err.notimpl

end SymmModel
