/-
  SymmModel.Model.GRat — Gaussian rationals ℚ[i], the executable scalar type of the driver.
  All correspondence data are small Gaussian integers / dyadic rationals, on which numpy's
  float arithmetic is exact.
-/
import SymmModel.Model.Blk
namespace SymmModel

structure GRat where
  re : Rat
  im : Rat
  deriving BEq, Inhabited, Repr, DecidableEq

namespace GRat
instance : Zero GRat := ⟨⟨0, 0⟩⟩
instance : One GRat := ⟨⟨1, 0⟩⟩
instance : Add GRat := ⟨fun a b => ⟨a.re + b.re, a.im + b.im⟩⟩
instance : Sub GRat := ⟨fun a b => ⟨a.re - b.re, a.im - b.im⟩⟩
instance : Neg GRat := ⟨fun a => ⟨-a.re, -a.im⟩⟩
instance : Mul GRat := ⟨fun a b => ⟨a.re * b.re - a.im * b.im, a.re * b.im + a.im * b.re⟩⟩
instance : Conj GRat := ⟨fun a => ⟨a.re, -a.im⟩⟩
def ofInt (n : Int) : GRat := ⟨n, 0⟩
def normSq (a : GRat) : Rat := a.re * a.re + a.im * a.im
/-- division by a non-zero scalar -/
def div (a b : GRat) : GRat :=
  let n := b.normSq
  ⟨(a.re * b.re + a.im * b.im) / n, (a.im * b.re - a.re * b.im) / n⟩
instance : Div GRat := ⟨div⟩
end GRat
end SymmModel
