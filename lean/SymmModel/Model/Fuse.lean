/-
  SymmModel.Model.Fuse — fusing and unfusing.
  Python: symmray/abelian_core.py  calc_fuse_group_info (:594), calc_fuse_block_info (:654),
  _fuse_blocks_via_insert (:889), _fuse_blocks_via_concat (:948), _fuse_core (:1852),
  fuse (:1932), unfuse (:1997), unfuse_all (:2059).
-/
import SymmModel.Model.Arr
namespace SymmModel

structure FuseGroupInfo where
  numGroups : Nat
  singlets : List Nat
  newNdim : Nat
  perm : List Nat
  position : Nat
  axesBefore : List Nat
  axesAfter : List Nat
  groupDuals : List Bool
  deriving Repr, Inhabited

/-- `calc_fuse_group_info(axes_groups, duals)` -/
def calcFuseGroupInfo (groups : List (List Nat)) (duals : List Bool) : FuseGroupInfo :=
  let ndim := duals.length
  let grouped := groups.flatten
  let position := grouped.foldl min (grouped.headD 0)
  let before := (List.range position).filter (fun ax => !grouped.contains ax)
  let after := ((List.range ndim).filter (fun ax => position ≤ ax)).filter (fun ax => !grouped.contains ax)
  { numGroups := groups.length,
    singlets := (groups.zipIdx.filter (fun p => p.1.length == 1)).map (·.2),
    newNdim := before.length + groups.length + after.length,
    perm := before ++ grouped ++ after,
    position := position,
    axesBefore := before,
    axesAfter := after,
    groupDuals := groups.map (fun g => duals.getD (g.headD 0) false) }

/-- per-block plan entry: `(new_shape, new_sector, subsectors)` -/
structure BlockPlan where
  newShape : List Nat
  newSector : Sector
  subsectors : List Sector
  deriving Repr, Inhabited

structure FuseInfo where
  gi : FuseGroupInfo
  newIndices : List Index
  blockmap : List (Sector × BlockPlan)
  deriving Inhabited

/-- the part of `calc_fuse_block_info` that handles one sector -/
def planSector (sym : Sym) (indices : List Index) (groups : List (List Nat)) (gi : FuseGroupInfo)
    (sector : Sector) : Except Err BlockPlan := do
  let cd (ax : Nat) : Except Err (Charge × Nat × Bool) :=
    match indices[ax]?, sector[ax]? with
    | some ix, some c => match ix.sizeOf? c with
      | some d => pure (c, d, ix.dual)
      | none => throw Err.key
    | _, _ => throw Err.index
  let before ← gi.axesBefore.mapM cd
  let after ← gi.axesAfter.mapM cd
  let mids ← groups.zipIdx.mapM (fun (gaxes, g) => do
    let cds ← gaxes.mapM cd
    let gdual := gi.groupDuals.getD g false
    if gaxes.length == 1 then
      match cds with
      | [(c, d, _)] => pure (c, d, [c])
      | _ => throw Err.other
    else
      let signed := cds.map (fun (c, _, dl) => sym.sign c (gdual != dl))
      pure (sym.combine signed, prod (cds.map (fun x => x.2.1)), cds.map (·.1)))
  pure { newShape := before.map (·.2.1) ++ mids.map (·.2.1) ++ after.map (·.2.1),
         newSector := before.map (·.1) ++ mids.map (·.1) ++ after.map (·.1),
         subsectors := mids.map (·.2.2) }

/-- accumulate sorted `(subsector ↦ (charge, size))` into a chargemap and extents, both in
    first-appearance order (the chargemap is sorted afterwards by `BlockIndex`) -/
def accumExtents : List (Sector × Charge × Nat) → List (Charge × Nat) × Extents
  | [] => ([], [])
  | (ss, c, d) :: rest =>
    -- process in order: fold from the left
    let go := rest.foldl (fun (acc : List (Charge × Nat) × Extents) (x : Sector × Charge × Nat) =>
      let (ss, c, d) := x
      match alookup acc.1 c with
      | none => (acc.1 ++ [(c, d)], acc.2 ++ [(c, [(ss, d)])])
      | some d0 => (ainsert acc.1 c (d0 + d),
                    acc.2.map (fun (c', e) => if c' == c then (c', ainsert e ss d) else (c', e))))
      ([(c, d)], [(c, [(ss, d)])])
    go

/-- `calc_fuse_block_info(self, axes_groups)` -/
def calcFuseBlockInfo {R : Type} (a : Arr R) (groups : List (List Nat)) : Except Err FuseInfo := do
  let gi := calcFuseGroupInfo groups a.duals
  let blockmap ← a.blocks.mapM (fun (sector, _) => do
    let p ← planSector a.sym a.indices groups gi sector
    pure (sector, p))
  -- subinfos[g] : dict subsector ↦ (new_charge, new_size), later blocks overwrite
  let newMid := groups.zipIdx.map (fun (gaxes, g) =>
    if gaxes.length == 1 then a.indices.getD (gaxes.headD 0) default
    else
      let sub : List (Sector × Charge × Nat) :=
        adict (blockmap.map (fun (_, p) =>
          (p.subsectors.getD g [], (p.newSector.getD (gi.position + g) (0, 0),
                                    p.newShape.getD (gi.position + g) 0))))
      let sorted := isort (fun x y => sectorLt x.1 y.1) sub
      let (cmap, ext) := accumExtents sorted
      Index.mk (Index.sortCm cmap) (gi.groupDuals.getD g false)
        (some (gaxes.map (fun ax => a.indices.getD ax default), ext)))
  pure { gi := gi,
         newIndices := permuted a.indices gi.axesBefore ++ newMid ++ permuted a.indices gi.axesAfter,
         blockmap := blockmap }

/-- start offset of `subsector` inside the extent of `charge` of a fused index
    (`slice_lookup[g][new_charge][subsector].start`) -/
def extentStart? (ix : Index) (charge : Charge) (subsector : Sector) : Option (Nat × Nat) :=
  match ix.sub with
  | none => none
  | some (_, exts) =>
    match alookup exts charge with
    | none => none
    | some ext =>
      match indexOf? (ext.map (·.1)) subsector with
      | none => none
      | some k => some ((offsets (ext.map (·.2))).getD k 0, (ext.map (·.2)).getD k 0)

/-- `_fuse_blocks_via_insert` -/
def fuseInsert {R : Type} [Zero R] (blocks : List (Sector × Blk R)) (fi : FuseInfo) :
    Except Err (List (Sector × Blk R)) :=
  blocks.foldlM (fun (acc : List (Sector × Blk R)) (sb : Sector × Blk R) => do
    let (sector, array) := sb
    let p ← match alookup fi.blockmap sector with
      | some p => pure p
      | none => throw Err.key
    let newArray := (array.transposeK fi.gi.perm).reshapeK p.newShape
    let starts ← (List.range fi.newIndices.length).mapM (fun ax =>
      if fi.gi.position ≤ ax && ax < fi.gi.position + fi.gi.numGroups
          && !fi.gi.singlets.contains (ax - fi.gi.position) then
        match extentStart? (fi.newIndices.getD ax default) (p.newSector.getD ax (0, 0))
                (p.subsectors.getD (ax - fi.gi.position) []) with
        | some (st, _) => pure st
        | none => throw Err.key
      else pure 0)
    let target ← match alookup acc p.newSector with
      | some t => pure t
      | none => match Arr.blockShape? fi.newIndices p.newSector with
        | some shp => pure (Blk.zeros shp)
        | none => throw Err.key
    pure (ainsert acc p.newSector (target.setSliceK starts newArray))) []

/-- the recursion `_recurse_concat(new_sector, g, subkey)`; `fuel` = groups still to process -/
def recurseConcat {R : Type} [Zero R] (fi : FuseInfo) (subblocks : List (List Sector × Blk R))
    (newSector : Sector) (zeroShapeOf : List Sector → Except Err (List Nat)) :
    Nat → Nat → List Sector → Except Err (Blk R)
  | 0, _, _ => throw Err.other
  | fuel + 1, g, subkey =>
    let last := g + 1 == fi.gi.numGroups
    if fi.gi.singlets.contains g then
      let newSubkey := subkey ++ [[newSector.getD (fi.gi.position + g) (0, 0)]]
      if last then
        match alookup subblocks newSubkey with
        | some b => pure b
        | none => do
          -- (repaired behaviour, see known_findings: zeros for a missing sub-block)
          let shp ← zeroShapeOf newSubkey
          pure (Blk.zeros shp)
      else recurseConcat fi subblocks newSector zeroShapeOf fuel (g + 1) newSubkey
    else do
      let ix := fi.newIndices.getD (fi.gi.position + g) default
      let ext ← match ix.sub with
        | some (_, exts) => match alookup exts (newSector.getD (fi.gi.position + g) (0, 0)) with
          | some e => pure e
          | none => throw Err.key
        | none => throw Err.attr
      let arrays ← ext.mapM (fun (ss, _) =>
        let newSubkey := subkey ++ [ss]
        if last then
          match alookup subblocks newSubkey with
          | some b => pure b
          | none => do
            let shp ← zeroShapeOf newSubkey
            pure (Blk.zeros shp)
        else recurseConcat fi subblocks newSector zeroShapeOf fuel (g + 1) newSubkey)
      pure (Blk.concatK arrays (fi.gi.position + g))

/-- `_fuse_blocks_via_concat` -/
def fuseConcat {R : Type} [Zero R] (oldIndices : List Index) (blocks : List (Sector × Blk R))
    (fi : FuseInfo) : Except Err (List (Sector × Blk R)) := do
  -- group sub-blocks by new sector (dict of dicts, insertion ordered)
  let grouped ← blocks.foldlM (fun (acc : List (Sector × List (List Sector × Blk R))) (sb : Sector × Blk R) => do
    let (sector, array) := sb
    let p ← match alookup fi.blockmap sector with
      | some p => pure p
      | none => throw Err.key
    let newArray := (array.transposeK fi.gi.perm).reshapeK p.newShape
    let cur := (alookup acc p.newSector).getD []
    pure (ainsert acc p.newSector (ainsert cur p.subsectors newArray))) []
  grouped.mapM (fun (newSector, subblocks) => do
    let zeroShapeOf (subkey : List Sector) : Except Err (List Nat) := do
      let sz (ax : Nat) (pos : Nat) : Except Err Nat :=
        match (oldIndices.getD ax default).sizeOf? (newSector.getD pos (0, 0)) with
        | some d => pure d
        | none => throw Err.key
      let before ← fi.gi.axesBefore.zipIdx.mapM (fun (ax, k) => sz ax k)
      let mid ← subkey.zipIdx.mapM (fun (ss, g) =>
        let ix := fi.newIndices.getD (fi.gi.position + g) default
        let c := newSector.getD (fi.gi.position + g) (0, 0)
        if fi.gi.singlets.contains g then
          match ix.sizeOf? c with
          | some d => pure d
          | none => throw Err.key
        else match extentStart? ix c ss with
          | some (_, d) => pure d
          | none => throw Err.key)
      let after ← fi.gi.axesAfter.zipIdx.mapM (fun (ax, k) =>
        sz ax (fi.gi.position + fi.gi.numGroups + k))
      pure (before ++ mid ++ after)
    let b ← recurseConcat fi subblocks newSector zeroShapeOf fi.gi.numGroups 0 []
    pure (newSector, b))

inductive FuseMode where
  | insert | concat
  deriving DecidableEq, Repr, Inhabited

/-- `_fuse_core(*axes_groups, mode)` -/
def fuseCore {R : Type} [Zero R] (a : Arr R) (groups : List (List Nat)) (mode : FuseMode) :
    Except Err (Arr R) := do
  let fi ← calcFuseBlockInfo a groups
  let newBlocks ← match mode with
    | .insert => fuseInsert a.blocks fi
    | .concat => fuseConcat a.indices a.blocks fi
  pure { a with indices := fi.newIndices, blocks := newBlocks }

/-- `AbelianArray.fuse(*axes_groups, expand_empty, mode)` -/
def fuseA {R : Type} [Zero R] (a : Arr R) (groups : List (List Nat)) (mode : FuseMode := .insert)
    (expandEmpty : Bool := true) : Except Err (Arr R) := do
  let nonEmpty := groups.filter (fun g => !g.isEmpty)
  let expand := (groups.zipIdx.filter (fun p => p.1.isEmpty)).map (·.2)
  let xf ← if nonEmpty.isEmpty then pure a else fuseCore a nonEmpty mode
  if expandEmpty && !expand.isEmpty then
    match nonEmpty.flatten with
    | [] => throw Err.value      -- `min()` of an empty sequence
    | g :: gs =>
      let g0 := gs.foldl min g
      pure (expand.foldl (fun x ax => x.expandDims (g0 + ax) none none) xf)
  else pure xf

/-- `AbelianArray.unfuse(axis)` -/
def unfuseA {R : Type} [Zero R] (a : Arr R) (axis : Nat) : Except Err (Arr R) := do
  let ix ← match a.indices[axis]? with
    | some ix => pure ix
    | none => throw Err.index
  let (subIdx, exts) ← match ix.sub with
    | some s => pure s
    | none => throw Err.attr
  let newBlocks ← a.blocks.foldlM (fun (acc : List (Sector × Blk R)) (sb : Sector × Blk R) => do
    let (sector, array) := sb
    let oldCharge := sector.getD axis (0, 0)
    let ext ← match alookup exts oldCharge with
      | some e => pure e
      | none => throw Err.key
    let starts := offsets (ext.map (·.2))
    let pieces ← (ext.zip starts).mapM (fun ((subsector, d), st) => do
      let subshape ← match Arr.blockShape? subIdx subsector with
        | some s => pure s
        | none => throw Err.key
      let lens := array.shape.set axis d
      let piece := array.sliceK ((List.replicate array.shape.length 0).set axis st) lens
      pure (replaceWithSeq sector axis subsector,
            piece.reshapeK (replaceWithSeq array.shape axis subshape)))
    pure (pieces.foldl (fun m (k, v) => ainsert m k v) acc)) []
  pure { a with indices := replaceWithSeq a.indices axis subIdx, blocks := newBlocks }

/-- `unfuse_all` -/
def unfuseAllWith {R : Type} (unf : Arr R → Nat → Except Err (Arr R)) (a : Arr R) : Except Err (Arr R) :=
  (List.range a.ndim).reverse.foldlM (fun x ax =>
    match x.indices[ax]? with
    | some ix => if ix.sub.isSome then unf x ax else pure x
    | none => pure x) a

def unfuseAllA {R : Type} [Zero R] (a : Arr R) : Except Err (Arr R) := unfuseAllWith unfuseA a

end SymmModel
