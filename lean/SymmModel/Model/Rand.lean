/-
  SymmModel.Model.Rand — the public random constructors of symmray/utils.py, with every draw
  from the numpy `Generator` turned into an explicit parameter.

  Python: symmray/utils.py
    get_random_fill_fn (:18)   → `fillDtype` (dtype flow of the returned `fill_fn`, lines 50-61)
    rand_z2_index (:66)        → `randZ2Index`
    rand_partition (:138)      → `randPartition`
    rand_z2z2_index (:152)     → `randZ2Z2Index`
    get_u1_charges (:194)      → `u1Charges`
    rand_u1_index (:203)       → `randU1Index`
    get_u1u1_charges (:279)    → `u1u1Charges`
    rand_u1u1_index (:301)     → `randU1U1Index`
    choose_duals (:350)        → `chooseDuals`
    get_rand_*array (:363-631), get_rand (:634) → `getRand`
    get_rand_blockvector (:709)→ `randBlockSizes` (the block sizes; the one Poisson draw is a parameter)
    rand_index (:778)          → `randIndex`

  What is a parameter instead of a draw (`Draws`):
    dual    = `rng.choice([False, True])`                      (only read when `dual is None`)
    charge  = `int(rng.choice([0, 1]))`                        (Z2, d == 1, subsizes None)
    d0      = `int(rng.integers(1, d))`                        (Z2, subsizes None)
    charges = `rng.choice(possible, size=d, replace=False)`    (Z2Z2, d < 4, subsizes None)
    ncharge = `rng.integers(1, d + 1)`                         (U1 / U1U1, subsizes None)
    splits  = `rng.choice(range(1, d - 1), size=n - 1, replace=False)`  (rand_partition, BEFORE
              `sorted`; the model sorts it as the code does)

  Sizes are naturals (an explicit `subsizes` tuple with a negative entry is outside the model).
  `int(ncharge ** 0.5)` is modelled by `Nat.sqrt` (exact while the float square root is, i.e. for
  every `ncharge < 2^52`; the harness compares the two on a range).
-/
import SymmModel.Model.Construct
import SymmModel.Model.DType
namespace SymmModel
namespace Rand

/-- the `subsizes` argument: `None` | "equal" | "maximal" | "minimal" | an explicit sequence -/
inductive Subsizes where
  | random | equal | maximal | minimal
  | explicit (sizes : List Nat)
  deriving Repr, DecidableEq, Inhabited

/-- the `d` argument: an int, or a dict (an explicit chargemap) -/
inductive DArg where
  | size (d : Nat)
  | dict (cm : List (Charge × Nat))
  deriving Repr, Inhabited

/-- the values the numpy `Generator` would have drawn -/
structure Draws where
  dual : Bool := false
  charge : Nat := 0
  d0 : Nat := 1
  charges : List Charge := []
  ncharge : Nat := 1
  splits : List Nat := []
  deriving Repr, Inhabited

/-- Python `range(a, b)` on ints -/
def intRange (a b : Int) : List Int := (List.range (b - a).toNat).map (fun (i : Nat) => a + (i : Int))

/-- `BlockIndex(chargemap=dict(zip(charges, sizes)), dual=dual)` -/
def mkIndex (charges : List Charge) (sizes : List Nat) (dual : Bool) : Index :=
  Index.plain (adict (charges.zip sizes)) dual

/-- `BlockIndex(chargemap=d, dual=dual)` for a dict `d` -/
def dictIndex (cm : List (Charge × Nat)) (dual : Bool) : Index := Index.plain (adict cm) dual

/-! ### `rand_partition` -/

/-- `rand_partition(d, n, seed)`; `draw` is what `rng.choice(range(1, d - 1), size=n - 1,
    replace=False)` returned.  numpy raises `ValueError` for a negative `size` and when the
    population `range(1, d - 1)` (which has `d - 2` elements, none if `d < 2`) is smaller than the
    sample.  A `draw` of the wrong length cannot come from numpy (`Err.other`). -/
def randPartition (d n : Nat) (draw : List Nat) : Except Err (List Nat) :=
  if d == n then pure (List.replicate n 1)
  else if n == 0 then throw Err.value
  else if d - 2 < n - 1 then throw Err.value
  else if draw.length != n - 1 then throw Err.other
  else
    let splits : List Int :=
      [(0 : Int)] ++ (isort (fun a b => decide (a < b)) draw).map (fun (x : Nat) => (x : Int)) ++ [(d : Int)]
    pure ((List.range n).map (fun i => (splits.getD (i + 1) 0 - splits.getD i 0).toNat))

/-! ### Z2 -/

/-- the charge of a size-1 Z2 index: drawn when `subsizes is None`, else 0 -/
def z2Charge1 (ss : Subsizes) (dr : Draws) : Nat :=
  match ss with
  | .random => dr.charge
  | .equal => 0
  | .maximal => 0
  | .minimal => 0
  | .explicit _ => 0

/-- the `subsizes` chain of `rand_z2_index` for `d != 1`: `some (d0, d1)` goes on to the common
    `return BlockIndex({0: d0, 1: d1})`; `none` is the early `return` of the "minimal" branch
    (`BlockIndex({0: d})`, no entry for the odd charge); `d0, d1 = subsizes` raises `ValueError`
    unless the sequence has exactly two entries -/
def z2Sizes (d : Nat) (ss : Subsizes) (dr : Draws) : Except Err (Option (Nat × Nat)) :=
  match ss with
  | .random => .ok (some (dr.d0, d - dr.d0))
  | .equal => .ok (some (d / 2, d - d / 2))
  | .maximal => .ok (some (d / 2, d - d / 2))
  | .minimal => .ok none
  | .explicit sizes =>
    match sizes with
    | [a, b] => .ok (some (a, b))
    | _ => .error Err.value

/-- the index returned for `d != 1` -/
def z2Index (d : Nat) (dual : Bool) (p : Option (Nat × Nat)) : Index :=
  match p with
  | none => mkIndex [(0, 0)] [d] dual
  | some p => mkIndex [(0, 0), (1, 0)] [p.1, p.2] dual

/-- `rand_z2_index(d, dual, subsizes, seed)` -/
def randZ2Index (d : DArg) (dual : Option Bool) (ss : Subsizes) (dr : Draws) : Except Err Index :=
  match d with
  | .dict cm => .ok (dictIndex cm (dual.getD dr.dual))
  | .size d =>
    if d == 1 then
      .ok (mkIndex [(((z2Charge1 ss dr : Nat) : Int), 0)] [1] (dual.getD dr.dual))
    else
      (z2Sizes d ss dr).map (z2Index d (dual.getD dr.dual))

/-! ### Z2Z2 -/

def possibleZ2Z2 : List Charge := [(0, 0), (0, 1), (1, 0), (1, 1)]

/-- the round-robin chargemap of the "equal" / "maximal" modes:
    `{c: d // 4 + (i < d % 4) for i, c in enumerate(possible[:min(d, 4)])}` -/
def z2z2EqualCm (d : Nat) : List (Charge × Nat) :=
  let ncharge := min d 4
  let charges := possibleZ2Z2.take ncharge
  adict (charges.zipIdx.map (fun (p : Charge × Nat) => (p.1, d / 4 + (if p.2 < d % 4 then 1 else 0))))

/-- `rand_z2z2_index(d, dual, subsizes, seed)`.  There is no `isinstance(d, dict)` branch in the
    code: a dict `d` reaches `d < 4` / `min(d, 4)` (`TypeError`), is stored as the *size* of charge
    `(0, 0)` in "minimal" mode (an object every later use of which raises `TypeError`; reported
    here as `Err.type` too), and is ignored with an explicit sequence. -/
def randZ2Z2Index (d : DArg) (dual : Option Bool) (ss : Subsizes) (dr : Draws) : Except Err Index :=
  match ss with
  | .explicit sizes => .ok (mkIndex possibleZ2Z2 sizes (dual.getD dr.dual))
  | .random =>
    match d with
    | .dict _ => .error Err.type
    | .size d =>
      if d < 4 then
        .ok (Index.plain (adict (dr.charges.map (fun c => (c, 1)))) (dual.getD dr.dual))
      else
        (randPartition d 4 dr.splits).map (fun sizes => mkIndex possibleZ2Z2 sizes (dual.getD dr.dual))
  | .equal =>
    match d with
    | .dict _ => .error Err.type
    | .size d => .ok (Index.plain (z2z2EqualCm d) (dual.getD dr.dual))
  | .maximal =>
    match d with
    | .dict _ => .error Err.type
    | .size d => .ok (Index.plain (z2z2EqualCm d) (dual.getD dr.dual))
  | .minimal =>
    match d with
    | .dict _ => .error Err.type
    | .size d => .ok (mkIndex [(0, 0)] [d] (dual.getD dr.dual))

/-! ### U1 -/

/-- sort key `(abs(x), -x)` of `get_u1_charges` -/
def u1KeyLt (x y : Int) : Bool :=
  decide (x.natAbs < y.natAbs) || (x.natAbs == y.natAbs && decide (-x < -y))

/-- `get_u1_charges(ncharge)` -/
def u1Charges (n : Nat) : List Int :=
  let charges := intRange (-(n : Int) / 2 + 1) ((n : Int) / 2 + 1)
  (isort u1KeyLt charges).take n

/-- `d // ncharge + int(i < d % ncharge) for i in range(ncharge)` -/
def equalSizes (d ncharge : Nat) : List Nat :=
  (List.range ncharge).map (fun i => d / ncharge + (if i < d % ncharge then 1 else 0))

/-- the `(ncharge, subsizes)` chosen by `rand_u1_index` / `rand_u1u1_index`; `nequal` is 3 / 9 -/
def chargeSizes (nequal d : Nat) (ss : Subsizes) (dr : Draws) : Except Err (Nat × List Nat) :=
  match ss with
  | .random => (randPartition d dr.ncharge dr.splits).map (fun sizes => (dr.ncharge, sizes))
  | .equal => .ok (min d nequal, equalSizes d (min d nequal))
  | .maximal => .ok (d, List.replicate d 1)
  | .minimal => .ok (1, [d])
  | .explicit sizes => .ok (sizes.length, sizes)

/-- `rand_u1_index(d, dual, subsizes, seed)` -/
def randU1Index (d : DArg) (dual : Option Bool) (ss : Subsizes) (dr : Draws) : Except Err Index :=
  match d with
  | .dict cm => .ok (dictIndex cm (dual.getD dr.dual))
  | .size d =>
    (chargeSizes 3 d ss dr).map
      (fun p => mkIndex ((u1Charges p.1).map (fun c => (c, 0))) p.2 (dual.getD dr.dual))

/-! ### U1U1 -/

/-- sort key `(x² + y², -x - y)` of `get_u1u1_charges` -/
def u1u1KeyLt (a b : Charge) : Bool :=
  decide (a.1 * a.1 + a.2 * a.2 < b.1 * b.1 + b.2 * b.2)
  || (a.1 * a.1 + a.2 * a.2 == b.1 * b.1 + b.2 * b.2 && decide (-a.1 - a.2 < -b.1 - b.2))

/-- `get_u1u1_charges(ncharge)`: `itertools.product(krange, repeat=2)`, a stable sort, a prefix -/
def u1u1Charges (n : Nat) : List Charge :=
  let k : Int := (Nat.sqrt n : Nat)
  let krange := intRange (-k + 1) (k + 1)
  let charges := krange.flatMap (fun i => krange.map (fun j => (i, j)))
  (isort u1u1KeyLt charges).take n

/-- `rand_u1u1_index(d, dual, subsizes, seed)` -/
def randU1U1Index (d : DArg) (dual : Option Bool) (ss : Subsizes) (dr : Draws) : Except Err Index :=
  match d with
  | .dict cm => .ok (dictIndex cm (dual.getD dr.dual))
  | .size d =>
    (chargeSizes 9 d ss dr).map (fun p => mkIndex (u1u1Charges p.1) p.2 (dual.getD dr.dual))

/-- `rand_index(symmetry, d, dual, subsizes, seed)`: `ValueError` for any other symmetry -/
def randIndex (sym : Sym) (d : DArg) (dual : Option Bool) (ss : Subsizes) (dr : Draws) :
    Except Err Index :=
  match sym with
  | .Z2 => randZ2Index d dual ss dr
  | .Z2Z2 => randZ2Z2Index d dual ss dr
  | .U1 => randU1Index d dual ss dr
  | .U1U1 => randU1U1Index d dual ss dr
  | .Z4 => .error Err.value

/-! ### `choose_duals` -/

/-- the `duals` argument: "equal" | None | True/False | a sequence -/
inductive DualsArg where
  | equal
  | none
  | all (b : Bool)
  | seq (l : List (Option Bool))
  deriving Repr, Inhabited

/-- `choose_duals(duals, ndim)`; an entry `none` is Python's `None` (drawn later, per index) -/
def chooseDuals (a : DualsArg) (ndim : Nat) : Except Err (List (Option Bool)) :=
  match a with
  | .equal => pure ((List.range ndim).map (fun i => some (decide (i ≥ ndim / 2))))
  | .none => pure (List.replicate ndim none)
  | .all b => pure (List.replicate ndim (some b))
  | .seq l => if l.length != ndim then throw Err.value else pure l

/-! ### `get_rand` -/

/-- one entry of `shape`: an int, a dict, or a ready `BlockIndex` -/
inductive ShapeEntry where
  | size (d : Nat)
  | dict (cm : List (Charge × Nat))
  | index (ix : Index)
  deriving Inhabited

/-- the index built for one entry of `shape` (the comprehension of `get_rand_*array`):
    a `BlockIndex` is taken as is, a dict becomes `BlockIndex(d, dual=f)` — where `bool(None)` is
    `False`, nothing is drawn —, an int goes to the symmetry's `rand_*_index` -/
def entryIndex (sym : Sym) (ss : Subsizes) (e : ShapeEntry) (f : Option Bool) (dr : Draws) :
    Except Err Index :=
  match e with
  | .index ix => pure ix
  | .dict cm => pure (dictIndex cm (f.getD false))
  | .size d => randIndex sym (.size d) f ss dr

/-- `get_rand(symmetry, shape, duals, charge, seed, dist, fermionic, subsizes, **kwargs)`:
    dispatch (`ValueError` for an unsupported symmetry), `choose_duals`, one index per entry of
    `shape` (the i-th uses the i-th `Draws`), then `cls.random(indices, charge, …)` =
    `from_fill_fn` with the random fill function -/
def getRand {R : Type} (sym : Sym) (shape : List ShapeEntry) (duals : DualsArg)
    (charge : Option Charge) (fermi : Bool) (ss : Subsizes) (draws : List Draws)
    (fill : Sector → List Nat → Blk R) (oddpos : List (Int × Bool) := []) : Except Err (Arr R) := do
  if sym == .Z4 then throw Err.value
  let duals ← chooseDuals duals shape.length
  let indices ← ((shape.zip duals).zipIdx).mapM
    (fun (ef, i) => entryIndex sym ss ef.1 ef.2 (draws.getD i default))
  fromFillFn sym fermi indices charge fill oddpos

/-! ### `get_random_fill_fn` : dtype of the produced blocks (utils.py:50-61) -/

/-- dtype flow of `fill_fn(shape)`: the Generator returns float64; `"complex" in dtype` adds
    `1j * …` (complex128); `*= scale`, `+= loc` with Python floats keep the dtype; the final
    `astype` happens exactly when the dtype differs from the requested one -/
def fillDtype (dtype : DType) : DType :=
  let x := DType.f64
  let x := if dtype.isComplex then DType.promote x DType.c128 else x
  if x != dtype then dtype else x

/-- whether the final `astype(dtype)` runs -/
def fillCasts (dtype : DType) : Bool :=
  (if dtype.isComplex then DType.promote DType.f64 DType.c128 else DType.f64) != dtype

/-! ### `get_rand_blockvector` : block sizes -/

/-- the `while d < size` loop of `get_rand_blockvector`.  `bs` is the current value of the
    variable `block_size`: after the first turn it is the clamped size of the previous block
    (an int ≥ 1), so `int(block_size)` re-reads it and nothing more is drawn.  Each turn clamps to
    `[1, size - d]`.  `fuel` bounds the loop (it needs at most `size` turns). -/
def blockLoop (size : Nat) : Nat → Nat → Nat → List Nat
  | 0, _, _ => []
  | fuel + 1, d, bs =>
    if d < size then
      let b := min (max bs 1) (size - d)
      b :: blockLoop size fuel (d + b) b
    else []

/-- block sizes of `get_rand_blockvector(size, block_size)`: `bs0` is `rng.poisson(block_size *
    size)` when `block_size < 1` and `int(block_size)` otherwise -/
def randBlockSizes (size bs0 : Nat) : List Nat := blockLoop size size 0 bs0

end Rand
end SymmModel
