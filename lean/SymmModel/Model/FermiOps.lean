/-
  SymmModel.Model.FermiOps — model of symmray/fermionic_local_operators.py (property C18).

  Part 1 (faithful): `FermionicOperator` (label, dual, `dag`, `__eq__`, `__lt__`),
  `_dagger_basis`, `build_local_fermionic_elements` loop for loop (location product,
  bra ⊗ term ⊗ ket string, phased bubble sort on labels, grouping dict, vacuum pattern
  test, accumulation into a dict keyed by the tensor multi-index), `build_local_fermionic_dense`,
  the spinless / spinful charge index maps and the term lists / bases of the five built-in
  operator arrays.

  Part 2 (independent specification): Fock space over labelled modes.  A basis state is the
  strictly increasing list of occupied labels, `applyOp` acts with the Jordan–Wigner sign
  (parity of the occupied labels below), `vev w` is the amplitude of the vacuum in `w|0⟩`,
  `specAt terms bases idx = Σ coeff · vev (bra idx ++ term ++ ket idx)`.

  Core Lean only (linked into the native driver).  Labels are `Int` (the harness rank-encodes
  Python labels order-preservingly); the coefficient type is any type with `0`, `+`, `-x` and
  decidable equality (the driver uses Gaussian rationals `GRat`).
-/
import SymmModel.Model.Basic
namespace SymmModel

/-! ## Part 1: the code -/

/-- `FermionicOperator(label, dual)`; `dual = True` is a creation operator (`'+'`). -/
structure FOp where
  label : Int
  dual : Bool
  deriving DecidableEq, Repr, Inhabited

abbrev Word := List FOp

/-- `FermionicOperator.dag` -/
def FOp.dag (o : FOp) : FOp := ⟨o.label, !o.dual⟩

/-- `FermionicOperator.__lt__` (used by the odd-parity label sort of fermionic arrays). -/
def FOp.lt (a b : FOp) : Bool :=
  if a.dual then
    if b.dual then decide (a.label > b.label)   -- dual operators are reflected
    else true                                   -- creation left of annihilation
  else
    if b.dual then false
    else decide (a.label < b.label)

/-- `FermionicOperator.__eq__` -/
def FOp.eqv (a b : FOp) : Bool := a.dual == b.dual && a.label == b.label

/-- dagger of a whole word: reversed, every operator daggered -/
def dagWord (w : Word) : Word := w.reverse.map FOp.dag

/-- `_dagger_basis(basis)` -/
def daggerBasis (basis : List Word) : List Word := basis.map dagWord

/-- one sweep `for k in range(len(element) - 1)` of the phased sort.  `cur` is
    `element[k]` (after the swaps already made), the list is `element[k+1:]`.
    Returns the swept list, the phase and `any_moves`. -/
def bubbleFrom (cur : FOp) : List FOp → Int → Bool → List FOp × Int × Bool
  | [], ph, mv => ([cur], ph, mv)
  | y :: rest, ph, mv =>
    if cur.label > y.label then
      -- swap, flip phase, any_moves = True; element[k+1] is now `cur`
      let r := bubbleFrom cur rest (-ph) true
      (y :: r.1, r.2.1, r.2.2)
    else
      let r := bubbleFrom y rest ph mv
      (cur :: r.1, r.2.1, r.2.2)

/-- number of label inversions (termination measure of the `while any_moves` loop;
    not part of the code). -/
def inversions : List FOp → Nat
  | [] => 0
  | x :: l => (l.filter (fun y => decide (x.label > y.label))).length + inversions l

/-- `while any_moves:` with explicit fuel -/
def sortLoop : Nat → List FOp → Int → List FOp × Int
  | 0, el, ph => (el, ph)
  | fuel + 1, el, ph =>
    match el with
    | [] => (el, ph)
    | x :: rest =>
      let r := bubbleFrom x rest ph false
      if r.2.2 then sortLoop fuel r.1 r.2.1 else (r.1, r.2.1)

/-- the whole "phased sort by labels": `phase = 1; any_moves = True; while any_moves: …`.
    Every sweep that moves something removes at least one inversion, so `inversions + 1`
    sweeps always reach the sweep without moves (theorem `C18.sortLoop_sorted`). -/
def phasedSort (el : List FOp) : List FOp × Int := sortLoop (inversions el + 1) el 1

/-- `groups.setdefault(x.label, []).append(x)` on an insertion-ordered dict -/
def groupAdd : List (Int × List FOp) → FOp → List (Int × List FOp)
  | [], x => [(x.label, [x])]
  | (k, v) :: rest, x =>
    if k = x.label then (k, v ++ [x]) :: rest else (k, v) :: groupAdd rest x

/-- `groups = {}; for x in element: groups.setdefault(x.label, []).append(x)` -/
def groupsOf (el : List FOp) : List (Int × List FOp) := el.foldl groupAdd []

/-- `g[::2]` -/
def everyOther {α : Type} : List α → List α
  | [] => []
  | [a] => [a]
  | a :: _ :: r => a :: everyOther r

/-- `(len(group) % 2 == 0) and all(not op.dual for op in group[::2])
     and all(op.dual for op in group[1::2])` -/
def groupOk (g : List FOp) : Bool :=
  (g.length % 2 == 0) && (everyOther g).all (fun o => !o.dual)
    && (everyOther (g.drop 1)).all (fun o => o.dual)

/-- `nonvanishing = all(… for group in groups.values())` -/
def nonvanishing (el : List FOp) : Bool := (groupsOf el).all (fun p => groupOk p.2)

/-- `itertools.product(*ls)` (last factor fastest) -/
def cartProd {α : Type} : List (List α) → List (List α)
  | [] => [[]]
  | l :: ls => l.flatMap (fun x => (cartProd ls).map (fun t => x :: t))

/-- `tuple(enumerate(x))` -/
def enumerate {α : Type} (l : List α) : List (Nat × α) := l.zipIdx.map (fun p => (p.2, p.1))

/-- `phase * coeff` for `phase ∈ {1, -1}` -/
def phaseMul {α : Type} [Neg α] (ph : Int) (c : α) : α := if ph = 1 then c else -c

/-- Python `entries.get(index, 0.0)` -/
def elemAt {α : Type} [Zero α] (entries : List (List Nat × α)) (idx : List Nat) : α :=
  (alookup entries idx).getD 0

section build
variable {α : Type} [Zero α] [Add α] [Neg α] [DecidableEq α]

/-- body of `for coeff, term in terms:` at one location -/
def termStep (index : List Nat) (leftOps rightOps : Word)
    (entries : List (List Nat × α)) (ct : α × Word) : List (List Nat × α) :=
  if ct.1 = 0 then entries            -- `if coeff == 0.0: continue`
  else
    let element := leftOps ++ ct.2 ++ rightOps
    let r := phasedSort element
    if nonvanishing r.1 then
      ainsert entries index (elemAt entries index + phaseMul r.2 ct.1)
    else entries

/-- body of `for l, r in all_locations:` -/
def locStep (terms : List (α × Word)) (entries : List (List Nat × α))
    (lr : List (Nat × Word) × List (Nat × Word)) : List (List Nat × α) :=
  let leftIdx := lr.1.map (·.1)
  let rightIdx := lr.2.map (·.1)
  let leftOps := (lr.1.map (·.2)).flatten
  let rightOps := (lr.2.map (·.2)).flatten
  terms.foldl (termStep (leftIdx ++ rightIdx) leftOps rightOps) entries

/-- `all_locations` -/
def allLocations (bases : List (List Word)) :
    List (List (Nat × Word) × List (Nat × Word)) :=
  let enumRight := bases.map enumerate
  let enumLeft := bases.map (fun b => enumerate (daggerBasis b))
  (cartProd enumLeft).flatMap (fun l => (cartProd enumRight).map (fun r => (l, r)))

/-- `build_local_fermionic_elements(terms, bases)` for at least one site -/
def buildElementsCore (terms : List (α × Word)) (bases : List (List Word)) :
    List (List Nat × α) :=
  (allLocations bases).foldl (locStep terms) []

/-- `build_local_fermionic_elements(terms, bases)`; `none` = the `ValueError` of
    `left_indices, left_basis_ops = zip(*l)` when there is no site at all. -/
def buildElements (terms : List (α × Word)) (bases : List (List Word)) :
    Option (List (List Nat × α)) :=
  if bases.isEmpty then none else some (buildElementsCore terms bases)

/-- `build_local_fermionic_dense`: C-order data of `zeros(dims*2)` with `hij[idx] += val` -/
def buildDense (terms : List (α × Word)) (bases : List (List Word)) :
    Option (List Nat × List α) :=
  match buildElements terms bases with
  | none => none
  | some es =>
    let dims := bases.map List.length
    some (dims ++ dims, (allIdx (dims ++ dims)).map (fun idx => elemAt es idx))

end build

/-! ### charge index maps and the built-in operators -/

inductive LSym | Z2 | U1 | Z2Z2 | U1U1
  deriving DecidableEq, Repr

/-- `get_spinless_charge_indexmap`; `none` = `ValueError` -/
def spinlessIndexMap : LSym → Option (List (Int × Int))
  | .Z2 | .U1 => some [(0, 0), (1, 0)]
  | _ => none

/-- `get_spinful_charge_indexmap` (scalar charges `c` written `(c, 0)`) -/
def spinfulIndexMap : LSym → List (Int × Int)
  | .Z2 => [(0, 0), (1, 0), (1, 0), (0, 0)]
  | .U1 => [(0, 0), (1, 0), (1, 0), (2, 0)]
  | .Z2Z2 | .U1U1 => [(0, 0), (0, 1), (1, 0), (1, 1)]

/-- labels of the built-in operators, rank-encoded in Python string order:
    `"a" < "b"`, `"ad" < "au" < "bd" < "bu"` -/
def opA : FOp := ⟨0, false⟩
def opB : FOp := ⟨1, false⟩
def opAd : FOp := ⟨0, false⟩
def opAu : FOp := ⟨1, false⟩
def opBd : FOp := ⟨2, false⟩
def opBu : FOp := ⟨3, false⟩

def spinlessBasis (a : FOp) : List Word := [[], [a.dag]]
/-- `((), (ad.dag,), (au.dag,), (au.dag, ad.dag))` -/
def spinfulBasis (u d : FOp) : List Word := [[], [d.dag], [u.dag], [u.dag, d.dag]]

section builtin
variable {α : Type} [Neg α]

/-- terms of `fermi_hubbard_spinless_local_array`; the caller passes `mua = mu/coordinations[0]`… -/
def spinlessHubbardTerms (t V muA muB : α) : List (α × Word) :=
  [(-t, [opA.dag, opB]), (-t, [opB.dag, opA]),
   (V, [opA.dag, opA, opB.dag, opB]),
   (-muA, [opA.dag, opA]), (-muB, [opB.dag, opB])]

/-- terms of `fermi_hubbard_local_array` (`uA = Ua/coordinations[0]`, `muA = mua/coordinations[0]`, …) -/
def hubbardTerms (t uA uB muA muB : α) : List (α × Word) :=
  [(-t, [opAu.dag, opBu]), (-t, [opBu.dag, opAu]),
   (-t, [opAd.dag, opBd]), (-t, [opBd.dag, opAd]),
   (uA, [opAu.dag, opAu, opAd.dag, opAd]), (uB, [opBu.dag, opBu, opBd.dag, opBd]),
   (-muA, [opAu.dag, opAu]), (-muA, [opAd.dag, opAd]),
   (-muB, [opBu.dag, opBu]), (-muB, [opBd.dag, opBd])]

def numberSpinlessTerms (one : α) : List (α × Word) := [(one, [opA.dag, opA])]
def numberSpinfulTerms (one : α) : List (α × Word) :=
  [(one, [opAu.dag, opAu]), (one, [opAd.dag, opAd])]
def spinTerms (half : α) : List (α × Word) :=
  [(half, [opAu.dag, opAu]), (-half, [opAd.dag, opAd])]
end builtin

/-! ## Part 2: Fock-space specification (independent of Part 1) -/

/-- number of occupied labels below `a` -/
def countBelow (a : Int) (s : List Int) : Nat := (s.filter (fun b => decide (b < a))).length

/-- Jordan–Wigner sign `(-1)^{#occupied labels below a}` -/
def jwSign (a : Int) (s : List Int) : Int := if countBelow a s % 2 = 0 then 1 else -1

/-- insert a label into a strictly increasing list -/
def fockInsert (a : Int) : List Int → List Int
  | [] => [a]
  | b :: s => if a < b then a :: b :: s else b :: fockInsert a s

/-- a signed basis state of Fock space, or the zero vector (`none`) -/
abbrev FState := Option (Int × List Int)

/-- action of one operator on a basis state: creation vanishes on an occupied mode,
    annihilation on an empty one; otherwise Jordan–Wigner sign and the new occupation. -/
def applyOp (o : FOp) (s : List Int) : FState :=
  if o.dual then
    if o.label ∈ s then none else some (jwSign o.label s, fockInsert o.label s)
  else
    if o.label ∈ s then some (jwSign o.label s, s.erase o.label) else none

def bindOp (o : FOp) : FState → FState
  | none => none
  | some (amp, s) =>
    match applyOp o s with
    | none => none
    | some (sg, s') => some (amp * sg, s')

/-- `w |st⟩`: the rightmost operator acts first -/
def applyWordSt (w : Word) (st : FState) : FState := w.foldr bindOp st

def applyWord (w : Word) (s : List Int) : FState := applyWordSt w (some (1, s))

/-- amplitude of the vacuum in a signed state -/
def vacAmp : FState → Int
  | some (amp, []) => amp
  | _ => 0

/-- vacuum expectation value `⟨0| w |0⟩` -/
def vev (w : Word) : Int := vacAmp (applyWord w [])

/-- `v · c` for `v ∈ {-1, 0, 1}` -/
def scaleInt {α : Type} [Zero α] [Neg α] (v : Int) (c : α) : α :=
  if v = 0 then 0 else if v = 1 then c else -c

/-- `|j₁⟩|j₂⟩…`: concatenation of the basis-state strings of the sites -/
def ketOf (bases : List (List Word)) (js : List Nat) : Word :=
  (List.zipWith (fun b j => b.getD j []) bases js).flatten

/-- the documented bra convention `⟨i₁|⟨i₂|…`: every site daggered, sites not reversed -/
def braOf (bases : List (List Word)) (is : List Nat) : Word :=
  (List.zipWith (fun b i => dagWord (b.getD i [])) bases is).flatten

def sumA {α : Type} [Zero α] [Add α] : List α → α
  | [] => 0
  | x :: l => x + sumA l

section spec
variable {α : Type} [Zero α] [Add α] [Neg α]

/-- the specified tensor element at multi-index `idx = (i₁…iₙ, j₁…jₙ)` -/
def specAt (terms : List (α × Word)) (bases : List (List Word)) (idx : List Nat) : α :=
  let dims := bases.map List.length
  let n := bases.length
  if inBox (dims ++ dims) idx then
    sumA (terms.map (fun ct =>
      scaleInt (vev (braOf bases (idx.take n) ++ ct.2 ++ ketOf bases (idx.drop n))) ct.1))
  else 0

/-- all specified elements, C order of the multi-index -/
def specElements (terms : List (α × Word)) (bases : List (List Word)) : List (List Nat × α) :=
  let dims := bases.map List.length
  (allIdx (dims ++ dims)).map (fun idx => (idx, specAt terms bases idx))

end spec

/-- matrix of the operator `Σ coeff · term` on Fock space in the *proper* basis
    `|j⟩ = ket j |0⟩`, `⟨i| = (|i⟩)†`: rows/cols in C order of the site multi-indices. -/
def fockMatrixAt {α : Type} [Zero α] [Add α] [Neg α]
    (terms : List (α × Word)) (bases : List (List Word)) (is js : List Nat) : α :=
  sumA (terms.map (fun ct =>
    scaleInt (vev (dagWord (ketOf bases is) ++ ct.2 ++ ketOf bases js)) ct.1))

/-! ### charges (specification of the index maps) -/

/-- charge carried by a word when mode `l` carries charge `q l`: creation adds, annihilation removes -/
def wordCharge (q : Int → Int) : Word → Int
  | [] => 0
  | o :: w => (if o.dual then q o.label else - q o.label) + wordCharge q w

/-- particle number -/
def qNumber : Int → Int := fun _ => 1
/-- number of particles in the modes listed in `ls` (e.g. one spin species) -/
def qSpecies (ls : List Int) : Int → Int := fun l => if l ∈ ls then 1 else 0

end SymmModel
