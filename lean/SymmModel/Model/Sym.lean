/-
  SymmModel.Model.Sym — the five built-in symmetries and the Koszul sign.
  Python: symmray/symmetries.py (Z2, Z4, U1, Z2Z2, U1U1, calc_phase_permutation).

  A charge is a pair of integers.  Scalar symmetries (Z2, Z4, U1) use `(c, 0)`; Python's
  ordering on ints / on 2-tuples is then the lexicographic order on pairs.
-/
import SymmModel.Model.Basic
namespace SymmModel

abbrev Charge := Int × Int

inductive Sym where
  | Z2 | Z4 | U1 | Z2Z2 | U1U1
  deriving DecidableEq, Repr, Inhabited

def Charge.lt (a b : Charge) : Bool := a.1 < b.1 || (a.1 == b.1 && a.2 < b.2)

/-- lexicographic order on sectors / tuples of charges (Python tuple comparison). -/
def sectorLt : List Charge → List Charge → Bool
  | [], [] => false
  | [], _ :: _ => true
  | _ :: _, [] => false
  | a :: as, b :: bs => Charge.lt a b || (a == b && sectorLt as bs)

namespace Sym

/-- `Symmetry.valid(charge)` -/
def valid : Sym → Charge → Bool
  | Z2, c => (c.1 == 0 || c.1 == 1) && c.2 == 0
  | Z4, c => (c.1 == 0 || c.1 == 1 || c.1 == 2 || c.1 == 3) && c.2 == 0
  | U1, c => c.2 == 0
  | Z2Z2, c => (c.1 == 0 || c.1 == 1) && (c.2 == 0 || c.2 == 1)
  | U1U1, _ => true

def sum1 (cs : List Charge) : Int := (cs.map (·.1)).foldl (· + ·) 0
def sum2 (cs : List Charge) : Int := (cs.map (·.2)).foldl (· + ·) 0

/-- `Symmetry.combine(*charges)`, n-ary exactly as written: `sum % 2`, `sum % 4`, `sum`,
    xor-fold (xor on {0,1} is `(a + b) % 2` applied left to right), componentwise sum. -/
def combine : Sym → List Charge → Charge
  | Z2, cs => (sum1 cs % 2, 0)
  | Z4, cs => (sum1 cs % 4, 0)
  | U1, cs => (sum1 cs, 0)
  | Z2Z2, cs => (cs.foldl (fun acc c => (acc + c.1) % 2) 0, cs.foldl (fun acc c => (acc + c.2) % 2) 0)
  | U1U1, cs => (sum1 cs, sum2 cs)

/-- `Symmetry.sign(charge, dual)` -/
def sign : Sym → Charge → Bool → Charge
  | Z2, c, _ => c
  | Z4, c, d => if d then ((4 - c.1) % 4, 0) else c
  | U1, c, d => if d then (-c.1, 0) else c
  | Z2Z2, c, _ => c
  | U1U1, c, d => if d then (-c.1, -c.2) else c

/-- `Symmetry.parity(charge)` as a Boolean (true = odd). -/
def parity : Sym → Charge → Bool
  | Z2, c => c.1 % 2 == 1
  | Z4, c => c.1 % 2 == 1
  | U1, c => c.1 % 2 == 1
  | Z2Z2, c => (c.1 + c.2) % 2 == 1
  | U1U1, c => (c.1 + c.2) % 2 == 1

def zero (s : Sym) : Charge := s.combine []

end Sym

/-! ### Koszul sign: `calc_phase_permutation(parities, perm)` -/

def isOdd (par : List Bool) (ax : Nat) : Bool := par.getD ax false

/-- `for other_ax in range(ax): if other_ax not in moved and parities[other_ax]: swaps += 1` -/
def crossed (par : List Bool) (moved : List Nat) (ax : Nat) : Nat :=
  ((List.range ax).filter fun o => !moved.contains o && isOdd par o).length

/-- the outer loop over `perm`, threading `moved` -/
def swapsLoop (par : List Bool) : List Nat → List Nat → Nat
  | [], _ => 0
  | ax :: rest, moved =>
      (if isOdd par ax then crossed par moved ax else 0) + swapsLoop par rest (ax :: moved)

/-- `calc_phase_permutation(parities, perm)`; `true` means the phase is `-1`. -/
def koszulNeg (par : List Bool) : Option (List Nat) → Bool
  | none => ((par.filter id).length / 2) % 2 == 1
  | some perm => swapsLoop par perm [] % 2 == 1

def koszul (par : List Bool) (perm : Option (List Nat)) : Int :=
  if koszulNeg par perm then -1 else 1

end SymmModel
