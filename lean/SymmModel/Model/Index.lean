/-
  SymmModel.Model.Index — `BlockIndex` and `SubIndexInfo`.
  Python: symmray/abelian_core.py:27-353.

  `Index.mk cm dual sub`:
    cm   : the chargemap as an ordered list (charge, size)  (BlockIndex sorts it on creation)
    dual : flow direction
    sub  : `none`, or the sub-index information of a fused index:
           (sub-indices, extents) with extents : fused charge ↦ ordered (sub-sector ↦ size)
-/
import SymmModel.Model.Sym
namespace SymmModel

abbrev Extent := List (List Charge × Nat)
abbrev Extents := List (Charge × Extent)

inductive Index where
  | mk (cm : List (Charge × Nat)) (dual : Bool) (sub : Option (List Index × Extents))
  deriving Inhabited

namespace Index

def cm : Index → List (Charge × Nat)
  | mk c _ _ => c
def dual : Index → Bool
  | mk _ d _ => d
def sub : Index → Option (List Index × Extents)
  | mk _ _ s => s

def charges (i : Index) : List Charge := i.cm.map (·.1)
def sizeTotal (i : Index) : Nat := sumN (i.cm.map (·.2))
def sizeOf? (i : Index) (c : Charge) : Option Nat := alookup i.cm c

/-- sort a chargemap by charge (what `BlockIndex.__init__`/`copy_with` do). -/
def sortCm (cm : List (Charge × Nat)) : List (Charge × Nat) :=
  isort (fun a b => Charge.lt a.1 b.1) cm

/-- plain index without sub-structure, chargemap given in any order -/
def plain (cm : List (Charge × Nat)) (dual : Bool) : Index := mk (sortCm cm) dual none

mutual
  /-- `BlockIndex.conj` : flip the direction, recursively through sub-indices -/
  def conj : Index → Index
    | mk c d none => mk c (!d) none
    | mk c d (some (subs, ext)) => mk c (!d) (some (conjList subs, ext))
  def conjList : List Index → List Index
    | [] => []
    | i :: is => conj i :: conjList is
end

/-- `BlockIndex.drop_charges` (and `SubIndexInfo.drop_charges`) -/
def dropCharges : Index → List Charge → Index
  | mk c d s, cs =>
      mk (c.filter (fun p => !cs.contains p.1)) d
         (s.map (fun se => (se.1, se.2.filter (fun p => !cs.contains p.1))))

/-- `copy_with(chargemap=…)` keeps dual and subinfo -/
def withCm : Index → List (Charge × Nat) → Index
  | mk _ d s, c => mk (sortCm c) d s

mutual
  def beq : Index → Index → Bool
    | mk c1 d1 s1, mk c2 d2 s2 => c1 == c2 && d1 == d2 && beqSub s1 s2
  def beqSub : Option (List Index × Extents) → Option (List Index × Extents) → Bool
    | none, none => true
    | some (l1, e1), some (l2, e2) => beqList l1 l2 && e1 == e2
    | _, _ => false
  def beqList : List Index → List Index → Bool
    | [], [] => true
    | a :: as, b :: bs => beq a b && beqList as bs
    | _, _ => false
end

instance : BEq Index := ⟨beq⟩

end Index
end SymmModel
