/-
  SymmModel.Model.DTypeFlow — the dtype-flow model of symmray's operations (property C20).

  A `DArr` is the block structure of an array (symmetry, index tables, total charge, the stored
  sectors *in dict order*) with one `DType` per stored block instead of numbers; a `DVec` is the
  same for a `BlockVector`.  Every operation below is the transfer function "dtypes of the
  operand blocks ↦ dtypes of the result blocks" of the corresponding symmray routine, written
  loop for loop after the source.  The set and the order of the result sectors are computed by
  the structural functions of the value model (`calcFuseBlockInfo`, `extentStart?`,
  `Arr.genValidSectors`, `dropUnused`, `parseAxes`, `calcReshapeArgs`, `fromDense`, …) applied
  to the skeleton `DArr.skel`; only the per-block payload is new.

  numpy facts used (each tied to numpy by the harness, exhaustively over the four dtypes):
    * a binary kernel (`a + b`, `a * b`, `tensordot`, `concatenate`, `stack`, `linalg.solve`)
      has the dtype `promote a b`;
    * `transpose`, `reshape`, basic slicing, `conj`, unary minus, `sqrt`, `einsum` (one operand)
      keep the dtype; `abs`, singular values and eigenvalues have `realPart`;
    * `zeros(shape, dtype=t)` / `zeros(shape, like=ex)` has dtype `t` / that of `ex`;
      without an example block (`get_any_array()` returns the Python float `0.0`) it is float64;
    * `dest[sel] = src` keeps the dtype of `dest` (imaginary parts of a complex `src` are
      discarded into a real `dest` with only a `ComplexWarning`; double is rounded to single);
    * Python scalars are weak (NEP 50): `block * 2`, `block * 2.0` keep the dtype,
      `block * 1j` makes it complex at the same precision; numpy scalars promote.

  Pending fermionic signs never influence a dtype: `phase_sync` multiplies blocks by the Python
  int `-1` (`-block`), which keeps the dtype, and no routine creates or drops a block because of
  a sign.  A `DArr` therefore carries no sign table; the fermionic routines differ from the
  abelian ones only in the order of the structural steps (transpose first, then fuse).

  Python: symmray/block_core.py, abelian_core.py, fermionic_core.py, linalg.py, utils.py:18-63.
-/
import SymmModel.Model.DType
import SymmModel.Model.Reshape
import SymmModel.Model.Linalg
import SymmModel.Model.Construct
namespace SymmModel
namespace DFlow
open DType

/-! ### flags: lossy casts and invented dtypes -/

/-- what happened to the data on the way, besides promotion:
    `losesImag`  a complex block was assigned into a real destination (numpy: ComplexWarning);
    `narrows`    a double-precision block was assigned into a single-precision destination;
    `defaulted`  zeros were created without any example block (numpy's default float64). -/
structure Flags where
  losesImag : Bool := false
  narrows : Bool := false
  defaulted : Bool := false
  deriving DecidableEq, Repr, Inhabited

def Flags.none : Flags := {}
def Flags.or (a b : Flags) : Flags :=
  ⟨a.losesImag || b.losesImag, a.narrows || b.narrows, a.defaulted || b.defaulted⟩

/-- `dest[sel] = src` -/
def narrowsInto (dest src : DType) : Bool := src.isDouble && !dest.isDouble
def castFlags (dest src : DType) : Flags := ⟨losesImag dest src, narrowsInto dest src, false⟩

/-! ### scalars -/

/-- a scalar operand / result: a Python number or a numpy scalar of a dtype -/
inductive ScalarK where
  | pyint | pyfloat | pycomplex
  | np (d : DType)
  deriving DecidableEq, Repr, Inhabited

/-- dtype of `block ∘ scalar` for `∘` one of `* / + - **` (numpy ≥ 2, NEP 50) -/
def scalarResult (d : DType) : ScalarK → DType
  | .pyint => d
  | .pyfloat => d
  | .pycomplex => DType.mk true d.isDouble
  | .np e => promote d e

/-- kind of `s ∘ t` for two scalars -/
def ScalarK.combine : ScalarK → ScalarK → ScalarK
  | .np d, s => .np (scalarResult d s)
  | s, .np d => .np (scalarResult d s)
  | .pycomplex, _ => .pycomplex
  | _, .pycomplex => .pycomplex
  | .pyfloat, _ => .pyfloat
  | _, .pyfloat => .pyfloat
  | .pyint, .pyint => .pyint

/-- `np.concatenate(pieces)` / `np.stack(pieces)`: numpy raises `ValueError` on no pieces -/
def concatD : List DType → Except Err DType
  | [] => throw Err.value
  | d :: ds => pure (ds.foldl promote d)

/-- `d[k]` / attribute access that raises `e` when absent -/
def orErr {α : Type} (e : Err) : Option α → Except Err α
  | some a => pure a
  | none => throw e

/-! ### arrays and vectors -/

abbrev DBlocks := List (Sector × DType)

structure DArr where
  sym : Sym
  fermi : Bool
  indices : List Index
  charge : Charge
  blocks : DBlocks
  deriving Inhabited

structure DVec where
  blocks : List (Charge × DType)
  deriving Inhabited

instance : Zero Unit := ⟨()⟩

namespace DArr

/-- the value-model array with the same structure and empty payloads -/
def skel (a : DArr) : Arr Unit :=
  { sym := a.sym, fermi := a.fermi, indices := a.indices, charge := a.charge,
    blocks := a.blocks.map (fun p => (p.1, (⟨[], #[]⟩ : Blk Unit))) }

def ndim (a : DArr) : Nat := a.indices.length
def duals (a : DArr) : List Bool := a.indices.map Index.dual
def shape (a : DArr) : List Nat := a.indices.map Index.sizeTotal
def size (a : DArr) : Nat := prod a.shape
def sectors (a : DArr) : List Sector := a.blocks.map (·.1)

/-- dtype of `get_any_array()`: the first stored block in dict order
    (`next(iter(self._blocks.values()), 0.0)`); the Python float `0.0` makes numpy's `zeros`
    fall back to float64 -/
def ex (a : DArr) : DType :=
  match a.blocks with
  | (_, d) :: _ => d
  | [] => zerosDefault

/-- zeros were requested although there is no block to take a dtype from -/
def exFlags (a : DArr) : Flags := ⟨false, false, a.blocks.isEmpty⟩

/-- shape of the block of `sector` (all blocks of a valid array have the shape given by the
    index tables) -/
def blockShape (a : DArr) (sector : Sector) : List Nat :=
  (Arr.blockShape? a.indices sector).getD []

/-- `_map_blocks(fn_sector=f)` with a dtype-keeping block function -/
def mapSectors (a : DArr) (f : Sector → Sector) : DBlocks :=
  adict (a.blocks.map (fun p => (f p.1, p.2)))

/-! #### structural one-operand operations (all keep every dtype) -/

/-- `transpose(axes)` (abelian and fermionic: the sign table is not part of a `DArr`) -/
def transposeD (a : DArr) (axes : List Nat) : DArr :=
  { a with indices := permuted a.indices axes,
           blocks := a.mapSectors (fun s => permuted s axes) }

/-- `conj()`: `np.conj` keeps the dtype -/
def conjD (a : DArr) : DArr :=
  { a with indices := a.indices.map Index.conj, charge := a.sym.sign a.charge true }

/-- `dagger()`: abelian = `conj().transpose()`; fermionic builds the reversed dict directly -/
def daggerD (a : DArr) : DArr :=
  if a.fermi then
    { a with indices := a.indices.reverse.map Index.conj,
             charge := a.sym.sign a.charge true,
             blocks := a.blocks.map (fun p => (p.1.reverse, p.2)) }
  else a.conjD.transposeD (Arr.reversedAxes a.ndim)

/-- the `keep` list computed by the loop of `squeeze(axis)` -/
def squeezeKeep (a : DArr) (axis : Option (List Nat)) : Except Err (List Nat) :=
  a.indices.zipIdx.foldlM (fun (keep : List Nat) (p : Index × Nat) => do
    let remove ← match axis with
      | none => pure (p.1.sizeTotal == 1)
      | some axs =>
        if axs.contains p.2 then
          if p.1.sizeTotal > 1 then throw Err.value else pure true
        else pure false
    if remove then
      match p.1.cm with
      | [(c, _)] => if c != a.sym.zero then throw Err.value else pure keep
      | _ => throw Err.value
    else pure (keep ++ [p.2])) []

/-- `squeeze(axis)`: `block[selector]` keeps the dtype -/
def squeezeD (a : DArr) (axis : Option (List Nat)) : Except Err DArr := do
  let keep ← a.squeezeKeep axis
  pure { a with indices := permuted a.indices keep,
                blocks := a.mapSectors (fun s => permuted s keep) }

/-- `expand_dims(axis, c, dual)`: `block[..., None, ...]` keeps the dtype -/
def expandDimsD (a : DArr) (axis : Nat) (c : Option Charge) (dual : Option Bool) : DArr :=
  let dual := match dual with
    | some d => d
    | none =>
      if axis > 0 then (a.indices.getD (axis - 1) default).dual
      else if axis < a.ndim then (a.indices.getD axis default).dual
      else false
  let newCharge := match c with
    | none => a.charge
    | some c => a.sym.combine [a.charge, a.sym.sign c dual]
  let c := c.getD a.sym.zero
  { a with indices := a.indices.take axis ++ [Index.mk [(c, 1)] dual none] ++ a.indices.drop axis,
           charge := newCharge,
           blocks := a.mapSectors (fun s => s.take axis ++ [c] ++ s.drop axis) }

/-- `sync_charges()` -/
def syncChargesD (a : DArr) : DArr := { a with indices := dropUnused a.indices a.sectors }

/-- `-x`, `phase_sync()`, `phase_flip`, `phase_transpose`, `phase_sector`, `phase_global`:
    block dict unchanged or blocks negated (`-block` keeps the dtype) -/
def keepD (a : DArr) : DArr := a

/-- `x * s`, `x / s` for a scalar `s` (`apply_to_arrays(lambda x: x * other)`) -/
def scalarD (a : DArr) (s : ScalarK) : DArr :=
  { a with blocks := a.blocks.map (fun p => (p.1, scalarResult p.2 s)) }

end DArr

/-! ### fusing -/

/-- the selector of `_fuse_blocks_via_insert` for one block: only its error points matter here -/
def insertStarts (fi : FuseInfo) (p : BlockPlan) : Except Err (List Nat) :=
  (List.range fi.newIndices.length).mapM (fun ax =>
    if fi.gi.position ≤ ax && ax < fi.gi.position + fi.gi.numGroups
        && !fi.gi.singlets.contains (ax - fi.gi.position) then
      match extentStart? (fi.newIndices.getD ax default) (p.newSector.getD ax (0, 0))
              (p.subsectors.getD (ax - fi.gi.position) []) with
      | some (st, _) => pure st
      | none => throw Err.key
    else pure 0)

/-- `new_blocks[new_sector]`, or `_zeros(fused_shape, dtype=ex)` when it does not exist yet -/
def insertTarget (ex : DType) (fi : FuseInfo) (acc : DBlocks) (p : BlockPlan) : Except Err DType :=
  match alookup acc p.newSector with
  | some t => pure t
  | none => match Arr.blockShape? fi.newIndices p.newSector with
    | some _ => pure ex
    | none => throw Err.key

/-- one iteration of the loop of `_fuse_blocks_via_insert`: look the plan up, find or create
    (`_zeros(fused_shape, dtype=ex)`) the target block, assign the sub-block into it -/
def fuseInsertStep (ex : DType) (fi : FuseInfo) (acc : DBlocks × Flags) (sb : Sector × DType) :
    Except Err (DBlocks × Flags) := do
  let p ← orErr Err.key (alookup fi.blockmap sb.1)
  let _ ← insertStarts fi p
  let target ← insertTarget ex fi acc.1 p
  pure (ainsert acc.1 p.newSector (castInto target sb.2), acc.2.or (castFlags target sb.2))

/-- `_fuse_blocks_via_insert` with `zeros_kwargs = {dtype: ex}` -/
def fuseInsertD (ex : DType) (blocks : DBlocks) (fi : FuseInfo) : Except Err (DBlocks × Flags) :=
  blocks.foldlM (fuseInsertStep ex fi) ([], Flags.none)

/-- `_get_subblock`: the stored sub-block, or `_zeros(shape, dtype=ex)` -/
def subblockD (ex : DType) (subblocks : List (List Sector × DType)) (key : List Sector) : DType :=
  match alookup subblocks key with
  | some d => d
  | none => ex

/-- `new_indices[position + g].subinfo.extents[new_charge]` -/
def concatExtent (fi : FuseInfo) (newSector : Sector) (g : Nat) : Except Err Extent :=
  match (fi.newIndices.getD (fi.gi.position + g) default).sub with
  | some (_, exts) => orErr Err.key (alookup exts (newSector.getD (fi.gi.position + g) (0, 0)))
  | none => throw Err.attr

/-- `_recurse_concat(new_sector, g, subkey)` -/
def recurseConcatD (ex : DType) (fi : FuseInfo) (subblocks : List (List Sector × DType))
    (newSector : Sector) : Nat → Nat → List Sector → Except Err DType
  | 0, _, _ => throw Err.other
  | fuel + 1, g, subkey =>
    let last := g + 1 == fi.gi.numGroups
    if fi.gi.singlets.contains g then
      let newSubkey := subkey ++ [[newSector.getD (fi.gi.position + g) (0, 0)]]
      if last then pure (subblockD ex subblocks newSubkey)
      else recurseConcatD ex fi subblocks newSector fuel (g + 1) newSubkey
    else do
      let ext ← concatExtent fi newSector g
      let arrays ← ext.mapM (fun (q : Sector × Nat) =>
        if last then pure (subblockD ex subblocks (subkey ++ [q.1]))
        else recurseConcatD ex fi subblocks newSector fuel (g + 1) (subkey ++ [q.1]))
      concatD arrays

/-- the grouping loop of `_fuse_blocks_via_concat`:
    `new_blocks.setdefault(new_sector, {})[subsectors] = new_array` -/
def concatGroup (fi : FuseInfo) (blocks : DBlocks) :
    Except Err (List (Sector × List (List Sector × DType))) :=
  blocks.foldlM (fun (acc : List (Sector × List (List Sector × DType))) (sb : Sector × DType) => do
    let p ← orErr Err.key (alookup fi.blockmap sb.1)
    let cur := (alookup acc p.newSector).getD []
    pure (ainsert acc p.newSector (ainsert cur p.subsectors sb.2))) []

/-- `_fuse_blocks_via_concat` -/
def fuseConcatD (ex : DType) (blocks : DBlocks) (fi : FuseInfo) : Except Err DBlocks := do
  let grouped ← concatGroup fi blocks
  grouped.mapM (fun (q : Sector × List (List Sector × DType)) => do
    let d ← recurseConcatD ex fi q.2 q.1 fi.gi.numGroups 0 []
    pure (q.1, d))

/-- the two strategies of `_fuse_core` -/
def fuseBlocksD (ex : DType) (blocks : DBlocks) (fi : FuseInfo) : FuseMode → Except Err (DBlocks × Flags)
  | .insert => fuseInsertD ex blocks fi
  | .concat => do
    let r ← fuseConcatD ex blocks fi
    pure (r, Flags.none)

namespace DArr

/-- `_fuse_core(*axes_groups, mode)`: `zeros_kwargs["dtype"] = self.get_any_array().dtype` -/
def fuseCoreD (a : DArr) (groups : List (List Nat)) (mode : FuseMode) : Except Err (DArr × Flags) := do
  let fi ← calcFuseBlockInfo a.skel groups
  let r ← fuseBlocksD a.ex a.blocks fi mode
  pure ({ a with indices := fi.newIndices, blocks := r.1 }, r.2)

/-- the `expand_dims` tail shared by both `fuse` methods -/
def expandEmptyD (xf : DArr) (expand : List Nat) (axes : List Nat) : Except Err DArr :=
  match axes with
  | [] => throw Err.value
  | g :: gs =>
    let g0 := gs.foldl min g
    pure (expand.foldl (fun x ax => x.expandDimsD (g0 + ax) none none) xf)

/-- `if expand_empty and _axes_expand: … expand_dims …` -/
def expandTailD (xf : DArr × Flags) (doExpand : Bool) (expand axes : List Nat) : Except Err (DArr × Flags) :=
  if doExpand then do
    let y ← expandEmptyD xf.1 expand axes
    pure (y, xf.2)
  else pure xf

/-- `AbelianArray.fuse(*axes_groups, expand_empty, mode)` -/
def fuseAD (a : DArr) (groups : List (List Nat)) (mode : FuseMode := .insert)
    (expandEmpty : Bool := true) : Except Err (DArr × Flags) := do
  let nonEmpty := groups.filter (fun g => !g.isEmpty)
  let expand := (groups.zipIdx.filter (fun p => p.1.isEmpty)).map (·.2)
  let xf ← (if nonEmpty.isEmpty then pure (a, Flags.none) else a.fuseCoreD nonEmpty mode)
  expandTailD xf (expandEmpty && !expand.isEmpty) expand nonEmpty.flatten

/-- `FermionicArray.fuse(*axes_groups, expand_empty)`: fermionic transpose to make the groups
    contiguous, sign bookkeeping (no dtype content), `phase_sync`, then `_fuse_core` -/
def fuseFD (a : DArr) (groups : List (List Nat)) (mode : FuseMode := .insert)
    (expandEmpty : Bool := true) : Except Err (DArr × Flags) := do
  let nonEmpty := groups.filter (fun g => !g.isEmpty)
  let expand := (groups.zipIdx.filter (fun p => p.1.isEmpty)).map (·.2)
  let gi := calcFuseGroupInfo nonEmpty a.duals
  let newGroups ← (if nonEmpty.isEmpty then pure nonEmpty else
    nonEmpty.mapM (fun g => g.mapM (fun ax => orErr Err.value (indexOf? gi.perm ax))))
  let xf ← (if nonEmpty.isEmpty then pure (a, Flags.none)
    else (a.transposeD gi.perm).fuseCoreD newGroups mode)
  expandTailD xf (expandEmpty && !expand.isEmpty) expand newGroups.flatten

def fuseD (a : DArr) (groups : List (List Nat)) (mode : FuseMode := .insert)
    (expandEmpty : Bool := true) : Except Err (DArr × Flags) :=
  -- `FermionicArray.fuse` has no `mode` argument: `_fuse_core` runs with "auto" = insert on numpy
  if a.fermi then a.fuseFD groups .insert expandEmpty else a.fuseAD groups mode expandEmpty

/-- the pieces one block is cut into by `unfuse(axis)`: slices keep the dtype -/
def unfusePieces (subIdx : List Index) (exts : Extents) (axis : Nat) (sb : Sector × DType) :
    Except Err (List (Sector × DType)) := do
  let ext ← orErr Err.key (alookup exts (sb.1.getD axis (0, 0)))
  ext.mapM (fun (q : Sector × Nat) =>
    match Arr.blockShape? subIdx q.1 with
    | some _ => pure (replaceWithSeq sb.1 axis q.1, sb.2)
    | none => throw Err.key)

/-- `unfuse(axis)` (the fermionic method adds signs only) -/
def unfuseD (a : DArr) (axis : Nat) : Except Err DArr := do
  let ix ← orErr Err.index a.indices[axis]?
  let sub ← orErr Err.attr ix.sub
  let newBlocks ← a.blocks.foldlM (fun (acc : DBlocks) (sb : Sector × DType) => do
    let pieces ← unfusePieces sub.1 sub.2 axis sb
    pure (pieces.foldl (fun m kv => ainsert m kv.1 kv.2) acc)) []
  pure { a with indices := replaceWithSeq a.indices axis sub.1, blocks := newBlocks }

/-- `unfuse_all()` -/
def unfuseAllD (a : DArr) : Except Err DArr :=
  (List.range a.ndim).reverse.foldlM (fun (x : DArr) ax =>
    match x.indices[ax]? with
    | some ix => if ix.sub.isSome then x.unfuseD ax else pure x
    | none => pure x) a

def expandDispatchD (x : DArr) (ax : Nat) : Except Err DArr :=
  if ax > x.ndim then throw Err.index else pure (x.expandDimsD ax none none)

/-- `reshape(newshape)`: planner on the skeleton, then unfuse / fuse / expand_dims -/
def reshapeD (a : DArr) (newshape : List Int) : Except Err (DArr × Flags) := do
  let full ← findFullReshape newshape a.size
  let ns ← full.mapM (fun (d : Int) => if d < 0 then (throw Err.notimpl : Except Err Nat) else pure d.toNat)
  let plan ← calcReshapeArgs a.shape ns a.skel.subsizes
  let x ← plan.1.foldlM (fun (x : DArr) ax => x.unfuseD ax) a
  let xf ← plan.2.1.foldlM (fun (x : DArr × Flags) grouping => do
    let r ← x.1.fuseD grouping
    pure (r.1, x.2.or r.2)) (x, Flags.none)
  let y ← plan.2.2.foldlM expandDispatchD xf.1
  pure (y, xf.2)

end DArr

/-! ### contraction -/

/-- `functools.reduce(operator.add, …)` per new sector, in the order the pairs are found -/
def accumPromote (pairs : List (Sector × DType)) : DBlocks :=
  pairs.foldl (fun acc p =>
    match alookup acc p.1 with
    | none => acc ++ [(p.1, p.2)]
    | some cur => ainsert acc p.1 (promote cur p.2)) []

/-- the aligned block pairs of `_tensordot_blockwise` (a's blocks outer, b's blocks inner) with
    the dtype of each `tensordot(block_a, block_b)` -/
def tdotPairs (a b : DArr) (leftAxes axesA axesB rightAxes : List Nat) : List (Sector × DType) :=
  a.blocks.flatMap (fun pa =>
    (b.blocks.filter (fun pb => permuted pb.1 axesB == permuted pa.1 axesA)).map (fun pb =>
      (permuted pa.1 leftAxes ++ permuted pb.1 rightAxes, promote pa.2 pb.2)))

/-- `_tensordot_blockwise` -/
def tensordotBlockwiseD (a b : DArr) (leftAxes axesA axesB rightAxes : List Nat) : DArr :=
  let newBlocks := accumPromote (tdotPairs a b leftAxes axesA axesB rightAxes)
  let newIdx := without a.indices axesA ++ without b.indices axesB
  { a with indices := dropUnused newIdx (newBlocks.map (·.1)),
           charge := a.sym.combine [a.charge, b.charge],
           blocks := newBlocks }

/-- `drop_misaligned_sectors` -/
def dropMisalignedD (a b : DArr) (axesA axesB : List Nat) : DArr × DArr :=
  let subA := a.sectors.map (fun s => permuted s axesA)
  let subB := b.sectors.map (fun s => permuted s axesB)
  let allowed := subA.filter (fun k => subB.contains k)
  let blocksA := a.blocks.filter (fun p => allowed.contains (permuted p.1 axesA))
  let blocksB := b.blocks.filter (fun p => allowed.contains (permuted p.1 axesB))
  ({ a with blocks := blocksA, indices := dropUnused a.indices (blocksA.map (·.1)) },
   { b with blocks := blocksB, indices := dropUnused b.indices (blocksB.map (·.1)) })

/-- the axes of the fused operands: `{(False, False): ((), ()), (False, True): ((), (0,)),
    (True, False): ((0,), ()), (True, True): ((0,), (1,))}` -/
def matAxes : Bool → Bool → List Nat × List Nat
  | false, false => ([], [])
  | false, true => ([], [0])
  | true, false => ([0], [])
  | true, true => ([0], [1])

/-- `_tensordot_via_fused`: `AbelianArray.fuse` of both operands (insert mode on numpy, each with
    the dtype of *its own* first block), block matmul, unfuse -/
def tensordotViaFusedD (a b : DArr) (leftAxes axesA axesB rightAxes : List Nat) :
    Except Err (DArr × Flags) := do
  let ab := dropMisalignedD a b axesA axesB
  if ab.1.blocks.isEmpty || ab.2.blocks.isEmpty then
    pure ({ ab.1 with indices := without ab.1.indices axesA ++ without ab.2.indices axesB,
                      charge := ab.1.sym.combine [ab.1.charge, ab.2.charge],
                      blocks := [] }, Flags.none)
  else do
    let af ← ab.1.fuseAD [leftAxes, axesA] .insert false
    let bf ← ab.2.fuseAD [axesB, rightAxes] .insert false
    let lk := matAxes (!leftAxes.isEmpty) (!axesA.isEmpty)
    let kr := matAxes (!axesB.isEmpty) (!rightAxes.isEmpty)
    let cf := tensordotBlockwiseD af.1 bf.1 lk.1 lk.2 kr.1 kr.2
    let fusedRight := !rightAxes.isEmpty && rightAxes.length != 1
    let fusedLeft := !leftAxes.isEmpty && leftAxes.length != 1
    let cf1 ← (if fusedRight then cf.unfuseD (if leftAxes.isEmpty then 0 else 1) else pure cf)
    let cf2 ← (if fusedLeft then cf1.unfuseD 0 else pure cf1)
    pure (cf2, af.2.or bf.2)

/-- `tensordot_abelian(a, b, axes, mode, preserve_array=True)` -/
def tensordotAD (a b : DArr) (axes : AxesArg) (mode : TdotMode) : Except Err (DArr × Flags) := do
  let ax ← parseAxes a.ndim b.ndim axes
  let axesA := ax.1
  let axesB := ax.2
  let leftAxes := without (List.range a.ndim) axesA
  let rightAxes := without (List.range b.ndim) axesB
  let mode := match mode with
    | .auto => if axesA.isEmpty then TdotMode.blockwise else TdotMode.fused
    | m => m
  match mode with
  | .fused => tensordotViaFusedD a b leftAxes axesA axesB rightAxes
  | _ => pure (tensordotBlockwiseD a b leftAxes axesA axesB rightAxes, Flags.none)

/-- `tensordot_fermionic`: transposes, sign bookkeeping, `phase_sync`, `tensordot_abelian` -/
def tensordotFD (a b : DArr) (axes : AxesArg) (mode : TdotMode) : Except Err (DArr × Flags) := do
  let ax ← parseAxes a.ndim b.ndim axes
  let axesA := ax.1
  let axesB := ax.2
  let leftAxes := without (List.range a.ndim) axesA
  let rightAxes := without (List.range b.ndim) axesB
  let ncon := axesA.length
  let a1 := a.transposeD (leftAxes ++ axesA)
  let b1 := b.transposeD (axesB ++ rightAxes)
  let newAxesA := (List.range a.ndim).drop (a.ndim - ncon)
  let newAxesB := List.range ncon
  tensordotAD a1 b1 (.pair (newAxesA.map Int.ofNat) (newAxesB.map Int.ofNat)) mode

def tensordotD (a b : DArr) (axes : AxesArg) (mode : TdotMode) : Except Err (DArr × Flags) :=
  if a.fermi then tensordotFD a b axes mode else tensordotAD a b axes mode

/-- `__matmul__(self, other, preserve_array=True)` (both classes: blockwise) -/
def matmulD (a b : DArr) : Except Err DArr :=
  match a.ndim, b.ndim with
  | 1, 1 => pure (tensordotBlockwiseD a b [] [0] [0] [])
  | 1, 2 => pure (tensordotBlockwiseD a b [] [0] [0] [1])
  | 2, 1 => pure (tensordotBlockwiseD a b [0] [1] [0] [])
  | 2, 2 => pure (tensordotBlockwiseD a b [0] [1] [0] [1])
  | _, _ => if a.ndim > 2 || b.ndim > 2 then throw Err.value else throw Err.key

/-- `trace()`: Python `sum(…)` of the numpy scalars `trace(block)` starting from the int `0` -/
def traceD (a : DArr) : Except Err ScalarK :=
  if a.ndim != 2 then throw Err.value
  -- `FermionicArray.trace`: "Cannot trace a non-bra or non-ket."
  else if a.fermi && (a.indices.getD 0 default).dual == (a.indices.getD 1 default).dual then throw Err.value
  else pure ((a.blocks.filter (fun p => p.1[0]? == p.1[1]?)).foldl
    (fun acc p => acc.combine (.np p.2)) ScalarK.pyint)

/-- `multiply_diagonal(v, axis)`: `block * v_block` -/
def multiplyDiagonalD (a : DArr) (v : DVec) (axis : Nat) : DArr :=
  { a with blocks := a.blocks.filterMap (fun p =>
      match alookup v.blocks (p.1.getD axis (0, 0)) with
      | some vd => some (p.1, promote p.2 vd)
      | none => none) }

/-- the block loop of `einsum` -/
def einsumBlocks (blocks : DBlocks) (traced : List (List Nat)) (perm : List Nat) : DBlocks :=
  blocks.foldl (fun (acc : DBlocks) (sb : Sector × DType) =>
    if traced.all (fun js => sb.1[js.getD 0 0]? == sb.1[js.getD 1 0]?) then
      let ns := permuted sb.1 perm
      match alookup acc ns with
      | some cur => ainsert acc ns (promote cur sb.2)
      | none => acc ++ [(ns, sb.2)]
    else acc) []

/-- `AbelianArray.einsum(eq, preserve_array=True)` -/
def einsumAD (a : DArr) (lhs rhs : List Nat) : Except Err DArr := do
  let tracedLabels := (lhs.filter (fun q => !rhs.contains q)).eraseDups
  let traced := tracedLabels.map (fun q => (lhs.zipIdx.filter (fun p => p.1 == q)).map (·.2))
  let perm ← rhs.mapM (fun q => orErr Err.value (indexOf? lhs q))
  if traced.any (fun js => js.length != 2) then throw Err.value
  pure { a with indices := permuted a.indices perm, blocks := einsumBlocks a.blocks traced perm }

/-- `FermionicArray.einsum`: sort the axes (fermionic transpose), `phase_sync`, abelian einsum -/
def einsumFD (a : DArr) (lhs rhs : List Nat) : Except Err DArr := do
  if lhs.length != a.ndim then throw Err.index
  let key (i : Nat) : Int × Nat × Bool :=
    let c := lhs.getD i 0
    ((match indexOf? rhs c with | some j => (j : Int) | none => -1), c,
     !(a.indices.getD i default).dual)
  let klt (x y : Int × Nat × Bool) : Bool :=
    x.1 < y.1 || (x.1 == y.1 && (x.2.1 < y.2.1 || (x.2.1 == y.2.1 && (!x.2.2 && y.2.2))))
  let perm := isort (fun i j => klt (key i) (key j)) (List.range a.ndim)
  einsumAD (a.transposeD perm) (permuted lhs perm) rhs

def einsumD (a : DArr) (lhs rhs : List Nat) : Except Err DArr :=
  if a.fermi then einsumFD a lhs rhs else einsumAD a lhs rhs

/-! ### blockwise arithmetic -/

/-- `_binary_blockwise_op(other, fn, missing)` for a kernel of dtype `promote` -/
def binaryD {κ : Type} [BEq κ] (missing : Missing) (x y : List (κ × DType)) :
    Except Err (List (κ × DType)) :=
  match missing with
  | .strict =>
    if x.any (fun p => (alookup y p.1).isNone) then throw Err.value
    else if y.any (fun p => (alookup x p.1).isNone) then throw Err.value
    else pure (x.map (fun p => match alookup y p.1 with
      | some d => (p.1, promote p.2 d)
      | none => p))
  | .outer =>
    pure (x.map (fun p => match alookup y p.1 with
      | some d => (p.1, promote p.2 d)
      | none => p) ++ y.filter (fun p => (alookup x p.1).isNone))
  | .inner =>
    pure (x.filterMap (fun p => match alookup y p.1 with
      | some d => some (p.1, promote p.2 d)
      | none => none))

/-- `a + b` (outer), `a - b` (strict), `a * b` (inner) -/
def binopD (m : Missing) (a b : DArr) : Except Err DArr := do
  let bl ← binaryD m a.blocks b.blocks
  pure { a with blocks := bl }

/-! ### reductions, densification -/

/-- `x.norm()`: `reduce(add, (sum(abs(block)**2) for block in blocks)) ** 0.5`
    (`reduce` of an empty sequence raises `TypeError`) -/
def normD (blocks : List DType) : Except Err ScalarK :=
  match blocks with
  | [] => throw Err.type
  | d :: ds => pure (.np (ds.foldl (fun acc e => promote acc e.realPart) d.realPart))

/-- `x.sum()`, `x.max()`, `x.min()`: `fn(stack(tuple(map(fn, blocks))))` -/
def reduceD (blocks : List DType) : Except Err ScalarK := do
  let d ← concatD blocks
  pure (.np d)

namespace DArr

/-- `_recurse_all_charges` of `to_dense`: missing sectors are `zeros(shape, like=ex)` -/
def toDenseRec (a : DArr) : List Index → Sector → Except Err DType
  | [], sec => pure (match alookup a.blocks sec with
      | some d => d
      | none => a.ex)
  | ix :: rest, sec => do
    let ds ← (isort Charge.lt ix.charges).mapM (fun c => toDenseRec a rest (sec ++ [c]))
    concatD ds

/-- `to_dense()` (fermionic: after `phase_sync`).  The flag reports zeros created without an
    example block. -/
def toDenseD (a : DArr) : Except Err (DType × Flags) := do
  let d ← a.toDenseRec a.indices []
  pure (d, a.exFlags)

/-- `fill_missing_blocks()` (in place; the model returns the new state of the array) -/
def fillMissingD (a : DArr) : DArr × Flags :=
  let missing := a.skel.genValidSectors.filter (fun s => (alookup a.blocks s).isNone)
  ({ a with blocks := missing.foldl (fun acc s => ainsert acc s a.ex) a.blocks },
   if missing.isEmpty then Flags.none else a.exFlags)

end DArr

/-! ### decompositions (per block: LAPACK through numpy keeps the dtype of the block, singular
    values and eigenvalues are its real part, `solve` promotes) -/

/-- the bond index of `qr` / `svd` -/
def bondIndex (x : DArr) : Index :=
  let cm := adict (x.blocks.map (fun p =>
    let shp := x.blockShape p.1
    (p.1.getD 1 (0, 0), min (shp.getD 0 0) (shp.getD 1 0))))
  Index.plain cm (x.indices.getD 1 default).dual

/-- `qr(x, stabilized)`: the stabilised branch multiplies `q`, `r` by `sgn(diag(r))`, which has
    the dtype of `r` -/
def qrD (x : DArr) : Except Err (DArr × DArr) := do
  if x.ndim != 2 then throw Err.notimpl
  let bond := bondIndex x
  let q : DArr := { x with indices := [x.indices.getD 0 default, bond] }
  let r : DArr := { x with indices := [bond.conj, x.indices.getD 1 default],
                           charge := x.sym.zero,
                           blocks := adict (x.blocks.map (fun p =>
                             ([p.1.getD 1 (0, 0), p.1.getD 1 (0, 0)], p.2))) }
  pure (q, r)

/-- `svd(x)` -/
def svdD (x : DArr) : Except Err (DArr × DVec × DArr) := do
  let r ← qrD x
  pure (r.1, ⟨adict (x.blocks.map (fun p => (p.1.getD 1 (0, 0), p.2.realPart)))⟩, r.2)

/-- how `svd_truncated` absorbs the singular values -/
inductive Absorb where
  | none | left | right | both
  deriving DecidableEq, Repr, Inhabited

/-- `svd_truncated(x, cutoff ≤ 0, max_bond, absorb)` after the per-sector counts `n_chi` are
    known (`counts` aligned with `U.sectors`): slicing keeps dtypes, sectors with count 0 are
    dropped, absorbing multiplies by the (square roots of the) singular values -/
def svdTruncatedD (x : DArr) (counts : List Nat) (absorb : Absorb) :
    Except Err (DArr × Option DVec × DArr) := do
  let usv ← svdD x
  let u := usv.1
  let s := usv.2.1
  let vh := usv.2.2
  let plan := u.sectors.zip counts
  let dropped := (plan.filter (fun p => p.2 == 0)).map (fun p => p.1.getD 1 (0, 0))
  let keepU := plan.filter (fun p => p.2 != 0)
  let c1s := keepU.map (fun p => (p.1.getD 1 (0, 0), p.2))
  let newCm := Index.sortCm (adict c1s)
  let uB := u.blocks.filter (fun p => alookup plan p.1 != some 0)
  let sB := s.blocks.filter (fun p => !dropped.contains p.1)
  let vB := vh.blocks.filter (fun p => !(p.1 == [p.1.getD 0 (0, 0), p.1.getD 0 (0, 0)]
                                          && dropped.contains (p.1.getD 0 (0, 0))))
  let sOf (c : Charge) : DType → DType := fun d => match alookup sB c with
    | some sd => promote d sd
    | none => d
  let uIdx := [u.indices.getD 0 default, (u.indices.getD 1 default).withCm newCm]
  let vIdx := [(vh.indices.getD 0 default).withCm newCm, vh.indices.getD 1 default]
  -- `for c0, c1 in U.sectors:` multiply `U[(c0, c1)]` / `VH[(c1, c1)]`
  let uAbs := uB.map (fun p => (p.1, sOf (p.1.getD 1 (0, 0)) p.2))
  let vAbs := uB.foldl (fun (acc : DBlocks) p =>
    let c1 := p.1.getD 1 (0, 0)
    match alookup acc [c1, c1] with
    | some d => ainsert acc [c1, c1] (sOf c1 d)
    | none => acc) vB
  match absorb with
  | .none => pure ({ u with blocks := uB, indices := uIdx }, some ⟨sB⟩, { vh with blocks := vB, indices := vIdx })
  | .left => pure ({ u with blocks := uAbs, indices := uIdx }, none, { vh with blocks := vB, indices := vIdx })
  | .right => pure ({ u with blocks := uB, indices := uIdx }, none, { vh with blocks := vAbs, indices := vIdx })
  | .both => pure ({ u with blocks := uAbs, indices := uIdx }, none, { vh with blocks := vAbs, indices := vIdx })

/-- `eigh(a)` (fermionic: `phase_sync` before, `-evals` for odd charges after) -/
def eighD (a : DArr) : Except Err (DVec × DArr) :=
  if a.ndim != 2 then throw Err.notimpl
  else if a.charge != a.sym.zero then throw Err.value
  -- numpy's eigh raises LinAlgError (a ValueError) on a non-square block
  else if a.blocks.any (fun p => (a.blockShape p.1).getD 0 0 != (a.blockShape p.1).getD 1 0) then throw Err.value
  else pure (⟨adict (a.blocks.map (fun p => (p.1.getD 1 (0, 0), p.2.realPart)))⟩, a)

/-- `solve(a, b)`: `np.linalg.solve(block_a, block_b)` -/
def solveD (a b : DArr) : Except Err DArr := do
  if a.ndim != 2 || b.ndim != 1 then throw Err.notimpl
  let xBlocks := adict (a.blocks.filterMap (fun p =>
    match alookup b.blocks [p.1.getD 0 (0, 0)] with
    | some bd => some ([p.1.getD 1 (0, 0)], promote p.2 bd)
    | none => none))
  pure { b with blocks := xBlocks,
                indices := [(a.indices.getD 1 default).conj],
                charge := a.sym.combine [b.charge, a.sym.sign a.charge true] }

/-! ### constructors -/

/-- give every block of a skeleton the dtype `d` -/
def ofSkel (r : Arr Unit) (d : DType) : DArr :=
  { sym := r.sym, fermi := r.fermi, indices := r.indices, charge := r.charge,
    blocks := r.blocks.map (fun p => (p.1, d)) }

/-- `from_fill_fn(fill_fn, indices, charge)` with a fill function producing dtype `d`;
    `random(indices, charge, dtype=d)` is this with `get_random_fill_fn(dtype=d)`, whose
    `x.astype(dtype)` makes every block a `d` -/
def fromFillD (sym : Sym) (fermi : Bool) (indices : List Index) (charge : Option Charge)
    (d : DType) (oddpos : List (Int × Bool)) : Except Err DArr := do
  let r ← fromFillFn sym fermi indices charge (fun _ shp => (⟨shp, #[]⟩ : Blk Unit)) oddpos
  pure (ofSkel r d)

/-- `random(…, dtype=…)`: the keyword defaults to `"float64"` -/
def randomD (sym : Sym) (fermi : Bool) (indices : List Index) (charge : Option Charge)
    (dtype : Option DType) (oddpos : List (Int × Bool)) : Except Err DArr :=
  fromFillD sym fermi indices charge (dtype.getD f64) oddpos

/-- `from_dense(array, index_maps, duals, charge)`: fancy-index slices keep the dtype -/
def fromDenseD (sym : Sym) (fermi : Bool) (shape : List Nat) (d : DType) (maps : List (List Charge))
    (duals : List Bool) (charge : Option Charge) (oddpos : List (Int × Bool)) : Except Err DArr := do
  let r ← fromDense sym fermi (⟨shape, #[]⟩ : Blk Unit) maps duals charge oddpos
  pure (ofSkel r d)

/-- `from_blocks(blocks, duals, charge)`: blocks are stored as given -/
def fromBlocksD (sym : Sym) (fermi : Bool) (blocks : List (Sector × List Nat × DType))
    (duals : List Bool) (charge : Option Charge) (oddpos : List (Int × Bool)) : Except Err DArr := do
  let r ← fromBlocks sym fermi (blocks.map (fun p => (p.1, (⟨p.2.1, #[]⟩ : Blk Unit)))) duals charge oddpos
  pure { sym := r.sym, fermi := r.fermi, indices := r.indices, charge := r.charge,
         blocks := adict (blocks.map (fun p => (p.1, p.2.2))) }

/-! ### block vectors -/

namespace DVec

/-- `v ∘ s` with a scalar -/
def scalarD (v : DVec) (s : ScalarK) : DVec :=
  ⟨v.blocks.map (fun p => (p.1, scalarResult p.2 s))⟩

/-- `v + w` (outer), `v - w`, `v / w`, `v ** w` (strict), `v * w` (inner) -/
def binopD (m : Missing) (v w : DVec) : Except Err DVec := do
  let bl ← binaryD m v.blocks w.blocks
  pure ⟨bl⟩

/-- `abs(v)` -/
def absD (v : DVec) : DVec := ⟨v.blocks.map (fun p => (p.1, p.2.realPart))⟩

/-- `v.to_dense()`: `concatenate` over the sorted charges -/
def toDenseD (v : DVec) : Except Err DType :=
  concatD ((isort (fun (a b : Charge × DType) => Charge.lt a.1 b.1) v.blocks).map (·.2))

end DVec

/-! ### programs -/

inductive DVal where
  | arr (a : DArr)
  | vec (v : DVec)
  | scalar (s : ScalarK)
  | dense (d : DType)
  deriving Inhabited

inductive Op where
  | transpose (axes : Option (List Int))
  | conj | dagger | keep | syncCharges
  | squeeze (axis : Option (List Nat))
  | expandDims (axis : Int) (c : Option Charge) (dual : Option Bool)
  | fuse (groups : List (List Nat)) (mode : FuseMode) (expandEmpty : Bool)
  | fuseCore (groups : List (List Nat)) (mode : FuseMode)
  | unfuse (axis : Nat) | unfuseAll
  | reshape (newshape : List Int)
  | tensordot (axes : AxesArg) (mode : TdotMode)
  | matmul | trace
  | einsum (lhs rhs : List Nat)
  | multiplyDiagonal (axis : Nat)
  | alignAxes (xa xb : List Nat)
  | binop (m : Missing)
  | scalarOp (s : ScalarK)
  | norm | reduce
  | toDense | fillMissing
  | qr | svd | eigh | solve
  | svdTruncated (counts : List Nat) (absorb : Absorb)
  | fromFill (sym : Sym) (fermi : Bool) (indices : List Index) (charge : Option Charge) (d : DType)
      (oddpos : List (Int × Bool))
  | random (sym : Sym) (fermi : Bool) (indices : List Index) (charge : Option Charge)
      (dtype : Option DType) (oddpos : List (Int × Bool))
  | fromDense (sym : Sym) (fermi : Bool) (shape : List Nat) (d : DType) (maps : List (List Charge))
      (duals : List Bool) (charge : Option Charge) (oddpos : List (Int × Bool))
  | vabs | vtoDense
  deriving Inhabited

/-- the `axes` argument of `transpose`: `None` reverses, negative entries count from the end -/
def normAxes (ndim : Nat) : Option (List Int) → List Nat
  | some l => l.map (fun x => (if ndim == 0 then x else x % (ndim : Int)).toNat)
  | none => Arr.reversedAxes ndim

/-- `if axis < 0: axis += x.ndim + 1` -/
def normExpandAxis (axis : Int) (ndim : Nat) : Int := if axis < 0 then axis + ndim + 1 else axis

def okv (vs : List DVal) : Except Err (List DVal × Flags) := pure (vs, Flags.none)

/-- one protocol step on dtype-flow values; an operand list of the wrong form is `Err.type` -/
def evalOp : Op → List DVal → Except Err (List DVal × Flags)
  | .transpose axes, [.arr a] =>
    if !Arr.isPerm (normAxes a.ndim axes) a.ndim then throw Err.value
    else okv [.arr (a.transposeD (normAxes a.ndim axes))]
  | .conj, [.arr a] => okv [.arr a.conjD]
  | .dagger, [.arr a] => okv [.arr a.daggerD]
  | .keep, [.arr a] => okv [.arr a.keepD]
  | .keep, [.vec v] => okv [.vec v]
  | .syncCharges, [.arr a] => okv [.arr a.syncChargesD]
  | .squeeze axis, [.arr a] => do let r ← a.squeezeD axis; okv [.arr r]
  | .expandDims axis c dual, [.arr a] =>
    if normExpandAxis axis a.ndim < 0 || normExpandAxis axis a.ndim > a.ndim then throw Err.index
    else okv [.arr (a.expandDimsD (normExpandAxis axis a.ndim).toNat c dual)]
  | .fuse groups mode ee, [.arr a] => do let r ← a.fuseD groups mode ee; pure ([.arr r.1], r.2)
  | .fuseCore groups mode, [.arr a] => do let r ← a.fuseCoreD groups mode; pure ([.arr r.1], r.2)
  | .unfuse axis, [.arr a] => do let r ← a.unfuseD axis; okv [.arr r]
  | .unfuseAll, [.arr a] => do let r ← a.unfuseAllD; okv [.arr r]
  | .reshape ns, [.arr a] => do let r ← a.reshapeD ns; pure ([.arr r.1], r.2)
  | .tensordot axes mode, [.arr a, .arr b] => do let r ← tensordotD a b axes mode; pure ([.arr r.1], r.2)
  | .matmul, [.arr a, .arr b] => do let r ← matmulD a b; okv [.arr r]
  | .trace, [.arr a] => do let r ← traceD a; okv [.scalar r]
  | .einsum lhs rhs, [.arr a] => do let r ← einsumD a lhs rhs; okv [.arr r]
  | .multiplyDiagonal axis, [.arr a, .vec v] => okv [.arr (multiplyDiagonalD a v axis)]
  | .alignAxes xa xb, [.arr a, .arr b] =>
    let r := dropMisalignedD a b xa xb
    okv [.arr r.1, .arr r.2]
  | .binop m, [.arr a, .arr b] => do let r ← binopD m a b; okv [.arr r]
  | .binop m, [.vec v, .vec w] => do let r ← DVec.binopD m v w; okv [.vec r]
  | .scalarOp s, [.arr a] => okv [.arr (a.scalarD s)]
  | .scalarOp s, [.vec v] => okv [.vec (v.scalarD s)]
  | .scalarOp s, [.scalar t] => okv [.scalar (t.combine s)]
  | .norm, [.arr a] => do let r ← normD (a.blocks.map (·.2)); okv [.scalar r]
  | .norm, [.vec v] => do let r ← normD (v.blocks.map (·.2)); okv [.scalar r]
  | .reduce, [.arr a] => do let r ← reduceD (a.blocks.map (·.2)); okv [.scalar r]
  | .reduce, [.vec v] => do let r ← reduceD (v.blocks.map (·.2)); okv [.scalar r]
  | .toDense, [.arr a] => do let r ← a.toDenseD; pure ([.dense r.1], r.2)
  | .fillMissing, [.arr a] => let r := a.fillMissingD; pure ([.arr r.1], r.2)
  | .qr, [.arr a] => do let r ← qrD a; okv [.arr r.1, .arr r.2]
  | .svd, [.arr a] => do let r ← svdD a; okv [.arr r.1, .vec r.2.1, .arr r.2.2]
  | .eigh, [.arr a] => do let r ← eighD a; okv [.vec r.1, .arr r.2]
  | .solve, [.arr a, .arr b] => do let r ← solveD a b; okv [.arr r]
  | .svdTruncated counts absorb, [.arr a] => do
    let r ← svdTruncatedD a counts absorb
    match r.2.1 with
    | some s => okv [.arr r.1, .vec s, .arr r.2.2]
    | none => okv [.arr r.1, .arr r.2.2]
  | .fromFill sym fermi indices charge d oddpos, [] => do
    let r ← fromFillD sym fermi indices charge d oddpos; okv [.arr r]
  | .random sym fermi indices charge dtype oddpos, [] => do
    let r ← randomD sym fermi indices charge dtype oddpos; okv [.arr r]
  | .fromDense sym fermi shape d maps duals charge oddpos, [] => do
    let r ← fromDenseD sym fermi shape d maps duals charge oddpos; okv [.arr r]
  | .vabs, [.vec v] => okv [.vec v.absD]
  | .vtoDense, [.vec v] => do let r ← v.toDenseD; okv [.dense r]
  | _, _ => throw Err.type

structure Step where
  op : Op
  ins : List String
  outs : List String
  deriving Inhabited

abbrev Env := List (String × DVal)

/-- bind the results of a step (`zip(st["out"], res)`) -/
def bindOuts (env : Env) (outs : List String) (vals : List DVal) : Env :=
  (outs.zip vals).foldl (fun e nv => ainsert e nv.1 nv.2) env

/-- one step: look the operands up (`Err.key` for an unbound name), evaluate, bind -/
def runStep (st : Env × Flags) (s : Step) : Except Err (Env × Flags) := do
  let ins ← s.ins.mapM (fun n => match alookup st.1 n with
    | some v => pure v
    | none => throw Err.key)
  let r ← evalOp s.op ins
  pure (bindOuts st.1 s.outs r.1, st.2.or r.2)

/-- a program: steps in sequence, flags accumulated -/
def runProg (env : Env) (steps : List Step) : Except Err (Env × Flags) :=
  steps.foldlM runStep (env, Flags.none)

end DFlow
end SymmModel
