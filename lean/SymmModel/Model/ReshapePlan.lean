/-
  SymmModel.Model.ReshapePlan — the reshape planner `calc_reshape_args`
  (symmray/abelian_core.py:399-590), the symbolic plan executor / certificate `Plan.wfB` used by
  the C07 theorems and by the plan monitor of the driver, and the finite planner domain of C07.

  The planner is modelled loop for loop.  Python's `while`/`for` loops are structurally
  recursive functions on a fuel argument that is large enough (every iteration advances a
  position); running out of fuel is reported as `Err.other` and is unreachable.
  The label list `term` holds `Lbl`s: `o` ("o"), `s` ("s"), `u k` (f"u{k}"), `g k` (f"g{k}").
  The dicts `unfuse_sizes` / `fuse_sizes` have the keys u0,u1,… / g0,g1,… in insertion order,
  so they are the lists of their values (key `k` ↦ position `k`).
  Comparisons are written with `Nat.beq` / `Nat.blt` (kernel-accelerated) because the planner is
  evaluated inside the Lean kernel by the table of C07.
-/
import SymmModel.Model.Arr
namespace SymmModel

/-- entries of the planner's label list `term` -/
inductive Lbl where
  | o | s | u (k : Nat) | g (k : Nat)
  deriving Repr, Inhabited

/-- string equality of two labels -/
def Lbl.beq : Lbl → Lbl → Bool
  | .o, .o => true
  | .s, .s => true
  | .u a, .u b => Nat.beq a b
  | .g a, .g b => Nat.beq a b
  | _, _ => false

instance : BEq Lbl := ⟨Lbl.beq⟩

/-- `label == "s"` -/
def Lbl.isS : Lbl → Bool
  | .s => true
  | _ => false

/-- equality of two tuples of sizes -/
def beqNats : List Nat → List Nat → Bool
  | [], [] => true
  | a :: as, b :: bs => Nat.beq a b && beqNats as bs
  | _, _ => false

/-- the local variables of `calc_reshape_args` that live through the first (matching) loop -/
structure RState where
  i : Nat := 0
  j : Nat := 0
  k : Nat := 0
  term : List Lbl := []
  axsSqueeze : List Nat := []
  unfuseSizes : List Nat := []
  fuseSizes : List Nat := []
  axsExpand : List Nat := []
  anySingleton : Bool := false
  anyFused : Bool := false
  deriving Repr, Inhabited

namespace Reshape

/-- `for ds in subsizes[i]: dj = newshape[j]; if ds != dj: raise …; s += 1; j += 1; k += 1`;
    returns `(s, j, k)` -/
def unfuseCheck (newshape : List Nat) : List Nat → Nat → Nat → Nat → Except Err (Nat × Nat × Nat)
  | [], s, j, k => pure (s, j, k)
  | ds :: rest, s, j, k =>
    match newshape[j]? with
    | none => throw Err.index
    | some dj =>
      if !Nat.beq ds dj then throw Err.value    -- ValueError("Shape mismatch for unfuse.")
      else unfuseCheck newshape rest (s + 1) (j + 1) (k + 1)

/-- `while di < dj: di *= shape[i]; term.append(label); i += 1; s += 1`;
    returns `(di, i, s, term)` -/
def fuseScan (shape : List Nat) (dj : Nat) (lbl : Lbl) :
    Nat → Nat → Nat → Nat → List Lbl → Except Err (Nat × Nat × Nat × List Lbl)
  | 0, _, _, _, _ => throw Err.other
  | fuel + 1, di, i, s, term =>
    if Nat.blt di dj then
      match shape[i]? with
      | none => throw Err.index          -- `shape[i]` past the end
      | some d => fuseScan shape dj lbl fuel (di * d) (i + 1) (s + 1) (term ++ [lbl])
    else pure (di, i, s, term)

/-- `subsizes[i] is not None and subsizes[i] == newshape[j : j + len(subsizes[i])]` -/
def unfuseMatch (newshape : List Nat) (j : Nat) : Option (List Nat) → Option (List Nat)
  | none => none
  | some subs => if beqNats subs ((newshape.drop j).take subs.length) then some subs else none

/-- the first loop `while i < ndim_old and j < ndim_new` -/
def mainLoop (shape newshape : List Nat) (subsizes : List (Option (List Nat))) :
    Nat → RState → Except Err RState
  | 0, st => if st.i < shape.length && st.j < newshape.length then throw Err.other else pure st
  | fuel + 1, st =>
    match shape[st.i]?, newshape[st.j]? with
    | some di, some dj =>
      match subsizes[st.i]? with
      | none => throw Err.index          -- `subsizes[i]` past the end
      | some sub =>
        match unfuseMatch newshape st.j sub with
        | some subs =>
          -- unfuse, check first
          match unfuseCheck newshape subs 0 st.j st.k with
          | .error e => throw e
          | .ok (s, j, k) =>
            mainLoop shape newshape subsizes fuel
              { st with term := st.term ++ [Lbl.u st.unfuseSizes.length],
                        unfuseSizes := st.unfuseSizes ++ [s],
                        i := st.i + 1, j := j, k := k }
        | none =>
          if Nat.beq di dj then
            -- output dimension already
            mainLoop shape newshape subsizes fuel
              { st with term := st.term ++ [Lbl.o], i := st.i + 1, j := st.j + 1, k := st.k + 1 }
          else if Nat.beq di 1 then
            -- squeezed dimension
            mainLoop shape newshape subsizes fuel
              { st with term := st.term ++ [Lbl.s], axsSqueeze := st.axsSqueeze ++ [st.i],
                        anySingleton := true, i := st.i + 1 }
          else if Nat.beq dj 1 then
            -- expansion location relative to the post-fuse shape
            mainLoop shape newshape subsizes fuel
              { st with axsExpand := st.axsExpand ++ [st.k], j := st.j + 1 }
          else if Nat.blt di dj then
            -- need to fuse
            let lbl := Lbl.g st.fuseSizes.length
            match fuseScan shape dj lbl (shape.length + 1) di (st.i + 1) 1 (st.term ++ [lbl]) with
            | .error e => throw e
            | .ok (di', i', s, term') =>
              if !Nat.beq di' dj then throw Err.value   -- ValueError("Shape mismatch for fuse.")
              else
                mainLoop shape newshape subsizes fuel
                  { st with term := term', fuseSizes := st.fuseSizes ++ [s], anyFused := true,
                            i := i', j := st.j + 1, k := st.k + 1 }
          else throw Err.value                    -- ValueError("Shape mismatch.")
    | _, _ => pure st

/-- `for label, s in unfuse_sizes.items(): ax = term.index(label); axs_unfuse.append(ax);
    term = term[:ax] + ["o"] * s + term[ax + 1:]`; `k` is the number of the current label -/
def unfusePhase : List Nat → Nat → List Lbl → List Nat → Except Err (List Lbl × List Nat)
  | [], _, term, axs => pure (term, axs)
  | s :: rest, k, term, axs =>
    match indexOf? term (Lbl.u k) with
    | none => throw Err.value            -- `list.index` of a missing label
    | some ax =>
      unfusePhase rest (k + 1) (term.take ax ++ List.replicate s Lbl.o ++ term.drop (ax + 1))
        (axs ++ [ax])

/-- `fuse_sizes[g] += 1` (KeyError for an unknown key) -/
def bump : List Nat → Nat → Except Err (List Nat)
  | [], _ => throw Err.key
  | x :: xs, 0 => pure ((x + 1) :: xs)
  | x :: xs, g + 1 => match bump xs g with
    | .ok r => pure (x :: r)
    | .error e => throw e

/-- the variable `g` of the squeeze phase: unbound (`none`) until first assigned; using it
    unbound is Python's `UnboundLocalError` -/
def useG : Option Nat → Except Err Nat
  | some g => pure g
  | none => throw Err.other

/-- `while label == "s": i += 1; label = term[i]` (entered with `term[i] == "s"`);
    returns `(i, label)` -/
def skipS (term : List Lbl) : Nat → Nat → Except Err (Nat × Lbl)
  | 0, _ => throw Err.other
  | fuel + 1, i =>
    match term[i + 1]? with
    | none => throw Err.index            -- `term[i]` past the end: every label is "s"
    | some l => if l.isS then skipS term fuel (i + 1) else pure (i + 1, l)

/-- `for j in range(0, i): fuse_sizes[g] += 1; term[j] = g`; `j` counts up -/
def markLeft (g : Nat) : Nat → Nat → List Lbl → List Nat → Except Err (List Lbl × List Nat)
  | 0, _, term, fs => pure (term, fs)
  | n + 1, j, term, fs =>
    match bump fs g with
    | .error e => throw e
    | .ok fs' => markLeft g n (j + 1) (term.set j (Lbl.g g)) fs'

/-- `while label == "s": term[i] = g; fuse_sizes[g] += 1; i += 1; if i == len(term): break;
    label = term[i]` (entered with `term[i] == "s"`); returns `(i, term, fuse_sizes)` -/
def absorb (g : Option Nat) : Nat → Nat → List Lbl → List Nat → Except Err (Nat × List Lbl × List Nat)
  | 0, _, _, _ => throw Err.other
  | fuel + 1, i, term, fs =>
    match useG g with
    | .error e => throw e
    | .ok gk =>
      let term' := term.set i (Lbl.g gk)
      match bump fs gk with
      | .error e => throw e
      | .ok fs' =>
        match term'[i + 1]? with
        | none => pure (i + 1, term', fs')               -- `i == len(term)`: break
        | some l => if l.isS then absorb g fuel (i + 1) term' fs' else pure (i + 1, term', fs')

/-- the second loop of the squeeze phase, `while i < len(term)`, preferring the left neighbour -/
def sqLoop : Nat → Nat → List Lbl → List Nat → Option Nat → Except Err (List Lbl × List Nat)
  | 0, _, _, _, _ => throw Err.other
  | fuel + 1, i, term, fs, g =>
    match term[i]? with
    | none => pure (term, fs)
    | some label =>
      if label.isS then
        match term[i - 1]? with
        | none => throw Err.index
        | some left =>
          let (g', term', fs') : Option Nat × List Lbl × List Nat :=
            match left with
            | Lbl.g k => (some k, term, fs)
            | Lbl.o => (some fs.length, term.set (i - 1) (Lbl.g fs.length), fs ++ [1])
            | _ => (g, term, fs)
          match absorb g' (term'.length + 1) i term' fs' with
          | .error e => throw e
          | .ok (i', term'', fs'') => sqLoop fuel (i' + 1) term'' fs'' g'
      else sqLoop fuel (i + 1) term fs g

/-- `if any_singleton:` block — squeezed axes are converted into fuse groups -/
def squeezePhase (term : List Lbl) (fs : List Nat) : Except Err (List Lbl × List Nat) :=
  match term[0]? with
  | none => throw Err.index              -- `term[0]` of an empty list
  | some label =>
    if label.isS then
      -- squeeze axes on the left are grouped into the right
      match skipS term (term.length + 1) 0 with
      | .error e => throw e
      | .ok (i, label) =>
        let (g, term', fs') : Option Nat × List Lbl × List Nat :=
          match label with
          | Lbl.g k => (some k, term, fs)
          | Lbl.o => (some fs.length, term.set i (Lbl.g fs.length), fs ++ [1])
          | _ => (none, term, fs)
        match useG g with
        | .error e => throw e
        | .ok gk =>
          match markLeft gk i 0 term' fs' with
          | .error e => throw e
          | .ok (term'', fs'') => sqLoop (term''.length + 1) (i + 1) term'' fs'' g
    else sqLoop (term.length + 1) 1 term fs none

/-- the fuse phase `while i < len(term)`; `cur` = `current_groups`, `acc` = `axs_fuse` -/
def fuseLoop (fs : List Nat) :
    Nat → Nat → List Lbl → List (List Nat) → List (List (List Nat)) → Except Err (List (List (List Nat)))
  | 0, _, _, _, _ => throw Err.other
  | fuel + 1, i, term, cur, acc =>
    match term[i]? with
    | none => pure (if cur.isEmpty then acc else acc ++ [cur])
    | some label =>
      let sz : Option Nat := match label with
        | Lbl.g k => fs[k]?
        | _ => none
      match sz with
      | none =>
        -- `label not in fuse_sizes`
        if !cur.isEmpty then
          let i0 := i - sumN (cur.map List.length)
          let ng := cur.length
          fuseLoop fs fuel (i0 + ng) (term.take i0 ++ List.replicate ng Lbl.o ++ term.drop i) []
            (acc ++ [cur])
        else fuseLoop fs fuel (i + 1) term cur acc
      | some s => fuseLoop fs fuel (i + s) term (cur ++ [List.range' i s]) acc

end Reshape

open Reshape in
/-- `calc_reshape_args(shape, newshape, subsizes)` → `(axs_unfuse, axs_fuse, axs_expand)` -/
def calcReshapeArgs (shape newshape : List Nat) (subsizes : List (Option (List Nat))) :
    Except Err (List Nat × List (List (List Nat)) × List Nat) :=
  match mainLoop shape newshape subsizes (shape.length + newshape.length) {} with
  | .error e => throw e
  | .ok st =>
    -- trailing dimensions: `for i in range(i, ndim_old)` / `for j in range(j, ndim_new)`
    let nTrailI := shape.length - st.i
    let anySingleton := st.anySingleton || Nat.blt 0 nTrailI
    let term := st.term ++ List.replicate nTrailI Lbl.s
    let axsExpand := st.axsExpand ++ List.replicate (newshape.length - st.j) st.k
    -- first the unfusings
    match unfusePhase st.unfuseSizes 0 term [] with
    | .error e => throw e
    | .ok (term, axsUnfuse) =>
      -- squeezes become fuse groups
      match (if anySingleton then squeezePhase term st.fuseSizes else pure (term, st.fuseSizes)) with
      | .error e => throw e
      | .ok (term, fuseSizes) =>
        -- now the fusing
        match (if st.anyFused || anySingleton then fuseLoop fuseSizes (2 * term.length + 2) 0 term [] []
               else pure []) with
        | .error e => throw e
        | .ok axsFuse => pure (axsUnfuse, axsFuse, axsExpand.reverse)

/-! ### symbolic execution of a plan on a shape, and the plan certificate -/

namespace C07

/-- a plan as returned by the planner -/
structure Plan where
  unfuse : List Nat
  fuse : List (List (List Nat))
  expand : List Nat
  deriving Repr, DecidableEq, Inhabited

def Plan.ofTriple (t : List Nat × List (List (List Nat)) × List Nat) : Plan := ⟨t.1, t.2.1, t.2.2⟩

/-- symbolic shape: per axis its size and the sizes of its sub-indices when it is fused -/
abbrev SymShape := List (Nat × Option (List Nat))

/-- unfuse: the axis must be in range and fused; it is replaced by its sub-sizes -/
def symUnfuse (st : SymShape) (ax : Nat) : Option SymShape :=
  match st[ax]? with
  | some (_, some subs) => some (st.take ax ++ subs.map (fun d => (d, none)) ++ st.drop (ax + 1))
  | _ => none

/-- one fused group: a single axis is kept as it is, several axes become their product and
    remember their sizes -/
def symGroup (st : SymShape) (g : List Nat) : Nat × Option (List Nat) :=
  match g with
  | [ax] => st.getD ax (0, none)
  | _ => let sizes := g.map (fun ax => (st.getD ax (0, none)).1)
         (prod sizes, some sizes)

/-- one `fuse(*groups)` call: at least one group, no empty group, and the groups taken
    together are the consecutive axes `p, p+1, …, p+n-1` in that order (so no data is
    permuted); each group is replaced by one axis at position `p` onwards -/
def symFuse (st : SymShape) (groups : List (List Nat)) : Option SymShape :=
  let flat := groups.flatten
  match flat with
  | [] => none
  | p :: _ =>
    if groups.all (fun g => !g.isEmpty) && beqNats flat (List.range' p flat.length)
        && Nat.ble (p + flat.length) st.length then
      some (st.take p ++ groups.map (symGroup st) ++ st.drop (p + flat.length))
    else none

/-- expand: insert a size-one axis at a position `≤ ndim` -/
def symExpand (st : SymShape) (ax : Nat) : Option SymShape :=
  if Nat.ble ax st.length then some (st.take ax ++ [(1, none)] ++ st.drop ax) else none

/-- fold with failure -/
def foldOpt {α β : Type} (f : β → α → Option β) : List α → β → Option β
  | [], b => some b
  | a :: as, b => match f b a with
    | some b' => foldOpt f as b'
    | none => none

/-- symbolic execution of a whole plan in the order `AbelianArray.reshape` applies it -/
def Plan.exec (st : SymShape) (p : Plan) : Option SymShape :=
  match foldOpt symUnfuse p.unfuse st with
  | none => none
  | some s1 => match foldOpt symFuse p.fuse s1 with
    | none => none
    | some s2 => foldOpt symExpand p.expand s2

def SymShape.sizes (st : SymShape) : List Nat := st.map (·.1)
def SymShape.subs (st : SymShape) : List (Option (List Nat)) := st.map (·.2)

/-- the certificate: executing the plan symbolically on `shape` (with the given sub-sizes)
    succeeds — all axes in range, only fused axes unfused, fuse groups consecutive — and
    yields exactly `newshape` -/
def Plan.wfB (shape : List Nat) (subsizes : List (Option (List Nat))) (newshape : List Nat)
    (p : Plan) : Bool :=
  Nat.beq shape.length subsizes.length &&
  match p.exec (shape.zip subsizes) with
  | some r => beqNats r.sizes newshape
  | none => false

/-! ### the finite planner domain of C07 -/

def sizes5 : List Nat := [1, 2, 3, 4, 6]

/-- all shapes with exactly `n` axes of sizes in {1,2,3,4,6} -/
def shapesOfLen : Nat → List (List Nat)
  | 0 => [[]]
  | n + 1 => sizes5.flatMap (fun d => (shapesOfLen n).map (fun r => d :: r))

/-- all ways of merging adjacent axes (every composition of the axis list; products) -/
def merges : List Nat → List (List Nat)
  | [] => [[]]
  | d :: rest =>
    (merges rest).flatMap (fun t => match t with
      | [] => [[d]]
      | e :: t' => if rest.isEmpty then [[d]] else [d :: e :: t', (d * e) :: t'])

/-- all ways of dropping size-one axes -/
def drops : List Nat → List (List Nat)
  | [] => [[]]
  | d :: rest =>
    if d == 1 then (drops rest).flatMap (fun r => [d :: r, r]) else (drops rest).map (fun r => d :: r)

/-- every target reachable from `shape` by dropping size-one axes and/or merging adjacent axes
    (with repetitions) -/
def targets (shape : List Nat) : List (List Nat) := (drops shape).flatMap merges

example : targets [2, 1, 3] = [[2, 1, 3], [2, 3], [2, 3], [6], [2, 3], [6]] := by decide

/-- remove repetitions (keeps the first occurrence) -/
def dedup : List (List Nat) → List (List Nat)
  | [] => []
  | t :: ts => t :: (dedup ts).filter (fun u => !beqNats t u)

def nones (shape : List Nat) : List (Option (List Nat)) := shape.map (fun _ => none)

/-- one shape/target pair of the table, forward and back:
    the planner succeeds on `shape → target` (no fused axes), its plan executes symbolically to
    exactly `target`; then, from the resulting symbolic array (whose merged axes carry their
    sub-sizes), the planner succeeds on `target → shape` and that plan executes symbolically to
    exactly `shape` with no fused axis left. -/
def pairOk (shape target : List Nat) : Bool :=
  match calcReshapeArgs shape target (nones shape) with
  | .error _ => false
  | .ok p =>
    match (Plan.ofTriple p).exec (shape.zip (nones shape)) with
    | none => false
    | some st =>
      beqNats (SymShape.sizes st) target &&
      match calcReshapeArgs (SymShape.sizes st) shape (SymShape.subs st) with
      | .error _ => false
      | .ok q =>
        match (Plan.ofTriple q).exec st with
        | none => false
        | some st' => beqNats (SymShape.sizes st') shape && st'.all (fun x => x.2.isNone)

def shapeOk (shape : List Nat) : Bool :=
  ((dedup (targets shape)).filter (fun t => !t.isEmpty)).all (pairOk shape)

/-- all shapes `pre ++ r` with `r` of length `n` -/
def chunkOk (pre : List Nat) (n : Nat) : Bool :=
  (shapesOfLen n).all (fun r => shapeOk (pre ++ r))

/-- the statement of the table for one pair, in terms of the model's definitions -/
structure RoundTrip (shape target : List Nat) : Prop where
  fwd : ∃ p st, calcReshapeArgs shape target (nones shape) = .ok p ∧
        (Plan.ofTriple p).wfB shape (nones shape) target = true ∧
        (Plan.ofTriple p).exec (shape.zip (nones shape)) = some st ∧
        SymShape.sizes st = target ∧
        ∃ q st', calcReshapeArgs (SymShape.sizes st) shape (SymShape.subs st) = .ok q ∧
          (Plan.ofTriple q).wfB (SymShape.sizes st) (SymShape.subs st) shape = true ∧
          (Plan.ofTriple q).exec st = some st' ∧
          SymShape.sizes st' = shape ∧ (∀ x ∈ st', x.2 = none)

end C07
end SymmModel
