/-
  SymmModel.Model.Linalg — block-wise decompositions: everything except the per-block
  factorisation itself, which is a parameter (`Kernels`).
  Python: symmray/linalg.py  qr (:51), qr_fermionic (:112), svd (:147), svd_fermionic (:200),
  svd_truncated (:239, the part that applies per-sector counts), eigh (:401),
  eigh_fermionic (:433), solve (:451), solve_fermionic (:484).
-/
import SymmModel.Model.Fermi
namespace SymmModel

variable {R : Type}

/-- per-block factorisation kernels (LAPACK through numpy); see `Kernels.ShapeContract` -/
structure Kernels (R : Type) where
  qr : Blk R → Blk R × Blk R
  svd : Blk R → Blk R × Blk R × Blk R
  eigh : Blk R → Blk R × Blk R
  solve : Blk R → Blk R → Blk R

/-- shape-only kernels: factors of the right shapes filled with zeros (used for the
    structure correspondence, where data are not compared) -/
def Kernels.shapeOnly [Zero R] : Kernels R where
  qr b := let m := b.shape.getD 0 0; let n := b.shape.getD 1 0
          (Blk.zeros [m, min m n], Blk.zeros [min m n, n])
  svd b := let m := b.shape.getD 0 0; let n := b.shape.getD 1 0
           (Blk.zeros [m, min m n], Blk.zeros [min m n], Blk.zeros [min m n, n])
  eigh b := let m := b.shape.getD 0 0
            (Blk.zeros [m], Blk.zeros [m, m])
  solve a _ := Blk.zeros [a.shape.getD 1 0]

/-- `qr(x)` for abelian `x`, then the fermionic post-processing when `x.fermi` -/
def qrA (K : Kernels R) (x : Arr R) : Except Err (Arr R × Arr R) := do
  if x.ndim != 2 then throw Err.notimpl
  let fac := x.blocks.map (fun (s, b) => (s, K.qr b))
  let qBlocks := fac.map (fun (s, qr) => (s, qr.1))
  let rBlocks := adict (fac.map (fun (s, qr) => ([s.getD 1 (0, 0), s.getD 1 (0, 0)], qr.2)))
  let cm := adict (fac.map (fun (s, qr) => (s.getD 1 (0, 0), qr.1.shape.getD 1 0)))
  let ix1 := x.indices.getD 1 default
  let bond := Index.plain cm ix1.dual
  let q : Arr R := { x with indices := [x.indices.getD 0 default, bond], blocks := qBlocks }
  let r : Arr R := { sym := x.sym, fermi := x.fermi, indices := [bond.conj, ix1],
                     charge := x.sym.zero, blocks := rBlocks, phases := [], oddpos := [] }
  let r := if x.fermi && bond.conj.dual then r.phaseFlip [0] else r
  pure (q, r)

/-- `svd(x)` (and `svd_fermionic`) -/
def svdA (K : Kernels R) (x : Arr R) : Except Err (Arr R × BVec R × Arr R) := do
  if x.ndim != 2 then throw Err.notimpl
  let fac := x.blocks.map (fun (s, b) => (s, K.svd b))
  let uBlocks := fac.map (fun (s, f) => (s, f.1))
  let sStore := adict (fac.map (fun (s, f) => (s.getD 1 (0, 0), f.2.1)))
  let vBlocks := adict (fac.map (fun (s, f) => ([s.getD 1 (0, 0), s.getD 1 (0, 0)], f.2.2)))
  let cm := adict (fac.map (fun (s, f) => (s.getD 1 (0, 0), f.1.shape.getD 1 0)))
  let ix1 := x.indices.getD 1 default
  let bond := Index.plain cm ix1.dual
  let u : Arr R := { x with indices := [x.indices.getD 0 default, bond], blocks := uBlocks }
  let v : Arr R := { sym := x.sym, fermi := x.fermi, indices := [bond.conj, ix1],
                     charge := x.sym.zero, blocks := vBlocks, phases := [], oddpos := [] }
  let v := if x.fermi && bond.conj.dual then v.phaseFlip [0] else v
  pure (u, ⟨sStore⟩, v)

/-- the part of `svd_truncated` after the per-sector counts `n_chi` are known: slice or drop
    each sector and rebuild the bond chargemap.  `counts` is aligned with `U.sectors`. -/
def applyCounts [Zero R] (u : Arr R) (s : BVec R) (vh : Arr R) (counts : List Nat) :
    Arr R × BVec R × Arr R :=
  let plan := u.sectors.zip counts
  let keepU := plan.filter (fun p => p.2 != 0)
  let uBlocks := keepU.filterMap (fun (sec, n) =>
    (alookup u.blocks sec).map (fun b => (sec, b.sliceK [0, 0] [b.shape.getD 0 0, n])))
  let c1s := keepU.map (fun (sec, n) => (sec.getD 1 (0, 0), n))
  let dropped := (plan.filter (fun p => p.2 == 0)).map (fun p => p.1.getD 1 (0, 0))
  let sBlocks := s.blocks.filterMap (fun (c, b) =>
    if dropped.contains c then none else
    match alookup c1s c with
    | some n => some (c, b.sliceK [0] [n])
    | none => some (c, b))
  let vBlocks := vh.blocks.filterMap (fun (sec, b) =>
    let c := sec.getD 0 (0, 0)
    if sec == [c, c] && dropped.contains c then none else
    match (if sec == [c, c] then alookup c1s c else none) with
    | some n => some (sec, b.sliceK [0, 0] [n, b.shape.getD 1 0])
    | none => some (sec, b))
  let newCm := Index.sortCm (adict c1s)
  ({ u with blocks := uBlocks,
            indices := [u.indices.getD 0 default, (u.indices.getD 1 default).withCm newCm] },
   ⟨sBlocks⟩,
   { vh with blocks := vBlocks,
             indices := [(vh.indices.getD 0 default).withCm newCm, vh.indices.getD 1 default] })

/-- `eigh(a)` (and `eigh_fermionic`) -/
def eighA [Neg R] (K : Kernels R) (a : Arr R) : Except Err (BVec R × Arr R) := do
  let a := if a.fermi && !a.phases.isEmpty then a.phaseSync else a
  if a.ndim != 2 then throw Err.notimpl
  if a.charge != a.sym.zero then throw Err.value
  -- numpy's eigh raises LinAlgError (a ValueError) on a non-square block
  if a.blocks.any (fun (_, b) => b.shape.getD 0 0 != b.shape.getD 1 0) then throw Err.value
  let fac := a.blocks.map (fun (s, b) => (s, K.eigh b))
  let evals := adict (fac.map (fun (s, f) => (s.getD 1 (0, 0), f.1)))
  let evecs := fac.map (fun (s, f) => (s, f.2))
  let evals := if a.fermi && !(a.indices.getD 1 default).dual then
      evals.map (fun (c, b) => if a.sym.parity c then (c, b.negK) else (c, b))
    else evals
  pure (⟨evals⟩, { a with blocks := evecs })

/-- `solve(a, b)` (and `solve_fermionic`) for a matrix `a` and a rank-1 array `b` -/
def solveA [Neg R] (K : Kernels R) (a b : Arr R) : Except Err (Arr R) := do
  let a := if a.fermi && !a.phases.isEmpty then a.phaseSync else a
  let b := if a.fermi && !b.phases.isEmpty then b.phaseSync else b
  if a.ndim != 2 || b.ndim != 1 then throw Err.notimpl
  -- numpy's solve raises LinAlgError (a ValueError) on a non-square or mismatching block
  if a.blocks.any (fun (s, arr) => (alookup b.blocks [s.getD 0 (0, 0)]).isSome
      && arr.shape.getD 0 0 != arr.shape.getD 1 0) then throw Err.value
  let xBlocks := adict (a.blocks.filterMap (fun (s, arr) =>
    match alookup b.blocks [s.getD 0 (0, 0)] with
    | some bb => some ([s.getD 1 (0, 0)], K.solve arr bb)
    | none => none))
  let x : Arr R := { b with blocks := xBlocks,
                            indices := [(a.indices.getD 1 default).conj],
                            charge := a.sym.combine [b.charge, a.sym.sign a.charge true] }
  pure (if a.fermi && (a.indices.getD 1 default).conj.dual then x.phaseFlip [0] else x)

end SymmModel
