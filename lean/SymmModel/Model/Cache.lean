/-
  SymmModel.Model.Cache — process-wide state of symmray that is *not* an argument of an
  operation: the fuse-information cache, the default contraction mode, and the hash keys.
  Python: symmray/abelian_core.py
     hasher (:23), BlockIndex.hashkey (:191), SubIndexInfo.hashkey (:323),
     _fuseinfos / _fuseinfo_cache_maxsize / _fuseinfo_cache_maxsectors (:806-830),
     cached_fuse_block_info (:846-893),
     _DEFAULT_TENSORDOT_MODE, get/set_default_tensordot_mode, default_tensordot_mode (:2600-2636).

  ## cached_fuse_block_info, as written (commit 039ae71 and later)

      if _fuseinfo_cache_maxsize == 0:  return calc(self, groups)          -- disabled
      if len(self.blocks) > _fuseinfo_cache_maxsectors: return calc(...)   -- bypass
      key = hasher((...))                                                  -- thread local
      try:
          res = _fuseinfos[key]                 -- (1) lookup        KeyError → except branch
          _fuseinfos.move_to_end(key)           -- (2) move_to_end   KeyError → except branch (!)
      except KeyError:
          res = _fuseinfos[key] = calc(...)     -- (3) compute (thread local) + insert
                                                --     (calc raises ⇒ nothing stored, call raises that)
          if len(_fuseinfos) > maxsize:         -- (4) length test
              try: _fuseinfos.popitem(last=False)   -- (5) pop oldest
              except KeyError: pass                 --     (before 039ae71: unguarded, raised)
      return res

  Every numbered line touches the shared `OrderedDict` exactly once; under the GIL each such
  C-level dict operation is atomic, everything between two of them is thread local.  These are
  the atomic steps of the thread machine below.  `maxsize` is `int(os.environ[...])` and may
  be negative (then every insert is followed by a pop), so it is an `Int` here.

  The machine is parametric in
    * `touch`   — whether a hit moves the entry to the end (the code: `true`);
    * `popLast` — which end `popitem` removes (the code: `false` = oldest);
    * `guarded` — whether a pop on an empty dict is swallowed (the code: `true` since 039ae71;
                  `false` is the unrepaired code, kept for the regression counterexample).
  The theorems about *results* hold for every policy, which is why replacing LRU by FIFO or
  evicting the newest entry is not a violation of C15 (only of the cache's hit rate).
-/
import SymmModel.Model.Fuse
namespace SymmModel

/-! ### the cache -/

/-- what is cached: `keyOf` is what `hasher` sees, `compute` the pure function, `bypass` the
    "too many sectors" test. -/
structure CacheSpec (α κ β : Type) where
  keyOf : α → κ
  compute : α → β
  bypass : α → Bool := fun _ => false
  /-- the computed value stands for "the computation raised": then `res = _fuseinfos[key] = calc(…)`
      stores nothing and the exception is the outcome of the call -/
  raises : β → Bool := fun _ => false

structure Policy where
  touch : Bool := true
  popLast : Bool := false
  guarded : Bool := true
  deriving DecidableEq, Repr, Inhabited

/-- the code in /repo today -/
def Policy.code : Policy := {}
/-- the code before commit 039ae71 (unguarded `popitem`) -/
def Policy.unrepaired : Policy := { guarded := false }

/-- `_fuseinfos` (oldest first) and `_fuseinfo_cache_maxsize` -/
structure FuseCache (κ β : Type) where
  entries : List (κ × β)
  maxsize : Int
  deriving Inhabited

namespace FuseCache
variable {α κ β : Type} [BEq κ]

def empty (maxsize : Int) : FuseCache κ β := ⟨[], maxsize⟩

/-- `OrderedDict.move_to_end(key)`; `none` where Python raises `KeyError` -/
def moveToEnd : List (κ × β) → κ → Option (List (κ × β))
  | es, k => match alookup es k with
    | none => none
    | some v => some (aerase es k ++ [(k, v)])

/-- `OrderedDict.popitem(last)`; `none` where Python raises `KeyError('dictionary is empty')` -/
def popitem (es : List (κ × β)) (last : Bool) : Option (List (κ × β)) :=
  match es with
  | [] => none
  | _ :: rest => if last then some es.dropLast else some rest

inductive Event where
  | disabled | bypass | hit | miss | missEvict | missRaise
  deriving DecidableEq, Repr, Inhabited

structure CallResult (κ β : Type) where
  res : Option β          -- `none`: the call raised (only possible with an unguarded pop)
  ev : Event
  cache : FuseCache κ β

/-- one whole call of `cached_fuse_block_info` with no other thread running -/
def callP (P : Policy) (S : CacheSpec α κ β) (c : FuseCache κ β) (x : α) : CallResult κ β :=
  if c.maxsize == 0 then ⟨some (S.compute x), .disabled, c⟩
  else if S.bypass x then ⟨some (S.compute x), .bypass, c⟩
  else
    let key := S.keyOf x
    let miss (es : List (κ × β)) : CallResult κ β :=
      let v := S.compute x
      if S.raises v then ⟨some v, .missRaise, { c with entries := es }⟩ else
      let es1 := ainsert es key v
      if (es1.length : Int) > c.maxsize then
        match popitem es1 P.popLast with
        | some es2 => ⟨some v, .missEvict, { c with entries := es2 }⟩
        | none => if P.guarded then ⟨some v, .missEvict, { c with entries := es1 }⟩
                  else ⟨none, .missEvict, { c with entries := es1 }⟩
      else ⟨some v, .miss, { c with entries := es1 }⟩
    match alookup c.entries key with
    | some v =>
      if P.touch then
        match moveToEnd c.entries key with
        | some es => ⟨some v, .hit, { c with entries := es }⟩
        | none => miss c.entries
      else ⟨some v, .hit, c⟩
    | none => miss c.entries

/-- the code as it is -/
def call (S : CacheSpec α κ β) (c : FuseCache κ β) (x : α) : CallResult κ β :=
  callP Policy.code S c x

/-- a sequential history of calls: results (in order) and the final cache -/
def runCallsP (P : Policy) (S : CacheSpec α κ β) :
    FuseCache κ β → List α → List (Option β) × FuseCache κ β
  | c, [] => ([], c)
  | c, x :: xs =>
    let r := callP P S c x
    let rest := runCallsP P S r.cache xs
    (r.res :: rest.1, rest.2)

def runCalls (S : CacheSpec α κ β) := runCallsP (κ := κ) Policy.code S

/-- every entry is `(keyOf x, compute x)` for some `x` -/
def Coherent (S : CacheSpec α κ β) (es : List (κ × β)) : Prop :=
  ∀ p ∈ es, ∃ x, p = (S.keyOf x, S.compute x)

/-! ### thread machine -/

/-- program counter inside one call; `lookup` is the entry point (the `maxsize == 0` and
    bypass tests and the key computation are thread local and belong to the same step). -/
inductive Pc (β : Type) where
  | lookup
  | moveToEnd (v : β)
  | insert
  | lenTest (v : β)
  | pop (v : β)
  deriving Inhabited

/-- a thread: calls still to make (head = the one in progress), where it is, what it has
    returned so far, and whether it died with an exception -/
structure Thread (α β : Type) where
  todo : List α
  pc : Pc β := .lookup
  out : List (α × β) := []
  raised : Bool := false
  deriving Inhabited

def Thread.finish (t : Thread α β) (x : α) (v : β) : Thread α β :=
  { t with todo := t.todo.tail, pc := .lookup, out := t.out ++ [(x, v)] }

def Thread.running (t : Thread α β) : Bool := !t.raised && !t.todo.isEmpty

/-- one atomic step of one thread on the shared cache -/
def stepThread (P : Policy) (S : CacheSpec α κ β) (c : FuseCache κ β) (t : Thread α β) :
    FuseCache κ β × Thread α β :=
  if t.raised then (c, t) else
  match t.todo with
  | [] => (c, t)
  | x :: _ =>
    let key := S.keyOf x
    match t.pc with
    | .lookup =>
      if c.maxsize == 0 || S.bypass x then (c, t.finish x (S.compute x))
      else match alookup c.entries key with
        | some v => if P.touch then (c, { t with pc := .moveToEnd v }) else (c, t.finish x v)
        | none => (c, { t with pc := .insert })
    | .moveToEnd v =>
      match moveToEnd c.entries key with
      | some es => ({ c with entries := es }, t.finish x v)
      | none => (c, { t with pc := .insert })          -- KeyError caught by the same `except`
    | .insert =>
      let v := S.compute x
      if S.raises v then (c, t.finish x v)        -- calc raised: nothing is stored
      else ({ c with entries := ainsert c.entries key v }, { t with pc := .lenTest v })
    | .lenTest v =>
      if (c.entries.length : Int) > c.maxsize then (c, { t with pc := .pop v })
      else (c, t.finish x v)
    | .pop v =>
      match popitem c.entries P.popLast with
      | some es => ({ c with entries := es }, t.finish x v)
      | none => if P.guarded then (c, t.finish x v) else (c, { t with raised := true })

structure Machine (α κ β : Type) where
  cache : FuseCache κ β
  threads : List (Thread α β)
  deriving Inhabited

/-- thread `i` makes one step (no-op for an unknown, finished or dead thread) -/
def stepAt (P : Policy) (S : CacheSpec α κ β) (m : Machine α κ β) (i : Nat) : Machine α κ β :=
  match m.threads[i]? with
  | none => m
  | some t =>
    let r := stepThread P S m.cache t
    { cache := r.1, threads := m.threads.set i r.2 }

/-- a schedule is the list of thread numbers in the order they make their atomic steps -/
def runSched (P : Policy) (S : CacheSpec α κ β) (m : Machine α κ β) (sched : List Nat) :
    Machine α κ β :=
  sched.foldl (stepAt P S) m

/-- fresh threads, one per program -/
def spawn (progs : List (List α)) : List (Thread α β) := progs.map (fun p => { todo := p })

def Machine.anyRaised (m : Machine α κ β) : Bool := m.threads.any (·.raised)

end FuseCache

/-! ### the default contraction mode -/

namespace ModeCtx

/-- the global `_DEFAULT_TENSORDOT_MODE`.  `none` is Python's `None`: `set(None)` is a no-op
    but `with default_tensordot_mode(None)` *does* store `None` (there is no test in the
    context manager). -/
abbrev State (μ : Type) := Option μ

/-- `set_default_tensordot_mode(mode)` -/
def set {μ : Type} (mode : Option μ) (s : State μ) : State μ :=
  match mode with
  | none => s
  | some m => some m

/-- `get_default_tensordot_mode()` -/
def get {μ : Type} (s : State μ) : Option μ := s

/-- bodies: what a program can do to the mode -/
inductive Act (μ : Type) where
  | set (mode : Option μ)                       -- set_default_tensordot_mode(mode)
  | get                                          -- observe get_default_tensordot_mode()
  | raise                                        -- raise an exception
  | withMode (mode : Option μ) (body : List (Act μ))   -- with default_tensordot_mode(mode): body
  | tryExcept (body : List (Act μ))             -- try: body  except Exception: pass

structure Out (μ : Type) where
  state : State μ
  trace : List (Option μ)
  raised : Bool

mutual
  /-- run one action -/
  def exec {μ : Type} : Act μ → State μ → Out μ
    | .set m, s => ⟨set m s, [], false⟩
    | .get, s => ⟨s, [get s], false⟩
    | .raise, s => ⟨s, [], true⟩
    | .withMode m body, s =>
      -- __enter__: old_mode = global; global = mode
      let r := execList body m
      -- finally: global = old_mode; the exception (if any) propagates
      ⟨s, r.trace, r.raised⟩
    | .tryExcept body, s =>
      let r := execList body s
      ⟨r.state, r.trace, false⟩
  /-- run a block: stop at the first action that raises -/
  def execList {μ : Type} : List (Act μ) → State μ → Out μ
    | [], s => ⟨s, [], false⟩
    | a :: rest, s =>
      let r := exec a s
      if r.raised then r
      else
        let r2 := execList rest r.state
        ⟨r2.state, r.trace ++ r2.trace, r2.raised⟩
end

mutual
  /-- no `set` outside... — a block whose top-level actions never call `set` directly
      (they may inside `with` blocks) -/
  def noBareSet {μ : Type} : Act μ → Bool
    | .set _ => false
    | .get => true
    | .raise => true
    | .withMode _ _ => true
    | .tryExcept body => noBareSetList body
  def noBareSetList {μ : Type} : List (Act μ) → Bool
    | [] => true
    | a :: rest => noBareSet a && noBareSetList rest
end

end ModeCtx

/-! ### hash keys -/

/-- what gets pickled: a tree of ints, bools, `None`, strings and tuples.
    `hasher = sha1 ∘ pickle.dumps` is assumed injective on these trees. -/
inductive KTree where
  | int (i : Int)
  | bool (b : Bool)
  | none
  | str (s : String)
  | tup (l : List KTree)
  deriving Inhabited

namespace KTree

mutual
  def render : KTree → String
    | .int i => toString i
    | .bool b => if b then "T" else "F"
    | .none => "N"
    | .str s => "'" ++ s ++ "'"
    | .tup l => "(" ++ renderList l ++ ")"
  def renderList : List KTree → String
    | [] => ""
    | a :: rest => render a ++ "," ++ renderList rest
end

mutual
  def beq : KTree → KTree → Bool
    | .int a, .int b => a == b
    | .bool a, .bool b => a == b
    | .none, .none => true
    | .str a, .str b => a == b
    | .tup a, .tup b => beqList a b
    | _, _ => false
  def beqList : List KTree → List KTree → Bool
    | [], [] => true
    | a :: as, b :: bs => beq a b && beqList as bs
    | _, _ => false
end

instance : BEq KTree := ⟨beq⟩

def charge (c : Charge) : KTree := .tup [.int c.1, .int c.2]
def sector (s : List Charge) : KTree := .tup (s.map charge)
def nat (n : Nat) : KTree := .int n

/-- `tuple((c, tuple(extent.items())) for c, extent in self._extents.items())` -/
def extents (e : Extents) : KTree :=
  .tup (e.map (fun p => .tup [charge p.1, .tup (p.2.map (fun q => .tup [sector q.1, nat q.2]))]))

def chargemap (cm : List (Charge × Nat)) : KTree :=
  .tup (cm.map (fun p => .tup [charge p.1, nat p.2]))

def sym : Sym → KTree
  | .Z2 => .str "Z2" | .Z4 => .str "Z4" | .U1 => .str "U1"
  | .Z2Z2 => .str "Z2Z2" | .U1U1 => .str "U1U1"

def groups (g : List (List Nat)) : KTree := .tup (g.map (fun ax => .tup (ax.map nat)))

end KTree

namespace Index

mutual
  /-- `BlockIndex.hashkey()`:
      `hasher((tuple(chargemap.items()), dual, subinfo.hashkey() if subinfo else None))`
      with `SubIndexInfo.hashkey()`:
      `hasher((tuple(ix.hashkey for ix in indices), tuple((c, tuple(extent.items())) ...)))`.

      Finding #16 (benign): the inner `ix.hashkey` is *not called* — the bound methods are
      pickled, i.e. the sub-index objects themselves (slots `_chargemap`, `_dual`, `_subinfo`
      and the memo slot `_hashkey`, recursively, with pickle's identity sharing).  The
      information content is therefore this tree *plus* memo/identity state of the sub-index
      objects: the real key refines the model key.  Equal real keys ⇒ equal model keys; the
      converse can fail (an extra miss), never a collision. -/
  def hashkey : Index → KTree
    | mk cm dual none => .tup [KTree.chargemap cm, .bool dual, .none]
    | mk cm dual (some (subs, exts)) =>
      .tup [KTree.chargemap cm, .bool dual, .tup [.tup (hashkeyList subs), KTree.extents exts]]
  def hashkeyList : List Index → List KTree
    | [] => []
    | i :: is => hashkey i :: hashkeyList is
end

end Index

/-- the key of `cached_fuse_block_info(self, axes_groups)`:
    `hasher((tuple(ix.hashkey() for ix in self.indices), tuple(self.blocks), self.symmetry, axes_groups))` -/
def keyOfArr {R : Type} (a : Arr R) (groups : List (List Nat)) : KTree :=
  .tup [.tup (Index.hashkeyList a.indices),
        .tup (a.sectors.map KTree.sector),
        KTree.sym a.sym,
        KTree.groups groups]

/-- the real cache as an instance: arguments are `(array, axes_groups)` -/
def fuseSpec (R : Type) (maxsectors : Nat := 512) :
    CacheSpec (Arr R × List (List Nat)) KTree (Except Err FuseInfo) where
  keyOf := fun x => keyOfArr x.1 x.2
  compute := fun x => calcFuseBlockInfo x.1 x.2
  bypass := fun x => x.1.blocks.length > maxsectors
  raises := fun v => match v with | .error _ => true | .ok _ => false

end SymmModel
