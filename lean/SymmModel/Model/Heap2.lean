/-
  SymmModel.Model.Heap2 — extension of the heap model `SymmModel.Model.Heap` (property C14) to the
  public operations its `Op` table does not list.  Nothing of `Model/Heap.lean` is changed; the new
  operations are effect programs over the SAME commands, scripts and combinators.

  `OpSpec` is what the frame theorems need to know of an operation (its program, how many operands it
  takes, which of them it is asked to modify, where its results are); every `Op` and every `Op2` gives
  one, so programs of calls may mix both tables (`GCall`, `runG`).

  Transcribed from (symmray):
    block_core.py     get_params, norm / max / min / sum / all / any / item / __float__ …, clip,
                      BlockVector.check / to_dense / size / shape
    abelian_core.py   check, check_with, check_chargemaps_aligned, is_valid_sector, gen_valid_sectors,
                      get_sparsity, get_block_shape, allclose, to_dense, trace, einsum, __matmul__,
                      from_fill_fn / random / from_blocks / from_dense / __init__
    fermionic_core.py item, _do_reduction, clip, to_dense, allclose, trace, einsum, __matmul__
    linalg.py         norm
  Operations of the public API that ARE instances of an existing `Op` (hence need no new program):
    `-x`, `k*x`, `x*k`, `x/k`, `abs … log10`, `BlockVector` `+ - / **` with a scalar and all reflected
    forms (`scalarOp` / `unaryOpA` / `unaryOpF`, out of place), `BlockVector.__iadd__/__isub__/
    __itruediv__/__ipow__` with a scalar (`scalarOp`, in place) and with a vector (`binaryA .outer` /
    `.strict`, in place), `x / y` and `x ** y` of block arrays (`binaryA .strict`, out of place; NB
    `AbelianArray.__itruediv__` with a block array returns `NotImplemented`, so `x /= y` is CPython's
    fallback `x = x / y`: out of place), `AbelianArray.__matmul__` (`tdotBlockwise`), `T`, `H`,
    `tensordot(a, scalar)` (`scalarOp`), `linalg.qr_stabilized` (`qr`), `interface.*` (thin wrappers).

  Core Lean only.
-/
import SymmModel.Model.Heap
namespace SymmModel.Heap

/-- an operation as the frame theorems see it -/
structure OpSpec where
  prog : Prog
  arity : Nat
  /-- the operand variables the call is asked to modify -/
  targets : List Nat
  /-- positions of the returned objects among the final variables -/
  results : List Nat

def OpSpec.run (s : OpSpec) (h : Heap) (operands : List ObjId) : Heap × List ObjId :=
  let r := s.prog.run h (operands.take s.arity)
  (r.1, s.results.map (envGet r.2))

def Op.spec (op : Op) (inplace : Bool) : OpSpec :=
  ⟨op.prog inplace, op.arity, op.targets inplace, op.results inplace⟩

def tEinsum := 13
def tFill := 14

/-- single-term `einsum`: every new block is ONE fresh buffer computed from the listed old blocks
    (`_einsum(eq, array)`, or the sum of several for a traced sector) -/
structure EinsumP where
  entries : Dict → List (Key × List BufId)
  fi : Nat → Nat

def einsumMods (p : EinsumP) (c : Content) : Mods :=
  { indices := some (p.fi c.indices), blocks := some ((p.entries c.blocks).map fun e => (e.1, .kern tEinsum e.2)) }

inductive Op2
  /-- methods that only read their `n` operands and return a number / tuple / fresh dense array / bool /
      nothing: `norm`, `max … any`, `item`, `check`, `check_with`, `allclose`, `to_dense`, `trace`,
      `is_valid_sector`, `gen_valid_sectors`, `get_sparsity`, `sectors`, `shape`, … of abelian arrays
      and block vectors; also `norm` of a fermionic array (reads the blocks only) -/
  | observe (n : Nat)
  /-- `get_params()`: `self.blocks.copy()` — a NEW bare dict holding the same buffers -/
  | getParams
  /-- `FermionicArray.item` / `_do_reduction` (`max … any`, `float(x)` …):
      `x = self.phase_sync() if self.phases else self`, then read -/
  | reduceF
  /-- `FermionicArray.to_dense`: `AbelianArray.to_dense(self.phase_sync())` -/
  | toDenseF
  /-- `FermionicArray.allclose(other)`: `self.phase_sync()`, `other.phase_sync()` -/
  | allcloseF
  /-- `FermionicArray.trace`: `self.phase_sync()` or `self.phase_flip(0).phase_sync()` -/
  | traceF (flip : Option (Key → Bool))
  /-- `BlockBase.clip`: `new = self.copy(); new.apply_to_arrays(...)` -/
  | clipA (tag : Nat)
  /-- `FermionicArray.clip`: `x = self.phase_sync() if self.phases else self; BlockBase.clip(x)` -/
  | clipF (tag : Nat)
  /-- `AbelianArray.einsum`; `scalar`: the output has no index and `preserve_array=False`, the block
      itself (or `0.0`) is returned and no array object is made -/
  | einsumA (p : EinsumP) (scalar : Bool)
  /-- `FermionicArray.einsum`: `x = self.transpose(perm); x.phase_sync(inplace=True);
      AbelianArray.einsum(x, …)` -/
  | einsumF (fk : Key → Key) (fi : Nat → Nat) (sg : Key → Int) (p : EinsumP) (scalar : Bool)
  /-- `FermionicArray.__matmul__(other)` -/
  | matmulF (flip : Option (Key → Bool)) (tdot : TdotP) (oddFlip : Content → Content → Bool)
      (oddpos : Content → Content → Nat) (scalar : Bool)
  /-- `cls(indices, charge, blocks=d, …)`, `from_blocks`, `from_dense`, `BlockVector(d)`,
      `BlockBase.copy_with(blocks=d)`: `__init__` stores `dict(d)` -/
  | construct (indices : Nat) (charge : Int) (es : List (Key × BufSrc)) (fermi : Bool) (oddpos : Nat)
  /-- `from_fill_fn` / `random`: `new = cls(indices, charge)`, then `new.blocks[sector] = fill_fn(…)` -/
  | fromFill (indices : Nat) (charge : Int) (fermi : Bool) (oddpos : Nat) (keys : List Key)

/-- `self.phase_sync()` of variable `src` as a new variable; `n` = number of variables before -/
def syncCopyK (src n : Nat) (k : Prog) : Prog := .cmd (.copy src) (S.phaseSync.prog n [] k)

/-- `if other.indices[0].dual: other = other.phase_flip(0)` (variable 1 → variable 2) -/
def flipOtherK (flip : Option (Key → Bool)) (k : Prog) : Prog :=
  match flip with
  | some odd => .cmd (.copy 1) ((S.phaseFlip odd false).prog 2 [] k)
  | none => .cmd (.alias 1) k

def Op2.prog : Op2 → Prog
  | .observe _ => .done
  | .getParams => .cmd (.dictCopy 0) .done
  | .reduceF => syncedK 0 1 true .done
  | .toDenseF => syncCopyK 0 1 .done
  | .allcloseF => syncCopyK 0 2 (syncCopyK 1 3 .done)
  | .traceF none => syncCopyK 0 1 .done
  | .traceF (some odd) =>
    .cmd (.copy 0) <| (S.phaseFlip odd false).prog 1 [] <| syncCopyK 1 2 .done
  | .clipA tag => .cmd (.copy 0) ((S.applyToArrays tag).prog 1 [] .done)
  | .clipF tag => syncedK 0 1 true <| .cmd (.copy 1) <| (S.applyToArrays tag).prog 2 [] .done
  | .einsumA p scalar =>
    if scalar then .done else .read fun v => .cmd (.copyWith 0 (einsumMods p (v.at 0))) .done
  | .einsumF fk fi sg p scalar =>
    .cmd (.copy 0) <| (S.transposeF fk fi sg true).prog 1 [] <| S.phaseSync.prog 1 [] <|
    if scalar then .done else .read fun v => .cmd (.copyWith 1 (einsumMods p (v.at 1))) .done
  | .matmulF flip tdot oddFlip oddpos scalar =>
    -- `if other.indices[0].dual: other = other.phase_flip(0)`                         → 2
    flipOtherK flip <|
    syncCopyK 0 3 <|                                                                   -- a → 3
    syncCopyK 2 4 <|                                                                   -- b → 4
    tdotBlockwiseK 3 4 tdot <|                                                         -- c → 5
    .read fun v =>
      (S.resolveOddpos (oddFlip (v.at 3) (v.at 4)) (oddpos (v.at 3) (v.at 4))).prog 5 [] <|
      if scalar then S.phaseSync.prog 5 [] .done else .done
  | .construct i c es f o => .cmd (.construct i c es f o) .done
  | .fromFill i c f o keys =>
    .cmd (.construct i c [] f o) (Prog.actsK 0 (keys.map fun k => .bKern k tFill []) .done)

def Op2.arity : Op2 → Nat
  | .observe n => n
  | .allcloseF | .matmulF _ _ _ _ _ => 2
  | .construct _ _ _ _ _ | .fromFill _ _ _ _ _ => 0
  | _ => 1

/-- none of these operations has an in-place form -/
def Op2.results : Op2 → List Nat
  | .getParams | .clipA _ => [1]
  | .clipF _ => [2]
  | .einsumA _ scalar => if scalar then [] else [1]
  | .einsumF _ _ _ _ scalar => if scalar then [] else [2]
  | .matmulF _ _ _ _ scalar => if scalar then [] else [5]
  | .construct _ _ _ _ _ | .fromFill _ _ _ _ _ => [0]
  | _ => []

def Op2.spec (op : Op2) : OpSpec := ⟨op.prog, op.arity, [], op.results⟩

def Op2.run (op : Op2) (h : Heap) (operands : List ObjId) : Heap × List ObjId := op.spec.run h operands

/-- a call of either table in a program: operands are variables of the outer environment -/
structure GCall where
  spec : OpSpec
  args : List Nat

def runG : List GCall → Heap → Env → Heap × Env
  | [], h, env => (h, env)
  | c :: r, h, env =>
    let res := c.spec.run h (c.args.map (envGet env))
    runG r res.1 (env ++ res.2)

/-! ## the public internal-use entry points that keep the CALLER'S dict

    `AbelianArray.copy_with(blocks=d)` / `modify(blocks=d)` bind `d` itself
    (`new._blocks = self._blocks.copy() if blocks is None else blocks`), and
    `FermionicArray.copy_with(phases=d)` / `modify(phases=d)` bind `d` itself.  symmray's own code only
    passes dicts it has just built (that is what `Cmd.copyWith` / `Act.modify` model); a caller passing
    a dict that is still referenced elsewhere gets an array aliasing it: -/

/-- `x.copy_with(blocks=d)` for an existing dict object `d` -/
def copyWithCallerBlocks (h : Heap) (x : ObjId) (d : DictId) : Heap × ObjId :=
  match h.arrOf x with
  | none => newDict h []
  | some o =>
    let r2 := phasesFor h o none
    allocArray r2.1 { o with blocks := d, phases := r2.2 }

/-- `x.copy_with(phases=d)` for an existing dict object `d` (fermionic `x`) -/
def copyWithCallerPhases (h : Heap) (x : ObjId) (d : DictId) : Heap × ObjId :=
  match h.arrOf x with
  | none => newDict h []
  | some o =>
    let r1 := blocksFor h o none
    allocArray r1.1 { o with blocks := r1.2, phases := o.phases.map fun _ => d }

end SymmModel.Heap
