/-
  SymmModel.Model.Sparse — sparsity management and scalar extraction of `AbelianArray` /
  `FermionicArray`, literally as written.

  Python: symmray/abelian_core.py  `get_sparsity` (1266), `fill_missing_blocks` (1277),
          `drop_missing_blocks` (1288), `allclose` (1377);
          symmray/fermionic_core.py `allclose` (819), `item` (255);
          symmray/block_core.py `get_params` (75), `set_params` (84), `item` (98), `__float__`,
          `__complex__`, `__int__`, `__bool__`.

  All of `fill_missing_blocks`, `drop_missing_blocks`, `set_params` mutate `self.blocks` in place and
  return `None`; the model returns the new state of `self`.  None of them touches the pending-sign
  table of a fermionic array (`drop_missing_blocks` leaves the sign entry of a deleted block behind).

  Tolerance (assumption of the correspondence): the data are exactly representable small Gaussian
  integers / dyadic rationals, on which `numpy.allclose(x, y)` with the default tolerances is `x == y`
  entrywise and `numpy.allclose(x, 0.0)` is `all(x == 0)`.  numpy broadcasting of blocks of different
  shapes is not modelled: `blkClose` is `false` there (theorems and harness compare arrays with the
  same index tables only, where shared sectors have equal shapes).
-/
import SymmModel.Model.Fermi
import SymmModel.Model.GRat
namespace SymmModel
namespace Arr
variable {R : Type}

/-! ### `fill_missing_blocks` -/

/-- one iteration of `for sector in self.gen_valid_sectors(): if sector not in self.blocks: …`:
    the membership test is against the dict being filled; a missing sector gets
    `zeros(get_block_shape(sector))` appended (`self.blocks[sector] = array` on an absent key).
    `get_block_shape` raises `KeyError` for a charge that is not in an index table (it cannot
    happen for a generated sector: theorem `C08.fillMissing_ok`). -/
def fillStep [Zero R] (indices : List Index) (bl : List (Sector × Blk R)) (s : Sector) :
    Except Err (List (Sector × Blk R)) :=
  if (alookup bl s).isSome then .ok bl
  else match blockShape? indices s with
    | none => .error Err.key
    | some shp => .ok (ainsert bl s (Blk.zeros shp))

/-- `AbelianArray.fill_missing_blocks()`: walks `gen_valid_sectors()` in its order.  The example
    array `get_any_array()` only fixes backend and dtype of the zeros (dtype: Model/DType.lean,
    `DOp.zerosLike`); with no stored block it is the Python float `0.0` and the zeros are float64. -/
def fillMissing [Zero R] (a : Arr R) : Except Err (Arr R) :=
  (a.genValidSectors.foldlM (fillStep a.indices) a.blocks).map (fun bl => { a with blocks := bl })

/-! ### `drop_missing_blocks` -/

/-- one iteration of `for sector in list(self.blocks.keys()): if all(self.blocks[sector] == 0.0):
    del self.blocks[sector]` -/
def dropStep [Zero R] [BEq R] (bl : List (Sector × Blk R)) (s : Sector) : List (Sector × Blk R) :=
  match alookup bl s with
  | some b => if b.isZero then aerase bl s else bl
  | none => bl

/-- `AbelianArray.drop_missing_blocks()`: the key list is taken before the loop -/
def dropMissing [Zero R] [BEq R] (a : Arr R) : Arr R :=
  { a with blocks := a.sectors.foldl dropStep a.blocks }

/-! ### `get_sparsity` -/

/-- `num_blocks / len(tuple(gen_valid_sectors()))` as the pair (numerator, denominator);
    `ZeroDivisionError` (class `other`) when there is no valid sector at all -/
def getSparsity (a : Arr R) : Except Err (Nat × Nat) :=
  let n := a.genValidSectors.length
  if n == 0 then .error Err.other else .ok (a.blocks.length, n)

/-! ### `allclose` -/

/-- `numpy.allclose(x, y)` on exact data -/
def blkClose [BEq R] (x y : Blk R) : Bool := x.shape == y.shape && x.data == y.data

/-- `AbelianArray.allclose(self, other)`: three loops over `keys & keys`, `keys - keys` both ways
    (sets: the iteration order is unspecified and irrelevant, the result is a conjunction) -/
def allcloseA [Zero R] [BEq R] (a b : Arr R) : Bool :=
  let shared := a.sectors.filter (fun s => b.sectors.contains s)
  let left := a.sectors.filter (fun s => !b.sectors.contains s)
  let right := b.sectors.filter (fun s => !a.sectors.contains s)
  shared.all (fun s => match alookup a.blocks s, alookup b.blocks s with
    | some x, some y => blkClose x y
    | _, _ => false)
  && left.all (fun s => match alookup a.blocks s with
    | some x => x.isZero
    | none => false)
  && right.all (fun s => match alookup b.blocks s with
    | some y => y.isZero
    | none => false)

/-- `FermionicArray.allclose`: `AbelianArray.allclose(self.phase_sync(), other.phase_sync())`
    (the synchronised copies; neither operand is changed) -/
def allcloseF [Zero R] [Neg R] [BEq R] (a b : Arr R) : Bool := allcloseA a.phaseSync b.phaseSync

/-- method dispatch on the class of `self` -/
def allclose [Zero R] [Neg R] [BEq R] (a b : Arr R) : Bool :=
  if a.fermi then allcloseF a b else allcloseA a b

/-! ### `item` and the scalar conversions -/

/-- `BlockBase.item`: `(array,) = self.blocks.values()` raises `ValueError` unless exactly one block
    is stored; `array.item()` raises `ValueError` unless it has exactly one entry (any rank).
    `FermionicArray.item` first takes `self.phase_sync() if self.phases else self`. -/
def item [Neg R] (a : Arr R) : Except Err R :=
  let x := if a.fermi && !a.phases.isEmpty then a.phaseSync else a
  match x.blocks with
  | [(_, b)] =>
    match b.data.toList with
    | [v] => .ok v
    | _ => .error Err.value
  | _ => .error Err.value

/-- `float(x)` = `float(x.item())`: a `TypeError` for a complex dtype (whatever the value) -/
def toFloat (cplx : Bool) (a : Arr GRat) : Except Err Rat := do
  let v ← a.item
  if cplx then .error Err.type else .ok v.re

/-- `complex(x)` -/
def toComplex (a : Arr GRat) : Except Err GRat := a.item

/-- `int(x)`: truncation towards zero of a real value; `TypeError` for a complex dtype -/
def toInt (cplx : Bool) (a : Arr GRat) : Except Err Int := do
  let v ← a.item
  if cplx then .error Err.type else .ok (v.re.num.tdiv v.re.den)

/-- `bool(x)` -/
def toBool (a : Arr GRat) : Except Err Bool := do
  let v ← a.item
  .ok (v != 0)

/-! ### `get_params` / `set_params` -/

/-- `get_params()`: a (shallow) copy of the block dict -/
def getParams (a : Arr R) : List (Sector × Blk R) := a.blocks

/-- `set_params(params)`: `self.blocks.update(params)` — existing keys are overwritten in place,
    new keys are appended in the order of `params` -/
def setParams (a : Arr R) (params : List (Sector × Blk R)) : Arr R :=
  { a with blocks := params.foldl (fun bl p => ainsert bl p.1 p.2) a.blocks }

end Arr
end SymmModel
