/-
  SymmModel.Model.Valid — the decidable validity predicate of property C01.
  It is evaluated (through the driver) on the *implementation's* serialised results, so the
  verdict does not depend on symmray's own `check()`.
-/
import SymmModel.Model.Arr
namespace SymmModel

/-- one extent `(fused charge c ↦ [(subsector, size)])` of an index with direction `dual`
    fused from `subs` partitions the size `d` the chargemap gives to `c` -/
def extentOk (sym : Sym) (dual : Bool) (subs : List Index) (c : Charge) (d : Nat) (ext : Extent) : Bool :=
  sumN (ext.map (·.2)) == d
  && allDistinct (ext.map (·.1))
  && ext.all (fun (ss, sz) =>
      ss.length == subs.length
      && (match Arr.blockShape? subs ss with
          | some shp => prod shp == sz
          | none => false)
      && sym.combine (List.zipWith (fun c' (sub : Index) => sym.sign c' (dual != sub.dual)) ss subs) == c)

mutual
  /-- `Index.WF`: chargemap strictly sorted, positive sizes, valid charges; a fused index's
      sub-index bookkeeping exactly partitions it; sub-indices well-formed recursively -/
  def Index.wfB (sym : Sym) : Index → Bool
    | .mk cm dual sub =>
      isSortedStrict Charge.lt (cm.map (·.1))
      && cm.all (fun (c, d) => decide (0 < d) && sym.valid c)
      && (match sub with
          | none => true
          | some (subs, exts) =>
            Index.wfListB sym subs
            && allDistinct (exts.map (·.1))
            && cm.all (fun (c, d) => match alookup exts c with
                | some ext => extentOk sym dual subs c d ext
                | none => false)
            && exts.all (fun (c, _) => (alookup cm c).isSome))
  def Index.wfListB (sym : Sym) : List Index → Bool
    | [] => true
    | i :: is => Index.wfB sym i && Index.wfListB sym is
end

/-- `Arr.Valid` as a Boolean -/
def Arr.validB {R : Type} (a : Arr R) : Bool :=
  Index.wfListB a.sym a.indices
  && a.sym.valid a.charge
  && allDistinct a.sectors
  && a.blocks.all (fun (s, b) =>
      s.length == a.ndim
      && a.isValidSector s
      && Arr.blockShape? a.indices s == some b.shape
      && b.wf)
  && (if a.fermi then
        allDistinct (a.phases.map (·.1))
        && a.phases.all (fun (s, p) => s.length == a.ndim && a.isValidSector s && (p == 1 || p == -1))
        && (a.oddpos.length % 2 == 1) == a.parity
      else a.phases.isEmpty && a.oddpos.isEmpty)

/-- which clause fails first (for readable replays) -/
def Arr.invalidReason {R : Type} (a : Arr R) : String :=
  if !Index.wfListB a.sym a.indices then "index-table"
  else if !a.sym.valid a.charge then "charge-invalid"
  else if !allDistinct a.sectors then "duplicate-sector"
  else if !(a.blocks.all (fun (s, _) => s.length == a.ndim && a.isValidSector s)) then "sector-charge"
  else if !(a.blocks.all (fun (s, b) => Arr.blockShape? a.indices s == some b.shape && b.wf)) then "block-shape"
  else if a.fermi && !(allDistinct (a.phases.map (·.1))
        && a.phases.all (fun (s, p) => s.length == a.ndim && a.isValidSector s && (p == 1 || p == -1))) then "phase-table"
  else if a.fermi && (a.oddpos.length % 2 == 1) != a.parity then "oddpos-parity"
  else if !a.fermi && !(a.phases.isEmpty && a.oddpos.isEmpty) then "abelian-with-signs"
  else "ok"

end SymmModel
