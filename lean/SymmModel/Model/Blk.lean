/-
  SymmModel.Model.Blk — dense blocks and numpy's kernels by their meaning.

  A block is a shape plus its C-order flat data over an arbitrary scalar type `R`.
  Kernels used by symmray (via autoray → numpy): transpose, reshape, zeros, basic slicing,
  slice assignment, concatenate, tensordot, einsum (trace / permutation, single operand),
  trace, conj, negation, elementwise arithmetic and broadcasting along one axis.
-/
import SymmModel.Model.Basic
namespace SymmModel

/-- scalars with a conjugation (numpy `conj`) -/
class Conj (R : Type) where
  conj : R → R

structure Blk (R : Type) where
  shape : List Nat
  data : Array R
  deriving Inhabited

namespace Blk
variable {R : Type}

/-- element at a multi-index; meaningful on the box `shape` -/
def get [Zero R] (b : Blk R) (i : List Nat) : R := b.data.getD (ravel b.shape i) 0

/-- tabulate a function on the box `shape` -/
def ofFn (s : List Nat) (f : List Nat → R) : Blk R := ⟨s, ((allIdx s).map f).toArray⟩

/-- data has exactly `prod shape` entries -/
def wf (b : Blk R) : Bool := b.data.size == prod b.shape

def size (b : Blk R) : Nat := prod b.shape
def ndim (b : Blk R) : Nat := b.shape.length

def map {S : Type} (f : R → S) (b : Blk R) : Blk S := ⟨b.shape, b.data.map f⟩

/-- elementwise binary op on equal shapes (numpy `a op b` without broadcasting) -/
def zipWith [Zero R] (f : R → R → R) (a b : Blk R) : Blk R :=
  ofFn a.shape (fun i => f (a.get i) (b.get i))

def zeros [Zero R] (s : List Nat) : Blk R := ofFn s (fun _ => 0)

/-- `np.transpose(b, perm)`: new axis `k` is old axis `perm[k]` -/
def transposeK [Zero R] (b : Blk R) (perm : List Nat) : Blk R :=
  ofFn (permuted b.shape perm)
    (fun i => b.get ((List.range b.shape.length).map
      (fun ax => match indexOf? perm ax with
                 | some k => i.getD k 0
                 | none => 0)))

/-- `np.reshape(b, newshape)` in C order: same flat data -/
def reshapeK (b : Blk R) (newshape : List Nat) : Blk R := ⟨newshape, b.data⟩

/-- basic slicing `b[s0:s0+l0, s1:s1+l1, …]` -/
def sliceK [Zero R] (b : Blk R) (starts lens : List Nat) : Blk R :=
  ofFn lens (fun i => b.get (List.zipWith (· + ·) i starts))

/-- `dest[region] = src` where the region starts at `starts` and has `src.shape` -/
def setSliceK [Zero R] (dest : Blk R) (starts : List Nat) (src : Blk R) : Blk R :=
  ofFn dest.shape (fun i =>
    let rel := List.zipWith (fun a s => (decide (s ≤ a), a - s)) i starts
    if rel.all (·.1) && inBox src.shape (rel.map (·.2)) then src.get (rel.map (·.2))
    else dest.get i)

/-- locate position `p` along a concatenation of pieces with the given sizes:
    `(piece number, offset inside it)` -/
def locatePiece : List Nat → Nat → Option (Nat × Nat)
  | [], _ => none
  | d :: ds, p => if p < d then some (0, p) else (locatePiece ds (p - d)).map (fun q => (q.1 + 1, q.2))

/-- `np.concatenate(blocks, axis)` -/
def concatK [Zero R] (bs : List (Blk R)) (axis : Nat) : Blk R :=
  match bs with
  | [] => ⟨[], #[]⟩
  | b0 :: _ =>
    let sizes := bs.map (fun b => b.shape.getD axis 0)
    let shape := b0.shape.set axis (sumN sizes)
    ofFn shape (fun i =>
      match locatePiece sizes (i.getD axis 0) with
      | some (k, o) => match bs[k]? with
                       | some b => b.get (i.set axis o)
                       | none => 0
      | none => 0)

/-- `np.tensordot(a, b, axes=(axesA, axesB))`.  Result axes: free axes of `a` in order, then free
    axes of `b` in order.  Sum over the box of the contracted sizes (taken from `a`). -/
def tensordotK [Zero R] [Add R] [Mul R] (a b : Blk R) (axesA axesB : List Nat) : Blk R :=
  let freeA := (List.range a.shape.length).filter (fun ax => !axesA.contains ax)
  let freeB := (List.range b.shape.length).filter (fun ax => !axesB.contains ax)
  let shpK := permuted a.shape axesA
  let shape := permuted a.shape freeA ++ permuted b.shape freeB
  let nA := freeA.length
  ofFn shape (fun i =>
    let iA := i.take nA
    let iB := i.drop nA
    (allIdx shpK).foldl (fun acc k =>
      let idxA := (List.range a.shape.length).map (fun ax =>
        match indexOf? axesA ax with
        | some j => k.getD j 0
        | none => match indexOf? freeA ax with
                  | some j => iA.getD j 0
                  | none => 0)
      let idxB := (List.range b.shape.length).map (fun ax =>
        match indexOf? axesB ax with
        | some j => k.getD j 0
        | none => match indexOf? freeB ax with
                  | some j => iB.getD j 0
                  | none => 0)
      acc + a.get idxA * b.get idxB) 0)

/-- single-operand einsum restricted to traces and permutations: `lhs` labels the axes of `b`,
    `rhs` (each label once, all from `lhs`) labels the output; labels not in `rhs` are summed
    over (each traced label ties all axes carrying it). -/
def einsumK [Zero R] [Add R] (b : Blk R) (lhs rhs : List Nat) : Blk R :=
  let sizeOfLabel := fun (q : Nat) => match indexOf? lhs q with
    | some j => b.shape.getD j 0
    | none => 0
  let traced := (lhs.filter (fun q => !rhs.contains q)).eraseDups
  let shape := rhs.map sizeOfLabel
  let shpT := traced.map sizeOfLabel
  ofFn shape (fun i =>
    (allIdx shpT).foldl (fun acc t =>
      let idx := lhs.map (fun q =>
        match indexOf? rhs q with
        | some j => i.getD j 0
        | none => match indexOf? traced q with
                  | some j => t.getD j 0
                  | none => 0)
      acc + b.get idx) 0)

/-- `np.trace` of a matrix -/
def traceK [Zero R] [Add R] (b : Blk R) : R :=
  (List.range (min (b.shape.getD 0 0) (b.shape.getD 1 0))).foldl (fun acc i => acc + b.get [i, i]) 0

/-- `b * v.reshape(1,…,-1,…,1)`: multiply along `axis` by a vector -/
def mulAxisK [Zero R] [Mul R] (b : Blk R) (v : Blk R) (axis : Nat) : Blk R :=
  ofFn b.shape (fun i => b.get i * v.get [i.getD axis 0])

def conjK [Conj R] (b : Blk R) : Blk R := b.map Conj.conj
def negK [Neg R] (b : Blk R) : Blk R := b.map (fun x => -x)

/-- `block[selector]` removing the axes listed in `drop` (all of size one, index 0) -/
def squeezeK (b : Blk R) (keep : List Nat) : Blk R := ⟨permuted b.shape keep, b.data⟩

/-- `block[..., None, ...]` inserting a size-one axis at `axis` -/
def expandK (b : Blk R) (axis : Nat) : Blk R := ⟨b.shape.take axis ++ [1] ++ b.shape.drop axis, b.data⟩

def sumAll [Zero R] [Add R] (b : Blk R) : R := b.data.foldl (· + ·) 0

def isZero [Zero R] [BEq R] (b : Blk R) : Bool := b.data.all (· == 0)

end Blk
end SymmModel
