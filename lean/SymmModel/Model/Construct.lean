/-
  SymmModel.Model.Construct — the ways of building an array.
  Python: symmray/abelian_core.py  __init__ (:1071), get_class_symmetry (:1098 and the static
  subclasses), from_fill_fn (:1400), from_blocks (:1490), from_dense (:1551).
-/
import SymmModel.Model.Arr
namespace SymmModel

variable {R : Type}

/-- `cls.get_class_symmetry(symmetry)`: `static` is the class's fixed symmetry, if any -/
def classSymmetry (static : Option Sym) (arg : Option Sym) : Except Err Sym :=
  match static, arg with
  | none, none => throw Err.value                    -- "Symmetry must be given."
  | none, some s => pure s
  | some s, none => pure s
  | some s, some t => if s == t then pure s else throw Err.value

/-- `AbelianArray.__init__`: the charge defaults to the signed combination of the first stored
    sector, or to the identity when there are no blocks -/
def construct (sym : Sym) (fermi : Bool) (indices : List Index) (charge : Option Charge)
    (blocks : List (Sector × Blk R)) (oddpos : List (Int × Bool) := []) : Except Err (Arr R) := do
  let blocks := adict blocks
  let charge := match charge with
    | some c => c
    | none => match blocks with
      | (s, _) :: _ => Arr.sectorCharge sym (indices.map Index.dual) s
      | [] => sym.zero
  -- `oddpos_parse`: an odd array needs a label
  if fermi && sym.parity charge && oddpos.isEmpty then throw Err.value
  pure { sym, fermi, indices, charge, blocks, phases := [], oddpos := oddpos }

/-- `from_blocks(blocks, duals, charge, symmetry)` -/
def fromBlocks (sym : Sym) (fermi : Bool) (blocks : List (Sector × Blk R)) (duals : List Bool)
    (charge : Option Charge) (oddpos : List (Int × Bool) := []) : Except Err (Arr R) := do
  let charge := charge.getD sym.zero
  let ndim ← match blocks with
    | (s, _) :: _ => pure s.length
    | [] => throw Err.other                          -- StopIteration
  let mut maps : List (List (Charge × Nat)) := List.replicate ndim []
  for (sector, b) in blocks do
    for ((c, d), i) in (sector.zip b.shape).zipIdx do
      let m := maps.getD i []
      match alookup m c with
      | none => maps := maps.set i (m ++ [(c, d)])
      | some d0 => if d != d0 then throw Err.value
  if duals.length != ndim then throw Err.value
  construct sym fermi (List.zipWith (fun m d => Index.plain m d) maps duals) (some charge) blocks oddpos

/-- positions of each charge along one dense axis, charges in first-appearance order -/
def chargeGroups (labels : List Charge) : List (Charge × List Nat) :=
  labels.zipIdx.foldl (fun acc (c, i) =>
    match alookup acc c with
    | none => acc ++ [(c, [i])]
    | some l => ainsert acc c (l ++ [i])) []

/-- `from_dense(array, index_maps, duals, charge, symmetry)`: `maps[i][p]` is the charge label of
    dense position `p` along axis `i` -/
def fromDense [Zero R] (sym : Sym) (fermi : Bool) (dense : Blk R) (maps : List (List Charge))
    (duals : List Bool) (charge : Option Charge) (oddpos : List (Int × Bool) := []) :
    Except Err (Arr R) := do
  let charge := charge.getD sym.zero
  if maps.length != dense.shape.length || duals.length != dense.shape.length then throw Err.index
  if (List.zipWith (fun (m : List Charge) d => m.length != d) maps dense.shape).any id then throw Err.key
  let groups := maps.map chargeGroups
  let sectors := cartesian (groups.map (fun g => g.map (·.1)))
  let blocks := sectors.filterMap (fun sector =>
    if Arr.sectorCharge sym duals sector == charge then
      let pos : List (List Nat) := List.zipWith (fun g c => (alookup g c).getD []) groups sector
      some (sector, Blk.ofFn (pos.map List.length)
        (fun i => dense.get (List.zipWith (fun (p : List Nat) k => p.getD k 0) pos i)))
    else none)
  let indices := List.zipWith (fun g d => Index.plain (g.map (fun (c, l) => (c, l.length))) d) groups duals
  construct sym fermi indices (some charge) blocks oddpos

/-- `from_fill_fn(fill_fn, indices, charge, symmetry)` with `fill sector shape` giving each block -/
def fromFillFn (sym : Sym) (fermi : Bool) (indices : List Index) (charge : Option Charge)
    (fill : Sector → List Nat → Blk R) (oddpos : List (Int × Bool) := []) : Except Err (Arr R) := do
  let charge := charge.getD sym.zero
  let a ← construct sym fermi indices (some charge) ([] : List (Sector × Blk R)) oddpos
  let secs := a.genValidSectors
  let blocks ← secs.mapM (fun s => match Arr.blockShape? indices s with
    | some shp => pure (s, fill s shp)
    | none => throw Err.key)
  pure { a with blocks := blocks }

end SymmModel
