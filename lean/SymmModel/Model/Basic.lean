/-
  SymmModel.Model.Basic — list/arith utilities shared by the whole model.
  Import-free (core Lean only) so that the driver can be compiled to a native executable.

  Python counterparts (symmray/abelian_core.py): `permuted`, `without`, `replace_with_seq`,
  `accum_for_split`; numpy's C-order `ravel_multi_index` / `unravel_index`.
-/
namespace SymmModel

/-- `permuted(it, perm)`: elements of `l` in the order given by `perm`.  Out-of-range
    entries of `perm` are dropped (Python raises there; every caller guards). -/
def permuted {α : Type} (l : List α) (perm : List Nat) : List α :=
  perm.filterMap (fun p => l[p]?)

/-- `without(it, remove)`: drop the positions listed in `remove`. -/
def without {α : Type} (l : List α) (remove : List Nat) : List α :=
  (l.zipIdx.filter (fun p => !remove.contains p.2)).map (·.1)

/-- `replace_with_seq(it, index, seq)` -/
def replaceWithSeq {α : Type} (l : List α) (i : Nat) (seq : List α) : List α :=
  l.take i ++ seq ++ l.drop (i + 1)

def prod : List Nat → Nat
  | [] => 1
  | d :: ds => d * prod ds

def sumN : List Nat → Nat
  | [] => 0
  | d :: ds => d + sumN ds

/-- C-order flat position of a multi-index. -/
def ravel : List Nat → List Nat → Nat
  | [], _ => 0
  | _ :: _, [] => 0
  | _ :: ds, i :: is => i * prod ds + ravel ds is

/-- inverse of `ravel` on the box. -/
def unravel : List Nat → Nat → List Nat
  | [], _ => []
  | _ :: ds, n => (n / prod ds) :: unravel ds (n % prod ds)

/-- all multi-indices of the box `shape` in C order. -/
def allIdx : List Nat → List (List Nat)
  | [] => [[]]
  | d :: ds => (List.range d).flatMap (fun i => (allIdx ds).map (fun r => i :: r))

/-- multi-index `i` lies in the box `shape`. -/
def inBox : List Nat → List Nat → Bool
  | [], [] => true
  | d :: ds, i :: is => decide (i < d) && inBox ds is
  | _, _ => false

/-- association-list lookup (Python `dict.get`). -/
def alookup {κ β : Type} [BEq κ] : List (κ × β) → κ → Option β
  | [], _ => none
  | (k, v) :: rest, k0 => if k == k0 then some v else alookup rest k0

/-- Python `d[k] = v` on an insertion-ordered dict: overwrite in place or append. -/
def ainsert {κ β : Type} [BEq κ] : List (κ × β) → κ → β → List (κ × β)
  | [], k0, v0 => [(k0, v0)]
  | (k, v) :: rest, k0, v0 => if k == k0 then (k, v0) :: rest else (k, v) :: ainsert rest k0 v0

/-- Python `d.pop(k, None)` -/
def aerase {κ β : Type} [BEq κ] : List (κ × β) → κ → List (κ × β)
  | [], _ => []
  | (k, v) :: rest, k0 => if k == k0 then rest else (k, v) :: aerase rest k0

/-- Python `dict(pairs)`: later duplicates overwrite earlier ones, first position kept. -/
def adict {κ β : Type} [BEq κ] (ps : List (κ × β)) : List (κ × β) :=
  ps.foldl (fun acc p => ainsert acc p.1 p.2) []

def akeys {κ β : Type} (l : List (κ × β)) : List κ := l.map (·.1)

/-- index of first occurrence (Python `list.index` / `tuple.index`), `none` if absent. -/
def indexOf? {α : Type} [BEq α] : List α → α → Option Nat
  | [], _ => none
  | x :: xs, a => if x == a then some 0 else (indexOf? xs a).map (· + 1)

/-- prefix sums: `accum_for_split` start offsets. -/
def offsets : List Nat → List Nat
  | [] => []
  | d :: ds => 0 :: (offsets ds).map (· + d)

/-- insertion into a sorted list, before the first element that is not smaller (stable when
    elements are inserted right-to-left, as `isort` does). -/
def insertSorted {α : Type} (lt : α → α → Bool) (a : α) : List α → List α
  | [] => [a]
  | b :: bs => if lt b a then b :: insertSorted lt a bs else a :: b :: bs

/-- stable insertion sort; Python's `sorted` on a total order gives the same list. -/
def isort {α : Type} (lt : α → α → Bool) : List α → List α
  | [] => []
  | a :: as => insertSorted lt a (isort lt as)

def isSortedStrict {α : Type} (lt : α → α → Bool) : List α → Bool
  | [] => true
  | [_] => true
  | a :: b :: rest => lt a b && isSortedStrict lt (b :: rest)

def allDistinct {α : Type} [BEq α] : List α → Bool
  | [] => true
  | a :: as => !as.contains a && allDistinct as

/-- cartesian product of a list of lists, first factor slowest (itertools.product). -/
def cartesian {α : Type} : List (List α) → List (List α)
  | [] => [[]]
  | l :: ls => l.flatMap (fun a => (cartesian ls).map (fun r => a :: r))

end SymmModel
