/-
  SymmModel.Model.DType — element types of blocks and numpy's promotion rules for them.
  Used by property C20: every kernel symmray calls either keeps the dtype of its operand,
  promotes two operands (`promote`), takes real parts (`realPart`: singular values,
  eigenvalues, norms) or casts into an existing destination (`castInto`: slice assignment).
-/
namespace SymmModel

inductive DType where
  | f32 | f64 | c64 | c128
  deriving DecidableEq, Repr, Inhabited

namespace DType

def isComplex : DType → Bool
  | c64 => true | c128 => true | _ => false

def isDouble : DType → Bool
  | f64 => true | c128 => true | _ => false

def mk (cplx dbl : Bool) : DType :=
  match cplx, dbl with
  | false, false => f32 | false, true => f64 | true, false => c64 | true, true => c128

/-- `np.promote_types` restricted to the four floating dtypes -/
def promote (a b : DType) : DType := mk (a.isComplex || b.isComplex) (a.isDouble || b.isDouble)

/-- dtype of `np.abs`, singular values, eigenvalues of a Hermitian block -/
def realPart (a : DType) : DType := mk false a.isDouble

/-- `dest[...] = src` keeps the destination dtype; the imaginary part is dropped exactly when a
    complex source is written into a real destination -/
def castInto (dest _src : DType) : DType := dest
def losesImag (dest src : DType) : Bool := src.isComplex && !dest.isComplex

/-- dtype of `np.zeros(shape)` when no dtype is passed -/
def zerosDefault : DType := f64

def name : DType → String
  | f32 => "float32" | f64 => "float64" | c64 => "complex64" | c128 => "complex128"

def ofName? : String → Option DType
  | "float32" => some f32 | "float64" => some f64 | "complex64" => some c64 | "complex128" => some c128
  | _ => none

end DType

/-- abstract dtype semantics of the kernels by which symmray builds result blocks.  `ex` is the
    dtype of the example block (`get_any_array`) that symmray passes on to `zeros`. -/
inductive DOp where
  | keep                       -- transpose, reshape, slice, conj, neg, scalar multiply by a real
  | binary                     -- a + b, a * b, tensordot(a, b), concatenate
  | zerosLike                  -- zeros(shape, dtype=ex.dtype)
  | insertInto                 -- zeros(…, dtype=ex.dtype)[slice] = block
  | real                       -- singular values, eigenvalues, abs
  deriving DecidableEq, Repr

def DOp.result (op : DOp) (ex : DType) (args : List DType) : DType :=
  match op, args with
  | .keep, a :: _ => a
  | .binary, a :: rest => rest.foldl DType.promote a
  | .zerosLike, _ => ex
  | .insertInto, _ => ex
  | .real, a :: _ => a.realPart
  | _, [] => ex

end SymmModel
