/-
  SymmModel.Model.Fermi — fermionic arrays: lazily tracked signs, odd-position labels and
  the order of sign operations around the abelian kernels.
  Python: symmray/fermionic_core.py.
-/
import SymmModel.Model.Tdot
namespace SymmModel

variable {R : Type}

namespace Arr

def parities (a : Arr R) (sector : Sector) : List Bool := sector.map a.sym.parity

def getPhase (a : Arr R) (sector : Sector) : Int := (alookup a.phases sector).getD 1

/-- store a phase the way the code does: trivial phases are removed, `-1` is recorded -/
def setPhase (phases : List (Sector × Int)) (sector : Sector) (p : Int) : List (Sector × Int) :=
  if p == 1 then aerase phases sector else ainsert phases sector p

/-- `FermionicArray.transpose(axes, phase)` -/
def transposeF [Zero R] (a : Arr R) (axes : List Nat) (phase : Bool := true) : Arr R :=
  let newPhases :=
    if phase then
      adict (a.sectors.filterMap (fun s =>
        let np := a.getPhase s * koszul (a.parities s) (some axes)
        if np == -1 then some (permuted s axes, (-1 : Int)) else none))
    else adict (a.phases.map (fun (s, p) => (permuted s axes, p)))
  ({ a with phases := newPhases } : Arr R).transposeA axes

/-- `phase_flip(*axs)` -/
def phaseFlip (a : Arr R) (axs : List Nat) : Arr R :=
  if axs.isEmpty then a else
  { a with phases := a.sectors.foldl (fun ph s =>
      let odd := ((axs.filter (fun ax => a.sym.parity (s.getD ax (0, 0)))).length % 2 == 1)
      if odd then
        let np := - (alookup ph s).getD 1
        if np == 1 then aerase ph s else ainsert ph s np
      else ph) a.phases }

/-- `phase_transpose(axes)`; `none` = virtual reversal of all axes -/
def phaseTranspose (a : Arr R) (axes : Option (List Nat)) : Arr R :=
  { a with phases := a.sectors.foldl (fun ph s =>
      setPhase ph s ((alookup ph s).getD 1 * koszul (a.parities s) axes)) a.phases }

/-- `phase_sector(sector)` -/
def phaseSector (a : Arr R) (sector : Sector) : Arr R :=
  let np := - a.getPhase sector
  { a with phases := if np == -1 then ainsert (aerase a.phases sector) sector (-1)
                     else aerase a.phases sector }

/-- `phase_global()` -/
def phaseGlobal (a : Arr R) : Arr R :=
  { a with phases := a.sectors.foldl (fun ph s =>
      let np := - (alookup ph s).getD 1
      if np == -1 then ainsert (aerase ph s) s (-1) else aerase ph s) a.phases }

/-- `phase_sync()` : multiply pending signs into the blocks -/
def phaseSync [Neg R] (a : Arr R) : Arr R :=
  { a with blocks := a.blocks.map (fun (s, b) =>
             if alookup a.phases s == some (-1) then (s, b.negK) else (s, b)),
           phases := [] }

def oddposDag (o : List (Int × Bool)) : List (Int × Bool) := o.reverse.map (fun (l, d) => (l, !d))

/-- `FermionicArray.conj(phase_permutation, phase_dual)` -/
def conjF [Conj R] (a : Arr R) (phasePerm : Bool := true) (phaseDual : Bool := false) : Arr R :=
  let newIdx := a.indices.map Index.conj
  let axsConj := (newIdx.zipIdx.filter (fun p => !p.1.dual)).map (·.2)
  let phases :=
    if phasePerm || phaseDual then
      a.sectors.foldl (fun ph s =>
        let par := a.parities s
        let p0 := (alookup ph s).getD 1
        let p1 := if phasePerm then p0 * koszul par none else p0
        let p2 := if phaseDual && (axsConj.filter (fun ax => par.getD ax false)).length % 2 == 1
                  then -p1 else p1
        setPhase ph s p2) a.phases
    else a.phases
  let new : Arr R :=
    { a with blocks := a.blocks.map (fun (s, b) => (s, b.conjK)),
             phases := phases,
             indices := newIdx,
             charge := a.sym.sign a.charge true,
             oddpos := oddposDag a.oddpos }
  if phasePerm && new.parity && new.oddpos.length % 2 == 1 then new.phaseGlobal else new

/-- `FermionicArray.dagger(phase_dual)` -/
def daggerF [Zero R] [Conj R] (a : Arr R) (phaseDual : Bool := false) : Arr R :=
  let newIdx := a.indices.reverse.map Index.conj
  let rev := reversedAxes a.ndim
  let new : Arr R :=
    { a with blocks := a.blocks.map (fun (s, b) => (s.reverse, (b.conjK).transposeK rev)),
             phases := a.blocks.filterMap (fun (s, _) =>
               if a.getPhase s == -1 then some (s.reverse, (-1 : Int)) else none),
             indices := newIdx,
             charge := a.sym.sign a.charge true,
             oddpos := oddposDag a.oddpos }
  let new := if new.parity && new.oddpos.length % 2 == 1 then new.phaseGlobal else new
  if phaseDual then
    -- (repaired behaviour: the same legs as `conj(phase_dual=True)` flips, i.e. the legs
    --  that were bra-like on the input)
    new.phaseFlip ((newIdx.zipIdx.filter (fun p => !p.1.dual)).map (·.2))
  else new

/-- `FermionicArray.fuse(*axes_groups, expand_empty)` -/
def fuseF [Zero R] [Neg R] (a : Arr R) (groups : List (List Nat)) (mode : FuseMode := .insert)
    (expandEmpty : Bool := true) : Except Err (Arr R) := do
  let nonEmpty := groups.filter (fun g => !g.isEmpty)
  let expand := (groups.zipIdx.filter (fun p => p.1.isEmpty)).map (·.2)
  let (x, newGroups) ← if nonEmpty.isEmpty then pure (a, nonEmpty) else do
    let gi := calcFuseGroupInfo nonEmpty a.duals
    let x := a.transposeF gi.perm
    let newGroups ← nonEmpty.mapM (fun g => g.mapM (fun ax => match indexOf? gi.perm ax with
      | some k => pure k
      | none => throw Err.value))
    let dualGroups := newGroups.filter (fun g => (x.indices.getD (g.headD 0) default).dual)
    let axesFlip := dualGroups.flatMap (fun g => g.filter (fun ax => !(x.indices.getD ax default).dual))
    let x := x.phaseFlip axesFlip
    let x := if dualGroups.isEmpty then x else
      let vperm := (List.range x.ndim).map (fun ax =>
        match dualGroups.find? (fun g => g.contains ax) with
        | some g => match indexOf? g ax with
                    | some k => g.reverse.getD k ax
                    | none => ax
        | none => ax)
      x.phaseTranspose (some vperm)
    let x := x.phaseSync
    let x ← fuseCore x newGroups mode
    pure (x, newGroups)
  if expandEmpty && !expand.isEmpty then
    match newGroups.flatten with
    | [] => throw Err.value
    | g :: gs =>
      let g0 := gs.foldl min g
      pure (expand.foldl (fun x ax => x.expandDims (g0 + ax) none none) x)
  else pure x

/-- `FermionicArray.unfuse(axis)` -/
def unfuseF [Zero R] [Neg R] (a : Arr R) (axis : Nat) : Except Err (Arr R) := do
  let ix ← match a.indices[axis]? with
    | some ix => pure ix
    | none => throw Err.index
  let new ← unfuseA a.phaseSync axis
  if ix.dual then
    let subs ← match ix.sub with
      | some (subs, _) => pure subs
      | none => throw Err.attr
    let nnew := subs.length
    let axesFlip := (subs.zipIdx.filter (fun p => !p.1.dual)).map (fun p => axis + p.2)
    let vperm := (List.range (a.ndim + nnew - 1)).map (fun ax =>
      if axis ≤ ax && ax < axis + nnew then axis + nnew - (ax - axis) - 1 else ax)
    pure ((new.phaseFlip axesFlip).phaseTranspose (some vperm))
  else pure new

def unfuseAllF [Zero R] [Neg R] (a : Arr R) : Except Err (Arr R) := unfuseAllWith unfuseF a

end Arr

/-! ### odd-position labels -/

/-- `FermionicOperator.__lt__` on `(label, dual)` -/
def oddLt (a b : Int × Bool) : Bool :=
  if a.2 then (if b.2 then a.1 > b.1 else true)
  else (if b.2 then false else a.1 < b.1)

/-- the scan of `resolve_combined_oddpos` as a zipper: `pre` = elements before the cursor,
    reversed; `post` = elements from the cursor on.  `i = max(0, i-1)` moves one element back
    from `pre` to `post` when there is one. -/
def resolveScan : Nat → List (Int × Bool) → List (Int × Bool) → Int →
    Except Err (List (Int × Bool) × Int)
  | 0, _, _, _ => throw Err.other
  | _ + 1, pre, [], ph => pure (pre.reverse, ph)
  | _ + 1, pre, [a], ph => pure ((a :: pre).reverse, ph)
  | fuel + 1, pre, a :: b :: rest, ph =>
    if a.1 == b.1 then
      if a.2 != b.2 then
        let ph' := if b.2 then -ph else ph
        match pre with
        | [] => resolveScan fuel [] rest ph'
        | p :: pre' => resolveScan fuel pre' (p :: rest) ph'
      else throw Err.value
    else if oddLt b a then
      match pre with
      | [] => resolveScan fuel [] (b :: a :: rest) (-ph)
      | p :: pre' => resolveScan fuel pre' (p :: b :: a :: rest) (-ph)
    else resolveScan fuel (a :: pre) (b :: rest) ph

/-- `resolve_combined_oddpos(left, right, new)` -/
def resolveCombinedOddpos (left right new : Arr R) : Except Err (Arr R) := do
  if left.oddpos.isEmpty && right.oddpos.isEmpty then
    return { new with oddpos := [] }
  let odd := left.oddpos ++ right.oddpos
  let ph0 : Int := if left.parity && right.oddpos.length % 2 == 1 then -1 else 1
  let n := odd.length
  let (out, ph) ← resolveScan (n * n + 2 * n + 4) [] odd ph0
  let new := if ph == -1 then new.phaseGlobal else new
  pure { new with oddpos := out }

namespace Arr

/-- `tensordot_fermionic(a, b, axes, preserve_array=True, mode=…)` -/
def tensordotF [Zero R] [Add R] [Mul R] [Neg R] (a b : Arr R) (axes : AxesArg) (mode : TdotMode) :
    Except Err (Arr R) := do
  let (axesA, axesB) ← parseAxes a.ndim b.ndim axes
  let leftAxes := without (List.range a.ndim) axesA
  let rightAxes := without (List.range b.ndim) axesB
  let ncon := axesA.length
  let a1 := a.transposeF (leftAxes ++ axesA)
  let b1 := b.transposeF (axesB ++ rightAxes)
  let b2 := b1.phaseTranspose (some ((List.range ncon).reverse ++ (List.range b1.ndim).drop ncon))
  let newAxesA := (List.range a.ndim).drop (a.ndim - ncon)
  let newAxesB := List.range ncon
  let (a3, b3) :=
    if a1.size ≤ b2.size then
      (a1.phaseFlip (newAxesA.filter (fun ax => !(a1.indices.getD ax default).dual)), b2)
    else
      (a1, b2.phaseFlip (newAxesB.filter (fun ax => (b2.indices.getD ax default).dual)))
  let a4 := a3.phaseSync
  let b4 := b3.phaseSync
  let c ← tensordotA a4 b4 (.pair (newAxesA.map Int.ofNat) (newAxesB.map Int.ofNat)) mode
  resolveCombinedOddpos a4 b4 c

/-- `FermionicArray.__matmul__` (array result; the harness extracts the scalar) -/
def matmulF [Zero R] [Add R] [Mul R] [Neg R] (a b : Arr R) : Except Err (Arr R) := do
  if a.ndim > 2 || b.ndim > 2 then throw Err.value
  let b1 ← match b.indices[0]? with
    | some ix => pure (if ix.dual then b.phaseFlip [0] else b)
    | none => throw Err.index
  let a2 := a.phaseSync
  let b2 := b1.phaseSync
  let c ← matmulA a2 b2
  resolveCombinedOddpos a2 b2 c

/-- `FermionicArray.trace` -/
def traceF [Zero R] [Add R] [Neg R] (a : Arr R) : Except Err R :=
  match a.indices with
  | [l, r] =>
    if l.dual && !r.dual then traceA a.phaseSync
    else if !l.dual && r.dual then traceA (a.phaseFlip [0]).phaseSync
    else throw Err.value
  | _ => throw Err.value

/-- `FermionicArray.einsum(eq, preserve_array=True)` -/
def einsumF [Zero R] [Add R] [Neg R] (a : Arr R) (lhs rhs : List Nat) : Except Err (Arr R) := do
  if lhs.length != a.ndim then throw Err.index
  -- key(i) = (rhs.find(c), c, not dual): sort axes by it (stable)
  let key (i : Nat) : Int × Nat × Bool :=
    let c := lhs.getD i 0
    ((match indexOf? rhs c with | some j => (j : Int) | none => -1), c,
     !(a.indices.getD i default).dual)
  let klt (x y : Int × Nat × Bool) : Bool :=
    x.1 < y.1 || (x.1 == y.1 && (x.2.1 < y.2.1 || (x.2.1 == y.2.1 && (!x.2.2 && y.2.2))))
  let perm := isort (fun i j => klt (key i) (key j)) (List.range a.ndim)
  let x := (a.transposeF perm).phaseSync
  einsumA x (permuted lhs perm) rhs

/-- `FermionicArray.to_dense` -/
def toDenseF [Zero R] [Neg R] (a : Arr R) : Except Err (Blk R) := toDenseA a.phaseSync

end Arr
end SymmModel
