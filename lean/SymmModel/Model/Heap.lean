/-
  SymmModel.Model.Heap — a small HEAP MODEL of symmray's object graph and effects (property C14).

  The pure model (`Arr`, …) cannot speak about aliasing.  Here objects have identity:

    * array objects  (`AbelianArray` / `FermionicArray` / `BlockVector` instances): the slots
      `_indices` (immutable tuple → abstract value), `_charge`, `_blocks : DictId`,
      `_phases : Option DictId` (`none` for non-fermionic arrays and block vectors), `_oddpos`
      (immutable tuple → abstract value);
    * dict objects: an *ordered* association list (CPython insertion order) from an abstract key
      (sector / charge) to a value: a buffer id (block dicts) or a sign (phase dicts);
    * block buffers: never written after they are published, hence modelled as opaque ids whose
      provenance (kernel tag, argument buffers) is recorded in an append-only table.  A kernel
      result may be a *view* of an argument buffer; that is harmless because no effect writes into
      an existing buffer.  (`_fuse_blocks_via_insert` writes into zeros it has just allocated and
      not yet published: one `newBuffer` whose arguments are the inserted sub-blocks.)

  Primitive effects are those CPython performs: `allocArray`, `newDict`, `copyDict`
  (`dict.copy()` / `dict(d)`: new dict object, same values), `rebindField` (`modify`, `x._f = …`),
  `dictSet / dictPop / dictPopItem / dictClear / dictUpdate` (in-place mutation of ONE dict object),
  `newBuffer`.  Every public operation is a short program over these effects transcribed from the
  code's `new = self if inplace else self.copy()` structure.

  Core Lean only.
-/
namespace SymmModel.Heap

abbrev ObjId := Nat
abbrev DictId := ObjId
abbrev BufId := Nat
/-- abstract hashable dict key (a sector or a charge) -/
abbrev Key := Nat
/-- dict value: a buffer id in block dicts, a sign in phase dicts -/
abbrev Val := Int
/-- ordered association list with unique keys = a CPython dict -/
abbrev Dict := List (Key × Val)

namespace Dict
def get? (d : Dict) (k : Key) : Option Val := (d.find? (fun e => e.1 == k)).map (·.2)
def getD (d : Dict) (k : Key) (v : Val) : Val := (get? d k).getD v
def has (d : Dict) (k : Key) : Bool := d.any (fun e => e.1 == k)
def keys (d : Dict) : List Key := d.map (·.1)
/-- `d[k] = v`: keeps the position of an existing key, appends a new one -/
def set : Dict → Key → Val → Dict
  | [], k, v => [(k, v)]
  | (k', v') :: r, k, v => if k' == k then (k, v) :: r else (k', v') :: set r k v
/-- `d.pop(k, default)` / `del d[k]` -/
def pop (d : Dict) (k : Key) : Dict := d.filter (fun e => !(e.1 == k))
/-- `d.popitem()` (LIFO) -/
def popItem (d : Dict) : Dict := d.dropLast
/-- `d.update(src)` -/
def update (d : Dict) (src : Dict) : Dict := src.foldl (fun acc e => set acc e.1 e.2) d
end Dict

structure ArrObj where
  indices : Nat
  charge : Int
  blocks : DictId
  phases : Option DictId
  oddpos : Nat
  deriving DecidableEq, Repr, Inhabited

inductive Obj
  | arr (a : ArrObj)
  | dict (d : Dict)
  deriving DecidableEq, Repr, Inhabited

/-- objects are addressed by their position (allocation appends); `bufs` is the append-only table of
    immutable buffers: `bufs[b] = (kernel tag, argument buffers)` -/
structure Heap where
  objs : List Obj := []
  bufs : List (Nat × List BufId) := []
  deriving DecidableEq, Repr, Inhabited

namespace Heap
def size (h : Heap) : Nat := h.objs.length
def get? (h : Heap) (i : ObjId) : Option Obj := h.objs[i]?
def arrOf (h : Heap) (x : ObjId) : Option ArrObj :=
  match h.get? x with | some (.arr a) => some a | _ => none
def dictOf? (h : Heap) (d : DictId) : Option Dict :=
  match h.get? d with | some (.dict l) => some l | _ => none
def dictOf (h : Heap) (d : DictId) : Dict := (h.dictOf? d).getD []
end Heap

/-! ## primitive effects -/

def alloc (h : Heap) (o : Obj) : Heap × ObjId := ({ h with objs := h.objs ++ [o] }, h.objs.length)
/-- `cls.__new__(cls)` + slot assignments, or `cls(...)` -/
def allocArray (h : Heap) (a : ArrObj) : Heap × ObjId := alloc h (.arr a)
/-- `{}` / a dict comprehension / `dict(pairs)` -/
def newDict (h : Heap) (d : Dict) : Heap × DictId := alloc h (.dict d)
/-- `d.copy()` / `dict(d)`: a NEW dict object holding the same values (block references) -/
def copyDict (h : Heap) (d : DictId) : Heap × DictId := newDict h (h.dictOf d)
/-- overwrite the object stored at an existing address -/
def write (h : Heap) (i : ObjId) (o : Obj) : Heap := { h with objs := h.objs.set i o }
/-- in-place mutation of ONE dict object (no-op if `d` is not a dict: Python raises) -/
def updDict (h : Heap) (d : DictId) (f : Dict → Dict) : Heap :=
  match h.get? d with
  | some (.dict l) => write h d (.dict (f l))
  | _ => h
def dictSet (h : Heap) (d : DictId) (k : Key) (v : Val) : Heap := updDict h d (fun l => l.set k v)
def dictPop (h : Heap) (d : DictId) (k : Key) : Heap := updDict h d (fun l => l.pop k)
def dictPopItem (h : Heap) (d : DictId) : Heap := updDict h d Dict.popItem
def dictClear (h : Heap) (d : DictId) : Heap := updDict h d (fun _ => [])
def dictUpdate (h : Heap) (d : DictId) (src : Dict) : Heap := updDict h d (fun l => l.update src)

inductive Field
  | indices (v : Nat)
  | charge (c : Int)
  | blocks (d : DictId)
  | phases (d : DictId)
  | oddpos (o : Nat)

def Field.apply (f : Field) (a : ArrObj) : ArrObj :=
  match f with
  | .indices v => { a with indices := v }
  | .charge c => { a with charge := c }
  | .blocks d => { a with blocks := d }
  | .phases d => { a with phases := some d }
  | .oddpos o => { a with oddpos := o }

/-- `x._f = v` (what `modify` does): rebinds one slot of ONE array object -/
def rebindField (h : Heap) (x : ObjId) (f : Field) : Heap :=
  match h.get? x with
  | some (.arr a) => write h x (.arr (f.apply a))
  | _ => h

/-- result of a numpy kernel: a fresh immutable buffer -/
def newBuffer (h : Heap) (tag : Nat) (args : List BufId) : Heap × BufId :=
  ({ h with bufs := h.bufs ++ [(tag, args)] }, h.bufs.length)

/-! ## abstract content of an array object (what the property observes) -/

structure Content where
  indices : Nat
  charge : Int
  blocks : Dict
  phases : Option Dict
  oddpos : Nat
  deriving DecidableEq, Repr, Inhabited

def content (h : Heap) (x : ObjId) : Option Content :=
  match h.arrOf x with
  | some a => some { indices := a.indices, charge := a.charge, blocks := h.dictOf a.blocks,
                     phases := a.phases.map h.dictOf, oddpos := a.oddpos }
  | none => none

/-- the dict objects an array object points to -/
def dictsOfArr (a : ArrObj) : List DictId := a.blocks :: a.phases.toList
def dictsOf (h : Heap) (x : ObjId) : List DictId :=
  match h.arrOf x with | some a => dictsOfArr a | none => []

/-- array object → itself and its dicts -/
def reachable (h : Heap) (roots : List ObjId) : List ObjId :=
  roots.flatMap (fun x => x :: dictsOf h x)
/-- only the mutable dict objects -/
def reachableDicts (h : Heap) (roots : List ObjId) : List ObjId := roots.flatMap (dictsOf h)

/-! ## effects relative to one array object (`self.…`) -/

/-- where the value stored under a key of a freshly built block dict comes from -/
inductive BufSrc
  | old (b : BufId)                          -- an existing buffer is stored again (shared, immutable)
  | kern (tag : Nat) (args : List BufId)     -- result of a kernel applied to existing buffers

/-- arguments of `modify(...)` / `copy_with(...)` as symmray's own code passes them: dict arguments
    are dicts the caller has just built (`new_blocks = {}` … / a comprehension) -/
structure Mods where
  indices : Option Nat := none
  charge : Option Int := none
  blocks : Option (List (Key × BufSrc)) := none
  phases : Option Dict := none

/-- build `{k: v, …}`: kernels run in iteration order, then the dict object is created -/
def buildEntries (h : Heap) : List (Key × BufSrc) → Heap × Dict
  | [] => (h, [])
  | (k, .old b) :: r => let (h1, d) := buildEntries h r; (h1, (k, (b : Int)) :: d)
  | (k, .kern tag args) :: r =>
    let (h1, b) := newBuffer h tag args
    let (h2, d) := buildEntries h1 r
    (h2, (k, (b : Int)) :: d)

def buildDict (h : Heap) (es : List (Key × BufSrc)) : Heap × DictId :=
  let (h1, d) := buildEntries h es
  newDict h1 (d.foldl (fun acc e => acc.set e.1 e.2) [])

/-- atomic in-place effects on the array object `self` -/
inductive Act
  | modify (m : Mods)                                  -- `self.modify(indices=…, charge=…, blocks=new, phases=new)`
  | setOddpos (o : Nat)                                -- `self._oddpos = …`
  | bKern (k : Key) (tag : Nat) (args : List BufId)    -- `self._blocks[k] = kernel(args)`
  | bPut (k : Key) (b : BufId)                         -- `self._blocks[k] = <existing buffer>`
  | bPop (k : Key)                                     -- `del self._blocks[k]` / `.pop(k)`
  | bUpdate (src : Dict)                               -- `self._blocks.update(src)`
  | pSet (k : Key) (s : Int)                           -- `self._phases[k] = s`
  | pPop (k : Key)                                     -- `self._phases.pop(k, None)`
  | pPopItem                                           -- `self._phases.popitem()`
  | pClear
  | pCopyThen (f : Dict → Dict)                        -- `t = self.phases.copy(); <mutate t>; self.modify(phases=t)`

def onPhases (h : Heap) (o : ArrObj) (k : DictId → Heap) : Heap :=
  match o.phases with | some p => k p | none => h

/-- several slot assignments on one array object -/
def rebinds (h : Heap) (x : ObjId) (fs : List Field) : Heap := fs.foldl (fun acc f => rebindField acc x f) h

/-- the `blocks=` argument: a dict the caller has just built -/
def argBlocks (h : Heap) (mb : Option (List (Key × BufSrc))) : Heap × Option DictId :=
  match mb with
  | some es => ((buildDict h es).1, some (buildDict h es).2)
  | none => (h, none)

/-- the `phases=` argument (only fermionic arrays have the slot) -/
def argPhases (h : Heap) (o : ArrObj) (mp : Option Dict) : Heap × Option DictId :=
  match mp, o.phases with
  | some d, some _ => ((newDict h d).1, some (newDict h d).2)
  | _, _ => (h, none)

def runModify (m : Mods) (h : Heap) (x : ObjId) (o : ArrObj) : Heap :=
  -- dict arguments are evaluated (built) before the call, then slots are rebound in the order of
  -- `FermionicArray.modify` / `AbelianArray.modify`
  let r1 := argBlocks h m.blocks
  let r2 := argPhases r1.1 o m.phases
  rebinds r2.1 x ((r2.2.map Field.phases).toList ++ (m.indices.map Field.indices).toList ++
    (m.charge.map Field.charge).toList ++ (r1.2.map Field.blocks).toList)

def runAct (a : Act) (h : Heap) (x : ObjId) : Heap :=
  match h.arrOf x with
  | none => h
  | some o =>
    match a with
    | .modify m => runModify m h x o
    | .setOddpos v => rebindField h x (.oddpos v)
    | .bKern k tag args => let (h1, b) := newBuffer h tag args; dictSet h1 o.blocks k b
    | .bPut k b => dictSet h o.blocks k b
    | .bPop k => dictPop h o.blocks k
    | .bUpdate src => dictUpdate h o.blocks src
    | .pSet k s => onPhases h o (fun p => dictSet h p k s)
    | .pPop k => onPhases h o (fun p => dictPop h p k)
    | .pPopItem => onPhases h o (fun p => dictPopItem h p)
    | .pClear => onPhases h o (fun p => dictClear h p)
    | .pCopyThen f => onPhases h o (fun p =>
        let (h1, t) := copyDict h p
        rebindField (updDict h1 t f) x (.phases t))

/-! ## commands over an environment of Python variables -/

/-- the block dict of a copy: the given freshly built one, or `self._blocks.copy()` -/
def blocksFor (h : Heap) (o : ArrObj) (mb : Option (List (Key × BufSrc))) : Heap × DictId :=
  match mb with
  | some es => buildDict h es
  | none => copyDict h o.blocks

/-- the sign dict of a copy: the given freshly built one, or `self.phases.copy()` -/
def phasesFor (h : Heap) (o : ArrObj) (mp : Option Dict) : Heap × Option DictId :=
  match o.phases with
  | none => (h, none)
  | some p =>
    match mp with
    | some d => ((newDict h d).1, some (newDict h d).2)
    | none => ((copyDict h p).1, some (copyDict h p).2)

/-- `self.copy_with(indices=…, charge=…, blocks=new, phases=new)` -/
def copyWithArr (h : Heap) (x : ObjId) (m : Mods) : Heap × ObjId :=
  match h.arrOf x with
  | none => newDict h []   -- not an array: Python raises; totalised to a fresh harmless object
  | some o =>
    let r1 := blocksFor h o m.blocks
    let r2 := phasesFor r1.1 o m.phases
    allocArray r2.1 { indices := m.indices.getD o.indices, charge := m.charge.getD o.charge,
                      blocks := r1.2, phases := r2.2, oddpos := o.oddpos }

/-- `self.copy()`: new array object, NEW block dict and NEW sign dict sharing the values
    (`AbelianArray.copy` + `FermionicArray.copy`; `BlockBase.copy` = `cls(self.blocks)` → `dict(blocks)`) -/
def copyArr (h : Heap) (x : ObjId) : Heap × ObjId :=
  match h.arrOf x with
  | none => newDict h []
  | some o =>
    let r1 := blocksFor h o none
    let r2 := phasesFor r1.1 o none
    allocArray r2.1 { o with blocks := r1.2, phases := r2.2 }

/-- `cls(indices, charge, blocks=d, phases=(), oddpos=…)` / `BlockVector(d)`: the caller's dict `d`
    is built, `__init__` stores `dict(d)` -/
def constructArr (h : Heap) (indices : Nat) (charge : Int) (es : List (Key × BufSrc))
    (fermi : Bool) (oddpos : Nat) : Heap × ObjId :=
  let r1 := buildDict h es
  let r2 := copyDict r1.1 r1.2
  let r3 : Heap × Option DictId :=
    if fermi then ((newDict r2.1 []).1, some (newDict r2.1 []).2) else (r2.1, none)
  allocArray r3.1 { indices := indices, charge := charge, blocks := r2.2, phases := r3.2, oddpos := oddpos }

abbrev Env := List ObjId

inductive Cmd
  | copy (src : Nat)
  | copyWith (src : Nat) (m : Mods)
  | construct (indices : Nat) (charge : Int) (es : List (Key × BufSrc)) (fermi : Bool) (oddpos : Nat)
  | alias (src : Nat)                     -- a variable (re)bound to an existing object
  | dictCopy (src : Nat)                  -- `t = x.blocks.copy()`
  | dictRef (src : Nat)                   -- `t = x.blocks`
  | act (tgt : Nat) (a : Act)             -- in-place effect on the array `env[tgt]`
  | dmut (tgt : Nat) (f : Dict → Dict)    -- in-place mutation of the bare dict `env[tgt]`
  -- effects that symmray's own code never performs but its internal-use API and the mutants can:
  | shareBlocks (tgt src : Nat)           -- `env[tgt]._blocks = env[src]._blocks`
  | sharePhases (tgt src : Nat)           -- `env[tgt]._phases = env[src]._phases`

def envGet (env : Env) (i : Nat) : ObjId := env.getD i 0

def runCmd (c : Cmd) (h : Heap) (env : Env) : Heap × Env :=
  match c with
  | .copy s => let (h1, x) := copyArr h (envGet env s); (h1, env ++ [x])
  | .copyWith s m => let (h1, x) := copyWithArr h (envGet env s) m; (h1, env ++ [x])
  | .construct i c es f o => let (h1, x) := constructArr h i c es f o; (h1, env ++ [x])
  | .alias s => (h, env ++ [envGet env s])
  | .dictCopy s =>
    match h.arrOf (envGet env s) with
    | some o => let (h1, d) := copyDict h o.blocks; (h1, env ++ [d])
    | none => let (h1, d) := newDict h []; (h1, env ++ [d])
  | .dictRef s =>
    match h.arrOf (envGet env s) with
    | some o => (h, env ++ [o.blocks])
    | none => (h, env ++ [envGet env s])
  | .act t a => (runAct a h (envGet env t), env)
  | .dmut t f => (updDict h (envGet env t) f, env)
  | .shareBlocks t s =>
    match h.arrOf (envGet env s) with
    | some o => (rebindField h (envGet env t) (.blocks o.blocks), env)
    | none => (h, env)
  | .sharePhases t s =>
    match h.arrOf (envGet env s) with
    | some o => (match o.phases with
        | some p => (rebindField h (envGet env t) (.phases p), env)
        | none => (h, env))
    | none => (h, env)

/-- what a program can observe of a variable -/
inductive Seen
  | arr (c : Content)
  | dict (d : Dict)
  | none
  deriving Inhabited

def see (h : Heap) (i : ObjId) : Seen :=
  match h.get? i with
  | some (.arr _) => match content h i with | some c => .arr c | none => .none
  | some (.dict d) => .dict d
  | none => .none

def Seen.toContent (s : Seen) : Content :=
  match s with | .arr c => c | _ => default
def Seen.toDict (s : Seen) : Dict :=
  match s with | .dict d => d | _ => []

abbrev View := List Seen
def View.at (v : View) (i : Nat) : Content := (v.getD i .none).toContent
def View.dictAt (v : View) (i : Nat) : Dict := (v.getD i .none).toDict

/-- effect programs: a command, or a continuation chosen after looking at the current values of the
    variables (loops over a dict's items, `if other.phases:` …) -/
inductive Prog
  | done
  | cmd (c : Cmd) (k : Prog)
  | read (f : View → Prog)

def Prog.run : Prog → Heap → Env → Heap × Env
  | .done, h, env => (h, env)
  | .cmd c k, h, env => let (h1, env1) := runCmd c h env; k.run h1 env1
  | .read f, h, env => (f (env.map (see h))).run h env

/-! ## in-place scripts: what the body of a method does to `self` after
    `new = self if inplace else self.copy()` -/

/-- effects on ONE target array; `read` looks at the target's current content and at the current
    values of the other (read-only) variables the method was given -/
inductive Script
  | nil
  | acts (as : List Act) (k : Script)
  | read (f : Content → View → Script)

def Script.seq : Script → Script → Script
  | .nil, q => q
  | .acts as k, q => .acts as (k.seq q)
  | .read f, q => .read (fun c v => (f c v).seq q)

/-- in-place effects on variable `t`, then `k` -/
def Prog.actsK (t : Nat) : List Act → Prog → Prog
  | [], k => k
  | a :: r, k => .cmd (.act t a) (Prog.actsK t r k)

/-- run the script on variable `t`; `others` are the variables it may look at -/
def Script.prog (t : Nat) (others : List Nat) : Script → Prog → Prog
  | .nil, k => k
  | .acts as s, k => Prog.actsK t as (s.prog t others k)
  | .read f, k => .read (fun v => (f (v.at t) (others.map (fun j => v.getD j .none))).prog t others k)

def Script.seqs : List Script → Script
  | [] => .nil
  | s :: r => s.seq (Script.seqs r)

/-- kernel tags (only their identity matters) -/
def tConj := 1
def tTranspose := 2
def tSlice := 3
def tFuse := 4
def tUnfuse := 5
def tNeg := 6
def tMul := 7
def tFn := 8
def tTdot := 9
def tZeros := 10
def tFactor := 11
def tConjT := 12

def Dict.mapKeys (fk : Key → Key) (d : Dict) : Dict := d.foldl (fun acc e => acc.set (fk e.1) e.2) []

namespace S  -- scripts of the in-place method bodies

/-- `BlockBase.apply_to_arrays(fn)` -/
def applyToArrays (tag : Nat) : Script :=
  .read fun c _ => .acts (c.blocks.map fun e => .bKern e.1 tag [e.2.toNat]) .nil

/-- the sign dict `FermionicArray._map_blocks` builds:
    `{fn_sector(s): p for s, p in self._phases.items() if s in self._blocks}` — only the entries of
    STORED blocks (membership in the block dict BEFORE it is re-keyed) are re-keyed; an entry left
    behind by a dropped block is discarded -/
def mapPhases (fk : Key → Key) (blocks p : Dict) : Dict :=
  Dict.mapKeys fk (p.filter fun e => blocks.has e.1)

/-- `_map_blocks(fn_block, fn_sector)`: the `FermionicArray` override (dynamic dispatch = presence
    of the `_phases` slot) first computes the new sign dict from the entries of the stored blocks
    (`mapPhases`, read off the block dict as it is on entry); `BlockBase._map_blocks` rebinds
    `_blocks` to a new dict; the override then rebinds `_phases` to the sign dict it computed.
    (The dict object is created by the `modify` act that binds it — after the new block dict instead
    of before it; both are fresh and unreachable from anything else until bound, so the order of the
    two allocations is not observable.) -/
def mapBlocks (fk : Key → Key) (tag : Nat) : Script :=
  .read fun c _ =>
    let mb : Act := .modify { blocks := some (c.blocks.map fun e => (fk e.1, .kern tag [e.2.toNat])) }
    match c.phases with
    | some p => .acts [mb, .modify { phases := some (mapPhases fk c.blocks p) }] .nil
    | none => .acts [mb] .nil

/-- `AbelianArray.conj` -/
def conjA (fi : Nat → Nat) (fc : Int → Int) : Script :=
  (applyToArrays tConj).seq <|
  .read fun c _ => .acts [.modify { indices := some (fi c.indices), charge := some (fc c.charge) }] .nil

/-- `AbelianArray.transpose` -/
def transposeA (fk : Key → Key) (fi : Nat → Nat) : Script :=
  .read fun c _ =>
    let m : Mods := { indices := some (fi c.indices)
                      blocks := some (c.blocks.map fun e => (fk e.1, .kern tTranspose [e.2.toNat])) }
    .acts [.modify m] .nil

/-- `AbelianArray.dagger` = `conj(inplace=inplace).transpose(inplace=True)` -/
def daggerA (fk : Key → Key) (fi fi' : Nat → Nat) (fc : Int → Int) : Script :=
  (conjA fi fc).seq (transposeA fk fi')

/-- `squeeze`: `_map_blocks` then `modify(indices=…)` -/
def squeeze (fk : Key → Key) (fi : Nat → Nat) : Script :=
  (mapBlocks fk tSlice).seq <| .read fun c _ => .acts [.modify { indices := some (fi c.indices) }] .nil

/-- `expand_dims`: `_map_blocks` then `modify(indices=…, charge=…)` -/
def expandDims (fk : Key → Key) (fi : Nat → Nat) (fc : Int → Int) : Script :=
  (mapBlocks fk tSlice).seq <|
  .read fun c _ => .acts [.modify { indices := some (fi c.indices), charge := some (fc c.charge) }] .nil

/-- the `modify(indices=new_indices, blocks=new_blocks)` of `_fuse_core(inplace=True)`: every new
    block is ONE fresh buffer (zeros + inserts, or a concatenation) computed from old blocks -/
def fuseMods (plan : Dict → List (Key × List BufId)) (fi : Nat → Nat) (c : Content) : Mods :=
  { indices := some (fi c.indices), blocks := some ((plan c.blocks).map fun e => (e.1, .kern tFuse e.2)) }

def fuseCore (plan : Dict → List (Key × List BufId)) (fi : Nat → Nat) : Script :=
  .read fun c _ => .acts [.modify (fuseMods plan fi c)] .nil

/-- `AbelianArray.unfuse(inplace=True)`: slices + reshapes into a new dict -/
def unfuseMods (split : Dict → List (Key × BufId)) (fi : Nat → Nat) (c : Content) : Mods :=
  { indices := some (fi c.indices), blocks := some ((split c.blocks).map fun e => (e.1, .kern tUnfuse [e.2])) }

def unfuseA (split : Dict → List (Key × BufId)) (fi : Nat → Nat) : Script :=
  .read fun c _ => .acts [.modify (unfuseMods split fi c)] .nil

/-- `sync_charges(inplace=True)` -/
def syncMods (fi : Content → Nat) (c : Content) : Mods := { indices := some (fi c) }

/-- `multiply_diagonal(v, axis, inplace=True)`; `v` is the first other variable -/
def multiplyDiagonal (chargeOf : Key → Key) : Script :=
  .read fun c v =>
    let vb := (v.getD 0 .none).toContent.blocks
    .acts (c.blocks.map fun e =>
      match vb.get? (chargeOf e.1) with
      | some b => .bKern e.1 tMul [e.2.toNat, b.toNat]
      | none => .bPop e.1) .nil

/-- `fill_missing_blocks()` (always in place) -/
def fillMissing (valid : Content → List Key) : Script :=
  .read fun c _ => .acts (((valid c).filter fun k => !c.blocks.has k).map fun k => .bKern k tZeros []) .nil

/-- `drop_missing_blocks()` (always in place) -/
def dropMissing (isZero : BufId → Bool) : Script :=
  .read fun c _ => .acts ((c.blocks.filter fun e => isZero e.2.toNat).map fun e => .bPop e.1) .nil

/-- `set_params(params)`: `self.blocks.update(params)` (always in place) -/
def setParams (params : Dict) : Script := .acts [.bUpdate params] .nil

/-- `phase_flip(*axs, inplace=True)`: copy of the sign dict, mutated, then rebound -/
def phaseFlip (odd : Key → Bool) (noAxes : Bool) : Script :=
  if noAxes then .nil else
  .read fun c _ => .acts [.pCopyThen fun np =>
    (c.blocks.keys.filter odd).foldl (fun np k =>
      if - np.getD k 1 == 1 then np.pop k else np.set k (- np.getD k 1)) np] .nil

/-- one sector of the loops in `phase_transpose`, `conj`: multiply the stored sign by `s` -/
def signActs (p : Dict) (k : Key) (s : Int) : List Act :=
  if p.getD k 1 * s == 1 then [.pPop k] else [.pSet k (p.getD k 1 * s)]

/-- `phase_transpose(axes, inplace=True)`: mutates the sign dict in place -/
def phaseTranspose (sg : Key → Int) : Script :=
  .read fun c _ => .acts (c.blocks.keys.flatMap fun k => signActs (c.phases.getD []) k (sg k)) .nil

/-- `phase_sector(sector, inplace=True)` -/
def phaseSector (k : Key) : Script :=
  .read fun c _ => .acts (.pPop k :: (if - (c.phases.getD []).getD k 1 == -1 then [.pSet k (-1)] else [])) .nil

/-- `phase_global(inplace=True)` -/
def phaseGlobal : Script :=
  .read fun c _ => .acts (c.blocks.keys.flatMap fun k =>
    .pPop k :: (if - (c.phases.getD []).getD k 1 == -1 then [.pSet k (-1)] else [])) .nil

/-- `phase_sync(inplace=True)`: `popitem` until empty, negating present blocks -/
def phaseSync : Script :=
  .read fun c _ => .acts ((c.phases.getD []).reverse.flatMap fun e =>
    .pPopItem :: (if e.2 == -1 then
      (match c.blocks.get? e.1 with | some b => [.bKern e.1 tNeg [b.toNat]] | none => []) else [])) .nil

/-- `FermionicArray.transpose(axes, phase, inplace=True)` -/
def transposeF (fk : Key → Key) (fi : Nat → Nat) (sg : Key → Int) (phase : Bool) : Script :=
  (Script.read fun c _ =>
    let old := c.phases.getD []
    let np : Dict :=
      if phase then
        c.blocks.keys.foldl (fun np k => if old.getD k 1 * sg k == -1 then np.set (fk k) (-1) else np) []
      else Dict.mapKeys fk old
    .acts [.modify { phases := some np }] .nil).seq (transposeA fk fi)

/-- `FermionicArray.conj(phase_permutation, phase_dual, inplace=True)` -/
def conjF (sg : Key → Int) (anyPhase : Bool) (fi : Nat → Nat) (fc : Int → Int) (fo : Nat → Nat)
    (flipGlobal : Content → Bool) : Script :=
  (Script.read fun c _ => .acts (c.blocks.flatMap fun e =>
      .bKern e.1 tConj [e.2.toNat] :: (if anyPhase then signActs (c.phases.getD []) e.1 (sg e.1) else [])) <|
    .read fun c _ => .acts [.modify { indices := some (fi c.indices), charge := some (fc c.charge) },
                            .setOddpos (fo c.oddpos)] <|
    .read fun c _ => if flipGlobal c then phaseGlobal else .nil)

/-- `FermionicArray.dagger(phase_dual, inplace=True)` -/
def daggerF (fk : Key → Key) (fi : Nat → Nat) (fc : Int → Int) (fo : Nat → Nat)
    (flipGlobal : Content → Bool) (dualFlip : Option (Key → Bool)) : Script :=
  (Script.read fun c _ =>
    let old := c.phases.getD []
    -- the loop pops every visited sector's sign and collects the new dicts
    .acts (c.blocks.keys.map Act.pPop ++
      [.modify { indices := some (fi c.indices), charge := some (fc c.charge),
                 blocks := some (c.blocks.map fun e => (fk e.1, .kern tConjT [e.2.toNat])),
                 phases := some (c.blocks.keys.foldl (fun np k =>
                   if old.getD k 1 == -1 then np.set (fk k) (-1) else np) []) },
       .setOddpos (fo c.oddpos)]) <|
    .read fun c _ => (if flipGlobal c then phaseGlobal else .nil).seq
      (match dualFlip with | some odd => phaseFlip odd false | none => .nil))

/-- `FermionicArray.fuse(..., inplace=True)` with non-empty groups -/
def fuseF (fk : Key → Key) (fiT : Nat → Nat) (sgT : Key → Int) (flip : Option (Key → Bool))
    (virt : Option (Key → Int)) (plan : Dict → List (Key × List BufId)) (fi : Nat → Nat) : Script :=
  Script.seqs [transposeF fk fiT sgT true,
    (match flip with | some odd => phaseFlip odd false | none => .nil),
    (match virt with | some sg => phaseTranspose sg | none => .nil),
    phaseSync, fuseCore plan fi]

/-- the part of `FermionicArray.unfuse` after `new = self.phase_sync(inplace=inplace)` -/
def unfuseFTail (split : Dict → List (Key × BufId)) (fi : Nat → Nat)
    (dual : Option (Option (Key → Bool) × (Key → Int))) : Script :=
  (unfuseA split fi).seq
    (match dual with
     | some (flip, sg) => (match flip with | some odd => phaseFlip odd false | none => .nil).seq (phaseTranspose sg)
     | none => .nil)

def unfuseF (split : Dict → List (Key × BufId)) (fi : Nat → Nat)
    (dual : Option (Option (Key → Bool) × (Key → Int))) : Script :=
  phaseSync.seq (unfuseFTail split fi dual)

/-- `resolve_combined_oddpos(left, right, new)` acting on `new` -/
def resolveOddpos (flip : Bool) (o : Nat) : Script :=
  (if flip then phaseGlobal else .nil).seq (.acts [.setOddpos o] .nil)

end S

/-! ## programs of the public operations -/

/-- an in-place effect on an array variable or on a bare (temporary) dict variable -/
inductive Mut
  | act (t : Nat) (a : Act)
  | dmut (t : Nat) (f : Dict → Dict)

def Mut.tgt : Mut → Nat
  | .act t _ => t
  | .dmut t _ => t
def Mut.cmd : Mut → Cmd
  | .act t a => .act t a
  | .dmut t f => .dmut t f

def Prog.mutsK : List Mut → Prog → Prog
  | [], k => k
  | m :: r, k => .cmd m.cmd (Prog.mutsK r k)

/-- `new = self if inplace else self.copy()` followed by the method body on `new`;
    `n` = number of variables before the call (the operands) -/
def viaCopy (n : Nat) (others : List Nat) (s : Script) (inplace : Bool) : Prog :=
  if inplace then s.prog 0 others .done else .cmd (.copy 0) (s.prog n others .done)

/-- `m = …; self.modify(**m) if inplace else self.copy_with(**m)`, then `post` on the result -/
def viaCopyWith (n : Nat) (others : List Nat) (m : Content → View → Mods) (post : Script)
    (inplace : Bool) : Prog :=
  .read fun v =>
    let mm := m (v.at 0) (others.map (fun j => v.getD j .none))
    if inplace then .cmd (.act 0 (.modify mm)) (post.prog 0 others .done)
    else .cmd (.copyWith 0 mm) (post.prog n others .done)

/-- parameters of one `expand_dims` -/
structure ExpandP where
  fk : Key → Key
  fi : Nat → Nat
  fc : Int → Int

/-- parameters of `_fuse_core` -/
structure FuseP where
  plan : Dict → List (Key × List BufId)
  fi : Nat → Nat

structure UnfuseP where
  split : Dict → List (Key × BufId)
  fi : Nat → Nat
  /-- fermionic, overall dual index: optional `phase_flip` axes and the virtual permutation sign -/
  dual : Option (Option (Key → Bool) × (Key → Int)) := none

structure FuseFP where
  fk : Key → Key
  fiT : Nat → Nat
  sgT : Key → Int
  flip : Option (Key → Bool)
  virt : Option (Key → Int)
  core : FuseP

def expandsS (es : List ExpandP) : Script := Script.seqs (es.map fun e => S.expandDims e.fk e.fi e.fc)

/-- the steps `reshape` / `unfuse_all` perform in place on `x`; `fermi` = dynamic dispatch -/
inductive InStep
  | unfuse (fermi : Bool) (p : UnfuseP)
  | fuseA (core : Option FuseP) (es : List ExpandP)
  | fuseF (core : Option FuseFP) (es : List ExpandP)
  | expand (e : ExpandP)

def InStep.script : InStep → Script
  | .unfuse false p => S.unfuseA p.split p.fi
  | .unfuse true p => S.unfuseF p.split p.fi p.dual
  | .fuseA core es => (match core with | some c => S.fuseCore c.plan c.fi | none => .nil).seq (expandsS es)
  | .fuseF core es =>
    (match core with
     | some c => S.fuseF c.fk c.fiT c.sgT c.flip c.virt c.core.plan c.core.fi
     | none => .nil).seq (expandsS es)
  | .expand e => S.expandDims e.fk e.fi e.fc

/-- how `_binary_blockwise_op` treats blocks present on one side only -/
inductive Missing | strict | outer | inner

/-- `BlockBase._binary_blockwise_op(other, fn, missing, inplace=True)` on `xy = env[t]`, `other = env[o]`;
    `tmp` must be the number of variables at this point (the temporary `other_blocks`) -/
def binaryK (t o tmp : Nat) (missing : Missing) (k : Prog) : Prog :=
  .cmd (.dictCopy o) <|                                 -- other_blocks = other.blocks.copy()
  .read fun v =>
    let xb := (v.at t).blocks
    let ob := v.dictAt tmp
    let both (e : Key × Val) : List Mut :=               -- other_blocks.pop(sector); xy[sector] = fn(x, o)
      [.dmut tmp (fun d => d.pop e.1), .act t (.bKern e.1 tFn [e.2.toNat, (ob.getD e.1 0).toNat])]
    match missing with
    | .strict =>
      -- raises at the first left block missing on the right: the loop stops there
      Prog.mutsK ((xb.takeWhile fun e => ob.has e.1).flatMap both) k
    | .outer =>
      Prog.mutsK (xb.flatMap fun e => if ob.has e.1 then both e else [.act t (.bPut e.1 e.2.toNat)]) <|
      .read fun v => .cmd (.act t (.bUpdate (v.dictAt tmp))) k   -- xy_blocks.update(other_blocks)
    | .inner =>
      Prog.mutsK (xb.flatMap fun e => if ob.has e.1 then both e else [.act t (.bPop e.1)]) k

/-- `drop_misaligned_sectors(a, b, axes_a, axes_b, inplace)` for `a = env[ia]`, `b = env[ib]`:
    the new dicts hold the SAME buffers as the old ones -/
structure AlignP where
  keepA : Dict → Dict → Key → Bool
  keepB : Dict → Dict → Key → Bool
  fiA : Content → Content → Nat
  fiB : Content → Content → Nat

def alignMods (p : AlignP) (ca cb : Content) : Mods × Mods :=
  ({ indices := some (p.fiA ca cb),
     blocks := some ((ca.blocks.filter fun e => p.keepA ca.blocks cb.blocks e.1).map fun e => (e.1, .old e.2.toNat)) },
   { indices := some (p.fiB ca cb),
     blocks := some ((cb.blocks.filter fun e => p.keepB ca.blocks cb.blocks e.1).map fun e => (e.1, .old e.2.toNat)) })

def alignK (ia ib : Nat) (p : AlignP) (inplace : Bool) (k : Prog) : Prog :=
  .read fun v =>
    let ms := alignMods p (v.at ia) (v.at ib)
    if inplace then .cmd (.act ia (.modify ms.1)) (.cmd (.act ib (.modify ms.2)) k)
    else .cmd (.copyWith ia ms.1) (.cmd (.copyWith ib ms.2) k)

/-- `_tensordot_blockwise(a, b, …)`: reads both, `a.copy_with(indices, charge, blocks=new)` -/
structure TdotP where
  pairs : Dict → Dict → List (Key × List BufId)
  fi : Content → Content → Nat
  fc : Content → Content → Int

def tdotMods (p : TdotP) (ca cb : Content) : Mods :=
  { indices := some (p.fi ca cb), charge := some (p.fc ca cb),
    blocks := some ((p.pairs ca.blocks cb.blocks).map fun e => (e.1, .kern tTdot e.2)) }

def tdotBlockwiseK (ia ib : Nat) (p : TdotP) (k : Prog) : Prog :=
  .read fun v => .cmd (.copyWith ia (tdotMods p (v.at ia) (v.at ib))) k

/-- `_tensordot_via_fused(a, b, …)`; `base` = number of variables before; the result is variable
    `base + 4` on both paths -/
structure FusedP where
  align : AlignP
  fa : Option FuseP      -- `AbelianArray.fuse(a, left_axes, axes_a, expand_empty=False)`; `none`: no non-empty group
  fb : Option FuseP
  tdot : TdotP
  unfuseRight : Option UnfuseP
  unfuseLeft : Option UnfuseP

def fuseOutK (src : Nat) (f : Option FuseP) (k : Prog) : Prog :=
  match f with
  | some c => .read fun v => .cmd (.copyWith src (S.fuseMods c.plan c.fi (v.at src))) k   -- `_fuse_core(inplace=False)`
  | none => .cmd (.copy src) k

def tdotFusedK (ia ib base : Nat) (p : FusedP) (k : Prog) : Prog :=
  alignK ia ib p.align false <|                       -- a', b' = base, base+1
  .read fun v =>
    if (v.at base).blocks.isEmpty || (v.at (base + 1)).blocks.isEmpty then
      -- `a.copy_with(indices=…, charge=…, blocks={})`
      .cmd (.copyWith base { (tdotMods p.tdot (v.at base) (v.at (base + 1))) with blocks := some [] }) <|
      .cmd (.alias (base + 2)) <| .cmd (.alias (base + 2)) k
    else
      fuseOutK base p.fa <|                             -- af = base+2
      fuseOutK (base + 1) p.fb <|                       -- bf = base+3
      tdotBlockwiseK (base + 2) (base + 3) p.tdot <|    -- cf = base+4
      (match p.unfuseRight with | some u => S.unfuseA u.split u.fi | none => .nil).prog (base + 4) [] <|
      (match p.unfuseLeft with | some u => S.unfuseA u.split u.fi | none => .nil).prog (base + 4) [] k

/-- `tensordot_fermionic(a, b, axes)` with the fused or the blockwise abelian contraction -/
structure TdotFP where
  fkA : Key → Key
  fiA : Nat → Nat
  sgA : Key → Int
  fkB : Key → Key
  fiB : Nat → Nat
  sgB : Key → Int
  virtB : Key → Int
  flipOnA : Bool
  flip : Key → Bool
  noFlipAxes : Bool
  fused : Option FusedP
  blockwise : TdotP
  oddFlip : Content → Content → Bool
  oddpos : Content → Content → Nat

/-- parameters of the block decompositions (`qr`, `svd`, `eigh`, `solve`) -/
structure FactorP where
  fi1 : Content → Nat
  fi2 : Content → Nat
  keyOf : Key → Key                   -- sector → key of the second / vector factor
  fermi : Bool                        -- the class of the operand (`x.__class__(…)` builds the same class)
  flip : Option (Key → Bool)          -- fermionic: `phase_flip(0, inplace=True)` on the new factor

/-- what `svd_truncated` does, in place, to the three objects `svd` has just created -/
structure TruncP where
  drop : List Key                     -- sectors removed entirely
  fi : Nat → Nat                      -- the truncated bond index
  absorbU : Bool
  absorbV : Bool

inductive Op
  -- block_core / abelian_core / fermionic_core: object plumbing
  | copy
  | copyWith (m : Mods)
  | modify (m : Mods)                                   -- always in place
  | applyToArrays (tag : Nat)                           -- always in place
  | mapBlocks (fk : Key → Key) (tag : Nat)              -- always in place (`_map_blocks`)
  | setParams (params : Dict)                           -- always in place
  | fillMissing (valid : Content → List Key)            -- always in place
  | dropMissing (isZero : BufId → Bool)                 -- always in place
  -- scalar `*`, `/`, unary `-`, `clip`, … (`__imul__`, `__itruediv__` when `inplace`)
  | scalarOp (tag : Nat)
  | unaryOpA (tag : Nat)                                -- `BlockBase._do_unary_op`
  | unaryOpF (tag : Nat)                                -- `FermionicArray._do_unary_op`
  | conjA (fi : Nat → Nat) (fc : Int → Int)
  | transposeA (fk : Key → Key) (fi : Nat → Nat)
  | daggerA (fk : Key → Key) (fi fi' : Nat → Nat) (fc : Int → Int)
  | squeeze (fk : Key → Key) (fi : Nat → Nat)
  | expandDims (e : ExpandP)
  | fuseCore (f : FuseP)
  | fuseA (core : Option FuseP) (es : List ExpandP)
  | unfuseA (u : UnfuseP)
  | unfuseAll (steps : List InStep)
  | reshape (steps : List InStep)
  | multiplyDiagonal (chargeOf : Key → Key)             -- operands `[x, v]`
  | syncCharges (fi : Content → Nat)
  | phaseFlip (odd : Key → Bool) (noAxes : Bool)
  | phaseTranspose (sg : Key → Int)
  | phaseSector (k : Key)
  | phaseGlobal
  | phaseSync
  | transposeF (fk : Key → Key) (fi : Nat → Nat) (sg : Key → Int) (phase : Bool)
  | conjF (sg : Key → Int) (anyPhase : Bool) (fi : Nat → Nat) (fc : Int → Int) (fo : Nat → Nat)
      (flipGlobal : Content → Bool)
  | daggerF (fk : Key → Key) (fi : Nat → Nat) (fc : Int → Int) (fo : Nat → Nat)
      (flipGlobal : Content → Bool) (dualFlip : Option (Key → Bool))
  | fuseF (core : Option FuseFP) (es : List ExpandP)
  | unfuseF (u : UnfuseP)
  | binaryA (missing : Missing)                         -- operands `[x, other]`
  | binaryF (missing : Missing)
  | alignAxes (p : AlignP)                              -- `drop_misaligned_sectors` / `align_axes`
  | tdotBlockwise (p : TdotP)
  | tdotFused (p : FusedP)
  | tdotFermionic (p : TdotFP)
  | qr (p : FactorP)
  | svd (p : FactorP)
  | svdTruncated (p : FactorP) (t : TruncP)
  | eigh (p : FactorP) (negate : Key → Bool)
  | solve (p : FactorP) (fc : Content → Content → Int)

def factorEntries (c : Content) (fk : Key → Key) : List (Key × BufSrc) :=
  c.blocks.map fun e => (fk e.1, .kern tFactor [e.2.toNat])

/-- fermionic decompositions first make sure the blocks carry their signs:
    `if a.phases: a = a.phase_sync()` -/
def syncedK (src : Nat) (n : Nat) (fermi : Bool) (k : Prog) : Prog :=
  .read fun v =>
    if fermi && !((v.at src).phases.getD []).isEmpty then
      .cmd (.copy src) (S.phaseSync.prog n [] k)
    else .cmd (.alias src) k

def svdK (p : FactorP) (k : Prog) : Prog :=
  .read fun v =>
    let c := v.at 0
    .cmd (.copyWith 0 { indices := some (p.fi1 c), blocks := some (factorEntries c id) }) <|         -- u = 1
    .cmd (.construct 0 0 (factorEntries c p.keyOf) false 0) <|                                       -- s = 2
    .cmd (.construct (p.fi2 c) 0 (factorEntries c p.keyOf) p.fermi 0) <|                             -- vh = 3
    (match p.flip with | some odd => S.phaseFlip odd false | none => .nil).prog 3 [] k

/-- the effect program of an operation; operands are the first variables -/
def Op.prog (op : Op) (inplace : Bool) : Prog :=
  match op with
  | .copy => .cmd (.copy 0) .done
  | .copyWith m => .cmd (.copyWith 0 m) .done
  | .modify m => .cmd (.act 0 (.modify m)) .done
  | .applyToArrays tag => (S.applyToArrays tag).prog 0 [] .done
  | .mapBlocks fk tag => (S.mapBlocks fk tag).prog 0 [] .done
  | .setParams ps => (S.setParams ps).prog 0 [] .done
  | .fillMissing valid => (S.fillMissing valid).prog 0 [] .done
  | .dropMissing z => (S.dropMissing z).prog 0 [] .done
  | .scalarOp tag => viaCopy 1 [] (S.applyToArrays tag) inplace
  | .unaryOpA tag => viaCopy 1 [] (S.applyToArrays tag) inplace
  | .unaryOpF tag => viaCopy 1 [] (S.phaseSync.seq (S.applyToArrays tag)) inplace
  | .conjA fi fc => viaCopy 1 [] (S.conjA fi fc) inplace
  | .transposeA fk fi => viaCopy 1 [] (S.transposeA fk fi) inplace
  | .daggerA fk fi fi' fc => viaCopy 1 [] (S.daggerA fk fi fi' fc) inplace
  | .squeeze fk fi => viaCopy 1 [] (S.squeeze fk fi) inplace
  | .expandDims e => viaCopy 1 [] (S.expandDims e.fk e.fi e.fc) inplace
  | .fuseCore f => viaCopyWith 1 [] (fun c _ => S.fuseMods f.plan f.fi c) .nil inplace
  | .fuseA core es =>
    match core with
    | some f => viaCopyWith 1 [] (fun c _ => S.fuseMods f.plan f.fi c) (expandsS es) inplace
    | none => viaCopy 1 [] (expandsS es) inplace
  | .unfuseA u => viaCopyWith 1 [] (fun c _ => S.unfuseMods u.split u.fi c) .nil inplace
  | .unfuseAll steps => viaCopy 1 [] (Script.seqs (steps.map InStep.script)) inplace
  | .reshape steps => viaCopy 1 [] (Script.seqs (steps.map InStep.script)) inplace
  | .multiplyDiagonal ch => viaCopy 2 [1] (S.multiplyDiagonal ch) inplace
  | .syncCharges fi => viaCopyWith 1 [] (fun c _ => S.syncMods fi c) .nil inplace
  | .phaseFlip odd na => viaCopy 1 [] (S.phaseFlip odd na) inplace
  | .phaseTranspose sg => viaCopy 1 [] (S.phaseTranspose sg) inplace
  | .phaseSector k => viaCopy 1 [] (S.phaseSector k) inplace
  | .phaseGlobal => viaCopy 1 [] S.phaseGlobal inplace
  | .phaseSync => viaCopy 1 [] S.phaseSync inplace
  | .transposeF fk fi sg ph => viaCopy 1 [] (S.transposeF fk fi sg ph) inplace
  | .conjF sg ap fi fc fo fg => viaCopy 1 [] (S.conjF sg ap fi fc fo fg) inplace
  | .daggerF fk fi fc fo fg df => viaCopy 1 [] (S.daggerF fk fi fc fo fg df) inplace
  | .fuseF core es => viaCopy 1 [] (InStep.fuseF core es).script inplace
  | .unfuseF u => viaCopy 1 [] (S.unfuseF u.split u.fi u.dual) inplace
  | .binaryA missing =>
    if inplace then binaryK 0 1 2 missing .done
    else .cmd (.copy 0) (binaryK 2 1 3 missing .done)
  | .binaryF missing =>
    -- xy = self if inplace else self.copy(); xy.phase_sync(inplace=True)
    -- if other.phases: other = other.phase_sync()      (out of place)
    let t := if inplace then 0 else 2
    let n := if inplace then 2 else 3
    let body : Prog :=
      S.phaseSync.prog t [] <| syncedK 1 n true <| binaryK t n (n + 1) missing .done
    if inplace then body else .cmd (.copy 0) body
  | .alignAxes p => alignK 0 1 p inplace .done
  | .tdotBlockwise p => tdotBlockwiseK 0 1 p .done
  | .tdotFused p => tdotFusedK 0 1 2 p .done
  | .tdotFermionic p =>
    .cmd (.copy 0) <| (S.transposeF p.fkA p.fiA p.sgA true).prog 2 [] <|       -- a = a.transpose(…)   → 2
    .cmd (.copy 1) <| (S.transposeF p.fkB p.fiB p.sgB true).prog 3 [] <|       -- b = b.transpose(…)   → 3
    (S.phaseTranspose p.virtB).prog 3 [] <|
    (S.phaseFlip p.flip p.noFlipAxes).prog (if p.flipOnA then 2 else 3) [] <|
    S.phaseSync.prog 2 [] <| S.phaseSync.prog 3 [] <|
    (match p.fused with
     | some f => tdotFusedK 2 3 4 f                                             -- c → 8
     | none => fun k => tdotBlockwiseK 2 3 p.blockwise <|                       -- c → 4, then padded to 8
        .cmd (.alias 4) <| .cmd (.alias 4) <| .cmd (.alias 4) <| .cmd (.alias 4) k) <|
    .read fun v =>
      (S.resolveOddpos (p.oddFlip (v.at 2) (v.at 3)) (p.oddpos (v.at 2) (v.at 3))).prog 8 [] .done
  | .qr p =>
    .read fun v =>
      let c := v.at 0
      .cmd (.copyWith 0 { indices := some (p.fi1 c), blocks := some (factorEntries c id) }) <|       -- q = 1
      .cmd (.construct (p.fi2 c) 0 (factorEntries c p.keyOf) p.fermi 0) <|                           -- r = 2
      (match p.flip with | some odd => S.phaseFlip odd false | none => .nil).prog 2 [] .done
  | .svd p => svdK p .done
  | .svdTruncated p t =>
    svdK p <|
    .read fun v =>
      let ub := (v.at 1).blocks
      let keep := ub.filter fun e => !t.drop.contains e.1
      let dropped := ub.filter fun e => t.drop.contains e.1
      -- per sector: pop the three blocks, or slice them
      Prog.mutsK (dropped.flatMap fun e =>
          [.act 1 (.bPop e.1), .act 2 (.bPop (p.keyOf e.1)), .act 3 (.bPop (p.keyOf e.1))]) <|
      Prog.mutsK (keep.flatMap fun e =>
          [.act 1 (.bKern e.1 tSlice [e.2.toNat]),
           .act 2 (.bKern (p.keyOf e.1) tSlice [((v.at 2).blocks.getD (p.keyOf e.1) 0).toNat]),
           .act 3 (.bKern (p.keyOf e.1) tSlice [((v.at 3).blocks.getD (p.keyOf e.1) 0).toNat])]) <|
      .read fun v =>
      .cmd (.act 1 (.modify { indices := some (t.fi (v.at 1).indices) })) <|
      .cmd (.act 3 (.modify { indices := some (t.fi (v.at 3).indices) })) <|
      .read fun v =>
        let sb := (v.at 2).blocks
        Prog.mutsK ((v.at 1).blocks.flatMap fun e =>
          (if t.absorbU then [Mut.act 1 (.bKern e.1 tMul [e.2.toNat, (sb.getD (p.keyOf e.1) 0).toNat])] else []) ++
          (if t.absorbV then [Mut.act 3 (.bKern (p.keyOf e.1) tMul
              [((v.at 3).blocks.getD (p.keyOf e.1) 0).toNat, (sb.getD (p.keyOf e.1) 0).toNat])] else [])) .done
  | .eigh p negate =>
    syncedK 0 1 p.fermi <|                                                                          -- a' = 1
    .read fun v =>
      let c := v.at 1
      .cmd (.construct 0 0 (factorEntries c p.keyOf) false 0) <|                                     -- eigenvalues = 2
      .cmd (.copyWith 1 { blocks := some (factorEntries c id) }) <|                                  -- eigenvectors = 3
      .read fun v =>
        Prog.actsK 2 (((v.at 2).blocks.filter fun e => p.fermi && negate e.1).map fun e =>
          .bKern e.1 tNeg [e.2.toNat]) .done
  | .solve p fc =>
    syncedK 0 2 p.fermi <|                                                                          -- a' = 2
    syncedK 1 3 p.fermi <|                                                                          -- b' = 3
    .read fun v =>
      let a := v.at 2
      let b := v.at 3
      let m : Mods := { indices := some (p.fi1 a)
                        charge := some (fc a b)
                        blocks := some ((a.blocks.filter fun e => b.blocks.has (p.keyOf e.1)).map fun e =>
                          (e.1, .kern tFactor [e.2.toNat, (b.blocks.getD (p.keyOf e.1) 0).toNat])) }
      .cmd (.copyWith 3 m) <|                                                                        -- x = 4
      (match p.flip with | some odd => S.phaseFlip odd false | none => .nil).prog 4 [] .done

/-- number of operand variables -/
def Op.arity : Op → Nat
  | .multiplyDiagonal _ | .binaryA _ | .binaryF _ | .alignAxes _ | .tdotBlockwise _ | .tdotFused _
  | .tdotFermionic _ | .solve _ _ => 2
  | _ => 1

/-- does the operation have an `inplace` switch at all / is it always in place? -/
def Op.alwaysInplace : Op → Bool
  | .modify _ | .applyToArrays _ | .mapBlocks _ _ | .setParams _ | .fillMissing _ | .dropMissing _ => true
  | _ => false
def Op.neverInplace : Op → Bool
  | .copy | .copyWith _ | .tdotBlockwise _ | .tdotFused _ | .tdotFermionic _ | .qr _ | .svd _
  | .svdTruncated _ _ | .eigh _ _ | .solve _ _ => true
  | _ => false

/-- the operand variables the call is ASKED to modify -/
def Op.targets (op : Op) (inplace : Bool) : List Nat :=
  if op.alwaysInplace then [0]
  else if op.neverInplace || !inplace then []
  else match op with
    | .alignAxes _ => [0, 1]
    | _ => [0]

/-- positions of the returned objects among the final variables -/
def Op.results (op : Op) (inplace : Bool) : List Nat :=
  if op.targets inplace != [] then op.targets inplace
  else match op with
    | .copy | .copyWith _ => [1]
    | .alignAxes _ => [2, 3]
    | .tdotBlockwise _ => [2]
    | .tdotFused _ => [6]
    | .tdotFermionic _ => [8]
    | .qr _ => [1, 2]
    | .svd _ | .svdTruncated _ _ => [1, 2, 3]
    | .eigh _ _ => [2, 3]
    | .solve _ _ => [4]
    | .binaryA _ | .binaryF _ | .multiplyDiagonal _ => [2]
    | _ => [1]

/-- run an operation on operand objects; returns the final heap and the result objects -/
def Op.run (op : Op) (inplace : Bool) (h : Heap) (operands : List ObjId) : Heap × List ObjId :=
  let r := (op.prog inplace).run h (operands.take op.arity)
  (r.1, (op.results inplace).map (envGet r.2))

/-- a call in a program of operations: the operands are variables of the outer environment
    (the initial arrays and the results of earlier calls, in order) -/
structure Call where
  op : Op
  inplace : Bool
  args : List Nat

def runCalls : List Call → Heap → Env → Heap × Env
  | [], h, env => (h, env)
  | c :: r, h, env =>
    let res := c.op.run c.inplace h (c.args.map (envGet env))
    runCalls r res.1 (env ++ res.2)

end SymmModel.Heap
