/-
  SymmModel.Model.Tdot — contraction of abelian arrays and blockwise arithmetic.
  Python: symmray/abelian_core.py  _tensordot_blockwise (:2372), drop_misaligned_sectors (:2450),
  _tensordot_via_fused (:2525), tensordot_abelian (:2619), __matmul__ (:2153), trace (:2183),
  multiply_diagonal (:2199), einsum (:2262); block_core.py _binary_blockwise_op (:115).
-/
import SymmModel.Model.Fuse
namespace SymmModel

variable {R : Type}

/-- drop from each index the charges that no stored sector uses (`charges_drop` logic) -/
def dropUnused (indices : List Index) (sectors : List Sector) : List Index :=
  indices.zipIdx.map (fun (ix, i) =>
    let present := sectors.filterMap (fun s => s[i]?)
    let drop := ix.charges.filter (fun c => !present.contains c)
    if drop.isEmpty then ix else ix.dropCharges drop)

/-- `_tensordot_blockwise(a, b, left_axes, axes_a, axes_b, right_axes)` -/
def tensordotBlockwise [Zero R] [Add R] [Mul R] (a b : Arr R)
    (leftAxes axesA axesB rightAxes : List Nat) : Arr R :=
  -- pairs of aligned blocks in the order Python visits them: a's blocks outer, b's blocks inner
  let pairs : List (Sector × Blk R × Blk R) :=
    a.blocks.flatMap (fun (sa, ba) =>
      let ka := permuted sa axesA
      (b.blocks.filter (fun (sb, _) => permuted sb axesB == ka)).map (fun (sb, bb) =>
        (permuted sa leftAxes ++ permuted sb rightAxes, ba, bb)))
  -- accumulate `tensordot` of each pair into its new sector (functools.reduce(operator.add, …))
  let newBlocks : List (Sector × Blk R) :=
    pairs.foldl (fun acc (s, ba, bb) =>
      let t := ba.tensordotK bb axesA axesB
      match alookup acc s with
      | none => acc ++ [(s, t)]
      | some cur => ainsert acc s (Blk.zipWith (· + ·) cur t)) []
  let newIdx := without a.indices axesA ++ without b.indices axesB
  { a with indices := dropUnused newIdx (newBlocks.map (·.1)),
           charge := a.sym.combine [a.charge, b.charge],
           blocks := newBlocks }

/-- `drop_misaligned_sectors(a, b, axes_a, axes_b)` -/
def dropMisaligned (a b : Arr R) (axesA axesB : List Nat) : Arr R × Arr R :=
  let subA := a.sectors.map (fun s => permuted s axesA)
  let subB := b.sectors.map (fun s => permuted s axesB)
  let allowed := subA.filter (fun k => subB.contains k)
  let blocksA := a.blocks.filter (fun (s, _) => allowed.contains (permuted s axesA))
  let blocksB := b.blocks.filter (fun (s, _) => allowed.contains (permuted s axesB))
  ({ a with blocks := blocksA, indices := dropUnused a.indices (blocksA.map (·.1)) },
   { b with blocks := blocksB, indices := dropUnused b.indices (blocksB.map (·.1)) })

/-- `_tensordot_via_fused` -/
def tensordotViaFused [Zero R] [Add R] [Mul R] (a b : Arr R)
    (leftAxes axesA axesB rightAxes : List Nat) : Except Err (Arr R) := do
  let (a, b) := dropMisaligned a b axesA axesB
  if a.blocks.isEmpty || b.blocks.isEmpty then
    return { a with indices := without a.indices axesA ++ without b.indices axesB,
                    charge := a.sym.combine [a.charge, b.charge],
                    blocks := [] }
  let af ← fuseA a [leftAxes, axesA] .insert false
  let bf ← fuseA b [axesB, rightAxes] .insert false
  let (l, ka) := match !leftAxes.isEmpty, !axesA.isEmpty with
    | false, false => (([] : List Nat), ([] : List Nat))
    | false, true => ([], [0])
    | true, false => ([0], [])
    | true, true => ([0], [1])
  let (kb, r) := match !axesB.isEmpty, !rightAxes.isEmpty with
    | false, false => (([] : List Nat), ([] : List Nat))
    | false, true => ([], [0])
    | true, false => ([0], [])
    | true, true => ([0], [1])
  let cf := tensordotBlockwise af bf l ka kb r
  -- unfuse the (at most two) axes that this routine fused itself
  -- (repaired behaviour: a free leg that was already fused before the call stays fused)
  let fusedRight := !rightAxes.isEmpty && rightAxes.length != 1
  let fusedLeft := !leftAxes.isEmpty && leftAxes.length != 1
  let cf ← if fusedRight then unfuseA cf (if leftAxes.isEmpty then 0 else 1) else pure cf
  let cf ← if fusedLeft then unfuseA cf 0 else pure cf
  pure cf

inductive TdotMode where
  | auto | fused | blockwise
  deriving DecidableEq, Repr, Inhabited

/-- axes argument of tensordot: an integer or a pair of lists (possibly negative entries) -/
inductive AxesArg where
  | int (n : Nat)
  | pair (a b : List Int)
  deriving Repr, Inhabited

/-- normalisation of the `axes` argument (shared by abelian and fermionic tensordot) -/
def parseAxes (ndimA ndimB : Nat) : AxesArg → Except Err (List Nat × List Nat)
  | .int n => pure ((List.range ndimA).drop (ndimA - n), List.range n)
  | .pair xa xb =>
    if ndimA == 0 && !xa.isEmpty then throw Err.other      -- ZeroDivisionError (x % 0)
    else if ndimB == 0 && !xb.isEmpty then throw Err.other
    else if xa.length != xb.length then throw Err.value
    else pure (xa.map (fun x => (x % (ndimA : Int)).toNat), xb.map (fun x => (x % (ndimB : Int)).toNat))

/-- `tensordot_abelian(a, b, axes, mode, preserve_array=True)` -/
def tensordotA [Zero R] [Add R] [Mul R] (a b : Arr R) (axes : AxesArg) (mode : TdotMode) :
    Except Err (Arr R) := do
  let (axesA, axesB) ← parseAxes a.ndim b.ndim axes
  let leftAxes := without (List.range a.ndim) axesA
  let rightAxes := without (List.range b.ndim) axesB
  let mode := match mode with
    | .auto => if axesA.isEmpty then TdotMode.blockwise else TdotMode.fused
    | m => m
  match mode with
  | .fused => tensordotViaFused a b leftAxes axesA axesB rightAxes
  | _ => pure (tensordotBlockwise a b leftAxes axesA axesB rightAxes)

/-- `AbelianArray.__matmul__(self, other, preserve_array=True)` -/
def matmulA [Zero R] [Add R] [Mul R] (a b : Arr R) : Except Err (Arr R) :=
  match a.ndim, b.ndim with
  | 1, 1 => pure (tensordotBlockwise a b [] [0] [0] [])
  | 1, 2 => pure (tensordotBlockwise a b [] [0] [0] [1])
  | 2, 1 => pure (tensordotBlockwise a b [0] [1] [0] [])
  | 2, 2 => pure (tensordotBlockwise a b [0] [1] [0] [1])
  | _, _ => if a.ndim > 2 || b.ndim > 2 then throw Err.value else throw Err.key

/-- `AbelianArray.trace` (blocks as stored, no pending signs) -/
def traceA [Zero R] [Add R] (a : Arr R) : Except Err R :=
  if a.ndim != 2 then throw Err.value
  else pure ((a.blocks.filter (fun (s, _) => s[0]? == s[1]?)).foldl (fun acc (_, b) => acc + b.traceK) 0)

/-- `AbelianArray.multiply_diagonal(v, axis)` -/
def multiplyDiagonal [Zero R] [Mul R] (a : Arr R) (v : BVec R) (axis : Nat) : Arr R :=
  { a with blocks := a.blocks.filterMap (fun (s, b) =>
      match alookup v.blocks (s.getD axis (0, 0)) with
      | some vb => some (s, b.mulAxisK vb axis)
      | none => none) }

/-- `AbelianArray.einsum(eq, preserve_array=True)`: `lhs`/`rhs` as lists of label numbers -/
def einsumA [Zero R] [Add R] (a : Arr R) (lhs rhs : List Nat) : Except Err (Arr R) := do
  -- traced labels with the positions they occur at
  let tracedLabels := (lhs.filter (fun q => !rhs.contains q)).eraseDups
  let traced := tracedLabels.map (fun q => (lhs.zipIdx.filter (fun p => p.1 == q)).map (·.2))
  let perm ← rhs.mapM (fun q => match indexOf? lhs q with
    | some j => pure j
    | none => throw Err.value)
  -- `for ja, jb in traced.values()` needs exactly two positions per traced label
  if traced.any (fun js => js.length != 2) then throw Err.value
  let newBlocks := a.blocks.foldl (fun (acc : List (Sector × Blk R)) (sb : Sector × Blk R) =>
    let (sector, array) := sb
    if traced.all (fun js => sector[js.getD 0 0]? == sector[js.getD 1 0]?) then
      let ns := permuted sector perm
      let na := array.einsumK lhs rhs
      match alookup acc ns with
      | some cur => ainsert acc ns (Blk.zipWith (· + ·) cur na)
      | none => acc ++ [(ns, na)]
    else acc) []
  pure { a with indices := permuted a.indices perm, blocks := newBlocks }

inductive Missing where
  | strict | outer | inner
  deriving DecidableEq, Repr, Inhabited

/-- `_binary_blockwise_op(other, fn, missing)` on block dicts -/
def binaryBlockwise {κ : Type} [BEq κ] (fn : Blk R → Blk R → Blk R) (missing : Missing)
    (x y : List (κ × Blk R)) : Except Err (List (κ × Blk R)) :=
  match missing with
  | .strict =>
    if x.any (fun (k, _) => (alookup y k).isNone) then throw Err.value
    else if y.any (fun (k, _) => (alookup x k).isNone) then throw Err.value
    else pure (x.map (fun (k, bx) => match alookup y k with
      | some b => (k, fn bx b)
      | none => (k, bx)))
  | .outer =>
    pure (x.map (fun (k, bx) => match alookup y k with
      | some b => (k, fn bx b)
      | none => (k, bx)) ++ y.filter (fun (k, _) => (alookup x k).isNone))
  | .inner =>
    -- (repaired behaviour: blocks present on one side only are dropped)
    pure (x.filterMap (fun (k, bx) => match alookup y k with
      | some b => some (k, fn bx b)
      | none => none))

end SymmModel
