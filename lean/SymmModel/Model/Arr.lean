/-
  SymmModel.Model.Arr — `AbelianArray` / `FermionicArray` as data, validity, and the simple
  structural operations.  Python: symmray/abelian_core.py:1050-1850, block_core.py.
-/
import SymmModel.Model.Index
import SymmModel.Model.Blk
namespace SymmModel

/-- the error kinds the harness distinguishes (Python exception classes) -/
inductive Err where
  | value | key | type | index | notimpl | assertion | attr | other
  deriving DecidableEq, Repr, Inhabited

abbrev Sector := List Charge

/-- An array: symmetry, kind, indices, total charge, blocks in dict order, and for fermionic
    arrays the pending-sign table (dict order) and the odd-position labels `(label, dual)`. -/
structure Arr (R : Type) where
  sym : Sym
  fermi : Bool
  indices : List Index
  charge : Charge
  blocks : List (Sector × Blk R)
  phases : List (Sector × Int) := []
  oddpos : List (Int × Bool) := []
  deriving Inhabited

/-- `BlockVector`: charge ↦ 1-D block, dict order -/
structure BVec (R : Type) where
  blocks : List (Charge × Blk R)
  deriving Inhabited

namespace Arr
variable {R : Type}

def ndim (a : Arr R) : Nat := a.indices.length
def duals (a : Arr R) : List Bool := a.indices.map Index.dual
def shape (a : Arr R) : List Nat := a.indices.map Index.sizeTotal
def size (a : Arr R) : Nat := prod a.shape
def sectors (a : Arr R) : List Sector := a.blocks.map (·.1)
def parity (a : Arr R) : Bool := a.sym.parity a.charge

/-- signed combination of a sector's charges w.r.t. the index directions -/
def sectorCharge (s : Sym) (duals : List Bool) (sector : Sector) : Charge :=
  s.combine (List.zipWith (fun c d => s.sign c d) sector duals)

/-- `is_valid_sector` -/
def isValidSector (a : Arr R) (sector : Sector) : Bool :=
  sectorCharge a.sym a.duals sector == a.charge

/-- `get_block_shape`; `none` where Python raises `KeyError` -/
def blockShape? (indices : List Index) (sector : Sector) : Option (List Nat) :=
  if indices.length != sector.length then none
  else (List.zipWith (fun (ix : Index) c => ix.sizeOf? c) indices sector).mapM id

/-- `gen_valid_sectors`, in the order Python yields them -/
def genValidSectors (a : Arr R) : List Sector :=
  match a.indices.reverse with
  | [] => if a.charge == a.sym.zero then [[]] else []
  | last :: revFirst =>
    let first := revFirst.reverse
    (cartesian (first.map Index.charges)).filterMap (fun partial_ =>
      let sp := a.sym.combine (List.zipWith (fun c (ix : Index) => a.sym.sign c (!ix.dual)) partial_ first)
      let req := a.sym.sign (a.sym.combine [a.charge, sp]) last.dual
      if last.charges.contains req then some (partial_ ++ [req]) else none)

/-- `sync_charges` -/
def syncCharges (a : Arr R) : Arr R :=
  let newIdx := a.indices.zipIdx.map (fun (ix, i) =>
    let present := a.sectors.filterMap (fun s => s[i]?)
    let drop := ix.charges.filter (fun c => !present.contains c)
    if drop.isEmpty then ix else ix.dropCharges drop)
  { a with indices := newIdx }

/-- `_map_blocks(fn_block, fn_sector)`.  The fermionic version re-keys the sign table too, but
    only the entries of STORED blocks (`if s in self._blocks`, evaluated on the blocks before they
    are re-keyed); an entry left behind by a dropped block is discarded here. -/
def mapBlocks (a : Arr R) (fs : Sector → Sector) (fb : Blk R → Blk R) : Arr R :=
  { a with blocks := adict (a.blocks.map (fun (s, b) => (fs s, fb b))),
           phases := if a.fermi then
                       adict ((a.phases.filter (fun (s, _) => (alookup a.blocks s).isSome)).map
                         (fun (s, p) => (fs s, p)))
                     else a.phases }

/-- validity of an axes permutation argument -/
def isPerm (perm : List Nat) (n : Nat) : Bool :=
  perm.length == n && (List.range n).all (fun i => perm.contains i)

/-- `AbelianArray.transpose` (blocks and indices only) -/
def transposeA [Zero R] (a : Arr R) (axes : List Nat) : Arr R :=
  { a with indices := permuted a.indices axes,
           blocks := adict (a.blocks.map (fun (s, b) => (permuted s axes, b.transposeK axes))) }

def reversedAxes (n : Nat) : List Nat := (List.range n).reverse

/-- `AbelianArray.conj` -/
def conjA [Conj R] (a : Arr R) : Arr R :=
  { a with blocks := a.blocks.map (fun (s, b) => (s, b.conjK)),
           indices := a.indices.map Index.conj,
           charge := a.sym.sign a.charge true }

/-- `AbelianArray.squeeze(axis)`; `axis = none` squeezes every size-one axis -/
def squeeze (a : Arr R) (axis : Option (List Nat)) : Except Err (Arr R) := do
  let zeroC := a.sym.zero
  let mut keep : List Nat := []
  for (ix, ax) in a.indices.zipIdx do
    let remove ← match axis with
      | none => pure (ix.sizeTotal == 1)
      | some axs =>
        if axs.contains ax then
          if ix.sizeTotal > 1 then throw Err.value else pure true
        else pure false
    if remove then
      match ix.cm with
      | [(c, _)] => if c != zeroC then throw Err.value
      | _ => throw Err.value
    else
      keep := keep ++ [ax]
  let a' := a.mapBlocks (fun s => permuted s keep) (fun b => b.squeezeK keep)
  return { a' with indices := permuted a.indices keep }

/-- `AbelianArray.expand_dims(axis, c, dual)`; `axis` already normalised to `0..ndim` -/
def expandDims (a : Arr R) (axis : Nat) (c : Option Charge) (dual : Option Bool) : Arr R :=
  let dual := match dual with
    | some d => d
    | none =>
      if axis > 0 then (a.indices.getD (axis - 1) default).dual
      else if axis < a.ndim then (a.indices.getD axis default).dual
      else false
  let (c, newCharge) := match c with
    | none => (a.sym.zero, a.charge)
    | some c => (c, a.sym.combine [a.charge, a.sym.sign c dual])
  let a' := a.mapBlocks (fun s => s.take axis ++ [c] ++ s.drop axis) (fun b => b.expandK axis)
  { a' with indices := a.indices.take axis ++ [Index.mk [(c, 1)] dual none] ++ a.indices.drop axis,
            charge := newCharge }

/-- value view: the stored element at an address `(sector, offsets)`, pending sign included,
    zero when the sector is not stored -/
def elem [Zero R] [Neg R] (a : Arr R) (sector : Sector) (off : List Nat) : R :=
  match alookup a.blocks sector with
  | none => 0
  | some b => if alookup a.phases sector == some (-1) then - b.get off else b.get off

/-- position along an axis with sorted chargemap `cm` ↦ (charge, offset inside the charge) -/
def locate : List (Charge × Nat) → Nat → Option (Charge × Nat)
  | [], _ => none
  | (k, d) :: rest, p => if p < d then some (k, p) else locate rest (p - d)

/-- dense multi-index ↦ address (sector, offsets) -/
def locateAll (indices : List Index) (p : List Nat) : Option (Sector × List Nat) :=
  (List.zipWith (fun (ix : Index) q => locate (Index.sortCm ix.cm) q) indices p).mapM id
    |>.map (fun l => (l.map (·.1), l.map (·.2)))

/-- `to_dense`, by meaning: the dense array whose entry at a position is the element stored at
    the address that position has in the sorted charge tables (zero for a missing sector).
    Python builds the same array by recursive concatenation over `sorted(charges)`; it raises
    when some index has an empty charge table. `raw = true` ignores pending signs
    (`AbelianArray.to_dense` on a fermionic array). -/
def toDenseA [Zero R] [Neg R] (a : Arr R) (raw : Bool := false) : Except Err (Blk R) :=
  if a.indices.any (fun ix => ix.cm.isEmpty) then .error Err.value
  else .ok (Blk.ofFn a.shape (fun p =>
    match locateAll a.indices p with
    | some (sec, off) => if raw then ({ a with phases := [] } : Arr R).elem sec off else a.elem sec off
    | none => 0))

end Arr
end SymmModel
