/-
  SymmModel.Driver.HeapH — line-protocol handler for property C14 (heap model of aliasing).

    {"id": n, "kind": "heapOp", "op": NAME, "inplace": bool,
     "operands": [ {"fermi": bool, "nblocks": k, "phases": [i, ...]} | {"alias": j}, ... ]}
      → {"id": n,
         "targets": [operand indices the call is asked to modify],
         "changed": [[operand index, "array" | "blocks" | "phases"], ...],
         "results": [{"is_operand": j | null,
                      "blocks_shared": [operand indices whose block dict IS the result's block dict],
                      "phases_shared": [operand indices whose sign dict IS the result's sign dict],
                      "blocks_new": bool, "phases_new": bool | null}, ...]}

  The operands are built as abstract objects (block dict with keys `0..k-1` holding distinct buffers,
  sign dict holding `-1` for the listed keys); `{"alias": j}` passes operand `j` again (`x + x`).
  The operation is run on the heap model with generic parameters (only the object graph matters);
  `changed` lists the operand objects whose slots / items differ afterwards — the model's prediction
  of what may be observed to change; `results` describes the identity of the returned objects' dicts.
  A malformed request is an error, never defaulted.
-/
import SymmModel.Driver.Codec
import SymmModel.Model.Heap
namespace SymmModel.Driver
open Lean SymmModel SymmModel.Heap

namespace HeapH

def fk : Key → Key := (· + 1)
def fi : Nat → Nat := (· + 1)
def fc : Int → Int := fun c => -c
def sg : Key → Int := fun k => if k % 2 == 1 then -1 else 1
def odd : Key → Bool := fun k => k % 2 == 1
def plan : Dict → List (Key × List BufId) := fun d => if d.isEmpty then [] else [(0, d.map (·.2.toNat))]
def split : Dict → List (Key × BufId) := fun d => d.map fun e => (e.1, e.2.toNat)
def expandP : ExpandP := ⟨fk, fi, id⟩
def fuseP : FuseP := ⟨plan, fi⟩
def unfuseP (fermi : Bool) : UnfuseP := ⟨split, fi, if fermi then some (some odd, sg) else none⟩
def fuseFP : FuseFP := ⟨fk, fi, sg, some odd, some sg, fuseP⟩
def alignP : AlignP := ⟨fun _ b k => b.has k, fun a _ k => a.has k, fun c _ => c.indices + 1, fun _ c => c.indices + 1⟩
def tdotP : TdotP :=
  ⟨fun a b => (a.filter fun e => b.has e.1).map fun e => (e.1, [e.2.toNat, (b.getD e.1 0).toNat]),
   fun a b => a.indices + b.indices, fun a b => a.charge + b.charge⟩
def fusedP : FusedP := ⟨alignP, some fuseP, some fuseP, tdotP, some (unfuseP false), some (unfuseP false)⟩
def factorP (fermi : Bool) : FactorP :=
  ⟨fun c => c.indices + 1, fun c => c.indices + 2, id, fermi, if fermi then some odd else none⟩

def opOf (name : String) (fermi : Bool) : D Op :=
  match name with
  | "copy" => pure .copy
  | "copy_with" => pure (.copyWith {})
  | "copy_with_indices" => pure (.copyWith { indices := some 7 })
  | "modify" => pure (.modify { indices := some 7 })
  | "apply_to_arrays" => pure (.applyToArrays tFn)
  | "map_blocks" => pure (.mapBlocks fk tFn)
  | "set_params" => pure (.setParams [(0, 99)])
  | "fill_missing_blocks" => pure (.fillMissing fun c => (c.blocks.keys.map (· + 1)))
  | "drop_missing_blocks" => pure (.dropMissing fun b => b % 2 == 0)
  | "scalar" => pure (.scalarOp tMul)
  | "unary" => pure (if fermi then .unaryOpF tFn else .unaryOpA tFn)
  | "conj" => pure (if fermi then .conjF sg true fi fc fi (fun c => c.oddpos % 2 == 1) else .conjA fi fc)
  | "transpose" => pure (if fermi then .transposeF fk fi sg true else .transposeA fk fi)
  | "dagger" => pure (if fermi then .daggerF fk fi fc fi (fun c => c.oddpos % 2 == 1) (some odd)
                     else .daggerA fk fi fi fc)
  | "squeeze" => pure (.squeeze fk fi)
  | "expand_dims" => pure (.expandDims expandP)
  | "fuse_core" => pure (.fuseCore fuseP)
  | "fuse" => pure (if fermi then .fuseF (some fuseFP) [expandP] else .fuseA (some fuseP) [expandP])
  | "fuse_empty" => pure (if fermi then .fuseF none [] else .fuseA none [])
  | "unfuse" => pure (if fermi then .unfuseF (unfuseP true) else .unfuseA (unfuseP false))
  | "unfuse_all" => pure (.unfuseAll [.unfuse fermi (unfuseP fermi), .unfuse fermi (unfuseP fermi)])
  | "reshape" => pure (.reshape [.unfuse fermi (unfuseP fermi),
      (if fermi then .fuseF (some fuseFP) [] else .fuseA (some fuseP) []), .expand expandP])
  | "multiply_diagonal" => pure (.multiplyDiagonal id)
  | "sync_charges" => pure (.syncCharges fun c => c.indices + 1)
  | "phase_flip" => pure (.phaseFlip odd false)
  | "phase_transpose" => pure (.phaseTranspose sg)
  | "phase_sector" => pure (.phaseSector 0)
  | "phase_global" => pure .phaseGlobal
  | "phase_sync" => pure .phaseSync
  | "add" => pure (if fermi then .binaryF .outer else .binaryA .outer)
  | "sub" => pure (if fermi then .binaryF .strict else .binaryA .strict)
  | "mul" => pure (if fermi then .binaryF .inner else .binaryA .inner)
  | "align_axes" => pure (.alignAxes alignP)
  | "tensordot_blockwise" => pure (.tdotBlockwise tdotP)
  | "tensordot_fused" => pure (.tdotFused fusedP)
  | "tensordot" =>
    pure (if fermi then
      .tdotFermionic ⟨fk, fi, sg, fk, fi, sg, sg, true, odd, false, some fusedP, tdotP,
        fun a _ => a.oddpos % 2 == 1, fun a b => a.oddpos + b.oddpos⟩
    else .tdotFused fusedP)
  | "qr" => pure (.qr (factorP fermi))
  | "svd" => pure (.svd (factorP fermi))
  | "svd_truncated" => pure (.svdTruncated (factorP fermi) ⟨[0], fi, true, true⟩)
  | "eigh" => pure (.eigh (factorP fermi) odd)
  | "solve" => pure (.solve (factorP fermi) fun a b => b.charge - a.charge)
  | s => throw s!"unknown heap operation {s}"

/-- allocate one abstract operand -/
def mkOperand (h : Heap) (fermi : Bool) (nblocks : Nat) (phases : List Nat) : Heap × ObjId :=
  let r := (List.range nblocks).foldl (fun (acc : Heap × Dict) k =>
    let nb := newBuffer acc.1 0 []
    (nb.1, acc.2 ++ [(k, (nb.2 : Int))])) (h, [])
  let b := newDict r.1 r.2
  let p : Heap × Option DictId :=
    if fermi then
      let q := newDict b.1 (phases.map fun k => (k, (-1 : Int)))
      (q.1, some q.2)
    else (b.1, none)
  allocArray p.1 { indices := 1, charge := 0, blocks := b.2, phases := p.2, oddpos := if fermi then 1 else 0 }

def decOperands (js : List Json) : D (Heap × List ObjId × Bool) := do
  let mut h : Heap := {}
  let mut ids : List ObjId := []
  let mut fermi0 := false
  let mut first := true
  for j in js do
    match fieldOpt j "alias" with
    | some a =>
      let k ← getNat a
      match ids[k]? with
      | some x => ids := ids ++ [x]
      | none => throw s!"alias {k} out of range"
    | none =>
      let fermi ← getBool (← field j "fermi")
      let nb ← getNat (← field j "nblocks")
      let ph ← listOf getNat (← field j "phases")
      if first then fermi0 := fermi
      let r := mkOperand h fermi nb ph
      h := r.1
      ids := ids ++ [r.2]
    first := false
  pure (h, ids, fermi0)

def partsOf (h : Heap) (x : ObjId) : List (String × ObjId) :=
  match h.arrOf x with
  | some a => [("array", x), ("blocks", a.blocks)] ++ (a.phases.map fun p => ("phases", p)).toList
  | none => [("array", x)]

def idxsWhere {α : Type} (l : List α) (p : α → Bool) : List Nat :=
  (List.range l.length).filter fun i => match l[i]? with | some a => p a | none => false

def run (j : Json) : D Json := do
  let name ← getStr (← field j "op")
  let inplace ← getBool (← field j "inplace")
  let (h, ids, fermi) ← decOperands (← getArr (← field j "operands")).toList
  let op ← opOf name fermi
  if ids.length < op.arity then throw s!"{name} needs {op.arity} operands"
  let r := op.run inplace h ids
  let h' := r.1
  let mut changed : Array Json := #[]
  for i in List.range ids.length do
    -- report each aliased object once, under its first index
    if (ids.take i).contains (ids.getD i 0) then continue
    for (part, o) in partsOf h (ids.getD i 0) do
      if h'.get? o != h.get? o then
        changed := changed.push (Json.arr #[encNat i, Json.str part])
  let opnd := ids.map fun x => h.arrOf x
  let results := r.2.map fun x =>
    let isOp := idxsWhere ids (· == x)
    match h'.arrOf x with
    | some a =>
      Json.mkObj [
        ("is_operand", match isOp with | i :: _ => encNat i | [] => Json.null),
        ("blocks_shared", encNats (idxsWhere opnd fun o => match o with
          | some oa => oa.blocks == a.blocks || oa.phases == some a.blocks | none => false)),
        ("phases_shared", encNats (idxsWhere opnd fun o => match o, a.phases with
          | some oa, some p => oa.blocks == p || oa.phases == some p | _, _ => false)),
        ("blocks_new", Json.bool (decide (h.size ≤ a.blocks))),
        ("phases_new", match a.phases with | some p => Json.bool (decide (h.size ≤ p)) | none => Json.null)]
    | none => Json.mkObj [("is_operand", Json.null), ("not_an_array", Json.bool true)]
  pure (Json.mkObj [("changed", Json.arr changed), ("results", Json.arr results.toArray),
    ("targets", encNats (op.targets inplace))])

end HeapH

def handleHeap (kind : String) (j : Json) : Option (D Json) :=
  match kind with
  | "heapOp" => some (HeapH.run j)
  | _ => none

end SymmModel.Driver
