/-
  SymmModel.Driver.Heap2H — line-protocol handler for the operations of `SymmModel.Model.Heap2`
  (property C14, extension of `Driver/HeapH.lean`; same request / response format).

    {"id": n, "kind": "heapOp2", "op": NAME, "fermi": bool (only for operations without operands),
     "operands": [ {"fermi": bool, "nblocks": k, "phases": [i, ...]} | {"alias": j}, ... ]}
      → {"id": n, "targets": [], "changed": [[operand index, "array" | "blocks" | "phases"], ...],
         "results": [ {"is_operand": j | null, "blocks_shared": [...], "phases_shared": [...],
                       "blocks_new": bool, "phases_new": bool | null}
                    | {"is_operand": null, "not_an_array": true, "dict_shared": [...], "dict_new": bool} ]}

  A result that is a bare dict (`get_params`) is described by `dict_shared` (operand indices one of
  whose dicts IS that dict object) and `dict_new`.  A malformed request is an error, never defaulted.
-/
import SymmModel.Driver.HeapH
import SymmModel.Model.Heap2
namespace SymmModel.Driver
open Lean SymmModel SymmModel.Heap

namespace Heap2H
open HeapH

def einsumP : EinsumP := ⟨fun d => d.map fun e => (e.1 + 1, [e.2.toNat]), fi⟩

def matmul (flip scalar : Bool) : Op2 :=
  .matmulF (if flip then some odd else none) tdotP (fun a _ => a.oddpos % 2 == 1)
    (fun a b => a.oddpos + b.oddpos) scalar

def opOf (name : String) (fermi : Bool) : D Op2 :=
  match name with
  | "observe1" => pure (.observe 1)
  | "observe2" => pure (.observe 2)
  | "get_params" => pure .getParams
  | "reduce" => pure (if fermi then .reduceF else .observe 1)
  | "to_dense" => pure (if fermi then .toDenseF else .observe 1)
  | "allclose" => pure (if fermi then .allcloseF else .observe 2)
  | "trace" => pure (if fermi then .traceF none else .observe 1)
  | "trace_flip" => pure (if fermi then .traceF (some odd) else .observe 1)
  | "clip" => pure (if fermi then .clipF tFn else .clipA tFn)
  | "einsum" => pure (if fermi then .einsumF fk fi sg einsumP false else .einsumA einsumP false)
  | "einsum_scalar" => pure (if fermi then .einsumF fk fi sg einsumP true else .einsumA einsumP true)
  | "matmul" => if fermi then pure (matmul false false) else throw "abelian matmul is heapOp tensordot_blockwise"
  | "matmul_flip" => if fermi then pure (matmul true false) else throw "abelian matmul is heapOp tensordot_blockwise"
  | "matmul_scalar" => if fermi then pure (matmul false true) else throw "abelian matmul is heapOp tensordot_blockwise"
  | "matmul_flip_scalar" => if fermi then pure (matmul true true) else throw "abelian matmul is heapOp tensordot_blockwise"
  | "construct" => pure (.construct 1 0 [(0, .kern tFn []), (1, .kern tFn [])] fermi (if fermi then 1 else 0))
  | "from_fill" => pure (.fromFill 1 0 fermi (if fermi then 1 else 0) [0, 1, 2])
  | s => throw s!"unknown heap2 operation {s}"

def run (j : Json) : D Json := do
  let name ← getStr (← field j "op")
  let (h, ids, fermi0) ← decOperands (← getArr (← field j "operands")).toList
  let fermi ← match fieldOpt j "fermi" with
    | some b => getBool b
    | none => pure fermi0
  let op ← opOf name fermi
  if ids.length < op.arity then throw s!"{name} needs {op.arity} operands"
  let r := op.run h ids
  let h' := r.1
  let mut changed : Array Json := #[]
  for i in List.range ids.length do
    if (ids.take i).contains (ids.getD i 0) then continue
    for (part, o) in partsOf h (ids.getD i 0) do
      if h'.get? o != h.get? o then
        changed := changed.push (Json.arr #[encNat i, Json.str part])
  let opnd := ids.map fun x => h.arrOf x
  let results := r.2.map fun x =>
    let isOp := idxsWhere ids (· == x)
    match h'.arrOf x with
    | some a =>
      Json.mkObj [
        ("is_operand", match isOp with | i :: _ => encNat i | [] => Json.null),
        ("blocks_shared", encNats (idxsWhere opnd fun o => match o with
          | some oa => oa.blocks == a.blocks || oa.phases == some a.blocks | none => false)),
        ("phases_shared", encNats (idxsWhere opnd fun o => match o, a.phases with
          | some oa, some p => oa.blocks == p || oa.phases == some p | _, _ => false)),
        ("blocks_new", Json.bool (decide (h.size ≤ a.blocks))),
        ("phases_new", match a.phases with | some p => Json.bool (decide (h.size ≤ p)) | none => Json.null)]
    | none =>
      Json.mkObj [("is_operand", Json.null), ("not_an_array", Json.bool true),
        ("dict_shared", encNats (idxsWhere opnd fun o => match o with
          | some oa => oa.blocks == x || oa.phases == some x | none => false)),
        ("dict_new", Json.bool (decide (h.size ≤ x)))]
  pure (Json.mkObj [("changed", Json.arr changed), ("results", Json.arr results.toArray),
    ("targets", encNats ([] : List Nat))])

end Heap2H

def handleHeap2 (kind : String) (j : Json) : Option (D Json) :=
  match kind with
  | "heapOp2" => some (Heap2H.run j)
  | _ => none

end SymmModel.Driver
