/-
  SymmModel.Driver.Main — line protocol dispatcher.
  One JSON object per input line, one JSON object per output line, same order.
    {"id": n, "kind": "prog", "env": {name: VAL}, "steps": [STEP]}  → {"id": n, "results": [RES]}
    {"id": n, "kind": "valid", "arr": ARR}                             → {"id": n, "ok": bool, "reason": str}
  STEP = {"out": [names], "op": str, "in": [names], "params": {...}}
  RES  = {"ok": [VAL]} | {"raise": kind} | {"skipped": true}
  A line that cannot be decoded is answered with {"id": n, "bad": "..."}; it is never defaulted.
-/
import SymmModel.Driver.Ops
import SymmModel.Model.DType
namespace SymmModel.Driver
open Lean SymmModel

def runProg (j : Json) : D Json := do
  let envJ ← field j "env"
  let env0 ← match envJ with
    | .obj kvs => kvs.toList.mapM (fun (k, v) => do pure (k, ← decVal v))
    | _ => throw "env must be an object"
  let steps ← getArr (← field j "steps")
  let mut env : List (String × Val) := env0
  let mut out : Array Json := #[]
  let mut dead := false
  for st in steps do
    if dead then
      out := out.push (Json.mkObj [("skipped", Json.bool true)])
    else
      let op ← getStr (← field st "op")
      let inNames ← listOf getStr (← field st "in")
      let outNames ← listOf getStr (← field st "out")
      let params := (fieldOpt st "params").getD (Json.mkObj [])
      let ins ← inNames.mapM (fun n => match alookup env n with
        | some v => pure v
        | none => throw s!"unbound name {n}")
      match ← evalStep op ins params with
      | .error e =>
        out := out.push (Json.mkObj [("raise", encErr e)])
        dead := true
      | .ok vals =>
        out := out.push (Json.mkObj [("ok", Json.arr (vals.map encVal).toArray)])
        for (n, v) in outNames.zip vals do
          env := ainsert env n v
  pure (Json.mkObj [("results", Json.arr out)])

def handleCore (kind : String) (j : Json) : Option (D Json) :=
  match kind with
  | "prog" => some (runProg j)
  | "valid" => some (do
      let a ← decArr (← field j "arr")
      pure (Json.mkObj [("ok", Json.bool a.validB), ("reason", Json.str a.invalidReason)]))
  | "dtype" => some (do
      -- {"queries": [["promote", a, b] | ["real", a] | ["op", opname, ex, [args]]]}
      let qs ← getArr (← field j "queries")
      let dt (x : Json) : D DType := do
        match DType.ofName? (← getStr x) with
        | some d => pure d
        | none => throw "unknown dtype"
      let rs ← qs.toList.mapM (fun q => do
        let a ← getArr q
        match a.toList with
        | [.str "promote", x, y] => pure (Json.str (DType.promote (← dt x) (← dt y)).name)
        | [.str "real", x] => pure (Json.str (← dt x).realPart.name)
        | [.str "op", .str o, ex, args] =>
          let op ← match o with
            | "keep" => pure DOp.keep | "binary" => pure DOp.binary | "zerosLike" => pure DOp.zerosLike
            | "insertInto" => pure DOp.insertInto | "real" => pure DOp.real
            | _ => throw "unknown dop"
          pure (Json.str (op.result (← dt ex) (← listOf dt args)).name)
        | _ => throw "bad dtype query")
      pure (Json.mkObj [("answers", Json.arr rs.toArray)]))
  | _ => none

end SymmModel.Driver
