/-
  SymmModel.Driver.CacheH — protocol handler of the C15 model (SymmModel/Model/Cache.lean).

    {"kind":"cacheHistory","maxsize":m,"keys":[k…],"policy":POL?,"bypass":[k…]?,"init":[k…]?}
        → {"events":[str…], "results":[int|null…], "contents":[[k…]…], "final":[k…]}
          (abstract keys: the cached function is the identity on naturals; `contents[i]` is the
           cache, oldest first, after call i)
    {"kind":"schedule","maxsize":m,"progs":[[k…]…],"sched":[thread…],"policy":POL?,"init":[k…]?}
        → {"ops":[str…], "threads":[{"out":[[k,v]…],"raised":bool,"pc":str,"todo":[k…]}…],
           "cache":[k…], "anyRaised":bool}
          (`ops[i]` = which atomic dict operation step i performed: "lookup" | "moveToEnd" |
           "insert" | "lenTest" | "pop" | "return" (disabled / bypass: no dict operation) |
           "idle" (finished, dead or unknown thread))
    {"kind":"modeCtx","init":MODE,"prog":[ACT…]}
        → {"trace":[MODE…], "final":MODE, "raised":bool}
          MODE = string | null;  ACT = "get" | "raise" | {"set":MODE} | {"with":MODE,"body":[ACT…]}
                                     | {"try":[ACT…]}
    {"kind":"keyOf","arr":ARR,"groups":[[ax…]…]}  → {"key": str}   (rendered key tree)
    POL = {"touch":bool,"popLast":bool,"guarded":bool}   (default: the code in /repo)
    `init` = warm-up calls made sequentially (same policy) on an empty cache before the history /
    before the threads start.
-/
import SymmModel.Driver.Codec
import SymmModel.Model.Cache
namespace SymmModel.Driver
open Lean SymmModel FuseCache

def cacheNatSpec (bypass : List Nat) : CacheSpec Nat Nat Nat :=
  { keyOf := id, compute := id, bypass := fun k => bypass.contains k }

def decPolicy (j : Json) : D Policy := do
  match fieldOpt j "policy" with
  | none => pure Policy.code
  | some p =>
    pure { touch := ← getBool (← field p "touch"),
           popLast := ← getBool (← field p "popLast"),
           guarded := ← getBool (← field p "guarded") }

def decNatsOpt (j : Json) (k : String) : D (List Nat) :=
  match fieldOpt j k with
  | none => pure []
  | some v => listOf getNat v

def encEvent : Event → Json
  | .disabled => "disabled" | .bypass => "bypass" | .hit => "hit" | .miss => "miss"
  | .missEvict => "missEvict" | .missRaise => "missRaise"

def encKeys (es : List (Nat × Nat)) : Json := encNats (es.map (·.1))

def runCacheHistory (j : Json) : D Json := do
  let maxsize ← getInt (← field j "maxsize")
  let keys ← listOf getNat (← field j "keys")
  let P ← decPolicy j
  let S := cacheNatSpec (← decNatsOpt j "bypass")
  let init ← decNatsOpt j "init"
  let mut c : FuseCache Nat Nat := (runCallsP P S ⟨[], maxsize⟩ init).2
  let mut events : Array Json := #[]
  let mut results : Array Json := #[]
  let mut contents : Array Json := #[]
  for k in keys do
    let r := callP P S c k
    events := events.push (encEvent r.ev)
    results := results.push (match r.res with | some v => encNat v | none => Json.null)
    contents := contents.push (encKeys r.cache.entries)
    c := r.cache
  pure (Json.mkObj [("events", Json.arr events), ("results", Json.arr results),
                    ("contents", Json.arr contents), ("final", encKeys c.entries)])

def pcName {β : Type} : Pc β → String
  | .lookup => "lookup" | .moveToEnd _ => "moveToEnd" | .insert => "insert"
  | .lenTest _ => "lenTest" | .pop _ => "pop"

/-- the dict operation the next step of thread `i` performs -/
def opOfStep (S : CacheSpec Nat Nat Nat) (m : Machine Nat Nat Nat) (i : Nat) : String :=
  match m.threads[i]? with
  | none => "idle"
  | some t =>
    if !t.running then "idle"
    else match t.pc, t.todo with
      | .lookup, x :: _ => if m.cache.maxsize == 0 || S.bypass x then "return" else "lookup"
      | pc, _ => pcName pc

def runSchedule (j : Json) : D Json := do
  let maxsize ← getInt (← field j "maxsize")
  let progs ← listOf (listOf getNat) (← field j "progs")
  let sched ← listOf getNat (← field j "sched")
  let P ← decPolicy j
  let S := cacheNatSpec (← decNatsOpt j "bypass")
  let init ← decNatsOpt j "init"
  let mut m : Machine Nat Nat Nat := ⟨(runCallsP P S ⟨[], maxsize⟩ init).2, spawn progs⟩
  let mut ops : Array Json := #[]
  for i in sched do
    ops := ops.push (Json.str (opOfStep S m i))
    m := stepAt P S m i
  let threads := m.threads.map (fun t => Json.mkObj [
    ("out", Json.arr (t.out.map (fun p => encNats [p.1, p.2])).toArray),
    ("raised", Json.bool t.raised),
    ("pc", Json.str (pcName t.pc)),
    ("todo", encNats t.todo)])
  pure (Json.mkObj [("ops", Json.arr ops), ("threads", Json.arr threads.toArray),
                    ("cache", encKeys m.cache.entries), ("anyRaised", Json.bool m.anyRaised)])

def decModeVal (j : Json) : D (Option String) := match j with
  | .null => pure none
  | .str s => pure (some s)
  | _ => throw s!"bad mode {j.compress}"

def encModeVal : Option String → Json
  | none => Json.null
  | some s => Json.str s

partial def decAct (j : Json) : D (ModeCtx.Act String) := do
  match j with
  | .str "get" => pure .get
  | .str "raise" => pure .raise
  | .obj _ =>
    match j.getObjVal? "set", j.getObjVal? "with", j.getObjVal? "try" with
    | .ok m, _, _ => pure (.set (← decModeVal m))
    | _, .ok m, _ => pure (.withMode (← decModeVal m) (← listOf decAct (← field j "body")))
    | _, _, .ok b => pure (.tryExcept (← listOf decAct b))
    | _, _, _ => throw s!"bad action {j.compress}"
  | _ => throw s!"bad action {j.compress}"

def runModeCtx (j : Json) : D Json := do
  let init ← decModeVal (← field j "init")
  let prog ← listOf decAct (← field j "prog")
  let r := ModeCtx.execList prog init
  pure (Json.mkObj [("trace", Json.arr (r.trace.map encModeVal).toArray),
                    ("final", encModeVal r.state), ("raised", Json.bool r.raised)])

def runKeyOf (j : Json) : D Json := do
  let a ← decArr (← field j "arr")
  let groups ← listOf (listOf getNat) (← field j "groups")
  pure (Json.mkObj [("key", Json.str (keyOfArr a groups).render)])

def handleCache (kind : String) (j : Json) : Option (D Json) :=
  match kind with
  | "cacheHistory" => some (runCacheHistory j)
  | "schedule" => some (runSchedule j)
  | "modeCtx" => some (runModeCtx j)
  | "keyOf" => some (runKeyOf j)
  | _ => none

end SymmModel.Driver
