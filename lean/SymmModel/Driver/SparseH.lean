/-
  SymmModel.Driver.SparseH — line-protocol handler for the model of the sparsity management and
  scalar extraction methods (Model/Sparse.lean; properties C08 / C01 / C16 / C20).

    {"id": n, "kind": "sparse", "fn": F, "arr": ARR, …}  →  {"id": n, "r": A}

      F = "fill"        fill_missing_blocks()      A = {"ok": ARR} | {"raise": E}
      F = "drop"        drop_missing_blocks()      A = {"ok": ARR}
      F = "sparsity"    get_sparsity()             A = {"ok": [stored, valid]} | {"raise": E}
      F = "gen"         tuple(gen_valid_sectors()) A = {"ok": [SECTOR, …]}
      F = "allclose"    "other": ARR               A = {"ok": bool}
      F = "item"                                   A = {"ok": SCALAR} | {"raise": E}
      F = "float" | "int" | "complex" | "bool"   "cplx": bool (dtype of the data is complex)
                                                   A = {"ok": SCALAR | int | bool} | {"raise": E}
      F = "get_params"                             A = {"ok": [BLOCK, …]}
      F = "set_params"  "params": [BLOCK, …]       A = {"ok": ARR}
      F = "roundtrip"   set_params(get_params())   A = {"ok": ARR}

      ARR as in Driver/Codec.lean (`decArr` / `encArr`), BLOCK = {"sector": …, "shape": …, "data": …}
      E = Python exception class ("value" | "key" | "type" | "other" …)

  A malformed request is an error, never defaulted.
-/
import SymmModel.Driver.Codec
import SymmModel.Model.Sparse
namespace SymmModel.Driver
open Lean SymmModel

def encOutcome {α : Type} (enc : α → Json) : Except Err α → Json
  | .ok v => Json.mkObj [("ok", enc v)]
  | .error e => Json.mkObj [("raise", encErr e)]

def encBlocks (bl : List (Sector × Blk GRat)) : Json :=
  Json.arr (bl.map (fun (s, b) =>
    Json.mkObj [("sector", encSector s), ("shape", encNats b.shape),
                ("data", Json.arr (b.data.map encScalar))])).toArray

def decBlocks (j : Json) : D (List (Sector × Blk GRat)) :=
  listOf (fun b => do pure (← decSector (← field b "sector"), ← decBlk b)) j

def handleSparse (kind : String) (j : Json) : Option (D Json) :=
  match kind with
  | "sparse" => some (do
      let fn ← getStr (← field j "fn")
      let a ← decArr (← field j "arr")
      let r ← match fn with
        | "fill" => pure (encOutcome encArr a.fillMissing)
        | "drop" => pure (encOutcome encArr (.ok a.dropMissing))
        | "sparsity" => pure (encOutcome (fun (p : Nat × Nat) => Json.arr #[encNat p.1, encNat p.2]) a.getSparsity)
        | "gen" => pure (encOutcome (fun (l : List Sector) => Json.arr (l.map encSector).toArray) (.ok a.genValidSectors))
        | "allclose" => do
          let b ← decArr (← field j "other")
          pure (encOutcome Json.bool (.ok (a.allclose b)))
        | "item" => pure (encOutcome encScalar a.item)
        | "float" => do
          let c ← getBool (← field j "cplx")
          pure (encOutcome (fun (q : Rat) => encScalar ⟨q, 0⟩) (a.toFloat c))
        | "int" => do
          let c ← getBool (← field j "cplx")
          pure (encOutcome encInt (a.toInt c))
        | "complex" => pure (encOutcome encScalar a.toComplex)
        | "bool" => pure (encOutcome Json.bool a.toBool)
        | "get_params" => pure (encOutcome encBlocks (.ok a.getParams))
        | "set_params" => do
          let ps ← decBlocks (← field j "params")
          pure (encOutcome encArr (.ok (a.setParams ps)))
        | "roundtrip" => pure (encOutcome encArr (.ok (a.setParams a.getParams)))
        | f => throw s!"unknown sparse fn {f}"
      pure (Json.mkObj [("r", r)]))
  | _ => none

end SymmModel.Driver
