/-
  SymmModel.Driver.SymH — line-protocol handler for property C17 (group operations of the
  symmetries and sector enumeration).

    {"id": n, "kind": "sym", "sym": S, "qs": [Q, ...]}            → {"id": n, "rs": [A, ...]}
      Q = ["valid", C] | ["combine", [C, ...]] | ["sign", C, bool] | ["parity", C] | ["zero"]
      A = bool         | C                     | C                 | 0 | 1         | C
    {"id": n, "kind": "sym", "sym": S, "fn": F, "args": [C, ...], "dual": bool?}
                                                                    → {"id": n, "r": A}
    {"id": n, "kind": "gvs", "sym": S, "qs": [G, ...]}             → {"id": n, "rs": [GR, ...]}
      G  = {"indices": [[[C, ...], dual], ...], "charge": C, "probe": [[C, ...], ...]?}
      GR = {"sectors": [[C, ...], ...], "probe": [bool, ...]}
           (`Arr.genValidSectors` in generation order; `Arr.isValidSector` of each probe)
    {"id": n, "kind": "gvs", "sym": S, "indices": …, "charge": …, "probe": …?}  → {"id": n, GR…}

  `C = [c0, c1]`.  A malformed request is an error, never defaulted.
-/
import SymmModel.Driver.Codec
namespace SymmModel.Driver
open Lean SymmModel

def encBit (b : Bool) : Json := encNat (if b then 1 else 0)

def symQuery (s : Sym) (q : Json) : D Json := do
  let a ← getArr q
  match a.toList with
  | [.str "valid", c] => pure (Json.bool (s.valid (← decCharge c)))
  | [.str "combine", cs] => pure (encCharge (s.combine (← listOf decCharge cs)))
  | [.str "sign", c, d] => pure (encCharge (s.sign (← decCharge c) (← getBool d)))
  | [.str "parity", c] => pure (encBit (s.parity (← decCharge c)))
  | [.str "zero"] => pure (encCharge s.zero)
  | _ => throw s!"bad sym query {q.compress.take 80}"

def symSingle (s : Sym) (j : Json) : D Json := do
  let fn ← getStr (← field j "fn")
  let args ← listOf decCharge (← field j "args")
  match fn, args with
  | "valid", [c] => pure (Json.bool (s.valid c))
  | "combine", cs => pure (encCharge (s.combine cs))
  | "sign", [c] => pure (encCharge (s.sign c (← getBool (← field j "dual"))))
  | "parity", [c] => pure (encBit (s.parity c))
  | "zero", [] => pure (encCharge s.zero)
  | _, _ => throw s!"bad sym call {fn}/{args.length}"

def decGvsIndex (j : Json) : D Index := do
  let a ← getArr j
  match a.toList with
  | [cs, d] =>
    let charges ← listOf decCharge cs
    pure (Index.mk (charges.map (fun c => (c, 1))) (← getBool d) none)
  | _ => throw s!"bad gvs index {j.compress.take 80}"

def gvsQuery (s : Sym) (q : Json) : D Json := do
  let indices ← listOf decGvsIndex (← field q "indices")
  let charge ← decCharge (← field q "charge")
  let probe ← match fieldOpt q "probe" with
    | none => pure []
    | some p => listOf decSector p
  let a : Arr GRat := { sym := s, fermi := false, indices := indices, charge := charge, blocks := [] }
  pure (Json.mkObj [
    ("sectors", Json.arr (a.genValidSectors.map encSector).toArray),
    ("probe", Json.arr (probe.map (fun sec => Json.bool (a.isValidSector sec))).toArray)])

def handleSym (kind : String) (j : Json) : Option (D Json) :=
  match kind with
  | "sym" => some (do
      let s ← decSym (← field j "sym")
      match fieldOpt j "qs" with
      | some qs => do
        let rs ← listOf (symQuery s) qs
        pure (Json.mkObj [("rs", Json.arr rs.toArray)])
      | none => do
        pure (Json.mkObj [("r", ← symSingle s j)]))
  | "gvs" => some (do
      let s ← decSym (← field j "sym")
      match fieldOpt j "qs" with
      | some qs => do
        let rs ← listOf (gvsQuery s) qs
        pure (Json.mkObj [("rs", Json.arr rs.toArray)])
      | none => gvsQuery s j)
  | _ => none

end SymmModel.Driver
