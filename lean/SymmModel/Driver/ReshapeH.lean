/-
  SymmModel.Driver.ReshapeH — plug-in handler of property C07.
    {"kind": "reshapeArgs", "cases": [CASE]}   → {"results": [{"plan": [unf, fuse, exp]} | {"raise": kind}]}
    {"kind": "reshapeArgs", …CASE fields…}      → {"plan": …} | {"raise": kind}
       CASE = {"shape": [nat], "newshape": [nat], "subsizes": [null | [nat]]}
    {"kind": "planWf", "cases": [WCASE]}        → {"results": [{"wf": bool, "sym": [nat] | null}]}
    {"kind": "planWf", …WCASE fields…}           → {"wf": bool, "sym": [nat] | null}
       WCASE = CASE + {"plan": [unf, fuse, exp]}   (a plan produced by the REAL planner)
    {"kind": "targets", "shapes": [[nat]]}       → {"results": [[[nat]]]}   (the domain the table quantifies over)
    {"kind": "fullReshape", "newshape": [int], "size": nat} → {"shape": [int]} | {"raise": kind}
  Batched forms exist so that the 47 660-pair domain costs a few driver lines only.
-/
import SymmModel.Driver.Codec
import SymmModel.Model.Reshape
namespace SymmModel.Driver
open Lean SymmModel SymmModel.C07

def decSubsizes (j : Json) : D (List (Option (List Nat))) :=
  listOf (fun e => match e with
    | .null => pure none
    | e => do pure (some (← listOf getNat e))) j

def encPlan (p : List Nat × List (List (List Nat)) × List Nat) : Json :=
  Json.arr #[encNats p.1,
             Json.arr (p.2.1.map (fun grouping => Json.arr (grouping.map encNats).toArray)).toArray,
             encNats p.2.2]

def decPlan (j : Json) : D Plan := do
  let a ← getArr j
  match a.toList with
  | [u, f, e] =>
    pure { unfuse := ← listOf getNat u,
           fuse := ← listOf (listOf (listOf getNat)) f,
           expand := ← listOf getNat e }
  | _ => throw "plan must be [axs_unfuse, axs_fuse, axs_expand]"

def reshapeArgsOne (j : Json) : D Json := do
  let shape ← listOf getNat (← field j "shape")
  let newshape ← listOf getNat (← field j "newshape")
  let subsizes ← decSubsizes (← field j "subsizes")
  match calcReshapeArgs shape newshape subsizes with
  | .ok p => pure (Json.mkObj [("plan", encPlan p)])
  | .error e => pure (Json.mkObj [("raise", encErr e)])

def planWfOne (j : Json) : D Json := do
  let shape ← listOf getNat (← field j "shape")
  let newshape ← listOf getNat (← field j "newshape")
  let subsizes ← decSubsizes (← field j "subsizes")
  let plan ← decPlan (← field j "plan")
  let sym : Json :=
    if shape.length == subsizes.length then
      match plan.exec (shape.zip subsizes) with
      | some r => encNats (SymShape.sizes r)
      | none => Json.null
    else Json.null
  pure (Json.mkObj [("wf", Json.bool (plan.wfB shape subsizes newshape)), ("sym", sym)])

def batched (one : Json → D Json) (j : Json) : D Json :=
  match fieldOpt j "cases" with
  | some cs => do
    let rs ← listOf one cs
    pure (Json.mkObj [("results", Json.arr rs.toArray)])
  | none => one j

def handleReshape (kind : String) (j : Json) : Option (D Json) :=
  match kind with
  | "reshapeArgs" => some (batched reshapeArgsOne j)
  | "planWf" => some (batched planWfOne j)
  | "targets" => some (do
      let shapes ← listOf (listOf getNat) (← field j "shapes")
      pure (Json.mkObj [("results", Json.arr (shapes.map (fun s =>
        Json.arr ((dedup (targets s)).map encNats).toArray)).toArray)]))
  | "fullReshape" => some (do
      let ns ← listOf getInt (← field j "newshape")
      let size ← getNat (← field j "size")
      match findFullReshape ns size with
      | .ok r => pure (Json.mkObj [("shape", Json.arr (r.map encInt).toArray)])
      | .error e => pure (Json.mkObj [("raise", encErr e)]))
  | _ => none

end SymmModel.Driver
