/-
  SymmModel.Driver.Ops — the operation interpreter of the line protocol: an environment of
  named values and steps `{"out": [...], "op": "...", "in": [...], "params": {...}}`.
  Dispatch between abelian and fermionic behaviour follows Python's method resolution
  (`a.fermi`).
-/
import SymmModel.Driver.Codec
import SymmModel.Model.Reshape
import SymmModel.Model.Construct
namespace SymmModel.Driver
open Lean SymmModel

inductive Val where
  | arr (a : Arr GRat)
  | vec (v : BVec GRat)
  | scalar (x : GRat)
  | blk (b : Blk GRat)
  | sectors (l : List Sector)
  deriving Inhabited

def encVal : Val → Json
  | .arr a => Json.mkObj [("arr", encArr a)]
  | .vec v => Json.mkObj [("vec", encVec v)]
  | .scalar x => Json.mkObj [("scalar", encScalar x)]
  | .blk b => Json.mkObj [("blk", encBlk b)]
  | .sectors l => Json.mkObj [("sectors", Json.arr (l.map encSector).toArray)]

def decVal (j : Json) : D Val := do
  match fieldOpt j "arr", fieldOpt j "vec", fieldOpt j "scalar", fieldOpt j "blk" with
  | some a, _, _, _ => pure (.arr (← decArr a))
  | _, some v, _, _ => pure (.vec (← decVec v))
  | _, _, some s, _ => pure (.scalar (← decScalar s))
  | _, _, _, some b => pure (.blk (← decBlk b))
  | _, _, _, _ => throw s!"bad value {j.compress.take 80}"

/-- result of a step: decoding problem (`bad`), a modelled Python exception, or values -/
abbrev StepRes := D (Except Err (List Val))

def asArr : Val → D (Arr GRat)
  | .arr a => pure a
  | _ => throw "expected array value"

def asVec : Val → D (BVec GRat)
  | .vec v => pure v
  | _ => throw "expected vector value"

def optField {α : Type} (p : Json) (k : String) (f : Json → D α) : D (Option α) :=
  match fieldOpt p k with
  | none => pure none
  | some j => do pure (some (← f j))

def boolField (p : Json) (k : String) (dflt : Bool) : D Bool := do
  match ← optField p k getBool with
  | some b => pure b
  | none => pure dflt

def decMode (p : Json) : D TdotMode := do
  match ← optField p "mode" getStr with
  | none => pure .auto
  | some "auto" => pure .auto
  | some "fused" => pure .fused
  | some "blockwise" => pure .blockwise
  | some s => throw s!"bad mode {s}"

def decFuseMode (p : Json) : D FuseMode := do
  match ← optField p "mode" getStr with
  | none => pure .insert
  | some "insert" => pure .insert
  | some "auto" => pure .insert
  | some "concat" => pure .concat
  | some s => throw s!"bad fuse mode {s}"

def decAxes (j : Json) : D AxesArg := do
  match j with
  | .arr a => match a.toList with
    | [x, y] => pure (.pair (← listOf getInt x) (← listOf getInt y))
    | _ => throw "bad axes"
  | _ => pure (.int (← getNat j))

def liftE {α : Type} (r : Except Err α) (f : α → List Val) : StepRes :=
  pure (r.map f)

def ok1 (v : Val) : StepRes := pure (pure [v])

/-- normalise a possibly negative axis -/
def normAxis (ax : Int) (n : Nat) : Nat := (if ax < 0 then ax + n else ax).toNat

def zipBlocks (f : GRat → GRat → GRat) (x y : Blk GRat) : Blk GRat := Blk.zipWith f x y

def evalStep (op : String) (ins : List Val) (p : Json) : StepRes := do
  match op, ins with
  | "transpose", [v] =>
    let a ← asArr v
    -- negative axes are normalised as numpy (and, since the fix, the sign routine) does
    let axesI ← optField p "axes" (listOf getInt)
    let axes := match axesI with
      | some l => l.map (fun x => (if a.ndim == 0 then x else x % (a.ndim : Int)).toNat)
      | none => Arr.reversedAxes a.ndim
    if !Arr.isPerm axes a.ndim then return .error Err.value
    if a.fermi then
      ok1 (.arr (a.transposeF axes (← boolField p "phase" true)))
    else ok1 (.arr (a.transposeA axes))
  | "conj", [v] =>
    let a ← asArr v
    if a.fermi then ok1 (.arr (a.conjF (← boolField p "pp" true) (← boolField p "pd" false)))
    else ok1 (.arr a.conjA)
  | "dagger", [v] =>
    let a ← asArr v
    if a.fermi then ok1 (.arr (a.daggerF (← boolField p "pd" false)))
    else ok1 (.arr (a.conjA.transposeA (Arr.reversedAxes a.ndim)))
  | "squeeze", [v] =>
    let a ← asArr v
    let axis ← optField p "axis" (listOf getNat)
    liftE (a.squeeze axis) (fun x => [.arr x])
  | "expand_dims", [v] =>
    let a ← asArr v
    let axis ← getInt (← field p "axis")
    let axis := if axis < 0 then axis + a.ndim + 1 else axis
    if axis < 0 || axis > a.ndim then return .error Err.index
    ok1 (.arr (a.expandDims axis.toNat (← optField p "c" decCharge) (← optField p "dual" getBool)))
  | "fuse", [v] =>
    let a ← asArr v
    let groups ← listOf (listOf getNat) (← field p "groups")
    let ee ← boolField p "expand_empty" true
    if a.fermi then liftE (a.fuseF groups (← decFuseMode p) ee) (fun x => [.arr x])
    else liftE (fuseA a groups (← decFuseMode p) ee) (fun x => [.arr x])
  | "fuse_core", [v] =>
    let a ← asArr v
    let groups ← listOf (listOf getNat) (← field p "groups")
    liftE (fuseCore a groups (← decFuseMode p)) (fun x => [.arr x])
  | "unfuse", [v] =>
    let a ← asArr v
    let axis ← getNat (← field p "axis")
    if a.fermi then liftE (a.unfuseF axis) (fun x => [.arr x])
    else liftE (unfuseA a axis) (fun x => [.arr x])
  | "unfuse_all", [v] =>
    let a ← asArr v
    if a.fermi then liftE a.unfuseAllF (fun x => [.arr x])
    else liftE (unfuseAllA a) (fun x => [.arr x])
  | "reshape", [v] =>
    let a ← asArr v
    let newshape ← listOf getInt (← field p "newshape")
    liftE (reshapeArr a newshape) (fun x => [.arr x])
  | "tensordot", [va, vb] =>
    let a ← asArr va; let b ← asArr vb
    let axes ← decAxes (← field p "axes")
    let mode ← decMode p
    if a.fermi then liftE (a.tensordotF b axes mode) (fun x => [.arr x])
    else liftE (tensordotA a b axes mode) (fun x => [.arr x])
  | "matmul", [va, vb] =>
    let a ← asArr va; let b ← asArr vb
    -- a rank-0 result is returned as a scalar (pending sign applied, 0 when no blocks align)
    let wrap (x : Arr GRat) : List Val := if x.ndim == 0 then [.scalar (x.elem [] [])] else [.arr x]
    if a.fermi then liftE (a.matmulF b) wrap
    else liftE (matmulA a b) wrap
  | "trace", [v] =>
    let a ← asArr v
    if a.fermi then liftE a.traceF (fun x => [.scalar x])
    else liftE (traceA a) (fun x => [.scalar x])
  | "einsum", [v] =>
    let a ← asArr v
    let lhs ← listOf getNat (← field p "lhs")
    let rhs ← listOf getNat (← field p "rhs")
    if a.fermi then liftE (a.einsumF lhs rhs) (fun x => [.arr x])
    else liftE (einsumA a lhs rhs) (fun x => [.arr x])
  | "multiply_diagonal", [va, vv] =>
    let a ← asArr va; let w ← asVec vv
    let axis ← getNat (← field p "axis")
    ok1 (.arr (multiplyDiagonal a w axis))
  | "align_axes", [va, vb] =>
    let a ← asArr va; let b ← asArr vb
    match ← decAxes (← field p "axes") with
    | .pair xa xb =>
      let (a', b') := dropMisaligned a b (xa.map Int.toNat) (xb.map Int.toNat)
      pure (pure [.arr a', .arr b'])
    | _ => throw "align_axes needs explicit axes"
  | "add", [va, vb] => binop va vb (· + ·) .outer
  | "sub", [va, vb] => binop va vb (· - ·) .strict
  | "mul", [va, vb] => binop va vb (· * ·) .inner
  | "smul", [v] =>
    let a ← asArr v
    let s ← decScalar (← field p "scalar")
    ok1 (.arr { a with blocks := a.blocks.map (fun (k, b) => (k, b.map (· * s))) })
  | "sdiv", [v] =>
    let a ← asArr v
    let s ← decScalar (← field p "scalar")
    if s == 0 then throw "division by zero scalar"
    ok1 (.arr { a with blocks := a.blocks.map (fun (k, b) => (k, b.map (· / s))) })
  | "neg", [v] =>
    let a ← asArr v
    ok1 (.arr { a with blocks := a.blocks.map (fun (k, b) => (k, b.negK)) })
  | "sum", [v] =>
    let a ← asArr v
    -- value-level sum: pending signs count (see DESIGN: reductions and lazy signs)
    let a := if a.fermi then a.phaseSync else a
    ok1 (.scalar (a.blocks.foldl (fun acc (_, b) => acc + b.sumAll) 0))
  | "norm2", [v] =>
    let a ← asArr v
    ok1 (.scalar (a.blocks.foldl (fun acc (_, b) =>
      acc + (b.map (fun x => (⟨x.normSq, 0⟩ : GRat))).sumAll) 0))
  | "to_dense", [v] =>
    let a ← asArr v
    if a.fermi then liftE a.toDenseF (fun x => [.blk x])
    else liftE a.toDenseA (fun x => [.blk x])
  | "phase_flip", [v] =>
    let a ← asArr v
    ok1 (.arr (a.phaseFlip (← listOf getNat (← field p "axs"))))
  | "phase_transpose", [v] =>
    let a ← asArr v
    let axesI ← optField p "axes" (listOf getInt)
    ok1 (.arr (a.phaseTranspose (axesI.map (fun l =>
      l.map (fun x => (if a.ndim == 0 then x else x % (a.ndim : Int)).toNat)))))
  | "phase_sector", [v] =>
    let a ← asArr v
    ok1 (.arr (a.phaseSector (← decSector (← field p "sector"))))
  | "phase_global", [v] => do let a ← asArr v; ok1 (.arr a.phaseGlobal)
  | "phase_sync", [v] => do let a ← asArr v; ok1 (.arr a.phaseSync)
  | "sync_charges", [v] => do let a ← asArr v; ok1 (.arr a.syncCharges)
  | "gen_valid_sectors", [v] => do let a ← asArr v; ok1 (.sectors a.genValidSectors)
  | "qr", [v] =>
    let a ← asArr v
    liftE (qrA Kernels.shapeOnly a) (fun (q, r) => [.arr q, .arr r])
  | "svd", [v] =>
    let a ← asArr v
    liftE (svdA Kernels.shapeOnly a) (fun (u, s, vh) => [.arr u, .vec s, .arr vh])
  | "eigh", [v] =>
    let a ← asArr v
    liftE (eighA Kernels.shapeOnly a) (fun (w, u) => [.vec w, .arr u])
  | "solve", [va, vb] =>
    let a ← asArr va; let b ← asArr vb
    liftE (solveA Kernels.shapeOnly a b) (fun x => [.arr x])
  | "apply_counts", [vu, vs, vv] =>
    let u ← asArr vu; let s ← asVec vs; let vh ← asArr vv
    let counts ← listOf getNat (← field p "counts")
    let (u', s', v') := applyCounts u s vh counts
    pure (pure [.arr u', .vec s', .arr v'])
  | "from_dense", [v] =>
    let d ← match v with
      | .blk b => pure b
      | _ => throw "from_dense expects a dense block"
    let (sym?, fermi, charge, oddpos) ← ctorCommon p
    let some sym := sym? | return .error Err.value
    let maps ← listOf (listOf decCharge) (← field p "maps")
    let duals ← listOf getBool (← field p "duals")
    liftE (fromDense sym fermi d maps duals charge oddpos) (fun x => [.arr x])
  | "from_blocks", [] =>
    let (sym?, fermi, charge, oddpos) ← ctorCommon p
    let some sym := sym? | return .error Err.value
    let blocks ← listOf (fun b => do pure (← decSector (← field b "sector"), ← decBlk b)) (← field p "blocks")
    let duals ← listOf getBool (← field p "duals")
    liftE (fromBlocks sym fermi blocks duals charge oddpos) (fun x => [.arr x])
  | "ctor", [] =>
    let (sym?, fermi, charge, oddpos) ← ctorCommon p
    let some sym := sym? | return .error Err.value
    let blocks ← listOf (fun b => do pure (← decSector (← field b "sector"), ← decBlk b)) (← field p "blocks")
    let indices ← listOf decIndex (← field p "indices")
    liftE (construct sym fermi indices charge blocks oddpos) (fun x => [.arr x])
  | "from_fill", [] =>
    let (sym?, fermi, charge, oddpos) ← ctorCommon p
    let some sym := sym? | return .error Err.value
    let indices ← listOf decIndex (← field p "indices")
    let fill (_ : Sector) (shp : List Nat) : Blk GRat :=
      ⟨shp, ((List.range (prod shp)).map (fun (k : Nat) => (⟨((k : Int) + 1 : Int), 0⟩ : GRat))).toArray⟩
    liftE (fromFillFn sym fermi indices charge fill oddpos) (fun x => [.arr x])
  | _, _ => throw s!"unknown op {op}/{ins.length}"
where
  /-- symmetry resolution shared by the constructors: `static` = the class's own symmetry
      (absent for the generic classes), `symmetry` = the argument (absent when omitted) -/
  ctorCommon (p : Json) : D (Option Sym × Bool × Option Charge × List (Int × Bool)) := do
    let st ← optField p "static" decSym
    let arg ← optField p "symmetry" decSym
    let fermi ← boolField p "fermi" false
    let charge ← optField p "charge" decCharge
    let oddpos ← match fieldOpt p "oddpos" with
      | none => pure []
      | some oj => listOf (fun q => do
          let a ← getArr q
          match a.toList with
          | [l, d] => pure (← getInt l, ← getBool d)
          | _ => throw "bad oddpos entry") oj
    match classSymmetry st arg with
    | .ok s => pure (some s, fermi, charge, oddpos)
    | .error _ => pure (none, fermi, charge, oddpos)
  binop (va vb : Val) (f : GRat → GRat → GRat) (m : Missing) : StepRes := do
    let a ← asArr va; let b ← asArr vb
    -- fermionic arrays sync both operands first (`FermionicArray._binary_blockwise_op`)
    let a := if a.fermi then a.phaseSync else a
    let b := if b.fermi then b.phaseSync else b
    match binaryBlockwise (zipBlocks f) m a.blocks b.blocks with
    | .ok bl => pure (pure [.arr { a with blocks := bl }])
    | .error e => pure (.error e)

end SymmModel.Driver
