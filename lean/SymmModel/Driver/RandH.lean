/-
  SymmModel.Driver.RandH — line-protocol handler for the random constructors of
  symmray/utils.py (Model/Rand.lean; properties C01 "construct", C16, C20).

    {"id": n, "kind": "randindex", "qs": [Q, ...]}   → {"id": n, "rs": [A, ...]}

  Q (field "fn" selects):
    {"fn": "index", "sym": S, "d": n | {"cm": [[C, n], ...]}, "dual": bool | null,
     "subsizes": SS, "draws": DR?, "dispatch": bool?}
        → {"ok": IX} | {"err": E}       ("dispatch": true goes through `randIndex`, otherwise the
                                          symmetry's own generator is called; same result)
    {"fn": "u1_charges", "n": n}        → {"ok": [int, ...]}
    {"fn": "u1u1_charges", "n": n}      → {"ok": [C, ...]}
    {"fn": "partition", "d": n, "n": n, "draw": [n, ...]}  → {"ok": [n, ...]} | {"err": E}
    {"fn": "choose_duals", "duals": DU, "ndim": n}         → {"ok": [bool | null, ...]} | {"err": E}
    {"fn": "get_rand", "sym": S, "shape": [n | {"cm": …} | {"index": {"cm": …, "dual": b}}, ...],
     "duals": DU, "charge": C | null, "fermi": bool, "subsizes": SS, "draws": [DR, ...]?,
     "oddpos": [[label, dual], ...]?, "dtype": "float32" | …}
        → {"ok": {"indices": [IX, ...], "charge": C, "sectors": [[C, ...], ...],
                  "shapes": [[n, ...], ...], "valid": bool, "reason": str,
                  "dtype": name, "casts": bool}} | {"err": E}
    {"fn": "blockvector", "size": n, "bs0": n}             → {"ok": [n, ...]}

  SS = "none" | "equal" | "maximal" | "minimal" | [n, ...]
  DU = "equal" | null | bool | [bool | null, ...]
  DR = {"dual": bool?, "charge": n?, "d0": n?, "charges": [C, ...]?, "ncharge": n?, "splits": [n, ...]?}
  IX = {"cm": [[C, n], ...], "dual": bool, "total": n, "wf": bool}   (`wf` = `Index.wfB sym`)
  A malformed request is an error, never defaulted.
-/
import SymmModel.Driver.Codec
import SymmModel.Model.Rand
namespace SymmModel.Driver
open Lean SymmModel SymmModel.Rand
namespace RandH

def decCm (j : Json) : D (List (Charge × Nat)) :=
  listOf (fun p => do
    let a ← getArr p
    match a.toList with
    | [c, d] => pure (← decCharge c, ← getNat d)
    | _ => throw "bad chargemap entry") j

def decSubsizes (j : Json) : D Subsizes :=
  match j with
  | .str "none" => pure .random
  | .str "equal" => pure .equal
  | .str "maximal" => pure .maximal
  | .str "minimal" => pure .minimal
  | .arr _ => do pure (.explicit (← listOf getNat j))
  | _ => throw s!"bad subsizes {j.compress.take 80}"

def decOptBool (j : Json) : D (Option Bool) :=
  match j with
  | .null => pure none
  | .bool b => pure (some b)
  | _ => throw s!"expected bool or null, got {j.compress.take 80}"

def decDualsArg (j : Json) : D DualsArg :=
  match j with
  | .str "equal" => pure .equal
  | .null => pure .none
  | .bool b => pure (.all b)
  | .arr _ => do pure (.seq (← listOf decOptBool j))
  | _ => throw s!"bad duals {j.compress.take 80}"

def decDraws (j : Json) : D Draws := do
  let dual ← match fieldOpt j "dual" with | some b => getBool b | none => pure false
  let charge ← match fieldOpt j "charge" with | some b => getNat b | none => pure 0
  let d0 ← match fieldOpt j "d0" with | some b => getNat b | none => pure 1
  let charges ← match fieldOpt j "charges" with | some b => listOf decCharge b | none => pure []
  let ncharge ← match fieldOpt j "ncharge" with | some b => getNat b | none => pure 1
  let splits ← match fieldOpt j "splits" with | some b => listOf getNat b | none => pure []
  pure { dual, charge, d0, charges, ncharge, splits }

def decDArg (j : Json) : D DArg :=
  match j with
  | .obj _ => do pure (.dict (← decCm (← field j "cm")))
  | _ => do pure (.size (← getNat j))

def decShapeEntry (j : Json) : D ShapeEntry :=
  match j with
  | .obj _ =>
    match fieldOpt j "index" with
    | some ij => do
      pure (.index (Index.mk (← decCm (← field ij "cm")) (← getBool (← field ij "dual")) none))
    | none => do pure (.dict (← decCm (← field j "cm")))
  | _ => do pure (.size (← getNat j))

def encCm (cm : List (Charge × Nat)) : Json :=
  Json.arr (cm.map (fun (c, d) => Json.arr #[encCharge c, encNat d])).toArray

def encRandIx (sym : Sym) (ix : Index) : Json :=
  Json.mkObj [("cm", encCm ix.cm), ("dual", Json.bool ix.dual), ("total", encNat ix.sizeTotal),
              ("wf", Json.bool (Index.wfB sym ix))]

def encExcept {α : Type} (enc : α → Json) : Except Err α → Json
  | .ok a => Json.mkObj [("ok", enc a)]
  | .error e => Json.mkObj [("err", encErr e)]

def randQuery (q : Json) : D Json := do
  let fn ← getStr (← field q "fn")
  match fn with
  | "index" =>
    let sym ← decSym (← field q "sym")
    let d ← decDArg (← field q "d")
    let dual ← match q.getObjVal? "dual" with
      | .ok v => decOptBool v
      | .error _ => throw "missing field dual"
    let ss ← decSubsizes (← field q "subsizes")
    let dr ← match fieldOpt q "draws" with | some j => decDraws j | none => pure default
    let dispatch ← match fieldOpt q "dispatch" with | some b => getBool b | none => pure true
    let r := if dispatch then randIndex sym d dual ss dr else
      match sym with
      | .Z2 => randZ2Index d dual ss dr
      | .Z2Z2 => randZ2Z2Index d dual ss dr
      | .U1 => randU1Index d dual ss dr
      | .U1U1 => randU1U1Index d dual ss dr
      | .Z4 => throw Err.value
    pure (encExcept (encRandIx sym) r)
  | "u1_charges" =>
    pure (Json.mkObj [("ok", Json.arr ((u1Charges (← getNat (← field q "n"))).map encInt).toArray)])
  | "u1u1_charges" =>
    pure (Json.mkObj [("ok", Json.arr ((u1u1Charges (← getNat (← field q "n"))).map encCharge).toArray)])
  | "partition" =>
    let d ← getNat (← field q "d")
    let n ← getNat (← field q "n")
    let draw ← listOf getNat (← field q "draw")
    pure (encExcept encNats (randPartition d n draw))
  | "choose_duals" =>
    let du ← match q.getObjVal? "duals" with
      | .ok v => decDualsArg v
      | .error _ => throw "missing field duals"
    let ndim ← getNat (← field q "ndim")
    pure (encExcept (fun l => Json.arr (l.map (fun (o : Option Bool) => match o with
      | some b => Json.bool b | none => Json.null)).toArray) (chooseDuals du ndim))
  | "get_rand" =>
    let sym ← decSym (← field q "sym")
    let shape ← listOf decShapeEntry (← field q "shape")
    let du ← match q.getObjVal? "duals" with
      | .ok v => decDualsArg v
      | .error _ => throw "missing field duals"
    let charge ← match fieldOpt q "charge" with | some c => (do pure (some (← decCharge c))) | none => pure none
    let fermi ← getBool (← field q "fermi")
    let ss ← decSubsizes (← field q "subsizes")
    let draws ← match fieldOpt q "draws" with | some j => listOf decDraws j | none => pure []
    let oddpos ← match fieldOpt q "oddpos" with
      | none => pure []
      | some oj => listOf (fun p => do
          let a ← getArr p
          match a.toList with
          | [l, d] => pure (← getInt l, ← getBool d)
          | _ => throw "bad oddpos entry") oj
    let dtype ← match DType.ofName? (← getStr (← field q "dtype")) with
      | some t => pure t
      | none => throw "unknown dtype"
    let fill : Sector → List Nat → Blk GRat := fun _ shp => Blk.ofFn shp (fun _ => (0 : GRat))
    let r := getRand sym shape du charge fermi ss draws fill oddpos
    pure (encExcept (fun (a : Arr GRat) => Json.mkObj [
      ("indices", Json.arr (a.indices.map (encRandIx sym)).toArray),
      ("charge", encCharge a.charge),
      ("sectors", Json.arr (a.sectors.map encSector).toArray),
      ("shapes", Json.arr (a.blocks.map (fun sb => encNats sb.2.shape)).toArray),
      ("valid", Json.bool a.validB),
      ("reason", Json.str a.invalidReason),
      ("dtype", Json.str (fillDtype dtype).name),
      ("casts", Json.bool (fillCasts dtype))]) r)
  | "blockvector" =>
    pure (Json.mkObj [("ok", encNats (randBlockSizes (← getNat (← field q "size")) (← getNat (← field q "bs0"))))])
  | _ => throw s!"bad randindex query {fn}"

end RandH

def handleRand (kind : String) (j : Json) : Option (D Json) :=
  match kind with
  | "randindex" => some (do
      let rs ← listOf RandH.randQuery (← field j "qs")
      pure (Json.mkObj [("rs", Json.arr rs.toArray)]))
  | _ => none

end SymmModel.Driver
