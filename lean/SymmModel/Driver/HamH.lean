/-
  SymmModel.Driver.HamH — protocol handler of the C19 model (Model/Ham.lean).

    {"kind":"hamTerms","model":"hubbard"|"spinless"|"tfim","edges":[[a,b],…],
     "t":ECOEF, "U":NCOEF, "mu":NCOEF, "V":ECOEF}            (tfim: "t" = jx, "U" = hz)
       → {"ok":[{"edge":[a,b],"args":{"t":Q,"V":Q,"Ua":Q,"Ub":Q,"mua":Q,"mub":Q,"ca":n,"cb":n},
                 "terms":[[Q,KIND,[sites]],…]},…]}   (dict order)   |  {"raise":"key"}
    {"kind":"siteInfo","edges":[[a,b],…],"bond_dim":n,"phys_dim":n|null}
       → {"sites":[{"site":v,"inds":[["b",a,b]|["k",v],…],"duals":[…],"shape":[…],
                    "coordination":n,"tag":v},…]}            (dict order)
    {"kind":"coordination","edges":[[a,b],…]} → {"table":[[v,n],…]}

  ECOEF = {"scalar":Q} | {"dict":[[[a,b],Q],…]} | {"fn":[[[a,b],Q],…]}
  NCOEF = {"scalar":Q} | {"dict":[[v,Q],…]}     | {"fn":[[v,Q],…]}
  Q     = int | [num, den]                  (output always [num, den])
  A "fn" is a callable given by its table; a table that misses an argument the builder would
  call it with is a malformed request (never defaulted).
-/
import SymmModel.Driver.Codec
import SymmModel.Model.Ham
namespace SymmModel.Driver
open Lean SymmModel

def decQ (j : Json) : D Rat := do
  match j with
  | .arr a => match a.toList with
    | [n, d] =>
      let d ← getNat d
      if d == 0 then throw "zero denominator"
      pure (mkRat (← getInt n) d)
    | _ => throw s!"bad rational {j.compress}"
  | _ => pure ((← getInt j : Int) : Rat)

def encQ (q : Rat) : Json := Json.arr #[encInt q.num, encNat q.den]

def decEdge (j : Json) : D Edge := do
  let a ← getArr j
  match a.toList with
  | [x, y] => pure (← getNat x, ← getNat y)
  | _ => throw s!"bad edge {j.compress}"

def decPair {α β : Type} (f : Json → D α) (g : Json → D β) (j : Json) : D (α × β) := do
  let a ← getArr j
  match a.toList with
  | [x, y] => pure (← f x, ← g y)
  | _ => throw s!"bad pair {j.compress}"

def decEdgeCoef (edges : List Edge) (j : Json) : D EdgeCoef := do
  match fieldOpt j "scalar", fieldOpt j "dict", fieldOpt j "fn" with
  | some s, none, none => pure (.scalar (← decQ s))
  | none, some d, none => pure (.dict (← listOf (decPair decEdge decQ) d))
  | none, none, some f =>
    let tbl ← listOf (decPair decEdge decQ) f
    for e in edges do
      if (alookup tbl e).isNone then throw s!"fn table misses ({e.1},{e.2})"
    pure (.fn (fun a b => (alookup tbl (a, b)).getD 0))
  | _, _, _ => throw s!"bad edge coefficient {j.compress}"

def decNodeCoef (edges : List Edge) (j : Json) : D NodeCoef := do
  match fieldOpt j "scalar", fieldOpt j "dict", fieldOpt j "fn" with
  | some s, none, none => pure (.scalar (← decQ s))
  | none, some d, none => pure (.dict (← listOf (decPair getNat decQ) d))
  | none, none, some f =>
    let tbl ← listOf (decPair getNat decQ) f
    for e in edges do
      if (alookup tbl e.1).isNone || (alookup tbl e.2).isNone then
        throw s!"fn table misses a site of ({e.1},{e.2})"
    pure (.fn (fun v => (alookup tbl v).getD 0))
  | _, _, _ => throw s!"bad node coefficient {j.compress}"

def encSpin : Spin → String
  | .up => "u" | .dn => "d" | .none => ""

def encKind : Kind → Json
  | .hop s => Json.str ("hop" ++ encSpin s)
  | .nn => "nn"
  | .dbl => "dbl"
  | .num s => Json.str ("num" ++ encSpin s)
  | .xx => "xx"
  | .zf => "zf"

def encTerm (t : Term) : Json :=
  Json.arr #[encQ t.coef, encKind t.kind, encNats t.sites]

def encArgs (g : LocalArgs) : Json :=
  Json.mkObj [("t", encQ g.t), ("V", encQ g.v), ("Ua", encQ g.ua), ("Ub", encQ g.ub),
              ("mua", encQ g.mua), ("mub", encQ g.mub), ("ca", encNat g.ca), ("cb", encNat g.cb)]

def encHam (r : Option (List (Edge × LocalArgs × List Term))) : Json :=
  match r with
  | none => Json.mkObj [("raise", "key")]
  | some H => Json.mkObj [("ok", Json.arr (H.map (fun (e, g, ts) =>
      Json.mkObj [("edge", encNats [e.1, e.2]), ("args", encArgs g),
                  ("terms", Json.arr (ts.map encTerm).toArray)])).toArray)]

def encIndName : IndName → Json
  | .bond a b => Json.arr #[Json.str "b", encNat a, encNat b]
  | .phys v => Json.arr #[Json.str "k", encNat v]

def encSiteInfo (p : Site × SiteInfo) : Json :=
  Json.mkObj [("site", encNat p.1),
              ("inds", Json.arr (p.2.legs.map (fun l => encIndName l.name)).toArray),
              ("duals", encNats (p.2.legs.map (·.dual))),
              ("shape", encNats (p.2.legs.map (·.dim))),
              ("coordination", encNat p.2.coordination),
              ("tag", encNat p.2.tag)]

def handleHam (kind : String) (j : Json) : Option (D Json) :=
  match kind with
  | "hamTerms" => some (do
      let edges ← listOf decEdge (← field j "edges")
      match ← getStr (← field j "model") with
      | "hubbard" =>
        let t ← decEdgeCoef edges (← field j "t")
        let U ← decNodeCoef edges (← field j "U")
        let mu ← decNodeCoef edges (← field j "mu")
        pure (encHam (hamHubbard edges t U mu))
      | "spinless" =>
        let t ← decEdgeCoef edges (← field j "t")
        let V ← decEdgeCoef edges (← field j "V")
        let mu ← decNodeCoef edges (← field j "mu")
        pure (encHam (hamSpinless edges t V mu))
      | "tfim" =>
        let jx ← decEdgeCoef edges (← field j "t")
        let hz ← decNodeCoef edges (← field j "U")
        pure (encHam (hamTfim edges jx hz))
      | m => throw s!"unknown model {m}")
  | "siteInfo" => some (do
      let edges ← listOf decEdge (← field j "edges")
      let bd ← getNat (← field j "bond_dim")
      let pd ← match fieldOpt j "phys_dim" with
        | none => pure none
        | some p => do pure (some (← getNat p))
      pure (Json.mkObj [("sites", Json.arr ((parseEdges edges bd pd).map encSiteInfo).toArray)]))
  | "coordination" => some (do
      let edges ← listOf decEdge (← field j "edges")
      pure (Json.mkObj [("table", Json.arr ((coordTable edges).map (fun (v, n) =>
        Json.arr #[encNat v, encNat n])).toArray)]))
  | _ => none

end SymmModel.Driver
