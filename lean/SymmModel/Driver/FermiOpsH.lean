/-
  SymmModel.Driver.FermiOpsH — protocol handler of property C18 (local fermionic operators).

    {"kind":"buildElements","terms":[[SCALAR,[[label,dual],…]],…],"bases":[[[[label,dual],…],…],…]}
       → {"model": [[idx, SCALAR],…] | null (ValueError), "spec": [[idx, SCALAR],…],
          "fock": [SCALAR,…]}            (fock: proper Fock matrix, C order of (is, js))
    {"kind":"opLt","pairs":[[[l,d],[l,d]],…]} → {"lt":[bool,…],"eq":[bool,…]}
    {"kind":"builtin","name":str,"sym":str,"params":[SCALAR,…]}
       → {"shape":[…],"dense":[SCALAR,…],"indexmap":[[c0,c1],…] | null}
-/
import SymmModel.Driver.Codec
import SymmModel.Model.FermiOps
namespace SymmModel.Driver
open Lean SymmModel

def decFOp (j : Json) : D FOp := do
  let a ← getArr j
  match a.toList with
  | [l, d] => pure ⟨← getInt l, ← getBool d⟩
  | _ => throw s!"bad operator {j.compress}"

def decWord : Json → D Word := listOf decFOp

def decTerm (j : Json) : D (GRat × Word) := do
  let a ← getArr j
  match a.toList with
  | [c, w] => pure (← decScalar c, ← decWord w)
  | _ => throw s!"bad term {j.compress}"

def encEntries (es : List (List Nat × GRat)) : Json :=
  Json.arr (es.map (fun (idx, v) => Json.arr #[encNats idx, encScalar v])).toArray

def decLSym (j : Json) : D LSym := do
  match ← getStr j with
  | "Z2" => pure .Z2
  | "U1" => pure .U1
  | "Z2Z2" => pure .Z2Z2
  | "U1U1" => pure .U1U1
  | s => throw s!"unknown symmetry {s}"

def builtinSpec (name : String) (sym : LSym) (ps : List GRat) :
    D (List (GRat × Word) × List (List Word) × Option (List (Int × Int))) :=
  match name, ps with
  | "hubbard_spinless", [t, v, muA, muB] =>
    pure (spinlessHubbardTerms t v muA muB, [spinlessBasis opA, spinlessBasis opB], spinlessIndexMap sym)
  | "hubbard", [t, uA, uB, muA, muB] =>
    pure (hubbardTerms t uA uB muA muB, [spinfulBasis opAu opAd, spinfulBasis opBu opBd],
          some (spinfulIndexMap sym))
  | "number_spinless", [one] =>
    pure (numberSpinlessTerms one, [spinlessBasis opA], spinlessIndexMap sym)
  | "number_spinful", [one] =>
    pure (numberSpinfulTerms one, [spinfulBasis opAu opAd], some (spinfulIndexMap sym))
  | "spin", [half] =>
    pure (spinTerms half, [spinfulBasis opAu opAd], some (spinfulIndexMap sym))
  | _, _ => throw s!"unknown builtin {name} with {ps.length} parameters"

def handleFermiOps (kind : String) (j : Json) : Option (D Json) :=
  match kind with
  | "buildElements" => some (do
      let terms ← listOf decTerm (← field j "terms")
      let bases ← listOf (listOf decWord) (← field j "bases")
      let model := match buildElements terms bases with
        | none => Json.null
        | some es => encEntries es
      let dims := bases.map List.length
      let spec := (specElements terms bases).filter (fun p => p.2 != 0)
      let n := bases.length
      let fock := (allIdx (dims ++ dims)).map (fun idx =>
        fockMatrixAt terms bases (idx.take n) (idx.drop n))
      pure (Json.mkObj [("model", model), ("spec", encEntries spec),
                        ("fock", Json.arr (fock.map encScalar).toArray)]))
  | "opLt" => some (do
      let pairs ← listOf (fun p => do
        let a ← getArr p
        match a.toList with
        | [x, y] => pure (← decFOp x, ← decFOp y)
        | _ => throw "bad pair") (← field j "pairs")
      pure (Json.mkObj [
        ("lt", Json.arr (pairs.map (fun (x, y) => Json.bool (x.lt y))).toArray),
        ("eq", Json.arr (pairs.map (fun (x, y) => Json.bool (x.eqv y))).toArray)]))
  | "builtin" => some (do
      let name ← getStr (← field j "name")
      let sym ← decLSym (← field j "sym")
      let ps ← listOf decScalar (← field j "params")
      let (terms, bases, imap) ← builtinSpec name sym ps
      match buildDense terms bases with
      | none => throw "builtin without sites"
      | some (shape, data) =>
        pure (Json.mkObj [
          ("shape", encNats shape),
          ("dense", Json.arr (data.map encScalar).toArray),
          ("indexmap", match imap with
            | none => Json.null
            | some m => Json.arr (m.map encCharge).toArray)]))
  | _ => none

end SymmModel.Driver
