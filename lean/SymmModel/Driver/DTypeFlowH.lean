/-
  SymmModel.Driver.DTypeFlowH — protocol handler of the dtype-flow model (C20,
  SymmModel/Model/DTypeFlow.lean).

    {"kind":"dflow","env":{name: DVAL},"steps":[STEP]} → {"results":[RES]}
      DVAL = {"darr":{"sym","fermi","indices":[INDEX],"charge","blocks":[{"sector":S,"dtype":T}]}}
           | {"dvec":{"vblocks":[{"charge":C,"dtype":T}]}}
           | {"dscalar": "pyint" | "pyfloat" | "pycomplex" | T}
           | {"ddense": T}                      T = "float32" | "float64" | "complex64" | "complex128"
      STEP = {"out":[names],"op":str,"in":[names],"params":{…}}   (operation names and parameters
             as in Driver/Ops.lean; in addition: "smul"/"sdiv" take "scalar": kind,
             "sum"/"max"/"min", "norm", "fill_missing_blocks", "vdiv", "vpow", "vabs", "vto_dense",
             "svd_truncated" {"counts":[n…],"absorb": null|-1|0|1}, "from_fill" {"dtype":T},
             "random" {"dtype":T|null}, "from_dense" {"shape":[n…],"dtype":T,"maps","duals"})
      RES  = {"ok":[DVAL],"flags":{"losesImag":b,"narrows":b,"defaulted":b}} | {"raise":kind}
           | {"skipped":true}
    {"kind":"dflowTable","queries":[["scalar",T,K] | ["combine",K,K] | ["cast",T,T] | ["concat",[T…]]]}
      → {"answers":[T | K | [T,losesImag,narrows] | T|null …]}
-/
import SymmModel.Driver.Ops
import SymmModel.Model.DTypeFlow
namespace SymmModel.Driver
open Lean SymmModel SymmModel.DFlow

def decDType (j : Json) : D DType := do
  match DType.ofName? (← getStr j) with
  | some d => pure d
  | none => throw s!"unknown dtype {j.compress}"

def encDType (d : DType) : Json := Json.str d.name

def decScalarK (j : Json) : D ScalarK := do
  match ← getStr j with
  | "pyint" => pure .pyint
  | "pyfloat" => pure .pyfloat
  | "pycomplex" => pure .pycomplex
  | s => match DType.ofName? s with
    | some d => pure (.np d)
    | none => throw s!"unknown scalar kind {s}"

def encScalarK : ScalarK → Json
  | .pyint => "pyint" | .pyfloat => "pyfloat" | .pycomplex => "pycomplex" | .np d => encDType d

def decDArr (j : Json) : D DArr := do
  let sym ← decSym (← field j "sym")
  let fermi ← getBool (← field j "fermi")
  let indices ← listOf decIndex (← field j "indices")
  let charge ← decCharge (← field j "charge")
  let blocks ← listOf (fun b => do
    pure (← decSector (← field b "sector"), ← decDType (← field b "dtype"))) (← field j "blocks")
  pure { sym, fermi, indices, charge, blocks }

def encDArr (a : DArr) : Json :=
  Json.mkObj [
    ("sym", encSym a.sym), ("fermi", Json.bool a.fermi),
    ("indices", Json.arr (a.indices.map encIndex).toArray),
    ("charge", encCharge a.charge),
    ("blocks", Json.arr (a.blocks.map (fun (s, d) =>
      Json.mkObj [("sector", encSector s), ("dtype", encDType d)])).toArray)]

def decDVec (j : Json) : D DVec := do
  let blocks ← listOf (fun b => do
    pure (← decCharge (← field b "charge"), ← decDType (← field b "dtype"))) (← field j "vblocks")
  pure ⟨blocks⟩

def encDVec (v : DVec) : Json :=
  Json.mkObj [("vblocks", Json.arr (v.blocks.map (fun (c, d) =>
    Json.mkObj [("charge", encCharge c), ("dtype", encDType d)])).toArray)]

def decDVal (j : Json) : D DVal := do
  match fieldOpt j "darr", fieldOpt j "dvec", fieldOpt j "dscalar", fieldOpt j "ddense" with
  | some a, _, _, _ => pure (.arr (← decDArr a))
  | _, some v, _, _ => pure (.vec (← decDVec v))
  | _, _, some s, _ => pure (.scalar (← decScalarK s))
  | _, _, _, some d => pure (.dense (← decDType d))
  | _, _, _, _ => throw s!"bad dflow value {j.compress.take 80}"

def encDVal : DVal → Json
  | .arr a => Json.mkObj [("darr", encDArr a)]
  | .vec v => Json.mkObj [("dvec", encDVec v)]
  | .scalar s => Json.mkObj [("dscalar", encScalarK s)]
  | .dense d => Json.mkObj [("ddense", encDType d)]

def encFlags (f : Flags) : Json :=
  Json.mkObj [("losesImag", Json.bool f.losesImag), ("narrows", Json.bool f.narrows),
              ("defaulted", Json.bool f.defaulted)]

def decOddpos (p : Json) : D (List (Int × Bool)) :=
  match fieldOpt p "oddpos" with
  | none => pure []
  | some oj => listOf (fun q => do
      let a ← getArr q
      match a.toList with
      | [l, d] => pure (← getInt l, ← getBool d)
      | _ => throw "bad oddpos entry") oj

/-- protocol step ↦ `Op` of the model -/
def decOp (op : String) (p : Json) : D Op := do
  match op with
  | "transpose" => pure (.transpose (← optField p "axes" (listOf getInt)))
  | "conj" => pure .conj
  | "dagger" => pure .dagger
  | "neg" | "phase_flip" | "phase_transpose" | "phase_sector" | "phase_global" | "phase_sync" => pure .keep
  | "sync_charges" => pure .syncCharges
  | "squeeze" => pure (.squeeze (← optField p "axis" (listOf getNat)))
  | "expand_dims" =>
    pure (.expandDims (← getInt (← field p "axis")) (← optField p "c" decCharge) (← optField p "dual" getBool))
  | "fuse" =>
    pure (.fuse (← listOf (listOf getNat) (← field p "groups")) (← decFuseMode p) (← boolField p "expand_empty" true))
  | "fuse_core" => pure (.fuseCore (← listOf (listOf getNat) (← field p "groups")) (← decFuseMode p))
  | "unfuse" => pure (.unfuse (← getNat (← field p "axis")))
  | "unfuse_all" => pure .unfuseAll
  | "reshape" => pure (.reshape (← listOf getInt (← field p "newshape")))
  | "tensordot" => pure (.tensordot (← decAxes (← field p "axes")) (← decMode p))
  | "matmul" => pure .matmul
  | "trace" => pure .trace
  | "einsum" => pure (.einsum (← listOf getNat (← field p "lhs")) (← listOf getNat (← field p "rhs")))
  | "multiply_diagonal" => pure (.multiplyDiagonal (← getNat (← field p "axis")))
  | "align_axes" =>
    match ← decAxes (← field p "axes") with
    | .pair xa xb => pure (.alignAxes (xa.map Int.toNat) (xb.map Int.toNat))
    | _ => throw "align_axes needs explicit axes"
  | "add" => pure (.binop .outer)
  | "sub" | "vdiv" | "vpow" => pure (.binop .strict)
  | "mul" => pure (.binop .inner)
  | "smul" | "sdiv" => pure (.scalarOp (← decScalarK (← field p "scalar")))
  | "norm" => pure .norm
  | "sum" | "max" | "min" => pure .reduce
  | "to_dense" => pure .toDense
  | "fill_missing_blocks" => pure .fillMissing
  | "qr" => pure .qr
  | "svd" => pure .svd
  | "eigh" => pure .eigh
  | "solve" => pure .solve
  | "svd_truncated" =>
    let counts ← listOf getNat (← field p "counts")
    let absorb ← match fieldOpt p "absorb" with
      | none => pure Absorb.none
      | some j => do
        match ← getInt j with
        | -1 => pure Absorb.left
        | 0 => pure Absorb.both
        | 1 => pure Absorb.right
        | n => throw s!"bad absorb {n}"
    pure (.svdTruncated counts absorb)
  | "from_fill" | "random" | "from_dense" =>
    let st ← optField p "static" decSym
    let arg ← optField p "symmetry" decSym
    let sym ← match classSymmetry st arg with
      | .ok s => pure s
      | .error _ => throw "constructor without a symmetry"
    let fermi ← boolField p "fermi" false
    let charge ← optField p "charge" decCharge
    let oddpos ← decOddpos p
    if op == "from_dense" then
      pure (.fromDense sym fermi (← listOf getNat (← field p "shape")) (← decDType (← field p "dtype"))
        (← listOf (listOf decCharge) (← field p "maps")) (← listOf getBool (← field p "duals")) charge oddpos)
    else
      let indices ← listOf decIndex (← field p "indices")
      if op == "from_fill" then
        pure (.fromFill sym fermi indices charge (← decDType (← field p "dtype")) oddpos)
      else pure (.random sym fermi indices charge (← optField p "dtype" decDType) oddpos)
  | "vabs" => pure .vabs
  | "vto_dense" => pure .vtoDense
  | _ => throw s!"dflow: unknown op {op}"

def runDFlow (j : Json) : D Json := do
  let envJ ← field j "env"
  let env0 ← match envJ with
    | .obj kvs => kvs.toList.mapM (fun (k, v) => do pure (k, ← decDVal v))
    | _ => throw "env must be an object"
  let steps ← getArr (← field j "steps")
  let mut env : Env := env0
  let mut out : Array Json := #[]
  let mut dead := false
  for st in steps do
    if dead then
      out := out.push (Json.mkObj [("skipped", Json.bool true)])
    else
      let opName ← getStr (← field st "op")
      let params := (fieldOpt st "params").getD (Json.mkObj [])
      let s : Step := { op := ← decOp opName params,
                        ins := ← listOf getStr (← field st "in"),
                        outs := ← listOf getStr (← field st "out") }
      for n in s.ins do
        if (alookup env n).isNone then throw s!"unbound name {n}"
      -- the model's own step function; the values bound to the output names are reported
      match runStep (env, Flags.none) s with
      | .error e =>
        out := out.push (Json.mkObj [("raise", encErr e)])
        dead := true
      | .ok (env', fl) =>
        let ins := s.ins.filterMap (alookup env)
        let vals := match evalOp s.op ins with
          | .ok r => r.1
          | .error _ => []
        out := out.push (Json.mkObj [("ok", Json.arr (vals.map encDVal).toArray), ("flags", encFlags fl)])
        env := env'
  pure (Json.mkObj [("results", Json.arr out)])

def handleDFlow (kind : String) (j : Json) : Option (D Json) :=
  match kind with
  | "dflow" => some (runDFlow j)
  | "dflowTable" => some (do
      let qs ← getArr (← field j "queries")
      let rs ← qs.toList.mapM (fun q => do
        let a ← getArr q
        match a.toList with
        | [.str "scalar", d, k] => pure (encDType (scalarResult (← decDType d) (← decScalarK k)))
        | [.str "combine", s, t] => pure (encScalarK ((← decScalarK s).combine (← decScalarK t)))
        | [.str "cast", dest, src] =>
          let dest ← decDType dest; let src ← decDType src
          let f := castFlags dest src
          pure (Json.arr #[encDType (DType.castInto dest src), Json.bool f.losesImag, Json.bool f.narrows])
        | [.str "concat", ds] =>
          match concatD (← listOf decDType ds) with
          | .ok d => pure (encDType d)
          | .error _ => pure Json.null
        | _ => throw "bad dflowTable query")
      pure (Json.mkObj [("answers", Json.arr rs.toArray)]))
  | _ => none

end SymmModel.Driver
