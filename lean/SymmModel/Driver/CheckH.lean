/-
  SymmModel.Driver.CheckH — line-protocol handler for the model of symmray's own audit
  (Model/Check.lean; property C01, anchor "debug-mode audit").

    {"id": n, "kind": "libcheck", "fn": F, …}  →  {"id": n, "r": A}

      F = "index_check"     "index": I                                  A = "ok" | E
      F = "check"           "arr": X                                    A = "ok" | E
      F = "aligned"         "arr": X                                    A = "ok" | E
      F = "check_with"      "arr": X, "other": X, "axes_a": [int], "axes_b": [int]
                                                                        A = "ok" | E
      F = "check_with_vec"  "arr": X, "vec": V, "ax": int               A = "ok" | E
      F = "vec_check"       "vec": V                                    A = "ok" | E
      F = "matches"         "a": I, "b": I                              A = "true" | "false" | E

      I = {"cm": [[C, int], …], "dual": bool, "sub": null | {"indices": [I, …],
           "extents": [[C, [[[C, …], int], …]], …]}}          (sizes: any integers)
      X = {"sym": S, "indices": [I, …], "charge": C,
           "blocks": [{"sector": [C, …], "shape": [nat, …], "finite": bool}, …]}
      V = {"vblocks": [{"charge": C, "shape": [nat, …], "finite": bool}, …]}
      E = "value" | "assertion" | "key" | "index" | "attr"    (Python exception class)

  A malformed request is an error, never defaulted.
-/
import SymmModel.Driver.Codec
import SymmModel.Model.Check
namespace SymmModel.Driver
open Lean SymmModel SymmModel.Check

def decRExtent (j : Json) : D RExtent := listOf (fun p => do
  let a ← getArr p
  match a.toList with
  | [ss, d] => pure (← decSector ss, ← getInt d)
  | _ => throw "bad raw extent entry") j

partial def decRIndex (j : Json) : D RIndex := do
  let cm ← listOf (fun p => do
    let a ← getArr p
    match a.toList with
    | [c, d] => pure (← decCharge c, ← getInt d)
    | _ => throw "bad raw chargemap entry") (← field j "cm")
  let dual ← getBool (← field j "dual")
  match fieldOpt j "sub" with
  | none => pure (RIndex.mk cm dual none)
  | some sj =>
    let subs ← listOf decRIndex (← field sj "indices")
    let exts ← listOf (fun p => do
      let a ← getArr p
      match a.toList with
      | [c, e] => pure (← decCharge c, ← decRExtent e)
      | _ => throw "bad raw extents entry") (← field sj "extents")
    pure (RIndex.mk cm dual (some (subs, exts)))

def decRBlock (j : Json) : D RBlock := do
  let shape ← listOf getNat (← field j "shape")
  let finite ← getBool (← field j "finite")
  pure { shape, finite }

def decRArr (j : Json) : D RArr := do
  let sym ← decSym (← field j "sym")
  let indices ← listOf decRIndex (← field j "indices")
  let charge ← decCharge (← field j "charge")
  let blocks ← listOf (fun b => do pure (← decSector (← field b "sector"), ← decRBlock b)) (← field j "blocks")
  pure { sym, indices, charge, blocks }

def decRVec (j : Json) : D RVec := do
  let blocks ← listOf (fun b => do pure (← decCharge (← field b "charge"), ← decRBlock b)) (← field j "vblocks")
  pure { blocks }

def encCheck : Except Err Unit → Json
  | .ok _ => "ok"
  | .error e => encErr e

def encMatch : Except Err Bool → Json
  | .ok true => "true"
  | .ok false => "false"
  | .error e => encErr e

def handleCheck (kind : String) (j : Json) : Option (D Json) :=
  match kind with
  | "libcheck" => some (do
      let fn ← getStr (← field j "fn")
      let r ← match fn with
        | "index_check" => do pure (encCheck (← decRIndex (← field j "index")).check)
        | "check" => do pure (encCheck (← decRArr (← field j "arr")).check)
        | "aligned" => do pure (encCheck (← decRArr (← field j "arr")).checkAligned)
        | "check_with" => do
          let a ← decRArr (← field j "arr")
          let b ← decRArr (← field j "other")
          let xa ← listOf getInt (← field j "axes_a")
          let xb ← listOf getInt (← field j "axes_b")
          pure (encCheck (a.checkWith b xa xb))
        | "check_with_vec" => do
          let a ← decRArr (← field j "arr")
          let v ← decRVec (← field j "vec")
          let ax ← getInt (← field j "ax")
          pure (encCheck (a.checkWithVec v ax))
        | "vec_check" => do pure (encCheck (← decRVec (← field j "vec")).check)
        | "matches" => do
          let a ← decRIndex (← field j "a")
          let b ← decRIndex (← field j "b")
          pure (encMatch (RIndex.matchesE a b))
        | f => throw s!"unknown libcheck fn {f}"
      pure (Json.mkObj [("r", r)]))
  | _ => none

end SymmModel.Driver
