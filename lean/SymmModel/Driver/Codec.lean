/-
  SymmModel.Driver.Codec — JSON (de)serialisation of model values for the line protocol.
  Never defaults a malformed input: decoding returns `Except String`.
-/
import Lean.Data.Json
import SymmModel.Model.Valid
import SymmModel.Model.Linalg
import SymmModel.Model.GRat
namespace SymmModel.Driver
open Lean SymmModel

abbrev D := Except String

def getArr (j : Json) : D (Array Json) := match j with
  | .arr a => pure a
  | _ => throw s!"expected array, got {j.compress}"

def getInt (j : Json) : D Int := match j.getInt? with
  | .ok n => pure n
  | .error _ => throw s!"expected int, got {j.compress}"

def getNat (j : Json) : D Nat := do
  let n ← getInt j
  if n < 0 then throw s!"expected nat, got {n}" else pure n.toNat

def getBool (j : Json) : D Bool := match j with
  | .bool b => pure b
  | _ => throw s!"expected bool, got {j.compress}"

def getStr (j : Json) : D String := match j with
  | .str s => pure s
  | _ => throw s!"expected string, got {j.compress}"

def field (j : Json) (k : String) : D Json := match j.getObjVal? k with
  | .ok v => pure v
  | .error _ => throw s!"missing field {k}"

def fieldOpt (j : Json) (k : String) : Option Json := match j.getObjVal? k with
  | .ok .null => none
  | .ok v => some v
  | .error _ => none

def listOf {α : Type} (f : Json → D α) (j : Json) : D (List α) := do
  let a ← getArr j
  a.toList.mapM f

def decCharge (j : Json) : D Charge := do
  let a ← getArr j
  match a.toList with
  | [x, y] => pure (← getInt x, ← getInt y)
  | _ => throw s!"bad charge {j.compress}"

def decSector : Json → D Sector := listOf decCharge

def decSym (j : Json) : D Sym := do
  match ← getStr j with
  | "Z2" => pure .Z2
  | "Z4" => pure .Z4
  | "U1" => pure .U1
  | "Z2Z2" => pure .Z2Z2
  | "U1U1" => pure .U1U1
  | s => throw s!"unknown symmetry {s}"

def encSym : Sym → Json
  | .Z2 => "Z2" | .Z4 => "Z4" | .U1 => "U1" | .Z2Z2 => "Z2Z2" | .U1U1 => "U1U1"

def decScalar (j : Json) : D GRat := do
  match j with
  | .arr a => match a.toList with
    | [re, im] => pure ⟨(← getInt re : Int), (← getInt im : Int)⟩
    | [rn, rd, inn, id] =>
      let rd ← getNat rd; let id ← getNat id
      if rd == 0 || id == 0 then throw "zero denominator"
      pure ⟨mkRat (← getInt rn) rd, mkRat (← getInt inn) id⟩
    | _ => throw s!"bad scalar {j.compress}"
  | _ => pure ⟨(← getInt j : Int), 0⟩

def encInt (n : Int) : Json := Json.num (JsonNumber.fromInt n)
def encNat (n : Nat) : Json := Json.num (JsonNumber.fromNat n)

def encScalar (x : GRat) : Json :=
  if x.re.den == 1 && x.im.den == 1 then
    if x.im.num == 0 then encInt x.re.num else Json.arr #[encInt x.re.num, encInt x.im.num]
  else Json.arr #[encInt x.re.num, encNat x.re.den, encInt x.im.num, encNat x.im.den]

def encCharge (c : Charge) : Json := Json.arr #[encInt c.1, encInt c.2]
def encSector (s : Sector) : Json := Json.arr (s.map encCharge).toArray
def encNats (l : List Nat) : Json := Json.arr (l.map encNat).toArray

def decExtent (j : Json) : D Extent := listOf (fun p => do
  let a ← getArr p
  match a.toList with
  | [ss, d] => pure (← decSector ss, ← getNat d)
  | _ => throw "bad extent entry") j

partial def decIndex (j : Json) : D Index := do
  let cm ← listOf (fun p => do
    let a ← getArr p
    match a.toList with
    | [c, d] => pure (← decCharge c, ← getNat d)
    | _ => throw "bad chargemap entry") (← field j "cm")
  let dual ← getBool (← field j "dual")
  match fieldOpt j "sub" with
  | none => pure (Index.mk cm dual none)
  | some sj =>
    let subs ← listOf decIndex (← field sj "indices")
    let exts ← listOf (fun p => do
      let a ← getArr p
      match a.toList with
      | [c, e] => pure (← decCharge c, ← decExtent e)
      | _ => throw "bad extents entry") (← field sj "extents")
    pure (Index.mk cm dual (some (subs, exts)))

partial def encIndex : Index → Json
  | .mk cm dual sub =>
    Json.mkObj [
      ("cm", Json.arr (cm.map (fun (c, d) => Json.arr #[encCharge c, encNat d])).toArray),
      ("dual", Json.bool dual),
      ("sub", match sub with
        | none => Json.null
        | some (subs, exts) => Json.mkObj [
            ("indices", Json.arr (subs.map encIndex).toArray),
            ("extents", Json.arr (exts.map (fun (c, e) =>
              Json.arr #[encCharge c, Json.arr (e.map (fun (ss, d) =>
                Json.arr #[encSector ss, encNat d])).toArray])).toArray)])]

def decBlk (j : Json) : D (Blk GRat) := do
  let shape ← listOf getNat (← field j "shape")
  let data ← listOf decScalar (← field j "data")
  if data.length != prod shape then throw s!"block data length {data.length} ≠ prod {shape}"
  pure ⟨shape, data.toArray⟩

def encBlk (b : Blk GRat) : Json :=
  Json.mkObj [("shape", encNats b.shape), ("data", Json.arr (b.data.map encScalar))]

def decArr (j : Json) : D (Arr GRat) := do
  let sym ← decSym (← field j "sym")
  let fermi ← getBool (← field j "fermi")
  let indices ← listOf decIndex (← field j "indices")
  let charge ← decCharge (← field j "charge")
  let blocks ← listOf (fun b => do pure (← decSector (← field b "sector"), ← decBlk b)) (← field j "blocks")
  let phases ← match fieldOpt j "phases" with
    | none => pure []
    | some pj => listOf (fun p => do
        let a ← getArr p
        match a.toList with
        | [s, v] => pure (← decSector s, ← getInt v)
        | _ => throw "bad phase entry") pj
  let oddpos ← match fieldOpt j "oddpos" with
    | none => pure []
    | some oj => listOf (fun p => do
        let a ← getArr p
        match a.toList with
        | [l, d] => pure (← getInt l, ← getBool d)
        | _ => throw "bad oddpos entry") oj
  pure { sym, fermi, indices, charge, blocks, phases, oddpos }

def encArr (a : Arr GRat) : Json :=
  Json.mkObj [
    ("sym", encSym a.sym), ("fermi", Json.bool a.fermi),
    ("indices", Json.arr (a.indices.map encIndex).toArray),
    ("charge", encCharge a.charge),
    ("blocks", Json.arr (a.blocks.map (fun (s, b) =>
      Json.mkObj [("sector", encSector s), ("shape", encNats b.shape),
                  ("data", Json.arr (b.data.map encScalar))])).toArray),
    ("phases", Json.arr (a.phases.map (fun (s, p) => Json.arr #[encSector s, encInt p])).toArray),
    ("oddpos", Json.arr (a.oddpos.map (fun (l, d) => Json.arr #[encInt l, Json.bool d])).toArray)]

def decVec (j : Json) : D (BVec GRat) := do
  let blocks ← listOf (fun b => do pure (← decCharge (← field b "charge"), ← decBlk b)) (← field j "vblocks")
  pure ⟨blocks⟩

def encVec (v : BVec GRat) : Json :=
  Json.mkObj [("vblocks", Json.arr (v.blocks.map (fun (c, b) =>
    Json.mkObj [("charge", encCharge c), ("shape", encNats b.shape),
                ("data", Json.arr (b.data.map encScalar))])).toArray)]

def encErr : Err → Json
  | .value => "value" | .key => "key" | .type => "type" | .index => "index"
  | .notimpl => "notimpl" | .assertion => "assertion" | .attr => "attr" | .other => "other"

end SymmModel.Driver
