/-
  SymmModel.Driver.TruncH — protocol handler for the selection logic of `svd_truncated` (C13).

    {"kind": "keepCounts",  "s": [[CHARGE, [RAT…]]…], "cutoff": RAT, "mode": n, "max_bond": i, "fix"?: bool}
    {"kind": "truncCounts", …same…}      (line 274 dispatch: `cutoff > 0` ? keepCounts : calcSubMaxBonds)
        → {"counts": [n…], "threshold": RAT | null, "cm": [[CHARGE, n]…], "kept": [[RAT…]…]}
        | {"raise": "key" | "index" | "zerodiv"}
    {"kind": "subMaxBonds", "sizes": [n…], "max_bond": i}
        → {"counts": [n…]} | {"raise": "zerodiv"}
  RAT = int | [num, den] (den > 0).  `fix` defaults to `SymmModel.wrapFixed`.
-/
import SymmModel.Driver.Codec
import SymmModel.Model.Trunc
namespace SymmModel.Driver
open Lean SymmModel

def decRat (j : Json) : D Rat := do
  match j with
  | .arr a => match a.toList with
    | [n, d] =>
      let d ← getNat d
      if d == 0 then throw "zero denominator"
      pure (mkRat (← getInt n) d)
    | _ => throw s!"bad rational {j.compress}"
  | _ => pure ((← getInt j : Int) : Rat)

def encRat (x : Rat) : Json :=
  if x.den == 1 then encInt x.num else Json.arr #[encInt x.num, encNat x.den]

def decSectors (j : Json) : D (List (Charge × List Rat)) :=
  listOf (fun p => do
    let a ← getArr p
    match a.toList with
    | [c, vs] => pure (← decCharge c, ← listOf decRat vs)
    | _ => throw "bad sector entry") j

def encTruncErr : TruncErr → Json
  | .key => "key" | .index => "index" | .zerodiv => "zerodiv"

def encCounts (s : List (Charge × List Rat)) (counts : List Nat) (t : Option Rat) : Json :=
  Json.mkObj [
    ("counts", encNats counts),
    ("threshold", match t with | some x => encRat x | none => Json.null),
    ("cm", Json.arr ((bondChargemap s counts).map (fun (c, n) => Json.arr #[encCharge c, encNat n])).toArray),
    ("kept", Json.arr ((keptValues s counts).map (fun l => Json.arr (l.map encRat).toArray)).toArray)]

def decTruncArgs (j : Json) : D (Bool × List (Charge × List Rat) × Rat × Nat × Int) := do
  let s ← decSectors (← field j "s")
  let cutoff ← decRat (← field j "cutoff")
  let mode ← getNat (← field j "mode")
  let mb ← getInt (← field j "max_bond")
  let fix ← match fieldOpt j "fix" with
    | some b => getBool b
    | none => pure wrapFixed
  pure (fix, s, cutoff, mode, mb)

def handleTrunc (kind : String) (j : Json) : Option (D Json) :=
  match kind with
  | "keepCounts" => some (do
      let (fix, s, cutoff, mode, mb) ← decTruncArgs j
      match threshold fix s cutoff mode mb with
      | .error e => pure (Json.mkObj [("raise", encTruncErr e)])
      | .ok t => pure (encCounts s (keepCountsG fix s cutoff mode mb) (some t)))
  | "truncCounts" => some (do
      let (fix, s, cutoff, mode, mb) ← decTruncArgs j
      match truncCounts fix s cutoff mode mb with
      | .error e => pure (Json.mkObj [("raise", encTruncErr e)])
      | .ok counts =>
        let t := if 0 < cutoff then (match threshold fix s cutoff mode mb with
          | .ok t => some t | .error _ => none) else none
        pure (encCounts s counts t))
  | "subMaxBonds" => some (do
      let sizes ← listOf getNat (← field j "sizes")
      let mb ← getInt (← field j "max_bond")
      if calcSubMaxBondsRaises sizes mb then pure (Json.mkObj [("raise", encTruncErr .zerodiv)])
      else pure (Json.mkObj [("counts", encNats (calcSubMaxBonds sizes mb))]))
  | _ => none

end SymmModel.Driver
