/-
  Property C05, part i — conjugating a fused fermionic array.

  * `conj_fuse_relation`: for a valid fermionic array `a` with plain indices and any admissible groups,
    `fuseF a groups`, then `conjF`, then `unfuse_all` succeeds; the result is valid, fermionic, has
    the indices / symmetry / charge / labels of `conjF (transposeF a perm)`, and on every box its
    value is the value of `conjF (transposeF a perm)` times the sector sign
        flipSign (mmAxes a groups) K  =  (−1)^#{ax ∈ mmAxes a groups : K[ax] odd}.
    `mmAxes a groups` (`FuseP.mmRec`) lists, for every multi-axis group, the legs whose direction
    differs from the direction of the fused index (= of the group's first leg, `mismatchLegs`), at
    their positions in the unfused array.
    Mechanism (`Proofs/Fuse9*.lean`): one `unfuseF` step against `conjF` on the value view
    (`conj_unfuse_step`: the step signs of an index and of its conjugate multiply to flip · reversal,
    `conj_step_sign`; the full-reversal signs of `conjF` before and after the step multiply to the
    same reversal, `koszul_collapse`; what remains is the flip over the mismatched legs); the
    relation "`z` is `conjF w` up to the flip over a list of axes" goes through a step on both arrays
    (`CRel.step`) and through the whole right-to-left run (`CRel.run`); `conjF` respects equality
    of value views (`conjF_veq`); `unfuse_all` on the conjugate is that run; `unfuseGroupsF_fuseF_veq`.
  * `conj_fuse_same_direction`: if the legs of every group share one direction, no axis contributes:
    `unfuseAllF (conjF (fuseF a groups))` and `conjF (transposeF a perm)` have equal value views —
    fusing before conjugating is then safe.
  * examples: `mmAxes` on the rank-3 / rank-4 examples, and the sign against stored numbers.

  Not done: the analogous statement for `daggerF`.
-/
import SymmModel.Proofs.Fuse9Cor
import SymmModel.Props.C05All6

namespace SymmModel.C05
open SymmModel FuseP SymmModel.Lazy

variable {R : Type} [Zero R] [Neg R] [Conj R] [LawfulNegConj R]

/-- **conj of a fused fermionic array, unfused again** -/
theorem conj_fuse_relation (a : Arr R) (groups : List (List Nat)) (e : Bool) (hv : a.validB = true)
    (hf : a.fermi = true) (hg : groupsOkB groups a.ndim = true) (hplain : ∀ ix ∈ a.indices, ix.sub = none) :
    let T := a.transposeF (calcFuseGroupInfo groups a.duals).perm
    ∃ y z, Arr.fuseF a groups .insert e = .ok y ∧ Arr.unfuseAllF y.conjF = .ok z
      ∧ z.validB = true ∧ z.fermi = true
      ∧ z.indices = T.conjF.indices ∧ z.sym = T.conjF.sym ∧ z.charge = T.conjF.charge ∧ z.oddpos = T.conjF.oddpos
      ∧ ∀ K shp, Arr.blockShape? z.indices K = some shp → ∀ J, inBox shp J = true →
          z.elem K J = sgnI (Lazy.flipSign a.sym (mmAxes a groups) K) (T.conjF.elem K J) :=
  conj_fuse_main a groups e hv hf hg hplain

/-- the sector sign, spelled out -/
theorem conj_fuse_sign (sym : Sym) (axes : List Nat) (K : Sector) :
    Lazy.flipSign sym axes K
      = if (axes.filter (fun ax => sym.parity (K.getD ax (0, 0)))).length % 2 = 1 then -1 else 1 := by
  simp [Lazy.flipSign, Lazy.flipOdd]

/-- **all legs of each group share one direction ⇒ fusing before conjugating is safe** -/
theorem conj_fuse_same_direction (a : Arr R) (groups : List (List Nat)) (e : Bool) (hv : a.validB = true)
    (hf : a.fermi = true) (hg : groupsOkB groups a.ndim = true) (hplain : ∀ ix ∈ a.indices, ix.sub = none)
    (hdir : ∀ g ∈ groups, ∀ ax ∈ g, a.duals.getD ax false = a.duals.getD (g.headD 0) false) :
    ∃ y z, Arr.fuseF a groups .insert e = .ok y ∧ Arr.unfuseAllF y.conjF = .ok z ∧ z.validB = true
      ∧ VEq z (a.transposeF (calcFuseGroupInfo groups a.duals).perm).conjF := by
  obtain ⟨y, z, h1, h2, hzv, hzf, hi, hs, hc, ho, hel⟩ := conj_fuse_main a groups e hv hf hg hplain
  have hok := groupsOk_iff.1 hg
  have hisp : Arr.isPerm (calcFuseGroupInfo groups a.duals).perm a.ndim = true := by
    have := perm_isPerm (hokD hok); rwa [duals_length] at this
  have hTv : (a.transposeF (calcFuseGroupInfo groups a.duals).perm).validB = true :=
    (ValidP.validB_iff _).2 (ValidP.transposeF_valid a _ true ((ValidP.validB_iff a).1 hv) hf hisp)
  have hTcv := C01.conjF_valid (a.transposeF (calcFuseGroupInfo groups a.duals).perm) true false hTv hf
  refine ⟨y, z, h1, h2, hzv, ⟨hs, ?_, hi, hc, ho, ?_⟩⟩
  · rw [hzf, (conjF_frame _ true false).2.1]; exact hf.symm
  · apply elem_ext_of_inBox (validArr_of_validB hzv) (validArr_of_validB hTcv) hi
    intro K shp hK J hJ
    rw [hel K shp hK J hJ, mmAxes_nil a groups hv hf hok hdir, flipSign_nil, sgnI_one]

/-! ## examples -/

/-- the mismatched legs of the examples: `exF'` has directions (+,−,+), `exG` (+,+,+,+) -/
example : mmAxes exF' [[0], [1, 2]] = [2] ∧ mmAxes exF' [[0, 1], [2]] = [1] ∧ mmAxes exF' [[0, 1, 2]] = [1]
    ∧ mmAxes exF' [[1, 2], [0]] = [1] ∧ mmAxes exG [[0, 1], [2, 3]] = [] ∧ mmAxes exG [[3, 2], [1, 0]] = [] := by
  decide +kernel

/-- the sector sign of the theorem is the sign observed on the stored numbers (part g) -/
example : ∀ sb ∈ exF'.blocks,
    Lazy.flipSign exF'.sym (mmAxes exF' [[0], [1, 2]]) sb.1
      = (if mismatchOdd exF' [[0], [1, 2]] sb.1 % 2 = 1 then -1 else 1)
    ∧ conjFuseObs exF' [[0], [1, 2]] = true := by
  decide +kernel

end SymmModel.C05
