/-
  Property C17 — charges form an abelian group with parity; sector enumeration is exact.

  All theorems are about the model definitions `Sym.valid/combine/sign/parity/zero`
  (Model/Sym.lean) and `Arr.genValidSectors/isValidSector/sectorCharge` (Model/Arr.lean), for
  EVERY `s : Sym` and all charges (U1: all of ℤ, U1U1: all of ℤ², no bound).  A validity
  hypothesis appears only where the statement is false without it; each such place has a
  `…_needs_…` counterexample below showing the hypothesis is the exact one.
-/
import SymmModel.Proofs.SymLemmas

namespace SymmModel.C17
open SymmModel Sym

/-! ## group laws -/

/-- the empty combination is the identity `s.zero`, which is `(0,0)` and a valid charge -/
theorem combine_nil (s : Sym) :
    s.combine [] = s.zero ∧ s.zero = (0, 0) ∧ s.valid s.zero = true := by
  cases s <;> decide

/-- combining a single valid charge returns it -/
theorem combine_singleton (s : Sym) (c : Charge) (h : s.valid c = true) : s.combine [c] = c := by
  obtain ⟨c1, c2⟩ := c
  cases s <;> sym_arith

example : Sym.valid .Z4 (3, 0) = true ∧ Sym.valid .U1 (-7, 0) = true
    ∧ Sym.valid .Z2Z2 (1, 1) = true ∧ Sym.valid .U1U1 (5, -9) = true ∧ Sym.valid .Z2 (1, 0) = true := by
  decide

/-- the validity hypothesis of `combine_singleton` is needed: `Z2.combine(3) = 1` -/
theorem combine_singleton_needs_valid : Sym.combine .Z2 [(3, 0)] ≠ (3, 0) := by decide

/-- n-ary associativity: combining a concatenation = combining the two partial results
    (no validity needed: partial results are always reduced) -/
theorem combine_append (s : Sym) (xs ys : List Charge) :
    s.combine (xs ++ ys) = s.combine [s.combine xs, s.combine ys] :=
  Sym.combine_append s xs ys

/-- n-ary commutativity: `combine` only depends on the multiset of its arguments -/
theorem combine_perm (s : Sym) {xs ys : List Charge} (h : xs.Perm ys) :
    s.combine xs = s.combine ys := by
  have h1 := sum1_perm h
  have h2 := sum2_perm h
  cases s <;> sym_arith

example : [(1, 0), (2, 0), (3, 0)].Perm [(3, 0), (1, 0), ((2 : Int), (0 : Int))] := by decide

/-- closure; in fact the result of `combine` is a valid charge for any argument list -/
theorem combine_valid (s : Sym) (cs : List Charge) : s.valid (s.combine cs) = true :=
  Sym.combine_valid s cs

/-- negation (`sign c true`) and the identity (`sign c false`) map valid charges to valid ones -/
theorem sign_valid (s : Sym) (c : Charge) (d : Bool) (h : s.valid c = true) :
    s.valid (s.sign c d) = true := by
  obtain ⟨c1, c2⟩ := c
  cases s <;> cases d <;> sym_arith

/-- the negated charge is the inverse (holds for every charge) -/
theorem combine_sign_cancel (s : Sym) (c : Charge) :
    s.combine [c, s.sign c true] = s.zero := by
  obtain ⟨c1, c2⟩ := c
  cases s <;> sym_arith

/-- `sign · d` is an involution on valid charges -/
theorem sign_sign (s : Sym) (c : Charge) (d : Bool) (h : s.valid c = true) :
    s.sign (s.sign c d) d = c := by
  obtain ⟨c1, c2⟩ := c
  cases s <;> cases d <;> sym_arith

/-- the validity hypothesis of `sign_sign` is needed: `Z4.sign(Z4.sign(5)) = 1` -/
theorem sign_sign_needs_valid : Sym.sign .Z4 (Sym.sign .Z4 (5, 0) true) true ≠ (5, 0) := by decide

theorem sign_false (s : Sym) (c : Charge) : s.sign c false = c := by
  cases s <;> rfl

/-! ### the usual binary forms follow from the n-ary ones -/

theorem combine_comm (s : Sym) (a b : Charge) : s.combine [a, b] = s.combine [b, a] :=
  combine_perm s (List.Perm.swap b a [])

theorem combine_zero_left (s : Sym) (c : Charge) (h : s.valid c = true) :
    s.combine [s.zero, c] = c := by
  have := combine_append s [] [c]
  rw [combine_singleton s c h] at this
  simpa [combine_singleton s c h, (combine_nil s).1] using this.symm

theorem combine_zero_right (s : Sym) (c : Charge) (h : s.valid c = true) :
    s.combine [c, s.zero] = c := by
  rw [combine_comm, combine_zero_left s c h]

theorem combine_assoc (s : Sym) (a b c : Charge) (ha : s.valid a = true) (hc : s.valid c = true) :
    s.combine [s.combine [a, b], c] = s.combine [a, s.combine [b, c]] := by
  have h1 := combine_append s [a, b] [c]
  have h2 := combine_append s [a] [b, c]
  rw [combine_singleton s c hc] at h1
  rw [combine_singleton s a ha] at h2
  exact h1.symm.trans h2

/-! ## parity -/

theorem parity_combine_cons (s : Sym) (c : Charge) (cs : List Charge) :
    s.parity (s.combine (c :: cs)) = xor (s.parity c) (s.parity (s.combine cs)) := by
  obtain ⟨c1, c2⟩ := c
  cases s <;>
  simp only [combine_Z2, combine_Z4, combine_U1, combine_U1U1, combine_Z2Z2, Sym.parity,
    sum1_cons, sum2_cons] <;>
  apply beq_one_xor <;> omega

/-- parity is a homomorphism to (Bool, xor): the parity of a combination is the xor-fold of
    the parities (holds for every argument list) -/
theorem parity_combine (s : Sym) (cs : List Charge) :
    s.parity (s.combine cs) = cs.foldr (fun c acc => xor (s.parity c) acc) false := by
  induction cs with
  | nil => cases s <;> decide
  | cons c cs ih => rw [parity_combine_cons, ih]; rfl

theorem parity_combine_pair (s : Sym) (a b : Charge) :
    s.parity (s.combine [a, b]) = xor (s.parity a) (s.parity b) := by
  rw [parity_combine]; simp

theorem parity_zero (s : Sym) : s.parity s.zero = false := by
  cases s <;> decide

/-- negation preserves parity (holds for every charge) -/
theorem parity_sign (s : Sym) (c : Charge) (d : Bool) : s.parity (s.sign c d) = s.parity c := by
  obtain ⟨c1, c2⟩ := c
  cases s <;> cases d <;>
  simp only [Sym.sign, Sym.parity, if_true, if_false, Bool.false_eq_true] <;> congr 1 <;> omega

example : Sym.parity .U1U1 (Sym.combine .U1U1 [(1, 2), (-4, 7), (0, 1)]) = true := by decide

/-! ## sector enumeration -/

variable {R : Type}

/-- `is_valid_sector` says: the signed combination of the sector's charges is the total charge -/
theorem isValidSector_iff (a : Arr R) (s : Sector) :
    a.isValidSector s = true ↔ Arr.sectorCharge a.sym a.duals s = a.charge := by
  simp [Arr.isValidSector]

/-- `gen_valid_sectors` enumerates exactly the tuples of available charges whose signed
    combination is the total charge (relational form) -/
theorem genValidSectors_exact_forall₂ (a : Arr R)
    (hidx : ∀ ix ∈ a.indices, ∀ c ∈ ix.charges, a.sym.valid c = true)
    (hch : a.sym.valid a.charge = true) (s : Sector) :
    s ∈ a.genValidSectors ↔
      List.Forall₂ (fun c (ix : Index) => c ∈ ix.charges) s a.indices
        ∧ a.isValidSector s = true :=
  Arr.mem_genValidSectors a hidx hch s

/-- none missing, none extra: a sector is generated iff it has one charge per index, each
    charge is available on its index, and it satisfies the charge constraint.
    Hypotheses: every index charge and the total charge are valid for the symmetry. -/
theorem genValidSectors_exact (a : Arr R)
    (hidx : ∀ ix ∈ a.indices, ∀ c ∈ ix.charges, a.sym.valid c = true)
    (hch : a.sym.valid a.charge = true) (s : Sector) :
    s ∈ a.genValidSectors ↔
      (s.length = a.ndim
        ∧ (∀ (i : Nat) (h₁ : i < s.length) (h₂ : i < a.indices.length),
              s[i] ∈ (a.indices[i]).charges)
        ∧ a.isValidSector s = true) := by
  rw [Arr.mem_genValidSectors a hidx hch s, List.forall₂_iff_get]
  simp only [List.get_eq_getElem, Arr.ndim, and_assoc]

/-- none repeated.  Hypothesis: each index's charge list has no duplicates (Python: the keys
    of a dict). -/
theorem genValidSectors_nodup (a : Arr R) (h : ∀ ix ∈ a.indices, ix.charges.Nodup) :
    a.genValidSectors.Nodup :=
  Arr.genValidSectors_nodup_aux a h

/-! ### non-vacuity and exactness of the hypotheses -/

/-- Z4, index 0 outgoing with charges {0,1,3}, index 1 incoming with {0,2,3}, total charge 1 -/
def exZ4 : Arr Int :=
  { sym := .Z4, fermi := false, charge := (1, 0), blocks := [],
    indices := [Index.mk [((0, 0), 1), ((1, 0), 1), ((3, 0), 2)] false none,
                Index.mk [((0, 0), 1), ((2, 0), 1), ((3, 0), 1)] true none] }

example : (∀ ix ∈ exZ4.indices, ∀ c ∈ ix.charges, exZ4.sym.valid c = true)
    ∧ exZ4.sym.valid exZ4.charge = true ∧ (∀ ix ∈ exZ4.indices, ix.charges.Nodup) := by decide

example : exZ4.genValidSectors = [[(0, 0), (3, 0)], [(1, 0), (0, 0)], [(3, 0), (2, 0)]] := by decide

/-- U1U1 rank-3 with mixed directions -/
def exU1U1 : Arr Int :=
  { sym := .U1U1, fermi := false, charge := (1, -1), blocks := [],
    indices := [Index.mk [((-1, 0), 1), ((0, 1), 1)] false none,
                Index.mk [((0, 0), 1), ((1, 1), 1)] true none,
                Index.mk [((2, -1), 1), ((1, -1), 1), ((1, -2), 1)] false none] }

example : exU1U1.genValidSectors
    = [[(-1, 0), (0, 0), (2, -1)], [(0, 1), (0, 0), (1, -2)], [(0, 1), (1, 1), (2, -1)]] := by decide

/-- rank 0: only the empty sector, only for the zero charge -/
example : ({ sym := .U1, fermi := false, charge := (0, 0), blocks := [], indices := [] } : Arr Int).genValidSectors = [[]]
    ∧ ({ sym := .U1, fermi := false, charge := (1, 0), blocks := [], indices := [] } : Arr Int).genValidSectors = [] := by
  decide

/-- the total-charge hypothesis is needed: with the invalid Z2 total charge 2 the enumeration
    yields the sector `(0,)`, which `is_valid_sector` rejects ("none extra" fails) -/
theorem genValidSectors_exact_needs_valid_charge :
    let a : Arr Int := { sym := .Z2, fermi := false, charge := (2, 0), blocks := [],
                         indices := [Index.mk [((0, 0), 1)] false none] }
    [(0, 0)] ∈ a.genValidSectors ∧ a.isValidSector [(0, 0)] = false := by decide

/-- the index-charge hypothesis is needed: the invalid Z2 index charge 2 satisfies the
    constraint of total charge 0 but is never produced ("none missing" fails) -/
theorem genValidSectors_exact_needs_valid_index_charges :
    let a : Arr Int := { sym := .Z2, fermi := false, charge := (0, 0), blocks := [],
                         indices := [Index.mk [((2, 0), 1)] false none] }
    a.genValidSectors = [] ∧ a.isValidSector [(2, 0)] = true := by decide

/-- the no-duplicates hypothesis is needed (for all but the last index) -/
theorem genValidSectors_nodup_needs_nodup :
    let a : Arr Int := { sym := .Z2, fermi := false, charge := (0, 0), blocks := [],
                         indices := [Index.mk [((1, 0), 1), ((1, 0), 1)] false none,
                                     Index.mk [((1, 0), 1)] false none] }
    a.genValidSectors = [[(1, 0), (1, 0)], [(1, 0), (1, 0)]] := by decide

end SymmModel.C17
