/-
  Umbrella for property C03: the graded-refinement theorems (C03All, blockwise mode) together with
  C06c, which transfers them to the fused and auto contraction modes
  (`tensordotF_modes_agree`, `tensordotF_refines_graded_any_mode`).
-/
import SymmModel.Props.C03All
import SymmModel.Props.C06All2
