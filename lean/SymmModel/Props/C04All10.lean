/-
  Property C04 — umbrella module incl. C04h (four-tensor networks that are not chains: square, star, triangle
  with a pendant, K4 — every ordering, every bracketing, every operand order, up to a fermionic transpose).
-/
import SymmModel.Props.C04All9
import SymmModel.Props.C04h
