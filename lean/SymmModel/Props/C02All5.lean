/- Umbrella for property C02: C02All4 plus C02c (single-operand einsum with traced labels at dense level). -/
import SymmModel.Props.C02All4
import SymmModel.Props.C02c
