/-
  Property C07, fourth part — "… and then back to the original shape, restores the original array
  exactly", as theorems about `reshapeArr` (`AbelianArray.reshape` / `FermionicArray.reshape`).

  Scope (hence the suffix `_partial`): the forward plan the planner returns is ONE fuse call with ONE
  group, `([], [[g]], [])` — the target merges one run of adjacent axes, size-one axes of the run
  (squeezed axes) included.  For a certified plan `g` is then the run `p, …, p+|g|-1`, the
  transposition of the fuse is the identity, `reshape` back plans exactly `unfuse(p)`
  (`planner_back_plan`, for all shapes, ANY — also sparse — size of the fused axis), and
  `C05.unfuseF_fuseF` / `C05.unfuse_fuse_blocks` give the cancellation.
    `reshape_roundtrip_fermionic_partial`   fermionic: the result is valid, fermionic, has the
        indices, symmetry, charge and odd-position labels of the original; every stored sector is
        stored again with the same block shape and — pending signs multiplied in — the same values
        (`Restored`); every additional stored block (the fuse materialises zero blocks) has value 0.
        `roundtrip_restores_view`: hence the two value views agree at every address.
    `reshape_roundtrip_abelian_partial`     abelian: additionally every stored block comes back as
        the SAME block (shape and data), every additional block is all-zero.
    `reshape_roundtrip_fermionic_sizes_partial`  the certificate discharged by `C07.planner_wf`.
    `reshape_forward_elem_fermionic_partial` element-exact forward statement: each stored element
        of the reshaped array is the input's element at the split address times the fuse sign
        `fuseSignT` (flip of the non-dual legs and reversal sign if the run starts with a dual axis;
        no transposition sign).
  How the known finding reshape-fused-window-match is excluded: the input has no fused axis
  (`hnf`), so on the way back the only axis with sub-sizes is the one just fused and its sub-sizes
  are the original sizes at that very position — the window match is the intended one.  (For inputs
  with fused axes the way back can unfuse a kept axis instead: `C07.reshape_self_id_fused_counterexample`.)

  NOT proved (what is missing for the full clause): several groups in one fuse call and several
  fuse calls.  `reshape` back unfuses the fused axes left to right, `C05.unfuseF_fuseF` /
  `unfuse_fuse_blocks` unfuse the last group first; what is needed is that two `unfuse` steps on
  different axes commute on the value view, and that `unfuseF` respects equality of value views
  (the intermediate arrays differ by stored zero blocks, so `Lazy.ObsEq` does not apply).  Inputs with
  (densely) fused axes: excluded, see above.
-/
import SymmModel.Proofs.Reshape4g
import SymmModel.Props.C07c

namespace SymmModel.C07
open SymmModel SymmModel.Reshape SymmModel.Reshape3 SymmModel.Reshape4 ReshapeP

variable {R : Type}

/-! ## the plan of the way back -/

/-- **planner, way back (all shapes)**: one fused axis of any size `D` carrying the sub-sizes `mid`,
    target = the shape with that axis replaced by `mid`: the plan is `unfuse` of that axis. -/
theorem planner_back_plan (pre mid post : List Nat) (D : Nat) (hmid : mid ≠ []) :
    calcReshapeArgs (pre ++ D :: post) (pre ++ mid ++ post) (nones pre ++ some mid :: nones post)
      = .ok ([pre.length], [], []) :=
  back_plan pre mid post D hmid

example : calcReshapeArgs [7, 3, 5] [7, 2, 1, 3, 5] [none, some [2, 1, 3], none] = .ok ([1], [], []) :=
  planner_back_plan [7] [2, 1, 3] [5] 3 (by simp)

/-- `y.reshape(a.shape)` IS `y.unfuse(p)` when `y`'s axis `p` is fused from the indices that `a`
    (no fused axes) has in its place -/
theorem reshape_back_is_unfuse [Zero R] [Neg R] (y a : Arr R) (p : Nat) (ix : Index) (subs : List Index)
    (exts : Extents) (hix : y.indices[p]? = some ix) (hsub : ix.sub = some (subs, exts))
    (hsn : subs ≠ []) (hidx : a.indices = replaceWithSeq y.indices p subs)
    (hnf : ∀ ix ∈ a.indices, ix.sub = none) :
    reshapeArr y (a.shape.map Int.ofNat) = unfuseDispatch y p :=
  reshape_back_eq y a p ix subs exts hix hsub hsn hidx hnf

/-! ## there and back -/

/-- `Restored a z` ⇒ the value views agree wherever `z` stores a block (inside its box) and on
    every sector `z` does not store -/
theorem roundtrip_restores_view [Zero R] [Neg R] {a z : Arr R} (h : Restored a z) (K : Sector)
    (J : List Nat) (hJ : ∀ V, alookup z.blocks K = some V → inBox V.shape J = true) :
    z.elem K J = a.elem K J := h.elem_eq K J hJ

/-- **fermionic round trip (one merged run).** -/
theorem reshape_roundtrip_fermionic_partial [Zero R] [Neg R] [Lazy.LawfulNeg R] (a y : Arr R)
    (ns full : List Int) (nsN : List Nat) (g : List Nat)
    (hv : a.validB = true) (hf : a.fermi = true) (hnf : ∀ ix ∈ a.indices, ix.sub = none)
    (h1 : findFullReshape ns a.size = .ok full)
    (h2 : full.mapM (fun (d : Int) => if d < 0 then (throw Err.notimpl : Except Err Nat) else pure d.toNat)
      = .ok nsN)
    (h3 : calcReshapeArgs a.shape nsN a.subsizes = .ok ([], [[g]], []))
    (hwf : (Plan.ofTriple (([], [[g]], []) : List Nat × List (List (List Nat)) × List Nat)).wfB
      a.shape a.subsizes nsN = true)
    (hg2 : 2 ≤ g.length) (hy : reshapeArr a ns = .ok y) :
    ∃ z, reshapeArr y (a.shape.map Int.ofNat) = .ok z ∧ Restored a z :=
  reshape_roundtrip_fermionic a y ns full nsN g hv hf hnf h1 h2 h3 hwf hg2 hy

/-- the same with the certificate from the unbounded planner theorem -/
theorem reshape_roundtrip_fermionic_sizes_partial [Zero R] [Neg R] [Lazy.LawfulNeg R] (a y : Arr R)
    (ns full : List Int) (nsN : List Nat) (g : List Nat)
    (hv : a.validB = true) (hf : a.fermi = true) (hnf : ∀ ix ∈ a.indices, ix.sub = none)
    (hpos : ∀ d ∈ a.shape, 0 < d) (hprod : prod a.shape = prod nsN)
    (h1 : findFullReshape ns a.size = .ok full)
    (h2 : full.mapM (fun (d : Int) => if d < 0 then (throw Err.notimpl : Except Err Nat) else pure d.toNat)
      = .ok nsN)
    (h3 : calcReshapeArgs a.shape nsN a.subsizes = .ok ([], [[g]], []))
    (hg2 : 2 ≤ g.length) (hy : reshapeArr a ns = .ok y) :
    ∃ z, reshapeArr y (a.shape.map Int.ofNat) = .ok z ∧ Restored a z :=
  reshape_roundtrip_fermionic a y ns full nsN g hv hf hnf h1 h2 h3
    (reshape_plan_certified a nsN _ (denseB_unfused a hnf) hpos hprod h3) hg2 hy

/-- **abelian round trip (one merged run)**: block-exact. -/
theorem reshape_roundtrip_abelian_partial [Zero R] [Neg R] (a y : Arr R)
    (ns full : List Int) (nsN : List Nat) (g : List Nat)
    (hv : a.validB = true) (hf : a.fermi = false) (hnf : ∀ ix ∈ a.indices, ix.sub = none)
    (h1 : findFullReshape ns a.size = .ok full)
    (h2 : full.mapM (fun (d : Int) => if d < 0 then (throw Err.notimpl : Except Err Nat) else pure d.toNat)
      = .ok nsN)
    (h3 : calcReshapeArgs a.shape nsN a.subsizes = .ok ([], [[g]], []))
    (hwf : (Plan.ofTriple (([], [[g]], []) : List Nat × List (List (List Nat)) × List Nat)).wfB
      a.shape a.subsizes nsN = true)
    (hg2 : 2 ≤ g.length) (hy : reshapeArr a ns = .ok y) :
    ∃ z, reshapeArr y (a.shape.map Int.ofNat) = .ok z ∧ Restored a z
      ∧ (∀ s b, (s, b) ∈ a.blocks → alookup z.blocks s = some b)
      ∧ (∀ K V, alookup z.blocks K = some V → (∃ b, (K, b) ∈ a.blocks) ∨ FuseP.AllZero V) :=
  reshape_roundtrip_abelian a y ns full nsN g hv hf hnf h1 h2 h3 hwf hg2 hy

/-! ## element-exact forward statement -/

/-- **fermionic `reshape`, one merged run, element by element.** -/
theorem reshape_forward_elem_fermionic_partial [Zero R] [Neg R] [Lazy.LawfulNeg R] (a : Arr R) (p n : Nat)
    (hv : a.validB = true) (hf : a.fermi = true) (hn : 2 ≤ n) (hle : p + n ≤ a.ndim) :
    ∃ y, applyPlan a ([], [[List.range' p n]], []) = .ok y ∧
      ∀ ns B, alookup y.blocks ns = some B → ∀ i, inBox B.shape i = true →
        ∃ ss so, FuseP.splitAddr (y.indices.getD p default) (ns.getD p (0, 0)) (i.getD p 0) = some (ss, so)
          ∧ ∀ s offs, s.length = a.ndim → offs.length = a.ndim →
              s = ns.take p ++ ss ++ ns.drop (p + 1) → offs = i.take p ++ so ++ i.drop (p + 1) →
              y.elem ns i = Lazy.sgnI (FuseP.fuseSignT a [List.range' p n] s) (a.elem s offs) :=
  forward_elem_fermionic_single a p n hv hf hn hle

/-! ### examples -/

section Examples
open C05

/-- value view with the pending signs multiplied in -/
def valView (r : Except Err (Arr Int)) : Option (List (Sector × List Nat × List Int)) :=
  r.toOption.map (fun x => x.phaseSync.blocks.map (fun sb => (sb.1, sb.2.shape, sb.2.data.toList)))

-- `exF'` (3,3,2) with a pending sign → (3,6) → back: the pending sign has been applied to the data
example : calcReshapeArgs exF'.shape [3, 6] exF'.subsizes = .ok ([], [[[1, 2]]], []) := by decide +kernel
example : valView (do let x ← reshapeArr exF' [3, -1]; reshapeArr x [3, 3, 2]) = valView (.ok exF')
    ∧ exF'.phases ≠ [] := by decide +kernel
example := reshape_roundtrip_fermionic_partial (R := Int) exF' _ [3, -1] [3, 6] [3, 6] [1, 2]
  (by decide) rfl (by decide) rfl rfl (by decide +kernel) (by decide +kernel) (by decide) rfl
example := reshape_roundtrip_abelian_partial (R := Int) exA _ [3, -1] [3, 6] [3, 6] [1, 2]
  (by decide) rfl (by decide) rfl rfl (by decide +kernel) (by decide +kernel) (by decide) rfl
example := reshape_forward_elem_fermionic_partial (R := Int) exF' 1 2 (by decide) rfl (by decide) (by decide)

end Examples

end SymmModel.C07
