/-
  Property C05, part h — BOTH STRATEGIES AGREE, any number of groups.

  * `fuseInsert_eq_fuseConcat_multi`: for a valid array and any admissible non-empty list of groups,
    `fuseCore a groups .concat = fuseCore a groups .insert` — both succeed and return the SAME array:
    same indices, same dict (same sectors in the same order — first appearance of the new sector —,
    equal blocks).  `insert_eq_concat_blocks` is the block-by-block form (for every sector both
    look-ups are `none`, or both `some` with equal blocks).
    Route (`Proofs/Fuse8*.lean`): `nest_get` instantiated for the levels of the groups (`lvOk_lvFrom`,
    leaf shapes from `pieceShape_lvFrom` / `zeroShape_ok`); an address of the fused block chooses the
    sub-sectors of a stored sector exactly when it lies in the region the insert strategy writes that
    sector to, and the in-piece address is the address relative to the region (`region_link`, from
    `locatePiece_splitOffset`, `splitOffset_startOf`, `startOf_splitOffset`); `InsInv.hit` / `miss`,
    `blk_ext_of_get`; the dict orders agree (`insFold_keys`, `grpFold_keys`).
    `groups ≠ []` is needed: with no groups the concat recursion starts with no fuel and raises,
    the insert strategy returns the array with its blocks rebuilt (`fuseA` never calls it so).
  * consequences: `fuseA_concat_eq_insert` (the public abelian `fuse`, empty groups and
    `expand_empty` included), `fuseF_concat_eq_insert` (the fermionic `fuse`), and every statement of
    parts a–g about `mode = insert` holds verbatim for `mode = concat`: `fuse_elem_concat` is
    `fuse_elem` for the concat strategy.

  Not proved (see report): the sign relation between `unfuseAllF (conjF (fuseF a groups))` and
  `conjF (transposeF a perm)` (formula and examples in part g).  `Proofs/Fuse8ConjSign.lean` has the
  two sign bricks of one step (`conj_step_sign`, `tri_collapse`) and the plan.
-/
import SymmModel.Proofs.Fuse8Order
import SymmModel.Proofs.Fuse8ConjSign
import SymmModel.Props.C05All5

namespace SymmModel.C05
open SymmModel FuseP

variable {R : Type} [Zero R]

/-- block by block: for every sector both look-ups fail, or both succeed with equal blocks -/
theorem insert_eq_concat_blocks (a : Arr R) (groups : List (List Nat)) (hv : a.validB = true)
    (hg : groupsOkB groups a.ndim = true) (ns : Sector) :
    (alookup (fusedArrM a groups).blocks ns = none ∧ alookup (fusedArrCM a groups).blocks ns = none)
    ∨ ∃ B C, alookup (fusedArrM a groups).blocks ns = some B ∧ alookup (fusedArrCM a groups).blocks ns = some C
        ∧ B = C :=
  insert_eq_concat_multi (validArr_of_validB hv) (groupsOk_iff.1 hg) ns

/-- **both strategies agree** (any number of groups): the same array, dict order included -/
theorem fuseInsert_eq_fuseConcat_multi (a : Arr R) (groups : List (List Nat)) (hv : a.validB = true)
    (hg : groupsOkB groups a.ndim = true) (hne : groups ≠ []) :
    fuseCore a groups .concat = fuseCore a groups .insert
    ∧ fuseCore a groups .insert = .ok (fusedArrM a groups) ∧ fusedArrCM a groups = fusedArrM a groups := by
  have hva := validArr_of_validB hv
  have hok := groupsOk_iff.1 hg
  have heq : fusedArrCM a groups = fusedArrM a groups := by
    unfold fusedArrCM fusedArrM
    rw [concatBlocksM_eq hva hok]
  refine ⟨?_, fuseCore_multi_eq hva hok, heq⟩
  rw [(fuseConcat_multi a groups hv hg hne).1, fuseCore_multi_eq hva hok, heq]

/-- the public abelian `fuse`: the mode does not matter (empty groups, `expand_empty` included) -/
theorem fuseA_concat_eq_insert (a : Arr R) (groups : List (List Nat)) (e : Bool) (hv : a.validB = true)
    (hg : groupsOkB (groups.filter (fun g => !g.isEmpty)) a.ndim = true) :
    fuseA a groups .concat e = fuseA a groups .insert e := by
  unfold fuseA
  by_cases hemp : (groups.filter (fun g => !g.isEmpty)).isEmpty = true
  · simp only [hemp, if_true]
  · have hne : groups.filter (fun g => !g.isEmpty) ≠ [] := by
      intro h; rw [h] at hemp; exact hemp rfl
    simp only [hemp, Bool.false_eq_true, if_false]
    rw [(fuseInsert_eq_fuseConcat_multi a _ hv hg hne).1]

/-- the fermionic `fuse`: the mode does not matter -/
theorem fuseF_concat_eq_insert [Neg R] (a : Arr R) (groups : List (List Nat)) (e : Bool)
    (hv : a.validB = true) (hf : a.fermi = true) (hg : groupsOkB groups a.ndim = true) (hne : groups ≠ []) :
    Arr.fuseF a groups .concat e = Arr.fuseF a groups .insert e := by
  obtain ⟨h1, hv4, _, _, hg4, _, _⟩ := fuseF_struct a groups .concat e hv hf hg
  obtain ⟨h2, _⟩ := fuseF_struct a groups .insert e hv hf hg
  rw [h1, h2]
  have hne4 : newGroupsF groups a.duals ≠ [] := by
    intro h
    have := congrArg List.length h
    rw [newGroupsF_length] at this
    exact hne (List.eq_nil_of_length_eq_zero this)
  exact (fuseInsert_eq_fuseConcat_multi _ _ hv4 hg4 hne4).1

/-- `fuse_elem` for the concat strategy: the result of `fuseCore a groups .concat` is the array
    `fuse_elem` (part b) speaks about -/
theorem fuse_elem_concat (a : Arr R) (groups : List (List Nat)) (hv : a.validB = true)
    (hg : groupsOkB groups a.ndim = true) (hne : groups ≠ []) :
    ∃ x, fuseCore a groups .concat = .ok x ∧ fuseCore a groups .insert = .ok x := by
  obtain ⟨h1, h2, _⟩ := fuseInsert_eq_fuseConcat_multi a groups hv hg hne
  exact ⟨_, h1.trans h2, h2⟩

/-! ## examples -/

set_option synthInstance.maxSize 1024 in
/-- the mode does not matter: abelian, with an empty group and `expand_empty`; fermionic, with a
    pending sign and non-ascending groups -/
example : view (fuseA exB [[1, 0], [], [3, 2]] .concat true) = view (fuseA exB [[1, 0], [], [3, 2]] .insert true)
    ∧ (view (fuseA exB [[1, 0], [], [3, 2]] .concat true)).isSome = true
    ∧ view (Arr.fuseF exG [[3, 2], [1, 0]] .concat true) = view (Arr.fuseF exG [[3, 2], [1, 0]] .insert true)
    ∧ viewPh (Arr.fuseF exG [[3, 2], [1, 0]] .concat true) = viewPh (Arr.fuseF exG [[3, 2], [1, 0]] .insert true) := by
  decide +kernel

end SymmModel.C05
