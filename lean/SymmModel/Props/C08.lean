/-
  Property C08 — structural, elementwise and arithmetic operations commute with densification.

  Everything is about the model definitions `Arr.toDenseA`, `Arr.elem`, `Arr.locateAll`,
  `Arr.conjA`, `Arr.transposeA` (Model/Arr.lean), `binaryBlockwise`, `multiplyDiagonal`
  (Model/Tdot.lean) and the kernels of Model/Blk.lean, for ABELIAN arrays (`phases = []`), every
  rank, every symmetry, every sparsity pattern, and an arbitrary scalar type `R`; the few scalar
  laws a statement needs are explicit hypotheses (`-0 = 0`, `0 + v = v`, …) and are discharged
  for `Int` and for the driver's Gaussian rationals `GRat` in the `example`s.

  Scheme (DESIGN §3.4): `toDenseA_get` says that the dense array at a position `p` is the value
  view `Arr.elem` at the address `locateAll a.indices p`; each operation is characterised at the
  value-view level (`…_elem`) for EVERY sector and offset, and the dense statements
  (`…_toDense`) follow by composing the two.

  The scalar operations `negA smulA sdivA addA subA mulA` are the expressions the correspondence
  driver executes (Driver/Ops.lean "neg" "smul" "sdiv" "add" "sub" "mul"), named in
  Proofs/DenseLemmas.lean.
-/
import SymmModel.Proofs.DenseLemmas

namespace SymmModel.C08
open SymmModel Arr

variable {R : Type}

/-- no index has an empty charge table (`to_dense` raises a `ValueError` otherwise) -/
abbrev NoEmpty (a : Arr R) : Prop := a.indices.any (fun ix => ix.cm.isEmpty) = false

/-! ## 1. the bridge: dense value = value view at the located address -/

/-- every position of the dense box has an address `(sector, offsets)` -/
theorem locateAll_total (indices : List Index) (p : List Nat)
    (hp : inBox (indices.map Index.sizeTotal) p = true) :
    ∃ sec off, locateAll indices p = some (sec, off)
      ∧ sec.length = indices.length ∧ off.length = indices.length := by
  obtain ⟨sec, off, h⟩ := locateAll_isSome hp
  exact ⟨sec, off, h, locateAll_length h (by simpa using inBox_length hp)⟩

/-- `to_dense` of an array without empty charge tables succeeds, has the array's shape, and its
    entry at every in-box position is the value view at that position's address -/
theorem toDenseA_get [Zero R] [Neg R] (a : Arr R) (h : NoEmpty a) :
    ∃ d, toDenseA a = .ok d ∧ d.shape = a.shape ∧
      ∀ p, inBox a.shape p = true →
        ∃ sec off, locateAll a.indices p = some (sec, off) ∧ d.get p = a.elem sec off :=
  Arr.toDenseA_get a h

/-- … and it raises (a `ValueError`) exactly when some index has an empty charge table -/
theorem toDenseA_error_iff [Zero R] [Neg R] (a : Arr R) :
    (∃ e, toDenseA a = .error e) ↔ ¬ NoEmpty a := by
  by_cases h : a.indices.any (fun ix => ix.cm.isEmpty) = true
  · simp [NoEmpty, h, toDenseA_error a false h]
  · have h' : NoEmpty a := by simpa using h
    rw [toDenseA_eq a false h']
    exact ⟨fun ⟨e, he⟩ => (by cases he), fun hh => absurd h' hh⟩

theorem toDenseA_error_kind [Zero R] [Neg R] (a : Arr R) (e : Err) (h : toDenseA a = .error e) :
    e = Err.value := by
  by_cases hn : a.indices.any (fun ix => ix.cm.isEmpty) = true
  · rw [toDenseA_error a false hn] at h; exact (Except.error.inj h).symm
  · rw [toDenseA_eq a false (by simpa using hn)] at h; cases h

/-- the address of an in-box position lies inside the block its sector names (chargemaps with
    distinct charges) -/
theorem locateAll_inBox (indices : List Index) (hnd : ∀ ix ∈ indices, (ix.cm.map (·.1)).Nodup)
    (p : List Nat) (hp : inBox (indices.map Index.sizeTotal) p = true)
    (sec : Sector) (off shp : List Nat)
    (h : locateAll indices p = some (sec, off)) (hs : blockShape? indices sec = some shp) :
    inBox shp off = true :=
  Arr.locateAll_inBox hnd (by simpa using inBox_length hp) h hs

/-! ## 2. the operations at the value-view level (every sector, every offset) -/

theorem neg_elem [Zero R] [Neg R] (h0 : -(0 : R) = 0) (a : Arr R) (hab : a.phases = [])
    (s : Sector) (off : List Nat) : (negA a).elem s off = - a.elem s off :=
  elem_mapVals a (negA a) Blk.negK (fun x => -x) h0 (fun b off => Blk.get_map _ h0 b off)
    hab hab rfl s off

theorem smul_elem [Zero R] [Neg R] [Mul R] (k : R) (h0 : (0 : R) * k = 0) (a : Arr R)
    (hab : a.phases = []) (s : Sector) (off : List Nat) :
    (smulA a k).elem s off = a.elem s off * k :=
  elem_mapVals a (smulA a k) (fun b => b.map (· * k)) (· * k) h0
    (fun b off => Blk.get_map _ h0 b off) hab hab rfl s off

theorem sdiv_elem [Zero R] [Neg R] [Div R] (k : R) (h0 : (0 : R) / k = 0) (a : Arr R)
    (hab : a.phases = []) (s : Sector) (off : List Nat) :
    (sdivA a k).elem s off = a.elem s off / k :=
  elem_mapVals a (sdivA a k) (fun b => b.map (· / k)) (· / k) h0
    (fun b off => Blk.get_map _ h0 b off) hab hab rfl s off

theorem conjA_elem [Zero R] [Neg R] [Conj R] (h0 : Conj.conj (0 : R) = 0) (a : Arr R)
    (hab : a.phases = []) (s : Sector) (off : List Nat) :
    (conjA a).elem s off = Conj.conj (a.elem s off) :=
  elem_mapVals a (conjA a) Blk.conjK Conj.conj h0 (fun b off => Blk.get_map _ h0 b off)
    hab hab rfl s off

/-- the binary operations return the left operand's metadata with new blocks -/
theorem addA_ok [Zero R] [Add R] (x y : Arr R) : ∃ bl, addA x y = .ok { x with blocks := bl } := by
  obtain ⟨bl, hbl, _⟩ := binaryBlockwise_outer (Blk.zipWith (· + · : R → R → R)) x.blocks y.blocks
  exact ⟨bl, by simp only [addA, binopA, hbl]⟩

theorem mulA_ok [Zero R] [Mul R] (x y : Arr R) : ∃ bl, mulA x y = .ok { x with blocks := bl } := by
  obtain ⟨bl, hbl, _⟩ := binaryBlockwise_inner (Blk.zipWith (· * · : R → R → R)) x.blocks y.blocks
  exact ⟨bl, by simp only [mulA, binopA, hbl]⟩

/-- addition keeps the blocks stored by either operand (`missing="outer"`): the value view of the
    sum is the sum of the value views, also where only one operand stores the sector -/
theorem add_outer_elem [Zero R] [Neg R] [Add R] (hl : ∀ v : R, 0 + v = v) (hr : ∀ v : R, v + 0 = v)
    (x y z : Arr R) (hz : addA x y = .ok z) (hx : x.phases = []) (hy : y.phases = [])
    (s : Sector) (off : List Nat)
    (hoff : ∀ bx, alookup x.blocks s = some bx → inBox bx.shape off = true) :
    z.elem s off = x.elem s off + y.elem s off := by
  obtain ⟨bl, hbl, hlk⟩ := binaryBlockwise_outer (Blk.zipWith (· + · : R → R → R)) x.blocks y.blocks
  simp only [addA, binopA, hbl] at hz
  injection hz with hz; subst hz
  rw [elem_abelian ({ x with blocks := bl } : Arr R) hx, elem_abelian x hx, elem_abelian y hy]
  simp only [hlk s]
  cases hxs : alookup x.blocks s with
  | none => cases alookup y.blocks s <;> simp [hl]
  | some bx =>
    cases alookup y.blocks s with
    | none => simp [hr]
    | some b => simp [Blk.get_zipWith _ _ _ (hoff bx hxs)]

/-- the elementwise product keeps only the sectors stored by both operands (`missing="inner"`):
    its value view is the product of the value views everywhere -/
theorem mul_inner_elem [Zero R] [Neg R] [Mul R] (hl : ∀ v : R, 0 * v = 0) (hr : ∀ v : R, v * 0 = 0)
    (x y z : Arr R) (hz : mulA x y = .ok z) (hx : x.phases = []) (hy : y.phases = [])
    (s : Sector) (off : List Nat)
    (hoff : ∀ bx, alookup x.blocks s = some bx → inBox bx.shape off = true) :
    z.elem s off = x.elem s off * y.elem s off := by
  obtain ⟨bl, hbl, hlk⟩ := binaryBlockwise_inner (Blk.zipWith (· * · : R → R → R)) x.blocks y.blocks
  simp only [mulA, binopA, hbl] at hz
  injection hz with hz; subst hz
  rw [elem_abelian ({ x with blocks := bl } : Arr R) hx, elem_abelian x hx, elem_abelian y hy]
  simp only [hlk s]
  cases hxs : alookup x.blocks s with
  | none => cases alookup y.blocks s <;> simp [hl]
  | some bx =>
    cases alookup y.blocks s with
    | none => simp [hr]
    | some b => simp [Blk.get_zipWith _ _ _ (hoff bx hxs)]

/-- the product stores exactly the sectors both operands store -/
theorem mul_inner_sectors [Zero R] [Mul R] (x y z : Arr R) (hz : mulA x y = .ok z) (s : Sector) :
    s ∈ z.sectors ↔ s ∈ x.sectors ∧ s ∈ y.sectors := by
  obtain ⟨bl, hbl, hlk⟩ := binaryBlockwise_inner (Blk.zipWith (· * · : R → R → R)) x.blocks y.blocks
  simp only [mulA, binopA, hbl] at hz
  injection hz with hz; subst hz
  simp only [sectors, ← alookup_isSome_iff, hlk s]
  cases alookup x.blocks s <;> cases alookup y.blocks s <;> simp

/-- the sum stores the sectors either operand stores -/
theorem add_outer_sectors [Zero R] [Add R] (x y z : Arr R) (hz : addA x y = .ok z) (s : Sector) :
    s ∈ z.sectors ↔ s ∈ x.sectors ∨ s ∈ y.sectors := by
  obtain ⟨bl, hbl, hlk⟩ := binaryBlockwise_outer (Blk.zipWith (· + · : R → R → R)) x.blocks y.blocks
  simp only [addA, binopA, hbl] at hz
  injection hz with hz; subst hz
  simp only [sectors, ← alookup_isSome_iff, hlk s]
  cases alookup x.blocks s <;> cases alookup y.blocks s <;> simp

/-- subtraction is strict: it raises — a `ValueError`, nothing else — exactly when the operands
    do not store the same set of sectors; otherwise it returns the left operand's metadata -/
theorem sub_error_iff [Zero R] [Sub R] (x y : Arr R) :
    ((∃ e, subA x y = .error e) ↔ ¬ ∀ s, s ∈ x.sectors ↔ s ∈ y.sectors)
    ∧ (∀ e, subA x y = .error e → e = Err.value)
    ∧ ((∀ s, s ∈ x.sectors ↔ s ∈ y.sectors) → ∃ bl, subA x y = .ok { x with blocks := bl }) := by
  rcases binaryBlockwise_strict (Blk.zipWith (· - · : R → R → R)) x.blocks y.blocks with
    ⟨he, hk⟩ | ⟨bl, hbl, hk, _⟩
  · simp only [subA, binopA, he, sectors]
    exact ⟨⟨fun _ => hk, fun _ => ⟨_, rfl⟩⟩, fun e h => (Except.error.inj h).symm,
      fun h => absurd h hk⟩
  · simp only [subA, binopA, hbl, sectors]
    exact ⟨⟨fun ⟨e, h⟩ => (by cases h), fun h => absurd hk h⟩, fun e h => (by cases h),
      fun _ => ⟨bl, rfl⟩⟩

/-- … and when it does not raise, the value view of the result is the difference everywhere -/
theorem sub_strict_elem [Zero R] [Neg R] [Sub R] (h00 : (0 : R) - 0 = 0)
    (x y z : Arr R) (hz : subA x y = .ok z) (hx : x.phases = []) (hy : y.phases = [])
    (s : Sector) (off : List Nat)
    (hoff : ∀ bx, alookup x.blocks s = some bx → inBox bx.shape off = true) :
    z.elem s off = x.elem s off - y.elem s off := by
  rcases binaryBlockwise_strict (Blk.zipWith (· - · : R → R → R)) x.blocks y.blocks with
    ⟨he, _⟩ | ⟨bl, hbl, hsame, hlk⟩
  · simp only [subA, binopA, he] at hz; cases hz
  simp only [subA, binopA, hbl] at hz
  injection hz with hz; subst hz
  rw [elem_abelian ({ x with blocks := bl } : Arr R) hx, elem_abelian x hx, elem_abelian y hy]
  simp only [hlk s]
  have hs := hsame s
  simp only [← alookup_isSome_iff] at hs
  cases hxs : alookup x.blocks s with
  | none => cases hys : alookup y.blocks s <;> simp_all
  | some bx =>
    cases hys : alookup y.blocks s with
    | none => simp_all
    | some b => simp [Blk.get_zipWith _ _ _ (hoff bx hxs)]

/-- the elementwise product is commutative at the value-view level when `R`'s product is: both
    orders store the same sectors and have the same value view -/
theorem mul_comm_obs [Zero R] [Neg R] [Mul R] (hl : ∀ v : R, 0 * v = 0) (hr : ∀ v : R, v * 0 = 0)
    (hc : ∀ u v : R, u * v = v * u)
    (x y z z' : Arr R) (hz : mulA x y = .ok z) (hz' : mulA y x = .ok z')
    (hx : x.phases = []) (hy : y.phases = []) (s : Sector) (off : List Nat)
    (hoffx : ∀ bx, alookup x.blocks s = some bx → inBox bx.shape off = true)
    (hoffy : ∀ b, alookup y.blocks s = some b → inBox b.shape off = true) :
    z.elem s off = z'.elem s off ∧ (s ∈ z.sectors ↔ s ∈ z'.sectors) := by
  rw [mul_inner_elem hl hr x y z hz hx hy s off hoffx,
    mul_inner_elem hl hr y x z' hz' hy hx s off hoffy, hc,
    mul_inner_sectors x y z hz, mul_inner_sectors y x z' hz']
  exact ⟨rfl, And.comm⟩

/-- `multiply_diagonal`: the value view is multiplied by the vector entry of the sector's charge
    on `axis`; where the vector has no block for that charge the sector is dropped, i.e. zero -/
theorem multiplyDiagonal_elem [Zero R] [Neg R] [Mul R] (hl : ∀ v : R, 0 * v = 0)
    (a : Arr R) (hab : a.phases = []) (v : BVec R) (axis : Nat) (s : Sector) (off : List Nat)
    (hoff : ∀ b, alookup a.blocks s = some b → inBox b.shape off = true) :
    (multiplyDiagonal a v axis).elem s off =
      match alookup v.blocks (s.getD axis (0, 0)) with
      | some vb => a.elem s off * vb.get [off.getD axis 0]
      | none => 0 := by
  rw [elem_abelian (multiplyDiagonal a v axis) hab, elem_abelian a hab]
  simp only [multiplyDiagonal]
  rw [alookup_filterMap_key' a.blocks _ (fun s => alookup v.blocks (s.getD axis (0, 0)))
    (fun _ b vb => b.mulAxisK vb axis)
    (fun ⟨s, b⟩ => by dsimp only; cases alookup v.blocks (s.getD axis (0, 0)) <;> rfl)]
  cases hxs : alookup a.blocks s with
  | none => cases alookup v.blocks (s.getD axis (0, 0)) <;> simp [hl]
  | some b =>
    cases alookup v.blocks (s.getD axis (0, 0)) with
    | none => simp
    | some vb => simp [Blk.get_mulAxisK _ _ _ (hoff b hxs)]

/-! ## 3. the same statements about the dense arrays

`ShapesOk a` (Proofs/DenseLemmas.lean): every index has distinct charges and every stored block has
the shape the index tables prescribe — two clauses of the validity predicate `Arr.validB`. -/

theorem neg_toDense [Zero R] [Neg R] (h0 : -(0 : R) = 0) (a : Arr R) (hab : a.phases = [])
    (hne : NoEmpty a) :
    ∃ d d', toDenseA a = .ok d ∧ toDenseA (negA a) = .ok d' ∧ d.shape = a.shape
      ∧ d'.shape = a.shape ∧ ∀ p, inBox a.shape p = true → d'.get p = - d.get p :=
  toDense_rel₂ a (negA a) rfl hne (fun _ u w => w = -u)
    (fun _ sec off _ _ => neg_elem h0 a hab sec off)

theorem smul_toDense [Zero R] [Neg R] [Mul R] (k : R) (h0 : (0 : R) * k = 0) (a : Arr R)
    (hab : a.phases = []) (hne : NoEmpty a) :
    ∃ d d', toDenseA a = .ok d ∧ toDenseA (smulA a k) = .ok d' ∧ d.shape = a.shape
      ∧ d'.shape = a.shape ∧ ∀ p, inBox a.shape p = true → d'.get p = d.get p * k :=
  toDense_rel₂ a (smulA a k) rfl hne (fun _ u w => w = u * k)
    (fun _ sec off _ _ => smul_elem k h0 a hab sec off)

theorem sdiv_toDense [Zero R] [Neg R] [Div R] (k : R) (h0 : (0 : R) / k = 0) (a : Arr R)
    (hab : a.phases = []) (hne : NoEmpty a) :
    ∃ d d', toDenseA a = .ok d ∧ toDenseA (sdivA a k) = .ok d' ∧ d.shape = a.shape
      ∧ d'.shape = a.shape ∧ ∀ p, inBox a.shape p = true → d'.get p = d.get p / k :=
  toDense_rel₂ a (sdivA a k) rfl hne (fun _ u w => w = u / k)
    (fun _ sec off _ _ => sdiv_elem k h0 a hab sec off)

/-- `conj` flips the index directions (and the charge) but not the charge tables, so positions
    keep their addresses and the dense array is conjugated entrywise -/
theorem conj_toDense [Zero R] [Neg R] [Conj R] (h0 : Conj.conj (0 : R) = 0) (a : Arr R)
    (hab : a.phases = []) (hne : NoEmpty a) :
    ∃ d d', toDenseA a = .ok d ∧ toDenseA (conjA a) = .ok d' ∧ d.shape = a.shape
      ∧ d'.shape = a.shape ∧ ∀ p, inBox a.shape p = true → d'.get p = Conj.conj (d.get p) :=
  toDense_rel₂ a (conjA a) (map_cm_conj a.indices) hne (fun _ u w => w = Conj.conj u)
    (fun _ sec off _ _ => conjA_elem h0 a hab sec off)

theorem conj_indices [Conj R] (a : Arr R) :
    (conjA a).indices = a.indices.map Index.conj ∧ (conjA a).charge = a.sym.sign a.charge true
    ∧ (conjA a).sectors = a.sectors := by
  refine ⟨rfl, rfl, ?_⟩
  simp [conjA, sectors, List.map_map, Function.comp_def]

theorem add_toDense [Zero R] [Neg R] [Add R] (hl : ∀ v : R, 0 + v = v) (hr : ∀ v : R, v + 0 = v)
    (x y : Arr R) (hx : x.phases = []) (hy : y.phases = []) (hidx : y.indices = x.indices)
    (hne : NoEmpty x) (hsx : ShapesOk x) :
    ∃ z dx dy dz, addA x y = .ok z ∧ toDenseA x = .ok dx ∧ toDenseA y = .ok dy
      ∧ toDenseA z = .ok dz ∧ dx.shape = x.shape ∧ dy.shape = x.shape ∧ dz.shape = x.shape
      ∧ ∀ p, inBox x.shape p = true → dz.get p = dx.get p + dy.get p := by
  obtain ⟨bl, hz⟩ := addA_ok x y
  obtain ⟨dx, dy, dz, h1, h2, h3, s1, s2, s3, h⟩ :=
    toDense_rel₃ x y { x with blocks := bl } (by rw [hidx]) rfl hne (fun _ u v w => w = u + v)
      (fun p sec off hp hloc => add_outer_elem hl hr x y _ hz hx hy sec off
        (fun _ hb => hsx.inBox hp hloc hb))
  exact ⟨_, dx, dy, dz, hz, h1, h2, h3, s1, s2, s3, h⟩

theorem mul_toDense [Zero R] [Neg R] [Mul R] (hl : ∀ v : R, 0 * v = 0) (hr : ∀ v : R, v * 0 = 0)
    (x y : Arr R) (hx : x.phases = []) (hy : y.phases = []) (hidx : y.indices = x.indices)
    (hne : NoEmpty x) (hsx : ShapesOk x) :
    ∃ z dx dy dz, mulA x y = .ok z ∧ toDenseA x = .ok dx ∧ toDenseA y = .ok dy
      ∧ toDenseA z = .ok dz ∧ dx.shape = x.shape ∧ dy.shape = x.shape ∧ dz.shape = x.shape
      ∧ ∀ p, inBox x.shape p = true → dz.get p = dx.get p * dy.get p := by
  obtain ⟨bl, hz⟩ := mulA_ok x y
  obtain ⟨dx, dy, dz, h1, h2, h3, s1, s2, s3, h⟩ :=
    toDense_rel₃ x y { x with blocks := bl } (by rw [hidx]) rfl hne (fun _ u v w => w = u * v)
      (fun p sec off hp hloc => mul_inner_elem hl hr x y _ hz hx hy sec off
        (fun _ hb => hsx.inBox hp hloc hb))
  exact ⟨_, dx, dy, dz, hz, h1, h2, h3, s1, s2, s3, h⟩

/-- subtraction either raises or returns the block form of the dense difference -/
theorem sub_toDense [Zero R] [Neg R] [Sub R] (h00 : (0 : R) - 0 = 0)
    (x y : Arr R) (hx : x.phases = []) (hy : y.phases = []) (hidx : y.indices = x.indices)
    (hne : NoEmpty x) (hsx : ShapesOk x) :
    subA x y = .error Err.value ∨
    ∃ z dx dy dz, subA x y = .ok z ∧ toDenseA x = .ok dx ∧ toDenseA y = .ok dy
      ∧ toDenseA z = .ok dz ∧ dx.shape = x.shape ∧ dy.shape = x.shape ∧ dz.shape = x.shape
      ∧ ∀ p, inBox x.shape p = true → dz.get p = dx.get p - dy.get p := by
  by_cases hs : ∀ s, s ∈ x.sectors ↔ s ∈ y.sectors
  · right
    obtain ⟨bl, hz⟩ := (sub_error_iff x y).2.2 hs
    obtain ⟨dx, dy, dz, h1, h2, h3, s1, s2, s3, h⟩ :=
      toDense_rel₃ x y { x with blocks := bl } (by rw [hidx]) rfl hne (fun _ u v w => w = u - v)
        (fun p sec off hp hloc => sub_strict_elem h00 x y _ hz hx hy sec off
          (fun _ hb => hsx.inBox hp hloc hb))
    exact ⟨_, dx, dy, dz, hz, h1, h2, h3, s1, s2, s3, h⟩
  · left
    obtain ⟨e, he⟩ := (sub_error_iff x y).1.mpr hs
    rw [he, (sub_error_iff x y).2.1 e he]

/-- `multiply_diagonal` along `axis` multiplies the dense array by the dense vector laid out
    along that index; charges the vector lacks contribute zeros -/
theorem multiplyDiagonal_toDense [Zero R] [Neg R] [Mul R] (hl : ∀ v : R, 0 * v = 0)
    (hr : ∀ v : R, v * 0 = 0) (a : Arr R) (hab : a.phases = []) (v : BVec R) (axis : Nat)
    (hax : axis < a.ndim) (hne : NoEmpty a) (hsa : ShapesOk a) :
    ∃ d d', toDenseA a = .ok d ∧ toDenseA (multiplyDiagonal a v axis) = .ok d'
      ∧ d.shape = a.shape ∧ d'.shape = a.shape
      ∧ ∀ p, inBox a.shape p = true →
          d'.get p = d.get p * v.denseAt (a.indices.getD axis default) (p.getD axis 0) := by
  refine toDense_rel₂ a (multiplyDiagonal a v axis) rfl hne
    (fun p u w => w = u * v.denseAt (a.indices.getD axis default) (p.getD axis 0))
    (fun p sec off hp hloc => ?_)
  rw [multiplyDiagonal_elem hl a hab v axis sec off (fun _ hb => hsa.inBox hp hloc hb)]
  have hax' := locateAll_axis hloc (by simpa [shape] using inBox_length hp) axis hax
  simp only [BVec.denseAt, hax', BVec.elem]
  cases alookup v.blocks (sec.getD axis (0, 0)) <;> simp [hr]

/-- value view of the transposed array at the permuted address (`axes` a permutation, distinct
    sector keys of full length, blocks of full rank) -/
theorem transposeA_elem [Zero R] [Neg R] (a : Arr R) (axes : List Nat)
    (hperm : isPerm axes a.ndim = true) (hab : a.phases = []) (hnd : a.sectors.Nodup)
    (hlen : ∀ s ∈ a.sectors, s.length = a.ndim)
    (hshape : ∀ s b, alookup a.blocks s = some b → b.shape.length = a.ndim)
    (s : Sector) (hs : s.length = a.ndim) (off : List Nat)
    (hoff : ∀ b, alookup a.blocks s = some b → inBox b.shape off = true) :
    (transposeA a axes).elem (permuted s axes) (permuted off axes) = a.elem s off :=
  Arr.transposeA_elem a axes hperm hab hnd hlen hshape s hs off hoff

/-- `transpose` commutes with densification: the dense array of the transposed array is the
    `np.transpose` of the dense array (its entry at the permuted position is the original entry
    and its shape is the permuted shape) -/
theorem transposeA_toDense [Zero R] [Neg R] (a : Arr R) (axes : List Nat)
    (hperm : isPerm axes a.ndim = true) (hab : a.phases = []) (hne : NoEmpty a)
    (hsa : ShapesOk a) (hnd : a.sectors.Nodup) (hlen : ∀ s ∈ a.sectors, s.length = a.ndim) :
    ∃ d d', toDenseA a = .ok d ∧ toDenseA (transposeA a axes) = .ok d' ∧ d.shape = a.shape
      ∧ d'.shape = permuted a.shape axes
      ∧ ∀ p, inBox a.shape p = true → d'.get (permuted p axes) = d.get p := by
  have hlt := isPerm_lt hperm
  have hsh : (transposeA a axes).shape = permuted a.shape axes := by
    simp only [shape, transposeA, permuted_map]
  have hne' : NoEmpty (transposeA a axes) := by
    simp only [NoEmpty, transposeA, List.any_eq_false] at hne ⊢
    exact fun ix hix => hne ix (mem_of_mem_permuted hix)
  obtain ⟨d, hd, hs, hg⟩ := Arr.toDenseA_get a hne
  obtain ⟨d', hd', hs', hg'⟩ := Arr.toDenseA_get (transposeA a axes) hne'
  refine ⟨d, d', hd, hd', hs, hs'.trans hsh, fun p hp => ?_⟩
  have hpl : p.length = a.indices.length := by simpa [shape] using inBox_length hp
  obtain ⟨sec, off, hl, hx⟩ := hg p hp
  obtain ⟨sec', off', hl', hx'⟩ := hg' (permuted p axes)
    (by rw [hsh]; exact inBox_permuted hp axes (by simpa [shape, ndim] using hlt))
  have := locateAll_permuted hl hpl axes hlt
  rw [show (transposeA a axes).indices = permuted a.indices axes from rfl, this] at hl'
  simp only [Option.some.injEq, Prod.mk.injEq] at hl'
  obtain ⟨rfl, rfl⟩ := hl'
  rw [hx, hx']
  exact Arr.transposeA_elem a axes hperm hab hnd hlen
    (fun s b hb => by simpa [ndim] using blockShape?_shape_length (hsa.2 s b hb))
    sec (locateAll_length hl hpl).1 off (fun _ hb => hsa.inBox hp hl hb)

/-- every structural hypothesis used above follows from the validity predicate of C01 -/
theorem hypotheses_of_validB (a : Arr R) (h : a.validB = true) :
    ShapesOk a ∧ a.sectors.Nodup ∧ (∀ s ∈ a.sectors, s.length = a.ndim)
    ∧ (a.fermi = false → a.phases = []) := by
  obtain ⟨h1, h2, h3, _, _, h6⟩ := validB_facts a h
  exact ⟨h1, h2, h3, h6⟩

/-! ## the hypotheses are satisfiable: scalar laws for `GRat`/`Int`, concrete arrays over `Int` -/

section Examples

/-- the scalar laws used above hold in the driver's Gaussian rationals -/
theorem GRat_laws :
    (-(0 : GRat) = 0) ∧ (Conj.conj (0 : GRat) = 0) ∧ ((0 : GRat) - 0 = 0)
    ∧ (∀ v : GRat, 0 + v = v) ∧ (∀ v : GRat, v + 0 = v)
    ∧ (∀ v : GRat, 0 * v = 0) ∧ (∀ v : GRat, v * 0 = 0)
    ∧ (∀ u v : GRat, u * v = v * u) ∧ (∀ k : GRat, (0 : GRat) / k = 0) := by
  refine ⟨by decide, by decide, ?_, ?_, ?_, ?_, ?_, ?_, ?_⟩
  · show GRat.mk (0 - 0) (0 - 0) = GRat.mk 0 0; congr 1 <;> grind
  · intro v; cases v; show GRat.mk (0 + _) (0 + _) = _; congr 1 <;> grind
  · intro v; cases v; show GRat.mk (_ + 0) (_ + 0) = _; congr 1 <;> grind
  · intro v; cases v; show GRat.mk (0 * _ - 0 * _) (0 * _ + 0 * _) = GRat.mk 0 0; congr 1 <;> grind
  · intro v; cases v; show GRat.mk (_ * 0 - _ * 0) (_ * 0 + _ * 0) = GRat.mk 0 0; congr 1 <;> grind
  · intro u v; cases u; cases v
    show GRat.mk (_ * _ - _ * _) (_ * _ + _ * _) = GRat.mk (_ * _ - _ * _) (_ * _ + _ * _)
    congr 1 <;> grind
  · intro k; cases k
    show GRat.div _ _ = _
    simp only [GRat.div]
    show GRat.mk ((0 * _ + 0 * _) / _) ((0 * _ - 0 * _) / _) = GRat.mk 0 0
    congr 1 <;> rw [Rat.div_def] <;> grind

namespace Ex
/-- a U(1) index with charges 0 (size 1) and 1 (size 2) -/
def ix (d : Bool) : Index := .mk [((0, 0), 1), ((1, 0), 2)] d none
/-- a 3×3 U(1) matrix of charge 0 storing both of its sectors -/
def x : Arr Int :=
  { sym := .U1, fermi := false, indices := [ix false, ix true], charge := (0, 0),
    blocks := [([(0, 0), (0, 0)], ⟨[1, 1], #[5]⟩), ([(1, 0), (1, 0)], ⟨[2, 2], #[1, 2, 3, 4]⟩)] }
/-- the same structure storing only one sector (different sparsity) -/
def y : Arr Int := { x with blocks := [([(1, 0), (1, 0)], ⟨[2, 2], #[10, 20, 30, 40]⟩)] }
/-- a diagonal vector that lacks charge 0 -/
def v : BVec Int := ⟨[((1, 0), ⟨[2], #[2, 3]⟩)]⟩

def dataOf (r : Except Err (Blk Int)) : Option (List Nat × List Int) :=
  match r with | .ok b => some (b.shape, b.data.toList) | .error _ => none
def errOf {α : Type} (r : Except Err α) : Option Err :=
  match r with | .ok _ => none | .error e => some e
end Ex
open Ex

example : x.validB = true ∧ y.validB = true := by decide
example : NoEmpty x ∧ x.phases = [] ∧ y.phases = [] ∧ y.indices = x.indices :=
  ⟨by decide, rfl, rfl, rfl⟩
example : ShapesOk x ∧ x.sectors.Nodup ∧ (∀ s ∈ x.sectors, s.length = x.ndim) :=
  let h := hypotheses_of_validB x (by decide); ⟨h.1, h.2.1, h.2.2.1⟩
example : isPerm [1, 0] x.ndim = true := by decide
-- different stored sectors in the two operands
example : x.sectors ≠ y.sectors := by decide

-- the dense arrays, computed by the model
example : dataOf (toDenseA x) = some ([3, 3], [5, 0, 0, 0, 1, 2, 0, 3, 4]) := by decide
example : dataOf (toDenseA y) = some ([3, 3], [0, 0, 0, 0, 10, 20, 0, 30, 40]) := by decide
example : dataOf (addA x y >>= toDenseA) = some ([3, 3], [5, 0, 0, 0, 11, 22, 0, 33, 44]) := by decide
example : dataOf (mulA x y >>= toDenseA) = some ([3, 3], [0, 0, 0, 0, 10, 40, 0, 90, 160]) := by decide
example : dataOf (mulA y x >>= toDenseA) = some ([3, 3], [0, 0, 0, 0, 10, 40, 0, 90, 160]) := by decide
example : errOf (subA x y) = some Err.value ∧ errOf (subA x x) = none := by decide
example : dataOf (toDenseA (transposeA x [1, 0])) = some ([3, 3], [5, 0, 0, 0, 1, 3, 0, 2, 4]) := by
  decide
example : dataOf (toDenseA (multiplyDiagonal x v 1)) = some ([3, 3], [0, 0, 0, 0, 2, 6, 0, 6, 12]) := by
  decide
example : locateAll x.indices [2, 1] = some ([(1, 0), (1, 0)], [1, 0]) ∧ x.elem [(1, 0), (1, 0)] [1, 0] = 3 := by
  decide

-- the theorems instantiated on these values (all hypotheses discharged)
example := neg_toDense (R := Int) (by decide) x rfl (by decide)
example := smul_toDense (R := Int) 7 (by decide) x rfl (by decide)
example := sdiv_toDense (R := Int) 2 (by decide) x rfl (by decide)
example := add_toDense (R := Int) Int.zero_add Int.add_zero x y rfl rfl rfl (by decide)
  (hypotheses_of_validB x (by decide)).1
example := mul_toDense (R := Int) Int.zero_mul Int.mul_zero x y rfl rfl rfl (by decide)
  (hypotheses_of_validB x (by decide)).1
example := sub_toDense (R := Int) (by decide) x y rfl rfl rfl (by decide)
  (hypotheses_of_validB x (by decide)).1
example := multiplyDiagonal_toDense (R := Int) Int.zero_mul Int.mul_zero x rfl v 1 (by decide)
  (by decide) (hypotheses_of_validB x (by decide)).1
example := transposeA_toDense (R := Int) x [1, 0] (by decide) rfl (by decide)
  (hypotheses_of_validB x (by decide)).1 (hypotheses_of_validB x (by decide)).2.1
  (hypotheses_of_validB x (by decide)).2.2.1
example := conj_toDense (R := GRat) GRat_laws.2.1
example := mul_comm_obs (R := GRat) GRat_laws.2.2.2.2.2.1 GRat_laws.2.2.2.2.2.2.1 GRat_laws.2.2.2.2.2.2.2.1

end Examples

end SymmModel.C08
