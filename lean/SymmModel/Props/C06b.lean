/-
  C06 (second part) — the fused strategy of the contraction.

  Theorems about `SymmModel.tensordotViaFused` / `tensordotA` (`Model/Tdot.lean`; Python
  `symmray.abelian_core._tensordot_via_fused`, `tensordot_abelian`) for valid ABELIAN operands
  whose contracted legs match (`ValidP.contractibleB`: same charge table, opposite direction),
  every symmetry, every sparsity pattern, every scalar type `R` with `[AddCommMonoid R] [Mul R]
  [Neg R]` and `0 * x = 0 = x * 0`.

  1. `aligned_fused_tables_match` — COMPLETE, for the exact call form (left / right group possibly
     empty): after `dropMisaligned` the two fused bond indices have equal chargemaps, equal
     extents in the same sorted order and opposite directions.
  2. `tensordotFused_obs_eq_blockwise` — COMPLETE when the left, the contracted and the right
     group are all NON-EMPTY (any number of axes in each, so also free legs that get unfused, and
     free legs that were fused beforehand and stay fused): the fused strategy succeeds with a valid
     result of the same fields and rank, it stores every sector the blockwise result stores, and
     EVERY STORED ENTRY equals the blockwise result's element at that address; hence a stored
     sector that the blockwise result lacks is an all-zero block (such blocks do occur: two
     different sub-sectors with the same fused charge, or the other sub-sectors of an unfused
     charge).  The order of the blocks in the dictionary is NOT claimed to agree (it differs, see
     the last example).
     `tensordotFused_matrix_elem`: the same in table form for one free axis on each side
     (address = any charge pair of the aligned free tables, any offsets inside their sizes).
     NOT covered (remaining gap): an EMPTY left or right group (one operand fully contracted:
     vector / scalar results) and an empty contraction in fused mode (`mode="fused"` with no
     axes; `auto` never takes that path).  The ingredients are the same (`pair_elem`,
     `matrix_elem`, `stage` for one group instead of two).
  3. `tensordotA_modes_agree` (auto = fused, and both agree with blockwise as in 2) and
     `tensordotFused_empty_alignment` (no aligned sector: fused returns the block-less array with
     the combined charge; blockwise has no block either).

  Vocabulary: namespace `SymmModel.TdotP`, files `Proofs/TdotFused1…7.lean`.
-/
import SymmModel.Props.C06
import SymmModel.Proofs.TdotFused7

namespace SymmModel.C06
open SymmModel SymmModel.TdotP

variable {R : Type}

/-! ## 1. the fused bond tables of the aligned operands match -/

/-- **aligned_fused_tables_match.**  For valid operands of the same symmetry with matching
    contracted legs (`contractibleB`) and a non-empty contraction: after `dropMisaligned`,
    `fuseA a' [left, xa]` and `fuseA b' [xb, right]` (exactly the calls of `tensordotViaFused`)
    succeed, and the fused bond indices (axis 1 of `af`, or 0 when there is no left group; axis 0
    of `bf`) have equal chargemaps and opposite directions; the matched sub-indices have equal
    chargemaps and opposite directions; for a multi-axis bond both indices carry THE SAME extents
    (sub-sectors, order, sizes), each strictly `sectorLt`-sorted. -/
theorem aligned_fused_tables_match [Zero R] (a b : Arr R) (xa xb : List Nat)
    (ha : a.validB = true) (hb : b.validB = true) (hsym : a.sym = b.sym)
    (hc : ValidP.contractibleB a b xa xb = true)
    (hnA : xa.Nodup) (hnB : xb.Nodup) (hA : ∀ x ∈ xa, x < a.ndim) (hB : ∀ x ∈ xb, x < b.ndim)
    (hneK : xa ≠ []) :
    ∃ af bf,
      fuseA (dropMisaligned a b xa xb).1 [freeAxes a.ndim xa, xa] .insert false = .ok af
      ∧ fuseA (dropMisaligned a b xa xb).2 [xb, freeAxes b.ndim xb] .insert false = .ok bf
      ∧ (af.indices.getD (if (freeAxes a.ndim xa).isEmpty then 0 else 1) default).cm
          = (bf.indices.getD 0 default).cm
      ∧ (af.indices.getD (if (freeAxes a.ndim xa).isEmpty then 0 else 1) default).dual
          = !(bf.indices.getD 0 default).dual
      ∧ (xa.map (fun ax => (dropMisaligned a b xa xb).1.indices.getD ax default)).map Index.cm
          = (xb.map (fun ax => (dropMisaligned a b xa xb).2.indices.getD ax default)).map Index.cm
      ∧ (xb.map (fun ax => (dropMisaligned a b xa xb).2.indices.getD ax default)).map Index.dual
          = (xa.map (fun ax => (dropMisaligned a b xa xb).1.indices.getD ax default)).map
              (fun ix => !ix.dual)
      ∧ (xa.length ≠ 1 → ∃ exts,
          (af.indices.getD (if (freeAxes a.ndim xa).isEmpty then 0 else 1) default).sub
            = some (xa.map (fun ax => (dropMisaligned a b xa xb).1.indices.getD ax default), exts)
          ∧ (bf.indices.getD 0 default).sub
            = some (xb.map (fun ax => (dropMisaligned a b xa xb).2.indices.getD ax default), exts)
          ∧ ∀ c e, alookup exts c = some e → isSortedStrict sectorLt (e.map (·.1)) = true) :=
  aligned_tables_full a b xa xb ha hb hsym hc hnA hnB hA hB hneK

/-- the generic statement behind it: two valid arrays of one symmetry, a multi-axis group on each
    whose sub-indices have equal charge tables and opposite directions and on which the arrays
    store the same SET of sub-sectors, get the same fused chargemap and the same extents, with
    opposite directions -/
theorem fused_tables_match_generic {A B : Arr R} {GA GB : List (List Nat)} {gA gB : Nat}
    {xa xb : List Nat} (hvA : A.validB = true) (hvB : B.validB = true) (hsym : A.sym = B.sym)
    (hokA : C05.groupsOkB GA A.ndim = true) (hokB : C05.groupsOkB GB B.ndim = true)
    (hgA : GA[gA]? = some xa) (hgB : GB[gB]? = some xb)
    (hlenA : xa.length ≠ 1) (hlen : xa.length = xb.length)
    (hcm : (xa.map (fun ax => A.indices.getD ax default)).map Index.cm
      = (xb.map (fun ax => B.indices.getD ax default)).map Index.cm)
    (hdual : (xb.map (fun ax => B.indices.getD ax default)).map Index.dual
      = (xa.map (fun ax => A.indices.getD ax default)).map (fun ix => !ix.dual))
    (hkeys : ∀ K, K ∈ A.blocks.map (fun sb => xa.map (fun ax => sb.1.getD ax (0, 0))) ↔
      K ∈ B.blocks.map (fun sb => xb.map (fun ax => sb.1.getD ax (0, 0)))) :
    (FuseP.ixM A GA gA).cm = (FuseP.ixM B GB gB).cm
    ∧ FuseP.extsM A GA gA = FuseP.extsM B GB gB
    ∧ (FuseP.ixM A GA gA).dual = !(FuseP.ixM B GB gB).dual :=
  fused_tables_match (FuseP.validArr_of_validB hvA) (FuseP.validArr_of_validB hvB) hsym
    (FuseP.groupsOk_iff.1 hokA) (FuseP.groupsOk_iff.1 hokB) hgA hgB hlenA hlen hcm hdual hkeys

example : ValidP.contractibleB exA exB [1, 2] [0, 1] = true ∧ exA.sym = exB.sym
    ∧ freeAxes exA.ndim [1, 2] = [0] ∧ freeAxes exB.ndim [0, 1] = [2] := by decide
-- sanity: the two fused bond indices of the aligned example operands
example :
    (match fuseA (dropMisaligned exA exB [1, 2] [0, 1]).1 [[0], [1, 2]] .insert false,
           fuseA (dropMisaligned exA exB [1, 2] [0, 1]).2 [[0, 1], [2]] .insert false with
     | .ok af, .ok bf =>
         (af.indices.getD 1 default).cm == (bf.indices.getD 0 default).cm
         && ((af.indices.getD 1 default).sub.map (·.2)) == ((bf.indices.getD 0 default).sub.map (·.2))
         && (af.indices.getD 1 default).dual != (bf.indices.getD 0 default).dual
         && (af.indices.getD 1 default).cm == [(c0, 6)]
     | _, _ => false) = true := by decide +kernel

/-! ## 2. fused = blockwise -/

/-- **tensordotFused_obs_eq_blockwise** (= `tensordotViaFused_elem`), left, contracted and right
    group non-empty. -/
theorem tensordotFused_obs_eq_blockwise [AddCommMonoid R] [Mul R] [Neg R]
    (hz1 : ∀ x : R, 0 * x = 0) (hz2 : ∀ x : R, x * 0 = 0) (a b : Arr R) (xa xb : List Nat)
    (ha : a.validB = true) (hb : b.validB = true) (hfa : a.fermi = false) (hfb : b.fermi = false)
    (hsym : a.sym = b.sym) (hc : ValidP.contractibleB a b xa xb = true)
    (hnA : xa.Nodup) (hnB : xb.Nodup) (hA : ∀ x ∈ xa, x < a.ndim) (hB : ∀ x ∈ xb, x < b.ndim)
    (hneK : xa ≠ []) (hneL : freeAxes a.ndim xa ≠ []) (hneR : freeAxes b.ndim xb ≠ [])
    (hbl : ((dropMisaligned a b xa xb).1.blocks.isEmpty || (dropMisaligned a b xa xb).2.blocks.isEmpty) = false) :
    ∃ c, tensordotViaFused a b (freeAxes a.ndim xa) xa xb (freeAxes b.ndim xb) = .ok c
      ∧ c.validB = true
      ∧ c.sym = a.sym ∧ c.fermi = a.fermi ∧ c.charge = a.sym.combine [a.charge, b.charge]
      ∧ c.phases = a.phases ∧ c.oddpos = a.oddpos
      ∧ c.indices.length =
          (tensordotBlockwise a b (freeAxes a.ndim xa) xa xb (freeAxes b.ndim xb)).indices.length
      ∧ (∀ s ∈ (tensordotBlockwise a b (freeAxes a.ndim xa) xa xb (freeAxes b.ndim xb)).sectors,
          s ∈ c.sectors)
      ∧ (∀ K V, alookup c.blocks K = some V → ∀ J, inBox V.shape J = true →
          c.elem K J =
            (tensordotBlockwise a b (freeAxes a.ndim xa) xa xb (freeAxes b.ndim xb)).elem K J) :=
  viaFused_general hz1 hz2 a b xa xb ha hb hfa hfb hsym hc hnA hnB hA hB hneK hneL hneR hbl

/-- consequently a sector stored by the fused result but not by the blockwise result holds an
    all-zero block (on its box) -/
theorem tensordotFused_extra_blocks_zero [AddCommMonoid R] [Mul R] [Neg R]
    (hz1 : ∀ x : R, 0 * x = 0) (hz2 : ∀ x : R, x * 0 = 0) (a b : Arr R) (xa xb : List Nat)
    (ha : a.validB = true) (hb : b.validB = true) (hfa : a.fermi = false) (hfb : b.fermi = false)
    (hsym : a.sym = b.sym) (hc : ValidP.contractibleB a b xa xb = true)
    (hnA : xa.Nodup) (hnB : xb.Nodup) (hA : ∀ x ∈ xa, x < a.ndim) (hB : ∀ x ∈ xb, x < b.ndim)
    (hneK : xa ≠ []) (hneL : freeAxes a.ndim xa ≠ []) (hneR : freeAxes b.ndim xb ≠ [])
    (hbl : ((dropMisaligned a b xa xb).1.blocks.isEmpty || (dropMisaligned a b xa xb).2.blocks.isEmpty) = false)
    (c : Arr R) (hcok : tensordotViaFused a b (freeAxes a.ndim xa) xa xb (freeAxes b.ndim xb) = .ok c)
    (K : Sector) (V : Blk R) (hV : alookup c.blocks K = some V)
    (hK : K ∉ (tensordotBlockwise a b (freeAxes a.ndim xa) xa xb (freeAxes b.ndim xb)).sectors) :
    ∀ J, inBox V.shape J = true → V.get J = 0 := by
  obtain ⟨c', hc', _, _, _, _, hph, _, _, _, hval⟩ :=
    viaFused_general hz1 hz2 a b xa xb ha hb hfa hfb hsym hc hnA hnB hA hB hneK hneL hneR hbl
  rw [hcok] at hc'
  cases hc'
  intro J hJ
  have h1 := hval K V hV J hJ
  rw [Arr.elem_of_phases_nil (hph.trans (phases_nil_of_validB ha hfa)), hV] at h1
  rw [show V.get J = _ from h1]
  exact Arr.elem_of_not_mem hK J

/-- **tensordotFused_matrix_elem.**  One free axis on each side: the value views agree at EVERY
    address of the aligned result tables (charge pair in the tables, offsets inside the sizes). -/
theorem tensordotFused_matrix_elem [AddCommMonoid R] [Mul R] [Neg R]
    (hz1 : ∀ x : R, 0 * x = 0) (hz2 : ∀ x : R, x * 0 = 0) (a b : Arr R) (xa xb : List Nat)
    (ha : a.validB = true) (hb : b.validB = true) (hfa : a.fermi = false) (hfb : b.fermi = false)
    (hsym : a.sym = b.sym) (hc : ValidP.contractibleB a b xa xb = true)
    (hnA : xa.Nodup) (hnB : xb.Nodup) (hA : ∀ x ∈ xa, x < a.ndim) (hB : ∀ x ∈ xb, x < b.ndim)
    (hneK : xa ≠ []) (hl1 : (freeAxes a.ndim xa).length = 1) (hr1 : (freeAxes b.ndim xb).length = 1)
    (hbl : ((dropMisaligned a b xa xb).1.blocks.isEmpty || (dropMisaligned a b xa xb).2.blocks.isEmpty) = false) :
    ∃ c, tensordotViaFused a b (freeAxes a.ndim xa) xa xb (freeAxes b.ndim xb) = .ok c
      ∧ c.sym = a.sym ∧ c.fermi = a.fermi ∧ c.charge = a.sym.combine [a.charge, b.charge]
      ∧ c.phases = a.phases ∧ c.oddpos = a.oddpos ∧ c.indices.length = 2
      ∧ (∀ s ∈ (tensordotBlockwise a b (freeAxes a.ndim xa) xa xb (freeAxes b.ndim xb)).sectors,
          s ∈ c.sectors)
      ∧ (∀ s o shp, Arr.blockShape? (without (dropMisaligned a b xa xb).1.indices xa ++
            without (dropMisaligned a b xa xb).2.indices xb) s = some shp → inBox shp o = true →
          c.elem s o =
            (tensordotBlockwise a b (freeAxes a.ndim xa) xa xb (freeAxes b.ndim xb)).elem s o) :=
  viaFused_matrix hz1 hz2 a b xa xb ha hb hfa hfb hsym hc hnA hnB hA hB hneK hl1 hr1 hbl

/-- the core of the argument, for two aligned operands (`FusedCtx`): the product of the two fused
    matrices at a position whose row decodes (through the fused index's own table, or trivially
    for a single-axis group) to `(Ls, oL)` and whose column decodes to `(Rs, oR)` is the blockwise
    contraction of the ORIGINAL operands at `(Ls ++ Rs, oL ++ oR)` -/
theorem fused_product_elem [AddCommMonoid R] [Mul R] [Neg R]
    (hz1 : ∀ x : R, 0 * x = 0) (hz2 : ∀ x : R, x * 0 = 0) {A B : Arr R} {xa xb : List Nat}
    (h : FusedCtx A B xa xb) {cL cR : Charge} {iL iR dL dR : Nat} {Ls Rs : Sector} {oL oR : List Nat}
    (hdL : decAx A [freeAxes A.ndim xa, xa] 0 cL iL = some (Ls, oL))
    (hdR : decAx B [xb, freeAxes B.ndim xb] 1 cR iR = some (Rs, oR))
    (hzL : (FuseP.ixM A [freeAxes A.ndim xa, xa] 0).sizeOf? cL = some dL) (hiL : iL < dL)
    (hzR : (FuseP.ixM B [xb, freeAxes B.ndim xb] 1).sizeOf? cR = some dR) (hiR : iR < dR) :
    (tensordotBlockwise (FuseP.fusedArrM A [freeAxes A.ndim xa, xa])
        (FuseP.fusedArrM B [xb, freeAxes B.ndim xb]) [0] [1] [0] [1]).elem [cL, cR] [iL, iR] =
      (tensordotBlockwise A B (freeAxes A.ndim xa) xa xb (freeAxes B.ndim xb)).elem (Ls ++ Rs) (oL ++ oR) :=
  fused_core hz1 hz2 h hdL hdR hzL hiL hzR hiR

/-- `g[k,m,n]` (Z2, charge 0): its first leg matches `exA`'s third -/
def exG : Arr Int :=
  { sym := .Z2, fermi := false, indices := [ixK.conj, ixM, ixM.conj], charge := c0,
    blocks := [([c0, c0, c0], mkB [2, 1, 1] 1), ([c1, c1, c0], mkB [2, 1, 1] 5),
               ([c1, c0, c1], mkB [2, 1, 1] (-2))] }

example : exG.validB = true ∧ ValidP.contractibleB exA exG [2] [0] = true
    ∧ freeAxes exA.ndim [2] = [0, 1] ∧ freeAxes exG.ndim [0] = [1, 2]
    ∧ ((dropMisaligned exA exG [2] [0]).1.blocks.isEmpty
        || (dropMisaligned exA exG [2] [0]).2.blocks.isEmpty) = false := by decide +kernel
-- sanity: multi-axis bond, one free axis each: identical blocks
example :
    (match tensordotViaFused exA exB [0] [1, 2] [0, 1] [2] with
     | .ok c => c.blocks.map (fun p => (p.1, p.2.shape, p.2.data))
     | .error _ => []) = [([c0, c0], [2, 1], #[19, 49])]
    ∧ (tensordotBlockwise exA exB [0] [1, 2] [0, 1] [2]).blocks.map (fun p => (p.1, p.2.shape, p.2.data))
        = [([c0, c0], [2, 1], #[19, 49])] := by decide +kernel
-- sanity: single-axis bond, two free axes each (both legs are fused and unfused again): the same
-- five blocks with the same values — in a DIFFERENT dictionary order
example :
    (match tensordotViaFused exA exG [0, 1] [2] [0] [1, 2] with
     | .ok c => c.blocks.map (fun p => (p.1, p.2.data))
     | .error _ => []) =
      [([c0, c0, c0, c0], #[5, 11]), ([c0, c1, c0, c1], #[8, 2, -4, -10]), ([c1, c0, c0, c1], #[-7]),
       ([c0, c1, c1, c0], #[-27, -5, 17, 39]), ([c1, c0, c1, c0], #[28])]
    ∧ (tensordotBlockwise exA exG [0, 1] [2] [0] [1, 2]).blocks.map (fun p => (p.1, p.2.data)) =
      [([c0, c0, c0, c0], #[5, 11]), ([c0, c1, c1, c0], #[-27, -5, 17, 39]),
       ([c0, c1, c0, c1], #[8, 2, -4, -10]), ([c1, c0, c1, c0], #[28]), ([c1, c0, c0, c1], #[-7])] := by
  decide +kernel

/-! ## 3. all modes agree; empty alignment -/

/-- **tensordotA_modes_agree.**  With parsed axes `(xa, xb)`, `xa ≠ []`: `mode="auto"` IS
    `mode="fused"`, `mode="blockwise"` returns `tensordotBlockwise`, and (left and right group
    non-empty, at least one aligned block) the fused/auto result relates to the blockwise result as
    in `tensordotFused_obs_eq_blockwise`. -/
theorem tensordotA_modes_agree [AddCommMonoid R] [Mul R] [Neg R]
    (hz1 : ∀ x : R, 0 * x = 0) (hz2 : ∀ x : R, x * 0 = 0) (a b : Arr R) (axes : AxesArg)
    (xa xb : List Nat) (hparse : parseAxes a.ndim b.ndim axes = .ok (xa, xb))
    (ha : a.validB = true) (hb : b.validB = true) (hfa : a.fermi = false) (hfb : b.fermi = false)
    (hsym : a.sym = b.sym) (hc : ValidP.contractibleB a b xa xb = true)
    (hnA : xa.Nodup) (hnB : xb.Nodup) (hA : ∀ x ∈ xa, x < a.ndim) (hB : ∀ x ∈ xb, x < b.ndim)
    (hneK : xa ≠ []) (hneL : freeAxes a.ndim xa ≠ []) (hneR : freeAxes b.ndim xb ≠ [])
    (hbl : ((dropMisaligned a b xa xb).1.blocks.isEmpty || (dropMisaligned a b xa xb).2.blocks.isEmpty) = false) :
    ∃ c bw, tensordotA a b axes .fused = .ok c ∧ tensordotA a b axes .auto = .ok c
      ∧ tensordotA a b axes .blockwise = .ok bw
      ∧ c.sym = bw.sym ∧ c.fermi = bw.fermi ∧ c.charge = bw.charge ∧ c.phases = bw.phases
      ∧ c.oddpos = bw.oddpos ∧ c.indices.length = bw.indices.length
      ∧ (∀ s ∈ bw.sectors, s ∈ c.sectors)
      ∧ (∀ K V, alookup c.blocks K = some V → ∀ J, inBox V.shape J = true → c.elem K J = bw.elem K J) := by
  obtain ⟨c, hcok, _, f1, f2, f3, f4, f5, hrank, hsec, hval⟩ :=
    viaFused_general hz1 hz2 a b xa xb ha hb hfa hfb hsym hc hnA hnB hA hB hneK hneL hneR hbl
  refine ⟨c, _, (tensordotA_fused' a b axes xa xb hparse).trans hcok,
    (tensordotA_auto_fused a b axes xa xb hparse hneK).trans hcok,
    tensordotA_blockwise_ok a b axes xa xb hparse, f1, f2, f3, f4, f5, hrank, hsec, hval⟩

/-- **tensordotFused_empty_alignment.**  No aligned sector: the fused strategy returns the
    block-less array with the combined charge (fields of `a`, free index tables un-pruned); the
    blockwise result has no block either, so both value views vanish identically. -/
theorem tensordotFused_empty_alignment [Zero R] [Add R] [Mul R] [Neg R] (a b : Arr R)
    (l xa xb r : List Nat)
    (hbl : ((dropMisaligned a b xa xb).1.blocks.isEmpty || (dropMisaligned a b xa xb).2.blocks.isEmpty) = true) :
    ∃ c, tensordotViaFused a b l xa xb r = .ok c ∧ c.blocks = []
      ∧ c.charge = a.sym.combine [a.charge, b.charge] ∧ c.sym = a.sym
      ∧ (tensordotBlockwise a b l xa xb r).blocks = []
      ∧ ∀ s o, c.elem s o = 0 ∧ (tensordotBlockwise a b l xa xb r).elem s o = 0 := by
  obtain ⟨h1, h2, h3⟩ := viaFused_empty a b l xa xb r hbl
  exact ⟨_, h1, rfl, rfl, rfl, h2, fun s o => ⟨rfl, h3 s o⟩⟩

end SymmModel.C06
