/- Umbrella for property C02: C02All3 plus C06d (fused = blockwise for every admissible call). -/
import SymmModel.Props.C02All3
import SymmModel.Props.C06All3
