/-
  Property C07 — umbrella module: all three parts of the property theorems.
-/
import SymmModel.Props.C07All
import SymmModel.Props.C07c
