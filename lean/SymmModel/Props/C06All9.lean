/- Property C06 — umbrella incl. C06j (fermionic two-sided free-leg form, right operand, any mode). -/
import SymmModel.Props.C06All8
import SymmModel.Props.C06j
