/- umbrella for property C10: involutions / adjoint laws (C10), single-array norm (C10b), network
   norm of two tensors: halves first (C10c), sequential bracketings under a guard (C10d), the six
   bracketings without guard (C10e), the six bracketings with every call in any mode (C10f) -/
import SymmModel.Props.C10All4
import SymmModel.Props.C10f
