/-
  Umbrella for property C13: the selection-logic theorems of Props/C13 plus the array-level
  clauses proved with the decomposition lemmas (Props/C11b: `C11.absorb_products_agree`,
  `C11.truncation_error`).
-/
import SymmModel.Props.C13
import SymmModel.Props.C11b
