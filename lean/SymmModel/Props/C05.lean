/-
  Property C05 — "Fusing is an exact, invertible re-indexing described by the fused index".

  The theorems are about the model definitions in `SymmModel.Model.Fuse`
  (`calcFuseGroupInfo`, `planSector`, `accumExtents`, `calcFuseBlockInfo`, `extentStart?`,
  `fuseInsert`, `fuseConcat`, `fuseCore`, `unfuseA`, `unfuseAllA`), for EVERY array (any rank,
  symmetry, sparsity, scalar type with a zero) that is valid (`a.validB = true`) and every list of
  axis groups accepted by the guard `groupsOkB groups a.ndim` (at least one group, groups non-empty,
  axes in range and pairwise distinct across all groups).

  Vocabulary (defined in `SymmModel.Proofs.Fuse*`, namespace `FuseP`):
    `groupsOkB`           the guard above (Bool)
    `fusedCharge`         signed combination of a sector's charges on a group of axes
    `splitOffset/joinOffset`, `splitAddr/joinAddr`   the address map read from an index's own table
    `AllZero b`           every stored entry of the block `b` is zero

  Status.  Targets 1–4 are proved for arbitrary lists of groups.  Targets 5–7 (block-level round
  trip, agreement of the two strategies, element map) are proved for ONE multi-axis group at an
  arbitrary position with arbitrary other axes (`groups = [gaxes]`, `gaxes.length ≠ 1`); these are
  named `…_partial`, the full statements are kept in comments.
-/
import SymmModel.Proofs.FuseLemmas

namespace SymmModel.C05
open SymmModel FuseP

/-- the guard of `fuse` (Bool): at least one group, all groups non-empty, axes `< ndim`, pairwise
    distinct across all groups -/
abbrev groupsOkB := FuseP.groupsOkB

/-! ## concrete arrays used by the `example`s -/

/-- rank 3, U1, total charge 0, directions (+,−,+); valid sectors (0,0,0), (0,1,1), (1,1,0): the
    last one is missing -/
def exA : Arr Int :=
  { sym := .U1, fermi := false,
    indices := [Index.mk [((0, 0), 2), ((1, 0), 1)] false none,
                Index.mk [((0, 0), 1), ((1, 0), 2)] true none,
                Index.mk [((0, 0), 1), ((1, 0), 1)] false none],
    charge := (0, 0),
    blocks := [([(0, 0), (0, 0), (0, 0)], ⟨[2, 1, 1], #[1, 2]⟩),
               ([(0, 0), (1, 0), (1, 0)], ⟨[2, 2, 1], #[3, 4, 5, 6]⟩)] }

/-- rank 4, U1, total charge 2, two of the six valid sectors stored: fusing axes (0,1) and
    unfusing creates two extra (zero) blocks -/
def exB : Arr Int :=
  { sym := .U1, fermi := false,
    indices := List.replicate 4 (Index.mk [((0, 0), 1), ((1, 0), 1)] false none),
    charge := (2, 0),
    blocks := [([(0, 0), (1, 0), (1, 0), (0, 0)], ⟨[1, 1, 1, 1], #[7]⟩),
               ([(1, 0), (0, 0), (0, 0), (1, 0)], ⟨[1, 1, 1, 1], #[9]⟩)] }

/-- observable part of a result: sectors, shapes and data in dict order -/
def view (r : Except Err (Arr Int)) : Option (List (Sector × List Nat × List Int)) :=
  r.toOption.map (fun x => x.blocks.map (fun sb => (sb.1, sb.2.shape, sb.2.data.toList)))

/-- observable part of a plan: per stored sector (new sector, new shape, sub-sectors) -/
def viewPlan (r : Except Err FuseInfo) : List (Sector × List Nat × List Sector) :=
  match r with
  | .ok fi => fi.blockmap.map (fun sp => (sp.2.newSector, sp.2.newShape, sp.2.subsectors))
  | .error _ => []

/-- observable part of the new indices: chargemap, direction, extents -/
def viewIdx (r : Except Err FuseInfo) : List (List (Charge × Nat) × Bool × Extents) :=
  match r with
  | .ok fi => fi.newIndices.map (fun ix => (ix.cm, ix.dual, (ix.sub.map (·.2)).getD []))
  | .error _ => []

example : exA.validB = true ∧ exB.validB = true := by decide
example : groupsOkB [[2, 0]] exA.ndim = true ∧ groupsOkB [[0], [1, 2]] exA.ndim = true
    ∧ groupsOkB [[0, 1]] exB.ndim = true := by decide

/-! ## 1. the group plan -/

/-- `gi.perm = before ++ grouped ++ after` is a permutation of `0 … ndim-1` (also in the Boolean
    form `Arr.isPerm` used as guard by `transpose`); `position` is the minimum grouped axis, so
    the axes in front are exactly `0 … position-1`; each group of `k` axes becomes one axis. -/
theorem calcFuseGroupInfo_perm (groups : List (List Nat)) (duals : List Bool)
    (h : groupsOkB groups duals.length = true) :
    let gi := calcFuseGroupInfo groups duals
    gi.perm = gi.axesBefore ++ groups.flatten ++ gi.axesAfter
    ∧ gi.perm.Perm (List.range duals.length)
    ∧ Arr.isPerm gi.perm duals.length = true
    ∧ gi.position ∈ groups.flatten ∧ (∀ ax ∈ groups.flatten, gi.position ≤ ax)
    ∧ gi.axesBefore = List.range gi.position
    ∧ (∀ ax, ax ∈ gi.axesAfter ↔ ax < duals.length ∧ gi.position ≤ ax ∧ ax ∉ groups.flatten)
    ∧ gi.newNdim + groups.flatten.length = duals.length + groups.length := by
  have hok := groupsOk_iff.1 h
  exact ⟨rfl, FuseP.calcFuseGroupInfo_perm hok, perm_isPerm hok, (position_spec hok).1,
    (position_spec hok).2, axesBefore_eq hok, fun _ => mem_axesAfter, newNdim_spec hok⟩

example : (calcFuseGroupInfo [[2, 0]] exA.duals).perm = [2, 0, 1]
    ∧ (calcFuseGroupInfo [[2, 0]] exA.duals).position = 0
    ∧ (calcFuseGroupInfo [[0], [1, 2]] exA.duals).perm = [0, 1, 2]
    ∧ (calcFuseGroupInfo [[0], [1, 2]] exA.duals).newNdim = 2 := by decide

/-- with the guard satisfied (no empty group) the public `fuse` is `_fuse_core`, whatever
    `expand_empty` says -/
theorem fuseA_eq_fuseCore {R : Type} [Zero R] (a : Arr R) (groups : List (List Nat)) (mode : FuseMode)
    (expandEmpty : Bool) (n : Nat) (hg : groupsOkB groups n = true) :
    fuseA a groups mode expandEmpty = fuseCore a groups mode := by
  have hok := groupsOk_iff.1 hg
  have h1 : groups.filter (fun g => !g.isEmpty) = groups := by
    rw [List.filter_eq_self]
    intro g hgm
    have := hok.gne g hgm
    cases g with
    | nil => exact absurd rfl this
    | cons x xs => rfl
  have h2 : (groups.zipIdx.filter (fun p => p.1.isEmpty)).map (·.2) = [] := by
    rw [List.map_eq_nil_iff, List.filter_eq_nil_iff]
    intro p hp
    have hm := List.mem_zipIdx hp
    have : p.1 ∈ groups := by rw [hm.2.2]; exact List.getElem_mem _
    have := hok.gne p.1 this
    cases hp1 : p.1 with
    | nil => exact absurd hp1 this
    | cons x xs => simp
  have h3 : groups.isEmpty = false := by
    cases hgr : groups with
    | nil => exact absurd hgr hok.ne
    | cons x xs => rfl
  unfold fuseA
  simp only [h1, h2, h3, Bool.false_eq_true, if_false, List.isEmpty_nil, Bool.not_true, Bool.and_false]
  cases fuseCore a groups mode <;> rfl

/-! ## 2. the per-sector plan: fused charge, direction, size -/

/-- For every stored sector `s` the plan exists (`planSector` succeeds and is what
    `calcFuseBlockInfo` records), and its new sector has
    * at a multi-axis group `g` the `sym.combine` of the group's charges, each signed by
      `sym.sign c (groupDual g != (indices[ax]).dual)` (`fusedCharge`),
    * at a single-axis group the original charge of that axis,
    * at the untouched axes in front / behind the original charges (new axis `k < position` is
      old axis `k`; new axis `position + #groups + k` is old axis `axesAfter[k]`),
    and its sub-sector for group `g` lists the group's charges in group order. -/
theorem fused_charge_spec {R : Type} (a : Arr R) (groups : List (List Nat))
    (hv : a.validB = true) (hg : groupsOkB groups a.ndim = true) :
    ∃ fi, calcFuseBlockInfo a groups = .ok fi ∧ fi.gi = calcFuseGroupInfo groups a.duals ∧
    ∀ s b, (s, b) ∈ a.blocks → ∃ p, alookup fi.blockmap s = some p
      ∧ planSector a.sym a.indices groups fi.gi s = .ok p
      ∧ (∀ g gaxes, groups[g]? = some gaxes →
          p.newSector.getD (fi.gi.position + g) (0, 0)
            = (if gaxes.length = 1 then s.getD (gaxes.headD 0) (0, 0)
               else a.sym.combine (gaxes.map (fun ax =>
                 a.sym.sign (s.getD ax (0, 0))
                   (fi.gi.groupDuals.getD g false != (a.indices.getD ax default).dual))))
          ∧ p.subsectors.getD g [] = gaxes.map (fun ax => s.getD ax (0, 0)))
      ∧ (∀ k, k < fi.gi.position → p.newSector.getD k (0, 0) = s.getD k (0, 0))
      ∧ (∀ k, k < fi.gi.axesAfter.length →
          p.newSector.getD (fi.gi.position + groups.length + k) (0, 0)
            = s.getD (fi.gi.axesAfter.getD k 0) (0, 0)) := by
  have hva := validArr_of_validB hv
  have hok := groupsOk_iff.1 hg
  have hok' : GroupsOk groups a.duals.length := by rw [duals_length]; exact hok
  refine ⟨fuseInfoOf a groups, calcFuseBlockInfo_eq hva hok, rfl, ?_⟩
  have hgi : (fuseInfoOf a groups).gi = calcFuseGroupInfo groups a.duals := rfl
  simp only [hgi]
  intro s b hsb
  have hshp := (hva.blk (s, b) hsb).2.1
  refine ⟨planOf a.sym a.indices groups (calcFuseGroupInfo groups a.duals) s b.shape, ?_, ?_, ?_, ?_, ?_⟩
  · apply alookup_of_mem_nodup
    · show ((blockmapOf a groups).map (·.1)).Nodup
      simp only [blockmapOf, List.map_map]; exact hva.nodup
    · exact List.mem_map.2 ⟨(s, b), hsb, rfl⟩
  · apply planSector_eq a.sym hshp
    · intro ax hax
      rw [axesBefore_eq hok'] at hax
      have := position_lt hok'
      rw [duals_length] at this
      simp only [List.mem_range] at hax
      exact Nat.lt_trans hax this
    · intro ax hax
      have := (mem_axesAfter.1 hax).1
      rwa [duals_length] at this
    · exact hok.lt
  · intro g gaxes hgg
    constructor
    · show (planOf _ _ _ _ _ _).newSector.getD _ _ = _
      rw [planOf_newSector_getD _ _ _ _ _ _ hok' hgg]
      simp only [midOf, fusedCharge, beq_iff_eq]
      split <;> rfl
    · show (planOf _ _ _ _ _ _).subsectors.getD _ _ = _
      rw [planOf_subsectors_getD _ _ _ _ _ hgg]
      simp only [midOf, beq_iff_eq]
      split
      · rename_i h1
        match gaxes, h1 with
        | [ax], _ => rfl
      · rfl
  · intro k hk
    exact planOf_newSector_before _ _ _ _ _ _ hok' hk
  · intro k hk
    exact planOf_newSector_after _ _ _ _ _ _ hok' hk

/-- the fused index of every group (single or multi-axis) has the direction of the group's FIRST
    axis -/
theorem fused_dual_spec {R : Type} (a : Arr R) (groups : List (List Nat))
    (hv : a.validB = true) (hg : groupsOkB groups a.ndim = true) :
    ∃ fi, calcFuseBlockInfo a groups = .ok fi ∧
    ∀ g gaxes, groups[g]? = some gaxes →
      (fi.newIndices.getD (fi.gi.position + g) default).dual = (a.indices.getD (gaxes.headD 0) default).dual
      ∧ fi.gi.groupDuals.getD g false = (a.indices.getD (gaxes.headD 0) default).dual := by
  have hva := validArr_of_validB hv
  have hok := groupsOk_iff.1 hg
  refine ⟨fuseInfoOf a groups, calcFuseBlockInfo_eq hva hok, ?_⟩
  intro g gaxes hgg
  refine ⟨fused_dual hok hgg, ?_⟩
  show (calcFuseGroupInfo groups a.duals).groupDuals.getD g false = _
  rw [groupDuals_getD _ _ _ _ hgg]
  simp only [Arr.duals, List.getD_eq_getElem?_getD, List.getElem?_map]
  cases a.indices[gaxes.headD 0]? <;> rfl

/-- the new block shape has, at a multi-axis group, the product of the sub sizes (at a single-axis
    group the size itself) -/
theorem fused_size_spec {R : Type} (a : Arr R) (groups : List (List Nat))
    (hv : a.validB = true) (hg : groupsOkB groups a.ndim = true) :
    ∃ fi, calcFuseBlockInfo a groups = .ok fi ∧
    ∀ s b, (s, b) ∈ a.blocks → ∃ p, alookup fi.blockmap s = some p ∧
      ∀ g gaxes, groups[g]? = some gaxes →
        p.newShape.getD (fi.gi.position + g) 0 = prod (gaxes.map (fun ax => b.shape.getD ax 0)) := by
  have hva := validArr_of_validB hv
  have hok := groupsOk_iff.1 hg
  have hok' : GroupsOk groups a.duals.length := by rw [duals_length]; exact hok
  refine ⟨fuseInfoOf a groups, calcFuseBlockInfo_eq hva hok, ?_⟩
  have hgi : (fuseInfoOf a groups).gi = calcFuseGroupInfo groups a.duals := rfl
  simp only [hgi]
  intro s b hsb
  refine ⟨planOf a.sym a.indices groups (calcFuseGroupInfo groups a.duals) s b.shape, ?_, ?_⟩
  · apply alookup_of_mem_nodup
    · show ((blockmapOf a groups).map (·.1)).Nodup
      simp only [blockmapOf, List.map_map]; exact hva.nodup
    · exact List.mem_map.2 ⟨(s, b), hsb, rfl⟩
  · intro g gaxes hgg
    show (planOf _ _ _ _ _ _).newShape.getD _ _ = _
    rw [planOf_newShape_getD _ _ _ _ _ _ hok' hgg]
    simp only [midOf, beq_iff_eq]
    split
    · rename_i h1
      match gaxes, h1 with
      | [ax], _ => simp [prod]
    · rfl

example : viewPlan (calcFuseBlockInfo exA [[2, 0]])
    = [([(0, 0), (0, 0)], [2, 1], [[(0, 0), (0, 0)]]), ([(1, 0), (1, 0)], [2, 2], [[(1, 0), (0, 0)]])] := by
  decide +kernel

/-! ## 3. the produced table is well formed and canonical -/

/-- **table_wf / extents_partition.**  Every index of the fused array is well formed; in
    particular the index produced for a multi-axis group satisfies `Index.wfB`: chargemap strictly
    sorted with positive sizes and valid charges, every chargemap charge has an extent whose sizes
    sum to the chargemap size, sub-sectors distinct, each sub-sector's size is the product of its
    sub-index sizes and its signed combination (relative to the fused direction) is the fused
    charge (`extentOk`), sub-indices well formed. -/
theorem table_wf {R : Type} (a : Arr R) (groups : List (List Nat))
    (hv : a.validB = true) (hg : groupsOkB groups a.ndim = true) :
    ∃ fi, calcFuseBlockInfo a groups = .ok fi ∧ Index.wfListB a.sym fi.newIndices = true ∧
    ∀ g gaxes, groups[g]? = some gaxes → gaxes.length ≠ 1 →
      Index.wfB a.sym (fi.newIndices.getD (fi.gi.position + g) default) = true
      ∧ ∃ exts, (fi.newIndices.getD (fi.gi.position + g) default).sub
          = some (gaxes.map (fun ax => a.indices.getD ax default), exts) := by
  have hva := validArr_of_validB hv
  have hok := groupsOk_iff.1 hg
  refine ⟨fuseInfoOf a groups, calcFuseBlockInfo_eq hva hok, wfListB_iff.2 (newIndices_wf hva hok), ?_⟩
  intro g gaxes hgg hlen
  refine ⟨fused_index_wf hva hok hgg hlen, ?_⟩
  show ∃ exts, ((fuseInfoOf a groups).newIndices.getD ((calcFuseGroupInfo groups a.duals).position + g) default).sub = _
  rw [fused_index_sub hok hgg hlen]
  exact ⟨_, rfl⟩

/-- **canonical order.**  The extent of each fused charge lists its sub-sectors in strictly
    increasing `sectorLt` order (this is what makes the tables of two operands agree in C06). -/
theorem extents_sorted {R : Type} (a : Arr R) (groups : List (List Nat))
    (hv : a.validB = true) (hg : groupsOkB groups a.ndim = true) :
    ∃ fi, calcFuseBlockInfo a groups = .ok fi ∧
    ∀ g gaxes, groups[g]? = some gaxes → gaxes.length ≠ 1 →
      ∀ subs exts, (fi.newIndices.getD (fi.gi.position + g) default).sub = some (subs, exts) →
        ∀ c e, alookup exts c = some e → isSortedStrict sectorLt (e.map (·.1)) = true := by
  have hva := validArr_of_validB hv
  have hok := groupsOk_iff.1 hg
  refine ⟨fuseInfoOf a groups, calcFuseBlockInfo_eq hva hok, ?_⟩
  intro g gaxes hgg hlen subs exts hsub c e he
  have hsub' : ((fuseInfoOf a groups).newIndices.getD ((calcFuseGroupInfo groups a.duals).position + g) default).sub
      = some (subs, exts) := hsub
  rw [fused_index_sub hok hgg hlen] at hsub'
  simp only [fusedIndexOf, Index.sub, Option.some.injEq, Prod.mk.injEq] at hsub'
  obtain ⟨_, rfl⟩ := hsub'
  exact fusedIndexOf_sorted _ he

set_option synthInstance.maxSize 1024 in
example : viewIdx (calcFuseBlockInfo exA [[0], [1, 2]])
    = [([((0, 0), 2), ((1, 0), 1)], false, []),
       ([((0, 0), 3)], true, [((0, 0), [([(0, 0), (0, 0)], 1), ([(1, 0), (1, 0)], 2)])])] := by
  decide +kernel

/-! ## 4. the address map (certificate form) -/

/-- inside one extent with distinct sub-sectors, `splitOffset` (find the sub-sector whose
    cumulative range contains the offset) and `joinOffset` are mutually inverse, and every offset
    below the total size is covered -/
theorem splitOffset_joinOffset_inverse (ext : Extent) :
    (∀ o ss r, (ext.map (·.1)).Nodup → splitOffset ext o = some (ss, r) → joinOffset ext ss r = some o)
    ∧ (∀ o ss r, joinOffset ext ss r = some o → splitOffset ext o = some (ss, r))
    ∧ (∀ o, o < sumN (ext.map (·.2)) → ∃ ss r, splitOffset ext o = some (ss, r)) :=
  ⟨fun _ _ _ hnd h => joinOffset_splitOffset hnd h, fun _ _ _ h => FuseP.splitOffset_joinOffset h,
   fun _ h => splitOffset_some h⟩

/-- the model's `extentStart?` (used by the insert strategy) is the `startOf` of the address map -/
theorem extentStart?_spec (ix : Index) (subs : List Index) (exts : Extents) (c : Charge) (ext : Extent)
    (h1 : ix.sub = some (subs, exts)) (h2 : alookup exts c = some ext) (ss : Sector) (r : Nat) :
    joinOffset ext ss r = (match extentStart? ix c ss with
      | some (st, d) => if r < d then some (st + r) else none
      | none => none) := by
  rw [extentStart?_eq h1 h2]; rfl

/-- **splitAddr / joinAddr.**  For ANY well-formed index (however its table was produced) the maps
    between (fused charge, offset) and (sub-charges, sub-offsets), read only from the index's own
    table, are mutually inverse; the sub-offsets of a split lie in the box of the sub sizes, the
    sub-charges combine — signed relative to the fused direction — to the fused charge, and every
    offset below the size of a charge has an address. -/
theorem splitAddr_joinAddr_inverse (sym : Sym) (ix : Index) (hw : Index.wfB sym ix = true) (c : Charge) :
    (∀ o ss offs, splitAddr ix c o = some (ss, offs) →
        joinAddr ix c ss offs = some o
        ∧ ∃ subs exts shp, ix.sub = some (subs, exts) ∧ Arr.blockShape? subs ss = some shp
          ∧ inBox shp offs = true
          ∧ sym.combine (List.zipWith (fun c' (sub : Index) => sym.sign c' (ix.dual != sub.dual)) ss subs) = c)
    ∧ (∀ o ss offs, joinAddr ix c ss offs = some o → splitAddr ix c o = some (ss, offs))
    ∧ (∀ D o, ix.sub.isSome = true → ix.sizeOf? c = some D → o < D → ∃ ss offs, splitAddr ix c o = some (ss, offs)) := by
  refine ⟨fun o ss offs h => joinAddr_splitAddr hw h, fun o ss offs h => FuseP.splitAddr_joinAddr h, ?_⟩
  intro D o hs hc ho
  cases hsub : ix.sub with
  | none => rw [hsub] at hs; cases hs
  | some se => exact splitAddr_total hw (subs := se.1) (exts := se.2) hsub hc ho

/-- the fused index of `exA.fuse((1,2))` -/
def exIx : Index :=
  Index.mk [((0, 0), 3)] true
    (some ([Index.mk [((0, 0), 1), ((1, 0), 2)] true none, Index.mk [((0, 0), 1), ((1, 0), 1)] false none],
           [((0, 0), [([(0, 0), (0, 0)], 1), ([(1, 0), (1, 0)], 2)])]))

example : Index.wfB .U1 exIx = true := by decide
example : splitAddr exIx (0, 0) 2 = some ([(1, 0), (1, 0)], [1, 0])
    ∧ joinAddr exIx (0, 0) [(1, 0), (1, 0)] [1, 0] = some 2 := by decide

/-! ## 5. unfusing restores the original exactly (block level) -/

/-
  Full statement (several groups), not proved:
    for `groupsOkB groups a.ndim`, after `fuseCore a groups .insert` followed by `unfuseA` on each
    fused axis (from the last to the first), the block at sector `permuted s gi.perm` equals
    `b.transposeK gi.perm` for every stored `(s, b)`, and every other block is identically zero.
  Proved below for ONE multi-axis group `groups = [gaxes]` at arbitrary position, arbitrary other
  axes (which may themselves be fused indices).  Missing for the general case: the intermediate
  arrays after unfusing some but not all groups (slicing along one fused axis has to be commuted
  with the reshape of another).
-/

/-- **unfuse ∘ fuse, one group.**  `fuseCore a [gaxes] .insert` succeeds, `unfuseA` on the fused
    axis succeeds, the result has the indices of `transpose a perm`, every stored block `(s, b)`
    reappears as EXACTLY `b.transposeK perm` (equal as blocks: shape and all data) under the
    sector `permuted s perm`, and every other block of the result is identically zero. -/
theorem unfuse_fuse_blocks_partial {R : Type} [Zero R] (a : Arr R) (gaxes : List Nat)
    (hv : a.validB = true) (hg : groupsOkB [gaxes] a.ndim = true) (hlen : gaxes.length ≠ 1) :
    let gi := calcFuseGroupInfo [gaxes] a.duals
    ∃ x y, fuseCore a [gaxes] .insert = .ok x ∧ unfuseA x gi.position = .ok y
      ∧ y.indices = permuted a.indices gi.perm
      ∧ (∀ s b, (s, b) ∈ a.blocks → alookup y.blocks (permuted s gi.perm) = some (b.transposeK gi.perm))
      ∧ (∀ k B', alookup y.blocks k = some B' →
          (∃ s b, (s, b) ∈ a.blocks ∧ k = permuted s gi.perm) ∨ AllZero B') := by
  have hva := validArr_of_validB hv
  have hok := groupsOk_iff.1 hg
  obtain ⟨h1, h2⟩ := round_trip hva hok hlen
  exact ⟨_, _, fuseCore_one_eq hva hok hlen, unfuse_fused_eq hva hok hlen, rfl,
    fun s b hsb => h1 (s, b) hsb,
    fun k B' hk => (h2 k B' hk).imp (fun ⟨sb, hsb, he⟩ => ⟨sb.1, sb.2, hsb, he⟩) id⟩

/-- when `a` had no previously fused axes, `unfuseAllA` performs exactly that one `unfuseA` -/
theorem unfuseAll_fuse_blocks_partial {R : Type} [Zero R] (a : Arr R) (gaxes : List Nat)
    (hv : a.validB = true) (hg : groupsOkB [gaxes] a.ndim = true) (hlen : gaxes.length ≠ 1)
    (hplain : ∀ ix ∈ a.indices, ix.sub = none) :
    let gi := calcFuseGroupInfo [gaxes] a.duals
    ∃ x y, fuseCore a [gaxes] .insert = .ok x ∧ unfuseAllA x = .ok y ∧ unfuseA x gi.position = .ok y
      ∧ y.indices = permuted a.indices gi.perm
      ∧ (∀ s b, (s, b) ∈ a.blocks → alookup y.blocks (permuted s gi.perm) = some (b.transposeK gi.perm))
      ∧ (∀ k B', alookup y.blocks k = some B' →
          (∃ s b, (s, b) ∈ a.blocks ∧ k = permuted s gi.perm) ∨ AllZero B') := by
  have hva := validArr_of_validB hv
  have hok := groupsOk_iff.1 hg
  obtain ⟨h1, h2⟩ := round_trip hva hok hlen
  exact ⟨_, _, fuseCore_one_eq hva hok hlen, unfuseAll_fused hva hok hlen hplain,
    unfuse_fused_eq hva hok hlen, rfl, fun s b hsb => h1 (s, b) hsb,
    fun k B' hk => (h2 k B' hk).imp (fun ⟨sb, hsb, he⟩ => ⟨sb.1, sb.2, hsb, he⟩) id⟩

/-- `AllZero` means what it says for `get` too -/
theorem allZero_get {R : Type} [Zero R] (b : Blk R) (h : AllZero b) (i : List Nat) : b.get i = 0 :=
  get_of_allZero h i

example : (∀ ix ∈ exA.indices, ix.sub = none) ∧ (∀ ix ∈ exB.indices, ix.sub = none)
    ∧ exA.fermi = false ∧ [2, 0].length ≠ 1 := by decide
example : view (do let x ← fuseCore exA [[2, 0]] .insert; unfuseAllA x) = view (.ok (exA.transposeA [2, 0, 1])) := by
  decide +kernel
/-- two stored blocks restored, two extra blocks, both zero -/
example : view (do let x ← fuseCore exB [[0, 1]] .insert; unfuseAllA x)
    = some [([(0, 0), (1, 0), (1, 0), (0, 0)], [1, 1, 1, 1], [7]), ([(1, 0), (0, 0), (1, 0), (0, 0)], [1, 1, 1, 1], [0]),
            ([(0, 0), (1, 0), (0, 0), (1, 0)], [1, 1, 1, 1], [0]), ([(1, 0), (0, 0), (0, 0), (1, 0)], [1, 1, 1, 1], [9])] := by
  decide +kernel

/-! ## 6. both strategies give identical results -/

/-
  Full statement (several groups), not proved: the same with `groups` in place of `[gaxes]`.
  Missing for the general case: the recursion of `recurseConcat` over several groups (nested
  concatenations along different axes) against the multi-axis regions of the insert strategy.
-/

/-- **insert = concat, one group.**  Both strategies succeed, produce the same indices and the
    same set of (distinct) sectors, and for every sector blocks of the same shape with the same
    entries — in fact equal blocks (only the dict order of the blocks may differ). -/
theorem fuseInsert_eq_fuseConcat_partial {R : Type} [Zero R] (a : Arr R) (gaxes : List Nat)
    (hv : a.validB = true) (hg : groupsOkB [gaxes] a.ndim = true) (hlen : gaxes.length ≠ 1) :
    ∃ x y, fuseCore a [gaxes] .insert = .ok x ∧ fuseCore a [gaxes] .concat = .ok y
      ∧ x.indices = y.indices
      ∧ (x.blocks.map (·.1)).Nodup ∧ (y.blocks.map (·.1)).Nodup
      ∧ ∀ ns, (alookup x.blocks ns = none ∧ alookup y.blocks ns = none)
          ∨ ∃ B C, alookup x.blocks ns = some B ∧ alookup y.blocks ns = some C
              ∧ B.shape = C.shape ∧ (∀ i, inBox B.shape i = true → B.get i = C.get i) ∧ B = C := by
  have hva := validArr_of_validB hv
  have hok := groupsOk_iff.1 hg
  exact ⟨_, _, fuseCore_one_eq hva hok hlen, fuseCore_one_concat_eq hva hok hlen, rfl,
    (fusedBlocks_inv hva hok hlen).nodup, concatBlocks_nodup hva hok,
    fun ns => insert_eq_concat hva hok hlen ns⟩

set_option synthInstance.maxSize 1024 in
example : view (fuseCore exA [[2, 0]] .insert) = view (fuseCore exA [[2, 0]] .concat)
    ∧ view (fuseCore exA [[0], [1, 2]] .insert) = view (fuseCore exA [[0], [1, 2]] .concat)
    ∧ view (fuseCore exB [[0, 1]] .concat)
        = some [([(1, 0), (1, 0), (0, 0)], [2, 1, 1], [7, 0]), ([(1, 0), (0, 0), (1, 0)], [2, 1, 1], [0, 9])] := by
  decide +kernel

/-! ## 7. the property proper: every element appears exactly once, where the table says -/

/-
  Full statement (several groups), not proved: `splitAddr` is applied on every fused axis
  `position + g` of a multi-axis group.  Proved for ONE multi-axis group, both strategies,
  non-fermionic arrays (`fuseCore` is the abelian layer: it does not re-key pending signs).
-/

/-- the address map is injective: an address (sub-charges, sub-offsets) comes from at most one
    (fused charge, offset) — for ANY well-formed index -/
theorem splitAddr_injective (sym : Sym) (ix : Index) (hw : Index.wfB sym ix = true)
    (c c' : Charge) (o o' : Nat) (ss : Sector) (offs : List Nat)
    (h : splitAddr ix c o = some (ss, offs)) (h' : splitAddr ix c' o' = some (ss, offs)) :
    c = c' ∧ o = o' := by
  obtain ⟨hj, subs, exts, shp, hs, _, _, hc⟩ := joinAddr_splitAddr hw h
  obtain ⟨hj', subs', exts', shp', hs', _, _, hc'⟩ := joinAddr_splitAddr hw h'
  rw [hs] at hs'
  simp only [Option.some.injEq, Prod.mk.injEq] at hs'
  obtain ⟨rfl, rfl⟩ := hs'
  have hcc : c = c' := by rw [← hc, ← hc']
  subst hcc
  rw [hj] at hj'
  exact ⟨rfl, by simpa using hj'⟩

/-- **fuse_elem, one group.**  For every block `(ns, B)` of the fused array and every offset
    vector `i` in its box, `splitAddr` — read ONLY from the fused index's own table — turns the
    fused charge and offset into sub-charges `ss` and sub-offsets; the element stored there is the
    element of the original at the address `(s, offs)` obtained by expanding the fused axis
    (`replaceWithSeq`) and un-permuting (`permuted · perm` is the inverse direction). -/
theorem fuse_elem_partial {R : Type} [Zero R] [Neg R] (a : Arr R) (gaxes : List Nat) (mode : FuseMode)
    (hv : a.validB = true) (hg : groupsOkB [gaxes] a.ndim = true) (hlen : gaxes.length ≠ 1)
    (hnf : a.fermi = false) :
    let gi := calcFuseGroupInfo [gaxes] a.duals
    ∃ x, fuseCore a [gaxes] mode = .ok x ∧
      ∀ ns B, alookup x.blocks ns = some B → ∀ i, inBox B.shape i = true →
        ∃ ss suboffs,
          splitAddr (x.indices.getD gi.position default) (ns.getD gi.position (0, 0)) (i.getD gi.position 0)
            = some (ss, suboffs)
          ∧ ∀ s offs, s.length = a.ndim → offs.length = a.ndim →
              permuted s gi.perm = replaceWithSeq ns gi.position ss →
              permuted offs gi.perm = replaceWithSeq i gi.position suboffs →
              x.elem ns i = a.elem s offs := by
  have hva := validArr_of_validB hv
  have hok := groupsOk_iff.1 hg
  have hph : a.phases = [] := by
    simp only [Arr.validB, hnf, Bool.false_eq_true, if_false, Bool.and_eq_true, List.isEmpty_iff] at hv
    exact hv.2.1
  have helem : ∀ s offs, a.elem s offs = (match alookup a.blocks s with
      | some b => b.get offs
      | none => 0) := by
    intro s offs
    simp only [Arr.elem, hph, alookup]
    cases alookup a.blocks s <;> simp
  -- the statement for the blocks of the insert strategy
  have hins : ∀ ns B, alookup (fusedBlocks a gaxes) ns = some B → ∀ i, inBox B.shape i = true →
      ∃ ss suboffs, splitAddr (fix1 a gaxes) (ns.getD (gi1 a gaxes).position (0, 0))
          (i.getD (gi1 a gaxes).position 0) = some (ss, suboffs)
        ∧ ∀ s offs, s.length = a.ndim → offs.length = a.ndim →
            permuted s (gi1 a gaxes).perm = replaceWithSeq ns (gi1 a gaxes).position ss →
            permuted offs (gi1 a gaxes).perm = replaceWithSeq i (gi1 a gaxes).position suboffs →
            B.get i = a.elem s offs := by
    intro ns B hB i hi
    obtain ⟨ss, suboffs, h1, h2⟩ := fused_get hva hok hlen hB hi
    exact ⟨ss, suboffs, h1, fun s offs hs ho hK hJ => by rw [helem]; exact h2 s offs hs ho hK hJ⟩
  cases mode with
  | insert =>
    refine ⟨_, fuseCore_one_eq hva hok hlen, ?_⟩
    intro ns B hB i hi
    have hB' : alookup (fusedBlocks a gaxes) ns = some B := hB
    obtain ⟨ss, suboffs, h1, h2⟩ := hins ns B hB' i hi
    refine ⟨ss, suboffs, ?_, ?_⟩
    · show splitAddr ((newIndices1 a gaxes).getD _ default) _ _ = _
      rw [newIndices1_getD_pos hok]; exact h1
    · intro s offs hs ho hK hJ
      rw [← h2 s offs hs ho hK hJ]
      show (fusedArr a gaxes).elem ns i = _
      simp only [Arr.elem, fusedArr, hB', hph, alookup]
      simp
  | concat =>
    refine ⟨_, fuseCore_one_concat_eq hva hok hlen, ?_⟩
    intro ns C hC i hi
    have hC' : alookup (concatBlocks a gaxes) ns = some C := hC
    rcases insert_eq_concat hva hok hlen ns with ⟨_, hnone⟩ | ⟨B, C', hB, hC'', hsh, hget, _⟩
    · rw [hnone] at hC'; cases hC'
    · rw [hC'] at hC''
      simp only [Option.some.injEq] at hC''; subst hC''
      obtain ⟨ss, suboffs, h1, h2⟩ := hins ns B hB i (by rw [hsh]; exact hi)
      refine ⟨ss, suboffs, ?_, ?_⟩
      · show splitAddr ((newIndices1 a gaxes).getD _ default) _ _ = _
        rw [newIndices1_getD_pos hok]; exact h1
      · intro s offs hs ho hK hJ
        rw [← h2 s offs hs ho hK hJ, hget i (by rw [hsh]; exact hi)]
        show (fusedArrC a gaxes).elem ns i = _
        simp only [Arr.elem, fusedArrC, hC', hph, alookup]
        simp

/-- **onto**: every stored address `(s, offs)` of the original is the image of an address of the
    fused array (so, with `fuse_elem_partial` and `splitAddr_injective`, the map is a bijection
    between stored addresses and the original's stored addresses are all present, once). -/
theorem fuse_elem_onto_partial {R : Type} [Zero R] (a : Arr R) (gaxes : List Nat)
    (hv : a.validB = true) (hg : groupsOkB [gaxes] a.ndim = true) (hlen : gaxes.length ≠ 1) :
    let gi := calcFuseGroupInfo [gaxes] a.duals
    ∃ x, fuseCore a [gaxes] .insert = .ok x ∧
      ∀ s b, (s, b) ∈ a.blocks → ∀ offs, inBox b.shape offs = true →
        ∃ ns B i ss suboffs, alookup x.blocks ns = some B ∧ inBox B.shape i = true
          ∧ splitAddr (x.indices.getD gi.position default) (ns.getD gi.position (0, 0)) (i.getD gi.position 0)
              = some (ss, suboffs)
          ∧ permuted s gi.perm = replaceWithSeq ns gi.position ss
          ∧ permuted offs gi.perm = replaceWithSeq i gi.position suboffs := by
  have hva := validArr_of_validB hv
  have hok := groupsOk_iff.1 hg
  refine ⟨_, fuseCore_one_eq hva hok hlen, ?_⟩
  intro s b hsb offs ho
  obtain ⟨B, i, h1, h2, h3, h4, h5⟩ := fused_onto hva hok hlen hsb ho
  refine ⟨_, B, i, _, _, h1, h2, ?_, h4, h5⟩
  show splitAddr ((newIndices1 a gaxes).getD _ default) _ _ = _
  rw [newIndices1_getD_pos hok]; exact h3

/-- element view of a result at an address -/
def elemAt (r : Except Err (Arr Int)) (ns : Sector) (i : List Nat) : Int :=
  match r with
  | .ok x => x.elem ns i
  | .error _ => 0

/-- `exA.fuse((1,2))`: the entry of the fused block at fused offset 2 is the entry of the original
    block of sector (0,1,1) at offsets (·,1,0) -/
example : elemAt (fuseCore exA [[0], [1, 2]] .insert) [(0, 0), (0, 0)] [1, 2] = exA.elem [(0, 0), (1, 0), (1, 0)] [1, 1, 0]
    ∧ elemAt (fuseCore exA [[0], [1, 2]] .concat) [(0, 0), (0, 0)] [1, 2] = 6 := by
  decide +kernel

end SymmModel.C05
