/- Umbrella for property C04: C04All6 plus C06d (S4–S7 in fused / auto mode). -/
import SymmModel.Props.C04All6
import SymmModel.Props.C06All3
