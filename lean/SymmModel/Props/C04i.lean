/-
  Property C04 (route independence) — four-tensor networks of ARBITRARY graph with every one of the
  three calls of a route in ITS OWN contraction mode (`fused` / `blockwise` / `auto`).
  MODEL: `Arr.tensordotF` (Model/Fermi.lean) with its `mode` argument; scalars as in C04h/C06e
  (`AddCommMonoid`, `SignRing`, `AssocP.AssocLaws`, `0 * x = 0 = x * 0`; instances `Int`, `GRat`).

  SETTING as in C04h: tensors `A, B, C, D`, a (possibly empty) list of bonded legs for every pair,
  weak guard `tdotAdmissibleCommonB` on every pair, the three bond lists of a tensor disjoint,
  pairwise-distinct labels.  `routeM1 … routeM5 m1 m2 m3` are the five bracketings `((AB)C)D`,
  `(A(BC))D`, `(AB)(CD)`, `A((BC)D)`, `A(B(CD))` as programs of three calls, call `i` in mode `mi`
  (`routeM_defs`; with all modes `blockwise` they are `route1 … route5` of C04h, `routeM_blockwise`).

  `ZeroPad U T` (`zeroPad_def`): `U` is valid and fermionic, has the labels, charge, symmetry, rank and
  leg directions of `T`, stores every sector of `T` with the same block shape and the same values,
  and every other block of `U` is zero.  (Equality of `to_dense()` is NOT claimed and is false in
  general: fused-mode results keep the charges of all-zero blocks in their index tables, C06e.)

  PROVED (no `_partial`):
    `net4_bracketings_modes`   for EVERY assignment of modes to the fifteen calls of the five
                               bracketings: all succeed, and every result is a `ZeroPad` of the
                               blockwise left-nested result `T1` (`route1`);
    `net4_every_route_modes`   ANY ordering (24) × ANY bracketing (5) × ANY mode assignment: the
                               result is a `ZeroPad` of the blockwise left-nested contraction `T` of
                               that ordering, which is valid and a fermionic transpose (`TEq`, C04h) of
                               the reference `((T₀·T₁)·T₂)·T₃`;
    `net4_every_route_modes_ref`, `net4_routes_agree_modes`  the symmetric form: the results `U`, `U'`
                               of ANY two routes (orderings, bracketings, modes) are `ZeroPad`s of
                               arrays `T`, `T'` which, brought to the reference leg order by
                               fermionic transposes `P`, `P'`, are `Eqv` — same `to_dense()`, labels,
                               charge, index tables; so `U` and `U'` carry the same labels and charge
                               and their stored non-zero content is that of `T`, `T'`;
    `zeroPad_blockwise_eqv`    in blockwise mode `ZeroPad` is the equivalence of C04e;
    `net4_flagged_modes`, `net4_every_route_flagged_modes`   the same with, at every call, BOTH an
                               operand-order flag (C04h `callS`: operands exchanged, result rotated back
                               by `transposeF`) and a mode (`callSM`, `routeSM1 … routeSM5`): ANY
                               ordering × bracketing × flag assignment × mode assignment gives a
                               `ZeroPad` of the blockwise left-nested contraction of that ordering —
                               this is `net4_every_route` (C04h) with a mode per call;
    `zeroPad_transposeF`       zero padding commutes with the fermionic transpose;
    `refM_to_reference`        every such result `U`, transposed by a suitable `P`, is a `ZeroPad` of
                               the reference contraction `T0 = ((T₀·T₁)·T₂)·T₃` ITSELF;
    `net4_routes_agree_modes_at`  hence the results `U`, `U'` of ANY two routes (orderings,
                               bracketings, operand orders, modes), brought to the reference leg
                               order, have the same labels, charge, rank, leg directions, both store
                               every sector of `T0` with the same block shape and the SAME VALUES, and
                               all their other blocks are zero.
  How: call by call.  A call in fused / auto mode is a zero-padded copy of the blockwise call on the
  same operands (`TdotP.call_w`, C06d `tensordotF_modes_agree_weak`), the blockwise call on padded
  operands is a padded copy of the blockwise call on the plain ones (`TdotP.pad_blockwise`, C06e);
  the guard of each later call on the PADDED intermediates follows from the leaf guards because the
  legs of an intermediate of any mode are prunings of leaf legs (`TdotP.InterW`,
  `Net4P.admW_left_triW / admW_right_triW`), for routes 2 and 4 with the star identity
  `Net4P.axes_star` (the legs of `A·B·C` bonded to `D` sit at the same positions in both layouts).
  SECOND PART — "several indices at once or one after another" (FRAME ONLY, `_partial`):
    `two_step_frame_partial`   contracting the pairs `xa ~ xb` with `tensordotF` and the remaining
                               pairs with the single-array `einsumF` gives the labels, total charge,
                               symmetry and kind of contracting `xa ++ ya ~ xb ++ yb` at once.
    What exists elsewhere: `C03.traceF_refines_graded`, `C09.einsumF_refines_graded` (element-level
    form of `einsumF`), `C01.einsumF_valid`; no theorem compares VALUES of the two-step and the
    one-step contraction, and none is proved here (it needs the Fubini / sign argument of S7 for
    the trace; see the comment at the theorem).  Index tables are not claimed equal: `einsumF`
    permutes the tables of the intermediate, it does not prune them again.
  THIRD PART — `LabelRoutes` for fully paired label lists, more than two labels per tensor:
    `netLabelsB_four`, `labelRoutes_four`   the label check of the doubled network
                               (`NormNet.netLabelsB`, hence the four `LabelRoutes` conditions of
                               C04f/C10's norm network) for ALL sorted ket label lists `oA`, `oB` with
                               at most FOUR labels per tensor and pairwise-distinct labels — symbolic
                               labels, every interleaving, every parity assignment (C04g: <= 2);
    `netLabelsB_pattern4`, `labelRoutes_pattern4`  the pattern form: for every interleaving pattern
                               `(ca, cb)` (`allPats4`, 251 patterns) and every strictly increasing `G`.
    How: two sorted disjoint lists are `G[ca]`, `G[cb]` for their merge `G` and the positions of the
    `true` / `false` entries of their interleaving word (`Assoc5P.mergeW`, `mergeW_read`); the check
    only compares labels (`C04.netLabelsB_order_type`), so it transfers from the rank pattern, and
    all 251 words with at most 4 + 4 entries are decided (`Assoc5P.allWords8_ok`).
    NOT proved: unboundedly many labels per tensor.  The general statement is NOT a consequence of
    sortedness + distinctness of the (label, kind) pairs alone: `oddLt` puts every bra before every
    ket, so a conjugate pair annihilates only if the scan makes it adjacent
    (`C04.conjugate_pairs_labels_route_dependent`: `[3†], [3], [2]`); for the four operand triples
    of the doubled network no failing pattern exists up to 4 + 4 labels (`netLabelsB_four`) —
    plausibly because there every bra has to cross every ket, but that argument is not formalised.
  NOT proved: `n > 4` tensors of arbitrary graph; a closed formula for the permutation `P` (as in
  C04h it is existentially quantified; it satisfies `ZeroPad (U.transposeF P) T0`).
-/
import SymmModel.Proofs.Net4M9
import SymmModel.Proofs.Net4M5
import SymmModel.Proofs.Net4M10
import SymmModel.Props.C04h

namespace SymmModel.C04
open SymmModel SymmModel.GradedP SymmModel.TdotP SymmModel.RoutesP SymmModel.AssocP SymmModel.Assoc3P
  SymmModel.Assoc5P SymmModel.Net4P

variable {R : Type}

/-! ## vocabulary -/

theorem zeroPad_def [Zero R] [Neg R] (U T : Arr R) :
    ZeroPad U T ↔ (U.validB = true ∧ U.fermi = true ∧ U.oddpos = T.oddpos ∧ U.charge = T.charge
      ∧ U.sym = T.sym ∧ U.ndim = T.ndim
      ∧ (∀ i, (U.indices.getD i default).dual = (T.indices.getD i default).dual)
      ∧ (∀ s ∈ T.sectors, s ∈ U.sectors)
      ∧ (∀ s ∈ T.sectors, Arr.blockShapeD U.indices s = Arr.blockShapeD T.indices s)
      ∧ (∀ s ∈ T.sectors, ∀ o, inBox (Arr.blockShapeD T.indices s) o = true → U.elem s o = T.elem s o)
      ∧ (∀ s, s ∉ T.sectors → ∀ o, inBox (Arr.blockShapeD U.indices s) o = true → U.elem s o = 0)) :=
  ⟨fun h => ⟨h.valid, h.fermi, h.oddpos, h.charge, h.sym, h.ndim, h.dual, h.sub, h.shape, h.elem, h.zero⟩,
    fun ⟨a, b, c, d, e, f, g, h, i, j, k⟩ => ⟨a, b, c, d, e, f, g, h, i, j, k⟩⟩

/-- a call in mode `m` -/
theorem tdM_def [Zero R] [Add R] [Mul R] [Neg R] (m : TdotMode) (X Y : Arr R) (xa xb : List Nat) :
    tdM m X Y xa xb = X.tensordotF Y (.pair (xa.map Int.ofNat) (xb.map Int.ofNat)) m := rfl

section routes
variable [Zero R] [Add R] [Mul R] [Neg R]
variable (A B C D : Arr R) (ab ac ad ba bc bd ca cb cd da db dc : List Nat)

/-- the five routes with a mode per call, as programs of three calls (axis lists as in C04h) -/
theorem routeM_defs (m1 m2 m3 : TdotMode) :
    routeM1 A B C D ab ac ad ba bc bd ca cb cd da db dc m1 m2 m3
      = ((tdM m1 A B ab ba).bind fun AB =>
        (tdM m2 AB C (Assoc2P.axesAB A.ndim B.ndim ab ac ba bc) (ca ++ cb)).bind fun ABC =>
        tdM m3 ABC D (axesABC_D A B C ab ac ad ba bc bd ca cb cd) ((da ++ db) ++ dc))
    ∧ routeM2 A B C D ab ac ad ba bc bd ca cb cd da db dc m1 m2 m3
      = ((tdM m1 B C bc cb).bind fun BC =>
        (tdM m2 A BC (ab ++ ac) (Assoc2P.axesBC B.ndim C.ndim ba bc cb ca)).bind fun ABC =>
        tdM m3 ABC D (axesABC_D A B C ab ac ad ba bc bd ca cb cd) ((da ++ db) ++ dc))
    ∧ routeM3 A B C D ab ac ad ba bc bd ca cb cd da db dc m1 m2 m3
      = ((tdM m1 A B ab ba).bind fun AB =>
        (tdM m2 C D cd dc).bind fun CD =>
        tdM m3 AB CD
          (Assoc2P.axesAB A.ndim B.ndim ab ac ba bc ++ Assoc2P.axesAB A.ndim B.ndim ab ad ba bd)
          (Assoc2P.axesBC C.ndim D.ndim (ca ++ cb) cd dc (da ++ db)))
    ∧ routeM4 A B C D ab ac ad ba bc bd ca cb cd da db dc m1 m2 m3
      = ((tdM m1 B C bc cb).bind fun BC =>
        (tdM m2 BC D (Assoc2P.axesAB B.ndim C.ndim bc bd cb cd) (db ++ dc)).bind fun BCD =>
        tdM m3 A BCD (ab ++ (ac ++ ad)) (axesBCD_A B C D ba bc bd ca cb cd da db dc))
    ∧ routeM5 A B C D ab ac ad ba bc bd ca cb cd da db dc m1 m2 m3
      = ((tdM m1 C D cd dc).bind fun CD =>
        (tdM m2 B CD (bc ++ bd) (Assoc2P.axesBC C.ndim D.ndim cb cd dc db)).bind fun BCD =>
        tdM m3 A BCD (ab ++ (ac ++ ad)) (axesBCD_A B C D ba bc bd ca cb cd da db dc)) :=
  ⟨rfl, rfl, rfl, rfl, rfl⟩

/-- with every call in blockwise mode these are the routes of C04h -/
theorem routeM_blockwise :
    routeM1 A B C D ab ac ad ba bc bd ca cb cd da db dc .blockwise .blockwise .blockwise
      = route1 A B C D ab ac ad ba bc bd ca cb cd da db dc
    ∧ routeM2 A B C D ab ac ad ba bc bd ca cb cd da db dc .blockwise .blockwise .blockwise
      = route2 A B C D ab ac ad ba bc bd ca cb cd da db dc
    ∧ routeM3 A B C D ab ac ad ba bc bd ca cb cd da db dc .blockwise .blockwise .blockwise
      = route3 A B C D ab ac ad ba bc bd ca cb cd da db dc
    ∧ routeM4 A B C D ab ac ad ba bc bd ca cb cd da db dc .blockwise .blockwise .blockwise
      = route4 A B C D ab ac ad ba bc bd ca cb cd da db dc
    ∧ routeM5 A B C D ab ac ad ba bc bd ca cb cd da db dc .blockwise .blockwise .blockwise
      = route5 A B C D ab ac ad ba bc bd ca cb cd da db dc :=
  ⟨rfl, rfl, rfl, rfl, rfl⟩

end routes

/-- for blockwise results `ZeroPad` is the equivalence of C04e -/
theorem zeroPad_blockwise_eqv [Zero R] [Neg R] {U T : Arr R} (h : Eqv U T) (hv : U.validB = true)
    (hf : U.fermi = true) : ZeroPad U T :=
  zeroPad_of (PadA.refl hv) hv hf h

/-! ## the five bracketings, a mode per call -/

/-- **net4_bracketings_modes.**  Hypotheses of `net4_bracketings` (C04h); `m` assigns a mode to each
    of the fifteen calls of the five bracketings.  All five succeed and are zero-padded copies of
    the blockwise left-nested result. -/
theorem net4_bracketings_modes [AddCommMonoid R] [Mul R] [Neg R] [SignRing R] [AssocLaws R]
    (hz1 : ∀ x : R, 0 * x = 0) (hz2 : ∀ x : R, x * 0 = 0)
    (A B C D : Arr R) (ab ac ad ba bc bd ca cb cd da db dc : List Nat)
    (hA : A.validB = true) (hB : B.validB = true) (hC : C.validB = true) (hD : D.validB = true)
    (hfA : A.fermi = true) (hfB : B.fermi = true) (hfC : C.fermi = true) (hfD : D.fermi = true)
    (gAB : tdotAdmissibleCommonB A B ab ba = true) (gAC : tdotAdmissibleCommonB A C ac ca = true)
    (gAD : tdotAdmissibleCommonB A D ad da = true) (gBC : tdotAdmissibleCommonB B C bc cb = true)
    (gBD : tdotAdmissibleCommonB B D bd db = true) (gCD : tdotAdmissibleCommonB C D cd dc = true)
    (hnA : (ab ++ ac ++ ad).Nodup) (hnB : (ba ++ bc ++ bd).Nodup)
    (hnC : (ca ++ cb ++ cd).Nodup) (hnD : (da ++ db ++ dc).Nodup)
    (hd : (A.oddpos ++ B.oddpos ++ C.oddpos ++ D.oddpos).Pairwise (fun x y => x.1 ≠ y.1))
    (m : Fin 15 → TdotMode) :
    ∃ T1 U1 U2 U3 U4 U5 : Arr R,
      route1 A B C D ab ac ad ba bc bd ca cb cd da db dc = .ok T1 ∧ T1.validB = true
      ∧ routeM1 A B C D ab ac ad ba bc bd ca cb cd da db dc (m 0) (m 1) (m 2) = .ok U1
      ∧ routeM2 A B C D ab ac ad ba bc bd ca cb cd da db dc (m 3) (m 4) (m 5) = .ok U2
      ∧ routeM3 A B C D ab ac ad ba bc bd ca cb cd da db dc (m 6) (m 7) (m 8) = .ok U3
      ∧ routeM4 A B C D ab ac ad ba bc bd ca cb cd da db dc (m 9) (m 10) (m 11) = .ok U4
      ∧ routeM5 A B C D ab ac ad ba bc bd ca cb cd da db dc (m 12) (m 13) (m 14) = .ok U5
      ∧ ZeroPad U1 T1 ∧ ZeroPad U2 T1 ∧ ZeroPad U3 T1 ∧ ZeroPad U4 T1 ∧ ZeroPad U5 T1 := by
  have H : K4H A B C D ab ac ad ba bc bd ca cb cd da db dc :=
    ⟨AdmW.of hA hB hfA hfB gAB, AdmW.of hA hC hfA hfC gAC, AdmW.of hA hD hfA hfD gAD,
      AdmW.of hB hC hfB hfC gBC, AdmW.of hB hD hfB hfD gBD, AdmW.of hC hD hfC hfD gCD,
      hnA, hnB, hnC, hnD, hd⟩
  obtain ⟨T1, T2, T3, T4, T5, d1, d2, d3, d4, d5, q2, q3, q4, q5, hv⟩ :=
    net4_bracketings A B C D ab ac ad ba bc bd ca cb cd da db dc hA hB hC hD hfA hfB hfC hfD
      gAB gAC gAD gBC gBD gCD hnA hnB hnC hnD hd
  obtain ⟨T1', T2', T3', T4', T5', U1, U2, U3, U4, U5, a1, a2, a3, a4, a5, b1, b2, b3, b4, b5,
    p1, p2, p3, p4, p5, hvf⟩ := k4_modes hz1 hz2 H m
  obtain rfl : T1' = T1 := Except.ok.inj (a1.symm.trans d1)
  obtain rfl : T2' = T2 := Except.ok.inj (a2.symm.trans d2)
  obtain rfl : T3' = T3 := Except.ok.inj (a3.symm.trans d3)
  obtain rfl : T4' = T4 := Except.ok.inj (a4.symm.trans d4)
  obtain rfl : T5' = T5 := Except.ok.inj (a5.symm.trans d5)
  have hU : ∀ U ∈ [U1, U2, U3, U4, U5], U.validB = true ∧ U.fermi = true := hvf
  simp only [List.mem_cons, List.not_mem_nil, or_false, forall_eq_or_imp, forall_eq] at hU
  obtain ⟨⟨v1, f1⟩, ⟨v2, f2⟩, ⟨v3, f3⟩, ⟨v4, f4⟩, v5, f5⟩ := hU
  exact ⟨T1', U1, U2, U3, U4, U5, d1, hv, b1, b2, b3, b4, b5, zeroPad_of p1 v1 f1 (Eqv.refl _),
    zeroPad_of p2 v2 f2 q2, zeroPad_of p3 v3 f3 q3, zeroPad_of p4 v4 f4 q4, zeroPad_of p5 v5 f5 q5⟩

/-! ## every ordering × bracketing × mode assignment -/

/-- `U` is a zero-padded copy of a valid fermionic array of which the reference contraction
    `((T₀·T₁)·T₂)·T₃` (blockwise) is a fermionic transpose -/
def RefM [AddCommMonoid R] [Mul R] [Neg R] (N : Net4 R) (U : Arr R) : Prop :=
  ∃ T : Arr R, Ref N T ∧ ZeroPad U T

theorem refM_def [AddCommMonoid R] [Mul R] [Neg R] (N : Net4 R) (U : Arr R) :
    RefM N U ↔ ∃ T : Arr R, Ref N T ∧ ZeroPad U T := Iff.rfl

/-- **net4_every_route_modes.**  Any ordering `i, j, k, l`, any of the five bracketings, any mode
    for each call: the result is a zero-padded copy of the blockwise left-nested contraction `T` of
    that ordering; `T` is valid, fermionic and a fermionic transpose of the reference `T0`. -/
theorem net4_every_route_modes [AddCommMonoid R] [Mul R] [Neg R] [SignRing R] [AssocLaws R]
    (hmul : ∀ x y : R, x * y = y * x) (hz1 : ∀ x : R, 0 * x = 0) (hz2 : ∀ x : R, x * 0 = 0)
    (N : Net4 R) (hN : N.OK) (i j k l : Fin 4) (hn : [i, j, k, l].Nodup) (m : Fin 15 → TdotMode) :
    ∃ T0 T U1 U2 U3 U4 U5 : Arr R, N.r1 0 1 2 3 = .ok T0 ∧ N.r1 i j k l = .ok T
      ∧ T.validB = true ∧ T.fermi = true ∧ TEq T T0
      ∧ routeM1 (N.T i) (N.T j) (N.T k) (N.T l) (N.b i j) (N.b i k) (N.b i l) (N.b j i) (N.b j k) (N.b j l)
          (N.b k i) (N.b k j) (N.b k l) (N.b l i) (N.b l j) (N.b l k) (m 0) (m 1) (m 2) = .ok U1
      ∧ routeM2 (N.T i) (N.T j) (N.T k) (N.T l) (N.b i j) (N.b i k) (N.b i l) (N.b j i) (N.b j k) (N.b j l)
          (N.b k i) (N.b k j) (N.b k l) (N.b l i) (N.b l j) (N.b l k) (m 3) (m 4) (m 5) = .ok U2
      ∧ routeM3 (N.T i) (N.T j) (N.T k) (N.T l) (N.b i j) (N.b i k) (N.b i l) (N.b j i) (N.b j k) (N.b j l)
          (N.b k i) (N.b k j) (N.b k l) (N.b l i) (N.b l j) (N.b l k) (m 6) (m 7) (m 8) = .ok U3
      ∧ routeM4 (N.T i) (N.T j) (N.T k) (N.T l) (N.b i j) (N.b i k) (N.b i l) (N.b j i) (N.b j k) (N.b j l)
          (N.b k i) (N.b k j) (N.b k l) (N.b l i) (N.b l j) (N.b l k) (m 9) (m 10) (m 11) = .ok U4
      ∧ routeM5 (N.T i) (N.T j) (N.T k) (N.T l) (N.b i j) (N.b i k) (N.b i l) (N.b j i) (N.b j k) (N.b j l)
          (N.b k i) (N.b k j) (N.b k l) (N.b l i) (N.b l j) (N.b l k) (m 12) (m 13) (m 14) = .ok U5
      ∧ ZeroPad U1 T ∧ ZeroPad U2 T ∧ ZeroPad U3 T ∧ ZeroPad U4 T ∧ ZeroPad U5 T := by
  obtain ⟨T, T0, e, e0, v, fT, v0, t⟩ := all_orders hmul hN i j k l hn
  have H := hN.k4h hn
  obtain ⟨T1, T2, T3, T4, T5, U1, U2, U3, U4, U5, a1, a2, a3, a4, a5, b1, b2, b3, b4, b5,
    p1, p2, p3, p4, p5, hvf⟩ := k4_modes hz1 hz2 H m
  obtain ⟨AB, BC, CD, ABC1, ABC2, BCD1, BCD2, S1, S2, S3, S4, S5, eAB, eBC, eCD, eABC1, eABC2, eBCD1,
    eBCD2, eT1, eT2, eT3, eT4, eT5, q2, q3, q4, q5, hv⟩ :=
    k4 (N.T i) (N.T j) (N.T k) (N.T l) (N.b i j) (N.b i k) (N.b i l) (N.b j i) (N.b j k) (N.b j l)
      (N.b k i) (N.b k j) (N.b k l) (N.b l i) (N.b l j) (N.b l k)
      H.WAB H.WAC H.WAD H.WBC H.WBD H.WCD H.hnA H.hnB H.hnC H.hnD H.hd
  have r1 : routeS1 (N.T i) (N.T j) (N.T k) (N.T l) (N.b i j) (N.b i k) (N.b i l) (N.b j i) (N.b j k)
      (N.b j l) (N.b k i) (N.b k j) (N.b k l) (N.b l i) (N.b l j) (N.b l k) false false false = .ok S1 := by
    unfold routeS1 callS axesABC_D; simp only []
    rw [eAB]; simp only [Except.bind]; rw [eABC1]; exact eT1
  have r2 : routeS2 (N.T i) (N.T j) (N.T k) (N.T l) (N.b i j) (N.b i k) (N.b i l) (N.b j i) (N.b j k)
      (N.b j l) (N.b k i) (N.b k j) (N.b k l) (N.b l i) (N.b l j) (N.b l k) false false false = .ok S2 := by
    unfold routeS2 callS axesABC_D; simp only []
    rw [eBC]; simp only [Except.bind]; rw [eABC2]; exact eT2
  have r3 : routeS3 (N.T i) (N.T j) (N.T k) (N.T l) (N.b i j) (N.b i k) (N.b i l) (N.b j i) (N.b j k)
      (N.b j l) (N.b k i) (N.b k j) (N.b k l) (N.b l i) (N.b l j) (N.b l k) false false false = .ok S3 := by
    unfold routeS3 callS; simp only []
    rw [eAB]; simp only [Except.bind]; rw [eCD]; exact eT3
  have r4 : routeS4 (N.T i) (N.T j) (N.T k) (N.T l) (N.b i j) (N.b i k) (N.b i l) (N.b j i) (N.b j k)
      (N.b j l) (N.b k i) (N.b k j) (N.b k l) (N.b l i) (N.b l j) (N.b l k) false false false = .ok S4 := by
    unfold routeS4 callS axesBCD_A; simp only []
    rw [eBC]; simp only [Except.bind]; rw [eBCD1]; exact eT4
  have r5 : routeS5 (N.T i) (N.T j) (N.T k) (N.T l) (N.b i j) (N.b i k) (N.b i l) (N.b j i) (N.b j k)
      (N.b j l) (N.b k i) (N.b k j) (N.b k l) (N.b l i) (N.b l j) (N.b l k) false false false = .ok S5 := by
    unfold routeS5 callS axesBCD_A; simp only []
    rw [eCD]; simp only [Except.bind]; rw [eBCD2]; exact eT5
  obtain rfl : T1 = S1 := Except.ok.inj (a1.symm.trans r1)
  obtain rfl : T2 = S2 := Except.ok.inj (a2.symm.trans r2)
  obtain rfl : T3 = S3 := Except.ok.inj (a3.symm.trans r3)
  obtain rfl : T4 = S4 := Except.ok.inj (a4.symm.trans r4)
  obtain rfl : T5 = S5 := Except.ok.inj (a5.symm.trans r5)
  obtain rfl : T = T1 := Except.ok.inj (e.symm.trans a1)
  have hU : ∀ U ∈ [U1, U2, U3, U4, U5], U.validB = true ∧ U.fermi = true := hvf
  simp only [List.mem_cons, List.not_mem_nil, or_false, forall_eq_or_imp, forall_eq] at hU
  obtain ⟨⟨v1, f1⟩, ⟨v2, f2⟩, ⟨v3, f3⟩, ⟨v4, f4⟩, v5, f5⟩ := hU
  exact ⟨T0, T, U1, U2, U3, U4, U5, e0, e, v, fT, t, b1, b2, b3, b4, b5,
    zeroPad_of p1 v1 f1 (Eqv.refl _), zeroPad_of p2 v2 f2 q2, zeroPad_of p3 v3 f3 q3,
    zeroPad_of p4 v4 f4 q4, zeroPad_of p5 v5 f5 q5⟩

/-- `net4_every_route_modes` in terms of `RefM` -/
theorem net4_every_route_modes_ref [AddCommMonoid R] [Mul R] [Neg R] [SignRing R] [AssocLaws R]
    (hmul : ∀ x y : R, x * y = y * x) (hz1 : ∀ x : R, 0 * x = 0) (hz2 : ∀ x : R, x * 0 = 0)
    (N : Net4 R) (hN : N.OK) (i j k l : Fin 4) (hn : [i, j, k, l].Nodup) (m : Fin 15 → TdotMode) :
    ∃ U1 U2 U3 U4 U5 : Arr R,
      routeM1 (N.T i) (N.T j) (N.T k) (N.T l) (N.b i j) (N.b i k) (N.b i l) (N.b j i) (N.b j k) (N.b j l)
          (N.b k i) (N.b k j) (N.b k l) (N.b l i) (N.b l j) (N.b l k) (m 0) (m 1) (m 2) = .ok U1
      ∧ routeM2 (N.T i) (N.T j) (N.T k) (N.T l) (N.b i j) (N.b i k) (N.b i l) (N.b j i) (N.b j k) (N.b j l)
          (N.b k i) (N.b k j) (N.b k l) (N.b l i) (N.b l j) (N.b l k) (m 3) (m 4) (m 5) = .ok U2
      ∧ routeM3 (N.T i) (N.T j) (N.T k) (N.T l) (N.b i j) (N.b i k) (N.b i l) (N.b j i) (N.b j k) (N.b j l)
          (N.b k i) (N.b k j) (N.b k l) (N.b l i) (N.b l j) (N.b l k) (m 6) (m 7) (m 8) = .ok U3
      ∧ routeM4 (N.T i) (N.T j) (N.T k) (N.T l) (N.b i j) (N.b i k) (N.b i l) (N.b j i) (N.b j k) (N.b j l)
          (N.b k i) (N.b k j) (N.b k l) (N.b l i) (N.b l j) (N.b l k) (m 9) (m 10) (m 11) = .ok U4
      ∧ routeM5 (N.T i) (N.T j) (N.T k) (N.T l) (N.b i j) (N.b i k) (N.b i l) (N.b j i) (N.b j k) (N.b j l)
          (N.b k i) (N.b k j) (N.b k l) (N.b l i) (N.b l j) (N.b l k) (m 12) (m 13) (m 14) = .ok U5
      ∧ RefM N U1 ∧ RefM N U2 ∧ RefM N U3 ∧ RefM N U4 ∧ RefM N U5 := by
  obtain ⟨T0, T, U1, U2, U3, U4, U5, e0, e, v, fT, t, b1, b2, b3, b4, b5, z1, z2, z3, z4, z5⟩ :=
    net4_every_route_modes hmul hz1 hz2 N hN i j k l hn m
  have hR : Ref N T := ⟨T0, e0, v, fT, t⟩
  exact ⟨U1, U2, U3, U4, U5, b1, b2, b3, b4, b5, ⟨T, hR, z1⟩, ⟨T, hR, z2⟩, ⟨T, hR, z3⟩, ⟨T, hR, z4⟩,
    ⟨T, hR, z5⟩⟩

/-- **net4_routes_agree_modes.**  The results `U`, `U'` of ANY two routes of the same network
    (orderings, bracketings, a mode per call) are zero-padded copies of arrays `T`, `T'` that agree
    after fermionic transposes to the reference leg order; `U`, `U'` have the same labels, charge and
    rank. -/
theorem net4_routes_agree_modes [AddCommMonoid R] [Mul R] [Neg R] [SignRing R] (N : Net4 R)
    (U U' : Arr R) (h : RefM N U) (h' : RefM N U') :
    ∃ T T' P P', ZeroPad U T ∧ ZeroPad U' T'
      ∧ Arr.isPerm P T.ndim = true ∧ Arr.isPerm P' T'.ndim = true
      ∧ Eqv (T.transposeF P) (T'.transposeF P')
      ∧ (T.transposeF P).toDenseF = (T'.transposeF P').toDenseF
      ∧ permuted T.indices P = permuted T'.indices P'
      ∧ U.oddpos = U'.oddpos ∧ U.charge = U'.charge ∧ U.ndim = U'.ndim := by
  obtain ⟨T, hT, z⟩ := h
  obtain ⟨T', hT', z'⟩ := h'
  obtain ⟨P, P', hP, hP', hE, hD, ho, hc, hi⟩ := net4_routes_agree N T T' hT hT'
  refine ⟨T, T', P, P', z, z', hP, hP', hE, hD, hi, by rw [z.oddpos, z'.oddpos, ho],
    by rw [z.charge, z'.charge, hc], ?_⟩
  rw [z.ndim, z'.ndim]
  have := congrArg List.length hi
  obtain ⟨T0, _, v, f, _⟩ := hT
  obtain ⟨T0', _, v', f', _⟩ := hT'
  rw [permuted_length_perm _ _ (KoszulP.perm_of_isPerm hP),
    permuted_length_perm _ _ (KoszulP.perm_of_isPerm hP')] at this
  exact this

/-! ## operand-order flags AND modes -/

theorem callSM_def [Zero R] [Add R] [Mul R] [Neg R] (m : TdotMode) (X Y : Arr R) (xa xb : List Nat) :
    callSM m false X Y xa xb = tdM m X Y xa xb
    ∧ callSM m true X Y xa xb = (tdM m Y X xb xa).map (fun z =>
        z.transposeF (rotB (freeAxes Y.ndim xb).length (freeAxes X.ndim xa).length))
    ∧ (∀ sw, callSM .blockwise sw X Y xa xb = callS sw X Y xa xb) :=
  ⟨rfl, rfl, fun sw => callSM_blockwise sw X Y xa xb⟩

section routesSM
variable [Zero R] [Add R] [Mul R] [Neg R]
variable (A B C D : Arr R) (ab ac ad ba bc bd ca cb cd da db dc : List Nat)

/-- the five routes with a flag and a mode per call -/
theorem routeSM_defs (f1 f2 f3 : Bool) (m1 m2 m3 : TdotMode) :
    routeSM1 A B C D ab ac ad ba bc bd ca cb cd da db dc f1 f2 f3 m1 m2 m3
      = ((callSM m1 f1 A B ab ba).bind fun AB =>
        (callSM m2 f2 AB C (Assoc2P.axesAB A.ndim B.ndim ab ac ba bc) (ca ++ cb)).bind fun ABC =>
        callSM m3 f3 ABC D (axesABC_D A B C ab ac ad ba bc bd ca cb cd) ((da ++ db) ++ dc))
    ∧ routeSM2 A B C D ab ac ad ba bc bd ca cb cd da db dc f1 f2 f3 m1 m2 m3
      = ((callSM m1 f1 B C bc cb).bind fun BC =>
        (callSM m2 f2 A BC (ab ++ ac) (Assoc2P.axesBC B.ndim C.ndim ba bc cb ca)).bind fun ABC =>
        callSM m3 f3 ABC D (axesABC_D A B C ab ac ad ba bc bd ca cb cd) ((da ++ db) ++ dc))
    ∧ routeSM3 A B C D ab ac ad ba bc bd ca cb cd da db dc f1 f2 f3 m1 m2 m3
      = ((callSM m1 f1 A B ab ba).bind fun AB =>
        (callSM m2 f2 C D cd dc).bind fun CD =>
        callSM m3 f3 AB CD
          (Assoc2P.axesAB A.ndim B.ndim ab ac ba bc ++ Assoc2P.axesAB A.ndim B.ndim ab ad ba bd)
          (Assoc2P.axesBC C.ndim D.ndim (ca ++ cb) cd dc (da ++ db)))
    ∧ routeSM4 A B C D ab ac ad ba bc bd ca cb cd da db dc f1 f2 f3 m1 m2 m3
      = ((callSM m1 f1 B C bc cb).bind fun BC =>
        (callSM m2 f2 BC D (Assoc2P.axesAB B.ndim C.ndim bc bd cb cd) (db ++ dc)).bind fun BCD =>
        callSM m3 f3 A BCD (ab ++ (ac ++ ad)) (axesBCD_A B C D ba bc bd ca cb cd da db dc))
    ∧ routeSM5 A B C D ab ac ad ba bc bd ca cb cd da db dc f1 f2 f3 m1 m2 m3
      = ((callSM m1 f1 C D cd dc).bind fun CD =>
        (callSM m2 f2 B CD (bc ++ bd) (Assoc2P.axesBC C.ndim D.ndim cb cd dc db)).bind fun BCD =>
        callSM m3 f3 A BCD (ab ++ (ac ++ ad)) (axesBCD_A B C D ba bc bd ca cb cd da db dc))
    ∧ routeSM1 A B C D ab ac ad ba bc bd ca cb cd da db dc false false false m1 m2 m3
      = routeM1 A B C D ab ac ad ba bc bd ca cb cd da db dc m1 m2 m3 :=
  ⟨rfl, rfl, rfl, rfl, rfl, rfl⟩

end routesSM

/-- **net4_flagged_modes.**  Hypotheses of `net4_flagged` (C04h) and of the mode theorems: every
    assignment of flags and modes to the fifteen calls. -/
theorem net4_flagged_modes [AddCommMonoid R] [Mul R] [Neg R] [SignRing R] [AssocLaws R]
    (hmul : ∀ x y : R, x * y = y * x) (hz1 : ∀ x : R, 0 * x = 0) (hz2 : ∀ x : R, x * 0 = 0)
    (A B C D : Arr R) (ab ac ad ba bc bd ca cb cd da db dc : List Nat)
    (hA : A.validB = true) (hB : B.validB = true) (hC : C.validB = true) (hD : D.validB = true)
    (hfA : A.fermi = true) (hfB : B.fermi = true) (hfC : C.fermi = true) (hfD : D.fermi = true)
    (gAB : tdotAdmissibleCommonB A B ab ba = true) (gAC : tdotAdmissibleCommonB A C ac ca = true)
    (gAD : tdotAdmissibleCommonB A D ad da = true) (gBC : tdotAdmissibleCommonB B C bc cb = true)
    (gBD : tdotAdmissibleCommonB B D bd db = true) (gCD : tdotAdmissibleCommonB C D cd dc = true)
    (hnA : (ab ++ ac ++ ad).Nodup) (hnB : (ba ++ bc ++ bd).Nodup)
    (hnC : (ca ++ cb ++ cd).Nodup) (hnD : (da ++ db ++ dc).Nodup)
    (hd : (A.oddpos ++ B.oddpos ++ C.oddpos ++ D.oddpos).Pairwise (fun x y => x.1 ≠ y.1))
    (f : Fin 15 → Bool) (m : Fin 15 → TdotMode) :
    ∃ T1 U1 U2 U3 U4 U5 : Arr R,
      route1 A B C D ab ac ad ba bc bd ca cb cd da db dc = .ok T1
      ∧ routeSM1 A B C D ab ac ad ba bc bd ca cb cd da db dc (f 0) (f 1) (f 2) (m 0) (m 1) (m 2) = .ok U1
      ∧ routeSM2 A B C D ab ac ad ba bc bd ca cb cd da db dc (f 3) (f 4) (f 5) (m 3) (m 4) (m 5) = .ok U2
      ∧ routeSM3 A B C D ab ac ad ba bc bd ca cb cd da db dc (f 6) (f 7) (f 8) (m 6) (m 7) (m 8) = .ok U3
      ∧ routeSM4 A B C D ab ac ad ba bc bd ca cb cd da db dc (f 9) (f 10) (f 11) (m 9) (m 10) (m 11)
          = .ok U4
      ∧ routeSM5 A B C D ab ac ad ba bc bd ca cb cd da db dc (f 12) (f 13) (f 14) (m 12) (m 13) (m 14)
          = .ok U5
      ∧ ZeroPad U1 T1 ∧ ZeroPad U2 T1 ∧ ZeroPad U3 T1 ∧ ZeroPad U4 T1 ∧ ZeroPad U5 T1 :=
  k4_flagged_modes hmul hz1 hz2
    ⟨AdmW.of hA hB hfA hfB gAB, AdmW.of hA hC hfA hfC gAC, AdmW.of hA hD hfA hfD gAD,
      AdmW.of hB hC hfB hfC gBC, AdmW.of hB hD hfB hfD gBD, AdmW.of hC hD hfC hfD gCD,
      hnA, hnB, hnC, hnD, hd⟩ f m

/-- **net4_every_route_flagged_modes.**  `net4_every_route` (C04h) with a mode per call: any
    ordering, any bracketing, any flags, any modes. -/
theorem net4_every_route_flagged_modes [AddCommMonoid R] [Mul R] [Neg R] [SignRing R] [AssocLaws R]
    (hmul : ∀ x y : R, x * y = y * x) (hz1 : ∀ x : R, 0 * x = 0) (hz2 : ∀ x : R, x * 0 = 0)
    (N : Net4 R) (hN : N.OK) (i j k l : Fin 4) (hn : [i, j, k, l].Nodup)
    (f : Fin 15 → Bool) (m : Fin 15 → TdotMode) :
    ∃ T0 T U1 U2 U3 U4 U5 : Arr R, N.r1 0 1 2 3 = .ok T0 ∧ N.r1 i j k l = .ok T
      ∧ T.validB = true ∧ T.fermi = true ∧ TEq T T0
      ∧ routeSM1 (N.T i) (N.T j) (N.T k) (N.T l) (N.b i j) (N.b i k) (N.b i l) (N.b j i) (N.b j k) (N.b j l)
          (N.b k i) (N.b k j) (N.b k l) (N.b l i) (N.b l j) (N.b l k) (f 0) (f 1) (f 2) (m 0) (m 1) (m 2)
          = .ok U1
      ∧ routeSM2 (N.T i) (N.T j) (N.T k) (N.T l) (N.b i j) (N.b i k) (N.b i l) (N.b j i) (N.b j k) (N.b j l)
          (N.b k i) (N.b k j) (N.b k l) (N.b l i) (N.b l j) (N.b l k) (f 3) (f 4) (f 5) (m 3) (m 4) (m 5)
          = .ok U2
      ∧ routeSM3 (N.T i) (N.T j) (N.T k) (N.T l) (N.b i j) (N.b i k) (N.b i l) (N.b j i) (N.b j k) (N.b j l)
          (N.b k i) (N.b k j) (N.b k l) (N.b l i) (N.b l j) (N.b l k) (f 6) (f 7) (f 8) (m 6) (m 7) (m 8)
          = .ok U3
      ∧ routeSM4 (N.T i) (N.T j) (N.T k) (N.T l) (N.b i j) (N.b i k) (N.b i l) (N.b j i) (N.b j k) (N.b j l)
          (N.b k i) (N.b k j) (N.b k l) (N.b l i) (N.b l j) (N.b l k) (f 9) (f 10) (f 11) (m 9) (m 10) (m 11)
          = .ok U4
      ∧ routeSM5 (N.T i) (N.T j) (N.T k) (N.T l) (N.b i j) (N.b i k) (N.b i l) (N.b j i) (N.b j k) (N.b j l)
          (N.b k i) (N.b k j) (N.b k l) (N.b l i) (N.b l j) (N.b l k) (f 12) (f 13) (f 14) (m 12) (m 13) (m 14)
          = .ok U5
      ∧ RefM N U1 ∧ RefM N U2 ∧ RefM N U3 ∧ RefM N U4 ∧ RefM N U5
      ∧ ZeroPad U1 T ∧ ZeroPad U2 T ∧ ZeroPad U3 T ∧ ZeroPad U4 T ∧ ZeroPad U5 T := by
  obtain ⟨T, T0, e, e0, v, fT, v0, t⟩ := all_orders hmul hN i j k l hn
  obtain ⟨T1, U1, U2, U3, U4, U5, r1, c1, c2, c3, c4, c5, z1, z2, z3, z4, z5⟩ :=
    k4_flagged_modes hmul hz1 hz2 (hN.k4h hn) f m
  obtain rfl : T = T1 := Except.ok.inj (e.symm.trans r1)
  have hR : Ref N T := ⟨T0, e0, v, fT, t⟩
  exact ⟨T0, T, U1, U2, U3, U4, U5, e0, e, v, fT, t, c1, c2, c3, c4, c5, ⟨T, hR, z1⟩, ⟨T, hR, z2⟩,
    ⟨T, hR, z3⟩, ⟨T, hR, z4⟩, ⟨T, hR, z5⟩, z1, z2, z3, z4, z5⟩

/-- **zero padding commutes with the fermionic transpose** -/
theorem zeroPad_transposeF [AddCommMonoid R] [Mul R] [Neg R] [SignRing R] {U T : Arr R}
    (z : ZeroPad U T) (vT : T.validB = true) (fT : T.fermi = true) (P : List Nat)
    (hP : Arr.isPerm P U.ndim = true) : ZeroPad (U.transposeF P) (T.transposeF P) :=
  zeroPad_of (padA_transposeF (padA_of_zeroPad z vT) z.valid z.fermi vT fT P hP)
    (transposeF_validB U P z.valid z.fermi hP) z.fermi (Eqv.refl _)

/-- **refM_to_reference.**  Every route result, transposed to the reference leg order, is a
    zero-padded copy of the reference contraction itself. -/
theorem refM_to_reference [AddCommMonoid R] [Mul R] [Neg R] [SignRing R] (N : Net4 R) (U : Arr R)
    (h : RefM N U) :
    ∃ T0 P, N.r1 0 1 2 3 = .ok T0 ∧ Arr.isPerm P U.ndim = true ∧ ZeroPad (U.transposeF P) T0 := by
  obtain ⟨T, ⟨T0, e0, v, f, t⟩, z⟩ := h
  obtain ⟨P, hP, zz⟩ := zeroPad_teq z v f t
  exact ⟨T0, P, e0, hP, zz⟩

/-- **net4_routes_agree_modes_at.**  Two results of ANY two routes (orderings, bracketings, operand
    orders, a mode per call), each brought to the reference leg order: same labels, charge, rank,
    leg directions; on every sector of the reference contraction `T0` the same block shape and the
    same values; all other blocks of either are zero. -/
theorem net4_routes_agree_modes_at [AddCommMonoid R] [Mul R] [Neg R] [SignRing R] (N : Net4 R)
    (U U' : Arr R) (h : RefM N U) (h' : RefM N U') :
    ∃ T0 P P', N.r1 0 1 2 3 = .ok T0
      ∧ Arr.isPerm P U.ndim = true ∧ Arr.isPerm P' U'.ndim = true
      ∧ ZeroPad (U.transposeF P) T0 ∧ ZeroPad (U'.transposeF P') T0
      ∧ U.oddpos = U'.oddpos ∧ U.charge = U'.charge ∧ U.ndim = U'.ndim
      ∧ (∀ i, ((U.transposeF P).indices.getD i default).dual
          = ((U'.transposeF P').indices.getD i default).dual)
      ∧ (∀ s ∈ T0.sectors, s ∈ (U.transposeF P).sectors ∧ s ∈ (U'.transposeF P').sectors
          ∧ Arr.blockShapeD (U.transposeF P).indices s = Arr.blockShapeD (U'.transposeF P').indices s
          ∧ ∀ o, inBox (Arr.blockShapeD T0.indices s) o = true →
              (U.transposeF P).elem s o = (U'.transposeF P').elem s o)
      ∧ (∀ s, s ∉ T0.sectors →
          (∀ o, inBox (Arr.blockShapeD (U.transposeF P).indices s) o = true →
            (U.transposeF P).elem s o = 0)
          ∧ (∀ o, inBox (Arr.blockShapeD (U'.transposeF P').indices s) o = true →
            (U'.transposeF P').elem s o = 0)) := by
  obtain ⟨T0, P, e0, hP, z⟩ := refM_to_reference N U h
  obtain ⟨T0', P', e0', hP', z'⟩ := refM_to_reference N U' h'
  obtain rfl : T0 = T0' := Except.ok.inj (e0.symm.trans e0')
  have o1 : U.oddpos = T0.oddpos := z.oddpos
  have o2 : U'.oddpos = T0.oddpos := z'.oddpos
  have c1 : U.charge = T0.charge := z.charge
  have c2 : U'.charge = T0.charge := z'.charge
  obtain ⟨_, ⟨_, _, vT, fT, _⟩, zU⟩ := h
  obtain ⟨_, ⟨_, _, vT', fT', _⟩, zU'⟩ := h'
  have n1 : (U.transposeF P).ndim = U.ndim := transposeF_ndim U P zU.valid zU.fermi hP
  have n2 : (U'.transposeF P').ndim = U'.ndim := transposeF_ndim U' P' zU'.valid zU'.fermi hP'
  refine ⟨T0, P, P', e0, hP, hP', z, z', o1.trans o2.symm, c1.trans c2.symm,
    by rw [← n1, ← n2, z.ndim, z'.ndim], fun i => (z.dual i).trans (z'.dual i).symm, ?_, ?_⟩
  · intro s hs
    exact ⟨z.sub s hs, z'.sub s hs, (z.shape s hs).trans (z'.shape s hs).symm,
      fun o ho => (z.elem s hs o ho).trans (z'.elem s hs o ho).symm⟩
  · intro s hs
    exact ⟨z.zero s hs, z'.zero s hs⟩

/-! ## non-vacuity: the square `gA – cB – cC – cD – gA` of C04h -/

example : exNet.OK ∧ (∀ x y : Int, x * y = y * x) ∧ (∀ x : Int, 0 * x = 0) ∧ (∀ x : Int, x * 0 = 0) :=
  ⟨exNet_ok.1, exNet_ok.2, Int.zero_mul, Int.mul_zero⟩

/-- a mode assignment that uses all three modes -/
def exModes : Fin 15 → TdotMode := fun i =>
  if i.val % 3 == 0 then .fused else if i.val % 3 == 1 then .auto else .blockwise

open SymmModel.C03 in
/-- sanity instance on the square: the five bracketings with mixed modes give the labels, rank and
    value of the blockwise route (the stored sector sets may be larger) -/
example :
    ([routeM1 gA cB cC cD [2] [] [0] [0] [2] [] [] [0] [1] [1] [] [0] (exModes 0) (exModes 1) (exModes 2),
      routeM2 gA cB cC cD [2] [] [0] [0] [2] [] [] [0] [1] [1] [] [0] (exModes 3) (exModes 4) (exModes 5),
      routeM3 gA cB cC cD [2] [] [0] [0] [2] [] [] [0] [1] [1] [] [0] (exModes 6) (exModes 7) (exModes 8),
      routeM4 gA cB cC cD [2] [] [0] [0] [2] [] [] [0] [1] [1] [] [0] (exModes 9) (exModes 10) (exModes 11),
      routeM5 gA cB cC cD [2] [] [0] [0] [2] [] [] [0] [1] [1] [] [0] (exModes 12) (exModes 13) (exModes 14),
      route1 gA cB cC cD [2] [] [0] [0] [2] [] [] [0] [1] [1] [] [0]].map
      (fun (t : Except Err (Arr Int)) => (C04.labelsOf t, (resOf t).indices.length,
        elemOf t [(0,0),(0,0)] [0,0])))
      = List.replicate 6 ([(5, true), (1, false), (3, false), (7, false)], 2, some (-140)) := by
  decide +kernel

open SymmModel.C03 in
/-- sanity instance with flags AND modes on the square (flags of C04h's `exFlags`): same labels,
    rank and value -/
example :
    ([routeSM1 gA cB cC cD [2] [] [0] [0] [2] [] [] [0] [1] [1] [] [0] (exFlags 0) (exFlags 1) (exFlags 2)
        (exModes 0) (exModes 1) (exModes 2),
      routeSM2 gA cB cC cD [2] [] [0] [0] [2] [] [] [0] [1] [1] [] [0] (exFlags 3) (exFlags 4) (exFlags 5)
        (exModes 3) (exModes 4) (exModes 5),
      routeSM3 gA cB cC cD [2] [] [0] [0] [2] [] [] [0] [1] [1] [] [0] (exFlags 6) (exFlags 7) (exFlags 8)
        (exModes 6) (exModes 7) (exModes 8),
      routeSM4 gA cB cC cD [2] [] [0] [0] [2] [] [] [0] [1] [1] [] [0] (exFlags 9) (exFlags 10) (exFlags 11)
        (exModes 9) (exModes 10) (exModes 11),
      routeSM5 gA cB cC cD [2] [] [0] [0] [2] [] [] [0] [1] [1] [] [0] (exFlags 12) (exFlags 13) (exFlags 14)
        (exModes 12) (exModes 13) (exModes 14)].map
      (fun (t : Except Err (Arr Int)) => (C04.labelsOf t, (resOf t).indices.length,
        elemOf t [(0,0),(0,0)] [0,0])))
      = List.replicate 5 ([(5, true), (1, false), (3, false), (7, false)], 2, some (-140)) := by
  decide +kernel

/-! ## second part: several pairs at once or one after another (frame) -/

/- FULL STATEMENT (not proved): under the hypotheses below, with `lhs`/`rhs` the einsum labels that
   trace the images of `ya ~ yb` in `c` and keep the other legs in order,
   `Eqv e' c'` for `e'` = `e` with its index tables pruned to the stored sectors — i.e. also
   `e.elem s o = c'.elem s o` on every block of `c'`.  Missing: the value part (sum over the
   traced offsets of the graded contraction over `xa ~ xb` = graded contraction over all pairs,
   with the Koszul sign of `einOrder` against the nesting signs of the extra pairs). -/
/-- **two_step_frame_partial.** -/
theorem two_step_frame_partial [AddCommMonoid R] [Mul R] [Neg R] [SignRing R]
    (a b c e c' : Arr R) (xa xb ya yb lhs rhs : List Nat)
    (ha : a.validB = true) (hb : b.validB = true) (hfa : a.fermi = true) (hfb : b.fermi = true)
    (g1 : tdotAdmissibleCommonB a b xa xb = true)
    (g2 : tdotAdmissibleCommonB a b (xa ++ ya) (xb ++ yb) = true)
    (h1 : a.tensordotF b (.pair (xa.map Int.ofNat) (xb.map Int.ofNat)) .blockwise = .ok c)
    (h2 : c.einsumF lhs rhs = .ok e)
    (h3 : a.tensordotF b (.pair ((xa ++ ya).map Int.ofNat) ((xb ++ yb).map Int.ofNat)) .blockwise
      = .ok c') :
    e.oddpos = c'.oddpos ∧ e.charge = c'.charge ∧ e.sym = c'.sym ∧ e.fermi = c'.fermi :=
  two_step_frame (AdmW.of ha hb hfa hfb g1) (AdmW.of ha hb hfa hfb g2) h1 h2 h3

open SymmModel.C03 in
/-- non-vacuity and a sanity instance of the FULL statement: `gA`, `gB` (C03) with the double bond
    `(1, 2) ~ (1, 0)`; first the pair `1 ~ 1` by `tensordotF`, then the pair `2 ~ 0` (legs 1, 2 of
    the intermediate) by `einsumF`: same labels, charge, tables and stored values as at once -/
example :
    gA.validB = true ∧ gB.validB = true ∧ gA.fermi = true ∧ gB.fermi = true
    ∧ tdotAdmissibleCommonB gA gB [1] [1] = true
    ∧ tdotAdmissibleCommonB gA gB ([1] ++ [2]) ([1] ++ [0]) = true
    ∧ (match gA.tensordotF gB (.pair [1] [1]) .blockwise, gA.tensordotF gB (.pair [1, 2] [1, 0]) .blockwise with
       | .ok c, .ok c' =>
         (match c.einsumF [0, 1, 1, 2] [0, 2] with
          | .ok e => e.oddpos == c'.oddpos && e.charge == c'.charge && e.indices == c'.indices
              && e.phaseSync.blocks.map (fun p => (p.1, p.2.data))
                  == c'.phaseSync.blocks.map (fun p => (p.1, p.2.data))
              && c'.blocks.length == 2
          | .error _ => false)
       | _, _ => false) = true := by
  decide +kernel

/-! ## third part: the label check of the doubled network, up to four labels per tensor -/

theorem allPats4_def :
    allPats4 = (List.range 5).flatMap (fun a => (List.range 5).flatMap (fun b => pats a b))
    ∧ (∀ a b, pats a b = (subsetsOf ((List.range (a + b)).map Int.ofNat) a).map (fun ca =>
        (ca, ((List.range (a + b)).map Int.ofNat).filter (fun x => !ca.contains x)))) :=
  ⟨rfl, fun _ _ => rfl⟩

/-- **netLabelsB_pattern4.**  `G` strictly increasing, `(ca, cb)` an interleaving pattern with at
    most four ranks per side: `netLabelsB` holds for the ket lists `G[ca]`, `G[cb]`. -/
theorem netLabelsB_pattern4 (G : List Int) (hG : G.Pairwise (· < ·)) (ca cb : List Int)
    (hp : (ca, cb) ∈ allPats4) (hl : G.length = ca.length + cb.length) (pA pB : Bool) :
    NormNet.netLabelsB pA pB ((ket ca).map (relab (fun i => G.getD i.toNat 0)))
      ((ket cb).map (relab (fun i => G.getD i.toNat 0))) = true :=
  Assoc5P.netLabelsB_pattern4 G hG ca cb hp hl pA pB

/-- **labelRoutes_pattern4.**  Hence the merge of the two ket lists succeeds and the four
    `LabelRoutes` conditions of the doubled network hold. -/
theorem labelRoutes_pattern4 (G : List Int) (hG : G.Pairwise (· < ·)) (ca cb : List Int)
    (hp : (ca, cb) ∈ allPats4) (hl : G.length = ca.length + cb.length) (pA pB : Bool)
    (oA oB : List (Int × Bool))
    (hA : oA = (ket ca).map (relab (fun i => G.getD i.toNat 0)))
    (hB : oB = (ket cb).map (relab (fun i => G.getD i.toNat 0))) :
    ∃ out ph, OddposP.mergeOddpos pA oA oB = .ok (out, ph)
      ∧ Assoc2P.LabelRoutes (xor pA pB) pA out (Arr.oddposDag oA) (Arr.oddposDag oB)
      ∧ Assoc2P.LabelRoutes pA pB oA oB (Arr.oddposDag out)
      ∧ Assoc2P.LabelRoutes pA pB (Arr.oddposDag oA) (Arr.oddposDag oB) out
      ∧ Assoc2P.LabelRoutes (xor pA pB) pA (Arr.oddposDag out) oA oB := by
  have h := Assoc5P.netLabelsB_pattern4 G hG ca cb hp hl pA pB
  rw [← hA, ← hB] at h
  cases hm : OddposP.mergeOddpos pA oA oB with
  | error e =>
    unfold NormNet.netLabelsB at h
    rw [hm] at h
    cases h
  | ok r =>
    obtain ⟨out, ph⟩ := r
    exact ⟨out, ph, rfl, NormNet.netLabelsB_spec hm h⟩

/-- **netLabelsB_four.**  All sorted ket lists with at most four labels each and pairwise-distinct
    labels (C04g's `netLabelsB_two` with 4 in place of 2). -/
theorem netLabelsB_four (oA oB : List (Int × Bool)) (hA : NormNet.KetLabels oA)
    (hB : NormNet.KetLabels oB) (lA : oA.length ≤ 4) (lB : oB.length ≤ 4)
    (hd : (oA ++ oB).Pairwise (fun x y => x.1 ≠ y.1)) (pA pB : Bool) :
    NormNet.netLabelsB pA pB oA oB = true :=
  Assoc5P.netLabelsB_four oA oB hA hB lA lB hd pA pB

/-- **labelRoutes_four.**  Hence the merge succeeds and the four `LabelRoutes` conditions of the
    doubled network hold (`K = a·b` with labels `out`; triples `(K, ā, b̄)`, `(a, b, K̄)`,
    `(ā, b̄, K)`, `(K̄, a, b)`). -/
theorem labelRoutes_four (oA oB : List (Int × Bool)) (hA : NormNet.KetLabels oA)
    (hB : NormNet.KetLabels oB) (lA : oA.length ≤ 4) (lB : oB.length ≤ 4)
    (hd : (oA ++ oB).Pairwise (fun x y => x.1 ≠ y.1)) (pA pB : Bool) :
    ∃ out ph, OddposP.mergeOddpos pA oA oB = .ok (out, ph)
      ∧ Assoc2P.LabelRoutes (xor pA pB) pA out (Arr.oddposDag oA) (Arr.oddposDag oB)
      ∧ Assoc2P.LabelRoutes pA pB oA oB (Arr.oddposDag out)
      ∧ Assoc2P.LabelRoutes pA pB (Arr.oddposDag oA) (Arr.oddposDag oB) out
      ∧ Assoc2P.LabelRoutes (xor pA pB) pA (Arr.oddposDag out) oA oB := by
  have h := Assoc5P.netLabelsB_four oA oB hA hB lA lB hd pA pB
  cases hm : OddposP.mergeOddpos pA oA oB with
  | error e =>
    unfold NormNet.netLabelsB at h
    rw [hm] at h
    cases h
  | ok r =>
    obtain ⟨out, ph⟩ := r
    exact ⟨out, ph, rfl, NormNet.netLabelsB_spec hm h⟩

/-- non-vacuity: three and four labels, interleaved -/
example : NormNet.KetLabels [((4 : Int), false), (9, false), (31, false)]
    ∧ NormNet.KetLabels [((6 : Int), false), (11, false), (20, false), (40, false)]
    ∧ ([((4 : Int), false), (9, false), (31, false)]
        ++ [(6, false), (11, false), (20, false), (40, false)]).Pairwise
        (fun (x y : Int × Bool) => x.1 ≠ y.1) := by
  refine ⟨⟨by decide, by decide⟩, ⟨by decide, by decide⟩, by decide⟩

/-- non-vacuity: three labels per tensor, interleaved `a < b < a < b < b < a` -/
example : ([4, 6, 9, 11, 20, 31] : List Int).Pairwise (· < ·) ∧ ([0, 2, 5], [1, 3, 4]) ∈ allPats4
    ∧ ([4, 6, 9, 11, 20, 31] : List Int).length = [(0 : Int), 2, 5].length + [(1 : Int), 3, 4].length
    ∧ (ket [0, 2, 5]).map (relab (fun i => ([4, 6, 9, 11, 20, 31] : List Int).getD i.toNat 0))
        = [(4, false), (9, false), (31, false)]
    ∧ (ket [1, 3, 4]).map (relab (fun i => ([4, 6, 9, 11, 20, 31] : List Int).getD i.toNat 0))
        = [(6, false), (11, false), (20, false)] := by
  refine ⟨by decide, by decide +kernel, rfl, by decide +kernel, by decide +kernel⟩

end SymmModel.C04
