/- Property C06 — umbrella incl. C06g (first clause for fermionic operands: fusing the contracted legs first, any positions, any mode). -/
import SymmModel.Props.C06All5
import SymmModel.Props.C06g
