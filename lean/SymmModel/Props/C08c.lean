/-
  Property C08, third part — `expand_dims` with an explicit charge, the elementwise functions and
  the order-type reductions of ARRAYS versus the dense array, trace.
  (Parts one and two: Props/C08.lean, Props/C08b.lean; umbrella of all three: Props/C08All2.lean.)

  Same conventions: abelian arrays (`phases = []`), every rank / symmetry / sparsity pattern,
  arbitrary scalar type `R`; scalar laws are explicit hypotheses.

  Vocabulary (Proofs/Dense3a.lean, Proofs/Dense3b.lean; namespace `SymmModel.Dense3`):
    `expandCharge a c`        the charge `expand_dims(axis, c)` inserts (`c`, identity for `None`)
    `expandNewCharge a axis c dual`   the total charge of the result
    `mapA f a`                `_do_unary_op(fn)` (block_core.py): `f` on every STORED block
                              (`abs sqrt log log2 log10 isfinite clip`)
    `reduceA op a`            `_do_reduction(fn)` = `fn(stack(map(fn, blocks)))` for a reduction
                              folding `op` (`max min all any`); `none` where numpy raises
    `reduce1 op l`            the same reduction of a flat list (`none` on the empty list)
    `StoredEntry a x`         `x` is an entry of a stored block
    `HasMissing a`            some position of the dense box lies in a sector that is not stored
    `FullyStored a`           the contrary
    `SemiLat op`              `op` associative, commutative, idempotent
    `IsLub op S r`            `r` is the least upper bound of `S` for `x ≤ y :⇔ op x y = y`

  `mapA`, `reduceA` are NOT driver operations (the driver executes "neg", "smul", "sum", "norm2"
  only); they are specification-level definitions written as symmray/block_core.py performs
  them, like `mapV`/`reduceV` of part two.  What the real code returns on the inputs of the
  counterexamples below is recorded in the agent's report (it agrees with these definitions).
-/
import SymmModel.Proofs.Dense3a
import SymmModel.Proofs.Dense3b
import SymmModel.Props.C08All
import SymmModel.Props.C01
import SymmModel.Props.C02b
import SymmModel.Proofs.Dense3d
import SymmModel.Props.C07b

namespace SymmModel.C08
open SymmModel Arr DenseP Dense3 ReshapeP FuseP

variable {R : Type}

/-! ## 1. `expand_dims(axis, c, dual)` with an explicit charge -/

/-- the result: the new index carries exactly the charge `c` with size one and the direction
    `expandDual` (given, or inherited from the left / right neighbour); the total charge becomes
    `combine(charge, sign(c, dual))` (abelian_core.py `expand_dims`); class data unchanged -/
theorem expandDims_charge_indices (a : Arr R) (axis : Nat) (c : Charge) (dual : Option Bool) :
    (a.expandDims axis (some c) dual).indices
        = ins axis (Index.mk [(c, 1)] (expandDual a axis dual) none) a.indices
    ∧ (a.expandDims axis (some c) dual).charge
        = a.sym.combine [a.charge, a.sym.sign c (expandDual a axis dual)]
    ∧ (a.expandDims axis (some c) dual).sym = a.sym
    ∧ (a.expandDims axis (some c) dual).fermi = a.fermi
    ∧ (a.expandDims axis (some c) dual).oddpos = a.oddpos :=
  let h := expandDims_fields a axis (some c) dual
  ⟨h.1, h.2.1, h.2.2.1, h.2.2.2.1, h.2.2.2.2.1⟩

/-- the stored sectors get `c` inserted at `axis` (for full-length distinct keys: same number of
    blocks, no collisions) -/
theorem expandDims_charge_sectors (a : Arr R) (axis : Nat) (c : Charge) (dual : Option Bool)
    (ha : axis ≤ a.ndim) (hnd : a.sectors.Nodup) (hlen : ∀ t ∈ a.sectors, t.length = a.ndim) :
    (a.expandDims axis (some c) dual).sectors = a.sectors.map (ins axis c) := by
  have hbl := (expandDims_fields a axis (some c) dual).2.2.2.2.2.1
  have hkeys : ((a.blocks.map (fun (sb : Sector × Blk R) =>
      (ins axis c sb.1, sb.2.expandK axis))).map (·.1)).Nodup := by
    rw [List.map_map]
    have : ((fun x : Sector × Blk R => x.1) ∘ fun sb : Sector × Blk R =>
        (ins axis c sb.1, sb.2.expandK axis)) = (fun t => ins axis c t) ∘ (·.1) := rfl
    rw [this, ← List.map_map]
    refine List.Nodup.map_on (fun x hx y hy hxy => ?_) hnd
    exact ins_inj (by rw [hlen x hx]; exact ha) (by rw [hlen x hx, hlen y hy]) hxy
  rw [Arr.sectors, hbl]
  show ((adict (a.blocks.map (fun (sb : Sector × Blk R) =>
      (ins axis c sb.1, sb.2.expandK axis)))).map (·.1)) = _
  rw [adict_of_nodup _ hkeys, List.map_map, Arr.sectors, List.map_map]
  rfl

/-- **value view**: inserting `c` into a sector and offset 0 into the offsets gives an address of
    the result holding the same value -/
theorem expandDims_charge_elem [Zero R] [Neg R] (a : Arr R) (axis : Nat) (c : Charge)
    (dual : Option Bool) (ha : axis ≤ a.ndim) (hab : a.phases = []) (hnd : a.sectors.Nodup)
    (hlen : ∀ t ∈ a.sectors, t.length = a.ndim)
    (hshape : ∀ t b, alookup a.blocks t = some b → b.shape.length = a.ndim)
    (s : Sector) (hs : s.length = a.ndim) (off : List Nat) (ho : off.length = a.ndim) :
    (a.expandDims axis (some c) dual).elem (ins axis c s) (ins axis 0 off) = a.elem s off :=
  expandDims_elem_any a axis (some c) dual ha hab hnd hlen hshape s hs off ho

/-- **dense form**: the dense array of the result is the dense array of the input with a size-one
    axis inserted — the same for every `c` (and the same as for `c = None`) -/
theorem expandDims_charge_toDense [Zero R] [Neg R] (a : Arr R) (axis : Nat) (c : Charge)
    (dual : Option Bool) (ha : axis ≤ a.ndim) (hab : a.phases = []) (hsh : ShapesOk a)
    (hnd : a.sectors.Nodup) (hlen : ∀ t ∈ a.sectors, t.length = a.ndim) (hne : NoEmpty a) :
    ∃ d d', toDenseA a = .ok d ∧ toDenseA (a.expandDims axis (some c) dual) = .ok d'
      ∧ d.shape = a.shape ∧ d'.shape = ins axis 1 a.shape
      ∧ (∀ p, inBox a.shape p = true → d'.get (ins axis 0 p) = d.get p)
      ∧ ∀ q, inBox d'.shape q = true → ∃ p, inBox a.shape p = true ∧ q = ins axis 0 p := by
  obtain ⟨d, d', h1, h2, h3, h4, h5⟩ :=
    expandDims_toDense_any a axis (some c) dual ha hab hsh hnd hlen hne
  refine ⟨d, d', h1, h2, h3, h4, h5, fun q hq => ?_⟩
  rw [h4] at hq
  exact inBox_ins_surj axis (by simpa [Arr.shape, Arr.ndim] using ha) hq

/-- the dense forms for two different inserted charges (or none) are the same array -/
theorem expandDims_toDense_indep [Zero R] [Neg R] (a : Arr R) (axis : Nat) (c c' : Option Charge)
    (dual : Option Bool) (ha : axis ≤ a.ndim) (hab : a.phases = []) (hsh : ShapesOk a)
    (hnd : a.sectors.Nodup) (hlen : ∀ t ∈ a.sectors, t.length = a.ndim) (hne : NoEmpty a) :
    ∃ d1 d2, toDenseA (a.expandDims axis c dual) = .ok d1
      ∧ toDenseA (a.expandDims axis c' dual) = .ok d2 ∧ d1.shape = d2.shape
      ∧ ∀ q, inBox d1.shape q = true → d1.get q = d2.get q := by
  obtain ⟨d, d1, h0, h1, _, s1, g1⟩ := expandDims_toDense_any a axis c dual ha hab hsh hnd hlen hne
  obtain ⟨d0, d2, h0', h2, _, s2, g2⟩ := expandDims_toDense_any a axis c' dual ha hab hsh hnd hlen hne
  rw [h0] at h0'; injection h0' with h0'; subst h0'
  refine ⟨d1, d2, h1, h2, by rw [s1, s2], fun q hq => ?_⟩
  rw [s1] at hq
  obtain ⟨p, hp, rfl⟩ := inBox_ins_surj axis (by simpa [Arr.shape, Arr.ndim] using ha) hq
  rw [g1 p hp, g2 p hp]

/-- **validity**: for a valid array the result is valid exactly under the guard of
    `C01.expandDims_some_valid` — `c` a charge of the symmetry and, for a fermionic array, even.
    (The "if" direction IS `C01.expandDims_some_valid`; the failing fermionic case is the known
    finding "expand-dims-odd-charge".) -/
theorem expandDims_charge_valid_iff (a : Arr R) (axis : Nat) (c : Charge) (dual : Option Bool)
    (hv : a.validB = true) :
    (a.expandDims axis (some c) dual).validB = true
      ↔ (a.sym.valid c = true ∧ (a.fermi = false ∨ a.sym.parity c = false)) :=
  expandDims_some_valid_iff a axis c dual hv

theorem expandDims_charge_valid (a : Arr R) (axis : Nat) (c : Charge) (dual : Option Bool)
    (hv : a.validB = true) (hc : a.sym.valid c = true) (hab : a.fermi = false) :
    (a.expandDims axis (some c) dual).validB = true :=
  C01.expandDims_some_valid a axis c dual hv hc (Or.inl hab)

/-! ## 2. elementwise functions of arrays (`abs sqrt log log2 log10 isfinite clip`) -/

/-- value view of `mapA f a` at an address inside the box of a stored block, or of a sector that
    is not stored: mapped in the first case, still `0` in the second — for EVERY `f` -/
theorem mapA_elem_exact [Zero R] [Neg R] (f : R → R) (a : Arr R) (hab : a.phases = [])
    (s : Sector) (off : List Nat)
    (hoff : ∀ b, alookup a.blocks s = some b → b.wf = true ∧ inBox b.shape off = true) :
    (mapA f a).elem s off = if s ∈ a.sectors then f (a.elem s off) else 0 :=
  Dense3.mapA_elem_exact f a hab s off hoff

/-- **exact dense form** of an elementwise function, for every `f` -/
theorem mapA_toDense_exact [Zero R] [Neg R] (f : R → R) (a : Arr R) (hab : a.phases = [])
    (hne : NoEmpty a) (hsh : ShapesOk a) (hwf : ∀ p ∈ a.blocks, p.2.wf = true) :
    ∃ d d', toDenseA a = .ok d ∧ toDenseA (mapA f a) = .ok d' ∧ d.shape = a.shape
      ∧ d'.shape = a.shape
      ∧ ∀ p, inBox a.shape p = true → ∃ sec off, locateAll a.indices p = some (sec, off)
          ∧ d.get p = a.elem sec off
          ∧ d'.get p = if sec ∈ a.sectors then f (d.get p) else 0 :=
  mapA_toDense_exact_main f a hab hne hsh hwf

/-- an elementwise function with `f 0 = 0` (`abs`, `sqrt`, `conj`, `x * s`, …) commutes with
    densification (no shape hypotheses needed) -/
theorem mapA_toDense [Zero R] [Neg R] (f : R → R) (h0 : f 0 = 0) (a : Arr R)
    (hab : a.phases = []) (hne : NoEmpty a) :
    ∃ d d', toDenseA a = .ok d ∧ toDenseA (mapA f a) = .ok d' ∧ d.shape = a.shape
      ∧ d'.shape = a.shape ∧ ∀ p, inBox a.shape p = true → d'.get p = f (d.get p) :=
  mapA_toDense_main f h0 a hab hne

/-- **the exact condition**: `mapA f` commutes with densification iff `f 0 = 0` or every position
    of the dense box lies in a stored sector -/
theorem mapA_toDense_iff [Zero R] [Neg R] (f : R → R) (a : Arr R) (hab : a.phases = [])
    (hne : NoEmpty a) (hsh : ShapesOk a) (hwf : ∀ p ∈ a.blocks, p.2.wf = true) (d d' : Blk R)
    (hd : toDenseA a = .ok d) (hd' : toDenseA (mapA f a) = .ok d') :
    (∀ p, inBox a.shape p = true → d'.get p = f (d.get p)) ↔ (f 0 = 0 ∨ FullyStored a) :=
  mapA_toDense_iff_main f a hab hne hsh hwf d d' hd hd'

/-- the driver's "neg"/"smul"/"sdiv"/"conj" are instances of `mapA` -/
theorem negA_eq_mapA [Neg R] (a : Arr R) : negA a = mapA (fun x => -x) a := rfl
theorem smulA_eq_mapA [Mul R] (a : Arr R) (k : R) : smulA a k = mapA (· * k) a := rfl
theorem sdivA_eq_mapA [Div R] (a : Arr R) (k : R) : sdivA a k = mapA (· / k) a := rfl

/-! ## 3. order-type reductions of arrays (`max min all any`) -/

/-- the entries of the dense array: the stored entries, and `0` iff some position lies in a
    sector that is not stored -/
theorem toDense_entries [Zero R] [Neg R] (a : Arr R) (hab : a.phases = []) (hne : NoEmpty a)
    (hsh : ShapesOk a) (hnd : a.sectors.Nodup) (hwf : ∀ p ∈ a.blocks, p.2.wf = true)
    (d : Blk R) (hd : toDenseA a = .ok d) (x : R) :
    x ∈ d.data.toList ↔ (StoredEntry a x ∨ (x = 0 ∧ HasMissing a)) :=
  mem_toDense_data a hab hne hsh hnd hwf d hd x

/-- every stored address is the address of a position of the dense box -/
theorem locateAll_onto (indices : List Index) (hnd : ∀ ix ∈ indices, (ix.cm.map (·.1)).Nodup)
    (s : Sector) (shp off : List Nat) (hs : blockShape? indices s = some shp)
    (ho : inBox shp off = true) :
    ∃ p, inBox (indices.map Index.sizeTotal) p = true ∧ locateAll indices p = some (s, off) :=
  locateAll_surj hnd hs ho

/-- `_do_reduction` returns the least upper bound of the STORED entries; it is defined when there
    is a block and no block is empty -/
theorem reduceA_spec (op : R → R → R) (hop : SemiLat op) (a : Arr R) :
    (∀ r, reduceA op a = some r → IsLub op (StoredEntry a) r)
    ∧ (a.blocks ≠ [] → (∀ sb ∈ a.blocks, sb.2.data.toList ≠ []) → ∃ r, reduceA op a = some r) :=
  ⟨fun _ h => reduceA_isLub hop a h, reduceA_isSome op a⟩

/-- least upper bounds are unique, so `reduceA_spec` determines the value -/
theorem isLub_unique (op : R → R → R) (hop : SemiLat op) (S : R → Prop) (r1 r2 : R)
    (h1 : IsLub op S r1) (h2 : IsLub op S r2) : r1 = r2 := h1.unique hop h2

/-- **reductions versus the dense array**: the same reduction of the dense array equals the block
    reduction `r` when every position is stored, and `op r 0` when some position lies in a
    missing sector — e.g. `max(dense) = max(r, 0)`, `min(dense) = min(r, 0)`, `all(dense) = False` -/
theorem reduce_toDense [Zero R] [Neg R] (op : R → R → R) (hop : SemiLat op) (a : Arr R)
    (hab : a.phases = []) (hne : NoEmpty a) (hsh : ShapesOk a) (hnd : a.sectors.Nodup)
    (hwf : ∀ p ∈ a.blocks, p.2.wf = true) (d : Blk R) (hd : toDenseA a = .ok d) (r r' : R)
    (hr : reduceA op a = some r) (hr' : reduce1 op d.data.toList = some r') :
    (HasMissing a → r' = op r 0) ∧ (¬ HasMissing a → r' = r) :=
  reduce_toDense_main hop a hab hne hsh hnd hwf d hd r r' hr hr'

/-- in particular they agree whenever `0` is below the block reduction (`op 0 r = r`), e.g. `max`
    of an array with a non-negative stored entry, `any` -/
theorem reduce_toDense_of_zero_le [Zero R] [Neg R] (op : R → R → R) (hop : SemiLat op) (a : Arr R)
    (hab : a.phases = []) (hne : NoEmpty a) (hsh : ShapesOk a) (hnd : a.sectors.Nodup)
    (hwf : ∀ p ∈ a.blocks, p.2.wf = true) (d : Blk R) (hd : toDenseA a = .ok d) (r r' : R)
    (hr : reduceA op a = some r) (hr' : reduce1 op d.data.toList = some r')
    (h0 : op 0 r = r) : r' = r := by
  classical
  obtain ⟨h1, h2⟩ := reduce_toDense op hop a hab hne hsh hnd hwf d hd r r' hr hr'
  by_cases hm : HasMissing a
  · rw [h1 hm, hop.comm, h0]
  · exact h2 hm

theorem hasMissing_iff (a : Arr R) : HasMissing a ↔ ¬ FullyStored a := hasMissing_iff_not_full a

/-! ## 4. trace (connection to C02) -/

/-- `a.trace() = np.trace(a.to_dense())` for a valid abelian matrix whose two indices have the
    same charge table (C02.traceA_toDense, restated with this property's vocabulary) -/
theorem trace_toDense [AddCommMonoid R] [Neg R] (a : Arr R) (ix0 ix1 : Index)
    (hidx : a.indices = [ix0, ix1]) (hcm : Index.sortCm ix0.cm = Index.sortCm ix1.cm)
    (hv : a.validB = true) (hfa : a.fermi = false) (hne : NoEmpty a) :
    ∃ d, toDenseA a = .ok d ∧ traceA a = .ok d.traceK :=
  C02.traceA_toDense a ix0 ix1 hidx hcm hv hfa hne

/-! ## 5. fuse, unfuse, reshape

FULL statement wanted for `fuse` (not proved): the dense form of the fused array is the dense form
of the original, transposed by `perm`, with each group of axes reshaped row-major into one axis and
that axis permuted by the fused index's sorted tables; i.e. ADDITIONALLY to `fuse_toDense_partial`:
every position `P` of the fused dense box that is not the image of a stored position holds `0`.
What is proved: (a) `fuse_toDense_partial` — every position `p` of a stored sector of the original
is sent to a position `P` of the fused dense array holding the same entry, where `P`'s address
`(ns, i)` is tied to `p`'s address `(s, offs)` by the fused indices' own tables (`splitAddr`),
exactly as in `C05.fuse_elem_onto`; (b) `fuse_toDense_content` — the two dense arrays have the same
additive statistics `Σ g(entry)` for every `g` with `g 0 = 0`, i.e. the same multiset of non-zero
entries.  (a) + (b) + injectivity of `p ↦ P` (not formalised) give the full statement.  Missing
for a direct proof: that every address of the fused tables (also of a sector the fused array does
not store) splits into an address of the original tables. -/

/-- (a) the stored part of the dense form of a fused array -/
theorem fuse_toDense_partial [Zero R] [Neg R] (a : Arr R) (groups : List (List Nat))
    (hv : a.validB = true) (hg : C05.groupsOkB groups a.ndim = true) (hnf : a.fermi = false)
    (hne : NoEmpty a) (x : Arr R) (hx : fuseCore a groups .insert = .ok x) (hnex : NoEmpty x) :
    let gi := calcFuseGroupInfo groups a.duals
    ∃ dA dX, toDenseA a = .ok dA ∧ toDenseA x = .ok dX ∧ dA.shape = a.shape
      ∧ dX.shape = x.shape ∧
      ∀ p, inBox a.shape p = true → ∀ s offs, locateAll a.indices p = some (s, offs) →
        s ∈ a.sectors →
        ∃ P ns i, inBox x.shape P = true ∧ locateAll x.indices P = some (ns, i)
          ∧ ns ∈ x.sectors
          ∧ (∀ g gaxes, groups[g]? = some gaxes → gaxes.length ≠ 1 →
              splitAddr (x.indices.getD (gi.position + g) default) (ns.getD (gi.position + g) (0, 0))
                (i.getD (gi.position + g) 0)
                = some (gaxes.map (fun ax => s.getD ax (0, 0)), gaxes.map (fun ax => offs.getD ax 0)))
          ∧ (∀ g gaxes, groups[g]? = some gaxes → gaxes.length = 1 →
              [ns.getD (gi.position + g) (0, 0)] = gaxes.map (fun ax => s.getD ax (0, 0))
              ∧ [i.getD (gi.position + g) 0] = gaxes.map (fun ax => offs.getD ax 0))
          ∧ permuted s gi.perm = ns.take gi.position
              ++ (groups.map (fun gaxes => gaxes.map (fun ax => s.getD ax (0, 0)))).flatten
              ++ ns.drop (gi.position + groups.length)
          ∧ permuted offs gi.perm = i.take gi.position
              ++ (groups.map (fun gaxes => gaxes.map (fun ax => offs.getD ax 0))).flatten
              ++ i.drop (gi.position + groups.length)
          ∧ dX.get P = dA.get p :=
  fuse_dense_stored_main a groups hv hg hnf hne x hx hnex

/-- **content bridge**: two valid abelian arrays with the same stored content (C07 `SameContent`:
    all additive statistics of the stored entries agree) have dense forms with the same additive
    statistics — the same multiset of non-zero dense entries -/
theorem toDense_sameContent [Zero R] [Neg R] (a b : Arr R) (hc : SameContent a b)
    (hva : a.validB = true) (hvb : b.validB = true) (hfa : a.fermi = false) (hfb : b.fermi = false)
    (hna : NoEmpty a) (hnb : NoEmpty b) (da db : Blk R) (hda : toDenseA a = .ok da)
    (hdb : toDenseA b = .ok db) (M : Type) [AddCommMonoid M] (g : R → M) (h0 : g 0 = 0) :
    (da.data.toList.map g).sum = (db.data.toList.map g).sum := by
  obtain ⟨a1, a2, _, _, _, a6⟩ := validB_facts a hva
  obtain ⟨b1, b2, _, _, _, b6⟩ := validB_facts b hvb
  rw [sum_map_toDense g h0 a hna a1 a2 (validB_wf hva)
      (fun s blk off hb => by rw [elem_abelian a (a6 hfa), hb]) da hda,
    sum_map_toDense g h0 b hnb b1 b2 (validB_wf hvb)
      (fun s blk off hb => by rw [elem_abelian b (b6 hfb), hb]) db hdb]
  exact hc M g h0

/-- (b) fusing keeps the multiset of non-zero dense entries -/
theorem fuse_toDense_content [Zero R] [Neg R] (a x : Arr R) (groups : List (List Nat))
    (hv : a.validB = true) (hf : a.fermi = false) (hg : C05.groupsOkB groups a.ndim = true)
    (hx : fuseCore a groups .insert = .ok x) (hna : NoEmpty a) (hnx : NoEmpty x)
    (da dx : Blk R) (hda : toDenseA a = .ok da) (hdx : toDenseA x = .ok dx)
    (M : Type) [AddCommMonoid M] (g : R → M) (h0 : g 0 = 0) :
    (da.data.toList.map g).sum = (dx.data.toList.map g).sum := by
  have hadm : ValidP.fuseAdmissibleB groups a.ndim = true := by
    have hg' : FuseP.groupsOkB groups a.ndim = true := hg
    simp only [FuseP.groupsOkB, Bool.and_eq_true] at hg'
    simp only [ValidP.fuseAdmissibleB, Bool.and_eq_true]
    exact ⟨hg'.2, hg'.1.2⟩
  have hxv := C01.fuseCore_valid a x groups hv hf hadm hx
  have hxf : x.fermi = false := by
    have hx' := FuseP.fuseCore_multi_eq (FuseP.validArr_of_validB hv) (FuseP.groupsOk_iff.1 hg)
    rw [hx] at hx'; injection hx' with hx'; subst hx'; exact hf
  exact toDense_sameContent a x (C07.fuseCore_multiset_general a x groups hv hf hg hx) hv hxv hf hxf
    hna hnx da dx hda hdx M g h0

/-- unfusing keeps the multiset of non-zero dense entries -/
theorem unfuse_toDense_content [Zero R] [Neg R] (x y : Arr R) (axis : Nat) (hv : x.validB = true)
    (hyv : y.validB = true) (hfx : x.fermi = false) (hfy : y.fermi = false)
    (h : unfuseA x axis = .ok y) (hnx : NoEmpty x) (hny : NoEmpty y)
    (dx dy : Blk R) (hdx : toDenseA x = .ok dx) (hdy : toDenseA y = .ok dy)
    (M : Type) [AddCommMonoid M] (g : R → M) (h0 : g 0 = 0) :
    (dx.data.toList.map g).sum = (dy.data.toList.map g).sum :=
  toDense_sameContent x y (unfuseA_sameContent x y axis hv h) hv hyv hfx hfy hnx hny dx dy hdx hdy
    M g h0

/-- `reshape` (a certified plan of unfuse / fuse / expand steps, C07 `applyPlan_content`) keeps the
    multiset of non-zero dense entries -/
theorem reshape_toDense_content [Zero R] [Neg R] (a r : Arr R)
    (t : List Nat × List (List (List Nat)) × List Nat) (newshape : List Nat)
    (hv : a.validB = true) (hf : a.fermi = false) (hfr : r.fermi = false)
    (hwf : (C07.Plan.ofTriple t).wfB a.shape a.subsizes newshape = true) (h : applyPlan a t = .ok r)
    (hna : NoEmpty a) (hnr : NoEmpty r) (da dr : Blk R) (hda : toDenseA a = .ok da)
    (hdr : toDenseA r = .ok dr) (M : Type) [AddCommMonoid M] (g : R → M) (h0 : g 0 = 0) :
    (da.data.toList.map g).sum = (dr.data.toList.map g).sum := by
  obtain ⟨hc, hrv⟩ := C07.applyPlan_content a r t newshape hv hf hwf h
  exact toDense_sameContent a r hc hv hrv hf hfr hna hnr da dr hda hdr M g h0

/-! ## the hypotheses are satisfiable; counterexamples -/

section Examples3
namespace Ex3
/-- `C08.Ex.x` with only its (1,1) sector stored, all entries negative -/
def z : Arr Int :=
  { C08.Ex.x with blocks := [([(1, 0), (1, 0)], ⟨[2, 2], #[-1, -2, -3, -4]⟩)] }
def dataOf (r : Except Err (Blk Int)) : Option (List Nat × List Int) :=
  match r with | .ok b => some (b.shape, b.data.toList) | .error _ => none
def red (op : Int → Int → Int) (r : Except Err (Blk Int)) : Option Int :=
  match r with | .ok b => reduce1 op b.data.toList | .error _ => none
theorem maxLat : SemiLat (max : Int → Int → Int) := ⟨Int.max_assoc, Int.max_comm, Int.max_self⟩
theorem minLat : SemiLat (min : Int → Int → Int) := ⟨Int.min_assoc, Int.min_comm, Int.min_self⟩
end Ex3
open Ex3 C08.Ex

-- 1. expand_dims with charge 2: same dense form, charge 0 + 2 (direction inherited: not dual),
--    charge 0 − 2 for an explicitly dual new index; valid
example : Ex3.dataOf (toDenseA (x.expandDims 1 (some (2, 0)) none))
    = some ([3, 1, 3], [5, 0, 0, 0, 1, 2, 0, 3, 4]) := by decide
example : (x.expandDims 1 (some (2, 0)) none).charge = (2, 0)
    ∧ (x.expandDims 1 (some (2, 0)) (some true)).charge = (-2, 0)
    ∧ (x.expandDims 1 (some (2, 0)) none).sectors
        = [[(0, 0), (2, 0), (0, 0)], [(1, 0), (2, 0), (1, 0)]]
    ∧ (x.expandDims 1 (some (2, 0)) none).validB = true := by decide
example := expandDims_charge_toDense (R := Int) x 1 (2, 0) none (by decide) rfl
  (hypotheses_of_validB x (by decide)).1 (hypotheses_of_validB x (by decide)).2.1
  (hypotheses_of_validB x (by decide)).2.2.1 (by decide)
example := (expandDims_charge_valid_iff (R := Int) x 1 (2, 0) none (by decide)).mpr (by decide)
-- the guard fails for a charge outside the symmetry (Z2 charge 3) …
example : ¬ (({ x with sym := .Z2 } : Arr Int).expandDims 1 (some (3, 0)) none).validB = true := by
  decide
-- … and for an odd charge on a fermionic array (C01.expandDims_odd_charge_invalid)
example : ¬ (C01.exF.expandDims 1 (some (1, 0)) none).validB = true :=
  fun h => by
    have := (expandDims_charge_valid_iff C01.exF 1 (1, 0) none (by decide)).mp h
    revert this; decide

-- 2. elementwise functions.  `x` stores both its charge-conserving sectors, yet the positions of
--    the non-conserving sectors are "missing": `HasMissing x`
theorem x_hasMissing : HasMissing x :=
  ⟨[0, 1], by decide, [(0, 0), (1, 0)], [0, 0], by decide, by decide⟩

/-- **counterexample**: `t ↦ t + 1` (any `f` with `f 0 ≠ 0`: `log`, `isfinite`, `clip` to a
    positive interval, `cos`, `exp`) does NOT commute with densification: the dense form of the
    mapped array keeps `0` where the dense array mapped entrywise has `f 0` -/
theorem mapA_succ_counterexample :
    Ex3.dataOf (toDenseA (mapA (· + 1) x)) = some ([3, 3], [6, 0, 0, 0, 2, 3, 0, 4, 5])
    ∧ (Ex3.dataOf (toDenseA x)).map (fun sd => (sd.1, sd.2.map (· + 1)))
        = some ([3, 3], [6, 1, 1, 1, 2, 3, 1, 4, 5]) := by decide +kernel

example : Ex3.dataOf (toDenseA (mapA (fun t => (t.natAbs : Int)) z)) = some ([3, 3], [0, 0, 0, 0, 1, 2, 0, 3, 4]) := by
  decide +kernel
example := mapA_toDense (R := Int) (fun t => t * t) rfl x rfl (by decide)
example := mapA_toDense_exact (R := Int) (· + 1) x rfl (by decide)
  (hypotheses_of_validB x (by decide)).1 (DenseP.validB_wf (by decide))
example : ¬ ((fun t : Int => t + 1) 0 = 0 ∨ FullyStored x) := by
  rintro (h | h)
  · revert h; decide
  · exact (hasMissing_iff x).mp x_hasMissing h

-- 3. reductions.  `max` over the blocks of `z` is −1, `max` of its dense array is 0;
--    `min` over the blocks of `x` is 1, `min` of its dense array is 0
theorem max_counterexample :
    reduceA max z = some (-1) ∧ Ex3.red max (toDenseA z) = some 0
    ∧ reduceA min x = some 1 ∧ Ex3.red min (toDenseA x) = some 0 := by decide

example : z.validB = true ∧ NoEmpty z := by decide
example : HasMissing z := ⟨[0, 0], by decide, [(0, 0), (0, 0)], [0, 0], by decide, by decide⟩
example := reduce_toDense (R := Int) max Ex3.maxLat z rfl (by decide)
  (hypotheses_of_validB z (by decide)).1 (hypotheses_of_validB z (by decide)).2.1
  (DenseP.validB_wf (by decide))
example := reduceA_spec (R := Int) min Ex3.minLat x
-- `max` agrees as soon as a stored entry is non-negative
example : reduceA max x = some 5 ∧ Ex3.red max (toDenseA x) = some 5 := by decide

-- 4. trace
example : traceA x = .ok 10 := by decide
example := trace_toDense (R := Int) x (C08.Ex.ix false) (C08.Ex.ix true) rfl (by decide) (by decide)
  rfl (by decide)

-- 5. fuse: the 3×3 matrix `x` fused into a vector of length 5 (charge-0 fused sector: 1 + 4)
example : C05.groupsOkB [[0, 1]] x.ndim = true := by decide
example : Ex3.dataOf (fuseCore x [[0, 1]] .insert >>= toDenseA) = some ([5], [5, 1, 2, 3, 4]) := by
  decide +kernel
example := fuse_toDense_partial (R := Int) x [[0, 1]] (by decide) (by decide) rfl (by decide)
example (y : Arr Int) (hy : fuseCore x [[0, 1]] .insert = .ok y) (hn : NoEmpty y) :=
  fuse_toDense_partial (R := Int) x [[0, 1]] (by decide) (by decide) rfl (by decide) y hy hn

end Examples3

end SymmModel.C08
