/-
  Property C10, network clause, round 8 — ALL bracketings of the two-tensor norm network `{a, b, ā, b̄}` that
  FIRST contract a ket tensor with its own bra tensor (bra operand on the left): the hub.

  `a`, `b` as in C10i: valid fermionic, bonded along `xa`/`xb` (`tdotAdmissibleB`), sorted distinct ket
  labels (`KetLabels`, all labels distinct); blockwise mode unless stated; commutative scalars (`hmul`), `AddCommMonoid`,
  `NetLaws`, `AssocLaws`.  `ā = braOf a xa`, `b̄ = braOf b xb`, `K = a·b`,
  `X = ā·a`, `Y = b̄·b` (each contracted over all dangling legs; both carry NO label and have even parity).
  `X` has the legs `[ā's bond legs, a's bond legs]` (each block in increasing order of the leg number in
  `a`); `kbQ a.ndim xa` lists the first block in the order of `xa`, `kbP a.ndim xa` both blocks.

  PROVED
  * `network_norm_ketbra_hub` — for EVERY pair of sorted distinct ket label lists (NO label check): the
    six routes
        `(b̄·X)·b`,  `(X·b̄)·b`,  `X·Y`,      `(ā·Y)·a`,  `(Y·ā)·a`,  `Y·X`
    all succeed and all give ONE scalar `v` (rank 0, no labels).  [S7 for the triangles `(X, b̄, b)` and
    `(Y, ā, a)` — their label routes need no check since the first piece has no label
    (`labelRoutes_ketbra_piece`) —, S5 + S6 for `b̄·X → X·b̄`, S5 for a full contraction at the root
    (`scalar_swap`), S4 for the block order of the axis pairs; the axes lists in closed form:
    `kbU_closed`, `NormNet.axesAB_Xbb`, `NormNet.axesBC_Xbb`.]
  * `network_norm_ketbra_all` — this scalar is `Σ|K|²` as soon as the checks `netLabelsB`,
    `ketBraLabelsB` of C10i hold for `(a, b)` OR for `(b, a)`:  `KetBraAll a b xa xb`.
  * `network_norm_ketbra_pair` — the pairing `(ā·a)·(b̄·b) = Σ|K|²` (PLANNED item 1 of C10i) under the
    hypotheses of `network_norm_ketbra_first`.
  * `network_norm_ketbra_all_oneKet` — at most one ket label per tensor, labels distinct: `KetBraAll a b xa xb`
    WITHOUT a disjunction and for BOTH label orders (the order `label a > label b`, for which the routes
    through `(b̄·ā)·a` end with different label lists, is reached through the hub from `(b, a)`).
  * `network_norm_ketbra_all_any_mode`, `network_norm_ketbra_all_any_mode_oneKet`,
    `network_norm_ketbra_all_auto_oneKet` (scalars additionally `0·x = x·0 = 0`) — the same with EVERY
    call in its own mode (`blockwise` / `fused` / `auto`): `KetBraAllM a b xa xb md` — the two pieces in
    the modes `md 0`, `md 1`, the five calls of the routes ending on `b` in `md 2 … md 6`, those ending on
    `a` in `md 7 … md 11`; all calls succeed, the pieces carry no label, every final result has rank 0, no
    labels, the value `Σ|K|²` of the BLOCKWISE `K = a·b`.  [`Net4P.pad_call`: a call in any mode on
    zero-padded copies of the blockwise operands is a zero-padded copy of the blockwise call; the weak
    guards of the later calls from the frames of the intermediates (`Net4P.admW_left_triW`,
    `admW_right_triW`, `admW_left_chainW`).]
  * `ketBraAll_spec`, `ketBraAllM_spec`, `ketBraHub_spec`, `hubHalf_spec` write the conclusions out;
    `hubHalf_bx_listing`: the route `(b̄·(ā·a))·b` with exactly the axes lists of C10i's `KetBraFirst`;
    `ketbra_all_vals` evaluates the six routes with the axes lists of the theorem on the concrete
    networks of C10i (both label orders).

  NOT COVERED (remaining)
  * the mirror images with the ket operand on the left in the first call (`a·ā`, `b·b̄` first): S5 for
    `ā·a → a·ā` is not available from `C04.tdotF_swap_eqv` (it needs distinct labels of the two operands;
    `a` and `ā` share theirs), and a separate hub for `a·ā` would need an anchor route with a known value;
  * `label a > label b` for the routes THROUGH `(b̄·ā)·a` (not ket-bra-first; the intermediates carry
    different label lists, C10i `ketBraLabels_order`);
  * the VALUE `Σ|K|²` for more than one label per tensor without the decidable checks `netLabelsB`,
    `ketBraLabelsB` (the agreement of the six routes, `network_norm_ketbra_hub`, needs no check).
-/
import SymmModel.Proofs.NetNormL4
import SymmModel.Props.C10i

namespace SymmModel.C10
open SymmModel Lazy Norm NormNet TdotP
open SymmModel.Assoc3P (tdF)
open SymmModel.Net4P (tdM)
set_option linter.unusedSectionVars false

/-! ## vocabulary -/

theorem tdF_def {R : Type} [Zero R] [Add R] [Mul R] [Neg R] (X Y : Arr R) (xa xb : List Nat) :
    tdF X Y xa xb = X.tensordotF Y (.pair (xa.map Int.ofNat) (xb.map Int.ofNat)) .blockwise := rfl

theorem tdM_def {R : Type} [Zero R] [Add R] [Mul R] [Neg R] (m : TdotMode) (X Y : Arr R)
    (xa xb : List Nat) :
    tdM m X Y xa xb = X.tensordotF Y (.pair (xa.map Int.ofNat) (xb.map Int.ofNat)) m := rfl

theorem scal_def {R : Type} [Zero R] [Neg R] (c : Arr R) (v : R) :
    Scal c v ↔ (c.ndim = 0 ∧ c.oddpos = [] ∧ c.elem [] [] = v) := Iff.rfl

/-- the legs of `ā·a` bonded to `b̄` (positions of `xa` among the sorted bond legs) and all legs of `ā·a`
    (those bonded to `b̄`, then those bonded to `b`) -/
theorem kbQ_def (n : Nat) (xa : List Nat) :
    kbQ n xa = RoutesP.positions (freeAxes n (freeAxes n xa)) xa
    ∧ kbP n xa = kbQ n xa ++ (kbQ n xa).map (xa.length + ·) := ⟨rfl, rfl⟩

theorem kbQ_example : kbQ 5 [3, 1] = [1, 0] ∧ kbP 5 [3, 1] = [1, 0, 3, 2] ∧ kbQ 3 [2] = [0] := by
  decide

/-- `kbX` of C10i is `kbQ`; `kbU` of C10i in closed form -/
theorem kbU_closed {R : Type} (a b : Arr R) (xa xb : List Nat) :
    kbX a xa = kbQ a.ndim xa
    ∧ kbU a b xa xb = List.range (freeAxes b.ndim xb).length
        ++ (kbQ a.ndim xa).map ((freeAxes b.ndim xb).length + ·) :=
  ⟨kbX_eq a xa, kbU_eq a b xa xb⟩

section main
variable {R : Type} [AddCommMonoid R] [Mul R] [Neg R] [Conj R] [NetLaws R] [AssocP.AssocLaws R]

/-- the three routes through `X = ā·a` that end on `b`, with the common value `v` -/
theorem hubHalf_spec {a b : Arr R} {xa xb : List Nat} {X Y : Arr R} {v : R}
    (H : HubHalf a b xa xb X Y v) :
    -- (b̄·X)·b
    (∃ BX c, tdF (NormNet.braOf b xb) X xb (kbQ a.ndim xa) = .ok BX
      ∧ tdF BX b ((kbQ a.ndim xa).map ((freeAxes b.ndim xb).length + ·)
          ++ List.range (freeAxes b.ndim xb).length) (xb ++ freeAxes b.ndim xb) = .ok c ∧ Scal c v)
    -- (X·b̄)·b
    ∧ (∃ XB c, tdF X (NormNet.braOf b xb) (kbQ a.ndim xa) xb = .ok XB
      ∧ tdF XB b (kbQ a.ndim xa ++ (List.range (freeAxes b.ndim xb).length).map (xa.length + ·))
          (xb ++ freeAxes b.ndim xb) = .ok c ∧ Scal c v)
    -- X·Y
    ∧ (∃ c, tdF X Y (kbP a.ndim xa) (kbP b.ndim xb) = .ok c ∧ Scal c v) :=
  ⟨H.rBX, H.rXB, H.rXY⟩

/-- the route `(b̄·(ā·a))·b` with the axes lists of C10i's `KetBraFirst` (`kbX`, `kbU`, pairs listed as
    `fB ++ xb`): the same call by S4 -/
theorem hubHalf_bx_listing {a b : Arr R} {xa xb : List Nat} {X Y : Arr R} {v : R}
    (H : HubHalf a b xa xb X Y v) :
    ∃ BX c, (NormNet.braOf b xb).tensordotF X (.pair (xb.map Int.ofNat) ((kbX a xa).map Int.ofNat))
          .blockwise = .ok BX
      ∧ BX.tensordotF b (.pair ((kbU a b xa xb).map Int.ofNat)
          ((freeAxes b.ndim xb ++ xb).map Int.ofNat)) .blockwise = .ok c
      ∧ c.ndim = 0 ∧ c.oddpos = [] ∧ c.elem [] [] = v := by
  obtain ⟨BX, c, e1, e2, S⟩ := H.rBX
  have W := H.wBX BX e1
  have hl : ((kbQ a.ndim xa).map ((freeAxes b.ndim xb).length + ·)).length = xb.length := by
    have := W.len
    simp only [List.length_append, List.length_map, List.length_range] at this ⊢
    omega
  have hc := Net4P.tdotF_axes_comm_w BX b _ _ _ _ hl W
  refine ⟨BX, c, by rw [kbX_eq]; exact e1, ?_, S⟩
  rw [kbU_eq]
  exact hc.trans e2

/-- `KetBraHub` written out -/
theorem ketBraHub_spec {a b : Arr R} {xa xb : List Nat} {X Y : Arr R} {v : R}
    (H : KetBraHub a b xa xb X Y v) :
    tdF (NormNet.braOf a xa) a (freeAxes a.ndim xa) (freeAxes a.ndim xa) = .ok X
    ∧ X.oddpos = [] ∧ X.parity = false ∧ X.ndim = xa.length + xa.length
    ∧ tdF (NormNet.braOf b xb) b (freeAxes b.ndim xb) (freeAxes b.ndim xb) = .ok Y
    ∧ Y.oddpos = [] ∧ Y.parity = false ∧ Y.ndim = xb.length + xb.length
    ∧ HubHalf a b xa xb X Y v ∧ HubHalf b a xb xa Y X v :=
  ⟨H.1.call, H.1.odd, H.1.par, H.1.nd, H.2.1.call, H.2.1.odd, H.2.1.par, H.2.1.nd, H.2.2.1, H.2.2.2⟩

/-- `KetBraAll` written out: the six ket-bra-first routes give `Σ|K|²` -/
theorem ketBraAll_spec {a b : Arr R} {xa xb : List Nat} (H : KetBraAll a b xa xb) :
    ∃ K X Y, tdF a b xa xb = .ok K
      ∧ tdF (NormNet.braOf a xa) a (freeAxes a.ndim xa) (freeAxes a.ndim xa) = .ok X ∧ X.oddpos = []
      ∧ tdF (NormNet.braOf b xb) b (freeAxes b.ndim xb) (freeAxes b.ndim xb) = .ok Y ∧ Y.oddpos = []
      -- (b̄·X)·b
      ∧ (∃ BX c, tdF (NormNet.braOf b xb) X xb (kbQ a.ndim xa) = .ok BX
        ∧ tdF BX b ((kbQ a.ndim xa).map ((freeAxes b.ndim xb).length + ·)
            ++ List.range (freeAxes b.ndim xb).length) (xb ++ freeAxes b.ndim xb) = .ok c
        ∧ Scal c (normSq K))
      -- (X·b̄)·b
      ∧ (∃ XB c, tdF X (NormNet.braOf b xb) (kbQ a.ndim xa) xb = .ok XB
        ∧ tdF XB b (kbQ a.ndim xa ++ (List.range (freeAxes b.ndim xb).length).map (xa.length + ·))
            (xb ++ freeAxes b.ndim xb) = .ok c ∧ Scal c (normSq K))
      -- X·Y
      ∧ (∃ c, tdF X Y (kbP a.ndim xa) (kbP b.ndim xb) = .ok c ∧ Scal c (normSq K))
      -- (ā·Y)·a
      ∧ (∃ AY c, tdF (NormNet.braOf a xa) Y xa (kbQ b.ndim xb) = .ok AY
        ∧ tdF AY a ((kbQ b.ndim xb).map ((freeAxes a.ndim xa).length + ·)
            ++ List.range (freeAxes a.ndim xa).length) (xa ++ freeAxes a.ndim xa) = .ok c
        ∧ Scal c (normSq K))
      -- (Y·ā)·a
      ∧ (∃ YA c, tdF Y (NormNet.braOf a xa) (kbQ b.ndim xb) xa = .ok YA
        ∧ tdF YA a (kbQ b.ndim xb ++ (List.range (freeAxes a.ndim xa).length).map (xb.length + ·))
            (xa ++ freeAxes a.ndim xa) = .ok c ∧ Scal c (normSq K))
      -- Y·X
      ∧ (∃ c, tdF Y X (kbP b.ndim xb) (kbP a.ndim xa) = .ok c ∧ Scal c (normSq K)) := by
  obtain ⟨K, X, Y, eK, PX, PY, H1, H2⟩ := H
  exact ⟨K, X, Y, eK, PX.call, PX.odd, PY.call, PY.odd, H1.rBX, H1.rXB, H1.rXY, H2.rBX, H2.rXB, H2.rXY⟩

/-- **network_norm_ketbra_hub.**  For every pair of sorted distinct ket label lists the six ket-bra-first
    routes succeed and give ONE scalar (no label check). -/
theorem network_norm_ketbra_hub (hmul : ∀ x y : R, x * y = y * x) (a b : Arr R) (xa xb : List Nat)
    (ha : a.validB = true) (hb : b.validB = true) (hfa : a.fermi = true) (hfb : b.fermi = true)
    (hadm : ValidP.tdotAdmissibleB a b xa xb = true)
    (hoA : KetLabels a.oddpos) (hoB : KetLabels b.oddpos)
    (hdA : a.oddpos.Pairwise (fun x y => x.1 ≠ y.1))
    (hdB : b.oddpos.Pairwise (fun x y => x.1 ≠ y.1)) :
    ∃ X Y v, KetBraHub a b xa xb X Y v :=
  hub_all hmul a b xa xb (RoutesP.Adm.of ha hb hfa hfb hadm) hoA hoB hdA hdB

/-- **network_norm_ketbra_all.**  All six routes give `Σ|K|²` when the label checks of C10i hold for
    `(a, b)` or for `(b, a)`. -/
theorem network_norm_ketbra_all (hmul : ∀ x y : R, x * y = y * x) (a b : Arr R) (xa xb : List Nat)
    (ha : a.validB = true) (hb : b.validB = true) (hfa : a.fermi = true) (hfb : b.fermi = true)
    (hadm : ValidP.tdotAdmissibleB a b xa xb = true)
    (hoA : KetLabels a.oddpos) (hoB : KetLabels b.oddpos)
    (hd : (a.oddpos ++ b.oddpos).Pairwise (fun x y => x.1 ≠ y.1))
    (hlab : (netLabelsB a.parity b.parity a.oddpos b.oddpos = true
              ∧ ketBraLabelsB a.parity b.parity a.oddpos b.oddpos = true)
          ∨ (netLabelsB b.parity a.parity b.oddpos a.oddpos = true
              ∧ ketBraLabelsB b.parity a.parity b.oddpos a.oddpos = true)) :
    KetBraAll a b xa xb := by
  refine ketbra_all hmul a b xa xb ha hb hfa hfb hadm hoA hoB hd ?_
  rcases hlab with ⟨h1, h2⟩ | ⟨h1, h2⟩
  · exact Or.inl (ketbra_first hmul a b xa xb ha hb hfa hfb hadm hoA hoB hd h1 h2)
  · exact Or.inr (ketbra_first hmul b a xb xa hb ha hfb hfa (admB_swap ha hb hfa hfb hadm) hoB hoA
      (labels_swap hd) h1 h2)

/-- **network_norm_ketbra_pair.**  `(ā·a)·(b̄·b) = Σ|K|²` under the hypotheses of
    `network_norm_ketbra_first`. -/
theorem network_norm_ketbra_pair (hmul : ∀ x y : R, x * y = y * x) (a b : Arr R) (xa xb : List Nat)
    (ha : a.validB = true) (hb : b.validB = true) (hfa : a.fermi = true) (hfb : b.fermi = true)
    (hadm : ValidP.tdotAdmissibleB a b xa xb = true)
    (hoA : KetLabels a.oddpos) (hoB : KetLabels b.oddpos)
    (hd : (a.oddpos ++ b.oddpos).Pairwise (fun x y => x.1 ≠ y.1))
    (hlab : netLabelsB a.parity b.parity a.oddpos b.oddpos = true)
    (hlabK : ketBraLabelsB a.parity b.parity a.oddpos b.oddpos = true) :
    ∃ K X Y c, a.tensordotF b (.pair (xa.map Int.ofNat) (xb.map Int.ofNat)) .blockwise = .ok K
      ∧ (NormNet.braOf a xa).tensordotF a (.pair ((freeAxes a.ndim xa).map Int.ofNat)
            ((freeAxes a.ndim xa).map Int.ofNat)) .blockwise = .ok X ∧ X.oddpos = []
      ∧ (NormNet.braOf b xb).tensordotF b (.pair ((freeAxes b.ndim xb).map Int.ofNat)
            ((freeAxes b.ndim xb).map Int.ofNat)) .blockwise = .ok Y ∧ Y.oddpos = []
      ∧ X.tensordotF Y (.pair ((kbP a.ndim xa).map Int.ofNat) ((kbP b.ndim xb).map Int.ofNat))
            .blockwise = .ok c
      ∧ c.ndim = 0 ∧ c.oddpos = [] ∧ c.elem [] [] = normSq K := by
  obtain ⟨K, X, Y, eK, PX, PY, H1, _⟩ := network_norm_ketbra_all hmul a b xa xb ha hb hfa hfb hadm
    hoA hoB hd (Or.inl ⟨hlab, hlabK⟩)
  obtain ⟨c, ec, Sc⟩ := H1.rXY
  exact ⟨K, X, Y, c, eK, PX.call, PX.odd, PY.call, PY.odd, ec, Sc⟩

/-- **network_norm_ketbra_all_oneKet.**  At most one ket label per tensor, labels distinct: all six
    ket-bra-first routes give `Σ|K|²` — no disjunction, both label orders. -/
theorem network_norm_ketbra_all_oneKet (hmul : ∀ x y : R, x * y = y * x) (a b : Arr R)
    (xa xb : List Nat)
    (ha : a.validB = true) (hb : b.validB = true) (hfa : a.fermi = true) (hfb : b.fermi = true)
    (hadm : ValidP.tdotAdmissibleB a b xa xb = true)
    (hoA : OneKet a.oddpos) (hoB : OneKet b.oddpos)
    (hd : (a.oddpos ++ b.oddpos).Pairwise (fun x y => x.1 ≠ y.1)) :
    KetBraAll a b xa xb :=
  ketbra_all hmul a b xa xb ha hb hfa hfb hadm hoA.ketLabels hoB.ketLabels hd
    (network_norm_ketbra_first_oneKet hmul a b xa xb ha hb hfa hfb hadm hoA hoB hd)

/-- one label each, the two labels different (either order) -/
theorem network_norm_ketbra_all_ne (hmul : ∀ x y : R, x * y = y * x) (a b : Arr R)
    (xa xb : List Nat) (la lb : Int)
    (ha : a.validB = true) (hb : b.validB = true) (hfa : a.fermi = true) (hfb : b.fermi = true)
    (hadm : ValidP.tdotAdmissibleB a b xa xb = true)
    (hoA : a.oddpos = [(la, false)]) (hoB : b.oddpos = [(lb, false)]) (hne : la ≠ lb) :
    KetBraAll a b xa xb :=
  network_norm_ketbra_all_oneKet hmul a b xa xb ha hb hfa hfb hadm (Or.inr ⟨la, hoA⟩)
    (Or.inr ⟨lb, hoB⟩) (by rw [hoA, hoB]; simpa using hne)

/-! ## every call in its own mode -/

/-- `KetBraAllM` written out: the two pieces in the modes `md 0`, `md 1`; the routes ending on `b` in the
    modes `md 2 … md 6`; the routes ending on `a` in the modes `md 7 … md 11`; `K` the BLOCKWISE `a·b` -/
theorem ketBraAllM_spec {a b : Arr R} {xa xb : List Nat} {md : Nat → TdotMode}
    (H : KetBraAllM a b xa xb md) :
    ∃ K X Y, tdF a b xa xb = .ok K
      ∧ tdM (md 0) (NormNet.braOf a xa) a (freeAxes a.ndim xa) (freeAxes a.ndim xa) = .ok X
      ∧ X.oddpos = []
      ∧ tdM (md 1) (NormNet.braOf b xb) b (freeAxes b.ndim xb) (freeAxes b.ndim xb) = .ok Y
      ∧ Y.oddpos = []
      -- (b̄·X)·b
      ∧ (∃ BX c, tdM (md 2) (NormNet.braOf b xb) X xb (kbQ a.ndim xa) = .ok BX
        ∧ tdM (md 3) BX b ((kbQ a.ndim xa).map ((freeAxes b.ndim xb).length + ·)
            ++ List.range (freeAxes b.ndim xb).length) (xb ++ freeAxes b.ndim xb) = .ok c
        ∧ Scal c (normSq K))
      -- (X·b̄)·b
      ∧ (∃ XB c, tdM (md 4) X (NormNet.braOf b xb) (kbQ a.ndim xa) xb = .ok XB
        ∧ tdM (md 5) XB b (kbQ a.ndim xa ++ (List.range (freeAxes b.ndim xb).length).map (xa.length + ·))
            (xb ++ freeAxes b.ndim xb) = .ok c ∧ Scal c (normSq K))
      -- X·Y
      ∧ (∃ c, tdM (md 6) X Y (kbP a.ndim xa) (kbP b.ndim xb) = .ok c ∧ Scal c (normSq K))
      -- (ā·Y)·a
      ∧ (∃ AY c, tdM (md 7) (NormNet.braOf a xa) Y xa (kbQ b.ndim xb) = .ok AY
        ∧ tdM (md 8) AY a ((kbQ b.ndim xb).map ((freeAxes a.ndim xa).length + ·)
            ++ List.range (freeAxes a.ndim xa).length) (xa ++ freeAxes a.ndim xa) = .ok c
        ∧ Scal c (normSq K))
      -- (Y·ā)·a
      ∧ (∃ YA c, tdM (md 9) Y (NormNet.braOf a xa) (kbQ b.ndim xb) xa = .ok YA
        ∧ tdM (md 10) YA a (kbQ b.ndim xb ++ (List.range (freeAxes a.ndim xa).length).map (xb.length + ·))
            (xa ++ freeAxes a.ndim xa) = .ok c ∧ Scal c (normSq K))
      -- Y·X
      ∧ (∃ c, tdM (md 11) Y X (kbP b.ndim xb) (kbP a.ndim xa) = .ok c ∧ Scal c (normSq K)) := by
  obtain ⟨K, X, Y, eK, eX, oX, eY, oY, H1, H2⟩ := H
  exact ⟨K, X, Y, eK, eX, oX, eY, oY, H1.rBX, H1.rXB, H1.rXY, H2.rBX, H2.rXB, H2.rXY⟩

/-- **network_norm_ketbra_all_any_mode.**  The six ket-bra-first routes with EVERY call in its own mode
    (blockwise / fused / auto): all calls succeed, the pieces carry no label, every final result has rank 0,
    no labels and the value `Σ|K|²` of the blockwise `K = a·b`. -/
theorem network_norm_ketbra_all_any_mode (hmul : ∀ x y : R, x * y = y * x) (hz1 : ∀ x : R, 0 * x = 0)
    (hz2 : ∀ x : R, x * 0 = 0) (a b : Arr R) (xa xb : List Nat)
    (ha : a.validB = true) (hb : b.validB = true) (hfa : a.fermi = true) (hfb : b.fermi = true)
    (hadm : ValidP.tdotAdmissibleB a b xa xb = true)
    (hoA : KetLabels a.oddpos) (hoB : KetLabels b.oddpos)
    (hd : (a.oddpos ++ b.oddpos).Pairwise (fun x y => x.1 ≠ y.1))
    (hlab : (netLabelsB a.parity b.parity a.oddpos b.oddpos = true
              ∧ ketBraLabelsB a.parity b.parity a.oddpos b.oddpos = true)
          ∨ (netLabelsB b.parity a.parity b.oddpos a.oddpos = true
              ∧ ketBraLabelsB b.parity a.parity b.oddpos a.oddpos = true))
    (md : Nat → TdotMode) : KetBraAllM a b xa xb md :=
  ketbra_all_any hz1 hz2 (RoutesP.Adm.of ha hb hfa hfb hadm)
    (network_norm_ketbra_all hmul a b xa xb ha hb hfa hfb hadm hoA hoB hd hlab) md

/-- at most one ket label per tensor: every call in its own mode, no disjunction, both label orders -/
theorem network_norm_ketbra_all_any_mode_oneKet (hmul : ∀ x y : R, x * y = y * x)
    (hz1 : ∀ x : R, 0 * x = 0) (hz2 : ∀ x : R, x * 0 = 0) (a b : Arr R) (xa xb : List Nat)
    (ha : a.validB = true) (hb : b.validB = true) (hfa : a.fermi = true) (hfb : b.fermi = true)
    (hadm : ValidP.tdotAdmissibleB a b xa xb = true)
    (hoA : OneKet a.oddpos) (hoB : OneKet b.oddpos)
    (hd : (a.oddpos ++ b.oddpos).Pairwise (fun x y => x.1 ≠ y.1))
    (md : Nat → TdotMode) : KetBraAllM a b xa xb md :=
  ketbra_all_any hz1 hz2 (RoutesP.Adm.of ha hb hfa hfb hadm)
    (network_norm_ketbra_all_oneKet hmul a b xa xb ha hb hfa hfb hadm hoA hoB hd) md

/-- all calls in the default mode `auto` -/
theorem network_norm_ketbra_all_auto_oneKet (hmul : ∀ x y : R, x * y = y * x)
    (hz1 : ∀ x : R, 0 * x = 0) (hz2 : ∀ x : R, x * 0 = 0) (a b : Arr R) (xa xb : List Nat)
    (ha : a.validB = true) (hb : b.validB = true) (hfa : a.fermi = true) (hfb : b.fermi = true)
    (hadm : ValidP.tdotAdmissibleB a b xa xb = true)
    (hoA : OneKet a.oddpos) (hoB : OneKet b.oddpos)
    (hd : (a.oddpos ++ b.oddpos).Pairwise (fun x y => x.1 ≠ y.1)) :
    KetBraAllM a b xa xb (fun _ => .auto) :=
  network_norm_ketbra_all_any_mode_oneKet hmul hz1 hz2 a b xa xb ha hb hfa hfb hadm hoA hoB hd _

end main

/-! ## non-vacuity -/

open scoped SymmModel.Lazy

/-- the network `gA`, `gB` of C10d (labels 1 < 3) -/
example : KetBraAll C03.gA C03.gB [2] [0] :=
  network_norm_ketbra_all_ne Int.mul_comm C03.gA C03.gB [2] [0] 1 3 (by decide +kernel)
    (by decide +kernel) rfl rfl (by decide +kernel) rfl rfl (by decide)

/-- `gA7`, `gB`: `label a = 7 > label b = 3` — the order excluded in C10i -/
example : KetBraAll gA7 C03.gB [2] [0] :=
  network_norm_ketbra_all_ne Int.mul_comm gA7 C03.gB [2] [0] 7 3 (by decide +kernel)
    (by decide +kernel) rfl rfl (by decide +kernel) rfl rfl (by decide)

example : ∃ X Y v, KetBraHub gA7 C03.gB [2] [0] X Y (v : Int) :=
  network_norm_ketbra_hub Int.mul_comm gA7 C03.gB [2] [0] (by decide +kernel) (by decide +kernel)
    rfl rfl (by decide +kernel) (OneKet.ketLabels (Or.inr ⟨7, rfl⟩))
    (OneKet.ketLabels (Or.inr ⟨3, rfl⟩)) (by decide) (by decide)

example : ∃ K X Y c, C03.gA.tensordotF C03.gB (.pair [2] [0]) .blockwise = .ok K
    ∧ (NormNet.braOf C03.gA [2]).tensordotF C03.gA (.pair [0, 1] [0, 1]) .blockwise = .ok X
    ∧ X.oddpos = []
    ∧ (NormNet.braOf C03.gB [0]).tensordotF C03.gB (.pair [1, 2] [1, 2]) .blockwise = .ok Y
    ∧ Y.oddpos = []
    ∧ X.tensordotF Y (.pair [0, 1] [0, 1]) .blockwise = .ok c
    ∧ c.ndim = 0 ∧ c.oddpos = [] ∧ c.elem [] [] = normSq K :=
  network_norm_ketbra_pair Int.mul_comm C03.gA C03.gB [2] [0] (by decide +kernel) (by decide +kernel)
    rfl rfl (by decide +kernel) (OneKet.ketLabels (Or.inr ⟨1, rfl⟩))
    (OneKet.ketLabels (Or.inr ⟨3, rfl⟩)) (by decide) (by decide +kernel) (by decide +kernel)

/-- every call in fused mode, `label a = 7 > label b = 3` -/
example : KetBraAllM gA7 C03.gB [2] [0] (fun _ => .fused) :=
  network_norm_ketbra_all_any_mode_oneKet Int.mul_comm Int.zero_mul Int.mul_zero gA7 C03.gB [2] [0]
    (by decide +kernel) (by decide +kernel) rfl rfl (by decide +kernel) (Or.inr ⟨7, rfl⟩)
    (Or.inr ⟨3, rfl⟩) (by decide) _

/-- mixed modes -/
example : KetBraAllM C03.gA C03.gB [2] [0]
    (fun k => if k % 3 == 0 then .fused else if k % 3 == 1 then .auto else .blockwise) :=
  network_norm_ketbra_all_any_mode_oneKet Int.mul_comm Int.zero_mul Int.mul_zero C03.gA C03.gB [2] [0]
    (by decide +kernel) (by decide +kernel) rfl rfl (by decide +kernel) (Or.inr ⟨1, rfl⟩)
    (Or.inr ⟨3, rfl⟩) (by decide) _

/-- the six routes of `ketBraAll_spec` with exactly its axes lists, evaluated: value and rank of each, preceded
    by `normSq (a·b)` -/
def ketbraAllVals (a b : Arr Int) (xa xb : List Nat) : List (List Int) :=
  let fA := freeAxes a.ndim xa
  let fB := freeAxes b.ndim xb
  let val (r : Except Err (Arr Int)) : List Int :=
    match r with
    | .ok c => [c.elem [] [], (c.ndim : Int), (c.oddpos.length : Int)]
    | .error _ => [-1]
  let half (a b : Arr Int) (xa xb : List Nat) (X Y : Except Err (Arr Int)) : List (List Int) :=
    let fA := freeAxes a.ndim xa
    let fB := freeAxes b.ndim xb
    let _ := fA
    [ val (do let x ← X; let t ← tdF (NormNet.braOf b xb) x xb (kbQ a.ndim xa)
              tdF t b ((kbQ a.ndim xa).map (fB.length + ·) ++ List.range fB.length) (xb ++ fB)),
      val (do let x ← X; let t ← tdF x (NormNet.braOf b xb) (kbQ a.ndim xa) xb
              tdF t b (kbQ a.ndim xa ++ (List.range fB.length).map (xa.length + ·)) (xb ++ fB)),
      val (do let x ← X; let y ← Y; tdF x y (kbP a.ndim xa) (kbP b.ndim xb)) ]
  let X := tdF (NormNet.braOf a xa) a fA fA
  let Y := tdF (NormNet.braOf b xb) b fB fB
  [ (match tdF a b xa xb with | .ok k => [normSq k] | .error _ => [-1]) ]
    ++ half a b xa xb X Y ++ half b a xb xa Y X

theorem ketbra_all_vals :
    ketbraAllVals C03.gA C03.gB [2] [0]
      = [[16422], [16422, 0, 0], [16422, 0, 0], [16422, 0, 0], [16422, 0, 0], [16422, 0, 0],
          [16422, 0, 0]]
    ∧ ketbraAllVals gA7 C03.gB [2] [0]
      = [[16422], [16422, 0, 0], [16422, 0, 0], [16422, 0, 0], [16422, 0, 0], [16422, 0, 0],
          [16422, 0, 0]] := by
  decide +kernel

end SymmModel.C10
