/-
  Property C16 (part c) / C01 "construct" / C20 — the public random constructors of
  symmray/utils.py (Model/Rand.lean) return well-formed indices and valid arrays.

  About the model definitions `Rand.randPartition`, `Rand.u1Charges`, `Rand.u1u1Charges`,
  `Rand.randZ2Index`, `Rand.randZ2Z2Index`, `Rand.randU1Index`, `Rand.randU1U1Index`,
  `Rand.randIndex`, `Rand.chooseDuals`, `Rand.getRand`, `Rand.fillDtype`, `Rand.randBlockSizes`;
  every draw from the numpy Generator is a universally quantified parameter, restricted only by
  the decidable predicate (`RandP.drawOkB`, `RandP.drawsOkB`) saying that numpy can return it.

  HISTORY: before the repair of `rand_z2_index(d, subsizes="minimal")` the code returned the
  chargemap `{0: d, 1: 0}` for `d ≥ 2` (a charge of size zero) and the well-formedness theorem held
  only with that case excluded.  The repaired code returns `{0: d}`; `randIndex_wf` is now proved in
  full and `randZ2Index_minimal_single_charge` pins the repaired result.
-/
import SymmModel.Proofs.RandLemmas

namespace SymmModel.C16
open SymmModel Rand RandP

/-- what a generated index has to satisfy: well formed for the symmetry (strictly sorted charges,
    POSITIVE sizes, valid charges), total size `d`, the requested direction, no sub-structure -/
def IxOk (sym : Sym) (d : Nat) (dual : Bool) (ix : Index) : Prop :=
  Index.wfB sym ix = true ∧ ix.sizeTotal = d ∧ ix.dual = dual ∧ ix.sub = none

theorem mkIndex_ok {sym : Sym} {cs : List Charge} {ss : List Nat} {d : Nat} (dual : Bool)
    (hnd : cs.Nodup) (hv : ∀ c ∈ cs, sym.valid c = true) (hp : ∀ s ∈ ss, 0 < s)
    (hl : ss.length ≤ cs.length) (hs : sumN ss = d) : IxOk sym d dual (mkIndex cs ss dual) := by
  obtain ⟨a, b, c, e⟩ := mkIndex_wf (sym := sym) dual hnd hv hp hl
  exact ⟨a, b.trans hs, c, e⟩

/-! ## 8. Z2 -/

theorem randZ2Index_wf {d : Nat} (dual : Option Bool) {ss : Subsizes} {dr : Draws}
    (hd : 0 < d) (hm : modeOkB .Z2 d ss dr = true) :
    ∃ ix, randZ2Index (.size d) dual ss dr = .ok ix ∧ IxOk .Z2 d (dual.getD dr.dual) ix := by
  by_cases h1 : d = 1
  · subst h1
    have key : ∀ c : Nat, c ≤ 1 →
        IxOk .Z2 1 (dual.getD dr.dual) (mkIndex [((c : Int), 0)] [1] (dual.getD dr.dual)) := by
      intro c hc
      apply mkIndex_ok _ (by simp) _ (by simp) (by simp) (by simp [sumN])
      intro x hx'
      simp only [List.mem_cons, List.not_mem_nil, or_false] at hx'
      subst hx'
      have : c = 0 ∨ c = 1 := by omega
      rcases this with h | h <;> rw [h] <;> rfl
    cases ss with
    | explicit _ => simp [modeOkB] at hm
    | random =>
      simp only [modeOkB, drawsOkB, beq_self_eq_true, if_true, decide_eq_true_eq] at hm
      exact ⟨_, rfl, key _ hm⟩
    | equal => exact ⟨_, rfl, key 0 (by omega)⟩
    | maximal => exact ⟨_, rfl, key 0 (by omega)⟩
    | minimal => exact ⟨_, rfl, key 0 (by omega)⟩
  · have hne : (d == 1) = false := by simpa using h1
    have key : ∀ d0 d1 : Nat, 0 < d0 → 0 < d1 → d0 + d1 = d →
        IxOk .Z2 d (dual.getD dr.dual) (mkIndex [(0, 0), (1, 0)] [d0, d1] (dual.getD dr.dual)) := by
      intro d0 d1 h0 h1' hs
      apply mkIndex_ok _ (by decide) (by decide) _ (by simp) (by simp only [sumN]; omega)
      intro s hs'
      simp only [List.mem_cons, List.not_mem_nil, or_false] at hs'
      rcases hs' with rfl | rfl <;> assumption
    have hun : ∀ p, z2Sizes d ss dr = .ok p → randZ2Index (.size d) dual ss dr
        = .ok (z2Index d (dual.getD dr.dual) p) := by
      intro p hp
      simp only [randZ2Index, hne, Bool.false_eq_true, if_false, hp]
      rfl
    cases ss with
    | explicit _ => simp [modeOkB] at hm
    | random =>
      simp only [modeOkB, drawsOkB, hne, Bool.false_eq_true, if_false, Bool.and_eq_true,
        decide_eq_true_eq] at hm
      exact ⟨_, hun (some (dr.d0, d - dr.d0)) rfl, key _ _ (by omega) (by omega) (by omega)⟩
    | equal => exact ⟨_, hun (some (d / 2, d - d / 2)) rfl, key _ _ (by omega) (by omega) (by omega)⟩
    | maximal => exact ⟨_, hun (some (d / 2, d - d / 2)) rfl, key _ _ (by omega) (by omega) (by omega)⟩
    | minimal =>
      refine ⟨_, hun none rfl, mkIndex_ok _ (by simp) (by decide) ?_ (by simp) (by simp [sumN])⟩
      intro s hs; simp at hs; omega

/-- REGRESSION (repair of `rand-z2-index-minimal-zero-size`): "minimal" mode on Z2 returns exactly
    the single-charge table `{0: d}` — no entry for the odd charge — and it is well formed, for
    every `d ≥ 1` -/
theorem randZ2Index_minimal_single_charge (d : Nat) (hd : 1 ≤ d) (dual : Option Bool) (dr : Draws) :
    ∃ ix, randZ2Index (.size d) dual .minimal dr = .ok ix
      ∧ ix.cm = [((0, 0), d)] ∧ IxOk .Z2 d (dual.getD dr.dual) ix := by
  obtain ⟨ix, h1, h2⟩ := randZ2Index_wf (d := d) (ss := .minimal) (dr := dr) dual hd rfl
  refine ⟨ix, h1, ?_, h2⟩
  by_cases hd1 : d = 1
  · subst hd1
    cases h1
    rfl
  · have hne : (d == 1) = false := by simpa using hd1
    have : randZ2Index (.size d) dual .minimal dr
        = .ok (mkIndex [(0, 0)] [d] (dual.getD dr.dual)) := by
      simp only [randZ2Index, hne, Bool.false_eq_true, if_false, z2Sizes]; rfl
    rw [this] at h1
    cases h1
    rfl

/-! ## 9. Z2Z2 -/

theorem possibleZ2Z2_take_ok (k : Nat) :
    (possibleZ2Z2.take k).Nodup ∧ ∀ c ∈ possibleZ2Z2.take k, Sym.valid .Z2Z2 c = true := by
  refine ⟨(by decide : possibleZ2Z2.Nodup).sublist (List.take_sublist _ _), ?_⟩
  intro c hc
  have hc' := List.mem_of_mem_take hc
  clear hc
  revert c
  decide

theorem randZ2Z2Index_wf {d : Nat} (dual : Option Bool) {ss : Subsizes} {dr : Draws}
    (hd : 0 < d) (hm : modeOkB .Z2Z2 d ss dr = true) :
    ∃ ix, randZ2Z2Index (.size d) dual ss dr = .ok ix ∧ IxOk .Z2Z2 d (dual.getD dr.dual) ix := by
  have hequal : IxOk .Z2Z2 d (dual.getD dr.dual) (Index.plain (z2z2EqualCm d) (dual.getD dr.dual)) := by
    unfold z2z2EqualCm
    simp only []
    rw [zipIdx_map_eq_zip (possibleZ2Z2.take (min d 4)) (fun i => d / 4 + (if i < d % 4 then 1 else 0))]
    have hlen : (possibleZ2Z2.take (min d 4)).length = min d 4 := by
      rw [List.length_take]; simp [possibleZ2Z2]
    rw [hlen]
    obtain ⟨hnd, hv⟩ := possibleZ2Z2_take_ok (min d 4)
    apply mkIndex_ok (dual.getD dr.dual) hnd hv
    · intro s hs
      simp only [List.mem_map, List.mem_range] at hs
      obtain ⟨i, hi, rfl⟩ := hs
      by_cases h4 : 4 ≤ d
      · have : 0 < d / 4 := Nat.div_pos h4 (by omega)
        omega
      · have h1 : d % 4 = d := Nat.mod_eq_of_lt (by omega)
        have h2 : i < d := by omega
        rw [h1, if_pos h2]; omega
    · simp [hlen]
    · rw [sumN_range_step]
      by_cases h4 : 4 ≤ d
      · have h1 : d % 4 < 4 := Nat.mod_lt _ (by omega)
        rw [Nat.min_eq_right h4, Nat.min_eq_right (by omega)]
        have := Nat.div_add_mod d 4
        omega
      · have h1 : d % 4 = d := Nat.mod_eq_of_lt (by omega)
        have h2 : d / 4 = 0 := Nat.div_eq_of_lt (by omega)
        rw [h1, h2, Nat.min_eq_left (by omega : d ≤ 4)]
        simp
  cases ss with
  | explicit _ => simp [modeOkB] at hm
  | equal => exact ⟨_, rfl, hequal⟩
  | maximal => exact ⟨_, rfl, hequal⟩
  | minimal =>
    refine ⟨_, rfl, mkIndex_ok _ (by simp) (by decide) ?_ (by simp) (by simp [sumN])⟩
    intro s hs; simp at hs; omega
  | random =>
    simp only [modeOkB, drawsOkB] at hm
    by_cases h4 : d < 4
    · simp only [h4, if_true, Bool.and_eq_true, beq_iff_eq, List.all_eq_true] at hm
      obtain ⟨⟨hl, hdist⟩, hmem⟩ := hm
      refine ⟨Index.plain (adict (dr.charges.map (fun c => (c, 1)))) (dual.getD dr.dual),
        by simp only [randZ2Z2Index, h4, if_true], ?_⟩
      rw [map_pair_eq_zip]
      apply mkIndex_ok (dual.getD dr.dual) (allDistinct_nodup hdist)
      · intro c hc
        have := hmem c hc
        simp only [List.contains_eq_mem, decide_eq_true_eq] at this
        clear hc
        revert c
        decide
      · intro s hs; rw [(List.mem_replicate.mp hs).2]; exact Nat.one_pos
      · simp
      · rw [sumN_replicate, hl]; omega
    · simp only [h4, if_false, Bool.or_eq_true, beq_iff_eq] at hm
      obtain ⟨parts, p1, p2, p3, p4⟩ := randPartition_spec (d := d) (n := 4) (draw := dr.splits)
        (by omega) (by omega) hm
      refine ⟨mkIndex possibleZ2Z2 parts (dual.getD dr.dual), ?_, ?_⟩
      · simp only [randZ2Z2Index, h4, if_false, p1]; rfl
      · exact mkIndex_ok _ (by decide) (by decide) p3 (by rw [p2]; rfl) p4

/-! ## 10. U1, U1U1 -/

theorem modeOk_chargeSizes {sym : Sym} (hs : sym = .U1 ∨ sym = .U1U1) {d : Nat} {ss : Subsizes}
    {dr : Draws} (hm : modeOkB sym d ss dr = true) : SizesOk d ss dr := by
  cases ss with
  | equal => trivial
  | maximal => trivial
  | minimal => trivial
  | explicit _ => simp [modeOkB] at hm
  | random =>
    rcases hs with rfl | rfl <;>
    · simp only [modeOkB, drawsOkB, Bool.and_eq_true, decide_eq_true_eq, Bool.or_eq_true,
        beq_iff_eq] at hm
      exact ⟨hm.1.1, hm.1.2, hm.2⟩

theorem randU1Index_wf {d : Nat} (dual : Option Bool) {ss : Subsizes} {dr : Draws}
    (hd : 0 < d) (hm : modeOkB .U1 d ss dr = true) :
    ∃ ix, randU1Index (.size d) dual ss dr = .ok ix ∧ IxOk .U1 d (dual.getD dr.dual) ix := by
  obtain ⟨nc, sizes, h1, h2, h3, h4⟩ :=
    chargeSizes_spec (nequal := 3) (by omega) hd (modeOk_chargeSizes (Or.inl rfl) hm)
  obtain ⟨c1, c2, c3⟩ := u1Charges_spec nc
  refine ⟨mkIndex ((u1Charges nc).map (fun c => (c, 0))) sizes (dual.getD dr.dual),
    by simp only [randU1Index, h1, Except.map], ?_⟩
  exact mkIndex_ok _ c2 c3 h3 (by rw [c1, h2]) h4

theorem randU1U1Index_wf {d : Nat} (dual : Option Bool) {ss : Subsizes} {dr : Draws}
    (hd : 0 < d) (hm : modeOkB .U1U1 d ss dr = true) :
    ∃ ix, randU1U1Index (.size d) dual ss dr = .ok ix ∧ IxOk .U1U1 d (dual.getD dr.dual) ix := by
  obtain ⟨nc, sizes, h1, h2, h3, h4⟩ :=
    chargeSizes_spec (nequal := 9) (by omega) hd (modeOk_chargeSizes (Or.inr rfl) hm)
  refine ⟨mkIndex (u1u1Charges nc) sizes (dual.getD dr.dual),
    by simp only [randU1U1Index, h1, Except.map], ?_⟩
  exact mkIndex_ok _ (u1u1Charges_nodup nc) (fun _ _ => rfl) h3
    (by rw [u1u1Charges_length, h2]) h4

/-! ## 11. `rand_index` -/

/-- for every supported symmetry, `d ≥ 1`, direction and mode in {"equal", "maximal", "minimal"}
    (and `None` with draws numpy can return), `rand_index(symmetry, d, dual, subsizes)` returns an
    index that is well formed (strictly sorted valid charges, POSITIVE sizes), of total size `d`,
    of the requested direction, without sub-structure -/
theorem randIndex_wf {sym : Sym} {d : Nat} (dual : Option Bool) {ss : Subsizes} {dr : Draws}
    (hs : sym ≠ .Z4) (hd : 0 < d) (hm : modeOkB sym d ss dr = true) :
    ∃ ix, randIndex sym (.size d) dual ss dr = .ok ix ∧ IxOk sym d (dual.getD dr.dual) ix := by
  cases sym with
  | Z4 => exact absurd rfl hs
  | Z2 => exact randZ2Index_wf dual hd hm
  | Z2Z2 => exact randZ2Z2Index_wf dual hd hm
  | U1 => exact randU1Index_wf dual hd hm
  | U1U1 => exact randU1U1Index_wf dual hd hm

/-- an unsupported symmetry is a `ValueError` -/
theorem randIndex_unsupported (d : DArg) (dual : Option Bool) (ss : Subsizes) (dr : Draws) :
    randIndex .Z4 d dual ss dr = .error Err.value := rfl

/-! ## 12. explicit `subsizes` sequences -/

/-- the explicit sizes the generators can honour: positive, summing to `d`; Z2 needs exactly two
    (and `d ≠ 1`, see `randZ2Index_explicit_d1_ignored`), Z2Z2 at most four -/
def explicitOkB (sym : Sym) (d : Nat) (sizes : List Nat) : Bool :=
  sizes.all (fun s => decide (0 < s)) && sumN sizes == d
  && (match sym with
      | .Z2 => d != 1 && sizes.length == 2
      | .Z2Z2 => decide (sizes.length ≤ 4)
      | .U1 => true
      | .U1U1 => true
      | .Z4 => false)

theorem randIndex_explicit_wf {sym : Sym} {d : Nat} (dual : Option Bool) {sizes : List Nat} {dr : Draws}
    (hm : explicitOkB sym d sizes = true) :
    ∃ ix, randIndex sym (.size d) dual (.explicit sizes) dr = .ok ix ∧ IxOk sym d (dual.getD dr.dual) ix := by
  simp only [explicitOkB, Bool.and_eq_true, List.all_eq_true, decide_eq_true_eq, beq_iff_eq] at hm
  obtain ⟨⟨hp, hsum⟩, hsym⟩ := hm
  cases sym with
  | Z4 => exact absurd hsym (by simp)
  | U1 =>
    obtain ⟨c1, c2, c3⟩ := u1Charges_spec sizes.length
    exact ⟨_, rfl, mkIndex_ok _ c2 c3 hp (by rw [c1]) hsum⟩
  | U1U1 =>
    exact ⟨_, rfl, mkIndex_ok _ (u1u1Charges_nodup _) (fun _ _ => rfl) hp
      (by rw [u1u1Charges_length]) hsum⟩
  | Z2Z2 =>
    simp only [decide_eq_true_eq] at hsym
    exact ⟨_, rfl, mkIndex_ok _ (by decide) (by decide) hp hsym hsum⟩
  | Z2 =>
    simp only [Bool.and_eq_true, bne_iff_ne, ne_eq, beq_iff_eq] at hsym
    obtain ⟨h1, h2⟩ := hsym
    have hne : (d == 1) = false := by simpa using h1
    match sizes, h2 with
    | [a, b], _ =>
      refine ⟨mkIndex [(0, 0), (1, 0)] [a, b] (dual.getD dr.dual), ?_, ?_⟩
      · simp only [randIndex, randZ2Index, hne, Bool.false_eq_true, if_false, z2Sizes]; rfl
      · exact mkIndex_ok _ (by decide) (by decide) hp (by simp) hsum

/-- FINDING: zeros in an explicit sequence are stored as they are, for every symmetry -/
theorem randIndex_explicit_zero_counterexample :
    (∃ ix, randIndex .U1 (.size 3) (some false) (.explicit [1, 0, 2]) default = .ok ix
        ∧ ix.cm = [((-1, 0), 2), ((0, 0), 1), ((1, 0), 0)] ∧ Index.wfB .U1 ix = false)
    ∧ (∃ ix, randIndex .Z2 (.size 3) (some false) (.explicit [0, 3]) default = .ok ix
        ∧ ix.cm = [((0, 0), 0), ((1, 0), 3)] ∧ Index.wfB .Z2 ix = false)
    ∧ (∃ ix, randIndex .Z2Z2 (.size 3) (some false) (.explicit [1, 0, 2]) default = .ok ix
        ∧ Index.wfB .Z2Z2 ix = false)
    ∧ (∃ ix, randIndex .U1U1 (.size 3) (some false) (.explicit [1, 0, 2]) default = .ok ix
        ∧ Index.wfB .U1U1 ix = false) :=
  ⟨⟨_, rfl, by decide, by decide⟩, ⟨_, rfl, by decide, by decide⟩, ⟨_, rfl, by decide⟩,
    ⟨_, rfl, by decide +kernel⟩⟩

/-- FINDING: for `d == 1` `rand_z2_index` ignores an explicit sequence: asking for the single
    state to carry charge 1 (`subsizes=(0, 1)`) returns `{0: 1}` -/
theorem randZ2Index_explicit_d1_ignored (sizes : List Nat) (dual : Option Bool) (dr : Draws) :
    randZ2Index (.size 1) dual (.explicit sizes) dr = .ok (mkIndex [(0, 0)] [1] (dual.getD dr.dual)) := rfl

/-- FINDING: Z2Z2 silently drops every explicit size after the fourth (total 4, not 5) -/
theorem randZ2Z2Index_explicit_truncates :
    ∃ ix, randZ2Z2Index (.size 5) (some false) (.explicit [1, 1, 1, 1, 1]) default = .ok ix
      ∧ ix.sizeTotal = 4 := ⟨_, rfl, by decide⟩

/-- an explicit sequence of the wrong length is a `ValueError` for Z2 (`d0, d1 = subsizes`) -/
theorem randZ2Index_explicit_unpack (d : Nat) (hd : d ≠ 1) (sizes : List Nat) (hl : sizes.length ≠ 2)
    (dual : Option Bool) (dr : Draws) :
    randZ2Index (.size d) dual (.explicit sizes) dr = .error Err.value := by
  have hne : (d == 1) = false := by simpa using hd
  simp only [randZ2Index, hne, Bool.false_eq_true, if_false, z2Sizes]
  match sizes, hl with
  | [], _ => rfl
  | [_], _ => rfl
  | [_, _], h => exact absurd rfl h
  | _ :: _ :: _ :: _, _ => rfl

/-- FINDING: `rand_index("Z2Z2", d)` does not accept the documented dict form of `d` -/
theorem randZ2Z2Index_dict_type_error (cm : List (Charge × Nat)) (dual : Option Bool) (dr : Draws) :
    randZ2Z2Index (.dict cm) dual .random dr = .error Err.type
    ∧ randZ2Z2Index (.dict cm) dual .equal dr = .error Err.type
    ∧ randZ2Z2Index (.dict cm) dual .maximal dr = .error Err.type :=
  ⟨rfl, rfl, rfl⟩

/-! ## 13. `rand_partition`, the charge sequences, `choose_duals`, the fill dtype, block vectors -/

/-- `rand_partition(d, n)` for `1 ≤ n ≤ d` returns `n` POSITIVE parts summing to `d`, for every
    draw numpy can return (`n - 1` distinct values of `range(1, d - 1)`; none needed if `d = n`) -/
theorem randPartition_parts {d n : Nat} {draw : List Nat} (hn : 0 < n) (hnd : n ≤ d)
    (hok : d = n ∨ drawOkB d n draw = true) :
    ∃ parts, randPartition d n draw = .ok parts ∧ parts.length = n ∧ (∀ p ∈ parts, 0 < p)
      ∧ sumN parts = d :=
  randPartition_spec hn hnd hok

/-- FINDING (bias, not a validity defect): the split points come from `range(1, d - 1)`, which
    omits `d - 1`, so whenever `d ≠ n` the LAST part is at least 2 — compositions ending in 1 are
    never produced -/
theorem randPartition_last_ge_two {d n : Nat} {draw : List Nat} (hd : 0 < d) (hdn : d ≠ n) (hn : 0 < n)
    (hok : drawOkB d n draw = true) :
    ∃ parts, randPartition d n draw = .ok parts ∧ 2 ≤ parts.getLast?.getD 0 := by
  obtain ⟨parts, h1, _, _, _, h5⟩ := randPartition_general hd hdn hn hok
  exact ⟨parts, h1, h5⟩

/-- more parts than `d`, or none, is a `ValueError` (numpy refuses the sample) -/
theorem randPartition_error {d n : Nat} (draw : List Nat) (h : (0 < d ∧ d < n) ∨ (n = 0 ∧ d ≠ 0)) :
    randPartition d n draw = .error Err.value := by
  unfold randPartition
  rcases h with ⟨h0, h⟩ | ⟨h1, h2⟩
  · have h1 : (d == n) = false := by simpa using (by omega : d ≠ n)
    simp only [h1, Bool.false_eq_true, if_false]
    split
    · rfl
    · rw [if_pos (by omega)]; rfl
  · subst h1
    have h1 : (d == 0) = false := by simpa using h2
    simp only [h1, Bool.false_eq_true, if_false, beq_self_eq_true, if_true]
    rfl

/-- `get_u1_charges(n)` / `get_u1u1_charges(n)`: exactly `n` pairwise distinct charges -/
theorem chargeSequences_spec (n : Nat) :
    (u1Charges n).length = n ∧ (u1Charges n).Nodup
    ∧ (u1u1Charges n).length = n ∧ (u1u1Charges n).Nodup :=
  ⟨u1Charges_length n, u1Charges_nodup n, u1u1Charges_length n, u1u1Charges_nodup n⟩

/-- `choose_duals`: one entry per dimension in every accepted form; the only error is a sequence
    of the wrong length (`ValueError`); "equal" makes the first `ndim // 2` entries False -/
theorem chooseDuals_spec (a : DualsArg) (ndim : Nat) :
    (∀ l, chooseDuals a ndim = .ok l → l.length = ndim)
    ∧ ((∃ e, chooseDuals a ndim = .error e) ↔ ∃ s, a = .seq s ∧ s.length ≠ ndim)
    ∧ (∀ e, chooseDuals a ndim = .error e → e = Err.value)
    ∧ (a = .equal → chooseDuals a ndim
        = .ok ((List.range ndim).map (fun i => some (decide (ndim / 2 ≤ i))))) := by
  cases a with
  | equal =>
    refine ⟨?_, ⟨?_, ?_⟩, ?_, fun _ => rfl⟩
    · intro l h; cases h; simp
    · rintro ⟨e, h⟩; cases h
    · rintro ⟨s, h, _⟩; cases h
    · intro e h; cases h
  | none =>
    refine ⟨?_, ⟨?_, ?_⟩, ?_, ?_⟩
    · intro l h; cases h; simp
    · rintro ⟨e, h⟩; cases h
    · rintro ⟨s, h, _⟩; cases h
    · intro e h; cases h
    · intro h; cases h
  | all b =>
    refine ⟨?_, ⟨?_, ?_⟩, ?_, ?_⟩
    · intro l h; cases h; simp
    · rintro ⟨e, h⟩; cases h
    · rintro ⟨s, h, _⟩; cases h
    · intro e h; cases h
    · intro h; cases h
  | seq s =>
    by_cases hl : s.length = ndim
    · have hk : chooseDuals (.seq s) ndim = .ok s := by simp [chooseDuals, hl]; rfl
      refine ⟨?_, ⟨?_, ?_⟩, ?_, ?_⟩
      · intro l h; rw [hk] at h; cases h; exact hl
      · rintro ⟨e, h⟩; rw [hk] at h; cases h
      · rintro ⟨s', h, h'⟩; cases h; exact absurd hl h'
      · intro e h; rw [hk] at h; cases h
      · intro h; cases h
    · have hk : chooseDuals (.seq s) ndim = .error Err.value := by simp [chooseDuals, hl]; rfl
      refine ⟨?_, ⟨?_, ?_⟩, ?_, ?_⟩
      · intro l h; rw [hk] at h; cases h
      · intro _; exact ⟨s, rfl, hl⟩
      · intro _; exact ⟨_, hk⟩
      · intro e h; rw [hk] at h; cases h; rfl
      · intro h; cases h

/-- C20 anchor utils.py:50-61: the blocks produced by `get_random_fill_fn(dtype=…)` have exactly
    the requested dtype; the final `astype` runs for every dtype other than float64 / complex128 -/
theorem fillDtype_eq (dtype : DType) :
    fillDtype dtype = dtype
    ∧ (fillCasts dtype = true ↔ (dtype = .f32 ∨ dtype = .c64)) := by
  cases dtype <;> exact ⟨rfl, by decide⟩

/-- `get_rand_blockvector(size, block_size)`: positive block sizes summing to `size`, whatever the
    Poisson draw -/
theorem randBlockSizes_spec (size bs0 : Nat) :
    (∀ b ∈ randBlockSizes size bs0, 0 < b) ∧ sumN (randBlockSizes size bs0) = size := by
  have := blockLoop_spec size size 0 bs0 (Nat.zero_le _) (by omega)
  exact ⟨this.1, by rw [randBlockSizes, this.2]; omega⟩

/-! ## 14. `get_rand` returns a valid array -/

/-- one entry of `shape` is acceptable with the draws `dr`: a size `d ≥ 1` in a mode covered by
    `randIndex_wf` (every deterministic mode; `None` with admissible draws), a dict or a ready index
    that is well formed -/
def entryOkB (sym : Sym) (ss : Subsizes) (e : ShapeEntry) (dr : Draws) : Bool :=
  match e with
  | .size d => decide (0 < d) && modeOkB sym d ss dr
  | .dict cm => Index.wfB sym (dictIndex cm false) && Index.wfB sym (dictIndex cm true)
  | .index ix => Index.wfB sym ix

theorem entryIndex_wf {sym : Sym} {ss : Subsizes} {e : ShapeEntry} {f : Option Bool} {dr : Draws}
    (hs : sym ≠ .Z4) (h : entryOkB sym ss e dr = true) {ix : Index}
    (hix : entryIndex sym ss e f dr = .ok ix) : Index.wfB sym ix = true := by
  cases e with
  | index ix' => cases hix; exact h
  | dict cm =>
    cases hix
    simp only [entryOkB, Bool.and_eq_true] at h
    cases hf : f.getD false
    · exact h.1
    · exact h.2
  | size d =>
    simp only [entryOkB, Bool.and_eq_true, decide_eq_true_eq] at h
    obtain ⟨hd, hm⟩ := h
    obtain ⟨ix', h1, h2⟩ := randIndex_wf (sym := sym) f hs hd hm
    have : entryIndex sym ss (.size d) f dr = randIndex sym (.size d) f ss dr := rfl
    rw [this, h1] at hix
    cases hix
    exact h2.1

theorem wfListB_of_forall {sym : Sym} : ∀ {l : List Index}, (∀ i ∈ l, Index.wfB sym i = true) →
    Index.wfListB sym l = true
  | [], _ => rfl
  | a :: l, h => by
    simp only [Index.wfListB, Bool.and_eq_true]
    exact ⟨h a (by simp), wfListB_of_forall (fun i hi => h i (List.mem_cons_of_mem _ hi))⟩

theorem forall₂_mem_right {α β : Type} {P : α → β → Prop} : ∀ {l1 : List α} {l2 : List β},
    List.Forall₂ P l1 l2 → ∀ {y}, y ∈ l2 → ∃ x ∈ l1, P x y
  | _, _, .nil, _, hy => by cases hy
  | _, _, .cons hxy ht, y, hy => by
    rcases List.mem_cons.mp hy with rfl | hy
    · exact ⟨_, by simp, hxy⟩
    · obtain ⟨x, hx, hp⟩ := forall₂_mem_right ht hy
      exact ⟨x, List.mem_cons_of_mem _ hx, hp⟩

/-- **`get_rand` returns a valid array** (`Arr.validB`): for a supported symmetry, acceptable
    `shape` entries (with every draw that can be used), a valid total charge, consistent
    odd-position labels and a fill function honouring the requested shapes — whatever `duals`
    form and whatever is drawn for the directions.  Reuses `from_fill_fn`'s validity theorem. -/
theorem getRand_valid {R : Type} {sym : Sym} {shape : List ShapeEntry} {duals : DualsArg}
    {charge : Option Charge} {fermi : Bool} {ss : Subsizes} {draws : List Draws}
    {fill : Sector → List Nat → Blk R} {oddpos : List (Int × Bool)} {a : Arr R}
    (hs : sym ≠ .Z4)
    (hshape : ∀ e ∈ shape, ∀ dr, (dr = default ∨ dr ∈ draws) → entryOkB sym ss e dr = true)
    (hc : sym.valid (charge.getD sym.zero) = true)
    (hodd : ValidP.oddposOkB sym fermi (charge.getD sym.zero) oddpos = true)
    (hfill : ∀ indices, ValidP.FillOk indices fill)
    (h : getRand sym shape duals charge fermi ss draws fill oddpos = .ok a) : a.validB = true := by
  unfold getRand at h
  have hz : (sym == Sym.Z4) = false := by simpa using hs
  simp only [hz, Bool.false_eq_true, if_false] at h
  obtain ⟨dl, _, h⟩ := ValidP.except_bind_ok h
  obtain ⟨indices, hidx, h⟩ := ValidP.except_bind_ok h
  have hF := ValidP.exceptMapM_forall₂ _ _ _ hidx
  have hwf : ∀ i ∈ indices, Index.wfB sym i = true := by
    intro ix hix
    obtain ⟨⟨⟨e, f⟩, i⟩, hmem, hok⟩ := forall₂_mem_right hF hix
    simp only at hok
    have hef : (e, f) ∈ shape.zip dl := by
      have := List.mem_zipIdx hmem
      simp only [Nat.zero_le, Nat.zero_add, Nat.sub_zero, true_and] at this
      rw [this.2]; exact List.getElem_mem _
    have he : e ∈ shape := (List.of_mem_zip hef).1
    refine entryIndex_wf hs (hshape _ he _ ?_) hok
    rw [List.getD_eq_getElem?_getD]
    cases hg : draws[i]? with
    | none => exact Or.inl rfl
    | some dr => exact Or.inr (List.mem_of_getElem? hg)
  refine ValidP.fromFillFn_valid (indices := indices) ?_ (hfill indices) h
  simp only [ValidP.fromFillFnOkB, Bool.and_eq_true]
  exact ⟨⟨wfListB_of_forall hwf, hc⟩, hodd⟩

/-! ## examples: the hypotheses are satisfiable, the model computes what the code returns -/

section Examples
open ValidP

example : modeOkB .U1 7 .equal default = true ∧ modeOkB .Z2 2 .minimal default = true := by decide
example : drawOkB 9 4 [7, 2, 1] = true ∧ randPartition 9 4 [7, 2, 1] = .ok [1, 1, 5, 2] := by decide
example : drawsOkB .U1 9 { ncharge := 4, splits := [7, 2, 1] } = true := by decide
example : drawsOkB .Z2Z2 3 { charges := [(1, 1), (1, 0), (0, 0)] } = true := by decide
example : explicitOkB .U1 3 [1, 2] = true ∧ explicitOkB .Z2 3 [1, 2] = true := by decide
example : u1Charges 5 = [0, 1, -1, 2, -2] := by decide
example : u1u1Charges 6 = [(0, 0), (0, 1), (1, 0), (-1, 0), (0, -1), (1, 1)] := by decide +kernel
example : (randIndex .U1 (.size 10) (some false) .equal default).toOption.map Index.cm
    = some [((-1, 0), 3), ((0, 0), 4), ((1, 0), 3)] := by decide
example : (randIndex .Z2 (.size 5) (some true) .minimal default).toOption.map Index.cm
    = some [((0, 0), 5)] := by decide
example : entryOkB .U1 .maximal (.size 3) default = true
    ∧ entryOkB .Z2 .minimal (.size 3) default = true
    ∧ entryOkB .Z2 .minimal (.size 0) default = false := by decide
example : randBlockSizes 10 3 = [3, 3, 3, 1] := by decide
example (a : Arr Int)
    (h : getRand .U1 [.size 3, .size 4] .equal none false .maximal [] ValidP.exFill [] = .ok a) :
    a.validB = true :=
  getRand_valid (by decide) (by
    intro e he dr _
    simp only [List.mem_cons, List.not_mem_nil, or_false] at he
    rcases he with rfl | rfl <;> simp [entryOkB, modeOkB]) (by decide) (by decide)
    (fun idx => ValidP.fillOk_ofFn idx _) h

end Examples

end SymmModel.C16
