/-
  Property C04 (route independence, clause S7 — associativity) — "A fermionic network's value does
  not depend on how it is contracted", for the MODEL's `Arr.tensordotF` (Model/Fermi.lean) in
  `mode = blockwise`, on valid fermionic operands of any rank, symmetry, sparsity, charge parity,
  pending signs, over any scalar type with commutative addition, the sign laws `GradedP.SignRing`
  and the multiplication laws `AssocP.AssocLaws` (associative, distributive, `0` absorbing —
  instances: `Int`, `GRat`).  Built on C03 (`tensordotF_refines_graded`, here generalised),
  `C04.oddpos_assoc`, `RoutesP.koszul_relist_free_left/right` (the two halves of
  `C04.assoc_sign_identity`).

  THE OBSTACLE AND HOW IT IS REMOVED.  The intermediate result of a contraction has PRUNED index
  tables (`dropUnused`), so `(A·B, C)` resp. `(A, B·C)` is in general not `contractibleB`
  (example `pruned_not_contractible` below) and C03 cannot be re-applied.
  `tensordotF_refines_graded_common` generalises the refinement theorem to the weaker decidable
  guard `contractibleCommonB`: matched legs have opposite directions and their charge tables
  give the same size to every charge that BOTH list (`commonB_of_contractibleB`: implied by the
  documented guard).  Pruning keeps this guard (`AssocP.commonB_prune_left/right`).

  Vocabulary (Proofs/Assoc*.lean, namespace `SymmModel.AssocP`):
    `axesAB nA nB xa xb1 xb2`  the axes of `A·B` that carry `B`'s legs `xb2`
                               (`|free A| + positions (free B w.r.t. xb1) xb2`)
    `axesBC nB xb1 xb2`        the axes of `B·C` that carry `B`'s legs `xb1`
    `IsTriple A B C … s t`     `t = (sa, sb, sc)`: stored sectors, `sa`–`sb` aligned on
                               `xa`/`xb1`, `sb`–`sc` aligned on `xb2`/`xc`, free parts make up `s`
    `FreeAddr A B C … LA LM LC oA oM oC`  the address `(LA ++ LM ++ LC, oA ++ oM ++ oC)`: lengths
                               of the `A`- and `B`-parts and offsets inside the boxes that the
                               ORIGINAL operands' index tables give to `LA`, `LM`, `LC`
    `S3`, `W3`                 sign and plain value of a triple in the three-operand graded
                               contraction (`koszul` of `B`'s sector w.r.t. `(xb1, rest, xb2)`).
  Addresses are `(sector, offsets)` in the value view `Arr.elem` (stored number × pending sign).

  FULL STATEMENT S7 (`tdotF_assoc`), NOT proved in this generality:
    for valid fermionic `A`, `B`, `C` with pairwise-distinct labels and disjoint axis sets
    `A–B` (`xa1 ~ xb1`), `B–C` (`xb2 ~ xc2`) and OPTIONALLY `A–C` (`xa3 ~ xc3`), all pairs
    `contractibleB`: the four calls succeed, and `(A·B)·C` [second call contracts the images of
    `xa3 ++ xb2` with `xc3 ++ xc2`] and `A·(B·C)` [second call contracts `xa1 ++ xa3` with the
    images of `xb1 ++ xc3`] have equal labels, charge, symmetry, kind, sector sets, index
    tables, and equal values at every address.
  PROVED: `tdotF_assoc_partial` = the full statement with the extra hypothesis
    "no `A–C` legs" (`xa3 = xc3 = []`: a chain, `B` in the middle).  It includes: the four calls
    succeed; equal labels, charge, symmetry, kind; equal sector SETS (characterised by
    `IsTriple`); EQUAL (pruned) index tables, both being `dropUnused` of the un-pruned frame
    `free legs of A ++ free legs of B ++ free legs of C` w.r.t. the final sectors (pruning twice
    is pruning once); equal values at every address.  Corollaries for GIVEN results of the four
    calls: `tdotF_assoc_partial_at` (every key, every offset inside the stored block) and
    `tdotF_assoc_partial_dense` (`c2.toDenseF = c1.toDenseF`).
  Block ORDER may differ between the routes (as for S5), so `ObsEq` (list equality of block
  dictionaries) is not claimed; values are compared address by address.
  MISSING for the full statement: triangles (`A–C` legs): the sign identity then also involves
  the free legs of `B` that `A`'s resp. `C`'s contracted legs are moved across; the sum and label
  parts of the present proof carry over unchanged.
-/
import SymmModel.Proofs.AssocMain
import SymmModel.Props.C04b

namespace SymmModel.C04
open SymmModel SymmModel.GradedP SymmModel.TdotP SymmModel.RoutesP SymmModel.AssocP
open SymmModel.Lazy (sgnI)

variable {R : Type}

/-! ## the weak guard and the generalised refinement theorem -/

theorem contractibleCommonB_def (a b : Arr R) (xa xb : List Nat) :
    contractibleCommonB a b xa xb
      = (xa.length == xb.length
        && (xa.zip xb).all (fun p =>
          cmAgree (a.indices.getD p.1 default).cm (b.indices.getD p.2 default).cm
          && ((a.indices.getD p.1 default).dual != (b.indices.getD p.2 default).dual)))
    ∧ ∀ c1 c2, cmAgree c1 c2 = c1.all (fun p => match alookup c2 p.1 with
        | some d => d == p.2
        | none => true) :=
  ⟨rfl, fun _ _ => rfl⟩

/-- the documented guard (equal charge tables) implies the weak one -/
theorem commonB_of_contractibleB {a b : Arr R} {xa xb : List Nat} (ha : a.validB = true)
    (hA : ∀ i ∈ xa, i < a.ndim) (hc : ValidP.contractibleB a b xa xb = true) :
    contractibleCommonB a b xa xb = true :=
  AssocP.commonB_of_contractibleB ha hA hc

/-- **C03's refinement theorem under the weak guard** (`tdotAdmissibleCommonB`: same symmetry,
    `contractibleCommonB`, distinct in-range axes): same conclusion as
    `C03.tensordotF_refines_graded_at`, and the call is the label sort followed by attaching
    labels and label sign to the core contraction. -/
theorem tensordotF_refines_graded_common [AddMonoid R] [Mul R] [Neg R] [SignRing R] (a b c : Arr R)
    (xa xb : List Nat)
    (ha : a.validB = true) (hb : b.validB = true) (hfa : a.fermi = true) (hfb : b.fermi = true)
    (hadm : tdotAdmissibleCommonB a b xa xb = true)
    (h : a.tensordotF b (.pair (xa.map Int.ofNat) (xb.map Int.ofNat)) .blockwise = .ok c) :
    ∃ out ph, OddposP.mergeOddpos a.parity a.oddpos b.oddpos = .ok (out, ph)
      ∧ c.oddpos = out
      ∧ c.charge = a.sym.combine [a.charge, b.charge]
      ∧ ∀ (s : Sector) (oL oR : List Nat), oL.length = (freeAxes a.ndim xa).length →
          inBox (Arr.blockShapeD (without a.indices xa ++ without b.indices xb) s) (oL ++ oR) = true →
          c.elem s (oL ++ oR) = sgnI ph (gradedContract a b xa xb s oL oR) := by
  have W := AdmW.of ha hb hfa hfb hadm
  rw [tensordotF_eq_core_w a b xa xb W] at h
  have F := coreT_frame_w a b xa xb W
  cases hm : OddposP.mergeOddpos a.parity a.oddpos b.oddpos with
  | error e => rw [hm] at h; cases h
  | ok r =>
    rw [hm] at h
    simp only [Except.map, Except.ok.injEq] at h
    subst h
    obtain ⟨f1, _, _, _, _, f6⟩ := finish_fields (coreT a b xa xb) r
    refine ⟨r.1, r.2, rfl, f6, by rw [f1, F.charge], ?_⟩
    intro s oL oR hoL ho
    rw [finish_elem _ _ (coreFrame_signOk F), F.elem s oL oR hoL ho]

/-! ## S7 for a chain -/

/-- **S7 tdotF_assoc_partial** (chain `A–B–C`, no `A–C` legs).  Valid fermionic `A`, `B`, `C`
    with pairwise-distinct labels; `A`'s axes `xa` contractible with `B`'s `xb1`, `B`'s `xb2` with
    `C`'s `xc`, `xb1` and `xb2` disjoint.  Then all four calls succeed (blockwise mode) and the
    two routes `c1 = (A·B)·C`, `c2 = A·(B·C)` have the same labels, charge, symmetry and kind, the
    same sector set — exactly the keys `s` made of the free parts of a stored aligned sector
    triple —, the same index tables (the un-pruned frame of the three operands' free legs, pruned
    to the final sectors) and the same value at every address `(LA ++ LM ++ LC, oA ++ oM ++ oC)` (free legs of
    `A`, then of `B`, then of `C`; offsets inside the boxes of the operands' index tables);
    at keys that are not sectors both values are `0`. -/
theorem tdotF_assoc_partial [AddCommMonoid R] [Mul R] [Neg R] [SignRing R] [AssocLaws R]
    (A B C : Arr R) (xa xb1 xb2 xc : List Nat)
    (hA : A.validB = true) (hB : B.validB = true) (hC : C.validB = true)
    (hfA : A.fermi = true) (hfB : B.fermi = true) (hfC : C.fermi = true)
    (h1 : ValidP.tdotAdmissibleB A B xa xb1 = true) (h2 : ValidP.tdotAdmissibleB B C xb2 xc = true)
    (hn : (xb1 ++ xb2).Nodup)
    (hd : (A.oddpos ++ B.oddpos ++ C.oddpos).Pairwise (fun x y => x.1 ≠ y.1)) :
    ∃ AB BC c1 c2 : Arr R,
      A.tensordotF B (.pair (xa.map Int.ofNat) (xb1.map Int.ofNat)) .blockwise = .ok AB
      ∧ AB.tensordotF C (.pair ((axesAB A.ndim B.ndim xa xb1 xb2).map Int.ofNat) (xc.map Int.ofNat))
          .blockwise = .ok c1
      ∧ B.tensordotF C (.pair (xb2.map Int.ofNat) (xc.map Int.ofNat)) .blockwise = .ok BC
      ∧ A.tensordotF BC (.pair (xa.map Int.ofNat) ((axesBC B.ndim xb1 xb2).map Int.ofNat))
          .blockwise = .ok c2
      ∧ c2.oddpos = c1.oddpos ∧ c2.charge = c1.charge ∧ c2.sym = c1.sym ∧ c2.fermi = c1.fermi
      ∧ (∀ s, s ∈ c1.sectors ↔ ∃ t, IsTriple A B C xa xb1 xb2 xc s t)
      ∧ (∀ s, s ∈ c2.sectors ↔ s ∈ c1.sectors)
      ∧ c2.indices = c1.indices
      ∧ c1.indices = dropUnused (without A.indices xa
          ++ (permuted B.indices (freeAxes B.ndim (xb1 ++ xb2)) ++ without C.indices xc)) c1.sectors
      ∧ ∀ (LA LM LC : Sector) (oA oM oC : List Nat),
          FreeAddr A B C xa xb1 xb2 xc LA LM LC oA oM oC →
          c2.elem (LA ++ LM ++ LC) (oA ++ oM ++ oC) = c1.elem (LA ++ LM ++ LC) (oA ++ oM ++ oC) :=
  tdotF_assoc_chain A B C xa xb1 xb2 xc hA hB hC hfA hfB hfC h1 h2 hn hd

/-- **S7, sector form.**  The same for GIVEN results of the four calls: equal labels, charge, index
    tables and sector sets, and for every key `s` and offsets `o` — inside the block of `s` when
    `s` is a stored sector of `c1`, arbitrary otherwise — equal values. -/
theorem tdotF_assoc_partial_at [AddCommMonoid R] [Mul R] [Neg R] [SignRing R] [AssocLaws R]
    (A B C AB BC c1 c2 : Arr R) (xa xb1 xb2 xc : List Nat)
    (hA : A.validB = true) (hB : B.validB = true) (hC : C.validB = true)
    (hfA : A.fermi = true) (hfB : B.fermi = true) (hfC : C.fermi = true)
    (h1 : ValidP.tdotAdmissibleB A B xa xb1 = true) (h2 : ValidP.tdotAdmissibleB B C xb2 xc = true)
    (hn : (xb1 ++ xb2).Nodup)
    (hd : (A.oddpos ++ B.oddpos ++ C.oddpos).Pairwise (fun x y => x.1 ≠ y.1))
    (e1 : A.tensordotF B (.pair (xa.map Int.ofNat) (xb1.map Int.ofNat)) .blockwise = .ok AB)
    (e2 : AB.tensordotF C (.pair ((axesAB A.ndim B.ndim xa xb1 xb2).map Int.ofNat) (xc.map Int.ofNat))
        .blockwise = .ok c1)
    (e3 : B.tensordotF C (.pair (xb2.map Int.ofNat) (xc.map Int.ofNat)) .blockwise = .ok BC)
    (e4 : A.tensordotF BC (.pair (xa.map Int.ofNat) ((axesBC B.ndim xb1 xb2).map Int.ofNat))
        .blockwise = .ok c2) :
    c2.oddpos = c1.oddpos ∧ c2.charge = c1.charge ∧ c2.indices = c1.indices
      ∧ (∀ s, s ∈ c2.sectors ↔ s ∈ c1.sectors)
      ∧ ∀ (s : Sector) (o : List Nat),
          (s ∈ c1.sectors → inBox (Arr.blockShapeD c1.indices s) o = true) →
          c2.elem s o = c1.elem s o := by
  obtain ⟨AB', BC', c1', c2', d1, d2, d3, d4, r1, r2, _, _, r5, r6, r7, r8, r9⟩ :=
    tdotF_assoc_chain A B C xa xb1 xb2 xc hA hB hC hfA hfB hfC h1 h2 hn hd
  rw [e1] at d1
  obtain rfl := Except.ok.inj d1
  rw [e3] at d3
  obtain rfl := Except.ok.inj d3
  rw [e2] at d2
  obtain rfl := Except.ok.inj d2
  rw [e4] at d4
  obtain rfl := Except.ok.inj d4
  exact ⟨r1, r2, r7, r6, elem_eq_of_sector A B C c1 c2 xa xb1 xb2 xc (Arr.shapesOk_of_validB hA)
    (Arr.shapesOk_of_validB hB) (Arr.shapesOk_of_validB hC) r8 r5 r6 r9⟩

/-- **S7, dense form.**  The two routes give the same `to_dense()` (same `Except` value: the
    same dense array, or both raise because an index table of the result is empty). -/
theorem tdotF_assoc_partial_dense [AddCommMonoid R] [Mul R] [Neg R] [SignRing R] [AssocLaws R]
    (A B C AB BC c1 c2 : Arr R) (xa xb1 xb2 xc : List Nat)
    (hA : A.validB = true) (hB : B.validB = true) (hC : C.validB = true)
    (hfA : A.fermi = true) (hfB : B.fermi = true) (hfC : C.fermi = true)
    (h1 : ValidP.tdotAdmissibleB A B xa xb1 = true) (h2 : ValidP.tdotAdmissibleB B C xb2 xc = true)
    (hn : (xb1 ++ xb2).Nodup)
    (hd : (A.oddpos ++ B.oddpos ++ C.oddpos).Pairwise (fun x y => x.1 ≠ y.1))
    (e1 : A.tensordotF B (.pair (xa.map Int.ofNat) (xb1.map Int.ofNat)) .blockwise = .ok AB)
    (e2 : AB.tensordotF C (.pair ((axesAB A.ndim B.ndim xa xb1 xb2).map Int.ofNat) (xc.map Int.ofNat))
        .blockwise = .ok c1)
    (e3 : B.tensordotF C (.pair (xb2.map Int.ofNat) (xc.map Int.ofNat)) .blockwise = .ok BC)
    (e4 : A.tensordotF BC (.pair (xa.map Int.ofNat) ((axesBC B.ndim xb1 xb2).map Int.ofNat))
        .blockwise = .ok c2) :
    c2.toDenseF = c1.toDenseF := by
  obtain ⟨_, _, r3, _, r5⟩ := tdotF_assoc_partial_at A B C AB BC c1 c2 xa xb1 xb2 xc hA hB hC hfA hfB
    hfC h1 h2 hn hd e1 e2 e3 e4
  obtain ⟨AB', BC', c1', c2', d1, d2, _, _, _, _, _, _, _, _, _, r8, _⟩ :=
    tdotF_assoc_chain A B C xa xb1 xb2 xc hA hB hC hfA hfB hfC h1 h2 hn hd
  rw [e1] at d1
  obtain rfl := Except.ok.inj d1
  rw [e2] at d2
  obtain rfl := Except.ok.inj d2
  have hAB := adm_of_admissible hA hB hfA hfB h1
  have hBC := adm_of_admissible hB hC hfB hfC h2
  apply toDenseF_eq_of c1 c2 r3 ?_ r5
  intro ix hix
  rw [r8] at hix
  refine ValidP.sortedCharges_nodup (ValidP.wfB_cmOk (ValidP.dropUnused_wf (sym := A.sym) _ ?_ ix hix)).1
  intro i hi
  rcases List.mem_append.mp hi with h | h
  · exact ((ValidP.validB_iff A).mp hA).idx i (ValidP.mem_without h)
  · rcases List.mem_append.mp h with h | h
    · rw [hAB.sym]; exact ((ValidP.validB_iff B).mp hB).idx i (TdotP.mem_permuted h)
    · rw [hAB.sym, hBC.sym]; exact ((ValidP.validB_iff C).mp hC).idx i (ValidP.mem_without h)

/-- the vocabulary of the statement, spelled out -/
theorem assoc_vocabulary (A B C : Arr R) (xa xb1 xb2 xc : List Nat) (s : Sector)
    (t : Sector × Sector × Sector) :
    axesAB A.ndim B.ndim xa xb1 xb2
        = (positions (freeAxes B.ndim xb1) xb2).map ((freeAxes A.ndim xa).length + ·)
    ∧ axesBC B.ndim xb1 xb2 = positions (freeAxes B.ndim xb2) xb1
    ∧ (IsTriple A B C xa xb1 xb2 xc s t ↔
        t.1 ∈ A.sectors ∧ t.2.1 ∈ B.sectors ∧ t.2.2 ∈ C.sectors
        ∧ permuted t.2.1 xb1 = permuted t.1 xa ∧ permuted t.2.2 xc = permuted t.2.1 xb2
        ∧ permuted t.1 (freeAxes A.ndim xa) ++ permuted t.2.1 (freeAxes B.ndim (xb1 ++ xb2))
            ++ permuted t.2.2 (freeAxes C.ndim xc) = s) :=
  ⟨rfl, rfl, Iff.rfl⟩

/-- both routes compute the same three-operand graded contraction: the value of `c1` (and `c2`)
    at a free address is the product of the two label signs times the signed sum over the stored
    sector triples of the plain triple contractions (`S3`: Koszul signs of `A` to `(free, xa)`,
    of `B` to `(xb1, free, xb2)`, of `C` to `(xc, free)`, the two reversal signs and the two
    ket-bra signs) -/
theorem route_left_value [AddCommMonoid R] [Mul R] [Neg R] [SignRing R] [AssocLaws R]
    {A B C AB : Arr R} {xa xb1 xb2 xc : List Nat} {ph : Int}
    (I : Inter A B xa xb1 AB ph) (hAB : Adm A B xa xb1) (hn : (xb1 ++ xb2).Nodup)
    (hlt : ∀ i ∈ xb2, i < B.ndim)
    {LA LM LC : Sector} {oA oM oC : List Nat} (fa : FreeAddr A B C xa xb1 xb2 xc LA LM LC oA oM oC) :
    gradedContract AB C (axesAB A.ndim B.ndim xa xb1 xb2) xc (LA ++ LM ++ LC) (oA ++ oM) oC
      = sgnI ph (((triplesL A B C AB xa xb1 xb2 xc (LA ++ LM ++ LC)).map
          (fun t => sgnI (S3 A B C xa xb1 xb2 xc t) (W3 A B C xa xb1 xb2 xc oA oM oC t))).sum) :=
  route_left I hAB (Mid.of hn (by
    intro i hi
    rcases List.mem_append.mp hi with h | h
    · exact hAB.ltB i h
    · exact hlt i h)) fa

/-! ## the driver's scalar type is covered -/

attribute [local instance] C02.addCommMonoidGRat in
instance assocLawsGRat : @AssocLaws GRat C02.addCommMonoidGRat _ where
  mul_assoc x y z := Lazy.GRat.ext'
    (by show (x.re * y.re - x.im * y.im) * z.re - (x.re * y.im + x.im * y.re) * z.im
          = x.re * (y.re * z.re - y.im * z.im) - x.im * (y.re * z.im + y.im * z.re); ring)
    (by show (x.re * y.re - x.im * y.im) * z.im + (x.re * y.im + x.im * y.re) * z.re
          = x.re * (y.re * z.im + y.im * z.re) + x.im * (y.re * z.re - y.im * z.im); ring)
  left_distrib x y z := Lazy.GRat.ext'
    (by show x.re * (y.re + z.re) - x.im * (y.im + z.im)
          = (x.re * y.re - x.im * y.im) + (x.re * z.re - x.im * z.im); ring)
    (by show x.re * (y.im + z.im) + x.im * (y.re + z.re)
          = (x.re * y.im + x.im * y.re) + (x.re * z.im + x.im * z.re); ring)
  right_distrib x y z := Lazy.GRat.ext'
    (by show (x.re + y.re) * z.re - (x.im + y.im) * z.im
          = (x.re * z.re - x.im * z.im) + (y.re * z.re - y.im * z.im); ring)
    (by show (x.re + y.re) * z.im + (x.im + y.im) * z.re
          = (x.re * z.im + x.im * z.re) + (y.re * z.im + y.im * z.re); ring)
  zero_mul x := Lazy.GRat.ext'
    (by show (0 : Rat) * x.re - 0 * x.im = 0; ring) (by show (0 : Rat) * x.im + 0 * x.re = 0; ring)
  mul_zero x := Lazy.GRat.ext'
    (by show x.re * (0 : Rat) - x.im * 0 = 0; ring) (by show x.re * (0 : Rat) + x.im * 0 = 0; ring)

/-- S7 for a chain with exactly the instances the driver is compiled with -/
theorem tdotF_assoc_partial_GRat (A B C : Arr GRat) (xa xb1 xb2 xc : List Nat)
    (hA : A.validB = true) (hB : B.validB = true) (hC : C.validB = true)
    (hfA : A.fermi = true) (hfB : B.fermi = true) (hfC : C.fermi = true)
    (h1 : ValidP.tdotAdmissibleB A B xa xb1 = true) (h2 : ValidP.tdotAdmissibleB B C xb2 xc = true)
    (hn : (xb1 ++ xb2).Nodup)
    (hd : (A.oddpos ++ B.oddpos ++ C.oddpos).Pairwise (fun x y => x.1 ≠ y.1)) :
    ∃ AB BC c1 c2 : Arr GRat,
      @Arr.tensordotF GRat GRat.instZero GRat.instAdd GRat.instMul GRat.instNeg A B
          (.pair (xa.map Int.ofNat) (xb1.map Int.ofNat)) .blockwise = .ok AB
      ∧ @Arr.tensordotF GRat GRat.instZero GRat.instAdd GRat.instMul GRat.instNeg AB C
          (.pair ((axesAB A.ndim B.ndim xa xb1 xb2).map Int.ofNat) (xc.map Int.ofNat)) .blockwise = .ok c1
      ∧ @Arr.tensordotF GRat GRat.instZero GRat.instAdd GRat.instMul GRat.instNeg B C
          (.pair (xb2.map Int.ofNat) (xc.map Int.ofNat)) .blockwise = .ok BC
      ∧ @Arr.tensordotF GRat GRat.instZero GRat.instAdd GRat.instMul GRat.instNeg A BC
          (.pair (xa.map Int.ofNat) ((axesBC B.ndim xb1 xb2).map Int.ofNat)) .blockwise = .ok c2
      ∧ c2.oddpos = c1.oddpos ∧ c2.charge = c1.charge
      ∧ (∀ s, s ∈ c2.sectors ↔ s ∈ c1.sectors) ∧ c2.indices = c1.indices
      ∧ ∀ (LA LM LC : Sector) (oA oM oC : List Nat),
          FreeAddr A B C xa xb1 xb2 xc LA LM LC oA oM oC →
          @Arr.elem GRat GRat.instZero GRat.instNeg c2 (LA ++ LM ++ LC) (oA ++ oM ++ oC)
            = @Arr.elem GRat GRat.instZero GRat.instNeg c1 (LA ++ LM ++ LC) (oA ++ oM ++ oC) := by
  obtain ⟨AB, BC, c1, c2, e1, e2, e3, e4, e5, e6, _, _, _, e10, e12, _, e11⟩ :=
    @tdotF_assoc_chain GRat C02.addCommMonoidGRat GRat.instMul GRat.instNeg C03.signRingGRat
      assocLawsGRat A B C xa xb1 xb2 xc hA hB hC hfA hfB hfC h1 h2 hn hd
  exact ⟨AB, BC, c1, c2, e1, e2, e3, e4, e5, e6, e10, e12, e11⟩

/-! ## non-vacuity: an odd chain in which the second route really meets pruned tables

`C03.gA[i,k,l]` (odd, label 1, pending sign), `cB[l',k',j]` = three of the four sectors of
`C03.gB` (odd, label 3, pending sign), `cC[j',m]` with the single sector `j' = 1` (odd, label 5,
pending sign).  `B·C` only stores `l' = 0`, so its `l'` table is pruned and `(gA, B·C)` is NOT
`contractibleB` — but `contractibleCommonB`. -/

open SymmModel.C03 in
def cB : Arr Int :=
  { sym := .Z2, fermi := true, indices := [ixk true, ixk false, ixi true], charge := (1, 0),
    blocks := [([(1,0),(0,0),(0,0)], mkB [2,1,2] 1), ([(0,0),(1,0),(0,0)], mkB [1,2,2] (-2)),
               ([(0,0),(0,0),(1,0)], mkB [1,1,1] 5)],
    phases := [([(0,0),(1,0),(0,0)], -1)], oddpos := [(3, false)] }

open SymmModel.C03 in
def cC : Arr Int :=
  { sym := .Z2, fermi := true, indices := [ixi false, ixk true], charge := (1, 0),
    blocks := [([(1,0),(0,0)], mkB [1,1] 7)],
    phases := [([(1,0),(0,0)], -1)], oddpos := [(5, true)] }

open SymmModel.C03 in
/-- the hypotheses of `tdotF_assoc_partial`: `A`'s `l` (axis 2) with `B`'s `l'` (axis 0), `B`'s `j`
    (axis 2) with `C`'s `j'` (axis 0) -/
example : gA.validB = true ∧ cB.validB = true ∧ cC.validB = true
    ∧ gA.fermi = true ∧ cB.fermi = true ∧ cC.fermi = true
    ∧ ValidP.tdotAdmissibleB gA cB [2] [0] = true ∧ ValidP.tdotAdmissibleB cB cC [2] [0] = true
    ∧ ([0] ++ [2] : List Nat).Nodup
    ∧ (gA.oddpos ++ cB.oddpos ++ cC.oddpos).Pairwise (fun x y => x.1 ≠ y.1)
    ∧ gA.parity = true ∧ cB.parity = true ∧ cC.parity = true := by decide +kernel

example : AssocLaws Int ∧ SignRing Int := ⟨inferInstance, inferInstance⟩

def resOf (r : Except Err (Arr Int)) : Arr Int :=
  match r with
  | .ok c => c
  | .error _ => default

open SymmModel.C03 in
def exAB : Arr Int := resOf (gA.tensordotF cB (.pair [2] [0]) .blockwise)
def exBC : Arr Int := resOf (cB.tensordotF cC (.pair [2] [0]) .blockwise)

open SymmModel.C03 in
/-- the axes of the second calls, and the pruning: `B·C` lost the charge `1` of `l'` (and of
    `k'`), so the documented guard fails for `(A, B·C)` while the weak one holds -/
theorem pruned_not_contractible :
    axesAB gA.ndim cB.ndim [2] [0] [2] = [3] ∧ axesBC cB.ndim [0] [2] = [0]
    ∧ exBC.indices.map Index.charges = [[(0,0)], [(0,0)], [(0,0)]]
    ∧ ValidP.contractibleB gA exBC [2] [0] = false
    ∧ contractibleCommonB gA exBC [2] [0] = true
    ∧ ValidP.contractibleB exAB cC [3] [0] = true := by decide +kernel

open SymmModel.C03 in
/-- a sanity instance of the conclusion: both routes succeed, give the labels `[(5,†), 1, 3]`,
    odd charge, the sectors `(i,k,k',m) = (1,0,0,0), (0,1,0,0)`, and equal non-zero values -/
example :
    labelsOf (exAB.tensordotF cC (.pair [3] [0]) .blockwise) = [(5, true), (1, false), (3, false)]
    ∧ labelsOf (gA.tensordotF exBC (.pair [2] [0]) .blockwise) = [(5, true), (1, false), (3, false)]
    ∧ sectorsOf (exAB.tensordotF cC (.pair [3] [0]) .blockwise)
        = some [[(1,0),(0,0),(0,0),(0,0)], [(0,0),(1,0),(0,0),(0,0)]]
    ∧ sectorsOf (gA.tensordotF exBC (.pair [2] [0]) .blockwise)
        = some [[(1,0),(0,0),(0,0),(0,0)], [(0,0),(1,0),(0,0),(0,0)]]
    ∧ elemOf (exAB.tensordotF cC (.pair [3] [0]) .blockwise) [(1,0),(0,0),(0,0),(0,0)] [0,0,0,0]
        = elemOf (gA.tensordotF exBC (.pair [2] [0]) .blockwise) [(1,0),(0,0),(0,0),(0,0)] [0,0,0,0]
    ∧ elemOf (exAB.tensordotF cC (.pair [3] [0]) .blockwise) [(0,0),(1,0),(0,0),(0,0)] [1,1,0,0]
        = elemOf (gA.tensordotF exBC (.pair [2] [0]) .blockwise) [(0,0),(1,0),(0,0),(0,0)] [1,1,0,0]
    ∧ elemOf (exAB.tensordotF cC (.pair [3] [0]) .blockwise) [(0,0),(1,0),(0,0),(0,0)] [1,1,0,0]
        ≠ some 0 := by decide +kernel

open SymmModel.C03 in
/-- an address meeting `FreeAddr`: sector `(i,k | k' | m) = (0,1 | 0 | 0)`, offsets `(1,1 | 0 | 0)` -/
example : FreeAddr gA cB cC [2] [0] [2] [0] [(0,0),(1,0)] [(0,0)] [(0,0)] [1,1] [0] [0] :=
  ⟨by decide, by decide, by decide, by decide, by decide, by decide +kernel, by decide +kernel,
   by decide +kernel⟩

end SymmModel.C04
