/-
  Property C08, second part — reductions, adjoint, squeeze / expand_dims, block vectors.
  (First part: Props/C08.lean; both are imported by Props/C08All.lean.)

  Same conventions: abelian arrays (`phases = []`) unless said otherwise, every rank and
  symmetry, arbitrary scalar type with the laws needed as explicit hypotheses / Mathlib's
  `AddCommMonoid` for the commutative sums.
-/
import SymmModel.Proofs.DenseMore
import SymmModel.Props.C08
import SymmModel.Props.C12

namespace SymmModel.C08
open SymmModel Arr DenseP

variable {R S : Type}

/-! ## 3. reductions: sum and norm² of the blocks = sum and norm² of the dense array -/

/-- **reindexing lemma.**  Summing a function of the located address over all positions of the
    dense box = summing it over all sectors of the product of the (sorted) charge tables and all
    offsets of each sector's block box: `locateAll` is a bijection box ↔ addresses. -/
theorem sum_locateAll_reindex {M : Type} [AddCommMonoid M] (indices : List Index)
    (G : Option (Sector × List Nat) → M) :
    ((allIdx (indices.map Index.sizeTotal)).map (fun p => G (locateAll indices p))).sum
      = ((cartesian (tables indices)).map (fun e =>
          ((allIdx (e.map (·.2))).map (fun off => G (some (e.map (·.1), off)))).sum)).sum :=
  sum_locateAll indices G

/-- `sum` (Driver/Ops.lean "sum" on an abelian array; block_core.py `_do_reduction("sum")`): the
    sum of the block sums equals the sum of all entries of the dense array -/
theorem sum_toDense [AddCommMonoid R] [Neg R] (a : Arr R) (hab : a.phases = []) (hne : NoEmpty a)
    (hsh : ShapesOk a) (hnd : a.sectors.Nodup) (hwf : ∀ p ∈ a.blocks, p.2.wf = true)
    (d : Blk R) (hd : toDenseA a = .ok d) :
    a.blocks.foldl (fun acc (_, b) => acc + b.sumAll) 0 = d.sumAll := by
  have h := sum_map_toDense (M := R) id rfl a hne hsh hnd hwf
    (fun s b off hb => by simp only [id, elem_abelian a hab, hb]) d hd
  simp only [List.map_id] at h
  show a.blocks.foldl (fun acc x => acc + x.2.sumAll) 0 = _
  rw [foldl_add_eq_sum, zero_add]
  simp only [Blk.sumAll, ← Array.foldl_toList, ← List.sum_eq_foldl]
  exact h.symm

theorem sum_toDense_of_valid [AddCommMonoid R] [Neg R] (a : Arr R) (hv : a.validB = true)
    (hab : a.fermi = false) (hne : NoEmpty a) (d : Blk R) (hd : toDenseA a = .ok d) :
    a.blocks.foldl (fun acc (_, b) => acc + b.sumAll) 0 = d.sumAll := by
  obtain ⟨h1, h2, _, _, _, h6⟩ := validB_facts a hv
  exact sum_toDense a (h6 hab) hne h1 h2 (validB_wf hv) d hd

/-- **norm_sq_eq_dense** (also the planned item of C12).  For `nsq` even with `nsq 0 = 0`
    (e.g. `|·|²`), the block-data sum `C12.normSq2` (the driver's "norm2") equals the sum of `nsq`
    over all entries of the dense array — pending signs allowed, since `nsq` does not see them. -/
theorem norm_sq_eq_dense [Zero R] [Neg R] [AddCommMonoid S] (nsq : R → S) (hn0 : nsq 0 = 0)
    (hneg : ∀ x, nsq (-x) = nsq x) (a : Arr R) (hne : NoEmpty a)
    (hsh : ShapesOk a) (hnd : a.sectors.Nodup) (hwf : ∀ p ∈ a.blocks, p.2.wf = true)
    (d : Blk R) (hd : toDenseA a = .ok d) :
    C12.normSq2 nsq a = (d.map nsq).sumAll := by
  have h := sum_map_toDense nsq hn0 a hne hsh hnd hwf
    (fun s b off hb => by
      simp only [elem, hb]
      split
      · exact hneg _
      · rfl) d hd
  show a.blocks.foldl (fun acc x => acc + (x.2.map nsq).sumAll) 0 = _
  rw [foldl_add_eq_sum, zero_add]
  simp only [Blk.sumAll, Blk.map, ← Array.foldl_toList, ← List.sum_eq_foldl, Array.toList_map]
  exact h.symm

theorem norm_sq_eq_dense_of_valid [Zero R] [Neg R] [AddCommMonoid S] (nsq : R → S)
    (hn0 : nsq 0 = 0) (hneg : ∀ x, nsq (-x) = nsq x) (a : Arr R) (hv : a.validB = true)
    (hne : NoEmpty a) (d : Blk R) (hd : toDenseA a = .ok d) :
    C12.normSq2 nsq a = (d.map nsq).sumAll := by
  obtain ⟨h1, h2, _, _, _, _⟩ := validB_facts a hv
  exact norm_sq_eq_dense nsq hn0 hneg a hne h1 h2 (validB_wf hv) d hd

/-! ## 2. the adjoint -/

/-- the abelian adjoint as the driver's "dagger" computes it: conjugate, then reverse the axes -/
def daggerA [Zero R] [Conj R] (a : Arr R) : Arr R := a.conjA.transposeA (reversedAxes a.ndim)

/-- the dense form of the adjoint is the conjugate transpose of the dense form: reversed shape,
    and the entry at the reversed position is the conjugate of the original entry -/
theorem dagger_toDense [Zero R] [Neg R] [Conj R] (h0 : Conj.conj (0 : R) = 0) (a : Arr R)
    (hab : a.phases = []) (hne : NoEmpty a) (hsa : ShapesOk a) (hnd : a.sectors.Nodup)
    (hlen : ∀ s ∈ a.sectors, s.length = a.ndim) :
    ∃ d d', toDenseA a = .ok d ∧ toDenseA (daggerA a) = .ok d' ∧ d.shape = a.shape
      ∧ d'.shape = a.shape.reverse
      ∧ ∀ p, inBox a.shape p = true → d'.get p.reverse = Conj.conj (d.get p) := by
  obtain ⟨d, dc, h1, h2, s1, s2, hc⟩ := conj_toDense h0 a hab hne
  have hnd' : (conjA a).sectors = a.sectors := (conj_indices a).2.2
  have hndim : (conjA a).ndim = a.ndim := by simp [ndim, conjA]
  have hshape : (conjA a).shape = a.shape := shape_congr (map_cm_conj a.indices)
  obtain ⟨dc', d', h3, h4, _, s4, ht⟩ := transposeA_toDense (conjA a) (reversedAxes a.ndim)
    (by rw [hndim]; exact isPerm_reversedAxes _) hab
    (by rw [NoEmpty, show (conjA a).indices = a.indices.map Index.conj from rfl,
      noEmpty_congr (map_cm_conj a.indices)]; exact hne)
    (shapesOk_conjA hsa) (by rw [hnd']; exact hnd) (by rw [hnd', hndim]; exact hlen)
  rw [h2] at h3; injection h3 with h3; subst h3
  have hrev : ∀ {α : Type} (l : List α), l.length = a.ndim → permuted l (reversedAxes a.ndim) = l.reverse := by
    intro α l hl
    apply List.ext_getElem?
    intro k
    rw [getElem?_permuted l _ (fun q hq => by
      have := isPerm_lt (isPerm_reversedAxes a.ndim) q hq; omega)]
    simp only [reversedAxes]
    by_cases hk : k < a.ndim
    · rw [List.getElem?_reverse (by simpa using hk), List.getElem?_reverse (by omega)]
      simp only [List.length_range]
      rw [List.getElem?_range (by omega)]
      simp [hl]
    · rw [List.getElem?_eq_none (by simp; omega), List.getElem?_eq_none (by simp; omega)]
      rfl
  refine ⟨d, d', h1, h4, s1, ?_, fun p hp => ?_⟩
  · rw [s4, hshape, hrev _ (by simp [shape, ndim])]
  · have := ht p (by rw [hshape]; exact hp)
    rw [hrev p (by rw [inBox_length hp]; simp [shape, ndim])] at this
    rw [this, hc p hp]

/-! ## 1. squeeze and expand_dims

`dropMask m l` (Proofs/DenseMore.lean) drops the entries of `l` whose bit in `m` is set;
`ins axis x l` inserts `x` before position `axis`.  `squeezeMask a axis` is the removal mask
`squeeze` computes (one bit per axis) or the error it raises; `squeezed a keep` is the array
`squeeze` returns once the kept axes are known. -/

/-- `squeeze` = compute the removal mask (or raise), then keep the unmasked axes -/
theorem squeeze_eq_mask (a : Arr R) (axis : Option (List Nat)) :
    a.squeeze axis =
      match squeezeMask a axis with
      | .error e => .error e
      | .ok m => .ok (squeezed a (keptAxes m 0)) :=
  squeeze_eq a axis

/-- `squeeze` raises — a `ValueError`, nothing else — exactly when some selected axis (all
    size-one axes for `axis = None`, the listed ones otherwise) was listed although it is larger
    than one, or does not carry exactly the identity charge -/
theorem squeeze_error_iff (a : Arr R) (axis : Option (List Nat)) :
    ((∃ e, a.squeeze axis = .error e) ↔
      ∃ (i : Nat) (ix : Index), a.indices[i]? = some ix ∧ sqSelected axis ix i = true
        ∧ ((axis.isSome = true ∧ ix.sizeTotal > 1) ∨ ∀ d, ix.cm ≠ [(a.sym.zero, d)]))
    ∧ ∀ e, a.squeeze axis = .error e → e = Err.value :=
  squeeze_error_iff_main a axis

/-- the mask of a successful `squeeze`: a set bit ⇔ the axis was selected; selected axes carry
    exactly the identity charge with size ≤ 1 -/
theorem squeeze_mask_spec (a : Arr R) (axis : Option (List Nat)) (a' : Arr R)
    (h : a.squeeze axis = .ok a') :
    ∃ m, squeezeMask a axis = .ok m ∧ a' = squeezed a (keptAxes m 0) ∧ m.length = a.ndim
      ∧ a'.indices = dropMask m a.indices ∧ a'.charge = a.charge
      ∧ ∀ (i : Nat) (ix : Index), a.indices[i]? = some ix →
          (m[i]? = some true → sqSelected axis ix i = true ∧ ∃ d, ix.cm = [(a.sym.zero, d)] ∧ d ≤ 1)
          ∧ (m[i]? = some false → sqSelected axis ix i = false) := by
  rw [squeeze_eq_mask] at h
  cases hm : squeezeMask a axis with
  | error e => rw [hm] at h; cases h
  | ok m =>
    rw [hm] at h
    injection h with h
    obtain ⟨hl, hspec⟩ := squeezeMask_ok hm
    refine ⟨m, rfl, h.symm, hl, ?_, by rw [← h]; rfl, hspec⟩
    rw [← h]
    exact permuted_keptAxes_zero m a.indices hl.symm

/-- **squeeze, value view**: for every sector of the index tables and every offset of its block
    box, dropping the removed coordinates gives an address of the result with the same value -/
theorem squeeze_elem [Zero R] [Neg R] (a : Arr R) (axis : Option (List Nat)) (a' : Arr R)
    (h : a.squeeze axis = .ok a') (hab : a.phases = []) (hsh : ShapesOk a) (hnd : a.sectors.Nodup) :
    ∃ m, squeezeMask a axis = .ok m ∧
      ∀ s shp off, blockShape? a.indices s = some shp → inBox shp off = true →
        a'.elem (dropMask m s) (dropMask m off) = a.elem s off := by
  obtain ⟨m, hm, rfl, hl, _, _, hspec⟩ := squeeze_mask_spec a axis a' h
  exact ⟨m, hm, fun s shp off hs ho =>
    squeezed_elem a m hl (fun i ix hix hi => ((hspec i ix hix).1 hi).2) hab hsh hnd s shp off hs ho⟩

/-- **squeeze, dense form**: the dense array of the result is the dense array with the removed
    (size-one) axes dropped: shape with the masked entries dropped, same entries -/
theorem squeeze_toDense [Zero R] [Neg R] (a : Arr R) (axis : Option (List Nat)) (a' : Arr R)
    (h : a.squeeze axis = .ok a') (hab : a.phases = []) (hsh : ShapesOk a) (hnd : a.sectors.Nodup)
    (hne : NoEmpty a) :
    ∃ m d d', squeezeMask a axis = .ok m ∧ toDenseA a = .ok d ∧ toDenseA a' = .ok d'
      ∧ d.shape = a.shape ∧ d'.shape = dropMask m a.shape
      ∧ ∀ p, inBox a.shape p = true → d'.get (dropMask m p) = d.get p := by
  obtain ⟨m, hm, rfl, hl, _, _, hspec⟩ := squeeze_mask_spec a axis a' h
  obtain ⟨d, d', h1, h2, h3, h4, h5⟩ := squeezed_toDense a m hl
    (fun i ix hix hi => ((hspec i ix hix).1 hi).2) hab hsh hnd hne
  exact ⟨m, d, d', hm, h1, h2, h3, h4, h5⟩

/-- `expand_dims(axis)` with the default charge: the new index carries the identity charge with
    size one, the charge of the array is unchanged -/
theorem expandDims_indices (a : Arr R) (axis : Nat) (dual : Option Bool) :
    (a.expandDims axis none dual).indices
        = ins axis (Index.mk [(a.sym.zero, 1)] (expandDual a axis dual) none) a.indices
    ∧ (a.expandDims axis none dual).charge = a.charge :=
  ⟨(expandDims_none_fields a axis dual).1, (expandDims_none_fields a axis dual).2.1⟩

/-- **expand_dims, value view**: inserting the identity charge into a sector and offset 0 into
    the offsets gives an address of the result holding the same value -/
theorem expandDims_elem [Zero R] [Neg R] (a : Arr R) (axis : Nat) (dual : Option Bool)
    (ha : axis ≤ a.ndim) (hab : a.phases = []) (hnd : a.sectors.Nodup)
    (hlen : ∀ t ∈ a.sectors, t.length = a.ndim)
    (hshape : ∀ t b, alookup a.blocks t = some b → b.shape.length = a.ndim)
    (s : Sector) (hs : s.length = a.ndim) (off : List Nat) (ho : off.length = a.ndim) :
    (a.expandDims axis none dual).elem (ins axis a.sym.zero s) (ins axis 0 off) = a.elem s off :=
  expandDims_elem_main a axis dual ha hab hnd hlen hshape s hs off ho

/-- **expand_dims, dense form**: the dense array of the result is the dense array with a
    size-one axis inserted -/
theorem expandDims_toDense [Zero R] [Neg R] (a : Arr R) (axis : Nat) (dual : Option Bool)
    (ha : axis ≤ a.ndim) (hab : a.phases = []) (hsh : ShapesOk a) (hnd : a.sectors.Nodup)
    (hlen : ∀ t ∈ a.sectors, t.length = a.ndim) (hne : NoEmpty a) :
    ∃ d d', toDenseA a = .ok d ∧ toDenseA (a.expandDims axis none dual) = .ok d'
      ∧ d.shape = a.shape ∧ d'.shape = ins axis 1 a.shape
      ∧ ∀ p, inBox a.shape p = true → d'.get (ins axis 0 p) = d.get p :=
  expandDims_toDense_main a axis dual ha hab hsh hnd hlen hne

/-! ## 4. block vectors

`mapV`, `binopV`, `toDenseV`, `reduceV` (Proofs/DenseMore.lean) are `BlockVector`'s
`apply_to_arrays`/`_do_unary_op`/scalar arithmetic, `_binary_blockwise_op` (through the model's
`binaryBlockwise`), `to_dense` (concatenation in sorted key order) and `_do_reduction`, written as
symmray/block_core.py performs them.  `VecOk v`: every block is a well-formed 1-D array. -/

/-- data view of `to_dense`: total length, and the blocks' data concatenated in sorted key order -/
theorem toDenseV_spec [Zero R] (v : BVec R) (hok : VecOk v) (hne : v.blocks ≠ []) :
    (toDenseV v).shape = [sumN ((sortedV v).map (fun p => p.2.shape.getD 0 0))]
    ∧ (toDenseV v).data.toList = (sortedV v).flatMap (fun p => p.2.data.toList)
    ∧ (sortedV v).Perm v.blocks :=
  ⟨(toDenseV_data v hok hne).1, (toDenseV_data v hok hne).2, isort_perm _ _⟩

/-- every elementwise function (`abs`, `sqrt`, `log`, `clip`, …) and every scalar operation
    (`v * s`, `v / s`, `s - v`, `v ** s`, `-v`, …) commutes with densification — for ANY `f`,
    since a block vector has no implicit zeros -/
theorem mapV_toDense [Zero R] (f : R → R) (v : BVec R) (hok : VecOk v) (hne : v.blocks ≠ []) :
    toDenseV (mapV f v) = (toDenseV v).map f :=
  mapV_toDense_main f v hok hne

/-- binary operations on vectors with the same key set: every mode succeeds and combines the
    blocks key by key -/
theorem binopV_ok [Zero R] (f : R → R → R) (mode : Missing) (x y : BVec R)
    (hk : ∀ k, k ∈ x.blocks.map (·.1) ↔ k ∈ y.blocks.map (·.1)) :
    binopV f mode x y = .ok ⟨x.blocks.map (binBlock f y)⟩ :=
  binopV_same_keys f mode x y hk

/-- … and the dense form of the result is the elementwise combination of the dense forms -/
theorem binopV_toDense [Zero R] (f : R → R → R) (mode : Missing) (x y : BVec R)
    (hokx : VecOk x) (hoky : VecOk y) (hne : x.blocks ≠ [])
    (hndx : (x.blocks.map (·.1)).Nodup) (hndy : (y.blocks.map (·.1)).Nodup)
    (hk : ∀ k, k ∈ x.blocks.map (·.1) ↔ k ∈ y.blocks.map (·.1))
    (hshape : ∀ k bx b, alookup x.blocks k = some bx → alookup y.blocks k = some b → bx.shape = b.shape) :
    ∃ z, binopV f mode x y = .ok z
      ∧ (toDenseV z).shape = (toDenseV x).shape
      ∧ (toDenseV z).data.toList
          = List.zipWith f (toDenseV x).data.toList (toDenseV y).data.toList :=
  binopV_toDense_main f mode x y hokx hoky hne hndx hndy hk hshape

/-- strict mode (`-`, `/`, `**` between vectors) raises a `ValueError` exactly when the key sets
    differ (the model's `binaryBlockwise`, for vectors) -/
theorem binopV_strict_error_iff [Zero R] (f : R → R → R) (x y : BVec R) :
    (∃ e, binopV f .strict x y = .error e) ↔ ¬ ∀ k, k ∈ x.blocks.map (·.1) ↔ k ∈ y.blocks.map (·.1) := by
  rcases binaryBlockwise_strict (Blk.zipWith f) x.blocks y.blocks with ⟨he, hk⟩ | ⟨bl, hbl, hk, _⟩
  · simp only [binopV, he]
    exact ⟨fun _ => hk, fun _ => ⟨_, rfl⟩⟩
  · simp only [binopV, hbl]
    exact ⟨fun ⟨e, h⟩ => (by cases h), fun h => absurd hk h⟩

/-- reductions: for an associative, commutative operation with identity, reducing the per-block
    reductions (`_do_reduction`) gives the reduction of the dense vector -/
theorem reduceV_toDense [Zero R] (op : R → R → R) (e : R)
    (hassoc : ∀ a b c, op (op a b) c = op a (op b c)) (hcomm : ∀ a b, op a b = op b a)
    (hid : ∀ a, op a e = a) (v : BVec R) (hok : VecOk v) (hne : v.blocks ≠ []) :
    reduceV op e v = reduceBlk op e (toDenseV v) :=
  reduceV_toDense_main op e hassoc hcomm hid v hok hne

/-! ## the hypotheses are satisfiable -/

section Examples
namespace Ex2
def ix (d : Bool) : Index := .mk [((0, 0), 1), ((1, 0), 2)] d none
def one (d : Bool) : Index := .mk [((0, 0), 1)] d none
/-- a 3×1×3 U(1) array with a squeezable middle axis -/
def w : Arr Int :=
  { sym := .U1, fermi := false, indices := [ix false, one false, ix true], charge := (0, 0),
    blocks := [([(0, 0), (0, 0), (0, 0)], ⟨[1, 1, 1], #[5]⟩),
               ([(1, 0), (0, 0), (1, 0)], ⟨[2, 1, 2], #[1, 2, 3, 4]⟩)] }
def vx : BVec Int := ⟨[((1, 0), ⟨[2], #[1, 2]⟩), ((0, 0), ⟨[1], #[5]⟩)]⟩
def vy : BVec Int := ⟨[((0, 0), ⟨[1], #[7]⟩), ((1, 0), ⟨[2], #[10, 20]⟩)]⟩
def dataOf (r : Except Err (Blk Int)) : Option (List Nat × List Int) :=
  match r with | .ok b => some (b.shape, b.data.toList) | .error _ => none
def errOf {α : Type} (r : Except Err α) : Option Err :=
  match r with | .ok _ => none | .error e => some e
def vdata (r : Except Err (BVec Int)) : Option (List Nat × List Int) :=
  match r with | .ok v => some ((toDenseV v).shape, (toDenseV v).data.toList) | .error _ => none
end Ex2
open Ex2

example : w.validB = true ∧ NoEmpty w := by decide
example : squeezeMask w none = .ok [false, true, false] ∧ squeezeMask w (some [1]) = .ok [false, true, false] :=
  ⟨rfl, rfl⟩
example : errOf (w.squeeze (some [0])) = some Err.value := by decide
example : dataOf (toDenseA w) = some ([3, 1, 3], [5, 0, 0, 0, 1, 2, 0, 3, 4]) := by decide
example : dataOf (w.squeeze none >>= toDenseA) = some ([3, 3], [5, 0, 0, 0, 1, 2, 0, 3, 4]) := by decide
example : dataOf (toDenseA (C08.Ex.x.expandDims 1 none none))
    = some ([3, 1, 3], [5, 0, 0, 0, 1, 2, 0, 3, 4]) := by decide
/-- conjugation on the integers is the identity -/
local instance : Conj Int := ⟨id⟩
example : dataOf (toDenseA (daggerA C08.Ex.x)) = some ([3, 3], [5, 0, 0, 0, 1, 3, 0, 2, 4]) := by
  decide +kernel
example : w.blocks.foldl (fun acc (_, b) => acc + b.sumAll) 0 = 15 := by decide
example : VecOk vx ∧ VecOk vy := ⟨vecOk_of_all (by decide), vecOk_of_all (by decide)⟩
example : ((toDenseV vx).shape, (toDenseV vx).data.toList) = ([3], [5, 1, 2]) := by decide
example : vdata (binopV (· + ·) .outer vx vy) = some ([3], [12, 11, 22]) := by decide
example : vdata (binopV (· - ·) .strict vx vy) = some ([3], [-2, -9, -18]) := by decide
example : ((toDenseV (mapV (fun t => t * t + 1) vx)).data.toList) = [26, 2, 5] := by decide +kernel
example : reduceV (· + ·) 0 vx = 8 ∧ reduceBlk (· + ·) 0 (toDenseV vx) = 8 := by decide

example := sum_toDense_of_valid (R := Int) w (by decide) rfl (by decide)
example := norm_sq_eq_dense_of_valid (R := Int) (S := Int) (fun t => t * t) rfl
  (fun t => Int.neg_mul_neg t t) w (by decide) (by decide)
example : C12.normSq2 (fun t : Int => t * t) w = 55 := by decide +kernel
example := squeeze_toDense (R := Int) w none _ rfl rfl (hypotheses_of_validB w (by decide)).1
  (hypotheses_of_validB w (by decide)).2.1 (by decide)
example := expandDims_toDense (R := Int) C08.Ex.x 1 none (by decide) rfl
  (hypotheses_of_validB C08.Ex.x (by decide)).1 (hypotheses_of_validB C08.Ex.x (by decide)).2.1
  (hypotheses_of_validB C08.Ex.x (by decide)).2.2.1 (by decide)
example := reduceV_toDense (R := Int) (· + ·) 0 Int.add_assoc Int.add_comm Int.add_zero vx
  (vecOk_of_all (by decide)) (by decide)
example := mapV_toDense (R := Int) (fun t => t * t + 1) vx (vecOk_of_all (by decide)) (by decide)
example := binopV_toDense (R := Int) (· - ·) .strict vx vy (vecOk_of_all (by decide))
  (vecOk_of_all (by decide)) (by decide) (by decide) (by decide) (sameKeys_of_all (by decide))
  (sameShapes_of_all (by decide))
example := dagger_toDense (R := Int) rfl C08.Ex.x rfl (by decide)
  (hypotheses_of_validB C08.Ex.x (by decide)).1 (hypotheses_of_validB C08.Ex.x (by decide)).2.1
  (hypotheses_of_validB C08.Ex.x (by decide)).2.2.1

end Examples

end SymmModel.C08
