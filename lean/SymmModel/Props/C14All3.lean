/-
  SymmModel.Props.C14All3 — umbrella for property C14: `C14All2` (frame / ownership theorems, in-place
  forms, second table, value semantics of the buffer table) and `C14d` (the heap model tied to the
  value model on `Arr`: fermionic binary operators, `phase_sync`, `multiply_diagonal`; the frame
  theorems at the level of denotations).
-/
import SymmModel.Props.C14All2
import SymmModel.Props.C14d
