/-
  Property C10, network clause, round 3 — the six bracketings B1, B2, S1–S4 of the four-tensor norm
  network `{a, b, ā, b̄}` WITHOUT any guard on the index tables.

  `a`, `b`: valid fermionic arrays of the model (any ranks, symmetries, sparsity, dualness patterns,
  pending signs, parities) bonded along `xa`/`xb` (`ValidP.tdotAdmissibleB`), each carrying a sorted
  list of non-dual labels (`NormNet.KetLabels`), all labels distinct, and passing the decidable label
  check `netLabelsB` (the `LabelRoutes` hypothesis of S7 for the four operand triples; PROVED for at
  most one label per tensor — `netLabelsB_of_oneKet`, the case of harness/props/c10.py — and
  decidable by evaluation for concrete longer lists).  `ā = braOf a xa`, `b̄ = braOf b xb` (C10c);
  `K = a·b`, `K̄ = ā·b̄`; blockwise mode; scalars `AddCommMonoid`, `NetLaws`, `AssocLaws` (`Int`, `GRat`).

  `network_norm_bracketings` (no `_partial`: the full statement for these six bracketings):
    B1  (ā·b̄)·(a·b) = normSq K      B2  (a·b)·(ā·b̄) = normSq' K     (final leg pairs in any order)
    S1  ((ā·b̄)·a)·b = normSq K      S2  ā·(b̄·(a·b)) = normSq K
    S3  ((a·b)·ā)·b̄ = normSq' K     S4  a·(b·(ā·b̄)) = normSq' K
  every result of rank 0, without labels, no stray sign; `normSq K = Σ conj(v)·v`,
  `normSq' K = Σ v·conj(v)` over the stored entries of `K` (equal for commutative `*`:
  `network_norm_bracketings_comm`).  S1–S4 are S7 of C04 under the WEAK guard
  (`Assoc3P.tdotF_assoc_w` = `C04.tdotF_assoc_weak`) applied to the triangle half–tensor–tensor:
  the contracted half has PRUNED index tables, which agree with the tensors' tables on the charges
  they list (`half_weak_guard`).  `C10.tensorwise_pruned_witness`'s network (guard `netFullB` false)
  is now a positive example.  `network_norm_bracketings_swapped`: the same for `{b, a, b̄, ā}`.

  NOT COVERED (remaining):
  * bracketings that first contract a ket tensor with a bra tensor (`(a·ā)·(b·b̄)`, `((a·ā)·b)·b̄`,
    `(ā·(b̄·a))·b`, …): the labels of the intermediate results contain conjugate pairs that do not
    annihilate at once, and `LabelRoutes` fails or is unknown for them
    (`C04.conjugate_pairs_labels_route_dependent`);
  * mixed operand orders (`(b̄·ā)·(a·b)`, `((ā·b̄)·b)·a`, …): needs `Eqv (b̄·ā) (transposeF (ā·b̄) rot)`
    (from `C04.tdotF_swap` plus the frames of both calls — the ingredients are in
    Proofs/NormNet16.lean: `tdot_sectors`, `keys_swap`), then `C04.tdotF_congr_eqv` and S6
    (`C04.tdotF_pretranspose`) for the final contraction — not done in this round.  PROVED instead:
    `normSq_swap` (`normSq (b·a) = normSq (a·b)`, commutative `*`) and with it
    `network_norm_swapped_value`: the fully swapped network `(b̄·ā)·(b·a)` has the value `normSq (a·b)`;
  * `netLabelsB` as a theorem for arbitrary sorted ket lists (the scan with non-adjacent conjugate
    pairs; it evaluates to `true` on every pattern tried, see the examples);
  * three-tensor chains; `mode = fused`.
-/
import SymmModel.Proofs.NormNet16
import SymmModel.Props.C10d
import SymmModel.Props.C04e

namespace SymmModel.C10
open SymmModel Lazy Norm NormNet TdotP

/-! ## vocabulary -/

theorem netLabelsB_def (pA pB : Bool) (oA oB : List (Int × Bool)) :
    netLabelsB pA pB oA oB
      = match OddposP.mergeOddpos pA oA oB with
        | .ok (out, _) =>
          C04.labelRoutesB (xor pA pB) pA out (Arr.oddposDag oA) (Arr.oddposDag oB)
          && C04.labelRoutesB pA pB oA oB (Arr.oddposDag out)
          && C04.labelRoutesB pA pB (Arr.oddposDag oA) (Arr.oddposDag oB) out
          && C04.labelRoutesB (xor pA pB) pA (Arr.oddposDag out) oA oB
        | .error _ => false := rfl

/-- at most one ket label per tensor passes the label check -/
theorem netLabelsB_of_oneKet {R : Type} {a b : Arr R} (ha : a.validB = true) (hb : b.validB = true)
    (hfa : a.fermi = true) (hfb : b.fermi = true) (hoA : OneKet a.oddpos) (hoB : OneKet b.oddpos)
    (hd : (a.oddpos ++ b.oddpos).Pairwise (fun x y => x.1 ≠ y.1)) :
    netLabelsB a.parity b.parity a.oddpos b.oddpos = true := by
  have := netLabelsB_oneKet a.oddpos b.oddpos hoA hoB hd
  have la : (a.oddpos.length % 2 == 1) = a.parity := by
    have h := ha; unfold Arr.validB at h
    simp only [hfa, if_true, Bool.and_eq_true, beq_iff_eq] at h
    exact h.2.2
  have lb : (b.oddpos.length % 2 == 1) = b.parity := by
    have h := hb; unfold Arr.validB at h
    simp only [hfb, if_true, Bool.and_eq_true, beq_iff_eq] at h
    exact h.2.2
  rwa [la, lb] at this

/-- the contracted half `X` (index tables: the `conj` of the frame of `p·q` pruned to some sector
    list) satisfies the weak guard of C04c/C04e against `p` and `q`, in both operand orders -/
theorem half_weak_guard {R : Type} (X p q : Arr R) (xp xq : List Nat) (S : List Sector)
    (hX : X.indices = (dropUnused (without p.indices xp ++ without q.indices xq) S).map Index.conj)
    (hp : p.validB = true) (hq : q.validB = true) :
    AssocP.contractibleCommonB X p (List.range (freeAxes p.ndim xp).length) (freeAxes p.ndim xp) = true
    ∧ AssocP.contractibleCommonB p X (freeAxes p.ndim xp) (List.range (freeAxes p.ndim xp).length) = true
    ∧ AssocP.contractibleCommonB X q
        ((List.range (freeAxes q.ndim xq).length).map ((freeAxes p.ndim xp).length + ·))
        (freeAxes q.ndim xq) = true
    ∧ AssocP.contractibleCommonB q X (freeAxes q.ndim xq)
        ((List.range (freeAxes q.ndim xq).length).map ((freeAxes p.ndim xp).length + ·)) = true :=
  ⟨common_Xp X p q xp xq S Index.conj conj_F hX hp, common_pX X p q xp xq S Index.conj conj_F hX hp,
   common_Xq X p q xp xq S Index.conj conj_F hX hq, common_qX X p q xp xq S Index.conj conj_F hX hq⟩

/-! ## the six bracketings -/

section main
variable {R : Type} [AddCommMonoid R] [Mul R] [Neg R] [Conj R] [NetLaws R] [AssocP.AssocLaws R]

/-- **network_norm_bracketings.**  Valid fermionic `a`, `b` with sorted, distinct ket labels passing
    `netLabelsB`: the six bracketings B1, B2 (final leg pairs in any order `π`), S1–S4 of the norm
    network all succeed and give `Σ |K|²` — `normSq K` with the bra side on the left, `normSq' K`
    with it on the right — as rank-0 arrays without labels. -/
theorem network_norm_bracketings (a b : Arr R) (xa xb : List Nat)
    (ha : a.validB = true) (hb : b.validB = true) (hfa : a.fermi = true) (hfb : b.fermi = true)
    (hadm : ValidP.tdotAdmissibleB a b xa xb = true)
    (hoA : KetLabels a.oddpos) (hoB : KetLabels b.oddpos)
    (hd : (a.oddpos ++ b.oddpos).Pairwise (fun x y => x.1 ≠ y.1))
    (hlab : netLabelsB a.parity b.parity a.oddpos b.oddpos = true) :
    ∃ K Kb, a.tensordotF b (.pair (xa.map Int.ofNat) (xb.map Int.ofNat)) .blockwise = .ok K
      ∧ (NormNet.braOf a xa).tensordotF (NormNet.braOf b xb) (.pair (xa.map Int.ofNat) (xb.map Int.ofNat)) .blockwise
          = .ok Kb
      -- B1, B2
      ∧ (∃ r r', r.ndim = 0 ∧ r.oddpos = [] ∧ r.elem [] [] = normSq K
          ∧ r'.ndim = 0 ∧ r'.oddpos = [] ∧ r'.elem [] [] = normSq' K
          ∧ ∀ π : List Nat, π.Perm (List.range K.ndim) →
              Kb.tensordotF K (.pair (π.map Int.ofNat) (π.map Int.ofNat)) .blockwise = .ok r
              ∧ K.tensordotF Kb (.pair (π.map Int.ofNat) (π.map Int.ofNat)) .blockwise = .ok r')
      -- S1  ((ā·b̄)·a)·b
      ∧ (∃ T c, Kb.tensordotF a (.pair ((List.range (freeAxes a.ndim xa).length).map Int.ofNat)
            ((freeAxes a.ndim xa).map Int.ofNat)) .blockwise = .ok T
        ∧ T.tensordotF b (.pair ((axesTW a.ndim b.ndim xa xb).map Int.ofNat)
            ((freeAxes b.ndim xb ++ xb).map Int.ofNat)) .blockwise = .ok c
        ∧ c.ndim = 0 ∧ c.oddpos = [] ∧ c.elem [] [] = normSq K)
      -- S2  ā·(b̄·(a·b))
      ∧ (∃ T c, (NormNet.braOf b xb).tensordotF K (.pair ((freeAxes b.ndim xb).map Int.ofNat)
            (((List.range (freeAxes b.ndim xb).length).map ((freeAxes a.ndim xa).length + ·)).map
              Int.ofNat)) .blockwise = .ok T
        ∧ (NormNet.braOf a xa).tensordotF T (.pair ((xa ++ freeAxes a.ndim xa).map Int.ofNat)
            ((axesTWr a.ndim b.ndim xa xb).map Int.ofNat)) .blockwise = .ok c
        ∧ c.ndim = 0 ∧ c.oddpos = [] ∧ c.elem [] [] = normSq K)
      -- S3  ((a·b)·ā)·b̄
      ∧ (∃ T c, K.tensordotF (NormNet.braOf a xa) (.pair ((List.range (freeAxes a.ndim xa).length).map Int.ofNat)
            ((freeAxes a.ndim xa).map Int.ofNat)) .blockwise = .ok T
        ∧ T.tensordotF (NormNet.braOf b xb) (.pair ((axesTW a.ndim b.ndim xa xb).map Int.ofNat)
            ((freeAxes b.ndim xb ++ xb).map Int.ofNat)) .blockwise = .ok c
        ∧ c.ndim = 0 ∧ c.oddpos = [] ∧ c.elem [] [] = normSq' K)
      -- S4  a·(b·(ā·b̄))
      ∧ (∃ T c, b.tensordotF Kb (.pair ((freeAxes b.ndim xb).map Int.ofNat)
            (((List.range (freeAxes b.ndim xb).length).map ((freeAxes a.ndim xa).length + ·)).map
              Int.ofNat)) .blockwise = .ok T
        ∧ a.tensordotF T (.pair ((xa ++ freeAxes a.ndim xa).map Int.ofNat)
            ((axesTWr a.ndim b.ndim xa xb).map Int.ofNat)) .blockwise = .ok c
        ∧ c.ndim = 0 ∧ c.oddpos = [] ∧ c.elem [] [] = normSq' K) :=
  network_norm_bracketings6 a b xa xb ha hb hfa hfb hadm hoA hoB hd hlab

omit [NetLaws R] [AssocP.AssocLaws R] in
/-- `Bracketings6 a b xa xb` abbreviates the conclusion of `network_norm_bracketings` -/
theorem bracketings6_def (a b : Arr R) (xa xb : List Nat) :
    Bracketings6 a b xa xb ↔
    ∃ K Kb, a.tensordotF b (.pair (xa.map Int.ofNat) (xb.map Int.ofNat)) .blockwise = .ok K
      ∧ (NormNet.braOf a xa).tensordotF (NormNet.braOf b xb) (.pair (xa.map Int.ofNat) (xb.map Int.ofNat)) .blockwise
          = .ok Kb
      ∧ (∃ r r', r.ndim = 0 ∧ r.oddpos = [] ∧ r.elem [] [] = normSq K
          ∧ r'.ndim = 0 ∧ r'.oddpos = [] ∧ r'.elem [] [] = normSq' K
          ∧ ∀ π : List Nat, π.Perm (List.range K.ndim) →
              Kb.tensordotF K (.pair (π.map Int.ofNat) (π.map Int.ofNat)) .blockwise = .ok r
              ∧ K.tensordotF Kb (.pair (π.map Int.ofNat) (π.map Int.ofNat)) .blockwise = .ok r')
      ∧ (∃ T c, Kb.tensordotF a (.pair ((List.range (freeAxes a.ndim xa).length).map Int.ofNat)
            ((freeAxes a.ndim xa).map Int.ofNat)) .blockwise = .ok T
        ∧ T.tensordotF b (.pair ((axesTW a.ndim b.ndim xa xb).map Int.ofNat)
            ((freeAxes b.ndim xb ++ xb).map Int.ofNat)) .blockwise = .ok c
        ∧ c.ndim = 0 ∧ c.oddpos = [] ∧ c.elem [] [] = normSq K)
      ∧ (∃ T c, (NormNet.braOf b xb).tensordotF K (.pair ((freeAxes b.ndim xb).map Int.ofNat)
            (((List.range (freeAxes b.ndim xb).length).map ((freeAxes a.ndim xa).length + ·)).map
              Int.ofNat)) .blockwise = .ok T
        ∧ (NormNet.braOf a xa).tensordotF T (.pair ((xa ++ freeAxes a.ndim xa).map Int.ofNat)
            ((axesTWr a.ndim b.ndim xa xb).map Int.ofNat)) .blockwise = .ok c
        ∧ c.ndim = 0 ∧ c.oddpos = [] ∧ c.elem [] [] = normSq K)
      ∧ (∃ T c, K.tensordotF (NormNet.braOf a xa) (.pair ((List.range (freeAxes a.ndim xa).length).map Int.ofNat)
            ((freeAxes a.ndim xa).map Int.ofNat)) .blockwise = .ok T
        ∧ T.tensordotF (NormNet.braOf b xb) (.pair ((axesTW a.ndim b.ndim xa xb).map Int.ofNat)
            ((freeAxes b.ndim xb ++ xb).map Int.ofNat)) .blockwise = .ok c
        ∧ c.ndim = 0 ∧ c.oddpos = [] ∧ c.elem [] [] = normSq' K)
      ∧ (∃ T c, b.tensordotF Kb (.pair ((freeAxes b.ndim xb).map Int.ofNat)
            (((List.range (freeAxes b.ndim xb).length).map ((freeAxes a.ndim xa).length + ·)).map
              Int.ofNat)) .blockwise = .ok T
        ∧ a.tensordotF T (.pair ((xa ++ freeAxes a.ndim xa).map Int.ofNat)
            ((axesTWr a.ndim b.ndim xa xb).map Int.ofNat)) .blockwise = .ok c
        ∧ c.ndim = 0 ∧ c.oddpos = [] ∧ c.elem [] [] = normSq' K) := Iff.rfl

/-- the case of harness/props/c10.py: at most one ket label per tensor — no label hypothesis left -/
theorem network_norm_bracketings_oneKet (a b : Arr R) (xa xb : List Nat)
    (ha : a.validB = true) (hb : b.validB = true) (hfa : a.fermi = true) (hfb : b.fermi = true)
    (hadm : ValidP.tdotAdmissibleB a b xa xb = true)
    (hoA : OneKet a.oddpos) (hoB : OneKet b.oddpos)
    (hd : (a.oddpos ++ b.oddpos).Pairwise (fun x y => x.1 ≠ y.1)) :
    Bracketings6 a b xa xb :=
  network_norm_bracketings6 a b xa xb ha hb hfa hfb hadm hoA.ketLabels hoB.ketLabels hd
    (netLabelsB_of_oneKet ha hb hfa hfb hoA hoB hd)

/-- the operand-swapped network `{b, a, b̄, ā}` (`K' = b·a`): the hypotheses are symmetric up to the
    label check -/
theorem network_norm_bracketings_swapped (a b : Arr R) (xa xb : List Nat)
    (ha : a.validB = true) (hb : b.validB = true) (hfa : a.fermi = true) (hfb : b.fermi = true)
    (hadm : ValidP.tdotAdmissibleB a b xa xb = true)
    (hoA : KetLabels a.oddpos) (hoB : KetLabels b.oddpos)
    (hd : (a.oddpos ++ b.oddpos).Pairwise (fun x y => x.1 ≠ y.1))
    (hlab : netLabelsB b.parity a.parity b.oddpos a.oddpos = true) :
    Bracketings6 b a xb xa :=
  network_norm_bracketings6 b a xb xa hb ha hfb hfa (admB_swap ha hb hfa hfb hadm) hoB hoA
    (labels_swap hd) hlab

/-- for a commutative product all six bracketings give the same number `normSq K` -/
theorem network_norm_bracketings_comm (hc : ∀ x y : R, x * y = y * x) (a b : Arr R)
    (xa xb : List Nat)
    (ha : a.validB = true) (hb : b.validB = true) (hfa : a.fermi = true) (hfb : b.fermi = true)
    (hadm : ValidP.tdotAdmissibleB a b xa xb = true)
    (hoA : KetLabels a.oddpos) (hoB : KetLabels b.oddpos)
    (hd : (a.oddpos ++ b.oddpos).Pairwise (fun x y => x.1 ≠ y.1))
    (hlab : netLabelsB a.parity b.parity a.oddpos b.oddpos = true) :
    ∃ K Kb r1 r2 T1 c1 T2 c2 T3 c3 T4 c4,
      a.tensordotF b (.pair (xa.map Int.ofNat) (xb.map Int.ofNat)) .blockwise = .ok K
      ∧ (NormNet.braOf a xa).tensordotF (NormNet.braOf b xb) (.pair (xa.map Int.ofNat) (xb.map Int.ofNat)) .blockwise
          = .ok Kb
      ∧ Kb.tensordotF K (allAxes K.ndim) .blockwise = .ok r1
      ∧ K.tensordotF Kb (allAxes K.ndim) .blockwise = .ok r2
      ∧ Kb.tensordotF a (.pair ((List.range (freeAxes a.ndim xa).length).map Int.ofNat)
          ((freeAxes a.ndim xa).map Int.ofNat)) .blockwise = .ok T1
      ∧ T1.tensordotF b (.pair ((axesTW a.ndim b.ndim xa xb).map Int.ofNat)
          ((freeAxes b.ndim xb ++ xb).map Int.ofNat)) .blockwise = .ok c1
      ∧ (NormNet.braOf b xb).tensordotF K (.pair ((freeAxes b.ndim xb).map Int.ofNat)
          (((List.range (freeAxes b.ndim xb).length).map ((freeAxes a.ndim xa).length + ·)).map
            Int.ofNat)) .blockwise = .ok T2
      ∧ (NormNet.braOf a xa).tensordotF T2 (.pair ((xa ++ freeAxes a.ndim xa).map Int.ofNat)
          ((axesTWr a.ndim b.ndim xa xb).map Int.ofNat)) .blockwise = .ok c2
      ∧ K.tensordotF (NormNet.braOf a xa) (.pair ((List.range (freeAxes a.ndim xa).length).map Int.ofNat)
          ((freeAxes a.ndim xa).map Int.ofNat)) .blockwise = .ok T3
      ∧ T3.tensordotF (NormNet.braOf b xb) (.pair ((axesTW a.ndim b.ndim xa xb).map Int.ofNat)
          ((freeAxes b.ndim xb ++ xb).map Int.ofNat)) .blockwise = .ok c3
      ∧ b.tensordotF Kb (.pair ((freeAxes b.ndim xb).map Int.ofNat)
          (((List.range (freeAxes b.ndim xb).length).map ((freeAxes a.ndim xa).length + ·)).map
            Int.ofNat)) .blockwise = .ok T4
      ∧ a.tensordotF T4 (.pair ((xa ++ freeAxes a.ndim xa).map Int.ofNat)
          ((axesTWr a.ndim b.ndim xa xb).map Int.ofNat)) .blockwise = .ok c4
      ∧ [r1, r2, c1, c2, c3, c4].all (fun x => x.ndim == 0 && x.oddpos.isEmpty) = true
      ∧ [r1, r2, c1, c2, c3, c4].map (fun x => x.elem [] []) = List.replicate 6 (normSq K) := by
  obtain ⟨K, Kb, eK, eKb, ⟨r, r', h2, h3, h4, g2, g3, g4, hπ⟩, ⟨T1, c1, a1, a2, a3, a4, a5⟩,
    ⟨T2, c2, b1, b2, b3, b4, b5⟩, ⟨T3, c3, d1, d2, d3, d4, d5⟩, ⟨T4, c4, f1, f2, f3, f4, f5⟩⟩ :=
    network_norm_bracketings6 a b xa xb ha hb hfa hfb hadm hoA hoB hd hlab
  have hid := hπ (List.range K.ndim) (List.Perm.refl _)
  rw [normSq'_eq hc] at g4 d5 f5
  refine ⟨K, Kb, r, r', T1, c1, T2, c2, T3, c3, T4, c4, eK, eKb, hid.1, hid.2, a1, a2, b1, b2, d1, d2,
    f1, f2, ?_, ?_⟩
  · simp [h2, h3, g2, g3, a3, a4, b3, b4, d3, d4, f3, f4]
  · simp [h4, g4, a5, b5, d5, f5, List.replicate]

end main

/-- **normSq_swap.**  `normSq (b·a) = normSq (a·b)`: the squared norm of the contracted ket network
    does not depend on the operand order (commutative `*`; S5 `C04.tdotF_swap` plus the re-ordering
    of the double sum over the rotated sectors and offsets) -/
theorem normSq_swap {R : Type} [AddCommMonoid R] [Mul R] [Neg R] [Conj R] [NetLaws R]
    (hmul : ∀ x y : R, x * y = y * x) (a b K K' : Arr R) (xa xb : List Nat)
    (ha : a.validB = true) (hb : b.validB = true) (hfa : a.fermi = true) (hfb : b.fermi = true)
    (hadm : ValidP.tdotAdmissibleB a b xa xb = true)
    (hd : (a.oddpos ++ b.oddpos).Pairwise (fun x y => x.1 ≠ y.1))
    (eK : a.tensordotF b (.pair (xa.map Int.ofNat) (xb.map Int.ofNat)) .blockwise = .ok K)
    (eK' : b.tensordotF a (.pair (xb.map Int.ofNat) (xa.map Int.ofNat)) .blockwise = .ok K') :
    normSq K' = normSq K :=
  NormNet.normSq_swap hmul a b K K' xa xb (RoutesP.Adm.of ha hb hfa hfb hadm) hd eK eK'

/-- the swapped network has the same value: `(b̄·ā)·(b·a) = (b·a)·(b̄·ā) = normSq (a·b)` -/
theorem network_norm_swapped_value {R : Type} [AddCommMonoid R] [Mul R] [Neg R] [Conj R] [NetLaws R]
    (hmul : ∀ x y : R, x * y = y * x) (a b : Arr R) (xa xb : List Nat)
    (ha : a.validB = true) (hb : b.validB = true) (hfa : a.fermi = true) (hfb : b.fermi = true)
    (hadm : ValidP.tdotAdmissibleB a b xa xb = true)
    (hoA : KetLabels a.oddpos) (hoB : KetLabels b.oddpos)
    (hd : (a.oddpos ++ b.oddpos).Pairwise (fun x y => x.1 ≠ y.1)) :
    ∃ K K' Kb' r r', a.tensordotF b (.pair (xa.map Int.ofNat) (xb.map Int.ofNat)) .blockwise = .ok K
      ∧ b.tensordotF a (.pair (xb.map Int.ofNat) (xa.map Int.ofNat)) .blockwise = .ok K'
      ∧ (NormNet.braOf b xb).tensordotF (NormNet.braOf a xa) (.pair (xb.map Int.ofNat) (xa.map Int.ofNat)) .blockwise
          = .ok Kb'
      ∧ Kb'.tensordotF K' (allAxes K'.ndim) .blockwise = .ok r
      ∧ K'.tensordotF Kb' (allAxes K'.ndim) .blockwise = .ok r'
      ∧ r.ndim = 0 ∧ r.oddpos = [] ∧ r'.ndim = 0 ∧ r'.oddpos = []
      ∧ r.elem [] [] = normSq K ∧ r'.elem [] [] = normSq K := by
  obtain ⟨K, _, eK, _⟩ := NormNet.conj_tensordot a b xa xb ha hb hfa hfb hadm hoA hoB hd
  obtain ⟨K', Kb', r, r', e1, e2, _, h1, h2, h3, h4, g1, g2, g3, g4⟩ :=
    network_norm_halves b a xb xa hb ha hfb hfa (admB_swap ha hb hfa hfb hadm) hoB hoA (labels_swap hd)
  have hsw := NormNet.normSq_swap hmul a b K K' xa xb (RoutesP.Adm.of ha hb hfa hfb hadm) hd eK e1
  exact ⟨K, K', Kb', r, r', eK, e1, e2, h1, g1, h2, h3, g2, g3, by rw [h4, hsw],
    by rw [g4, normSq'_eq hmul, hsw]⟩

/-! ## non-vacuity -/

open scoped SymmModel.Lazy

/-- the pruned network of `C10.tensorwise_pruned_witness` (guard `netFullB` false, `K̄` not
    `tdotAdmissibleB` with `a`) is now covered -/
example : Bracketings6 gAs C03.gB [2] [0] :=
  network_norm_bracketings_oneKet gAs C03.gB [2] [0] (by decide +kernel) (by decide +kernel) rfl rfl
    (by decide +kernel) (Or.inr ⟨1, rfl⟩) (Or.inr ⟨3, rfl⟩) (by decide)

example : netFullB gAs C03.gB [2] [0] = false
    ∧ seqVals gAs C03.gB [2] [0] = [[2174], [2174], [2174], [2174], [2174]] := by decide +kernel

example : Bracketings6 C03.gA C03.gB [1, 2] [1, 0] :=
  network_norm_bracketings_oneKet C03.gA C03.gB [1, 2] [1, 0] (by decide +kernel) (by decide +kernel)
    rfl rfl (by decide +kernel) (Or.inr ⟨1, rfl⟩) (Or.inr ⟨3, rfl⟩) (by decide)

/-- an operand with THREE ket labels (`NormNet.exO3`, labels 2, 5, 9) against `C03.gA` (label 1):
    the label check is decided by evaluation -/
example : netLabelsB NormNet.exO3.parity C03.gA.parity NormNet.exO3.oddpos C03.gA.oddpos = true := by
  decide +kernel

example : Bracketings6 NormNet.exO3 C03.gA [1] [0] :=
  network_norm_bracketings NormNet.exO3 C03.gA [1] [0] (by decide +kernel) (by decide +kernel) rfl rfl
    (by decide +kernel) (by unfold KetLabels; decide) (OneKet.ketLabels (Or.inr ⟨1, rfl⟩))
    (by decide) (by decide +kernel)

example : seqVals NormNet.exO3 C03.gA [1] [0] = [[1726], [1726], [1726], [1726], [1726]] := by
  decide +kernel

/-- `normSq (b·a) = normSq (a·b)` on the concrete network -/
example : (match C03.gB.tensordotF C03.gA (.pair [0] [2]) .blockwise,
      C03.gA.tensordotF C03.gB (.pair [2] [0]) .blockwise with
    | .ok K', .ok K => [normSq K', normSq K] | _, _ => []) = [16422, 16422] := by decide +kernel

/-- the label check on further sorted ket patterns (both operands with several labels) -/
example : netLabelsB true true [(2, false), (5, false), (9, false)] [(1, false), (4, false), (7, false)]
      = true
    ∧ netLabelsB false false [(2, false), (5, false)] [(1, false), (7, false)] = true
    ∧ netLabelsB true false [(3, false)] [(1, false), (7, false)] = true
    ∧ netLabelsB false true [(2, false), (5, false)] [(1, false)] = true := by decide +kernel

end SymmModel.C10
