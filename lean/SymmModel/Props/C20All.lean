/-
  Property C20 — umbrella: kernel-class theorems (C20) and the dtype-flow model theorems (C20b).
-/
import SymmModel.Props.C20
import SymmModel.Props.C20b
