/-
  Property C20 (second part) — the dtype-flow model: which block of which operand determines the
  dtype of which result block, for every operation, on arbitrary (also mixed-dtype) inputs.

  Model: SymmModel/Model/DTypeFlow.lean (`DArr` = block structure with one `DType` per stored block
  in dict order; one transfer function per symmray routine; `evalOp`/`runProg` = protocol steps and
  programs).  It is tied to the real code on arrays with MIXED per-block dtypes and shuffled dict
  orders by harness/props/c20.py (kind "dflow").

  Theorems, all for arbitrary structures (any rank, sectors, sparsity, fused indices):
    * uniform in ⇒ uniform out for every operation and hence every program (`step_preserves_dtype`,
      `prog_preserves_dtype`), with `realPart d` exactly for singular values / eigenvalues
      (`svd_dtypes`, `eigh_dtypes`), and no loss flag (`losesImag`, `narrows`) is ever raised;
    * on mixed inputs: the dtype of every block fused in insert mode is that of the FIRST stored
      block (`fuse_insert_dtype_is_first_block`), so a real first block and a complex later block
      lose the imaginary part (`fuse_insert_hazard`, witness `fuse_insert_hazard_witness`); a
      contraction block has the promote-fold of exactly its contributing pairs
      (`tdot_block_dtype_fold`); zero blocks of `fill_missing_blocks` have the dtype of the first
      stored block (`fill_missing_dtype`).
-/
import SymmModel.Proofs.DTypeFlowEval
import SymmModel.Proofs.Accum
namespace SymmModel.C20b
open SymmModel DType DFlow

/-! ### uniform inputs -/

/-- every step: operands of dtype `d` (vectors / scalars: `d` or its real part), parameters
    compatible with `d`, no zeros created without an example block ⇒ results of dtype `d`
    (vectors / scalars / dense vectors: `d` or its real part) and no lossy cast -/
theorem step_preserves_dtype (d : DType) (op : Op) (ins outs : List DVal) (fl : Flags)
    (hadm : op.admissible d = true) (hins : ValsOK d ins) (h : evalOp op ins = .ok (outs, fl))
    (hdef : fl.defaulted = false) :
    ValsOK d outs ∧ fl.losesImag = false ∧ fl.narrows = false :=
  evalOp_preserves hadm hins h hdef

/-- every program (induction over the step list) -/
theorem prog_preserves_dtype (d : DType) (env env' : Env) (steps : List Step) (fl : Flags)
    (hadm : ∀ s ∈ steps, s.op.admissible d = true) (he : EnvOK d env)
    (h : runProg env steps = .ok (env', fl)) (hdef : fl.defaulted = false) :
    EnvOK d env' ∧ fl.losesImag = false ∧ fl.narrows = false := by
  obtain ⟨h1, h2, h3, _⟩ :=
    foldlM_runStep_preserves steps (env, Flags.none) (env', fl) hadm he ⟨rfl, rfl⟩ h hdef
  exact ⟨h1, h2, h3⟩

/-- fuse (both classes, both strategies, empty groups expanded): uniform ⇒ uniform, no flag -/
theorem fuse_uniform (d : DType) (a : DArr) (groups : List (List Nat)) (mode : FuseMode) (ee : Bool)
    (r : DArr × Flags) (h : Uni d a.blocks) (hr : a.fuseD groups mode ee = .ok r) :
    Uni d r.1.blocks ∧ r.2 = Flags.none := fuseD_uni h hr

theorem unfuse_uniform (d : DType) (a r : DArr) (axis : Nat) (h : Uni d a.blocks)
    (hr : a.unfuseD axis = .ok r) : Uni d r.blocks := unfuseD_uni h hr

theorem reshape_uniform (d : DType) (a : DArr) (ns : List Int) (r : DArr × Flags) (h : Uni d a.blocks)
    (hr : a.reshapeD ns = .ok r) : Uni d r.1.blocks ∧ r.2 = Flags.none := reshapeD_uni h hr

/-- contraction through either path, abelian or fermionic -/
theorem tensordot_uniform (d : DType) (a b : DArr) (axes : AxesArg) (mode : TdotMode) (r : DArr × Flags)
    (ha : Uni d a.blocks) (hb : Uni d b.blocks) (h : tensordotD a b axes mode = .ok r) :
    Uni d r.1.blocks ∧ r.2 = Flags.none := tensordotD_uni ha hb h

/-- densification of a uniform array with at least one block: the dense array, including every
    zero block created for a missing sector, has dtype `d` -/
theorem to_dense_uniform (d : DType) (a : DArr) (r : DType × Flags) (h : Uni d a.blocks)
    (hne : a.blocks ≠ []) (hr : a.toDenseD = .ok r) : r.1 = d ∧ r.2 = Flags.none := by
  have hdef : r.2.defaulted = false := by
    unfold DArr.toDenseD at hr
    obtain ⟨e, _, h2⟩ := bind_ok_iff.mp hr
    rw [← pure_ok h2]
    cases hb : a.blocks with
    | nil => exact absurd hb hne
    | cons p ps => simp [DArr.exFlags, hb]
  obtain ⟨h1, h2, h3⟩ := toDenseD_uni h hr hdef
  refine ⟨h1, ?_⟩
  cases hf : r.2 with
  | mk x y z => rw [hf] at h2 h3 hdef; simp at h2 h3 hdef; subst h2 h3 hdef; rfl

/-- `fill_missing_blocks`, any input: every stored block keeps its dtype and every created zero
    block has the dtype of the first stored block -/
theorem fill_missing_dtype (a : DArr) (p : Sector × DType) (hp : p ∈ a.fillMissingD.1.blocks) :
    p ∈ a.blocks ∨ p.2 = a.ex := by
  unfold DArr.fillMissingD at hp
  simp only at hp
  generalize a.skel.genValidSectors.filter _ = ms at hp
  generalize a.blocks = acc at hp ⊢
  induction ms generalizing acc with
  | nil => exact Or.inl hp
  | cons m ms ih =>
    simp only [List.foldl_cons] at hp
    rcases ih _ hp with h | h
    · rcases mem_ainsert h with h' | h'
      · exact Or.inl h'
      · exact Or.inr h'
    · exact Or.inr h

theorem fill_missing_uniform (d : DType) (a : DArr) (h : Uni d a.blocks) (hne : a.blocks ≠ []) :
    Uni d a.fillMissingD.1.blocks := by
  intro p hp
  rcases fill_missing_dtype a p hp with h' | h'
  · exact h p h'
  · rw [h', ex_of_uni h hne]

/-- svd: factors `d`, singular values exactly the real part of `d` -/
theorem svd_dtypes (d : DType) (x : DArr) (r : DArr × DVec × DArr) (h : Uni d x.blocks)
    (hr : svdD x = .ok r) :
    Uni d r.1.blocks ∧ Uni d.realPart r.2.1.blocks ∧ Uni d r.2.2.blocks := svdD_uni h hr

/-- eigh: eigenvalues exactly the real part of `d`, eigenvectors `d` -/
theorem eigh_dtypes (d : DType) (a : DArr) (r : DVec × DArr) (h : Uni d a.blocks) (hr : eighD a = .ok r) :
    Uni d.realPart r.1.blocks ∧ Uni d r.2.blocks := eighD_uni h hr

theorem qr_dtypes (d : DType) (x : DArr) (r : DArr × DArr) (h : Uni d x.blocks) (hr : qrD x = .ok r) :
    Uni d r.1.blocks ∧ Uni d r.2.blocks := qrD_uni h hr

theorem svd_truncated_dtypes (d : DType) (x : DArr) (counts : List Nat) (ab : Absorb)
    (r : DArr × Option DVec × DArr) (h : Uni d x.blocks) (hr : svdTruncatedD x counts ab = .ok r) :
    Uni d r.1.blocks ∧ (∀ s, r.2.1 = some s → Uni d.realPart s.blocks) ∧ Uni d r.2.2.blocks :=
  svdTruncatedD_uni h hr

theorem solve_uniform (d : DType) (a b r : DArr) (ha : Uni d a.blocks) (hb : Uni d b.blocks)
    (hr : solveD a b = .ok r) : Uni d r.blocks := solveD_uni ha hb hr

/-- `a + b`, `a - b`, `a * b` incl. sectors stored on one side only -/
theorem binop_uniform (d : DType) (m : Missing) (a b r : DArr) (ha : Uni d a.blocks) (hb : Uni d b.blocks)
    (h : binopD m a b = .ok r) : Uni d r.blocks := binopD_uni ha hb h

/-- `multiply_diagonal` with a vector of dtype `d` or of its real part (singular values) -/
theorem multiply_diagonal_uniform (d : DType) (a : DArr) (v : DVec) (axis : Nat) (ha : Uni d a.blocks)
    (hv : UniW d v.blocks) : Uni d (multiplyDiagonalD a v axis).blocks := multiplyDiagonalD_uni ha hv axis

/-- constructors: every block has the requested dtype; `random` without `dtype=` gives float64 -/
theorem ctor_dtypes (sym : Sym) (fermi : Bool) (indices : List Index) (charge : Option Charge)
    (dt : Option DType) (oddpos : List (Int × Bool)) (r : DArr)
    (h : randomD sym fermi indices charge dt oddpos = .ok r) : Uni (dt.getD f64) r.blocks :=
  fromFillD_uni h

theorem from_dense_dtype (sym : Sym) (fermi : Bool) (shape : List Nat) (d : DType) (maps : List (List Charge))
    (duals : List Bool) (charge : Option Charge) (oddpos : List (Int × Bool)) (r : DArr)
    (h : fromDenseD sym fermi shape d maps duals charge oddpos = .ok r) : Uni d r.blocks :=
  fromDenseD_uni h

/-! ### mixed inputs -/

/-- **insert mode, any input.**  Every block of the fused array has the dtype of the first
    stored block of the operand (`get_any_array()`), whatever the other blocks are; an imaginary
    part is lost exactly when some block is complex and the first one is real, precision exactly
    when some block is double and the first one is single. -/
theorem fuse_insert_dtype_is_first_block (a : DArr) (groups : List (List Nat)) (r : DArr × Flags)
    (h : a.fuseCoreD groups .insert = .ok r) :
    Uni a.ex r.1.blocks
    ∧ r.2.losesImag = a.blocks.any (fun sb => sb.2.isComplex && !a.ex.isComplex)
    ∧ r.2.narrows = a.blocks.any (fun sb => sb.2.isDouble && !a.ex.isDouble) := by
  unfold DArr.fuseCoreD at h
  obtain ⟨fi, _, h2⟩ := bind_ok_iff.mp h
  obtain ⟨b, hb, h3⟩ := bind_ok_iff.mp h2
  rw [← pure_ok h3]
  obtain ⟨h4, h5⟩ := fuseInsertD_spec hb
  exact ⟨h4, by rw [h5]; exact insertFlags_losesImag _ _, by rw [h5]; exact insertFlags_narrows _ _⟩

/-- **hazard.**  A (non-uniform) array whose first stored block is real while some stored block
    is complex: `fuse` in insert mode returns only real blocks — the imaginary parts are gone. -/
theorem fuse_insert_hazard (a : DArr) (groups : List (List Nat)) (r : DArr × Flags)
    (hfirst : a.ex.isComplex = false) (hlater : ∃ sb ∈ a.blocks, sb.2.isComplex = true)
    (h : a.fuseCoreD groups .insert = .ok r) :
    r.2.losesImag = true ∧ ∀ p ∈ r.1.blocks, p.2.isComplex = false := by
  obtain ⟨h1, h2, _⟩ := fuse_insert_dtype_is_first_block a groups r h
  refine ⟨?_, fun p hp => by rw [h1 p hp]; exact hfirst⟩
  rw [h2]
  obtain ⟨sb, hsb, hc⟩ := hlater
  exact List.any_eq_true.mpr ⟨sb, hsb, by simp [hc, hfirst]⟩

/-- the witness replayed on the real code by the harness: the Z2 matrix with blocks
    `(0,0) ↦ float64`, `(1,1) ↦ complex128` (in this dict order), both legs fused -/
def hazardArr : DArr :=
  { sym := .Z2, fermi := false,
    indices := [Index.mk [((0, 0), 1), ((1, 0), 1)] false none, Index.mk [((0, 0), 1), ((1, 0), 1)] true none],
    charge := (0, 0),
    blocks := [([(0, 0), (0, 0)], f64), ([(1, 0), (1, 0)], c128)] }

def hazardCheck (mode : FuseMode) : Option (List DType × Bool) :=
  match hazardArr.fuseD [[0, 1]] mode with
  | .ok r => some (r.1.blocks.map (·.2), r.2.losesImag)
  | .error _ => none

/-- insert mode: one float64 block, imaginary part lost; concat mode: one complex128 block -/
theorem fuse_insert_hazard_witness :
    hazardCheck .insert = some ([f64], true) ∧ hazardCheck .concat = some ([c128], false) := by
  constructor <;> decide +kernel

example : hazardArr.ex.isComplex = false ∧ ∃ sb ∈ hazardArr.blocks, sb.2.isComplex = true :=
  ⟨rfl, ⟨([(1, 0), (1, 0)], c128), by simp [hazardArr], rfl⟩⟩

theorem accumPromote_eq (ps : List (Sector × DType)) : accumPromote ps = TdotP.accum promote ps := by
  unfold accumPromote TdotP.accum
  congr 1
  funext acc p
  unfold TdotP.accStep
  cases alookup acc p.1 <;> rfl

/-- **contraction, any input.**  The dtype of the result block of sector `s` is the left fold of
    `promote` over exactly the aligned block pairs contributing to `s`, in the order the code
    accumulates them. -/
theorem tdot_block_dtype_fold (a b : DArr) (l xa xb r : List Nat) (s : Sector) (v : DType) (vs : List DType)
    (hc : ((tdotPairs a b l xa xb r).filter (fun p => p.1 == s)).map (·.2) = v :: vs) :
    alookup (tensordotBlockwiseD a b l xa xb r).blocks s = some (vs.foldl promote v) := by
  have h := TdotP.alookup_accum promote (tdotPairs a b l xa xb r) s
  rw [hc] at h
  rw [← accumPromote_eq] at h
  exact h

/-- … and a sector to which no pair contributes is not stored -/
theorem tdot_block_absent (a b : DArr) (l xa xb r : List Nat) (s : Sector)
    (hc : ((tdotPairs a b l xa xb r).filter (fun p => p.1 == s)).map (·.2) = []) :
    alookup (tensordotBlockwiseD a b l xa xb r).blocks s = none := by
  have h := TdotP.alookup_accum promote (tdotPairs a b l xa xb r) s
  rw [hc] at h
  rw [← accumPromote_eq] at h
  exact h

/-- the per-pair dtype is the promotion of the two blocks -/
theorem tdot_pair_dtype (a b : DArr) (l xa xb r : List Nat) (p : Sector × DType)
    (hp : p ∈ tdotPairs a b l xa xb r) :
    ∃ pa ∈ a.blocks, ∃ pb ∈ b.blocks, permuted pb.1 xb = permuted pa.1 xa
      ∧ p = (permuted pa.1 l ++ permuted pb.1 r, promote pa.2 pb.2) := by
  unfold tdotPairs at hp
  obtain ⟨pa, hpa, hp2⟩ := List.mem_flatMap.mp hp
  obtain ⟨pb, hpb, rfl⟩ := List.mem_map.mp hp2
  obtain ⟨hpb1, hpb2⟩ := List.mem_filter.mp hpb
  exact ⟨pa, hpa, pb, hpb1, by simpa using hpb2, rfl⟩

/-! ### the hypotheses are satisfiable -/

def exArr (d : DType) : DArr := { hazardArr with blocks := [([(0, 0), (0, 0)], d), ([(1, 0), (1, 0)], d)] }

example : Uni c64 (exArr c64).blocks := by
  intro p hp
  simp only [exArr, List.mem_cons, List.not_mem_nil, or_false] at hp
  rcases hp with rfl | rfl <;> rfl

example : (Op.scalarOp .pyfloat).admissible f32 = true := rfl
example : (Op.fuse [[0, 1]] .insert true).admissible c64 = true := rfl

/-- a two-step program (fuse, densify) on a uniform complex64 array runs and raises no flag -/
example : (match runProg [("x", DVal.arr (exArr c64))]
      [⟨.fuse [[0, 1]] .insert true, ["x"], ["f"]⟩, ⟨.toDense, ["f"], ["y"]⟩] with
    | .ok r => some (r.2.defaulted, r.2.losesImag)
    | .error _ => none) = some (false, false) := by decide +kernel

end SymmModel.C20b
