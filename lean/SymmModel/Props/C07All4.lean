/-
  Property C07 — umbrella module: all five parts of the property theorems.
-/
import SymmModel.Props.C07All3
import SymmModel.Props.C07e
