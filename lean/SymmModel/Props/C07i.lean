/-
  Property C07, ninth part: the forward clause in its final form, and the planner's window test
  exactly.

  (1) THE FORWARD CLAUSE, ELEMENT BY ELEMENT, TOTAL (fermionic; fused inputs allowed).  For a valid
      fermionic array `a` and a plan of fuse calls (`CallsOk`), resp. `reshape(a, target)` for a merge /
      drop target, the result `y` is a valid fermionic array and `ElemBij a calls y` holds
      (Proofs/ReshapeIe.lean).  `Stored x s o`: the array `x` has a block for the sector `s` and the
      offsets `o` lie in its box.  `Pulled a calls 0 y ns i s o σ` (C07h): the address `(ns, i)` of
      `y` pulled back through all calls — split the fused axes of each call with the fused index
      tables (`splitAddr`), last call first, all intermediate addresses stored — is `(s, o)`, and `σ`
      is the product of the fuse signs `fuseSignT` of the calls.  `ZeroAt a calls 0 y ns i`: the
      pull-back reaches, after some calls, an array (the input or an intermediate one) that does NOT
      store the sector reached — a zero-filled part of a fused block.
        total   every stored address `(ns, i)` of `y`:  EITHER  it pulls back to a STORED address `(s, o)`
                of `a` and `y.elem ns i = sgnI σ (a.elem s o)`,  OR  `ZeroAt` and `y.elem ns i = 0`
        onto    every stored address `(s, o)` of `a` is the pull-back of a stored address of `y`
                (which then carries `sgnI σ (a.elem s o)`)
        inj     … of exactly one: two stored addresses of `y` with the same pull-back are equal
        func    the pull-back `(s, o, σ)` is determined by `(ns, i)`
        excl    the two cases of `total` exclude each other
      So the pull-back is a bijection from the stored addresses of `y` that are not zero-filled onto
      the stored addresses of `a`, values equal up to the explicit sign; all other stored addresses of
      `y` hold 0.
      The lemma asked for in C07h ("fuse stores a sector iff some source sector combining to it is
      stored") is not needed in that form: where the source does not store the sector the one-call
      statement already gives `a.elem s o = 0`; what was missing is that the split address lies in the
      box of the source block when the sector IS stored (`ReshapeI.fuseF_elem_box`), and, for `onto`,
      that fuse stores the image of every stored source address (`ReshapeI.onto_call`).
        `reshape_forward_elem_fermionic_calls`      plans of fuse calls (replaces `…_calls_partial`)
        `reshape_forward_elem_fermionic_items`      `reshape` to a merge / squeeze target in the planner's
                                                    reading (replaces `…_items_partial`)
        `reshape_forward_elem_fermionic_mergeDrop`  `reshape` to a target obtained by merging adjacent
                                                    axes and/or dropping size-one axes (`MSeg`)
  (2) THE PLANNER'S WINDOW TEST, EXACTLY.  `visits shape newshape B fuel i j`: the pairs (input axis,
      target position) at which the first loop evaluates "do the sub-sizes of this axis equal the
      window of the requested shape starting here?".  An input axis is asked once per loop iteration
      it heads: the FIRST axis of a merge group, a kept or squeezed axis — never an inner axis of a
      merge group — at the target position its group maps to (again at the next position while a
      size-one target axis is inserted).
        `planner_visits_congr`    two tables that answer alike at the visited pairs give the same plan
        `noWinVisB`               no window match at a pair visited on `shape → newshape`
        `planner_window_exact`    whenever the planner returns a plan `t`:
                                  `t` has no unfuse step  ⇔  `noWinVisB`
        `planner_vis_unfused`     `noWinVisB` ⇒ the plan is the plan of the unfused shape
        `noWinVis_of_noWin`, `noWin_not_necessary`   `noWinB` ⇒ `noWinVisB`, not conversely
        `way_back_visits`         on the way back every axis of the intermediate array is asked exactly
                                  at the target position where its own expansion starts; hence an old
                                  fused axis that was kept is compared with the window of the ORIGINAL
                                  shape starting at that axis itself
        `noSelfWinB`              no fused axis' sub-sizes equal the window starting at that axis
                                  (`noWinB shape subsizes` ⇒ `noSelfWinB`; `noSelfWin_iff_selfWin`: this is
                                  `selfWin = false` of C07g)
  (3) THE ROUND TRIP UNDER THESE CONDITIONS: `noWinVisB a.shape target a.subsizes` (way out, exact) and
      `noSelfWinB a.shape a.subsizes` (way back; exact for the kept axes, the only ones visited):
        `reshape_roundtrip_fermionic_fused_general_exact` / `_abelian_…`
        `reshape_roundtrip_fermionic_fused_items_exact` / `_abelian_…`
        `reshape_mergeDrop_roundtrip_fermionic_fused_exact` / `_abelian_…`
      They imply the theorems of C07h (`noWinVis_of_noWin`, `noSelfWin_of_noWin`).  The counterexample
      of C07h stays excluded (`roundtrip_counterexample_excluded`).
      Not done: restricting `noSelfWinB` to the axes that the way out keeps (a fused axis that is
      merged on the way out is never asked on the way back).
-/
import SymmModel.Proofs.ReshapeIh
import SymmModel.Props.C07h

namespace SymmModel.C07
open SymmModel SymmModel.Reshape SymmModel.Reshape3 SymmModel.Reshape5 SymmModel.ReshapeH SymmModel.ReshapeI
open ReshapeP FuseP

/-! ## (2) the planner's window test -/

/-- **the plan depends on the sub-sizes only through the window questions at the visited pairs** -/
theorem planner_visits_congr (shape newshape : List Nat) (A B : List (Option (List Nat)))
    (hlen : A.length = B.length)
    (h : ∀ p ∈ visits shape newshape B (shape.length + newshape.length) 0 0,
      unfuseMatch newshape p.2 (A.getD p.1 none) = unfuseMatch newshape p.2 (B.getD p.1 none)) :
    calcReshapeArgs shape newshape A = calcReshapeArgs shape newshape B :=
  calcReshapeArgs_agree shape newshape A B hlen h

/-- **no window match at a visited pair ⇒ the planner treats the input as unfused** -/
theorem planner_vis_unfused (shape newshape : List Nat) (subsizes : List (Option (List Nat)))
    (hlen : shape.length = subsizes.length) (h : noWinVisB shape newshape subsizes = true) :
    calcReshapeArgs shape newshape subsizes = calcReshapeArgs shape newshape (nones shape) :=
  planner_vis_nones shape newshape subsizes hlen h

/-- **the exact condition**: a plan returned by the planner has no unfuse step iff no visited pair
    has a window match -/
theorem planner_window_exact (shape newshape : List Nat) (subsizes : List (Option (List Nat)))
    (hlen : shape.length = subsizes.length) (t : List Nat × List (List (List Nat)) × List Nat)
    (h : calcReshapeArgs shape newshape subsizes = .ok t) :
    t.1 = [] ↔ noWinVisB shape newshape subsizes = true := by
  constructor
  · intro ht
    cases hw : noWinVisB shape newshape subsizes with
    | true => rfl
    | false => exact absurd ht (planner_vis_unfuses shape newshape subsizes hlen hw t h)
  · intro hw
    rw [planner_vis_nones shape newshape subsizes hlen hw] at h
    exact planner_no_unfuse shape newshape t h

/-- `noWinB` is sufficient … -/
theorem noWinVis_of_noWin (shape newshape : List Nat) (subsizes : List (Option (List Nat)))
    (hlen : shape.length = subsizes.length) (h : noWinB newshape subsizes = true) :
    noWinVisB shape newshape subsizes = true :=
  ReshapeI.noWinVis_of_noWin shape newshape subsizes hlen h

/-- … not necessary: (4⟨3,2⟩,2,3,2) → (8,3,2) — the sub-sizes (3,2) are a window of the target, but
    axis 0 is asked at target position 0 only; likewise on the diagonal: (4⟨2,3⟩,2,3) -/
theorem noWin_not_necessary :
    noWinB [8, 3, 2] [some [3, 2], none, none, none] = false
    ∧ noWinVisB [4, 2, 3, 2] [8, 3, 2] [some [3, 2], none, none, none] = true
    ∧ visits [4, 2, 3, 2] [8, 3, 2] (nones [4, 2, 3, 2]) 7 0 0 = [(0, 0), (2, 1), (3, 2)]
    ∧ noWinB [4, 2, 3] [some [2, 3], none, none] = false
    ∧ noSelfWinB [4, 2, 3] [some [2, 3], none, none] = true := by decide

/-- the diagonal condition follows from `noWinB` -/
theorem noSelfWin_of_noWin (shape : List Nat) (subsizes : List (Option (List Nat)))
    (hlen : shape.length = subsizes.length) (h : noWinB shape subsizes = true) :
    noSelfWinB shape subsizes = true :=
  ReshapeI.noSelfWin_of_noWin hlen h

/-- the diagonal condition is the condition `selfWin = false` of C07g (`reshape_self_plan_iff`:
    exactly when `reshape` to the current shape is the identity plan) -/
theorem noSelfWin_iff_selfWin (shape : List Nat) (subsizes : List (Option (List Nat)))
    (hlen : shape.length = subsizes.length) :
    noSelfWinB shape subsizes = true ↔ selfWin shape subsizes = false :=
  noSelfWinB_iff_selfWin shape subsizes hlen

/-- **the pairs visited on the way back** (`st`: the intermediate symbolic shape, fused axes with their
    sub-sizes; target `tgt st`: every fused axis replaced by its sub-sizes): axis number `|pre'|` is
    asked at the target position where its own expansion starts -/
theorem way_back_visits (st : SymShape) (hok : FusedOk st) :
    ∀ p ∈ visits (SymShape.sizes st) (tgt st) (SymShape.subs st)
        ((SymShape.sizes st).length + (tgt st).length) 0 0,
      ∃ pre' e rest', st = pre' ++ e :: rest' ∧ p = (pre'.length, (tgt pre').length) :=
  fun p hp => visits_back st _ st [] rfl hok p hp

/-- the counterexample of C07h (`roundtrip_fused_window_counterexample`) is excluded by the diagonal
    condition, the way out satisfies the exact condition -/
theorem roundtrip_counterexample_excluded :
    noWinVisB [4, 2, 3] [4, 6] [some [4, 2], none, none] = true
    ∧ noSelfWinB [4, 2, 3] [some [4, 2], none, none] = false := by decide

/-! ## (1) the forward clause, total -/

variable {R : Type} [Zero R] [Neg R] [Lazy.LawfulNeg R]

/-- **fermionic plan of several fuse calls, element by element, TOTAL**: the plan succeeds, the result
    is a valid fermionic array and the pull-back of addresses is a sign-exact bijection from the
    stored, not zero-filled addresses of the result onto the stored addresses of the input; the
    zero-filled addresses hold 0 (`ElemBij`, spelled out in the header) -/
theorem reshape_forward_elem_fermionic_calls (a : Arr R) (calls : List (List (List Nat)))
    (hv : a.validB = true) (hf : a.fermi = true) (hc : CallsOk calls 0 a.ndim) :
    ∃ y, applyPlan a ([], calls, []) = .ok y ∧ y.validB = true ∧ y.fermi = true
      ∧ (∀ ns i, Stored y ns i →
          (∃ s o σ, Pulled a calls 0 y ns i s o σ ∧ Stored a s o ∧ y.elem ns i = Lazy.sgnI σ (a.elem s o))
          ∨ (ZeroAt a calls 0 y ns i ∧ y.elem ns i = 0))
      ∧ (∀ s o, Stored a s o →
          ∃ ns i σ, Stored y ns i ∧ Pulled a calls 0 y ns i s o σ ∧ y.elem ns i = Lazy.sgnI σ (a.elem s o))
      ∧ (∀ ns i ns' i' s o σ σ', Stored y ns i → Stored y ns' i' → Pulled a calls 0 y ns i s o σ →
          Pulled a calls 0 y ns' i' s o σ' → ns = ns' ∧ i = i')
      ∧ (∀ ns i s o σ s' o' σ', Pulled a calls 0 y ns i s o σ → Pulled a calls 0 y ns i s' o' σ' →
          s = s' ∧ o = o' ∧ σ = σ')
      ∧ (∀ ns i, ZeroAt a calls 0 y ns i → ∀ s o σ, Pulled a calls 0 y ns i s o σ → ¬ Stored a s o) := by
  obtain ⟨y, hy, hvy, hfy, hb⟩ := elemBij_calls a calls hv hf hc
  exact ⟨y, by rw [applyPlan_calls]; exact hy, hvy, hfy, hb.total, hb.onto, hb.inj, hb.func, hb.excl⟩

/-- **fermionic `reshape` to a merge / squeeze target, element by element, TOTAL** — any number of
    fuse calls, fused axes allowed, under the exact window condition -/
theorem reshape_forward_elem_fermionic_items (a : Arr R) (hv : a.validB = true)
    (hf : a.fermi = true) (items : List Item) (hshape : a.shape = shapeOf items) (hok : ItemsOk items)
    (hne : targetOf items ≠ []) (hpos : ∀ d ∈ a.shape, 0 < d)
    (hnw1 : noWinVisB a.shape (targetOf items) a.subsizes = true) :
    ∃ t y, calcReshapeArgs a.shape (targetOf items) a.subsizes = .ok t ∧ t.1 = [] ∧ t.2.2 = []
      ∧ reshapeArr a ((targetOf items).map Int.ofNat) = .ok y ∧ y.validB = true ∧ y.fermi = true
      ∧ ElemBij a t.2.1 y :=
  forward_items_bij a hv hf items hshape hok hne hpos hnw1

/-- **the forward clause for fermionic arrays**: `reshape(a, target)` for a target obtained by merging
    adjacent axes and/or dropping size-one axes has at every stored address either the value of
    exactly the source element that the fused index tables prescribe, with the fuse sign, or zero;
    and every stored source element appears exactly once -/
theorem reshape_forward_elem_fermionic_mergeDrop (a : Arr R) (hv : a.validB = true) (hf : a.fermi = true)
    (segs : List MSeg) (hok : ∀ s ∈ segs, MSegOk s) (hshape : a.shape = shapeS segs)
    (hne : targetS segs ≠ []) (hnw1 : noWinVisB a.shape (targetS segs) a.subsizes = true) :
    ∃ t y, calcReshapeArgs a.shape (targetS segs) a.subsizes = .ok t ∧ t.1 = [] ∧ t.2.2 = []
      ∧ reshapeArr a ((targetS segs).map Int.ofNat) = .ok y ∧ y.validB = true ∧ y.fermi = true
      ∧ ElemBij a t.2.1 y := by
  obtain ⟨items, h1, h2, h3⟩ := normalise segs hok
  rw [← h3] at hne hnw1 ⊢
  exact reshape_forward_elem_fermionic_items a hv hf items (by rw [hshape, h2]) h1 hne
    (by rw [hshape]; exact shapeS_pos segs hok) hnw1

/-! ## (3) there and back under the exact conditions -/

/-- **`reshape` there and back, fermionic, fused axes allowed, every plan without expansion** -/
theorem reshape_roundtrip_fermionic_fused_general_exact (a y : Arr R) (ns full : List Int) (nsN : List Nat)
    (t : List Nat × List (List (List Nat)) × List Nat)
    (hv : a.validB = true) (hf : a.fermi = true)
    (hpos : ∀ d ∈ a.shape, 0 < d) (hprod : prod a.shape = prod nsN)
    (hnw1 : noWinVisB a.shape nsN a.subsizes = true) (hnw2 : noSelfWinB a.shape a.subsizes = true)
    (h1 : findFullReshape ns a.size = .ok full)
    (h2 : full.mapM (fun (d : Int) => if d < 0 then (throw Err.notimpl : Except Err Nat) else pure d.toNat)
      = .ok nsN)
    (h3 : calcReshapeArgs a.shape nsN a.subsizes = .ok t) (hexp : t.2.2 = [])
    (hy : reshapeArr a ns = .ok y) :
    ∃ z, reshapeArr y (a.shape.map Int.ofNat) = .ok z ∧ z.validB = true ∧ z.fermi = true ∧ VEq z a := by
  obtain ⟨z, hz, g, hvz⟩ := reshape_roundtrip_vis_generic (stepOK_F (R := R)) fuseOK_F hind_F
    (fun x G hx => by simp [fuseDispatch, hx.2]) hdisp_F a y ⟨hv, hf⟩ ns full nsN t hpos hprod hnw1 hnw2
    h1 h2 h3 hexp hy
  exact ⟨z, hz, g.1, g.2, hvz⟩

/-- … abelian -/
theorem reshape_roundtrip_abelian_fused_general_exact (a y : Arr R) (ns full : List Int) (nsN : List Nat)
    (t : List Nat × List (List (List Nat)) × List Nat)
    (hv : a.validB = true) (hf : a.fermi = false)
    (hpos : ∀ d ∈ a.shape, 0 < d) (hprod : prod a.shape = prod nsN)
    (hnw1 : noWinVisB a.shape nsN a.subsizes = true) (hnw2 : noSelfWinB a.shape a.subsizes = true)
    (h1 : findFullReshape ns a.size = .ok full)
    (h2 : full.mapM (fun (d : Int) => if d < 0 then (throw Err.notimpl : Except Err Nat) else pure d.toNat)
      = .ok nsN)
    (h3 : calcReshapeArgs a.shape nsN a.subsizes = .ok t) (hexp : t.2.2 = [])
    (hy : reshapeArr a ns = .ok y) :
    ∃ z, reshapeArr y (a.shape.map Int.ofNat) = .ok z ∧ z.validB = true ∧ z.fermi = false ∧ VEq z a := by
  obtain ⟨z, hz, g, hvz⟩ := reshape_roundtrip_vis_generic (stepOK_A (R := R)) fuseOK_A hind_A
    (fun x G hx => by simp [fuseDispatch, hx.2]) hdisp_A a y ⟨hv, hf⟩ ns full nsN t hpos hprod hnw1 hnw2
    h1 h2 h3 hexp hy
  exact ⟨z, hz, g.1, g.2, hvz⟩

/-- **`reshape` there and back, fermionic, fused axes allowed** (merge / squeeze targets in the
    planner's reading): both reshapes succeed -/
theorem reshape_roundtrip_fermionic_fused_items_exact (a : Arr R) (hv : a.validB = true) (hf : a.fermi = true)
    (items : List Item) (hshape : a.shape = shapeOf items) (hok : ItemsOk items)
    (hne : targetOf items ≠ []) (hpos : ∀ d ∈ a.shape, 0 < d)
    (hnw1 : noWinVisB a.shape (targetOf items) a.subsizes = true)
    (hnw2 : noSelfWinB a.shape a.subsizes = true) :
    ∃ y z, reshapeArr a ((targetOf items).map Int.ofNat) = .ok y
      ∧ reshapeArr y (a.shape.map Int.ofNat) = .ok z ∧ z.validB = true ∧ z.fermi = true ∧ VEq z a := by
  obtain ⟨y, z, h1, h2, g, h3⟩ := reshape_roundtrip_items_vis_generic (stepOK_F (R := R)) fuseOK_F hind_F
    (fun x G hx => by simp [fuseDispatch, hx.2]) hdisp_F a ⟨hv, hf⟩ items hshape hok hne hpos hnw1 hnw2
  exact ⟨y, z, h1, h2, g.1, g.2, h3⟩

/-- … abelian -/
theorem reshape_roundtrip_abelian_fused_items_exact (a : Arr R) (hv : a.validB = true) (hf : a.fermi = false)
    (items : List Item) (hshape : a.shape = shapeOf items) (hok : ItemsOk items)
    (hne : targetOf items ≠ []) (hpos : ∀ d ∈ a.shape, 0 < d)
    (hnw1 : noWinVisB a.shape (targetOf items) a.subsizes = true)
    (hnw2 : noSelfWinB a.shape a.subsizes = true) :
    ∃ y z, reshapeArr a ((targetOf items).map Int.ofNat) = .ok y
      ∧ reshapeArr y (a.shape.map Int.ofNat) = .ok z ∧ z.validB = true ∧ z.fermi = false ∧ VEq z a := by
  obtain ⟨y, z, h1, h2, g, h3⟩ := reshape_roundtrip_items_vis_generic (stepOK_A (R := R)) fuseOK_A hind_A
    (fun x G hx => by simp [fuseDispatch, hx.2]) hdisp_A a ⟨hv, hf⟩ items hshape hok hne hpos hnw1 hnw2
  exact ⟨y, z, h1, h2, g.1, g.2, h3⟩

/-- **the round-trip clause, fermionic arrays with fused axes, exact window conditions** -/
theorem reshape_mergeDrop_roundtrip_fermionic_fused_exact (a : Arr R) (hv : a.validB = true)
    (hf : a.fermi = true) (segs : List MSeg) (hok : ∀ s ∈ segs, MSegOk s) (hshape : a.shape = shapeS segs)
    (hne : targetS segs ≠ [])
    (hnw1 : noWinVisB a.shape (targetS segs) a.subsizes = true)
    (hnw2 : noSelfWinB a.shape a.subsizes = true) :
    ∃ y z, reshapeArr a ((targetS segs).map Int.ofNat) = .ok y
      ∧ reshapeArr y (a.shape.map Int.ofNat) = .ok z ∧ z.validB = true ∧ z.fermi = true ∧ VEq z a := by
  obtain ⟨items, h1, h2, h3⟩ := normalise segs hok
  rw [← h3] at hne hnw1 ⊢
  exact reshape_roundtrip_fermionic_fused_items_exact a hv hf items (by rw [hshape, h2]) h1 hne
    (by rw [hshape]; exact shapeS_pos segs hok) hnw1 hnw2

/-- **the round-trip clause, abelian arrays with fused axes, exact window conditions** -/
theorem reshape_mergeDrop_roundtrip_abelian_fused_exact (a : Arr R) (hv : a.validB = true)
    (hf : a.fermi = false) (segs : List MSeg) (hok : ∀ s ∈ segs, MSegOk s) (hshape : a.shape = shapeS segs)
    (hne : targetS segs ≠ [])
    (hnw1 : noWinVisB a.shape (targetS segs) a.subsizes = true)
    (hnw2 : noSelfWinB a.shape a.subsizes = true) :
    ∃ y z, reshapeArr a ((targetS segs).map Int.ofNat) = .ok y
      ∧ reshapeArr y (a.shape.map Int.ofNat) = .ok z ∧ z.validB = true ∧ z.fermi = false ∧ VEq z a := by
  obtain ⟨items, h1, h2, h3⟩ := normalise segs hok
  rw [← h3] at hne hnw1 ⊢
  exact reshape_roundtrip_abelian_fused_items_exact a hv hf items (by rw [hshape, h2]) h1 hne
    (by rw [hshape]; exact shapeS_pos segs hok) hnw1 hnw2

/-! ## examples -/

section Examples
open C05

-- the planner theorems on the sparsely fused (3, 3⟨3,2⟩) → (9)
example := planner_window_exact [3, 3] [9] [none, some [3, 2]] rfl _ rfl
example : noWinVisB exAfused.shape [9] exAfused.subsizes = true
    ∧ noSelfWinB exAfused.shape exAfused.subsizes = true := by decide +kernel

-- the element bijection: two fuse calls, (2,2,1,2,2) → (4,1,4)
example := reshape_forward_elem_fermionic_calls (R := Int) exG5 [[[0, 1]], [[2, 3]]]
  (by decide +kernel) (by decide +kernel) (callsOk_of_B _ _ _ (by decide +kernel))
example := reshape_forward_elem_fermionic_items (R := Int) exG5 (by decide +kernel) (by decide +kernel)
  [.M 2 [] 2, .K 1, .M 2 [] 2] (by decide +kernel) (by decide) (by decide) (by decide +kernel)
  (by decide +kernel)
example := reshape_forward_elem_fermionic_mergeDrop (R := Int) exG5 (by decide +kernel) (by decide +kernel)
  [.run [2, 2], .run [1], .run [2, 2]] (by decide) (by decide +kernel) (by decide) (by decide +kernel)
-- a fermionic input that already carries a (sparsely) fused axis: (3, 3⟨3,2⟩) → (9)
example := reshape_forward_elem_fermionic_mergeDrop (R := Int) exFfused (by decide +kernel) (by decide +kernel)
  [.run [3, 3]] (by decide) (by decide +kernel) (by decide) (by decide +kernel)
-- the FIRST case of `total` is inhabited: the stored address of C07h's `Pulled` example (value -9)
example : Stored exG5y2 [(1, 0), (0, 0), (1, 0)] [1, 0, 0] :=
  ⟨(alookup exG5y2.blocks [(1, 0), (0, 0), (1, 0)]).getD default,
    some_of_isSome default (by decide +kernel), by decide +kernel⟩

-- the SECOND case of `total` is inhabited too: in the same block of the result, offset (0,0,0) pulls
-- back (through both calls, intermediate address stored) to the sector (0,1,0,0,1) which `exG5` does
-- not store — a zero-filled address
example : ZeroAt exG5 [[[0, 1]], [[2, 3]]] 0 exG5y2 [(1, 0), (0, 0), (1, 0)] [0, 0, 0]
    ∧ exG5y2.elem [(1, 0), (0, 0), (1, 0)] [0, 0, 0] = 0 := by
  refine ⟨⟨0, exG5y1, ⟨by decide, by decide, by decide, by decide, by decide +kernel⟩,
    ok_of_isOk exG5 (by decide +kernel),
    Or.inr ⟨[(0, 0), (1, 0), (0, 0), (0, 0), (1, 0)], [0, 0, 0, 0, 0], 1, ?_, by decide +kernel⟩⟩,
    by decide +kernel⟩
  refine ⟨0, exG5y1, [(1, 0), (0, 0), (0, 0), (1, 0)], [0, 0, 0, 0], 1,
    (alookup exG5y1.blocks [(1, 0), (0, 0), (0, 0), (1, 0)]).getD default, [([(0, 0), (1, 0)], [0, 0])],
    ⟨by decide, by decide, by decide, by decide, by decide +kernel⟩, ok_of_isOk exG5 (by decide +kernel),
    ?_, ?_⟩
  · refine ⟨2, exG5y2, [(1, 0), (0, 0), (1, 0)], [0, 0, 0], 1,
      (alookup exG5y2.blocks [(1, 0), (0, 0), (1, 0)]).getD default, [([(0, 0), (1, 0)], [0, 0])],
      ⟨by decide, by decide, by decide, by decide, by decide +kernel⟩, ok_of_isOk exG5 (by decide +kernel),
      ⟨rfl, rfl, rfl⟩, ?_⟩
    refine ⟨some_of_isSome default (by decide +kernel), by decide +kernel, rfl, ?_, by decide +kernel,
      by decide +kernel, rfl, rfl, by decide +kernel⟩
    intro g gaxes hg
    match g with
    | 0 => decide +kernel
    | g + 1 => simp at hg
  · refine ⟨some_of_isSome default (by decide +kernel), by decide +kernel, rfl, ?_, by decide +kernel,
      by decide +kernel, rfl, rfl, by decide +kernel⟩
    intro g gaxes hg
    match g with
    | 0 => decide +kernel
    | g + 1 => simp at hg

-- the round trips under the exact conditions
example := reshape_mergeDrop_roundtrip_abelian_fused_exact (R := Int) exAfused (by decide +kernel)
  (by decide +kernel) [.run [3, 3]] (by decide) (by decide +kernel) (by decide) (by decide +kernel)
  (by decide +kernel)
example := reshape_mergeDrop_roundtrip_fermionic_fused_exact (R := Int) exFfused (by decide +kernel)
  (by decide +kernel) [.run [3, 3]] (by decide) (by decide +kernel) (by decide) (by decide +kernel)
  (by decide +kernel)
example := reshape_roundtrip_abelian_fused_items_exact (R := Int) exAkept (by decide +kernel) (by decide +kernel)
  [.K 6, .K 2, .Sq] (by decide +kernel) (by decide) (by decide) (by decide +kernel) (by decide +kernel)
  (by decide +kernel)

end Examples

end SymmModel.C07
