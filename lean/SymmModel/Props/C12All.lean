/-
  Umbrella for property C12: the theorems of Props/C12, the dense-norm theorems that were
  proved next to the C08 densification lemmas (Props/C08b: `C08.norm_sq_eq_dense`), and the
  spectrum theorems (Props/C12b: characteristic polynomial / eigenvalue and squared-singular-value
  multisets of the dense form = those of the blocks).
-/
import SymmModel.Props.C12
import SymmModel.Props.C08b
import SymmModel.Props.C12b
import SymmModel.Props.C12c
