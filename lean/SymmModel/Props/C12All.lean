/-
  Umbrella for property C12: the theorems of Props/C12 plus the dense-norm theorems that were
  proved next to the C08 densification lemmas (Props/C08b: `C08.norm_sq_eq_dense`).
-/
import SymmModel.Props.C12
import SymmModel.Props.C08b
