/- umbrella for property C10: involutions / adjoint laws (C10), single-array norm (C10b), network
   norm of two tensors: halves first (C10c), sequential bracketings by S7 (C10d) -/
import SymmModel.Props.C10All2
import SymmModel.Props.C10d
