/- Property C07 — umbrella incl. C07j (abelian element bijection, both strategies; stored sectors have stored sources). -/
import SymmModel.Props.C07All8
import SymmModel.Props.C07j
