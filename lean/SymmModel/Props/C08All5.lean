/-
  Property C08 — umbrella module: all six parts of the property theorems.
-/
import SymmModel.Props.C08All4
import SymmModel.Props.C08f
