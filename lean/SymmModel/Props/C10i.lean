/-
  Property C10, network clause, round 7 — bracketings of the two-tensor norm network `{a, b, ā, b̄}` that
  FIRST contract a ket tensor with its bra tensor.

  `a`, `b` as in C10g: valid fermionic, bonded along `xa`/`xb` (`tdotAdmissibleB`), sorted distinct ket
  labels (`KetLabels`, all labels distinct), label check `netLabelsB` of C10e/f; blockwise mode;
  commutative scalars (`hmul`), `AddCommMonoid`, `NetLaws`, `AssocLaws`.  `ā = braOf a xa`,
  `b̄ = braOf b xb`, `K = a·b`, `X = ā·a` (contracted over all dangling legs of `a`).

  PROVED
  * `network_norm_ketbra_first` (`KetBraFirst a b xa xb`, written out in `ketBraFirst_def`): the calls of
        `((b̄·ā)·a)·b`,   `(b̄·(ā·a))·b`,   `((ā·a)·b̄)·b`
    all succeed; `ā·a` carries NO label (`X.oddpos = []`: the nested conjugate pairs annihilate,
    `merge_nested`); the three final results have rank 0, no labels and the value `normSq K = Σ|K|²` —
    no stray sign.  Additional hypothesis: the decidable label check `ketBraLabelsB` (= `LabelRoutes` of
    the triangle `(b̄, ā, a)`).
    Derivation: `((b̄·ā)·a)·b` is `network_norm_mixed_seq` (C10g) for `(b, a)`; S7 under the weak guard
    for `(b̄, ā, a)` + congruence of the full contraction (`scalar_congr`) give `(b̄·(ā·a))·b`; since `ā·a` has
    no label, S5 as an equivalence (`C04.tdotF_swap_eqv`) applies to `b̄·(ā·a)` / `(ā·a)·b̄`, and S6 for a
    full contraction (`scalar_pre`) + congruence give `((ā·a)·b̄)·b`.  The axes of the last call are the
    positions `positions (kbRot …) (kbU …)` of the legs under the rotation of the two blocks
    (`kbAxes_example` evaluates them).
  * `network_norm_ketbra_first_oneKet`: at most one ket label per tensor — the statement holds for
    `(a, b)` or with the roles of the two tensors exchanged (`KetBraFirst b a xb xa`: first `b̄·b`).
  * `network_norm_ketbra_first_lt`: one label each, `label a < label b`: `KetBraFirst a b xa xb`.
  * FINDING-LIKE FACT `ketBraLabels_order`: with `label a > label b` the two routes `(b̄·ā)·a` and
    `b̄·(ā·a)` end with DIFFERENT label lists (`[(la,†),(lb,†),(la, )]` against `[(lb,†)]`: the label scan
    of `resolve_combined_oddpos` does not bring the conjugate pair together), so the intermediates are not
    `Eqv` although all final values agree (`ketbra_vals_order`: `Σ|K|²` on all routes for both label
    orders) — this is why the check `ketBraLabelsB` is needed and why the one-label corollary is a
    disjunction.

  NOT COVERED (remaining)
  * `(ā·a)·(b̄·b)` itself: = `((ā·a)·b̄)·b` by S7 for the triangle `(ā·a, b̄, b)`; the label routes
    (`NormNet.labelRoutes_X`, any sorted ket lists) and the guards are proved, the missing step is the
    identification of the axes list `positions (kbRot …) (kbU …)` with `Assoc2P.axesAB …` of that
    triangle (list bookkeeping: `freeAxes` of a shifted range, `positions` under a shift) — not finished
    in this round; `ketbra_vals_order` evaluates this bracketing on a concrete network;
  * the case `label a > label b` for the routes through `(b̄·ā)·a` with `a`'s label outermost (needs a
    label-list-independent form of S7, i.e. `Eqv` up to the labels);
  * fused / auto mode; nested routes of the three-tensor chain (`c̄·(b̄·(ā·K3))`).
-/
import SymmModel.Proofs.NetNormK3
import SymmModel.Props.C10h

namespace SymmModel.C10
open SymmModel Lazy Norm NormNet TdotP
set_option linter.unusedSectionVars false

/-! ## vocabulary -/

theorem ketBraLabelsB_def (pA pB : Bool) (oA oB : List (Int × Bool)) :
    ketBraLabelsB pA pB oA oB
      = C04.labelRoutesB pB pA (Arr.oddposDag oB) (Arr.oddposDag oA) oA := rfl

theorem kbAxes_def {R : Type} (a b : Arr R) (xa xb : List Nat) :
    kbU a b xa xb
      = Assoc2P.axesAB ((freeAxes b.ndim xb).length + (freeAxes a.ndim xa).length) a.ndim
          ((List.range (freeAxes a.ndim xa).length).map ((freeAxes b.ndim xb).length + ·))
          (List.range (freeAxes b.ndim xb).length) (freeAxes a.ndim xa) xa
    ∧ kbX a xa = Assoc2P.axesBC a.ndim a.ndim xa (freeAxes a.ndim xa) (freeAxes a.ndim xa) []
    ∧ kbRot a b xa xb
      = Assoc5P.rotB (freeAxes b.ndim xb).length (freeAxes ((freeAxes a.ndim (freeAxes a.ndim xa)).length
          + (freeAxes a.ndim (freeAxes a.ndim xa)).length) (kbX a xa)).length := ⟨rfl, rfl, rfl⟩

/-- on a concrete shape (`a` of rank 3 bonded by leg 2, `b` of rank 3 bonded by leg 0): `b̄·(ā·a)` has the
    legs `[b̄'s two dangling legs, a's bond leg]`, all contracted with `b` (`fB ++ xb = [1, 2, 0]`);
    `ā·a` is bonded to `b̄` by its leg 0; `(ā·a)·b̄` has the legs `[a's bond leg, b̄'s dangling legs]` -/
theorem kbAxes_example :
    kbU C03.gA C03.gB [2] [0] = [0, 1, 2] ∧ kbX C03.gA [2] = [0]
    ∧ kbRot C03.gA C03.gB [2] [0] = [2, 0, 1]
    ∧ RoutesP.positions (kbRot C03.gA C03.gB [2] [0]) (kbU C03.gA C03.gB [2] [0]) = [1, 2, 0] := by
  decide +kernel

theorem ketBraFirst_def {R : Type} [AddCommMonoid R] [Mul R] [Neg R] [Conj R] [NetLaws R]
    [AssocP.AssocLaws R] (a b : Arr R) (xa xb : List Nat) :
    KetBraFirst a b xa xb ↔
    ∃ K Kb' T X BX XB,
      a.tensordotF b (.pair (xa.map Int.ofNat) (xb.map Int.ofNat)) .blockwise = .ok K
      -- ((b̄·ā)·a)·b
      ∧ (NormNet.braOf b xb).tensordotF (NormNet.braOf a xa)
          (.pair (xb.map Int.ofNat) (xa.map Int.ofNat)) .blockwise = .ok Kb'
      ∧ Kb'.tensordotF a (.pair
            (((List.range (freeAxes a.ndim xa).length).map ((freeAxes b.ndim xb).length + ·)).map
              Int.ofNat) ((freeAxes a.ndim xa).map Int.ofNat)) .blockwise = .ok T
      ∧ (∃ c, T.tensordotF b (.pair ((kbU a b xa xb).map Int.ofNat)
            ((freeAxes b.ndim xb ++ xb).map Int.ofNat)) .blockwise = .ok c
          ∧ c.ndim = 0 ∧ c.oddpos = [] ∧ c.elem [] [] = normSq K)
      -- ā·a : no label left
      ∧ (NormNet.braOf a xa).tensordotF a (.pair ((freeAxes a.ndim xa).map Int.ofNat)
            ((freeAxes a.ndim xa).map Int.ofNat)) .blockwise = .ok X
      ∧ X.oddpos = []
      -- (b̄·(ā·a))·b
      ∧ (NormNet.braOf b xb).tensordotF X (.pair (xb.map Int.ofNat) ((kbX a xa).map Int.ofNat))
          .blockwise = .ok BX
      ∧ (∃ c, BX.tensordotF b (.pair ((kbU a b xa xb).map Int.ofNat)
            ((freeAxes b.ndim xb ++ xb).map Int.ofNat)) .blockwise = .ok c
          ∧ c.ndim = 0 ∧ c.oddpos = [] ∧ c.elem [] [] = normSq K)
      -- ((ā·a)·b̄)·b
      ∧ X.tensordotF (NormNet.braOf b xb) (.pair ((kbX a xa).map Int.ofNat) (xb.map Int.ofNat))
          .blockwise = .ok XB
      ∧ (∃ c, XB.tensordotF b (.pair
            ((RoutesP.positions (kbRot a b xa xb) (kbU a b xa xb)).map Int.ofNat)
            ((freeAxes b.ndim xb ++ xb).map Int.ofNat)) .blockwise = .ok c
          ∧ c.ndim = 0 ∧ c.oddpos = [] ∧ c.elem [] [] = normSq K) := Iff.rfl

/-! ## generic steps (full contractions under the weak guard) -/

section gen
variable {R : Type} [AddCommMonoid R] [Mul R] [Neg R] [GradedP.SignRing R] [AssocP.AssocLaws R]

/-- congruence of a full contraction in the left operand -/
theorem scalar_congr {X X' Y r : Arr R} {u v : List Nat} (W : AssocP.AdmW X Y u v)
    (hE : Assoc3P.Eqv X X') (hv' : X'.validB = true)
    (e : X.tensordotF Y (.pair (u.map Int.ofNat) (v.map Int.ofNat)) .blockwise = .ok r)
    (hn : r.ndim = 0) :
    ∃ r', X'.tensordotF Y (.pair (u.map Int.ofNat) (v.map Int.ofNat)) .blockwise = .ok r'
      ∧ r'.ndim = 0 ∧ r'.oddpos = r.oddpos ∧ r'.elem [] [] = r.elem [] [] :=
  NormNet.scalar_congr W hE hv' e hn

/-- S6 for a full contraction: pre-transposing the left operand and re-listing its axes along the
    permutation leaves labels and value unchanged -/
theorem scalar_pre {P Y r : Arr R} {u u' v p : List Nat} (W : AssocP.AdmW P Y u v)
    (hp : p.Perm (List.range P.ndim)) (hu : freeAxes P.ndim u = []) (hv : freeAxes Y.ndim v = [])
    (hn' : u'.Nodup) (hlt' : ∀ i ∈ u', i < P.ndim) (hx : permuted p u' = u)
    (hu' : freeAxes P.ndim u' = [])
    (e : P.tensordotF Y (.pair (u.map Int.ofNat) (v.map Int.ofNat)) .blockwise = .ok r) :
    ∃ c', (P.transposeF p).tensordotF Y (.pair (u'.map Int.ofNat) (v.map Int.ofNat)) .blockwise
          = .ok c'
      ∧ AssocP.AdmW (P.transposeF p) Y u' v
      ∧ c'.ndim = 0 ∧ c'.oddpos = r.oddpos ∧ c'.elem [] [] = r.elem [] [] :=
  NormNet.scalar_pre W hp hu hv hn' hlt' hx hu' e

end gen

/-! ## labels -/

/-- nested conjugate pairs annihilate: `ā·a` carries no label -/
theorem merge_nested (p : Bool) (w : List (Int × Bool)) (hk : KetLabels w)
    (hd : w.Pairwise (fun x y => x.1 ≠ y.1)) :
    ∃ s, OddposP.mergeOddpos p (Arr.oddposDag w) w = .ok ([], s) ∧ (s = 1 ∨ s = -1) :=
  NormNet.merge_nested p w hk hd

/-- the label routes of the triangle `(ā·a, b̄, b)`, any sorted ket list -/
theorem labelRoutes_ketbra_piece (pb : Bool) (oB : List (Int × Bool)) (hk : KetLabels oB)
    (hd : oB.Pairwise (fun x y => x.1 ≠ y.1)) :
    Assoc2P.LabelRoutes false pb [] (Arr.oddposDag oB) oB := NormNet.labelRoutes_X pb oB hk hd

/-- at most one ket label per tensor: the check holds for `(a, b)` or for `(b, a)` -/
theorem ketBraLabelsB_oneKet (oA oB : List (Int × Bool)) (hA : OneKet oA) (hB : OneKet oB)
    (hd : (oA ++ oB).Pairwise (fun x y => x.1 ≠ y.1)) :
    ketBraLabelsB (oA.length % 2 == 1) (oB.length % 2 == 1) oA oB = true
    ∨ ketBraLabelsB (oB.length % 2 == 1) (oA.length % 2 == 1) oB oA = true :=
  NormNet.ketBraLabelsB_oneKet oA oB hA hB hd

/-- the order of the labels matters for the routes through `(b̄·ā)·a` -/
theorem ketBraLabels_order :
    ketBraLabelsB true true [(1, false)] [(3, false)] = true
    ∧ ketBraLabelsB true true [(3, false)] [(1, false)] = false
    -- the two label routes of `(b̄, ā, a)` with `label a = 3 > label b = 1`
    ∧ (OddposP.mergeOddpos true [(1, true)] [(3, true)] = .ok ([(3, true), (1, true)], 1)
      ∧ OddposP.mergeOddpos false [(3, true), (1, true)] [(3, false)]
          = .ok ([(3, true), (1, true), (3, false)], 1)
      ∧ OddposP.mergeOddpos true [(3, true)] [(3, false)] = .ok ([], -1)
      ∧ OddposP.mergeOddpos true [(1, true)] [] = .ok ([(1, true)], 1)) := by decide

/-! ## the theorems -/

section main
variable {R : Type} [AddCommMonoid R] [Mul R] [Neg R] [Conj R] [NetLaws R] [AssocP.AssocLaws R]

/-- **network_norm_ketbra_first.**  The routes `((b̄·ā)·a)·b`, `(b̄·(ā·a))·b`, `((ā·a)·b̄)·b` of the norm
    network succeed and give `Σ|K|²`, rank 0, no labels, no stray sign; `ā·a` carries no label. -/
theorem network_norm_ketbra_first (hmul : ∀ x y : R, x * y = y * x) (a b : Arr R) (xa xb : List Nat)
    (ha : a.validB = true) (hb : b.validB = true) (hfa : a.fermi = true) (hfb : b.fermi = true)
    (hadm : ValidP.tdotAdmissibleB a b xa xb = true)
    (hoA : KetLabels a.oddpos) (hoB : KetLabels b.oddpos)
    (hd : (a.oddpos ++ b.oddpos).Pairwise (fun x y => x.1 ≠ y.1))
    (hlab : netLabelsB a.parity b.parity a.oddpos b.oddpos = true)
    (hlabK : ketBraLabelsB a.parity b.parity a.oddpos b.oddpos = true) :
    KetBraFirst a b xa xb :=
  ketbra_first hmul a b xa xb ha hb hfa hfb hadm hoA hoB hd hlab hlabK

/-- at most one ket label per tensor: for `(a, b)` or with the roles of the tensors exchanged -/
theorem network_norm_ketbra_first_oneKet (hmul : ∀ x y : R, x * y = y * x) (a b : Arr R)
    (xa xb : List Nat)
    (ha : a.validB = true) (hb : b.validB = true) (hfa : a.fermi = true) (hfb : b.fermi = true)
    (hadm : ValidP.tdotAdmissibleB a b xa xb = true)
    (hoA : OneKet a.oddpos) (hoB : OneKet b.oddpos)
    (hd : (a.oddpos ++ b.oddpos).Pairwise (fun x y => x.1 ≠ y.1)) :
    KetBraFirst a b xa xb ∨ KetBraFirst b a xb xa := by
  have hpa := (NormOk.of_valid ha hfa).labels
  have hpb := (NormOk.of_valid hb hfb).labels
  rcases NormNet.ketBraLabelsB_oneKet a.oddpos b.oddpos hoA hoB hd with hK | hK
  · left
    rw [hpa, hpb] at hK
    exact ketbra_first hmul a b xa xb ha hb hfa hfb hadm hoA.ketLabels hoB.ketLabels hd
      (netLabelsB_of_oneKet ha hb hfa hfb hoA hoB hd) hK
  · right
    rw [hpa, hpb] at hK
    exact ketbra_first hmul b a xb xa hb ha hfb hfa (admB_swap ha hb hfa hfb hadm) hoB.ketLabels
      hoA.ketLabels (labels_swap hd) (netLabelsB_of_oneKet hb ha hfb hfa hoB hoA (labels_swap hd)) hK

/-- one label each, the smaller one on `a` -/
theorem network_norm_ketbra_first_lt (hmul : ∀ x y : R, x * y = y * x) (a b : Arr R)
    (xa xb : List Nat) (la lb : Int)
    (ha : a.validB = true) (hb : b.validB = true) (hfa : a.fermi = true) (hfb : b.fermi = true)
    (hadm : ValidP.tdotAdmissibleB a b xa xb = true)
    (hoA : a.oddpos = [(la, false)]) (hoB : b.oddpos = [(lb, false)]) (hlt : la < lb) :
    KetBraFirst a b xa xb := by
  have hA : OneKet a.oddpos := Or.inr ⟨la, hoA⟩
  have hB : OneKet b.oddpos := Or.inr ⟨lb, hoB⟩
  have hd : (a.oddpos ++ b.oddpos).Pairwise (fun x y => x.1 ≠ y.1) := by
    rw [hoA, hoB]; simp; omega
  have hpa := (NormOk.of_valid ha hfa).labels
  have hpb := (NormOk.of_valid hb hfb).labels
  have hK : ketBraLabelsB a.parity b.parity a.oddpos b.oddpos = true := by
    rw [← hpa, ← hpb, hoA, hoB]
    have h1 : ¬ lb = la := by omega
    have h2 : ¬ la = lb := by omega
    have h3 : ¬ lb < la := by omega
    simp [ketBraLabelsB, C04.labelRoutesB, OddposP.mergeOddpos, resolveScan, oddLt, pure,
      Except.pure, Arr.oddposDag, h1, h2, h3, hlt]
  exact ketbra_first hmul a b xa xb ha hb hfa hfb hadm hA.ketLabels hB.ketLabels hd
    (netLabelsB_of_oneKet ha hb hfa hfb hA hB hd) hK

end main

/-! ## non-vacuity -/

open scoped SymmModel.Lazy

/-- the network `gA`, `gB` of C10d (labels 1 and 3; both odd; pending signs) -/
example : KetBraFirst C03.gA C03.gB [2] [0] :=
  network_norm_ketbra_first Int.mul_comm C03.gA C03.gB [2] [0] (by decide +kernel) (by decide +kernel)
    rfl rfl (by decide +kernel) (OneKet.ketLabels (Or.inr ⟨1, rfl⟩))
    (OneKet.ketLabels (Or.inr ⟨3, rfl⟩)) (by decide) (by decide +kernel) (by decide +kernel)

/-- the pruned network `gAs`, `gB` -/
example : KetBraFirst gAs C03.gB [2] [0] :=
  network_norm_ketbra_first_lt Int.mul_comm gAs C03.gB [2] [0] 1 3 (by decide +kernel)
    (by decide +kernel) rfl rfl (by decide +kernel) rfl rfl (by decide)

/-- `gA` with the label 7 (larger than `gB`'s label 3) -/
def gA7 : Arr Int := { C03.gA with oddpos := [(7, false)] }

/-- values of `(b̄·(ā·a))·b`, `((ā·a)·b̄)·b`, `(ā·a)·(b̄·b)` and `normSq (a·b)` of a concrete network with one
    bond leg, and the label lists of `(b̄·ā)·a` and `b̄·(ā·a)` -/
def ketbraVals (a b : Arr Int) (xa xb : List Nat) : List (List Int) :=
  let fA := freeAxes a.ndim xa
  let fB := freeAxes b.ndim xb
  let P (x y : List Nat) : AxesArg := .pair (x.map Int.ofNat) (y.map Int.ofNat)
  let lab (o : List (Int × Bool)) : List Int := o.flatMap (fun p => [p.1, if p.2 then 1 else 0])
  let val (r : Except Err (Arr Int)) : List Int :=
    match r with | .ok c => [c.elem [] [], (c.ndim : Int)] ++ lab c.oddpos | .error _ => [-1]
  let labs (r : Except Err (Arr Int)) : List Int :=
    match r with | .ok c => lab c.oddpos | .error _ => [-1]
  let ab := NormNet.braOf a xa
  let bb := NormNet.braOf b xb
  let X := ab.tensordotF a (P fA fA) .blockwise
  let Y := bb.tensordotF b (P fB fB) .blockwise
  let BX := do let x ← X; bb.tensordotF x (P xb (kbX a xa)) .blockwise
  let XB := do let x ← X; x.tensordotF bb (P (kbX a xa) xb) .blockwise
  let KbA := do let k ← bb.tensordotF ab (P xb xa) .blockwise
                k.tensordotF a (P ((List.range fA.length).map (fB.length + ·)) fA) .blockwise
  [ (match a.tensordotF b (P xa xb) .blockwise with | .ok k => [normSq k] | .error _ => [-1]),
    val (do let t ← BX; t.tensordotF b (P (kbU a b xa xb) (fB ++ xb)) .blockwise),
    val (do let t ← XB
            t.tensordotF b (P (RoutesP.positions (kbRot a b xa xb) (kbU a b xa xb)) (fB ++ xb))
              .blockwise),
    val (do let x ← X; let y ← Y; x.tensordotF y (P [0, 1] [0, 1]) .blockwise),
    labs KbA, labs BX ]

/-- all routes give `Σ|K|²` for both label orders; with `label a = 7 > label b = 3` the intermediates
    `(b̄·ā)·a` and `b̄·(ā·a)` carry different label lists -/
theorem ketbra_vals_order :
    ketbraVals C03.gA C03.gB [2] [0]
      = [[16422], [16422, 0], [16422, 0], [16422, 0], [3, 1], [3, 1]]
    ∧ ketbraVals gA7 C03.gB [2] [0]
      = [[16422], [16422, 0], [16422, 0], [16422, 0], [7, 1, 3, 1, 7, 0], [3, 1]] := by
  decide +kernel

end SymmModel.C10
