/-
  Property C10, norm clause — "contracting a fermionic array with its conjugate over all indices
  gives its squared norm whenever every index is ket-like or the dual-leg sign option is used,
  for even and odd parity, in either operand order".

  About the model definitions `Arr.conjF`, `Arr.tensordotF` (Model/Fermi.lean: transpositions,
  virtual reversal, ket-then-bra flips, synchronisation, abelian contraction,
  `resolveCombinedOddpos`), `tensordotA`/`tensordotBlockwise` (Model/Tdot.lean), for EVERY valid
  fermionic array `x` (`x.validB`, any rank `n`, any symmetry, any pending-sign table), contracted
  in blockwise mode over all `n` axes paired in order.

  Scalars: any `R` with `[AddMonoid R] [Mul R] [Neg R] [Conj R]` and the laws `Norm.NormLaws`
  (`- - x = x`, `-0 = 0`, `(-x)*y = -(x*y) = x*(-y)`, `-(x+y) = -x + -y`, `conj (-x) = - conj x`,
  `conj (conj x) = x`, `conj 0 = 0`); no commutativity or distributivity is used.  Instances:
  `Int` (trivial conjugation), `GRat` (`Norm.normLaws_GRat`, additive structure of `Props/C02`).

  Labels.  `validB` forces `|oddpos|` odd ⇔ odd parity.  The theorem holds for no label (even
  parity) and for ONE NON-DUAL label `(l, false)` (odd parity) — the label a freshly created odd
  array carries.  For one DUAL label `(l, true)` (e.g. `x = y.conj()`) the result is MINUS the
  squared norm in both operand orders (`norm_conj_dual_label`; known finding
  `norm-odd-dual-label`, consistent with `C10.conjF_conjF_general`: `conj ∘ conj = -1` on odd
  arrays for `phase_dual = True`).

  Proof structure (Proofs/NormLemmas.lean): (i) both transpositions are by the identity
  (`transposeF_id_obsEq`, `koszul_id`) and, by the canonical-form theorem of C09, can be removed
  under the synchronisation; (ii) `tensordotF_full`: what remains is the abelian contraction of
  `prepL a` (ket-like legs flipped, synchronised) with `prepR b` (virtually reversed,
  synchronised), then the label resolution — sizes are equal, so the flips are on the left
  operand in both orders; (iii) `norm_sector_sign_left/right`: the sign on a sector pair `(s,s)`;
  (iv) `norm_abelian_left/right`: `C02.tensordot_scalar` on the diagonal pairing; (v) the label
  pair via `C04.resolveScan_pair`.
-/
import SymmModel.Proofs.NormLemmas
import SymmModel.Props.C09

namespace SymmModel.C10
open SymmModel Lazy Norm

section signs
variable {S : Type} [Zero S] [Neg S] [Conj S]

/-- (iii) **norm_sector_sign**, order `(conj x, x)`: flips × conj's signs × virtual reversal is
    conj's global sign alone -/
theorem norm_sector_sign_left {x : Arr S} (pd : Bool)
    (hd : pd = true ∨ ∀ ix ∈ x.indices, ix.dual = false) {s : Sector} (hl : s.length = x.ndim) :
    flipSign (x.conjF true pd).sym (flipAxes (x.conjF true pd)) s
      * (conjTotSign x true pd s * koszul (x.parities s) (some (List.range x.ndim).reverse))
      = if conjGlob x true then -1 else 1 :=
  Norm.norm_sector_sign_left pd hd hl

/-- (iii) order `(x, conj x)`: the parity sign times conj's global sign -/
theorem norm_sector_sign_right {x : Arr S} (pd : Bool)
    (hd : pd = true ∨ ∀ ix ∈ x.indices, ix.dual = false) {s : Sector} (hl : s.length = x.ndim)
    (hv : x.isValidSector s = true) :
    flipSign x.sym (flipAxes x) s
      * (koszul ((x.conjF true pd).parities s) (some (List.range (x.conjF true pd).ndim).reverse)
          * conjTotSign x true pd s)
      = (if x.parity then -1 else 1) * (if conjGlob x true then -1 else 1) :=
  Norm.norm_sector_sign_right pd hd hl hv

end signs

variable {R : Type} [AddMonoid R] [Mul R] [Neg R] [Conj R]

/-- `Σ_{stored sectors s} Σ_{offsets o in the block of s} conj(v) · v` with `v = x.elem s o` (the
    value view: stored number times pending sign) -/
theorem normSq_eq (x : Arr R) :
    normSq x = (x.sectors.map (fun s =>
      ((allIdx (Arr.blockShapeD x.indices s)).map
        (fun o => Conj.conj (x.elem s o) * x.elem s o)).sum)).sum := rfl

theorem normSq'_def (x : Arr R) :
    normSq' x = (x.sectors.map (fun s =>
      ((allIdx (Arr.blockShapeD x.indices s)).map
        (fun o => x.elem s o * Conj.conj (x.elem s o))).sum)).sum := rfl

/-- all axes paired in order: `tensordot(·, ·, axes=([0,…,n-1], [0,…,n-1]))` -/
theorem allAxes_eq (n : Nat) :
    allAxes n = .pair ((List.range n).map Int.ofNat) ((List.range n).map Int.ofNat) := rfl

/-! ## the pieces -/

/-- (ii) a full contraction of two valid rank-`n` operands of equal size is the abelian blockwise
    contraction of the prepared operands followed by the label resolution -/
theorem tensordotF_full [NormLaws R] {a b : Arr R} (fa : Full a) (sa : ShapeLen a) (fb : Full b)
    (sb : ShapeLen b) (hn : b.ndim = a.ndim) (hsz : a.size ≤ b.size) :
    a.tensordotF b (allAxes a.ndim) .blockwise
      = resolveCombinedOddpos (prepL a) (prepR b)
          (tensordotBlockwise (prepL a) (prepR b) [] (List.range a.ndim) (List.range a.ndim) []) :=
  Norm.tensordotF_full fa sa fb sb hn hsz

/-- (iv) the abelian part, both orders -/
theorem norm_abelian [NormLaws R] {x : Arr R} (h : NormOk x) (pd : Bool)
    (hd : pd = true ∨ ∀ ix ∈ x.indices, ix.dual = false) :
    (tensordotBlockwise (prepL (x.conjF true pd)) (prepR x) [] (List.range x.ndim)
        (List.range x.ndim) []).elem [] []
      = sgnI (if conjGlob x true then -1 else 1) (normSq x)
    ∧ (tensordotBlockwise (prepL x) (prepR (x.conjF true pd)) [] (List.range x.ndim)
        (List.range x.ndim) []).elem [] []
      = sgnI ((if x.parity then -1 else 1) * (if conjGlob x true then -1 else 1)) (normSq' x) :=
  ⟨norm_abelian_left pd h.full h.shapes hd, norm_abelian_right pd h.full h.secValid h.shapes hd⟩

/-! ## the norm -/

/-- **norm_conj.**  `x` valid fermionic; `phase_dual = True` or all indices ket-like; no label
    (even parity) or one non-dual label (odd parity).  Then `tensordot(x.conj(phase_dual=pd), x)`
    over all axes succeeds with a rank-0 result without labels whose value is the squared norm. -/
theorem norm_conj [NormLaws R] {x : Arr R} (hv : x.validB = true) (hf : x.fermi = true) (pd : Bool)
    (hd : pd = true ∨ ∀ ix ∈ x.indices, ix.dual = false)
    (hlab : x.oddpos = [] ∨ ∃ l, x.oddpos = [(l, false)]) :
    ∃ r, (x.conjF true pd).tensordotF x
          (.pair ((List.range x.ndim).map Int.ofNat) ((List.range x.ndim).map Int.ofNat)) .blockwise
        = .ok r
      ∧ r.ndim = 0 ∧ r.oddpos = [] ∧ r.elem [] [] = normSq x := by
  obtain ⟨h1, h2⟩ := norm_left (NormOk.of_valid hv hf) pd hd
  rcases hlab with ho | ⟨l, ho⟩
  · exact h1 ho
  · have := h2 l false ho
    simp only [Bool.false_eq_true, if_false] at this
    exact this

/-- **the other operand order**: `tensordot(x, x.conj(phase_dual=pd))` — the factors of each
    product appear in the other order (`normSq'`) -/
theorem norm_conj_swapped [NormLaws R] {x : Arr R} (hv : x.validB = true) (hf : x.fermi = true)
    (pd : Bool) (hd : pd = true ∨ ∀ ix ∈ x.indices, ix.dual = false)
    (hlab : x.oddpos = [] ∨ ∃ l, x.oddpos = [(l, false)]) :
    ∃ r, x.tensordotF (x.conjF true pd)
          (.pair ((List.range x.ndim).map Int.ofNat) ((List.range x.ndim).map Int.ofNat)) .blockwise
        = .ok r
      ∧ r.ndim = 0 ∧ r.oddpos = [] ∧ r.elem [] [] = normSq' x := by
  obtain ⟨h1, h2⟩ := norm_right (NormOk.of_valid hv hf) pd hd
  rcases hlab with ho | ⟨l, ho⟩
  · exact h1 ho
  · have := h2 l false ho
    simp only [Bool.false_eq_true, if_false] at this
    exact this

/-- for a commutative product the two orders give the same number -/
theorem norm_conj_orders_agree [NormLaws R] (hc : ∀ a b : R, a * b = b * a) {x : Arr R}
    (hv : x.validB = true) (hf : x.fermi = true) (pd : Bool)
    (hd : pd = true ∨ ∀ ix ∈ x.indices, ix.dual = false)
    (hlab : x.oddpos = [] ∨ ∃ l, x.oddpos = [(l, false)]) :
    ∃ r r', (x.conjF true pd).tensordotF x (allAxes x.ndim) .blockwise = .ok r
      ∧ x.tensordotF (x.conjF true pd) (allAxes x.ndim) .blockwise = .ok r'
      ∧ r.elem [] [] = normSq x ∧ r'.elem [] [] = normSq x := by
  obtain ⟨r, h1, _, _, h4⟩ := norm_conj hv hf pd hd hlab
  obtain ⟨r', g1, _, _, g4⟩ := norm_conj_swapped hv hf pd hd hlab
  exact ⟨r, r', h1, g1, h4, by rw [g4, normSq'_eq hc]⟩

/-- **norm_conj_dual_label.**  With one DUAL label (odd parity) both operand orders give MINUS
    the squared norm. -/
theorem norm_conj_dual_label [NormLaws R] {x : Arr R} (hv : x.validB = true) (hf : x.fermi = true)
    (pd : Bool) (hd : pd = true ∨ ∀ ix ∈ x.indices, ix.dual = false) (l : Int)
    (ho : x.oddpos = [(l, true)]) :
    (∃ r, (x.conjF true pd).tensordotF x (allAxes x.ndim) .blockwise = .ok r
      ∧ r.ndim = 0 ∧ r.oddpos = [] ∧ r.elem [] [] = - normSq x)
    ∧ (∃ r, x.tensordotF (x.conjF true pd) (allAxes x.ndim) .blockwise = .ok r
      ∧ r.ndim = 0 ∧ r.oddpos = [] ∧ r.elem [] [] = - normSq' x) := by
  have h := NormOk.of_valid hv hf
  exact ⟨by simpa using (norm_left h pd hd).2 l true ho,
         by simpa using (norm_right h pd hd).2 l true ho⟩

/-! ## non-vacuity and exactness -/

open scoped SymmModel.Lazy

/-- `C09.exA`: Z2, rank 2, one ket-like and one bra-like leg, odd parity, label `(7, false)`,
    a pending sign; squared norm `3² + 1² + 2² + 4² + 5² = 55` -/
example : C09.exA.validB = true ∧ C09.exA.fermi = true ∧ C09.exA.oddpos = [(7, false)]
    ∧ normSq C09.exA = 55 ∧ normSq' C09.exA = 55 := by decide +kernel

example : ∃ r, (C09.exA.conjF true true).tensordotF C09.exA (.pair [0, 1] [0, 1]) .blockwise = .ok r
    ∧ r.ndim = 0 ∧ r.oddpos = [] ∧ r.elem [] [] = normSq C09.exA :=
  norm_conj (x := C09.exA) (by decide) rfl true (Or.inl rfl) (Or.inr ⟨7, rfl⟩)

/-- the same on the concrete value, both orders -/
example :
    (match (C09.exA.conjF true true).tensordotF C09.exA (.pair [0, 1] [0, 1]) .blockwise with
      | .ok r => r.elem [] [] | .error _ => 0) = 55
    ∧ (match C09.exA.tensordotF (C09.exA.conjF true true) (.pair [0, 1] [0, 1]) .blockwise with
      | .ok r => r.elem [] [] | .error _ => 0) = 55 := by decide +kernel

/-- all legs ket-like, `phase_dual = False` -/
def exK : Arr Int :=
  { C09.exA with indices := [Index.mk [((0, 0), 1), ((1, 0), 2)] false none,
                             Index.mk [((0, 0), 2), ((1, 0), 1)] false none] }

example : ∃ r, (exK.conjF true false).tensordotF exK (.pair [0, 1] [0, 1]) .blockwise = .ok r
    ∧ r.ndim = 0 ∧ r.oddpos = [] ∧ r.elem [] [] = normSq exK :=
  norm_conj (x := exK) (by decide) rfl false (Or.inr (by decide)) (Or.inr ⟨7, rfl⟩)

/-- even parity, no label, rank 3, mixed dualness -/
def exE : Arr Int :=
  { sym := .Z2, fermi := true, charge := (0, 0),
    indices := [Index.mk [((0, 0), 1), ((1, 0), 1)] false none,
                Index.mk [((0, 0), 1), ((1, 0), 2)] true none,
                Index.mk [((0, 0), 1), ((1, 0), 1)] true none],
    blocks := [([(1, 0), (1, 0), (0, 0)], ⟨[1, 2, 1], #[2, -3]⟩),
               ([(1, 0), (0, 0), (1, 0)], ⟨[1, 1, 1], #[5]⟩),
               ([(0, 0), (1, 0), (1, 0)], ⟨[1, 2, 1], #[1, 1]⟩)],
    phases := [([(1, 0), (1, 0), (0, 0)], -1)], oddpos := [] }

example : ∃ r, (exE.conjF true true).tensordotF exE (.pair [0, 1, 2] [0, 1, 2]) .blockwise = .ok r
    ∧ r.ndim = 0 ∧ r.oddpos = [] ∧ r.elem [] [] = normSq exE :=
  norm_conj (x := exE) (by decide) rfl true (Or.inl rfl) (Or.inl rfl)

example : normSq exE = 40 := by decide +kernel

/-- **the hypothesis "`phase_dual` or all ket-like" is needed**: `exA` has a bra-like leg; with
    `phase_dual = False` the contraction gives `37`, not the squared norm `55` -/
theorem norm_conj_needs_dual_option :
    (match (C09.exA.conjF true false).tensordotF C09.exA (.pair [0, 1] [0, 1]) .blockwise with
      | .ok r => r.elem [] [] | .error _ => 0) = 37
    ∧ (match C09.exA.tensordotF (C09.exA.conjF true false) (.pair [0, 1] [0, 1]) .blockwise with
      | .ok r => r.elem [] [] | .error _ => 0) = 37
    ∧ normSq C09.exA = 55 := by decide +kernel

/-- **the non-dual label is needed**: the same array with the dual label `(7, true)` gives `-55`
    in both orders (instance of `norm_conj_dual_label`) -/
theorem norm_conj_needs_ket_label :
    let y : Arr Int := { C09.exA with oddpos := [(7, true)] }
    y.validB = true
    ∧ (match (y.conjF true true).tensordotF y (.pair [0, 1] [0, 1]) .blockwise with
      | .ok r => r.elem [] [] | .error _ => 0) = -55
    ∧ (match y.tensordotF (y.conjF true true) (.pair [0, 1] [0, 1]) .blockwise with
      | .ok r => r.elem [] [] | .error _ => 0) = -55 := by decide +kernel

/-- the law class is inhabited by the driver's scalar type -/
example : @NormLaws GRat C02.addCommMonoidGRat.toAddMonoid GRat.instMul GRat.instNeg GRat.instConj :=
  normLaws_GRat

end SymmModel.C10
