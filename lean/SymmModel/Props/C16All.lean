/-
  Property C16 — umbrella module: both parts of the property theorems.
-/
import SymmModel.Props.C16
import SymmModel.Props.C16b
import SymmModel.Props.C16c
