/-
  Property C08 — umbrella module: all seven parts of the property theorems
  (part g: sparsity management — fill_missing_blocks, drop_missing_blocks, allclose, set_params).
-/
import SymmModel.Props.C08All5
import SymmModel.Props.C08g
