/-
  Property C06 — umbrella module: all parts of the property theorems incl. C06f (fusing the contracted
  legs first, fuse element maps for groups anywhere, concat transfers).
-/
import SymmModel.Props.C06All4
import SymmModel.Props.C06f
