/-
  SymmModel.Props.C14All — umbrella for property C14: the frame / ownership theorems for the `Op`
  table (`C14`), and the two-operand in-place forms, the second operation table `Op2` and programs
  mixing both tables (`C14b`).
-/
import SymmModel.Props.C14
import SymmModel.Props.C14b
