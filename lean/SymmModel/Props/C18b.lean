/-
  Property C18, action clause — "Applying the resulting array to a state tensor by contraction
  acts as the operator does on Fock space up to one fixed sign convention shared by all operators
  on the same bases … applying two operator arrays in succession equals applying the array of the
  product operator".

  Definitions (new, on top of the model; nothing in Model/ is changed):
    `SymmModel.buildArray terms bases sym indexMaps`  (Proofs/FermiAction1.lean)
        = `build_local_fermionic_array`: `fromDense sym true (buildDense terms bases)
          (indexMaps ++ indexMaps) ([false]*n ++ [true]*n) none` — Model `buildDense`, `fromDense`.
    vocabulary (namespace `FermiActP`): `opArray` (the record the builder returns), `SectorOf`,
    `fdOrig` (original basis multi-index of an address), `opEntry` (specified element masked by
    charge conservation), `rankIn m j` (offset of basis state `j` inside its charge block),
    `ChargeMaps` (index maps = charges of the basis states), `actMatrix = D·H·D`,
    `CompleteKets`, `mulTerms` (term list of the operator product).
  About: `Arr.tensordotF` (Model/Fermi.lean) through `C03.tensordotF_refines_graded`,
  `fromDense` through C16, `buildElements` through `C18.elements_eq_vev`.

  COMPLETE (no `_partial` theorem), every clause for ANY number of sites, every symmetry, states
  of any rank / charge / sparsity / pending signs / labels, any ring of scalars (`GRat` included):
    1. `buildArray_spec`, `buildArray_elem`, `buildArray_valid`, `buildArray_nothing_discarded`
    2. `action_eq` (= D·H·D), `action_entries` (no charge-map hypotheses), `action_eq_one`
    3. `product_law` (arrays), `fock_product`, `resolution_of_identity`, `product_law_one'`
    4. `hermitian_action`, `dense_eq_DH`
  Contraction mode: blockwise (C05/C06 reduce `fused` to it, as for C03).  Not covered: the
  numerical spectrum clause (a Hermitian matrix similar by the diagonal ±1 matrix `D` has the
  spectrum of `H`; stated in DESIGN as cited, not formalised).
-/
import SymmModel.Proofs.FermiAction7
import SymmModel.Props.C18
import Mathlib.Algebra.Ring.MinimalAxioms

namespace SymmModel.C18
open SymmModel SymmModel.FermiOpsP SymmModel.FermiActP
open SymmModel.Lazy (sgnI)

/-! ## 1. the operator array -/

section array
variable {α : Type} [AddCommGroup α] [DecidableEq α]

/-- `build_local_fermionic_array` returns `opArray` (fermionic, charge 0, no label, no pending
    sign, index tables and blocks of `from_dense` on the dense operator, kets then bras) when
    there is one index map per site labelling every basis state; without sites it raises. -/
theorem buildArray_spec (terms : List (α × Word)) (bases : List (List Word)) (sym : Sym)
    (maps : List (List Charge)) :
    (bases = [] → buildArray terms bases sym maps = .error Err.value)
    ∧ (bases ≠ [] → maps.map List.length = bases.map List.length →
        buildArray terms bases sym maps = .ok (opArray terms bases sym maps)) := by
  refine ⟨?_, fun hne hm => buildArray_eq terms bases sym maps hne hm⟩
  rintro rfl; rfl

/-- **buildArray_elem**: the value view of the built array.  At a sector made of occurring
    charges and an offset inside its block it is `specAt terms bases idx` for the basis
    multi-index `idx = fdOrig …` the address denotes (the `k`-th position carrying the charge,
    per axis) when the sector conserves the charge, else `0`; at any other key it is `0`. -/
theorem buildArray_elem (terms : List (α × Word)) (bases : List (List Word)) (sym : Sym)
    (maps : List (List Charge)) (hne : bases ≠ [])
    (hmaps : maps.map List.length = bases.map List.length) (G : Arr α)
    (hG : buildArray terms bases sym maps = .ok G) (s : Sector) (off : List Nat) :
    (SectorOf (maps ++ maps) s → inBox ((fdPos (maps ++ maps) s).map List.length) off = true →
      G.elem s off
        = (if Arr.sectorCharge sym (opDuals bases.length) s == sym.zero
           then specAt terms bases (fdOrig (maps ++ maps) s off) else 0)
      ∧ inBox (bases.map List.length ++ bases.map List.length) (fdOrig (maps ++ maps) s off) = true
      ∧ labelsAt (maps ++ maps) (fdOrig (maps ++ maps) s off) = s)
    ∧ (¬ SectorOf (maps ++ maps) s → G.elem s off = 0) := by
  rw [buildArray_eq terms bases sym maps hne hmaps] at hG
  injection hG with hG; subst hG
  refine ⟨fun hs ho => ⟨(opArray_elem terms bases sym maps hmaps s off).1 hs ho, ?_, ?_⟩,
    (opArray_elem terms bases sym maps hmaps s off).2⟩
  · have := (fdOrig_spec (maps ++ maps) s off hs ho).1
    simpa [hmaps] using this
  · exact (fdOrig_spec (maps ++ maps) s off hs ho).2

/-- the built array satisfies the validity predicate of C01 (labels valid charges) -/
theorem buildArray_valid (terms : List (α × Word)) (bases : List (List Word)) (sym : Sym)
    (maps : List (List Charge)) (hne : bases ≠ [])
    (hmaps : maps.map List.length = bases.map List.length)
    (hv : ∀ m ∈ maps, ∀ c ∈ m, sym.valid c = true) (G : Arr α)
    (hG : buildArray terms bases sym maps = .ok G) :
    G.validB = true ∧ G.fermi = true ∧ G.charge = sym.zero ∧ G.oddpos = [] ∧ G.phases = []
    ∧ G.duals = opDuals bases.length := by
  rw [buildArray_eq terms bases sym maps hne hmaps] at hG
  injection hG with hG; subst hG
  have hlen : maps.length = bases.length := by
    have := congrArg List.length hmaps; simpa using this
  exact ⟨opArray_valid terms bases sym maps hmaps hv, rfl, rfl, rfl, rfl,
    fdIndices_duals _ _ (by simp [opDuals, hlen])⟩

end array

section nd
variable {α : Type} [Ring α] [DecidableEq α]

/-- **nothing discarded**: if the index maps are the charge maps of a charge assignment
    `(q₁, q₂)` of the modes (`ChargeMaps`) for which every term is neutral, the conservation mask
    is vacuous: `opEntry = specAt` at every multi-index (any number of sites, every symmetry). -/
theorem buildArray_nothing_discarded (terms : List (α × Word)) (bases : List (List Word))
    (sym : Sym) (maps : List (List Charge)) (q1 q2 : Int → Int)
    (hcm : ChargeMaps sym q1 q2 bases maps)
    (hn1 : ∀ ct ∈ terms, wordCharge q1 ct.2 = 0) (hn2 : ∀ ct ∈ terms, wordCharge q2 ct.2 = 0)
    (idx : List Nat) :
    opEntry terms bases sym maps idx = specAt terms bases idx :=
  opEntry_eq_specAt terms bases sym maps q1 q2 hcm hn1 hn2 idx

end nd

/-! ## the fixed sign convention: dense form `D·H`, action matrix `D·H·D` -/

section conv
variable {α : Type} [AddCommGroup α]

/-- dense form = `D·H`: the specified element is `τ(i)` times the proper Fock matrix element
    `⟨i|O|j⟩` (`|j⟩ = ket j|0⟩`, `⟨i| = |i⟩†`), `τ = siteSign`, on site-disjoint bases -/
theorem dense_eq_DH (terms : List (α × Word)) (bases : List (List Word)) (hd : SitesDisjoint bases)
    (is js : List Nat) (hi : is.length = bases.length)
    (hbox : inBox (bases.map List.length ++ bases.map List.length) (is ++ js) = true) :
    specAt terms bases (is ++ js)
      = scaleInt (siteSign bases is) (fockMatrixAt terms bases is js) :=
  specAt_eq_DH terms bases hd is js hi hbox

/-- **hermitian_action**: for a term set closed under dagger with conjugated coefficients the Fock
    matrix `H` and the action matrix `actMatrix = D·H·D` are Hermitian (any number of sites) -/
theorem hermitian_action (cj : α → α) (hcj : ∀ a b, cj (a + b) = cj a + cj b)
    (terms : List (α × Word)) (bases : List (List Word))
    (hclosed : (terms.map (fun ct => (cj ct.1, dagWord ct.2))).Perm terms) (is js : List Nat) :
    fockMatrixAt terms bases is js = cj (fockMatrixAt terms bases js is)
    ∧ actMatrix terms bases is js = cj (actMatrix terms bases js is)
    ∧ actMatrix terms bases is js
        = scaleInt (siteSign bases is * siteSign bases js) (fockMatrixAt terms bases is js) :=
  ⟨fockMatrixAt_hermitian cj hcj terms bases hclosed is js,
   actMatrix_hermitian cj hcj terms bases hclosed is js, rfl⟩

/-- `D·H·D` is similar to `H` by the diagonal sign matrix `D` (`D² = 1`):
    `H[i,j] = τ(i)τ(j) · (D·H·D)[i,j]`; hence (cited, not formalised) the same spectrum -/
theorem action_matrix_similar (terms : List (α × Word)) (bases : List (List Word))
    (is js : List Nat) :
    fockMatrixAt terms bases is js
      = scaleInt (siteSign bases is * siteSign bases js) (actMatrix terms bases is js) := by
  unfold actMatrix
  rw [scaleInt_scaleInt _ (mul_pm (siteSign_cases bases is) (siteSign_cases bases js))]

end conv

/-! ## 2. action of a one-site operator array -/

section action
variable {R : Type} [Ring R] [DecidableEq R]

/-- **action_eq (one site)**.  `G = build_local_fermionic_array(terms, [b], sym, [m])`, `ψ` a valid
    fermionic state tensor whose first leg matches `G`'s bra leg, `c = tensordot(G, ψ, ([1],[0]))`
    (blockwise).  Then `c` carries the labels of `ψ` (label sign `ph`, `= 1` for at most one
    label), and at the address of basis state `i` (charge `m[i]`, offset `rankIn m i`) and any
    address `(Rr, oR)` of the other legs
        `c⟨i, Rr, oR⟩ = ph · Σ_{j < |b|} G⟨i,j⟩ · ψ⟨j, Rr, oR⟩`,
    `G⟨i,j⟩ = opEntry` (the specified element, masked by charge conservation).  No further sign:
    for one site `D = 1`. -/
theorem action_eq_one (terms : List (R × Word)) (b : List Word) (sym : Sym) (m : List Charge)
    (hm : m.length = b.length) (hv : ∀ c ∈ m, sym.valid c = true)
    (G ψ c : Arr R) (hG : buildArray terms [b] sym [m] = .ok G)
    (hψ : ψ.validB = true) (hfψ : ψ.fermi = true)
    (hadm : ValidP.tdotAdmissibleB G ψ [1] [0] = true)
    (h : G.tensordotF ψ (.pair ([1].map Int.ofNat) ([0].map Int.ofNat)) .blockwise = .ok c) :
    ∃ out ph, OddposP.mergeOddpos false [] ψ.oddpos = .ok (out, ph) ∧ c.oddpos = out
      ∧ c.charge = sym.combine [sym.zero, ψ.charge]
      ∧ (ψ.oddpos.length ≤ 1 → ph = 1)
      ∧ ∀ (i : Nat) (Rr : Sector) (oR shpR : List Nat), i < b.length →
          Arr.blockShape? (ψ.indices.drop 1) Rr = some shpR → inBox shpR oR = true →
          c.elem (m.getD i (0, 0) :: Rr) (rankIn m i :: oR) = sgnI ph
            (((List.range b.length).map (fun j =>
                opEntry terms [b] sym [m] [i, j]
                  * ψ.elem (m.getD j (0, 0) :: Rr) (rankIn m j :: oR))).sum) := by
  rw [buildArray_eq terms [b] sym [m] (by simp) (by simp [hm])] at hG
  injection hG with hG; subst hG
  obtain ⟨out, ph, h1, h2, h3, h4⟩ := action_one terms b sym m hm hv ψ c hψ hfψ hadm h
  refine ⟨out, ph, h1, h2, h3, ?_, h4⟩
  intro hl
  match hψo : ψ.oddpos, hl with
  | [], _ =>
    rw [hψo] at h1
    have : OddposP.mergeOddpos false [] [] = .ok ([], 1) := rfl
    rw [this] at h1
    simp only [Except.ok.injEq, Prod.mk.injEq] at h1
    exact h1.2.symm
  | [x], _ =>
    rw [hψo] at h1
    have : OddposP.mergeOddpos false [] [x] = .ok ([x], 1) := rfl
    rw [this] at h1
    simp only [Except.ok.injEq, Prod.mk.injEq] at h1
    exact h1.2.symm

/-- with charge maps and neutral terms the entries are the Fock matrix `⟨i|O|j⟩ = (D·H·D)[i,j]` -/
theorem action_entry_one (terms : List (R × Word)) (b : List Word) (sym : Sym) (m : List Charge)
    (q1 q2 : Int → Int) (hcm : ChargeMaps sym q1 q2 [b] [m])
    (hn1 : ∀ ct ∈ terms, wordCharge q1 ct.2 = 0) (hn2 : ∀ ct ∈ terms, wordCharge q2 ct.2 = 0)
    (i j : Nat) (hi : i < b.length) (hj : j < b.length) :
    opEntry terms [b] sym [m] [i, j] = fockMatrixAt terms [b] [i] [j]
    ∧ actMatrix terms [b] [i] [j] = fockMatrixAt terms [b] [i] [j] :=
  ⟨opEntry_one_eq_fock terms b sym m q1 q2 hcm hn1 hn2 i j hi hj, actMatrix_one terms b i j⟩


/-! ## 2'. action of a built array with any number of sites -/

/-- **action_entries** (no hypothesis on the index maps beyond validity): the contraction of the
    bra legs `n … 2n-1` of the built array with the first `n` legs of `ψ` is, at the address of
    the basis multi-index `is` (`labelsAt`/`ranksOf`) and any address of the other legs,
    `ph · Σ_{js ∈ all basis multi-indices} ρ(js) · G⟨is,js⟩ · ψ⟨js, …⟩`, `ρ = revSign` of the
    charges labelling `js` (the nesting sign of `gradedSign`), `G⟨is,js⟩ = opEntry`. -/
theorem action_entries (terms : List (R × Word)) (bases : List (List Word)) (sym : Sym)
    (maps : List (List Charge)) (hmaps : maps.map List.length = bases.map List.length)
    (hv : ∀ m ∈ maps, ∀ c ∈ m, sym.valid c = true)
    (G ψ c : Arr R) (hG : buildArray terms bases sym maps = .ok G)
    (hψ : ψ.validB = true) (hfψ : ψ.fermi = true)
    (hadm : ValidP.tdotAdmissibleB G ψ
      ((List.range (2 * bases.length)).drop bases.length) (List.range bases.length) = true)
    (h : G.tensordotF ψ
        (.pair (((List.range (2 * bases.length)).drop bases.length).map Int.ofNat)
          ((List.range bases.length).map Int.ofNat)) .blockwise = .ok c) :
    ∃ out ph, OddposP.mergeOddpos false [] ψ.oddpos = .ok (out, ph) ∧ c.oddpos = out
      ∧ c.charge = sym.combine [sym.zero, ψ.charge]
      ∧ ∀ (is : List Nat) (Rr : Sector) (oR shpR : List Nat),
          inBox (bases.map List.length) is = true →
          Arr.blockShape? (ψ.indices.drop bases.length) Rr = some shpR → inBox shpR oR = true →
          c.elem (labelsAt maps is ++ Rr) (ranksOf maps is ++ oR) = sgnI ph
            (((allIdx (bases.map List.length)).map (fun js =>
                sgnI (revSign sym (labelsAt maps js))
                  (opEntry terms bases sym maps (is ++ js)
                    * ψ.elem (labelsAt maps js ++ Rr) (ranksOf maps js ++ oR)))).sum) := by
  have hne : bases ≠ [] := by
    rintro rfl
    have : buildArray terms [] sym maps = .error Err.value := rfl
    rw [this] at hG; cases hG
  rw [buildArray_eq terms bases sym maps hne hmaps] at hG
  injection hG with hG; subst hG
  exact FermiActP.action_entries terms bases sym maps hmaps hv ψ c hψ hfψ hadm h

/-- **action_eq** (any number of sites): the built array acts on state tensors as `D·H·D`,
    `H[is,js] = ⟨is|O|js⟩` the proper Fock matrix of the second-quantised operator
    (`fockMatrixAt`), `D = diag τ`, `τ(i) = siteSign = (-1)^{Σ_{s<t}|i_s||i_t|}` — one fixed sign
    convention shared by all operators on the same bases.  Hypotheses: index maps = charge maps
    of a charge assignment with neutral terms (`ChargeMaps`; then nothing is discarded), labels of
    the right fermion parity (`ParityFaithful`), sites acting on different modes. -/
theorem action_eq (terms : List (R × Word)) (bases : List (List Word)) (sym : Sym)
    (maps : List (List Charge)) (hmaps : maps.map List.length = bases.map List.length)
    (hv : ∀ m ∈ maps, ∀ c ∈ m, sym.valid c = true) (hd : SitesDisjoint bases)
    (q1 q2 : Int → Int) (hcm : ChargeMaps sym q1 q2 bases maps)
    (hn1 : ∀ ct ∈ terms, wordCharge q1 ct.2 = 0) (hn2 : ∀ ct ∈ terms, wordCharge q2 ct.2 = 0)
    (hpf : ParityFaithful sym bases maps)
    (G ψ c : Arr R) (hG : buildArray terms bases sym maps = .ok G)
    (hψ : ψ.validB = true) (hfψ : ψ.fermi = true)
    (hadm : ValidP.tdotAdmissibleB G ψ
      ((List.range (2 * bases.length)).drop bases.length) (List.range bases.length) = true)
    (h : G.tensordotF ψ
        (.pair (((List.range (2 * bases.length)).drop bases.length).map Int.ofNat)
          ((List.range bases.length).map Int.ofNat)) .blockwise = .ok c) :
    ∃ out ph, OddposP.mergeOddpos false [] ψ.oddpos = .ok (out, ph) ∧ c.oddpos = out
      ∧ c.charge = sym.combine [sym.zero, ψ.charge]
      ∧ ∀ (is : List Nat) (Rr : Sector) (oR shpR : List Nat),
          inBox (bases.map List.length) is = true →
          Arr.blockShape? (ψ.indices.drop bases.length) Rr = some shpR → inBox shpR oR = true →
          c.elem (labelsAt maps is ++ Rr) (ranksOf maps is ++ oR) = sgnI ph
            (((allIdx (bases.map List.length)).map (fun js =>
                actMatrix terms bases is js
                  * ψ.elem (labelsAt maps js ++ Rr) (ranksOf maps js ++ oR))).sum) := by
  have hne : bases ≠ [] := by
    rintro rfl
    have : buildArray terms [] sym maps = .error Err.value := rfl
    rw [this] at hG; cases hG
  rw [buildArray_eq terms bases sym maps hne hmaps] at hG
  injection hG with hG; subst hG
  exact action_DHD terms bases sym maps hmaps hv hd q1 q2 hcm hn1 hn2 hpf ψ c hψ hfψ hadm h

/-- the address used above determines the basis multi-index and conversely -/
theorem address_bijection (maps : List (List Charge)) :
    (∀ js, inBox (maps.map List.length) js = true →
      SectorOf maps (labelsAt maps js)
      ∧ inBox ((fdPos maps (labelsAt maps js)).map List.length) (ranksOf maps js) = true
      ∧ fdOrig maps (labelsAt maps js) (ranksOf maps js) = js)
    ∧ (∀ J k, SectorOf maps J → inBox ((fdPos maps J).map List.length) k = true →
      inBox (maps.map List.length) (fdOrig maps J k) = true
      ∧ labelsAt maps (fdOrig maps J k) = J ∧ ranksOf maps (fdOrig maps J k) = k) :=
  ⟨fdOrig_of_index maps, fun J k hJ hk =>
    ⟨(fdOrig_spec maps J k hJ hk).1, (fdOrig_spec maps J k hJ hk).2, fdOrig_ranks maps J k hJ hk⟩⟩

/-- the reversal sign of the labels is the site sign of the bra convention -/
theorem revSign_eq_tau {sym : Sym} {bases : List (List Word)} {maps : List (List Charge)}
    (h : ParityFaithful sym bases maps) (js : List Nat)
    (hjs : inBox (maps.map List.length) js = true) :
    revSign sym (labelsAt maps js) = siteSign bases js := revSign_eq_siteSign h js hjs

/-! ## 3. product law -/

/-- **resolution of the identity** over a complete family of kets (any number of sites) -/
theorem resolution_of_identity (M : List Int) (kets : List Word) (hc : CompleteKets M kets)
    (u v : Word) (hv : ∀ o ∈ v, o.label ∈ M) :
    ∃ k0, ∃ _ : k0 < kets.length,
      (∀ k, ∀ _ : k < kets.length, k ≠ k0 → vev (dagWord kets[k] ++ v) = 0)
      ∧ vev (u ++ kets[k0]) * vev (dagWord kets[k0] ++ v) = vev (u ++ v) :=
  resolution M kets hc u v hv

/-- the Fock matrix of the product operator `O₂·O₁` (term list `mulTerms`) is the matrix product
    over a complete family of intermediate basis multi-indices (any number of sites) -/
theorem fock_product (M : List Int) (bases : List (List Word)) (ks : List (List Nat))
    (hc : CompleteKets M (ks.map (ketOf bases)))
    (t2 t1 : List (R × Word)) (ht1 : ∀ ct ∈ t1, ∀ o ∈ ct.2, o.label ∈ M)
    (is js : List Nat) (hj : ∀ o ∈ ketOf bases js, o.label ∈ M) :
    fockMatrixAt (mulTerms t2 t1) bases is js
      = (ks.map (fun k => fockMatrixAt t2 bases is k * fockMatrixAt t1 bases k js)).sum :=
  fock_mul M bases ks hc t2 t1 ht1 is js hj

/-- **product_law (one site)**: `tensordot(G₂, G₁, ([1],[0]))` of two built arrays on a complete
    basis equals, address by address, the built array of the product operator; no label, no
    sign, charge `0 + 0`. -/
theorem product_law_one' (t2 t1 : List (R × Word)) (b : List Word) (sym : Sym) (m : List Charge)
    (hm : m.length = b.length) (hv : ∀ c ∈ m, sym.valid c = true)
    (q1 q2 : Int → Int) (hcm : ChargeMaps sym q1 q2 [b] [m])
    (hn1 : ∀ ct ∈ t1, wordCharge q1 ct.2 = 0 ∧ wordCharge q2 ct.2 = 0)
    (hn2 : ∀ ct ∈ t2, wordCharge q1 ct.2 = 0 ∧ wordCharge q2 ct.2 = 0)
    (M : List Int) (hc : CompleteKets M ((List.range b.length).map (fun k => ketOf [b] [k])))
    (ht1 : ∀ ct ∈ t1, ∀ o ∈ ct.2, o.label ∈ M) (hb : ∀ w ∈ b, ∀ o ∈ w, o.label ∈ M)
    (G2 G1 G21 c : Arr R)
    (hG2 : buildArray t2 [b] sym [m] = .ok G2) (hG1 : buildArray t1 [b] sym [m] = .ok G1)
    (hG21 : buildArray (mulTerms t2 t1) [b] sym [m] = .ok G21)
    (h : G2.tensordotF G1 (.pair ([1].map Int.ofNat) ([0].map Int.ofNat)) .blockwise = .ok c) :
    c.oddpos = [] ∧ c.charge = sym.combine [sym.zero, sym.zero]
    ∧ ∀ i j, i < b.length → j < b.length →
        c.elem [m.getD i (0, 0), m.getD j (0, 0)] [rankIn m i, rankIn m j]
          = G21.elem [m.getD i (0, 0), m.getD j (0, 0)] [rankIn m i, rankIn m j] := by
  have e : ∀ t : List (R × Word), buildArray t [b] sym [m] = .ok (opArray t [b] sym [m]) :=
    fun t => buildArray_eq t [b] sym [m] (by simp) (by simp [hm])
  rw [e] at hG2 hG1 hG21
  injection hG2 with hG2; injection hG1 with hG1; injection hG21 with hG21
  subst hG2; subst hG1; subst hG21
  exact product_law_one t2 t1 b sym m hm hv q1 q2 hcm hn1 hn2 M hc ht1 hb c h


/-- **product_law** (any number of sites, complete bases): `tensordot(G₂, G₁)` over the bra legs
    of `G₂` and the ket legs of `G₁` equals, address by address, the built array of the product
    operator `O₂·O₁`; the two signs `D` of the inner legs cancel.  No label, no sign. -/
theorem product_law (t2 t1 : List (R × Word)) (bases : List (List Word)) (sym : Sym)
    (maps : List (List Charge)) (hmaps : maps.map List.length = bases.map List.length)
    (hv : ∀ m ∈ maps, ∀ c ∈ m, sym.valid c = true) (hd : SitesDisjoint bases)
    (q1 q2 : Int → Int) (hcm : ChargeMaps sym q1 q2 bases maps)
    (hn1 : ∀ ct ∈ t1, wordCharge q1 ct.2 = 0 ∧ wordCharge q2 ct.2 = 0)
    (hn2 : ∀ ct ∈ t2, wordCharge q1 ct.2 = 0 ∧ wordCharge q2 ct.2 = 0)
    (hpf : ParityFaithful sym bases maps)
    (M : List Int)
    (hc : CompleteKets M ((allIdx (bases.map List.length)).map (ketOf bases)))
    (ht1 : ∀ ct ∈ t1, ∀ o ∈ ct.2, o.label ∈ M)
    (hb : ∀ b ∈ bases, ∀ w ∈ b, ∀ o ∈ w, o.label ∈ M)
    (G2 G1 G21 c : Arr R)
    (hG2 : buildArray t2 bases sym maps = .ok G2) (hG1 : buildArray t1 bases sym maps = .ok G1)
    (hG21 : buildArray (mulTerms t2 t1) bases sym maps = .ok G21)
    (h : G2.tensordotF G1
        (.pair (((List.range (2 * bases.length)).drop bases.length).map Int.ofNat)
          ((List.range bases.length).map Int.ofNat)) .blockwise = .ok c) :
    c.oddpos = [] ∧ c.charge = sym.combine [sym.zero, sym.zero]
    ∧ ∀ is js, inBox (bases.map List.length) is = true → inBox (bases.map List.length) js = true →
        c.elem (labelsAt maps is ++ labelsAt maps js) (ranksOf maps is ++ ranksOf maps js)
          = G21.elem (labelsAt maps is ++ labelsAt maps js) (ranksOf maps is ++ ranksOf maps js) := by
  have hne : bases ≠ [] := by
    rintro rfl
    have : buildArray t1 [] sym maps = .error Err.value := rfl
    rw [this] at hG1; cases hG1
  have e : ∀ t : List (R × Word), buildArray t bases sym maps = .ok (opArray t bases sym maps) :=
    fun t => buildArray_eq t bases sym maps hne hmaps
  rw [e] at hG2 hG1 hG21
  injection hG2 with hG2; injection hG1 with hG1; injection hG21 with hG21
  subst hG2; subst hG1; subst hG21
  exact product_law_n t2 t1 bases sym maps hmaps hv hd q1 q2 hcm hn1 hn2 hpf M hc ht1 hb c h

/-- a family of kets whose Fock states enumerate, without repetition, a list containing every
    occupation of the modes `M` is complete -/
theorem completeKets_of_states (M : List Int) (kets : List Word) (Ss : List (List Int))
    (hstates : kets.map (fun K => (applyWord K []).map (·.2)) = Ss.map some)
    (hnd : Ss.Nodup) (hall : ∀ S, Sorted S → (∀ z ∈ S, z ∈ M) → S ∈ Ss) :
    CompleteKets M kets := by
  intro S hS hSM
  have hlen : kets.length = Ss.length := by
    have := congrArg List.length hstates; simpa using this
  obtain ⟨k0, hk0, e0⟩ := List.mem_iff_getElem.mp (hall S hS hSM)
  have hget : ∀ k (hk : k < kets.length), (applyWord kets[k] []).map (·.2) = some (Ss[k]'(hlen ▸ hk)) := by
    intro k hk
    have := congrArg (fun l => l[k]?) hstates
    simp only [List.getElem?_map, List.getElem?_eq_getElem hk,
      List.getElem?_eq_getElem (hlen ▸ hk), Option.map_some] at this
    exact Option.some.inj this
  refine ⟨k0, hlen ▸ hk0, ?_, ?_⟩
  · have := hget k0 (hlen ▸ hk0)
    rw [e0] at this
    cases hst : applyWord kets[k0] [] with
    | none => rw [hst] at this; cases this
    | some p =>
      rw [hst] at this
      simp only [Option.map_some, Option.some.injEq] at this
      exact ⟨p.1, by rw [← this]⟩
  · intro k hk hne σ' hst
    have := hget k hk
    rw [hst] at this
    simp only [Option.map_some, Option.some.injEq] at this
    apply hne
    exact (List.Nodup.getElem_inj_iff hnd).mp (this.symm.trans e0.symm)

end action

/-! ## the hypotheses are satisfiable: two spinless sites, hopping + on-site term, over `Int` -/

namespace Ex
def b2 : List (List Word) := [spinlessBasis opA, spinlessBasis opB]
def m2 : List (List Charge) := [[(0, 0), (1, 0)], [(0, 0), (1, 0)]]
def hop : List (Int × Word) := [(-2, [opA.dag, opB]), (-2, [opB.dag, opA]), (5, [opA.dag, opA])]
def num : List (Int × Word) := [(3, [opB.dag, opB])]
def ix2 (d : Bool) : Index := Index.mk [((0, 0), 1), ((1, 0), 1)] d none
/-- `ψ[a, b, bond]`: two physical kets and one bra bond leg, odd total charge, label 7 -/
def psi2 : Arr Int :=
  { sym := .U1, fermi := true, indices := [ix2 false, ix2 false, ix2 true], charge := (1, 0),
    blocks := [([(1, 0), (0, 0), (0, 0)], ⟨[1, 1, 1], #[3]⟩),
               ([(0, 0), (1, 0), (0, 0)], ⟨[1, 1, 1], #[4]⟩),
               ([(1, 0), (1, 0), (1, 0)], ⟨[1, 1, 1], #[7]⟩)],
    phases := [], oddpos := [(7, false)] }
def qZero : Int → Int := fun _ => 0
end Ex
open Ex

example : b2 ≠ [] ∧ m2.map List.length = b2.map List.length
    ∧ (∀ m ∈ m2, ∀ c ∈ m, Sym.U1.valid c = true) := by decide

example : SitesDisjoint b2 := by
  unfold SitesDisjoint b2
  rw [List.pairwise_cons]
  refine ⟨?_, by simp⟩
  intro b' hb' w hw w' hw' x hx y hy
  simp only [List.mem_singleton] at hb'
  subst hb'
  simp only [spinlessBasis, List.mem_cons, List.not_mem_nil, or_false] at hw hw'
  rcases hw with rfl | rfl <;> rcases hw' with rfl | rfl <;>
    simp_all [opA, opB, FOp.dag]

example : ChargeMaps .U1 qNumber qZero b2 m2 := by unfold ChargeMaps; decide
example : (∀ ct ∈ hop, wordCharge qNumber ct.2 = 0) ∧ (∀ ct ∈ hop, wordCharge qZero ct.2 = 0)
    ∧ (∀ ct ∈ num, wordCharge qNumber ct.2 = 0 ∧ wordCharge qZero ct.2 = 0) := by decide

example : ParityFaithful .U1 b2 m2 := by
  unfold ParityFaithful b2 m2 spinlessBasis
  refine List.Forall₂.cons ?_ (List.Forall₂.cons ?_ List.Forall₂.nil) <;>
    exact List.Forall₂.cons (by decide) (List.Forall₂.cons (by decide) List.Forall₂.nil)

/-- the builder succeeds; the state is valid; the contraction is admissible and succeeds -/
example : ∃ G, buildArray hop b2 .U1 m2 = .ok G := ⟨_, buildArray_eq hop b2 .U1 m2 (by decide) (by decide)⟩
set_option maxRecDepth 100000 in
example : psi2.validB = true ∧ psi2.fermi = true
    ∧ ValidP.tdotAdmissibleB (opArray hop b2 .U1 m2) psi2
        ((List.range (2 * b2.length)).drop b2.length) (List.range b2.length) = true := by
  decide +kernel
/-- … and gives `H ψ`: `(5·3 − 2·4, −2·3, 5·7)` on `|10⟩, |01⟩, |11⟩` (here `D·H·D = H` entrywise) -/
example : (match (opArray hop b2 .U1 m2).tensordotF psi2
      (.pair (((List.range (2 * b2.length)).drop b2.length).map Int.ofNat)
        ((List.range b2.length).map Int.ofNat)) .blockwise with
    | .ok c => (c.oddpos, c.charge, c.elem [(1,0),(0,0),(0,0)] [0,0,0],
        c.elem [(0,0),(1,0),(0,0)] [0,0,0], c.elem [(1,0),(1,0),(1,0)] [0,0,0])
    | .error _ => ([], (9, 9), 0, 0, 0)) = ([(7, false)], (1, 0), 7, -6, 35) := by decide +kernel
/-- the sign matrix is not trivial on these bases: `τ(|11⟩) = −1` -/
example : siteSign b2 [1, 1] = -1 ∧ siteSign b2 [1, 0] = 1
    ∧ actMatrix hop b2 [1, 1] [1, 1] = 5 ∧ fockMatrixAt hop b2 [1, 0] [0, 1] = -2 := by decide

/-- the four basis kets `|00⟩, b†|0⟩, a†|0⟩, a†b†|0⟩` are complete over the modes `{0, 1}` -/
example : CompleteKets [0, 1] ((allIdx (b2.map List.length)).map (ketOf b2)) := by
  apply completeKets_of_states [0, 1] _ [[], [1], [0], [0, 1]] (by decide) (by decide)
  intro S hS hSM
  unfold Sorted at hS
  match S, hS, hSM with
  | [], _, _ => simp
  | [x], _, h =>
    have := h x (by simp); simp only [List.mem_cons, List.not_mem_nil, or_false] at this
    rcases this with rfl | rfl <;> simp
  | [x, y], hs, h =>
    have hx := h x (by simp); have hy := h y (by simp)
    simp only [List.mem_cons, List.not_mem_nil, or_false] at hx hy
    have hlt : x < y := by simpa using (List.pairwise_cons.mp hs).1 y (by simp)
    rcases hx with rfl | rfl <;> rcases hy with rfl | rfl <;> simp_all
  | x :: y :: z :: _, hs, h =>
    exfalso
    have hx := h x (by simp); have hy := h y (by simp); have hz := h z (by simp)
    simp only [List.mem_cons, List.not_mem_nil, or_false] at hx hy hz
    have h1 : x < y := (List.pairwise_cons.mp hs).1 y (by simp)
    have h2 : y < z := (List.pairwise_cons.mp (List.pairwise_cons.mp hs).2).1 z (by simp)
    omega

example : (∀ ct ∈ num, ∀ o ∈ ct.2, o.label ∈ [0, 1]) ∧ (∀ b ∈ b2, ∀ w ∈ b, ∀ o ∈ w, o.label ∈ [0, 1]) := by
  decide

/-- product law, evaluated: the array of `hop·num` from the contraction of the two arrays -/
example : (match (opArray hop b2 .U1 m2).tensordotF (opArray num b2 .U1 m2)
      (.pair (((List.range (2 * b2.length)).drop b2.length).map Int.ofNat)
        ((List.range b2.length).map Int.ofNat)) .blockwise with
    | .ok c => (c.oddpos, c.elem [(1,0),(0,0),(0,0),(1,0)] [0,0,0,0],
        (opArray (mulTerms hop num) b2 .U1 m2).elem [(1,0),(0,0),(0,0),(1,0)] [0,0,0,0])
    | .error _ => ([], 0, 1)) = ([], -6, -6) := by decide +kernel

/-- a Hermitian term set (`2·a†b + 2·b†a` with trivial conjugation) -/
example : (([((2 : Int), [opA.dag, opB]), (2, [opB.dag, opA])] : List (Int × Word)).map
    (fun ct => (id ct.1, dagWord ct.2))).Perm [(2, [opA.dag, opB]), (2, [opB.dag, opA])] :=
  List.Perm.swap _ _ _

/-! ## the driver's scalar type -/

/-- `GRat` (Gaussian rationals, the scalars of the compiled driver) is a ring with exactly the
    operations the driver is compiled with -/
@[reducible] def ringGRat : Ring GRat :=
  @Ring.ofMinimalAxioms GRat GRat.instAdd GRat.instMul GRat.instNeg GRat.instZero GRat.instOne
    (fun a b c => Lazy.GRat.ext' (by show a.re + b.re + c.re = a.re + (b.re + c.re); ring)
      (by show a.im + b.im + c.im = a.im + (b.im + c.im); ring))
    (fun a => Lazy.GRat.ext' (by show 0 + a.re = a.re; ring) (by show 0 + a.im = a.im; ring))
    (fun a => Lazy.GRat.ext' (by show -a.re + a.re = 0; ring) (by show -a.im + a.im = 0; ring))
    (fun a b c => Lazy.GRat.ext'
      (by show (a.re * b.re - a.im * b.im) * c.re - (a.re * b.im + a.im * b.re) * c.im
            = a.re * (b.re * c.re - b.im * c.im) - a.im * (b.re * c.im + b.im * c.re); ring)
      (by show (a.re * b.re - a.im * b.im) * c.im + (a.re * b.im + a.im * b.re) * c.re
            = a.re * (b.re * c.im + b.im * c.re) + a.im * (b.re * c.re - b.im * c.im); ring))
    (fun a => Lazy.GRat.ext' (by show 1 * a.re - 0 * a.im = a.re; ring)
      (by show 1 * a.im + 0 * a.re = a.im; ring))
    (fun a => Lazy.GRat.ext' (by show a.re * 1 - a.im * 0 = a.re; ring)
      (by show a.re * 0 + a.im * 1 = a.im; ring))
    (fun a b c => Lazy.GRat.ext'
      (by show a.re * (b.re + c.re) - a.im * (b.im + c.im)
            = a.re * b.re - a.im * b.im + (a.re * c.re - a.im * c.im); ring)
      (by show a.re * (b.im + c.im) + a.im * (b.re + c.re)
            = a.re * b.im + a.im * b.re + (a.re * c.im + a.im * c.re); ring))
    (fun a b c => Lazy.GRat.ext'
      (by show (a.re + b.re) * c.re - (a.im + b.im) * c.im
            = a.re * c.re - a.im * c.im + (b.re * c.re - b.im * c.im); ring)
      (by show (a.re + b.re) * c.im + (a.im + b.im) * c.re
            = a.re * c.im + a.im * c.re + (b.re * c.im + b.im * c.re); ring))

/-- `action_eq` with exactly the instances the driver is compiled with on the implementation
    side (builder, contraction, value view); the specification side uses the ring `ringGRat` -/
theorem action_eq_GRat (terms : List (GRat × Word)) (bases : List (List Word)) (sym : Sym)
    (maps : List (List Charge)) (hmaps : maps.map List.length = bases.map List.length)
    (hv : ∀ m ∈ maps, ∀ c ∈ m, sym.valid c = true) (hd : SitesDisjoint bases)
    (q1 q2 : Int → Int) (hcm : ChargeMaps sym q1 q2 bases maps)
    (hn1 : ∀ ct ∈ terms, wordCharge q1 ct.2 = 0) (hn2 : ∀ ct ∈ terms, wordCharge q2 ct.2 = 0)
    (hpf : ParityFaithful sym bases maps)
    (G ψ c : Arr GRat)
    (hG : @buildArray GRat GRat.instZero GRat.instAdd GRat.instNeg instDecidableEqGRat
      terms bases sym maps = .ok G)
    (hψ : ψ.validB = true) (hfψ : ψ.fermi = true)
    (hadm : ValidP.tdotAdmissibleB G ψ
      ((List.range (2 * bases.length)).drop bases.length) (List.range bases.length) = true)
    (h : @Arr.tensordotF GRat GRat.instZero GRat.instAdd GRat.instMul GRat.instNeg G ψ
        (.pair (((List.range (2 * bases.length)).drop bases.length).map Int.ofNat)
          ((List.range bases.length).map Int.ofNat)) .blockwise = .ok c) :
    ∃ out ph, OddposP.mergeOddpos false [] ψ.oddpos = .ok (out, ph) ∧ c.oddpos = out
      ∧ c.charge = sym.combine [sym.zero, ψ.charge]
      ∧ ∀ (is : List Nat) (Rr : Sector) (oR shpR : List Nat),
          inBox (bases.map List.length) is = true →
          Arr.blockShape? (ψ.indices.drop bases.length) Rr = some shpR → inBox shpR oR = true →
          @Arr.elem GRat GRat.instZero GRat.instNeg c (labelsAt maps is ++ Rr) (ranksOf maps is ++ oR)
            = sgnI ph
              (@List.sum GRat GRat.instAdd GRat.instZero ((allIdx (bases.map List.length)).map (fun js =>
                @HMul.hMul GRat GRat GRat (@instHMul GRat GRat.instMul)
                  (@actMatrix GRat ringGRat.toAddCommGroup terms bases is js)
                  (@Arr.elem GRat GRat.instZero GRat.instNeg ψ
                    (labelsAt maps js ++ Rr) (ranksOf maps js ++ oR))))) :=
  @action_eq GRat ringGRat instDecidableEqGRat terms bases sym maps hmaps hv hd q1 q2 hcm hn1 hn2 hpf
    G ψ c hG hψ hfψ hadm h

end SymmModel.C18
