/- Property C06 — umbrella incl. C06h (a free-leg group at an arbitrary position fused before vs after the contraction). -/
import SymmModel.Props.C06All6
import SymmModel.Props.C06h
