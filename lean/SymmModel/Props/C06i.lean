/-
  C06 (ninth part) — "fusing uncontracted indices before or after contraction is likewise
  equivalent": (c) the mirror image of C06h for ONE group `g` of FREE legs of the RIGHT operand
  (arbitrary position, any order, no preliminary transposition), and (d) both forms with the
  contractions in ANY mode (blockwise / fused / auto).  Abelian, operands not aligned.

  * `tensordot_fuse_group_pre_right` — `fuse(b, [g])` succeeds (either strategy), the public
    `tensordot(a, fuse(b,[g]))` over `(xa, xb.map (shiftAxes b g))` succeeds (blockwise), and at the
    result address `(Ls ++ free part of (MR', MO'))` — `(Ls, oL)` any address of `a`'s free legs,
    `(MR', MO')` any full address of the fused operand's table box — it holds the element of
    `tensordot(a, b, (xa, xb))` at `(Ls ++ free part of (MR, MO))`, where `(MR, MO)` is the full
    address of `b` that `(MR', MO')` decodes to.  The result legs that come from `b` are offset by
    the number of `a`'s free legs: `result_group_part_right`.
  * `tensordot_fuse_group_commute_right` — before = after (blockwise): with `c = tensordot(a, b)`
    and any group `g'` of legs of `c`, `fuse(c, [g'])` succeeds and holds the same element at every
    address that decodes (through ITS table) to the same address of `c`.
  * `tensordotA_any_mode_tableBox` — for every admissible abelian call and EVERY mode the result
    holds the blockwise result's element at every address of the (un-pruned) result table box,
    stored sector or not.
  * `tensordot_fuse_group_commute_any_mode`, `tensordot_fuse_group_commute_right_any_mode` — the
    contraction of the pre-fused operand in any mode `md`, the plain contraction in any mode `md'`:
    both succeed and at the addresses above hold the element that `fuse(c, [g'])` holds, `c` the
    BLOCKWISE plain result.
  The documented precondition `contractibleB` (equal charge tables, opposite directions on the
  contracted pairs) replaces C06h's `oppositeDualsB`: the mirror image needs `b`'s contracted
  tables to give the same sizes as `a`'s, the fused route needs it anyway.
  NOT proved here: `fuse` applied to the result of the FUSED-mode plain contraction (its index
  tables may be pruned, so its fused leg has a different table and the decoder differs; the
  statement would have to relate the two decoders); the fermionic two-sided free-leg form; the
  layout theorems (below) in the other contraction modes.
  (e) The literal coincidence of the two results is FALSE: see the example `lyA`, `lyB` — the fused
  leg's table lists the sub-sectors STORED by the array being fused, which differ between `a` and the
  contraction result.  What is true and proved (`tensordot_fuse_group_commute_layout`, left operand's group,
  `tensordot_fuse_group_commute_right_layout`, right operand's group; blockwise): the fused leg sits at the same position `resPos` in both results, every other leg
  coincides literally (same charges, offsets, order — `shiftAxes_strictMono`, `shiftAxes_sides`), and
  only the entry on the fused leg has to be compared through the two fused tables.
-/
import SymmModel.Props.C06h
import SymmModel.Proofs.FuseCommuteI5

namespace SymmModel.C06
open SymmModel SymmModel.TdotP SymmModel.GradedP SymmModel.RoutesP SymmModel.AssocP
open SymmModel.Assoc3P SymmModel.Assoc4P

variable {R : Type}

/-! ## (c) a free-leg group of the RIGHT operand -/

/-- **tensordot_fuse_group_pre_right.** -/
theorem tensordot_fuse_group_pre_right [AddCommMonoid R] [Mul R] [Neg R]
    (hz1 : ∀ x : R, 0 * x = 0) (hz2 : ∀ x : R, x * 0 = 0) (a b : Arr R) (xa xb g : List Nat) (m : FuseMode)
    (ha : a.validB = true) (hb : b.validB = true) (hfa : a.fermi = false) (hfb : b.fermi = false)
    (hc : ValidP.contractibleB a b xa xb = true)
    (hnA : xa.Nodup) (hnB : xb.Nodup) (hA : ∀ x ∈ xa, x < a.ndim) (hB : ∀ x ∈ xb, x < b.ndim)
    (hne : g ≠ []) (hnd : g.Nodup) (hlt : ∀ x ∈ g, x < b.ndim) (hdisj : ∀ x ∈ xb, x ∉ g) :
    fuseA b [g] m false = .ok (FuseP.fusedArrM b [g])
    ∧ tensordotA a (FuseP.fusedArrM b [g])
        (.pair (xa.map Int.ofNat) ((xb.map (shiftAxes b g)).map Int.ofNat)) .blockwise
        = .ok (tensordotBlockwise a (FuseP.fusedArrM b [g]) (freeAxes a.ndim xa) xa (xb.map (shiftAxes b g))
            (freeAxes (FuseP.fusedArrM b [g]).ndim (xb.map (shiftAxes b g))))
    ∧ ∀ (MR' MR : Sector) (MO' MO shp' shpB : List Nat) (Ls : Sector) (oL shpL : List Nat),
        Arr.blockShape? (FuseP.fusedArrM b [g]).indices MR' = some shp' → inBox shp' MO' = true →
        Arr.blockShape? b.indices MR = some shpB → inBox shpB MO = true →
        decAx b [g] 0 (MR'.getD (bondPos b g) (0, 0)) (MO'.getD (bondPos b g) 0)
          = some (permuted MR g, permuted MO g) →
        permuted MR' (freeAxes (FuseP.fusedArrM b [g]).ndim [bondPos b g]) = permuted MR (freeAxes b.ndim g) →
        permuted MO' (freeAxes (FuseP.fusedArrM b [g]).ndim [bondPos b g]) = permuted MO (freeAxes b.ndim g) →
        Arr.blockShape? (permuted a.indices (freeAxes a.ndim xa)) Ls = some shpL → inBox shpL oL = true →
        (tensordotBlockwise a (FuseP.fusedArrM b [g]) (freeAxes a.ndim xa) xa (xb.map (shiftAxes b g))
            (freeAxes (FuseP.fusedArrM b [g]).ndim (xb.map (shiftAxes b g)))).elem
            (Ls ++ permuted MR' (freeAxes (FuseP.fusedArrM b [g]).ndim (xb.map (shiftAxes b g))))
            (oL ++ permuted MO' (freeAxes (FuseP.fusedArrM b [g]).ndim (xb.map (shiftAxes b g))))
          = (cPlain a b xa xb).elem
              (Ls ++ permuted MR (freeAxes b.ndim xb)) (oL ++ permuted MO (freeAxes b.ndim xb)) := by
  have h : OneOk b g := ⟨hne, hnd, hlt⟩
  have hlen : xa.length = xb.length := (cm_eq_of_contractibleB hc hA hB).1
  have hB' : ∀ x ∈ xb.map (shiftAxes b g), x < (FuseP.fusedArrM b [g]).ndim := by
    intro y hy
    obtain ⟨x, hx, rfl⟩ := List.mem_map.mp hy
    rw [one_ndim h]; exact shiftAxes_lt h ⟨hB x hx, hdisj x hx⟩
  refine ⟨fuseA_any_mode b [g] m hb h.groupsOk, ?_, ?_⟩
  · exact tensordotA_blockwise_ok a (FuseP.fusedArrM b [g]) _ xa (xb.map (shiftAxes b g))
      (ValidP.parseAxes_nat _ _ xa _ (by rw [List.length_map]; exact hlen) hA hB')
  · intro MR' MR MO' MO shp' shpB Ls oL shpL h1 h2 h3 h4 h5 h6 h7 h8 h9
    exact group_commute_right hz1 hz2 a b xa xb g ha hb (phases_nil_of_validB ha hfa) hfb h hdisj hc
      hnA hnB hA hB h1 h2 h3 h4 h5 h6 h7 h8 h9

/-- the group part of a result address, right operand: for the legs of the result that correspond to
    the group `g` of `b` (number of `a`'s free legs + position of the axis among `b`'s free legs),
    the group part of the result address `(Ls ++ permuted MR (free b))` is the group part of `MR` -/
theorem result_group_part_right {α : Type} (n : Nat) (xb g : List Nat) (Ls MR : List α) (hMR : MR.length = n)
    (hlt : ∀ x ∈ g, x < n) (hdisj : ∀ x ∈ g, x ∉ xb) :
    permuted (Ls ++ permuted MR (freeAxes n xb)) (g.map (fun x => Ls.length + (freeAxes n xb).idxOf x))
      = permuted MR g := by
  have hl : (permuted MR (freeAxes n xb)).length = (freeAxes n xb).length :=
    permuted_length _ _ (by intro x hx; rw [hMR]; exact (mem_freeAxes.mp hx).1)
  unfold permuted
  rw [List.filterMap_map]
  apply List.filterMap_congr
  intro x hx
  have hm : x ∈ freeAxes n xb := mem_freeAxes.mpr ⟨hlt x hx, hdisj x hx⟩
  have hi : (freeAxes n xb).idxOf x < (freeAxes n xb).length := List.idxOf_lt_length_of_mem hm
  simp only [Function.comp]
  show (Ls ++ permuted MR (freeAxes n xb))[Ls.length + (freeAxes n xb).idxOf x]? = MR[x]?
  rw [List.getElem?_append_right (by omega), Nat.add_sub_cancel_left,
    permuted_getElem? MR (freeAxes n xb) (by intro y hy; rw [hMR]; exact (mem_freeAxes.mp hy).1),
    List.getElem?_eq_getElem hi, List.getElem_idxOf hi]
  rfl

/-- **tensordot_fuse_group_commute_right** (abelian; RIGHT operand; group anywhere, any order; no
    preliminary transposition; blockwise contraction; either fuse strategy). -/
theorem tensordot_fuse_group_commute_right [AddCommMonoid R] [Mul R] [Neg R]
    (hz1 : ∀ x : R, 0 * x = 0) (hz2 : ∀ x : R, x * 0 = 0) (a b : Arr R) (xa xb g g' : List Nat)
    (m m' : FuseMode)
    (ha : a.validB = true) (hb : b.validB = true) (hfa : a.fermi = false) (hfb : b.fermi = false)
    (hsym : a.sym = b.sym) (hc : ValidP.contractibleB a b xa xb = true)
    (hnA : xa.Nodup) (hnB : xb.Nodup) (hA : ∀ x ∈ xa, x < a.ndim) (hB : ∀ x ∈ xb, x < b.ndim)
    (hne : g ≠ []) (hnd : g.Nodup) (hlt : ∀ x ∈ g, x < b.ndim) (hdisj : ∀ x ∈ xb, x ∉ g)
    (hne' : g' ≠ []) (hnd' : g'.Nodup) (hlt' : ∀ x ∈ g', x < (cPlain a b xa xb).ndim) :
    fuseA b [g] m false = .ok (FuseP.fusedArrM b [g])
    ∧ tensordotA a b (.pair (xa.map Int.ofNat) (xb.map Int.ofNat)) .blockwise = .ok (cPlain a b xa xb)
    ∧ fuseA (cPlain a b xa xb) [g'] m' false = .ok (FuseP.fusedArrM (cPlain a b xa xb) [g'])
    ∧ ∃ cf, tensordotA a (FuseP.fusedArrM b [g])
          (.pair (xa.map Int.ofNat) ((xb.map (shiftAxes b g)).map Int.ofNat)) .blockwise = .ok cf
      ∧ ∀ (MR' MR : Sector) (MO' MO shp' shpB : List Nat) (Ls : Sector) (oL shpL : List Nat)
          (ns2 : Sector) (i2 shp2 : List Nat),
        Arr.blockShape? (FuseP.fusedArrM b [g]).indices MR' = some shp' → inBox shp' MO' = true →
        Arr.blockShape? b.indices MR = some shpB → inBox shpB MO = true →
        decAx b [g] 0 (MR'.getD (bondPos b g) (0, 0)) (MO'.getD (bondPos b g) 0)
          = some (permuted MR g, permuted MO g) →
        permuted MR' (freeAxes (FuseP.fusedArrM b [g]).ndim [bondPos b g]) = permuted MR (freeAxes b.ndim g) →
        permuted MO' (freeAxes (FuseP.fusedArrM b [g]).ndim [bondPos b g]) = permuted MO (freeAxes b.ndim g) →
        Arr.blockShape? (permuted a.indices (freeAxes a.ndim xa)) Ls = some shpL → inBox shpL oL = true →
        Arr.blockShape? (FuseP.fusedArrM (cPlain a b xa xb) [g']).indices ns2 = some shp2 → inBox shp2 i2 = true →
        decAx (cPlain a b xa xb) [g'] 0 (ns2.getD (bondPos (cPlain a b xa xb) g') (0, 0))
            (i2.getD (bondPos (cPlain a b xa xb) g') 0)
          = some (permuted (Ls ++ permuted MR (freeAxes b.ndim xb)) g',
                  permuted (oL ++ permuted MO (freeAxes b.ndim xb)) g') →
        permuted ns2 (freeAxes (FuseP.fusedArrM (cPlain a b xa xb) [g']).ndim [bondPos (cPlain a b xa xb) g'])
          = permuted (Ls ++ permuted MR (freeAxes b.ndim xb)) (freeAxes (cPlain a b xa xb).ndim g') →
        permuted i2 (freeAxes (FuseP.fusedArrM (cPlain a b xa xb) [g']).ndim [bondPos (cPlain a b xa xb) g'])
          = permuted (oL ++ permuted MO (freeAxes b.ndim xb)) (freeAxes (cPlain a b xa xb).ndim g') →
        cf.elem (Ls ++ permuted MR' (freeAxes (FuseP.fusedArrM b [g]).ndim (xb.map (shiftAxes b g))))
            (oL ++ permuted MO' (freeAxes (FuseP.fusedArrM b [g]).ndim (xb.map (shiftAxes b g))))
          = (FuseP.fusedArrM (cPlain a b xa xb) [g']).elem ns2 i2
        ∧ (FuseP.fusedArrM (cPlain a b xa xb) [g']).elem ns2 i2
          = (cPlain a b xa xb).elem
              (Ls ++ permuted MR (freeAxes b.ndim xb)) (oL ++ permuted MO (freeAxes b.ndim xb)) := by
  have hopp := ValidP.contractible_opposite hc
  have hlen : xa.length = xb.length := (cm_eq_of_contractibleB hc hA hB).1
  have hvc : (cPlain a b xa xb).validB = true := by
    have := ValidP.tensordotBlockwise_valid a b xa xb ((ValidP.validB_iff _).mp ha)
      ((ValidP.validB_iff _).mp hb) hsym hfa hopp hnA hnB hA hB
    rw [without_range, without_range] at this
    exact (ValidP.validB_iff _).mpr this
  have hfc : (cPlain a b xa xb).fermi = false := (tensordotBlockwise_fields a b _ xa xb _).2.1.trans hfa
  have hcn : (cPlain a b xa xb).ndim = (freeAxes a.ndim xa).length + (freeAxes b.ndim xb).length :=
    tensordotBlockwise_rank a b xa xb
  obtain ⟨f1, t1, hpre⟩ := tensordot_fuse_group_pre_right hz1 hz2 a b xa xb g m ha hb hfa hfb hc hnA hnB hA hB
    hne hnd hlt hdisj
  obtain ⟨f2, _, _, _, hpost⟩ := fuse_group_elem (cPlain a b xa xb) g' m' hvc hfc hne' hnd' hlt'
  refine ⟨f1, tensordotA_blockwise_ok a b _ xa xb (ValidP.parseAxes_nat a.ndim b.ndim xa xb hlen hA hB),
    f2, _, t1, ?_⟩
  intro MR' MR MO' MO shp' shpB Ls oL shpL ns2 i2 shp2 h1 h2 h3 h4 h5 h6 h7 h8 h9 k1 k2 k3 k4 k5
  have ean : a.indices.length = a.ndim := rfl
  have hMRl : MR.length = b.ndim := (blockShape?_length h3).1
  have hMOl : MO.length = b.ndim := by rw [inBox_length h4, (blockShape?_length h3).2]; rfl
  have hLl : Ls.length = (freeAxes a.ndim xa).length := by
    rw [(blockShape?_length h8).1, permuted_length _ _ (by simpa [ean] using mem_freeAxes_lt)]
  have hoLl : oL.length = (freeAxes a.ndim xa).length := by
    rw [inBox_length h9, (blockShape?_length h8).2, permuted_length _ _ (by simpa [ean] using mem_freeAxes_lt)]
  have e1 := hpre MR' MR MO' MO shp' shpB Ls oL shpL h1 h2 h3 h4 h5 h6 h7 h8 h9
  have e2 := hpost ns2 i2 shp2 (Ls ++ permuted MR (freeAxes b.ndim xb)) (oL ++ permuted MO (freeAxes b.ndim xb))
    k1 k2
    (by rw [List.length_append, permuted_length _ _ (by intro x hx; rw [hMRl]; exact (mem_freeAxes.mp hx).1),
          hLl, hcn])
    (by rw [List.length_append, permuted_length _ _ (by intro x hx; rw [hMOl]; exact (mem_freeAxes.mp hx).1),
          hoLl, hcn])
    k3 k4 k5
  exact ⟨e1.trans e2.symm, e2⟩

/-! ## (d) any contraction mode -/

/-- **tensordotA_any_mode_tableBox.**  Every admissible abelian call, every `mode`: `tensordot`
    succeeds and at every address `(K, J)` of the un-pruned result table box (stored sector or not)
    its result holds the element of the blockwise result. -/
theorem tensordotA_any_mode_tableBox [AddCommMonoid R] [Mul R] [Neg R]
    (hz1 : ∀ x : R, 0 * x = 0) (hz2 : ∀ x : R, x * 0 = 0) (a b : Arr R) (axes : AxesArg)
    (xa xb : List Nat) (hparse : parseAxes a.ndim b.ndim axes = .ok (xa, xb))
    (ha : a.validB = true) (hb : b.validB = true) (hfa : a.fermi = false) (hfb : b.fermi = false)
    (hsym : a.sym = b.sym) (hc : ValidP.contractibleB a b xa xb = true)
    (hnA : xa.Nodup) (hnB : xb.Nodup) (hA : ∀ x ∈ xa, x < a.ndim) (hB : ∀ x ∈ xb, x < b.ndim)
    (mode : TdotMode) :
    ∃ cm, tensordotA a b axes mode = .ok cm
      ∧ ∀ (K : Sector) (J shp : List Nat),
          Arr.blockShape? (without a.indices xa ++ without b.indices xb) K = some shp → inBox shp J = true →
          cm.elem K J = (cPlain a b xa xb).elem K J :=
  modes_agree_tableBox hz1 hz2 a b axes xa xb hparse ha hb hfa hfb hsym hc hnA hnB hA hB mode

/-- **tensordot_fuse_group_commute_any_mode** (LEFT operand's group; contraction of the pre-fused
    operand in mode `md`, plain contraction in mode `md'`; `fuse` afterwards applied to the blockwise
    plain result `c`). -/
theorem tensordot_fuse_group_commute_any_mode [AddCommMonoid R] [Mul R] [Neg R]
    (hz1 : ∀ x : R, 0 * x = 0) (hz2 : ∀ x : R, x * 0 = 0) (a b : Arr R) (xa xb g g' : List Nat)
    (m m' : FuseMode) (md md' : TdotMode)
    (ha : a.validB = true) (hb : b.validB = true) (hfa : a.fermi = false) (hfb : b.fermi = false)
    (hsym : a.sym = b.sym) (hc : ValidP.contractibleB a b xa xb = true)
    (hnA : xa.Nodup) (hnB : xb.Nodup) (hA : ∀ x ∈ xa, x < a.ndim) (hB : ∀ x ∈ xb, x < b.ndim)
    (hne : g ≠ []) (hnd : g.Nodup) (hlt : ∀ x ∈ g, x < a.ndim) (hdisj : ∀ x ∈ xa, x ∉ g)
    (hne' : g' ≠ []) (hnd' : g'.Nodup) (hlt' : ∀ x ∈ g', x < (cPlain a b xa xb).ndim) :
    fuseA a [g] m false = .ok (FuseP.fusedArrM a [g])
    ∧ fuseA (cPlain a b xa xb) [g'] m' false = .ok (FuseP.fusedArrM (cPlain a b xa xb) [g'])
    ∧ ∃ cf cm, tensordotA (FuseP.fusedArrM a [g]) b
          (.pair ((xa.map (shiftAxes a g)).map Int.ofNat) (xb.map Int.ofNat)) md = .ok cf
      ∧ tensordotA a b (.pair (xa.map Int.ofNat) (xb.map Int.ofNat)) md' = .ok cm
      ∧ ∀ (ML' ML : Sector) (MO' MO shp' shpA : List Nat) (Rs : Sector) (oR shpR : List Nat)
          (ns2 : Sector) (i2 shp2 : List Nat),
        Arr.blockShape? (FuseP.fusedArrM a [g]).indices ML' = some shp' → inBox shp' MO' = true →
        Arr.blockShape? a.indices ML = some shpA → inBox shpA MO = true →
        decAx a [g] 0 (ML'.getD (bondPos a g) (0, 0)) (MO'.getD (bondPos a g) 0)
          = some (permuted ML g, permuted MO g) →
        permuted ML' (freeAxes (FuseP.fusedArrM a [g]).ndim [bondPos a g]) = permuted ML (freeAxes a.ndim g) →
        permuted MO' (freeAxes (FuseP.fusedArrM a [g]).ndim [bondPos a g]) = permuted MO (freeAxes a.ndim g) →
        Arr.blockShape? (permuted b.indices (freeAxes b.ndim xb)) Rs = some shpR → inBox shpR oR = true →
        Arr.blockShape? (FuseP.fusedArrM (cPlain a b xa xb) [g']).indices ns2 = some shp2 → inBox shp2 i2 = true →
        decAx (cPlain a b xa xb) [g'] 0 (ns2.getD (bondPos (cPlain a b xa xb) g') (0, 0))
            (i2.getD (bondPos (cPlain a b xa xb) g') 0)
          = some (permuted (permuted ML (freeAxes a.ndim xa) ++ Rs) g',
                  permuted (permuted MO (freeAxes a.ndim xa) ++ oR) g') →
        permuted ns2 (freeAxes (FuseP.fusedArrM (cPlain a b xa xb) [g']).ndim [bondPos (cPlain a b xa xb) g'])
          = permuted (permuted ML (freeAxes a.ndim xa) ++ Rs) (freeAxes (cPlain a b xa xb).ndim g') →
        permuted i2 (freeAxes (FuseP.fusedArrM (cPlain a b xa xb) [g']).ndim [bondPos (cPlain a b xa xb) g'])
          = permuted (permuted MO (freeAxes a.ndim xa) ++ oR) (freeAxes (cPlain a b xa xb).ndim g') →
        cf.elem (permuted ML' (freeAxes (FuseP.fusedArrM a [g]).ndim (xa.map (shiftAxes a g))) ++ Rs)
            (permuted MO' (freeAxes (FuseP.fusedArrM a [g]).ndim (xa.map (shiftAxes a g))) ++ oR)
          = (FuseP.fusedArrM (cPlain a b xa xb) [g']).elem ns2 i2
        ∧ cm.elem (permuted ML (freeAxes a.ndim xa) ++ Rs) (permuted MO (freeAxes a.ndim xa) ++ oR)
          = (FuseP.fusedArrM (cPlain a b xa xb) [g']).elem ns2 i2 := by
  have h : OneOk a g := ⟨hne, hnd, hlt⟩
  have hopp := ValidP.contractible_opposite hc
  have hlen : xa.length = xb.length := (cm_eq_of_contractibleB hc hA hB).1
  have hxaF : ∀ x ∈ xa, x < a.ndim ∧ x ∉ g := fun x hx => ⟨hA x hx, hdisj x hx⟩
  have hnA' : (xa.map (shiftAxes a g)).Nodup :=
    hnA.map_on (fun x hx y hy e => shiftAxes_inj h (hxaF x hx) (hxaF y hy) e)
  have hA' : ∀ x ∈ xa.map (shiftAxes a g), x < (FuseP.fusedArrM a [g]).ndim := by
    intro y hy
    obtain ⟨x, hx, rfl⟩ := List.mem_map.mp hy
    rw [one_ndim h]; exact shiftAxes_lt h (hxaF x hx)
  have hparse' := ValidP.parseAxes_nat (FuseP.fusedArrM a [g]).ndim b.ndim (xa.map (shiftAxes a g)) xb
    (by rw [List.length_map]; exact hlen) hA' hB
  have hparse := ValidP.parseAxes_nat a.ndim b.ndim xa xb hlen hA hB
  obtain ⟨f1, _, f2, cfb, tb, hel⟩ := tensordot_fuse_group_commute hz1 hz2 a b xa xb g g' m m' ha hb hfa hfb
    hsym hopp hnA hnB hA hB hne hnd hlt hdisj hne' hnd' hlt'
  rw [tensordotA_blockwise_ok _ _ _ _ _ hparse'] at tb
  obtain rfl := Except.ok.inj tb
  obtain ⟨cf, hcf, kf⟩ := modes_agree_tableBox hz1 hz2 (FuseP.fusedArrM a [g]) b _ _ xb hparse'
    (one_validB ha hfa h) hb hfa hfb hsym (contractibleB_shift_left h hxaF hc) hnA' hnB hA' hB md
  obtain ⟨cm, hcm, km⟩ := modes_agree_tableBox hz1 hz2 a b _ xa xb hparse ha hb hfa hfb hsym hc hnA hnB hA hB md'
  refine ⟨f1, f2, cf, cm, hcf, hcm, ?_⟩
  intro ML' ML MO' MO shp' shpA Rs oR shpR ns2 i2 shp2 h1 h2 h3 h4 h5 h6 h7 h8 h9 k1 k2 k3 k4 k5
  obtain ⟨e1, e2⟩ := hel ML' ML MO' MO shp' shpA Rs oR shpR ns2 i2 shp2 h1 h2 h3 h4 h5 h6 h7 h8 h9 k1 k2 k3 k4 k5
  obtain ⟨s, hs, hbx⟩ := tableBox_left (X := FuseP.fusedArrM a [g]) (Y := b) (xx := xa.map (shiftAxes a g))
    (xy := xb) h1 h2 h8 h9
  obtain ⟨s', hs', hbx'⟩ := tableBox_left (X := a) (Y := b) (xx := xa) (xy := xb) h3 h4 h8 h9
  exact ⟨(kf _ _ _ hs hbx).trans e1, (km _ _ _ hs' hbx').trans e2.symm⟩

/-- **tensordot_fuse_group_commute_right_any_mode** (RIGHT operand's group; contraction of the
    pre-fused operand in mode `md`, plain contraction in mode `md'`; `fuse` afterwards applied to the
    blockwise plain result `c`). -/
theorem tensordot_fuse_group_commute_right_any_mode [AddCommMonoid R] [Mul R] [Neg R]
    (hz1 : ∀ x : R, 0 * x = 0) (hz2 : ∀ x : R, x * 0 = 0) (a b : Arr R) (xa xb g g' : List Nat)
    (m m' : FuseMode) (md md' : TdotMode)
    (ha : a.validB = true) (hb : b.validB = true) (hfa : a.fermi = false) (hfb : b.fermi = false)
    (hsym : a.sym = b.sym) (hc : ValidP.contractibleB a b xa xb = true)
    (hnA : xa.Nodup) (hnB : xb.Nodup) (hA : ∀ x ∈ xa, x < a.ndim) (hB : ∀ x ∈ xb, x < b.ndim)
    (hne : g ≠ []) (hnd : g.Nodup) (hlt : ∀ x ∈ g, x < b.ndim) (hdisj : ∀ x ∈ xb, x ∉ g)
    (hne' : g' ≠ []) (hnd' : g'.Nodup) (hlt' : ∀ x ∈ g', x < (cPlain a b xa xb).ndim) :
    fuseA b [g] m false = .ok (FuseP.fusedArrM b [g])
    ∧ fuseA (cPlain a b xa xb) [g'] m' false = .ok (FuseP.fusedArrM (cPlain a b xa xb) [g'])
    ∧ ∃ cf cm, tensordotA a (FuseP.fusedArrM b [g])
          (.pair (xa.map Int.ofNat) ((xb.map (shiftAxes b g)).map Int.ofNat)) md = .ok cf
      ∧ tensordotA a b (.pair (xa.map Int.ofNat) (xb.map Int.ofNat)) md' = .ok cm
      ∧ ∀ (MR' MR : Sector) (MO' MO shp' shpB : List Nat) (Ls : Sector) (oL shpL : List Nat)
          (ns2 : Sector) (i2 shp2 : List Nat),
        Arr.blockShape? (FuseP.fusedArrM b [g]).indices MR' = some shp' → inBox shp' MO' = true →
        Arr.blockShape? b.indices MR = some shpB → inBox shpB MO = true →
        decAx b [g] 0 (MR'.getD (bondPos b g) (0, 0)) (MO'.getD (bondPos b g) 0)
          = some (permuted MR g, permuted MO g) →
        permuted MR' (freeAxes (FuseP.fusedArrM b [g]).ndim [bondPos b g]) = permuted MR (freeAxes b.ndim g) →
        permuted MO' (freeAxes (FuseP.fusedArrM b [g]).ndim [bondPos b g]) = permuted MO (freeAxes b.ndim g) →
        Arr.blockShape? (permuted a.indices (freeAxes a.ndim xa)) Ls = some shpL → inBox shpL oL = true →
        Arr.blockShape? (FuseP.fusedArrM (cPlain a b xa xb) [g']).indices ns2 = some shp2 → inBox shp2 i2 = true →
        decAx (cPlain a b xa xb) [g'] 0 (ns2.getD (bondPos (cPlain a b xa xb) g') (0, 0))
            (i2.getD (bondPos (cPlain a b xa xb) g') 0)
          = some (permuted (Ls ++ permuted MR (freeAxes b.ndim xb)) g',
                  permuted (oL ++ permuted MO (freeAxes b.ndim xb)) g') →
        permuted ns2 (freeAxes (FuseP.fusedArrM (cPlain a b xa xb) [g']).ndim [bondPos (cPlain a b xa xb) g'])
          = permuted (Ls ++ permuted MR (freeAxes b.ndim xb)) (freeAxes (cPlain a b xa xb).ndim g') →
        permuted i2 (freeAxes (FuseP.fusedArrM (cPlain a b xa xb) [g']).ndim [bondPos (cPlain a b xa xb) g'])
          = permuted (oL ++ permuted MO (freeAxes b.ndim xb)) (freeAxes (cPlain a b xa xb).ndim g') →
        cf.elem (Ls ++ permuted MR' (freeAxes (FuseP.fusedArrM b [g]).ndim (xb.map (shiftAxes b g))))
            (oL ++ permuted MO' (freeAxes (FuseP.fusedArrM b [g]).ndim (xb.map (shiftAxes b g))))
          = (FuseP.fusedArrM (cPlain a b xa xb) [g']).elem ns2 i2
        ∧ cm.elem (Ls ++ permuted MR (freeAxes b.ndim xb)) (oL ++ permuted MO (freeAxes b.ndim xb))
          = (FuseP.fusedArrM (cPlain a b xa xb) [g']).elem ns2 i2 := by
  have h : OneOk b g := ⟨hne, hnd, hlt⟩
  have hlen : xa.length = xb.length := (cm_eq_of_contractibleB hc hA hB).1
  have hxbF : ∀ x ∈ xb, x < b.ndim ∧ x ∉ g := fun x hx => ⟨hB x hx, hdisj x hx⟩
  have hnB' : (xb.map (shiftAxes b g)).Nodup :=
    hnB.map_on (fun x hx y hy e => shiftAxes_inj h (hxbF x hx) (hxbF y hy) e)
  have hB' : ∀ x ∈ xb.map (shiftAxes b g), x < (FuseP.fusedArrM b [g]).ndim := by
    intro y hy
    obtain ⟨x, hx, rfl⟩ := List.mem_map.mp hy
    rw [one_ndim h]; exact shiftAxes_lt h (hxbF x hx)
  have hparse' := ValidP.parseAxes_nat a.ndim (FuseP.fusedArrM b [g]).ndim xa (xb.map (shiftAxes b g))
    (by rw [List.length_map]; exact hlen) hA hB'
  have hparse := ValidP.parseAxes_nat a.ndim b.ndim xa xb hlen hA hB
  obtain ⟨f1, _, f2, cfb, tb, hel⟩ := tensordot_fuse_group_commute_right hz1 hz2 a b xa xb g g' m m' ha hb hfa hfb
    hsym hc hnA hnB hA hB hne hnd hlt hdisj hne' hnd' hlt'
  rw [tensordotA_blockwise_ok _ _ _ _ _ hparse'] at tb
  obtain rfl := Except.ok.inj tb
  obtain ⟨cf, hcf, kf⟩ := modes_agree_tableBox hz1 hz2 a (FuseP.fusedArrM b [g]) _ xa _ hparse'
    ha (one_validB hb hfb h) hfa hfb hsym (contractibleB_shift_right h hxbF hc) hnA hnB' hA hB' md
  obtain ⟨cm, hcm, km⟩ := modes_agree_tableBox hz1 hz2 a b _ xa xb hparse ha hb hfa hfb hsym hc hnA hnB hA hB md'
  refine ⟨f1, f2, cf, cm, hcf, hcm, ?_⟩
  intro MR' MR MO' MO shp' shpB Ls oL shpL ns2 i2 shp2 h1 h2 h3 h4 h5 h6 h7 h8 h9 k1 k2 k3 k4 k5
  obtain ⟨e1, e2⟩ := hel MR' MR MO' MO shp' shpB Ls oL shpL ns2 i2 shp2 h1 h2 h3 h4 h5 h6 h7 h8 h9 k1 k2 k3 k4 k5
  obtain ⟨s, hs, hbx⟩ := tableBox_right (X := a) (Y := FuseP.fusedArrM b [g]) (xx := xa)
    (xy := xb.map (shiftAxes b g)) h8 h9 h1 h2
  obtain ⟨s', hs', hbx'⟩ := tableBox_right (X := a) (Y := b) (xx := xa) (xy := xb) h8 h9 h3 h4
  exact ⟨(kf _ _ _ hs hbx).trans e1, (km _ _ _ hs' hbx').trans e2.symm⟩

/-! ## (e) the address layouts of the two results -/

/-- **shiftAxes_strictMono**: the legs outside the fused group keep their order. -/
theorem shiftAxes_strictMono (X : Arr R) {g : List Nat} (hne : g ≠ []) (hnd : g.Nodup)
    (hlt : ∀ x ∈ g, x < X.ndim) {x y : Nat} (hx : x < X.ndim ∧ x ∉ g) (hy : y < X.ndim ∧ y ∉ g)
    (hxy : x < y) : shiftAxes X g x < shiftAxes X g y :=
  TdotP.shiftAxes_strictMono ⟨hne, hnd, hlt⟩ hx hy hxy

/-- **shiftAxes_sides**: a leg below the fused position `bondPos X g = min g` keeps its number, a leg
    above it (outside the group) lands above the fused position. -/
theorem shiftAxes_sides (X : Arr R) {g : List Nat} (hne : g ≠ []) (hnd : g.Nodup)
    (hlt : ∀ x ∈ g, x < X.ndim) (x : Nat) :
    (x < bondPos X g → shiftAxes X g x = x)
    ∧ (x < X.ndim → x ∉ g → bondPos X g < x → bondPos X g < shiftAxes X g x) :=
  ⟨fun hx => shiftAxes_of_lt_pos ⟨hne, hnd, hlt⟩ hx,
    fun h1 h2 h3 => shiftAxes_of_pos_lt ⟨hne, hnd, hlt⟩ ⟨h1, h2⟩ h3⟩

/-! ### the two results are NOT literally the same array

  The brief's goal (e) — "the address layouts of the two results coincide literally, so that the
  statement becomes an equality of value views" — is FALSE of the model (and, through the
  correspondence harness, of the library): the table of a fused leg lists only the sub-sectors that
  the array being fused STORES.  `fuse(a, [g])` builds it from `a`'s stored sectors, `fuse(c, [g'])`
  from the stored sectors of the contraction result `c`; a sub-sector of `a` whose contraction
  partner `b` does not store is present in the first table and absent from the second.  The legs
  other than the fused one do coincide (same order: `shiftAxes_strictMono`); on the fused leg only the
  DECODED addresses coincide, which is what the theorems above state.  Example: `lyA[i,j,k1,k2]`
  stores `(1,0,1,0)` and `(0,1,0,1)`, `lyB[k1',k2',m]` stores `(1,0,1)` only; fusing `(i,j)` before
  the contraction gives a fused leg `1 ↦ 2` with the value at offset 1 (`#[0, 21]`), fusing after it a
  fused leg `1 ↦ 1` with the value at offset 0 (`#[21]`). -/

def lyI (d : Bool) : Index := Index.mk [((0, 0), 1), ((1, 0), 1)] d none
def lyA : Arr Int :=
  { sym := .Z2, fermi := false, indices := [lyI false, lyI false, lyI false, lyI false], charge := (0, 0),
    blocks := [([(1, 0), (0, 0), (1, 0), (0, 0)], ⟨[1, 1, 1, 1], #[3]⟩),
               ([(0, 0), (1, 0), (0, 0), (1, 0)], ⟨[1, 1, 1, 1], #[5]⟩)] }
def lyB : Arr Int :=
  { sym := .Z2, fermi := false, indices := [lyI true, lyI true, lyI false], charge := (0, 0),
    blocks := [([(1, 0), (0, 0), (1, 0)], ⟨[1, 1, 1], #[7]⟩)] }

example : lyA.validB = true ∧ lyB.validB = true ∧ ValidP.contractibleB lyA lyB [2, 3] [0, 1] = true
    ∧ ([2, 3] : List Nat).map (shiftAxes lyA [0, 1]) = [1, 2]
    ∧ (match fuseA lyA [[0, 1]] .insert false, tensordotA lyA lyB (.pair [2, 3] [0, 1]) .blockwise with
       | .ok af, .ok c =>
          match tensordotA af lyB (.pair [1, 2] [0, 1]) .blockwise, fuseA c [[0, 1]] .insert false with
          | .ok cf, .ok cq =>
            cf.indices.map Index.cm == [[((1, 0), 2)], [((1, 0), 1)]]
            && cq.indices.map Index.cm == [[((1, 0), 1)], [((1, 0), 1)]]
            && cf.blocks.map (fun p => (p.1, p.2.shape, p.2.data)) == [([(1, 0), (1, 0)], [2, 1], #[0, 21])]
            && cq.blocks.map (fun p => (p.1, p.2.shape, p.2.data)) == [([(1, 0), (1, 0)], [1, 1], #[21])]
          | _, _ => false
       | _, _ => false) = true := by decide +kernel


/-! ### what does coincide: every leg but the fused one, and the fused leg's position -/

/-- the legs of the contraction result that correspond to the group `g` of the left operand -/
def resGroup (a : Arr R) (xa g : List Nat) : List Nat := g.map (fun x => (freeAxes a.ndim xa).idxOf x)

/-- where the fused leg sits in the contraction of the pre-fused left operand with `b` -/
def resPos [Zero R] (a : Arr R) (xa g : List Nat) : Nat :=
  (freeAxes (FuseP.fusedArrM a [g]).ndim (xa.map (shiftAxes a g))).idxOf (bondPos a g)

/-- **tensordot_fuse_group_commute_layout** (LEFT operand's group, blockwise).  With
    `c = tensordot(a, b)`, `g' = resGroup a xa g` the legs of `c` that correspond to `g` and
    `P = resPos a xa g`: `g'` is an admissible group of `c`, the fused leg of `fuse(c, [g'])` sits at
    `P` — the position of the fused leg in `cf = tensordot(fuse(a,[g]), b)` — and whenever an address
    `(ns2, i2)` of the table box of `fuse(c, [g'])` and the address `(A', O')` of `cf` read off
    `(ML', MO')`
      * agree on EVERY leg other than `P` (literally: same charges, same offsets, same order), and
      * on leg `P` decode — `(ns2, i2)` through the fused table of `fuse(c, [g'])`, `(A', O')` through
        the fused table of `fuse(a, [g])` — to the same group address,
    the two arrays hold the same element.  (The two fused tables themselves may differ: `lyA`, `lyB`.) -/
theorem tensordot_fuse_group_commute_layout [AddCommMonoid R] [Mul R] [Neg R]
    (hz1 : ∀ x : R, 0 * x = 0) (hz2 : ∀ x : R, x * 0 = 0) (a b : Arr R) (xa xb g : List Nat)
    (m m' : FuseMode)
    (ha : a.validB = true) (hb : b.validB = true) (hfa : a.fermi = false) (hfb : b.fermi = false)
    (hsym : a.sym = b.sym) (hopp : ValidP.oppositeDualsB a b xa xb = true)
    (hnA : xa.Nodup) (hnB : xb.Nodup) (hA : ∀ x ∈ xa, x < a.ndim) (hB : ∀ x ∈ xb, x < b.ndim)
    (hne : g ≠ []) (hnd : g.Nodup) (hlt : ∀ x ∈ g, x < a.ndim) (hdisj : ∀ x ∈ xa, x ∉ g) :
    (resGroup a xa g ≠ [] ∧ (resGroup a xa g).Nodup ∧ ∀ x ∈ resGroup a xa g, x < (cPlain a b xa xb).ndim)
    ∧ bondPos (cPlain a b xa xb) (resGroup a xa g) = resPos a xa g
    ∧ fuseA a [g] m false = .ok (FuseP.fusedArrM a [g])
    ∧ fuseA (cPlain a b xa xb) [resGroup a xa g] m' false
        = .ok (FuseP.fusedArrM (cPlain a b xa xb) [resGroup a xa g])
    ∧ ∃ cf, tensordotA (FuseP.fusedArrM a [g]) b
          (.pair ((xa.map (shiftAxes a g)).map Int.ofNat) (xb.map Int.ofNat)) .blockwise = .ok cf
      ∧ ∀ (ML' ML : Sector) (MO' MO shp' shpA : List Nat) (Rs : Sector) (oR shpR : List Nat)
          (ns2 : Sector) (i2 shp2 : List Nat),
        Arr.blockShape? (FuseP.fusedArrM a [g]).indices ML' = some shp' → inBox shp' MO' = true →
        Arr.blockShape? a.indices ML = some shpA → inBox shpA MO = true →
        decAx a [g] 0 (ML'.getD (bondPos a g) (0, 0)) (MO'.getD (bondPos a g) 0)
          = some (permuted ML g, permuted MO g) →
        permuted ML' (freeAxes (FuseP.fusedArrM a [g]).ndim [bondPos a g]) = permuted ML (freeAxes a.ndim g) →
        permuted MO' (freeAxes (FuseP.fusedArrM a [g]).ndim [bondPos a g]) = permuted MO (freeAxes a.ndim g) →
        Arr.blockShape? (permuted b.indices (freeAxes b.ndim xb)) Rs = some shpR → inBox shpR oR = true →
        Arr.blockShape? (FuseP.fusedArrM (cPlain a b xa xb) [resGroup a xa g]).indices ns2 = some shp2 →
        inBox shp2 i2 = true →
        decAx (cPlain a b xa xb) [resGroup a xa g] 0 (ns2.getD (resPos a xa g) (0, 0)) (i2.getD (resPos a xa g) 0)
          = some (permuted ML g, permuted MO g) →
        permuted ns2 (freeAxes (FuseP.fusedArrM (cPlain a b xa xb) [resGroup a xa g]).ndim [resPos a xa g])
          = permuted (permuted ML' (freeAxes (FuseP.fusedArrM a [g]).ndim (xa.map (shiftAxes a g))) ++ Rs)
              (freeAxes cf.ndim [resPos a xa g]) →
        permuted i2 (freeAxes (FuseP.fusedArrM (cPlain a b xa xb) [resGroup a xa g]).ndim [resPos a xa g])
          = permuted (permuted MO' (freeAxes (FuseP.fusedArrM a [g]).ndim (xa.map (shiftAxes a g))) ++ oR)
              (freeAxes cf.ndim [resPos a xa g]) →
        (permuted ML' (freeAxes (FuseP.fusedArrM a [g]).ndim (xa.map (shiftAxes a g))) ++ Rs).getD
            (resPos a xa g) (0, 0) = ML'.getD (bondPos a g) (0, 0)
        ∧ (permuted MO' (freeAxes (FuseP.fusedArrM a [g]).ndim (xa.map (shiftAxes a g))) ++ oR).getD
            (resPos a xa g) 0 = MO'.getD (bondPos a g) 0
        ∧ cf.elem (permuted ML' (freeAxes (FuseP.fusedArrM a [g]).ndim (xa.map (shiftAxes a g))) ++ Rs)
            (permuted MO' (freeAxes (FuseP.fusedArrM a [g]).ndim (xa.map (shiftAxes a g))) ++ oR)
          = (FuseP.fusedArrM (cPlain a b xa xb) [resGroup a xa g]).elem ns2 i2 := by
  have h : OneOk a g := ⟨hne, hnd, hlt⟩
  have hxaF : ∀ x ∈ xa, x < a.ndim ∧ x ∉ g := fun x hx => ⟨hA x hx, hdisj x hx⟩
  have hdisj' : ∀ x ∈ g, x ∉ xa := fun x hx hm => hdisj x hm hx
  have hlen : xa.length = xb.length := by
    unfold ValidP.oppositeDualsB at hopp
    simp only [Bool.and_eq_true, beq_iff_eq] at hopp
    exact hopp.1
  have hcn : (cPlain a b xa xb).ndim = (freeAxes a.ndim xa).length + (freeAxes b.ndim xb).length :=
    tensordotBlockwise_rank a b xa xb
  obtain ⟨hO', hpos⟩ := bondPos_map_idxOf (C := cPlain a b xa xb) (xa := xa) h hdisj' (by rw [hcn]; omega)
  have nF := one_ndim (R := R) h
  have hposE : bondPos (cPlain a b xa xb) (resGroup a xa g) = resPos a xa g := by
    unfold bondPos resGroup resPos
    rw [hpos, nF]
    exact (idxOf_pos_eq h hxaF).symm
  have hA' : ∀ x ∈ xa.map (shiftAxes a g), x < (FuseP.fusedArrM a [g]).ndim := by
    intro y hy
    obtain ⟨x, hx, rfl⟩ := List.mem_map.mp hy
    rw [nF]; exact shiftAxes_lt h (hxaF x hx)
  have hparse' := ValidP.parseAxes_nat (FuseP.fusedArrM a [g]).ndim b.ndim (xa.map (shiftAxes a g)) xb
    (by rw [List.length_map]; exact hlen) hA' hB
  obtain ⟨f1, _, f2, cfb, tb, hel⟩ := tensordot_fuse_group_commute hz1 hz2 a b xa xb g (resGroup a xa g) m m'
    ha hb hfa hfb hsym hopp hnA hnB hA hB hne hnd hlt hdisj hO'.ne hO'.nd hO'.lt
  rw [tensordotA_blockwise_ok _ _ _ _ _ hparse'] at tb
  obtain rfl := Except.ok.inj tb
  have hcfn : (tensordotBlockwise (FuseP.fusedArrM a [g]) b
      (freeAxes (FuseP.fusedArrM a [g]).ndim (xa.map (shiftAxes a g))) (xa.map (shiftAxes a g)) xb
      (freeAxes b.ndim xb)).ndim
      = (freeAxes (FuseP.fusedArrM a [g]).ndim (xa.map (shiftAxes a g))).length + (freeAxes b.ndim xb).length :=
    tensordotBlockwise_rank _ b _ xb
  refine ⟨⟨hO'.ne, hO'.nd, hO'.lt⟩, hposE, f1, f2, _, tensordotA_blockwise_ok _ _ _ _ _ hparse', ?_⟩
  intro ML' ML MO' MO shp' shpA Rs oR shpR ns2 i2 shp2 h1 h2 h3 h4 h5 h6 h7 h8 h9 k1 k2 k3 k4 k5
  have ebn : b.indices.length = b.ndim := rfl
  have eFn : (FuseP.fusedArrM a [g]).indices.length = FuseP.ndimM a [g] := nF
  have hMLl' : ML'.length = FuseP.ndimM a [g] := (blockShape?_length h1).1.trans eFn
  have hMOl' : MO'.length = FuseP.ndimM a [g] := by
    rw [inBox_length h2, (blockShape?_length h1).2]; exact eFn
  have hMLl : ML.length = a.ndim := (blockShape?_length h3).1
  have hMOl : MO.length = a.ndim := by rw [inBox_length h4, (blockShape?_length h3).2]; rfl
  have hRl : Rs.length = (freeAxes b.ndim xb).length := by
    rw [(blockShape?_length h8).1, permuted_length _ _ (by simpa [ebn] using mem_freeAxes_lt)]
  have hoRl : oR.length = (freeAxes b.ndim xb).length := by
    rw [inBox_length h9, (blockShape?_length h8).2, permuted_length _ _ (by simpa [ebn] using mem_freeAxes_lt)]
  have h6' := h6
  have h7' := h7
  rw [nF] at h6' h7'
  unfold bondPos at h6' h7'
  have L1 := layout_left ((0, 0) : Charge) h hxaF Rs hMLl' hMLl h6'
  have L2 := layout_left (0 : Nat) h hxaF oR hMOl' hMOl h7'
  have P1 := layout_left_pos ((0, 0) : Charge) h hxaF Rs hMLl'
  have P2 := layout_left_pos (0 : Nat) h hxaF oR hMOl'
  rw [hRl, ← hcn] at L1
  rw [hoRl, ← hcn] at L2
  rw [← nF] at L1 L2 P1 P2
  rw [← hcfn] at L1 L2
  refine ⟨P1, P2, ?_⟩
  refine (hel ML' ML MO' MO shp' shpA Rs oR shpR ns2 i2 shp2 h1 h2 h3 h4 h5 h6 h7 h8 h9 k1 k2 ?_ ?_ ?_).1
  · rw [hposE]
    show _ = some (permuted _ (resGroup a xa g), permuted _ (resGroup a xa g))
    unfold resGroup
    rw [result_group_part a.ndim xa g ML Rs hMLl hlt hdisj', result_group_part a.ndim xa g MO oR hMOl hlt hdisj']
    exact k3
  · rw [hposE]; exact k4.trans L1
  · rw [hposE]; exact k5.trans L2

/-- the legs of the contraction result that correspond to the group `g` of the RIGHT operand (offset
    by the number of the left operand's free legs) -/
def resGroupR (a b : Arr R) (xa xb g : List Nat) : List Nat :=
  g.map (fun x => (freeAxes a.ndim xa).length + (freeAxes b.ndim xb).idxOf x)

/-- where the fused leg sits in the contraction of `a` with the pre-fused right operand -/
def resPosR [Zero R] (a b : Arr R) (xa xb g : List Nat) : Nat :=
  (freeAxes a.ndim xa).length
    + (freeAxes (FuseP.fusedArrM b [g]).ndim (xb.map (shiftAxes b g))).idxOf (bondPos b g)

/-- **tensordot_fuse_group_commute_right_layout** (RIGHT operand's group, blockwise): mirror image of
    `tensordot_fuse_group_commute_layout`. -/
theorem tensordot_fuse_group_commute_right_layout [AddCommMonoid R] [Mul R] [Neg R]
    (hz1 : ∀ x : R, 0 * x = 0) (hz2 : ∀ x : R, x * 0 = 0) (a b : Arr R) (xa xb g : List Nat)
    (m m' : FuseMode)
    (ha : a.validB = true) (hb : b.validB = true) (hfa : a.fermi = false) (hfb : b.fermi = false)
    (hsym : a.sym = b.sym) (hc : ValidP.contractibleB a b xa xb = true)
    (hnA : xa.Nodup) (hnB : xb.Nodup) (hA : ∀ x ∈ xa, x < a.ndim) (hB : ∀ x ∈ xb, x < b.ndim)
    (hne : g ≠ []) (hnd : g.Nodup) (hlt : ∀ x ∈ g, x < b.ndim) (hdisj : ∀ x ∈ xb, x ∉ g) :
    (resGroupR a b xa xb g ≠ [] ∧ (resGroupR a b xa xb g).Nodup
      ∧ ∀ x ∈ resGroupR a b xa xb g, x < (cPlain a b xa xb).ndim)
    ∧ bondPos (cPlain a b xa xb) (resGroupR a b xa xb g) = resPosR a b xa xb g
    ∧ fuseA b [g] m false = .ok (FuseP.fusedArrM b [g])
    ∧ fuseA (cPlain a b xa xb) [resGroupR a b xa xb g] m' false
        = .ok (FuseP.fusedArrM (cPlain a b xa xb) [resGroupR a b xa xb g])
    ∧ ∃ cf, tensordotA a (FuseP.fusedArrM b [g])
          (.pair (xa.map Int.ofNat) ((xb.map (shiftAxes b g)).map Int.ofNat)) .blockwise = .ok cf
      ∧ ∀ (MR' MR : Sector) (MO' MO shp' shpB : List Nat) (Ls : Sector) (oL shpL : List Nat)
          (ns2 : Sector) (i2 shp2 : List Nat),
        Arr.blockShape? (FuseP.fusedArrM b [g]).indices MR' = some shp' → inBox shp' MO' = true →
        Arr.blockShape? b.indices MR = some shpB → inBox shpB MO = true →
        decAx b [g] 0 (MR'.getD (bondPos b g) (0, 0)) (MO'.getD (bondPos b g) 0)
          = some (permuted MR g, permuted MO g) →
        permuted MR' (freeAxes (FuseP.fusedArrM b [g]).ndim [bondPos b g]) = permuted MR (freeAxes b.ndim g) →
        permuted MO' (freeAxes (FuseP.fusedArrM b [g]).ndim [bondPos b g]) = permuted MO (freeAxes b.ndim g) →
        Arr.blockShape? (permuted a.indices (freeAxes a.ndim xa)) Ls = some shpL → inBox shpL oL = true →
        Arr.blockShape? (FuseP.fusedArrM (cPlain a b xa xb) [resGroupR a b xa xb g]).indices ns2 = some shp2 →
        inBox shp2 i2 = true →
        decAx (cPlain a b xa xb) [resGroupR a b xa xb g] 0 (ns2.getD (resPosR a b xa xb g) (0, 0))
            (i2.getD (resPosR a b xa xb g) 0)
          = some (permuted MR g, permuted MO g) →
        permuted ns2 (freeAxes (FuseP.fusedArrM (cPlain a b xa xb) [resGroupR a b xa xb g]).ndim
            [resPosR a b xa xb g])
          = permuted (Ls ++ permuted MR' (freeAxes (FuseP.fusedArrM b [g]).ndim (xb.map (shiftAxes b g))))
              (freeAxes cf.ndim [resPosR a b xa xb g]) →
        permuted i2 (freeAxes (FuseP.fusedArrM (cPlain a b xa xb) [resGroupR a b xa xb g]).ndim
            [resPosR a b xa xb g])
          = permuted (oL ++ permuted MO' (freeAxes (FuseP.fusedArrM b [g]).ndim (xb.map (shiftAxes b g))))
              (freeAxes cf.ndim [resPosR a b xa xb g]) →
        (Ls ++ permuted MR' (freeAxes (FuseP.fusedArrM b [g]).ndim (xb.map (shiftAxes b g)))).getD
            (resPosR a b xa xb g) (0, 0) = MR'.getD (bondPos b g) (0, 0)
        ∧ (oL ++ permuted MO' (freeAxes (FuseP.fusedArrM b [g]).ndim (xb.map (shiftAxes b g)))).getD
            (resPosR a b xa xb g) 0 = MO'.getD (bondPos b g) 0
        ∧ cf.elem (Ls ++ permuted MR' (freeAxes (FuseP.fusedArrM b [g]).ndim (xb.map (shiftAxes b g))))
            (oL ++ permuted MO' (freeAxes (FuseP.fusedArrM b [g]).ndim (xb.map (shiftAxes b g))))
          = (FuseP.fusedArrM (cPlain a b xa xb) [resGroupR a b xa xb g]).elem ns2 i2 := by
  have h : OneOk b g := ⟨hne, hnd, hlt⟩
  have hxbF : ∀ x ∈ xb, x < b.ndim ∧ x ∉ g := fun x hx => ⟨hB x hx, hdisj x hx⟩
  have hdisj' : ∀ x ∈ g, x ∉ xb := fun x hx hm => hdisj x hm hx
  have hlen : xa.length = xb.length := (cm_eq_of_contractibleB hc hA hB).1
  have hcn : (cPlain a b xa xb).ndim = (freeAxes a.ndim xa).length + (freeAxes b.ndim xb).length :=
    tensordotBlockwise_rank a b xa xb
  obtain ⟨hO', hpos⟩ := bondPos_map_idxOf_off (C := cPlain a b xa xb) (xa := xb) (freeAxes a.ndim xa).length
    h hdisj' (by rw [hcn])
  have nF := one_ndim (R := R) h
  have hposE : bondPos (cPlain a b xa xb) (resGroupR a b xa xb g) = resPosR a b xa xb g := by
    unfold bondPos resGroupR resPosR
    rw [hpos, nF]
    exact congrArg _ (idxOf_pos_eq h hxbF).symm
  have hB' : ∀ x ∈ xb.map (shiftAxes b g), x < (FuseP.fusedArrM b [g]).ndim := by
    intro y hy
    obtain ⟨x, hx, rfl⟩ := List.mem_map.mp hy
    rw [nF]; exact shiftAxes_lt h (hxbF x hx)
  have hparse' := ValidP.parseAxes_nat a.ndim (FuseP.fusedArrM b [g]).ndim xa (xb.map (shiftAxes b g))
    (by rw [List.length_map]; exact hlen) hA hB'
  obtain ⟨f1, _, f2, cfb, tb, hel⟩ := tensordot_fuse_group_commute_right hz1 hz2 a b xa xb g
    (resGroupR a b xa xb g) m m' ha hb hfa hfb hsym hc hnA hnB hA hB hne hnd hlt hdisj hO'.ne hO'.nd hO'.lt
  rw [tensordotA_blockwise_ok _ _ _ _ _ hparse'] at tb
  obtain rfl := Except.ok.inj tb
  have hcfn : (tensordotBlockwise a (FuseP.fusedArrM b [g]) (freeAxes a.ndim xa) xa (xb.map (shiftAxes b g))
      (freeAxes (FuseP.fusedArrM b [g]).ndim (xb.map (shiftAxes b g)))).ndim
      = (freeAxes a.ndim xa).length + (freeAxes (FuseP.fusedArrM b [g]).ndim (xb.map (shiftAxes b g))).length :=
    tensordotBlockwise_rank a _ xa _
  refine ⟨⟨hO'.ne, hO'.nd, hO'.lt⟩, hposE, f1, f2, _, tensordotA_blockwise_ok _ _ _ _ _ hparse', ?_⟩
  intro MR' MR MO' MO shp' shpB Ls oL shpL ns2 i2 shp2 h1 h2 h3 h4 h5 h6 h7 h8 h9 k1 k2 k3 k4 k5
  have ean : a.indices.length = a.ndim := rfl
  have eFn : (FuseP.fusedArrM b [g]).indices.length = FuseP.ndimM b [g] := nF
  have hMRl' : MR'.length = FuseP.ndimM b [g] := (blockShape?_length h1).1.trans eFn
  have hMOl' : MO'.length = FuseP.ndimM b [g] := by
    rw [inBox_length h2, (blockShape?_length h1).2]; exact eFn
  have hMRl : MR.length = b.ndim := (blockShape?_length h3).1
  have hMOl : MO.length = b.ndim := by rw [inBox_length h4, (blockShape?_length h3).2]; rfl
  have hLl : Ls.length = (freeAxes a.ndim xa).length := by
    rw [(blockShape?_length h8).1, permuted_length _ _ (by simpa [ean] using mem_freeAxes_lt)]
  have hoLl : oL.length = (freeAxes a.ndim xa).length := by
    rw [inBox_length h9, (blockShape?_length h8).2, permuted_length _ _ (by simpa [ean] using mem_freeAxes_lt)]
  have h6' := h6
  have h7' := h7
  rw [nF] at h6' h7'
  unfold bondPos at h6' h7'
  have L1 := layout_right ((0, 0) : Charge) h hxbF Ls hMRl' hMRl h6'
  have L2 := layout_right (0 : Nat) h hxbF oL hMOl' hMOl h7'
  have P1 := layout_right_pos ((0, 0) : Charge) h hxbF Ls hMRl'
  have P2 := layout_right_pos (0 : Nat) h hxbF oL hMOl'
  have G1 := result_group_part_right b.ndim xb g Ls MR hMRl hlt hdisj'
  have G2 := result_group_part_right b.ndim xb g oL MO hMOl hlt hdisj'
  rw [hLl, ← hcn] at L1
  rw [hoLl, ← hcn] at L2
  rw [hLl] at P1 G1
  rw [hoLl] at P2 G2
  rw [← nF] at L1 L2 P1 P2
  rw [← hcfn] at L1 L2
  refine ⟨P1, P2, ?_⟩
  refine (hel MR' MR MO' MO shp' shpB Ls oL shpL ns2 i2 shp2 h1 h2 h3 h4 h5 h6 h7 h8 h9 k1 k2 ?_ ?_ ?_).1
  · rw [hposE]
    show _ = some (permuted _ (resGroupR a b xa xb g), permuted _ (resGroupR a b xa xb g))
    unfold resGroupR
    rw [G1, G2]
    exact k3
  · rw [hposE]; exact k4.trans L1
  · rw [hposE]; exact k5.trans L2

/-! ### non-vacuity and sanity -/

-- `exA[i,j,k]` with `exG[k',m,n]` over `k` (axis 2 of `exA`, axis 0 of `exG`), result `c[i,j,m,n]`.
-- RIGHT: the group `g = [2, 1]` of free legs of `exG` (reversed order, behind the contracted axis): the
-- fused leg sits at position 1, the contracted axis stays at 0; the corresponding legs of `c` are
-- `g' = [3, 2]` (offset by the two free legs of `exA`).
-- LEFT: the group `g = [1, 0]` of `exA`: fused leg at 0, the contracted axis 2 moves to 1; `g' = [1, 0]`.
example : exA.validB = true ∧ exG.validB = true ∧ exA.fermi = false ∧ exG.fermi = false
    ∧ exA.sym = exG.sym ∧ ValidP.contractibleB exA exG [2] [0] = true
    ∧ ([2, 1] : List Nat).Nodup ∧ (∀ x ∈ ([2, 1] : List Nat), x < exG.ndim) ∧ (∀ x ∈ ([0] : List Nat), x ∉ ([2, 1] : List Nat))
    ∧ bondPos exG [2, 1] = 1 ∧ ([0] : List Nat).map (shiftAxes exG [2, 1]) = [0]
    ∧ ([2, 1] : List Nat).map (fun x => (freeAxes exA.ndim [2]).length + (freeAxes exG.ndim [0]).idxOf x) = [3, 2]
    ∧ (∀ x ∈ ([3, 2] : List Nat), x < (cPlain exA exG [2] [0]).ndim)
    ∧ (∀ x ∈ ([1, 0] : List Nat), x < exA.ndim) ∧ (∀ x ∈ ([2] : List Nat), x ∉ ([1, 0] : List Nat))
    ∧ bondPos exA [1, 0] = 0 ∧ ([2] : List Nat).map (shiftAxes exA [1, 0]) = [1]
    ∧ resGroup exA [2] [1, 0] = [1, 0] ∧ resPos exA [2] [1, 0] = 0
    ∧ resGroup lyA [2, 3] [0, 1] = [0, 1] ∧ resPos lyA [2, 3] [0, 1] = 0
    ∧ resGroupR exA exG [2] [0] [2, 1] = [3, 2] ∧ resPosR exA exG [2] [0] [2, 1] = 2
    ∧ (cPlain exA exG [2] [0]).blocks.length ≠ 0 := by decide +kernel

-- sanity: the two routes (right operand's group) store the same non-zero data, the contraction of
-- the pre-fused operand in every mode
example :
    (match fuseA exG [[2, 1]] .insert false, tensordotA exA exG (.pair [2] [0]) .blockwise with
     | .ok bf, .ok c =>
        match fuseA c [[3, 2]] .concat false with
        | .ok cq =>
          [TdotMode.blockwise, TdotMode.fused, TdotMode.auto].all (fun md =>
            match tensordotA exA bf (.pair [2] [0]) md with
            | .ok cf =>
              cf.blocks.all (fun p => (alookup cq.blocks p.1).map (·.data) == some p.2.data)
              && cq.blocks.all (fun p => (alookup cf.blocks p.1).map (·.data) == some p.2.data)
              && cf.blocks.length != 0
            | _ => false)
        | _ => false
     | _, _ => false) = true := by decide +kernel

-- the address hypotheses of `tensordot_fuse_group_commute_layout` at the entry `21` of the `lyA`, `lyB`
-- example: offset 1 on the fused leg of `cf`, offset 0 on the fused leg of `fuse(c, [g'])`, both
-- decoding to the sub-sector `(1, 0)`, offsets `(0, 0)`
example :
    let F := FuseP.fusedArrM lyA [[0, 1]]
    let c := cPlain lyA lyB [2, 3] [0, 1]
    let ML' : Sector := [(1, 0), (1, 0), (0, 0)]
    let MO' : List Nat := [1, 0, 0]
    let ML : Sector := [(1, 0), (0, 0), (1, 0), (0, 0)]
    let MO : List Nat := [0, 0, 0, 0]
    let ns2 : Sector := [(1, 0), (1, 0)]
    let i2 : List Nat := [0, 0]
    ValidP.oppositeDualsB lyA lyB [2, 3] [0, 1] = true
    ∧ Arr.blockShape? F.indices ML' = some [2, 1, 1] ∧ inBox [2, 1, 1] MO' = true
    ∧ Arr.blockShape? lyA.indices ML = some [1, 1, 1, 1] ∧ inBox [1, 1, 1, 1] MO = true
    ∧ decAx lyA [[0, 1]] 0 (ML'.getD (bondPos lyA [0, 1]) (0, 0)) (MO'.getD (bondPos lyA [0, 1]) 0)
        = some (permuted ML [0, 1], permuted MO [0, 1])
    ∧ permuted ML' (freeAxes F.ndim [bondPos lyA [0, 1]]) = permuted ML (freeAxes lyA.ndim [0, 1])
    ∧ permuted MO' (freeAxes F.ndim [bondPos lyA [0, 1]]) = permuted MO (freeAxes lyA.ndim [0, 1])
    ∧ Arr.blockShape? (permuted lyB.indices (freeAxes lyB.ndim [0, 1])) [(1, 0)] = some [1] ∧ inBox [1] [0] = true
    ∧ Arr.blockShape? (FuseP.fusedArrM c [[0, 1]]).indices ns2 = some [1, 1] ∧ inBox [1, 1] i2 = true
    ∧ decAx c [[0, 1]] 0 (ns2.getD 0 (0, 0)) (i2.getD 0 0) = some (permuted ML [0, 1], permuted MO [0, 1])
    ∧ permuted ns2 (freeAxes (FuseP.fusedArrM c [[0, 1]]).ndim [0])
        = permuted (permuted ML' (freeAxes F.ndim [1, 2]) ++ [(1, 0)]) (freeAxes 2 [0])
    ∧ permuted i2 (freeAxes (FuseP.fusedArrM c [[0, 1]]).ndim [0])
        = permuted (permuted MO' (freeAxes F.ndim [1, 2]) ++ [0]) (freeAxes 2 [0])
    ∧ (tensordotBlockwise F lyB (freeAxes F.ndim [1, 2]) [1, 2] [0, 1] (freeAxes lyB.ndim [0, 1])).elem
        (permuted ML' (freeAxes F.ndim [1, 2]) ++ [(1, 0)]) (permuted MO' (freeAxes F.ndim [1, 2]) ++ [0]) = 21
    ∧ (FuseP.fusedArrM c [[0, 1]]).elem ns2 i2 = 21 := by decide +kernel

end SymmModel.C06
