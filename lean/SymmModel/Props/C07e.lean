/-
  Property C07, fifth part — the exact round trip of `reshape` for forward plans with SEVERAL groups
  and SEVERAL fuse calls, abelian and fermionic.

  Setting: `a` valid, without fused axes.  The forward plan is `([], calls, [])` (no unfuse — a
  theorem for such `a`: `planner_no_unfuse` — and no expansion) and passes the decidable check
  `callsOkB calls 0 a.ndim`: every call fuses consecutive axes `P, P+1, …` in order (so the
  transposition of the fuse is the identity), every group has at least two axes (squeezed size-one
  axes are group members, as the planner represents them), and the calls go left to right, each
  starting at or after the end of the previous one.  Examples: (2,3,4,5)→(6,20) is one call with two
  groups, (2,3,7,4,5)→(6,7,20) two calls, (2,1,3,4,5)→(6,20) one call whose first group absorbs the
  size-one axis.
    `planner_back_plan_multi`     planner, way back, all shapes: ANY number of fused axes of any
                                  (also sparse) sizes; the plan unfuses them LEFT TO RIGHT.
    `reshape_back_plan`           … for arrays: `y.reshape(shape with fused axes expanded)`.
    `reshape_roundtrip_fermionic` / `reshape_roundtrip_abelian`
                                  `reshape` there, `reshape` back to `a.shape` succeeds and the
                                  result has EXACTLY the value view of `a` (`FuseP.VEq`: same
                                  symmetry, kind, indices, charge, odd-position labels, and equal
                                  values at every sector and offset, pending signs multiplied in),
                                  and is valid.  (The result stores the same sectors in another dict
                                  order plus zero blocks, so block-level equality is not claimed.)
    `applyPlan_roundtrip_*`       the same for the plan itself.
  Proof (Proofs/Reshape5a–f.lean), generic in the unfuse step (`FuseP.StepOK`) and the fuse call
  (`Reshape5.FuseOK`, instantiated by `fuseF`/`unfuseF` and `fuseA`/`unfuseA`): invariant
  `Reshape5.Inv` along the calls — fused indices have plain sub-indices, expanding them gives
  `a.indices`, everything right of the last call is plain, and unfusing all fused axes right to left
  gives the value view of `a` (one call: `C05.unfuseGroupsF_fuseF_veq` / `unfuse_fuse_blocks`; earlier
  calls: `Reshape5.chain_veq`, a chain of unfuse steps respects `VEq`); the way back plans the
  left-to-right chain (`planner_back_plan_multi`), which has the same value view
  (`FuseP.l2r_r2l`, i.e. `C05.unfuse_order_irrelevantF/A`).
  How reshape-fused-window-match is excluded: as in C07d, `a` has no fused axes (`hnf`); on the way
  back every axis with sub-sizes is one the forward plan fused and its window is the intended one.

  THE PLAN FROM THE SHAPES (Proofs/Reshape5g.lean): `planner_forward_plan_runs` — the shape is a
  concatenation of runs, the target has one axis per run (its product), merged runs have all sizes
  ≥ 2 (`RunOk`): the planner returns `([], callsR runs 0 [], [])`, explicitly (adjacent merged runs
  in one call).  Hence `reshape_roundtrip_fermionic_runs` / `_abelian_runs`: NO hypothesis about what
  the planner returns, only the decidable check `callsOkB (callsR runs 0 []) 0 ndim` on the runs.
  Not covered by the `_runs` theorems (use the plan-hypothesis forms above): runs containing
  size-one axes (squeezes), where the scan of the first loop and the squeeze phase interact.
-/
import SymmModel.Proofs.Reshape5g
import SymmModel.Props.C07d

namespace SymmModel.C07
open SymmModel SymmModel.Reshape SymmModel.Reshape5 ReshapeP FuseP

variable {R : Type}

/-! ## the plan of the way back -/

/-- **planner, way back, any number of fused axes (all shapes).**  `st`: the old shape as a symbolic
    shape — kept axes `(d, none)`, fused axes `(D, some subs)` with `subs ≠ []`; target: every fused
    axis replaced by its sub-sizes.  The plan unfuses the fused axes left to right. -/
theorem planner_back_plan_multi (st : SymShape) (hok : FusedOk st) :
    calcReshapeArgs (SymShape.sizes st) (tgt st) (SymShape.subs st) = .ok (backAxes st 0, [], []) :=
  back_plan_multi st hok

example : calcReshapeArgs [6, 7, 10] [2, 3, 7, 4, 5] [some [2, 3], none, some [4, 5]] = .ok ([0, 3], [], []) :=
  planner_back_plan_multi [(6, some [2, 3]), (7, none), (10, some [4, 5])] (by
    intro e he subs hs
    simp only [List.mem_cons, List.not_mem_nil, or_false] at he
    rcases he with rfl | rfl | rfl <;> simp at hs <;> subst hs <;> simp)

/-- … for arrays: fused indices with at least one sub-index each; the target is the shape of the
    index list with every fused index replaced by its sub-indices -/
theorem reshape_back_plan (y : Arr R) (hd : Dep1 y.indices) :
    calcReshapeArgs y.shape ((expand1 y.indices).map Index.sizeTotal) y.subsizes
      = .ok (l2rAxes (fusedPL y.indices 0) 0, [], []) :=
  back_plan_arr_multi y hd

/-- without fused axes the planner never unfuses -/
theorem planner_no_unfuse (shape newshape : List Nat) (t : List Nat × List (List (List Nat)) × List Nat)
    (h : calcReshapeArgs shape newshape (nones shape) = .ok t) : t.1 = [] :=
  Reshape5.planner_no_unfuse shape newshape t h

/-! ## there and back -/

variable [Zero R] [Neg R] [Lazy.LawfulNeg R]

/-- **fermionic round trip of a plan with several groups / several fuse calls** -/
theorem applyPlan_roundtrip_fermionic (a : Arr R) (hv : a.validB = true) (hf : a.fermi = true)
    (hnf : ∀ ix ∈ a.indices, ix.sub = none) (calls : List (List (List Nat)))
    (hc : callsOkB calls 0 a.ndim = true) :
    ∃ y z, applyPlan a ([], calls, []) = .ok y ∧ reshapeArr y (a.shape.map Int.ofNat) = .ok z
      ∧ z.validB = true ∧ z.fermi = true ∧ VEq z a :=
  roundtrip_calls_F a hv hf hnf calls hc

/-- **abelian round trip of a plan with several groups / several fuse calls** -/
theorem applyPlan_roundtrip_abelian (a : Arr R) (hv : a.validB = true) (hf : a.fermi = false)
    (hnf : ∀ ix ∈ a.indices, ix.sub = none) (calls : List (List (List Nat)))
    (hc : callsOkB calls 0 a.ndim = true) :
    ∃ y z, applyPlan a ([], calls, []) = .ok y ∧ reshapeArr y (a.shape.map Int.ofNat) = .ok z
      ∧ z.validB = true ∧ z.fermi = false ∧ VEq z a :=
  roundtrip_calls_A a hv hf hnf calls hc

/-- **`reshape` there and back, fermionic**: the plan the planner returns has no expansion and its
    fuse calls pass `callsOkB` (that it has no unfuse step is `planner_no_unfuse`) -/
theorem reshape_roundtrip_fermionic (a y : Arr R) (ns full : List Int) (nsN : List Nat)
    (t : List Nat × List (List (List Nat)) × List Nat)
    (hv : a.validB = true) (hf : a.fermi = true) (hnf : ∀ ix ∈ a.indices, ix.sub = none)
    (h1 : findFullReshape ns a.size = .ok full)
    (h2 : full.mapM (fun (d : Int) => if d < 0 then (throw Err.notimpl : Except Err Nat) else pure d.toNat)
      = .ok nsN)
    (h3 : calcReshapeArgs a.shape nsN a.subsizes = .ok t)
    (hexp : t.2.2 = []) (hc : callsOkB t.2.1 0 a.ndim = true) (hy : reshapeArr a ns = .ok y) :
    ∃ z, reshapeArr y (a.shape.map Int.ofNat) = .ok z ∧ z.validB = true ∧ z.fermi = true ∧ VEq z a := by
  have hu : t.1 = [] := by
    rw [subsizes_nones a hnf] at h3; exact Reshape5.planner_no_unfuse _ _ t h3
  have ht : t = ([], t.2.1, []) := by
    obtain ⟨t1, t2, t3⟩ := t
    simp only at hu hexp; subst hu; subst hexp; rfl
  rw [reshapeArr_eq a ns full nsN t h1 h2 h3, ht] at hy
  obtain ⟨y', z, hy', hz, g1, g2, g3⟩ := roundtrip_calls_F a hv hf hnf t.2.1 hc
  rw [hy] at hy'; injection hy' with hy'; subst hy'
  exact ⟨z, hz, g1, g2, g3⟩

/-- **`reshape` there and back, abelian** -/
theorem reshape_roundtrip_abelian (a y : Arr R) (ns full : List Int) (nsN : List Nat)
    (t : List Nat × List (List (List Nat)) × List Nat)
    (hv : a.validB = true) (hf : a.fermi = false) (hnf : ∀ ix ∈ a.indices, ix.sub = none)
    (h1 : findFullReshape ns a.size = .ok full)
    (h2 : full.mapM (fun (d : Int) => if d < 0 then (throw Err.notimpl : Except Err Nat) else pure d.toNat)
      = .ok nsN)
    (h3 : calcReshapeArgs a.shape nsN a.subsizes = .ok t)
    (hexp : t.2.2 = []) (hc : callsOkB t.2.1 0 a.ndim = true) (hy : reshapeArr a ns = .ok y) :
    ∃ z, reshapeArr y (a.shape.map Int.ofNat) = .ok z ∧ z.validB = true ∧ z.fermi = false ∧ VEq z a := by
  have hu : t.1 = [] := by
    rw [subsizes_nones a hnf] at h3; exact Reshape5.planner_no_unfuse _ _ t h3
  have ht : t = ([], t.2.1, []) := by
    obtain ⟨t1, t2, t3⟩ := t
    simp only at hu hexp; subst hu; subst hexp; rfl
  rw [reshapeArr_eq a ns full nsN t h1 h2 h3, ht] at hy
  obtain ⟨y', z, hy', hz, g1, g2, g3⟩ := roundtrip_calls_A a hv hf hnf t.2.1 hc
  rw [hy] at hy'; injection hy' with hy'; subst hy'
  exact ⟨z, hz, g1, g2, g3⟩

/-! ## the forward plan from the shapes -/

omit [Zero R] [Neg R] [Lazy.LawfulNeg R] in
/-- **planner, forward, from the shapes alone**: `shape = runs.flatten`, one target axis per run -/
theorem planner_forward_plan_runs (runs : List (List Nat)) (hok : ∀ r ∈ runs, RunOk r) :
    calcReshapeArgs runs.flatten (runs.map prod) (nones runs.flatten) = .ok ([], callsR runs 0 [], []) :=
  planner_runs runs hok

example : calcReshapeArgs [2, 3, 7, 4, 5, 11, 6] [6, 7, 20, 11, 6] (nones [2, 3, 7, 4, 5, 11, 6])
    = .ok ([], [[[0, 1]], [[2, 3]]], []) :=
  planner_forward_plan_runs [[2, 3], [7], [4, 5], [11], [6]] (by decide)

/-- **`reshape` there and back, fermionic, hypotheses on the shapes only** -/
theorem reshape_roundtrip_fermionic_runs (a y : Arr R) (runs : List (List Nat))
    (hv : a.validB = true) (hf : a.fermi = true) (hnf : ∀ ix ∈ a.indices, ix.sub = none)
    (hshape : a.shape = runs.flatten) (hok : ∀ r ∈ runs, RunOk r)
    (hc : callsOkB (callsR runs 0 []) 0 a.ndim = true)
    (hy : reshapeArr a ((runs.map prod).map Int.ofNat) = .ok y) :
    ∃ z, reshapeArr y (a.shape.map Int.ofNat) = .ok z ∧ z.validB = true ∧ z.fermi = true ∧ VEq z a :=
  reshape_roundtrip_fermionic a y _ _ (runs.map prod) _ hv hf hnf
    (findFullReshape_nat _ _) (mapM_toNat _)
    (by rw [subsizes_nones a hnf, hshape]; exact planner_runs runs hok) rfl hc hy

/-- **`reshape` there and back, abelian, hypotheses on the shapes only** -/
theorem reshape_roundtrip_abelian_runs (a y : Arr R) (runs : List (List Nat))
    (hv : a.validB = true) (hf : a.fermi = false) (hnf : ∀ ix ∈ a.indices, ix.sub = none)
    (hshape : a.shape = runs.flatten) (hok : ∀ r ∈ runs, RunOk r)
    (hc : callsOkB (callsR runs 0 []) 0 a.ndim = true)
    (hy : reshapeArr a ((runs.map prod).map Int.ofNat) = .ok y) :
    ∃ z, reshapeArr y (a.shape.map Int.ofNat) = .ok z ∧ z.validB = true ∧ z.fermi = false ∧ VEq z a :=
  reshape_roundtrip_abelian a y _ _ (runs.map prod) _ hv hf hnf
    (findFullReshape_nat _ _) (mapM_toNat _)
    (by rw [subsizes_nones a hnf, hshape]; exact planner_runs runs hok) rfl hc hy

/-! ### examples -/

section Examples
open C05

-- plans of the targets named in the task, and their checks
example : calcReshapeArgs [2, 3, 4, 5] [6, 20] (nones [2, 3, 4, 5]) = .ok ([], [[[0, 1], [2, 3]]], [])
    ∧ callsOkB [[[0, 1], [2, 3]]] 0 4 = true := by decide
example : calcReshapeArgs [2, 3, 7, 4, 5] [6, 7, 20] (nones [2, 3, 7, 4, 5]) = .ok ([], [[[0, 1]], [[2, 3]]], [])
    ∧ callsOkB [[[0, 1]], [[2, 3]]] 0 5 = true := by decide
example : calcReshapeArgs [2, 1, 3, 4, 5] [6, 20] (nones [2, 1, 3, 4, 5]) = .ok ([], [[[0, 1, 2], [3, 4]]], [])
    ∧ callsOkB [[[0, 1, 2], [3, 4]]] 0 5 = true := by decide
-- a plan that nests (fuses an already fused axis) is rejected
example : callsOkB [[[0, 1]], [[0, 1]]] 0 4 = false := by decide

-- the rank-4 fermionic example with a pending sign, (2,2,2,2) → (4,4) → back: two fused axes
example : exG.validB = true ∧ exG.fermi = true ∧ exG.shape = [2, 2, 2, 2] ∧ exG.phases ≠ []
    ∧ calcReshapeArgs exG.shape [4, 4] exG.subsizes = .ok ([], [[[0, 1], [2, 3]]], []) := by decide +kernel
example := reshape_roundtrip_fermionic (R := Int) exG _ [4, 4] [4, 4] [4, 4] _ (by decide) rfl (by decide)
  rfl rfl rfl rfl (by decide) rfl
example := reshape_roundtrip_abelian (R := Int) exB _ [4, -1] [4, 4] [4, 4] _ (by decide) rfl (by decide)
  rfl rfl rfl rfl (by decide) rfl
example : valView (do let x ← reshapeArr exG [4, 4]; reshapeArr x [2, 2, 2, 2]) ≠ none := by decide +kernel
example := reshape_roundtrip_fermionic_runs (R := Int) exG _ [[2, 2], [2, 2]] (by decide) rfl (by decide)
  rfl (by decide) (by decide) rfl
example := reshape_roundtrip_abelian_runs (R := Int) exB _ [[2, 2], [2], [2]] (by decide) rfl (by decide)
  rfl (by decide) (by decide) rfl

end Examples

end SymmModel.C07
