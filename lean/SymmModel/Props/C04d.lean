/-
  Property C04 (route independence, clause S7 — associativity, FULL statement: chains AND
  triangles) for the MODEL's `Arr.tensordotF` (Model/Fermi.lean), `mode = blockwise`, valid
  fermionic operands of any rank, symmetry, sparsity, charge parity, pending signs, legs in ANY
  position (no canonical pre-transposition assumed), scalars as in C04c (`AddCommMonoid`,
  `SignRing`, `AssocP.AssocLaws`; instances `Int`, `GRat`).

  Three operands with bonds `A–B` (`xa1 ~ xb1`), `B–C` (`xb2 ~ xc2`) and `A–C` (`xa3 ~ xc3`, may be
  empty: then this is C04c's chain).  Route 1: `AB = A·B` on `(xa1, xb1)`, then `AB·C` on
  `(axesAB …, xc3 ++ xc2)`; route 2: `BC = B·C` on `(xb2, xc2)`, then `A·BC` on
  `(xa1 ++ xa3, axesBC …)`.  By S4 (`C04.tdotF_axes_perm`) the listing order of the pairs in the
  second calls is immaterial.

  Vocabulary (Proofs/Assoc2*.lean, namespace `SymmModel.Assoc2P`):
    `axesAB nA nB xa1 xa3 xb1 xb2`  images in `A·B` of `A`'s legs `xa3`, then of `B`'s legs `xb2`
    `axesBC nB nC xb1 xb2 xc2 xc3`  images in `B·C` of `B`'s legs `xb1`, then of `C`'s legs `xc3`
    `IsTriple …  s t`   `t = (sa,sb,sc)` stored sectors aligned on all three bonds, free parts `s`
    `FreeAddr … LA LM LC oA oM oC`  an address of the result in terms of the operands' tables
    `S3`, `W3`          sign and plain value of a triple in the three-operand graded contraction;
                        `S3` contains the cross term `(-1)^(#odd A–C charges · #odd free charges of B)`
    `LabelRoutes pa pb la lb lc`    the two label routes (`C04.oddpos_assoc`'s four merges) succeed
                        with the same final list and the same total sign;
    `labelRoutesB`      the same as a Boolean (`labelRoutes_iff`): decidable for concrete labels.

  PROVED (no `_partial`):
    `tdotF_assoc`          S7 in full for pairwise-distinct labels (the scope of C04);
    `tdotF_assoc_labels`   S7 for ANY labels satisfying `LabelRoutes`;
    `tdotF_assoc_at`       for given results (any labels with `LabelRoutes`): equal at every
                           key/offset inside the stored block, and `c2.toDenseF = c1.toDenseF`;
    `tdotF_assoc_GRat`     with the driver's instances.
  LABELS WITH CONJUGATE PAIRS — the requested generalisation ("each label at most once per
  operand, at most twice overall, then as a conjugate pair") is FALSE for the labels clause:
  `conjugate_pairs_labels_route_dependent`: `la = [3†]`, `lb = [3]`, `lc = [2]` give the final
  labels `[2]` on route 1 and `[3†, 2, 3]` on route 2 (a conjugate pair only annihilates when the
  scan makes it adjacent; the two lists denote the same operator product, `conjugate_pairs_same_
  value`, but are different data).  What IS true and proved: S7 holds whenever `LabelRoutes` holds
  (`tdotF_assoc_labels`), which is a decidable check on the three label lists and two parities;
  for the label pattern of the norm network `ā·b̄·a·b` with one ket label per tensor it holds
  (`labelRoutes_norm_one`, all cases and both label orders): with `A := K̄ = ā·b̄`, `B := a`,
  `C := b` (a triangle: `K̄–a` on `a`'s dangling legs, `a–b` the bond, `K̄–b` on `b`'s dangling legs)
  `tdotF_assoc_labels` then gives `(K̄·a)·b = K̄·(a·b)`, and `K̄·(a·b) = normSq K` is C10c's
  `network_norm_halves_partial`.
  NOT proved: that corollary as ONE statement about `normSq` (left to do: identify
  `xa1 ++ xa3 = range K.ndim` and `axesBC … = range K.ndim` for these operands, and `K̄`'s validity
  from `C10.conj_tensordot`); `LabelRoutes` for networks where every label is paired and lists are
  longer than one (general theory of the scan with non-adjacent conjugate pairs); four-tensor chains
  `A·B·C·D` (needs S7 with the WEAK guard also on the first-level calls, because an intermediate
  result has pruned tables: replace `Adm` by `AdmW` throughout and re-prove
  `ValidP.tensordotF_blockwise_valid` under `oppositeDualsB`); `mode = fused`.
-/
import SymmModel.Proofs.Assoc2Main
import SymmModel.Props.C04c

namespace SymmModel.C04
open SymmModel SymmModel.GradedP SymmModel.TdotP SymmModel.RoutesP SymmModel.AssocP
open SymmModel.Lazy (sgnI)

variable {R : Type}

/-! ## labels -/

/-- Boolean form of `LabelRoutes` -/
def labelRoutesB (pa pb : Bool) (la lb lc : List (Int × Bool)) : Bool :=
  match OddposP.mergeOddpos pa la lb, OddposP.mergeOddpos pb lb lc with
  | .ok (lab, sab), .ok (lbc, sbc) =>
    (match OddposP.mergeOddpos (xor pa pb) lab lc, OddposP.mergeOddpos pa la lbc with
     | .ok (o1, s1), .ok (o2, s2) =>
       o1 == o2 && sab * s1 == sbc * s2 && (sab == 1 || sab == -1) && (s1 == 1 || s1 == -1)
         && (sbc == 1 || sbc == -1) && (s2 == 1 || s2 == -1)
     | _, _ => false)
  | _, _ => false

theorem labelRoutes_iff (pa pb : Bool) (la lb lc : List (Int × Bool)) :
    Assoc2P.LabelRoutes pa pb la lb lc ↔ labelRoutesB pa pb la lb lc = true := by
  unfold Assoc2P.LabelRoutes labelRoutesB
  constructor
  · rintro ⟨lab, sab, lbc, sbc, out, s1, s2, m1, m2, m3, m4, hs, q1, q2, q3, q4⟩
    rw [m1, m3]
    simp only [m2, m4]
    simp only [Bool.and_eq_true, Bool.or_eq_true, beq_iff_eq]
    exact ⟨⟨⟨⟨⟨trivial, hs⟩, q1⟩, q2⟩, q3⟩, q4⟩
  · intro h
    cases m1 : OddposP.mergeOddpos pa la lb with
    | error e => simp [m1] at h
    | ok r1 =>
      cases m3 : OddposP.mergeOddpos pb lb lc with
      | error e => simp [m1, m3] at h
      | ok r3 =>
        obtain ⟨lab, sab⟩ := r1
        obtain ⟨lbc, sbc⟩ := r3
        simp only [m1, m3] at h
        cases m2 : OddposP.mergeOddpos (xor pa pb) lab lc with
        | error e => simp [m2] at h
        | ok r2 =>
          cases m4 : OddposP.mergeOddpos pa la lbc with
          | error e => simp [m2, m4] at h
          | ok r4 =>
            obtain ⟨o1, s1⟩ := r2
            obtain ⟨o2, s2⟩ := r4
            simp only [m2, m4, Bool.and_eq_true, Bool.or_eq_true, beq_iff_eq] at h
            obtain ⟨⟨⟨⟨⟨rfl, hs⟩, q1⟩, q2⟩, q3⟩, q4⟩ := h
            exact ⟨lab, sab, lbc, sbc, o1, s1, s2, rfl, m2, rfl, m4, hs, q1, q2, q3, q4⟩

/-- pairwise-distinct labels (the scope of C04) satisfy `LabelRoutes` -/
theorem labelRoutes_of_distinct (pa pb : Bool) (la lb lc : List (Int × Bool))
    (hd : (la ++ lb ++ lc).Pairwise (fun x y => x.1 ≠ y.1)) : Assoc2P.LabelRoutes pa pb la lb lc :=
  Assoc2P.labelRoutes_of_distinct pa pb la lb lc hd

/-- **conjugate pairs: the remaining labels DO depend on the route.**  `[3†]`, `[3]`, `[2]`:
    route `(A·B)·C` annihilates the pair at once and ends with `[2]`; on route `A·(B·C)` the pair
    is separated by `2` in the sorted list and stays: `[3†, 2, 3]`. -/
theorem conjugate_pairs_labels_route_dependent :
    OddposP.mergeOddpos true [(3, true)] [(3, false)] = .ok ([], -1)
    ∧ OddposP.mergeOddpos false [] [(2, false)] = .ok ([(2, false)], 1)
    ∧ OddposP.mergeOddpos true [(3, false)] [(2, false)] = .ok ([(2, false), (3, false)], 1)
    ∧ OddposP.mergeOddpos true [(3, true)] [(2, false), (3, false)]
        = .ok ([(3, true), (2, false), (3, false)], 1)
    ∧ labelRoutesB true true [(3, true)] [(3, false)] [(2, false)] = false := by decide

/-- … but the two lists denote the same value: contracting further with an operand carrying `[2†]`
    both routes end without labels and with the same total sign (`-1·1·1 = 1·1·(-1)`) -/
theorem conjugate_pairs_same_value :
    OddposP.mergeOddpos true [(2, false)] [(2, true)] = .ok ([], 1)
    ∧ OddposP.mergeOddpos true [(3, true), (2, false), (3, false)] [(2, true)] = .ok ([], -1)
    ∧ (-1 : Int) * 1 * 1 = 1 * 1 * (-1) := by decide

set_option linter.unusedSimpArgs false in
/-- **the label pattern of the norm network with one ket label per tensor satisfies
    `LabelRoutes`.**  Operands `(K̄, a, b)` of the tensor-by-tensor route `(K̄·a)·b` vs `K̄·(a·b)`,
    `K = a·b`, `K̄` carrying the conjugated labels of `K` in reversed order; `a` carries no label or
    the ket label `x`, `b` none or `y ≠ x` (parities as validity forces them).  All four cases, both
    orders of `x`, `y`. -/
theorem labelRoutes_norm_one (x y : Int) (hxy : x ≠ y) :
    labelRoutesB false false [] [] [] = true
    ∧ labelRoutesB true true [(x, true)] [(x, false)] [] = true
    ∧ labelRoutesB true false [(y, true)] [] [(y, false)] = true
    ∧ labelRoutesB false true (if x < y then [(y, true), (x, true)] else [(x, true), (y, true)])
        [(x, false)] [(y, false)] = true := by
  refine ⟨by decide, ?_, ?_, ?_⟩
  · simp [labelRoutesB, OddposP.mergeOddpos, resolveScan, oddLt, pure, Except.pure]
  · simp [labelRoutesB, OddposP.mergeOddpos, resolveScan, oddLt, pure, Except.pure]
  · have h1 : ¬ y = x := fun e => hxy e.symm
    have h2 : ¬ x = y := hxy
    by_cases h : x < y
    · have h3 : ¬ y < x := by omega
      simp [labelRoutesB, OddposP.mergeOddpos, resolveScan, oddLt, pure, Except.pure, h1, h2, h, h3]
    · have h3 : y < x := by omega
      simp [labelRoutesB, OddposP.mergeOddpos, resolveScan, oddLt, pure, Except.pure, h1, h2, h, h3]

/-- the conjugated label list of `K = a·b` in the fourth case above is what the model computes -/
example : Arr.oddposDag [((1 : Int), false), (3, false)] = [(3, true), (1, true)]
    ∧ OddposP.mergeOddpos true [(1, false)] [(3, false)] = .ok ([(1, false), (3, false)], -1) := by
  decide

/-! ## S7 in full -/

/-- **S7 tdotF_assoc_labels.**  Three valid fermionic operands, bonds `A–B`, `B–C` contractible
    (`tdotAdmissibleB`), bond `A–C` contractible (`contractibleB`, may be empty), the three bonds
    of each operand pairwise disjoint and in range, labels satisfying `LabelRoutes`.  Then all four
    calls succeed and `c1 = (A·B)·C`, `c2 = A·(B·C)` have the same labels, charge, symmetry, kind,
    sector set (the free parts of the stored aligned sector triples), index tables (the un-pruned
    frame of the free legs of `A`, `B`, `C` pruned to the final sectors) and the same value at
    every address. -/
theorem tdotF_assoc_labels [AddCommMonoid R] [Mul R] [Neg R] [SignRing R] [AssocLaws R]
    (A B C : Arr R) (xa1 xa3 xb1 xb2 xc2 xc3 : List Nat)
    (hA : A.validB = true) (hB : B.validB = true) (hC : C.validB = true)
    (hfA : A.fermi = true) (hfB : B.fermi = true) (hfC : C.fermi = true)
    (h1 : ValidP.tdotAdmissibleB A B xa1 xb1 = true) (h2 : ValidP.tdotAdmissibleB B C xb2 xc2 = true)
    (h3 : ValidP.contractibleB A C xa3 xc3 = true)
    (hnA : (xa1 ++ xa3).Nodup) (hnB : (xb1 ++ xb2).Nodup) (hnC : (xc2 ++ xc3).Nodup)
    (hltA : ∀ i ∈ xa3, i < A.ndim) (hltC : ∀ i ∈ xc3, i < C.ndim)
    (hL : Assoc2P.LabelRoutes A.parity B.parity A.oddpos B.oddpos C.oddpos) :
    ∃ AB BC c1 c2 : Arr R,
      A.tensordotF B (.pair (xa1.map Int.ofNat) (xb1.map Int.ofNat)) .blockwise = .ok AB
      ∧ AB.tensordotF C (.pair ((Assoc2P.axesAB A.ndim B.ndim xa1 xa3 xb1 xb2).map Int.ofNat)
          ((xc3 ++ xc2).map Int.ofNat)) .blockwise = .ok c1
      ∧ B.tensordotF C (.pair (xb2.map Int.ofNat) (xc2.map Int.ofNat)) .blockwise = .ok BC
      ∧ A.tensordotF BC (.pair ((xa1 ++ xa3).map Int.ofNat)
          ((Assoc2P.axesBC B.ndim C.ndim xb1 xb2 xc2 xc3).map Int.ofNat)) .blockwise = .ok c2
      ∧ c2.oddpos = c1.oddpos ∧ c2.charge = c1.charge ∧ c2.sym = c1.sym ∧ c2.fermi = c1.fermi
      ∧ (∀ s, s ∈ c1.sectors ↔ ∃ t, Assoc2P.IsTriple A B C xa1 xa3 xb1 xb2 xc2 xc3 s t)
      ∧ (∀ s, s ∈ c2.sectors ↔ s ∈ c1.sectors)
      ∧ c2.indices = c1.indices
      ∧ c1.indices = dropUnused (permuted A.indices (freeAxes A.ndim (xa1 ++ xa3))
          ++ (permuted B.indices (freeAxes B.ndim (xb1 ++ xb2))
            ++ permuted C.indices (freeAxes C.ndim (xc2 ++ xc3)))) c1.sectors
      ∧ ∀ (LA LM LC : Sector) (oA oM oC : List Nat),
          Assoc2P.FreeAddr A B C xa1 xa3 xb1 xb2 xc2 xc3 LA LM LC oA oM oC →
          c2.elem (LA ++ LM ++ LC) (oA ++ oM ++ oC) = c1.elem (LA ++ LM ++ LC) (oA ++ oM ++ oC) :=
  Assoc2P.tdotF_assoc_tri A B C xa1 xa3 xb1 xb2 xc2 xc3 hA hB hC hfA hfB hfC h1 h2 h3 hnA hnB hnC
    hltA hltC hL

/-- **S7 tdotF_assoc** — the full statement for pairwise-distinct labels -/
theorem tdotF_assoc [AddCommMonoid R] [Mul R] [Neg R] [SignRing R] [AssocLaws R]
    (A B C : Arr R) (xa1 xa3 xb1 xb2 xc2 xc3 : List Nat)
    (hA : A.validB = true) (hB : B.validB = true) (hC : C.validB = true)
    (hfA : A.fermi = true) (hfB : B.fermi = true) (hfC : C.fermi = true)
    (h1 : ValidP.tdotAdmissibleB A B xa1 xb1 = true) (h2 : ValidP.tdotAdmissibleB B C xb2 xc2 = true)
    (h3 : ValidP.contractibleB A C xa3 xc3 = true)
    (hnA : (xa1 ++ xa3).Nodup) (hnB : (xb1 ++ xb2).Nodup) (hnC : (xc2 ++ xc3).Nodup)
    (hltA : ∀ i ∈ xa3, i < A.ndim) (hltC : ∀ i ∈ xc3, i < C.ndim)
    (hd : (A.oddpos ++ B.oddpos ++ C.oddpos).Pairwise (fun x y => x.1 ≠ y.1)) :
    ∃ AB BC c1 c2 : Arr R,
      A.tensordotF B (.pair (xa1.map Int.ofNat) (xb1.map Int.ofNat)) .blockwise = .ok AB
      ∧ AB.tensordotF C (.pair ((Assoc2P.axesAB A.ndim B.ndim xa1 xa3 xb1 xb2).map Int.ofNat)
          ((xc3 ++ xc2).map Int.ofNat)) .blockwise = .ok c1
      ∧ B.tensordotF C (.pair (xb2.map Int.ofNat) (xc2.map Int.ofNat)) .blockwise = .ok BC
      ∧ A.tensordotF BC (.pair ((xa1 ++ xa3).map Int.ofNat)
          ((Assoc2P.axesBC B.ndim C.ndim xb1 xb2 xc2 xc3).map Int.ofNat)) .blockwise = .ok c2
      ∧ c2.oddpos = c1.oddpos ∧ c2.charge = c1.charge ∧ c2.sym = c1.sym ∧ c2.fermi = c1.fermi
      ∧ (∀ s, s ∈ c1.sectors ↔ ∃ t, Assoc2P.IsTriple A B C xa1 xa3 xb1 xb2 xc2 xc3 s t)
      ∧ (∀ s, s ∈ c2.sectors ↔ s ∈ c1.sectors)
      ∧ c2.indices = c1.indices
      ∧ c1.indices = dropUnused (permuted A.indices (freeAxes A.ndim (xa1 ++ xa3))
          ++ (permuted B.indices (freeAxes B.ndim (xb1 ++ xb2))
            ++ permuted C.indices (freeAxes C.ndim (xc2 ++ xc3)))) c1.sectors
      ∧ ∀ (LA LM LC : Sector) (oA oM oC : List Nat),
          Assoc2P.FreeAddr A B C xa1 xa3 xb1 xb2 xc2 xc3 LA LM LC oA oM oC →
          c2.elem (LA ++ LM ++ LC) (oA ++ oM ++ oC) = c1.elem (LA ++ LM ++ LC) (oA ++ oM ++ oC) :=
  tdotF_assoc_labels A B C xa1 xa3 xb1 xb2 xc2 xc3 hA hB hC hfA hfB hfC h1 h2 h3 hnA hnB hnC
    hltA hltC (labelRoutes_of_distinct _ _ _ _ _ hd)

/-- **S7, sector and dense form** for GIVEN results of the four calls: equal labels, charge, index
    tables, sector sets; equal values at every key and every offset inside the stored block
    (`0 = 0` at keys that are not sectors); equal `to_dense()`. -/
theorem tdotF_assoc_at [AddCommMonoid R] [Mul R] [Neg R] [SignRing R] [AssocLaws R]
    (A B C AB BC c1 c2 : Arr R) (xa1 xa3 xb1 xb2 xc2 xc3 : List Nat)
    (hA : A.validB = true) (hB : B.validB = true) (hC : C.validB = true)
    (hfA : A.fermi = true) (hfB : B.fermi = true) (hfC : C.fermi = true)
    (h1 : ValidP.tdotAdmissibleB A B xa1 xb1 = true) (h2 : ValidP.tdotAdmissibleB B C xb2 xc2 = true)
    (h3 : ValidP.contractibleB A C xa3 xc3 = true)
    (hnA : (xa1 ++ xa3).Nodup) (hnB : (xb1 ++ xb2).Nodup) (hnC : (xc2 ++ xc3).Nodup)
    (hltA : ∀ i ∈ xa3, i < A.ndim) (hltC : ∀ i ∈ xc3, i < C.ndim)
    (hL : Assoc2P.LabelRoutes A.parity B.parity A.oddpos B.oddpos C.oddpos)
    (e1 : A.tensordotF B (.pair (xa1.map Int.ofNat) (xb1.map Int.ofNat)) .blockwise = .ok AB)
    (e2 : AB.tensordotF C (.pair ((Assoc2P.axesAB A.ndim B.ndim xa1 xa3 xb1 xb2).map Int.ofNat)
        ((xc3 ++ xc2).map Int.ofNat)) .blockwise = .ok c1)
    (e3 : B.tensordotF C (.pair (xb2.map Int.ofNat) (xc2.map Int.ofNat)) .blockwise = .ok BC)
    (e4 : A.tensordotF BC (.pair ((xa1 ++ xa3).map Int.ofNat)
        ((Assoc2P.axesBC B.ndim C.ndim xb1 xb2 xc2 xc3).map Int.ofNat)) .blockwise = .ok c2) :
    c2.oddpos = c1.oddpos ∧ c2.charge = c1.charge ∧ c2.indices = c1.indices
      ∧ (∀ s, s ∈ c2.sectors ↔ s ∈ c1.sectors)
      ∧ (∀ (s : Sector) (o : List Nat),
          (s ∈ c1.sectors → inBox (Arr.blockShapeD c1.indices s) o = true) →
          c2.elem s o = c1.elem s o)
      ∧ c2.toDenseF = c1.toDenseF := by
  obtain ⟨AB', BC', c1', c2', d1, d2, d3, d4, r1, r2, _, _, r5, r6, r7, r8, r9⟩ :=
    Assoc2P.tdotF_assoc_tri A B C xa1 xa3 xb1 xb2 xc2 xc3 hA hB hC hfA hfB hfC h1 h2 h3 hnA hnB hnC
      hltA hltC hL
  rw [e1] at d1
  obtain rfl := Except.ok.inj d1
  rw [e3] at d3
  obtain rfl := Except.ok.inj d3
  rw [e2] at d2
  obtain rfl := Except.ok.inj d2
  rw [e4] at d4
  obtain rfl := Except.ok.inj d4
  have hel := Assoc2P.elem_eq_of_sector A B C c1 c2 xa1 xa3 xb1 xb2 xc2 xc3
    (Arr.shapesOk_of_validB hA) (Arr.shapesOk_of_validB hB) (Arr.shapesOk_of_validB hC) r8 r5 r6 r9
  refine ⟨r1, r2, r7, r6, hel, ?_⟩
  have hAB := adm_of_admissible hA hB hfA hfB h1
  have hBC := adm_of_admissible hB hC hfB hfC h2
  apply toDenseF_eq_of c1 c2 r7 ?_ hel
  intro ix hix
  rw [r8] at hix
  refine ValidP.sortedCharges_nodup (ValidP.wfB_cmOk (ValidP.dropUnused_wf (sym := A.sym) _ ?_ ix hix)).1
  intro i hi
  rcases List.mem_append.mp hi with h | h
  · exact ((ValidP.validB_iff A).mp hA).idx i (TdotP.mem_permuted h)
  · rcases List.mem_append.mp h with h | h
    · rw [hAB.sym]; exact ((ValidP.validB_iff B).mp hB).idx i (TdotP.mem_permuted h)
    · rw [hAB.sym, hBC.sym]; exact ((ValidP.validB_iff C).mp hC).idx i (TdotP.mem_permuted h)

/-- S7 in full with exactly the instances the driver is compiled with -/
theorem tdotF_assoc_GRat (A B C : Arr GRat) (xa1 xa3 xb1 xb2 xc2 xc3 : List Nat)
    (hA : A.validB = true) (hB : B.validB = true) (hC : C.validB = true)
    (hfA : A.fermi = true) (hfB : B.fermi = true) (hfC : C.fermi = true)
    (h1 : ValidP.tdotAdmissibleB A B xa1 xb1 = true) (h2 : ValidP.tdotAdmissibleB B C xb2 xc2 = true)
    (h3 : ValidP.contractibleB A C xa3 xc3 = true)
    (hnA : (xa1 ++ xa3).Nodup) (hnB : (xb1 ++ xb2).Nodup) (hnC : (xc2 ++ xc3).Nodup)
    (hltA : ∀ i ∈ xa3, i < A.ndim) (hltC : ∀ i ∈ xc3, i < C.ndim)
    (hL : labelRoutesB A.parity B.parity A.oddpos B.oddpos C.oddpos = true) :
    ∃ AB BC c1 c2 : Arr GRat,
      @Arr.tensordotF GRat GRat.instZero GRat.instAdd GRat.instMul GRat.instNeg A B
          (.pair (xa1.map Int.ofNat) (xb1.map Int.ofNat)) .blockwise = .ok AB
      ∧ @Arr.tensordotF GRat GRat.instZero GRat.instAdd GRat.instMul GRat.instNeg AB C
          (.pair ((Assoc2P.axesAB A.ndim B.ndim xa1 xa3 xb1 xb2).map Int.ofNat)
            ((xc3 ++ xc2).map Int.ofNat)) .blockwise = .ok c1
      ∧ @Arr.tensordotF GRat GRat.instZero GRat.instAdd GRat.instMul GRat.instNeg B C
          (.pair (xb2.map Int.ofNat) (xc2.map Int.ofNat)) .blockwise = .ok BC
      ∧ @Arr.tensordotF GRat GRat.instZero GRat.instAdd GRat.instMul GRat.instNeg A BC
          (.pair ((xa1 ++ xa3).map Int.ofNat)
            ((Assoc2P.axesBC B.ndim C.ndim xb1 xb2 xc2 xc3).map Int.ofNat)) .blockwise = .ok c2
      ∧ c2.oddpos = c1.oddpos ∧ c2.charge = c1.charge
      ∧ (∀ s, s ∈ c2.sectors ↔ s ∈ c1.sectors) ∧ c2.indices = c1.indices
      ∧ ∀ (LA LM LC : Sector) (oA oM oC : List Nat),
          Assoc2P.FreeAddr A B C xa1 xa3 xb1 xb2 xc2 xc3 LA LM LC oA oM oC →
          @Arr.elem GRat GRat.instZero GRat.instNeg c2 (LA ++ LM ++ LC) (oA ++ oM ++ oC)
            = @Arr.elem GRat GRat.instZero GRat.instNeg c1 (LA ++ LM ++ LC) (oA ++ oM ++ oC) := by
  obtain ⟨AB, BC, c1, c2, e1, e2, e3, e4, e5, e6, _, _, _, e10, e12, _, e11⟩ :=
    @Assoc2P.tdotF_assoc_tri GRat C02.addCommMonoidGRat GRat.instMul GRat.instNeg C03.signRingGRat
      assocLawsGRat A B C xa1 xa3 xb1 xb2 xc2 xc3 hA hB hC hfA hfB hfC h1 h2 h3 hnA hnB hnC hltA hltC
      ((labelRoutes_iff _ _ _ _ _).mpr hL)
  exact ⟨AB, BC, c1, c2, e1, e2, e3, e4, e5, e6, e10, e12, e11⟩

/-! ## non-vacuity: an odd triangle

`C03.gA[i,k,l]`, `cB[l',k',j]` (C04c), `tC[j',i']`: bonds `l~l'`, `j~j'`, `i~i'`; all three odd,
pending signs, labels `1`, `3`, `5†`. -/

open SymmModel.C03 in
def tC : Arr Int :=
  { sym := .Z2, fermi := true, indices := [ixi false, ixi true], charge := (1, 0),
    blocks := [([(1,0),(0,0)], mkB [1,2] 3), ([(0,0),(1,0)], mkB [2,1] (-4))],
    phases := [([(0,0),(1,0)], -1)], oddpos := [(5, true)] }

open SymmModel.C03 in
example : gA.validB = true ∧ cB.validB = true ∧ tC.validB = true
    ∧ gA.fermi = true ∧ cB.fermi = true ∧ tC.fermi = true
    ∧ ValidP.tdotAdmissibleB gA cB [2] [0] = true ∧ ValidP.tdotAdmissibleB cB tC [2] [0] = true
    ∧ ValidP.contractibleB gA tC [0] [1] = true
    ∧ ([2] ++ [0] : List Nat).Nodup ∧ ([0] ++ [2] : List Nat).Nodup ∧ ([0] ++ [1] : List Nat).Nodup
    ∧ (∀ i ∈ [0], i < gA.ndim) ∧ (∀ i ∈ [1], i < tC.ndim)
    ∧ (gA.oddpos ++ cB.oddpos ++ tC.oddpos).Pairwise (fun x y => x.1 ≠ y.1)
    ∧ labelRoutesB gA.parity cB.parity gA.oddpos cB.oddpos tC.oddpos = true := by decide +kernel

open SymmModel.C03 in
def exBC2 : Arr Int := resOf (cB.tensordotF tC (.pair [2] [0]) .blockwise)

open SymmModel.C03 in
/-- the axes of the second calls and a sanity instance of the conclusion: both routes give the
    same labels, sectors `(k,k')` and values -/
example :
    Assoc2P.axesAB gA.ndim cB.ndim [2] [0] [0] [2] = [0, 3]
    ∧ Assoc2P.axesBC cB.ndim tC.ndim [0] [2] [0] [1] = [0, 2]
    ∧ labelsOf (exAB.tensordotF tC (.pair [0, 3] [1, 0]) .blockwise)
        = labelsOf (gA.tensordotF exBC2 (.pair [2, 0] [0, 2]) .blockwise)
    ∧ labelsOf (exAB.tensordotF tC (.pair [0, 3] [1, 0]) .blockwise) ≠ []
    ∧ sectorsOf (exAB.tensordotF tC (.pair [0, 3] [1, 0]) .blockwise)
        = sectorsOf (gA.tensordotF exBC2 (.pair [2, 0] [0, 2]) .blockwise)
    ∧ sectorsOf (exAB.tensordotF tC (.pair [0, 3] [1, 0]) .blockwise) ≠ some []
    ∧ elemOf (exAB.tensordotF tC (.pair [0, 3] [1, 0]) .blockwise) [(0,0),(1,0)] [0,1]
        = elemOf (gA.tensordotF exBC2 (.pair [2, 0] [0, 2]) .blockwise) [(0,0),(1,0)] [0,1]
    ∧ elemOf (exAB.tensordotF tC (.pair [0, 3] [1, 0]) .blockwise) [(1,0),(0,0)] [1,0]
        = elemOf (gA.tensordotF exBC2 (.pair [2, 0] [0, 2]) .blockwise) [(1,0),(0,0)] [1,0] := by
  decide +kernel

/-- the vocabulary, spelled out -/
theorem assoc2_vocabulary (A B C : Arr R) (xa1 xa3 xb1 xb2 xc2 xc3 : List Nat) (s : Sector)
    (t : Sector × Sector × Sector) (pa pb : Bool) (la lb lc : List (Int × Bool)) :
    Assoc2P.axesAB A.ndim B.ndim xa1 xa3 xb1 xb2
        = positions (freeAxes A.ndim xa1) xa3
          ++ (positions (freeAxes B.ndim xb1) xb2).map ((freeAxes A.ndim xa1).length + ·)
    ∧ Assoc2P.axesBC B.ndim C.ndim xb1 xb2 xc2 xc3
        = positions (freeAxes B.ndim xb2) xb1
          ++ (positions (freeAxes C.ndim xc2) xc3).map ((freeAxes B.ndim xb2).length + ·)
    ∧ (Assoc2P.IsTriple A B C xa1 xa3 xb1 xb2 xc2 xc3 s t ↔
        t.1 ∈ A.sectors ∧ t.2.1 ∈ B.sectors ∧ t.2.2 ∈ C.sectors
        ∧ permuted t.2.1 xb1 = permuted t.1 xa1 ∧ permuted t.2.2 xc2 = permuted t.2.1 xb2
        ∧ permuted t.2.2 xc3 = permuted t.1 xa3
        ∧ permuted t.1 (freeAxes A.ndim (xa1 ++ xa3)) ++ permuted t.2.1 (freeAxes B.ndim (xb1 ++ xb2))
            ++ permuted t.2.2 (freeAxes C.ndim (xc2 ++ xc3)) = s)
    ∧ (Assoc2P.LabelRoutes pa pb la lb lc ↔
        ∃ lab sab lbc sbc out s1 s2,
          OddposP.mergeOddpos pa la lb = .ok (lab, sab) ∧
          OddposP.mergeOddpos (xor pa pb) lab lc = .ok (out, s1) ∧
          OddposP.mergeOddpos pb lb lc = .ok (lbc, sbc) ∧
          OddposP.mergeOddpos pa la lbc = .ok (out, s2) ∧
          sab * s1 = sbc * s2 ∧
          (sab = 1 ∨ sab = -1) ∧ (s1 = 1 ∨ s1 = -1) ∧ (sbc = 1 ∨ sbc = -1) ∧ (s2 = 1 ∨ s2 = -1)) :=
  ⟨rfl, rfl, Iff.rfl, Iff.rfl⟩

end SymmModel.C04
