/-
  C06 — Contraction commutes with fusing, and all contraction strategies agree:
  the ALIGNMENT part (`drop_misaligned_sectors`, the first step of the fused strategy).

  Theorems about `SymmModel.dropMisaligned` and `SymmModel.tensordotBlockwise`
  (`Model/Tdot.lean`; Python `symmray.abelian_core.drop_misaligned_sectors` and
  `_tensordot_blockwise`), for every symmetry, scalar type, axes and sparsity pattern.

  * `dropMisaligned` keeps exactly the blocks whose contracted part occurs on the other operand,
    leaves block values untouched and is idempotent (as a map on pairs of arrays, index tables
    included).
  * Aligning first does not change the blockwise contraction: the list of aligned block pairs is
    literally the same list, hence same keys in the same order, same block values, same charge;
    and the result index tables are *equal* (both are the un-pruned tables `without … ++ without …`
    pruned to the same stored key set; pruning to the aligned operands' sectors first is absorbed,
    `dropTo_dropTo`).  For the index tables the free axes must be the complements
    (`freeAxes`) and stored sectors must have one charge per axis (a clause of `Arr.validB`).

  PLANNED (not here): `aligned_fused_tables_match`, `tensordotFused_obs_eq_blockwise`,
  `tensordot_fuse_commute`, fermionic versions (need the fuse lemmas of C05).
-/
import SymmModel.Proofs.TdotLemmas

namespace SymmModel.C06
open SymmModel SymmModel.TdotP

variable {R : Type}

/-! ## example operands: `b` lacks the partner of `a`'s third block and vice versa -/

def c0 : Charge := (0, 0)
def c1 : Charge := (1, 0)
def ixI : Index := Index.plain [(c0, 2), (c1, 1)] false
def ixJ : Index := Index.plain [(c0, 1), (c1, 2)] false
def ixK : Index := Index.plain [(c0, 2), (c1, 2)] true
def ixM : Index := Index.plain [(c0, 1), (c1, 1)] true
def mkB (s : List Nat) (c : Int) : Blk Int := Blk.ofFn s (fun i => (ravel s i : Int) + c)

/-- `a[i,j,k]`, charge 0, sectors (0,0,0), (0,1,1), (1,0,1); (1,1,0) missing -/
def exA : Arr Int :=
  { sym := .Z2, fermi := false, indices := [ixI, ixJ, ixK], charge := c0,
    blocks := [([c0, c0, c0], mkB [2, 1, 2] 1), ([c0, c1, c1], mkB [2, 2, 2] (-3)),
               ([c1, c0, c1], mkB [1, 1, 2] 2)] }
/-- `b[j,k,m]`, charge 0, sectors (0,0,0), (1,1,0), (1,0,1); (0,1,1) missing.  Over `(j,k)`,
    `a`'s (1,0,1) and `b`'s (1,0,1) have no partner. -/
def exB : Arr Int :=
  { sym := .Z2, fermi := false, indices := [ixJ.conj, ixK.conj, ixM], charge := c0,
    blocks := [([c0, c0, c0], mkB [1, 2, 1] 5), ([c1, c1, c0], mkB [2, 2, 1] (-1)),
               ([c1, c0, c1], mkB [2, 2, 1] 7)] }

example : exA.validB = true ∧ exB.validB = true := by decide +kernel
theorem exA_len : ∀ s ∈ exA.sectors, s.length = exA.ndim := by decide
theorem exB_len : ∀ s ∈ exB.sectors, s.length = exB.ndim := by decide

/-! ## 7. what `dropMisaligned` keeps -/

/-- **dropMisaligned_sectors (blocks of `a`).**  The kept blocks of `a` are exactly those whose
    contracted part occurs among the contracted parts of `b`'s stored sectors — same order, same
    block values. -/
theorem dropMisaligned_blocks_fst (a b : Arr R) (xa xb : List Nat) :
    (dropMisaligned a b xa xb).1.blocks =
      a.blocks.filter (fun p => (b.sectors.map (fun s => permuted s xb)).contains (permuted p.1 xa)) :=
  dropMisaligned_fst_blocks a b xa xb

/-- **dropMisaligned_sectors (blocks of `b`).** -/
theorem dropMisaligned_blocks_snd (a b : Arr R) (xa xb : List Nat) :
    (dropMisaligned a b xa xb).2.blocks =
      b.blocks.filter (fun p => (a.sectors.map (fun s => permuted s xa)).contains (permuted p.1 xb)) :=
  dropMisaligned_snd_blocks a b xa xb

/-- **dropMisaligned_sectors.**  At the level of sector keys. -/
theorem dropMisaligned_sectors (a b : Arr R) (xa xb : List Nat) :
    (dropMisaligned a b xa xb).1.sectors =
        a.sectors.filter (fun s => (b.sectors.map (fun t => permuted t xb)).contains (permuted s xa)) ∧
    (dropMisaligned a b xa xb).2.sectors =
        b.sectors.filter (fun t => (a.sectors.map (fun s => permuted s xa)).contains (permuted t xb)) := by
  constructor
  · show List.map _ (dropMisaligned a b xa xb).1.blocks = List.filter _ (a.blocks.map (·.1))
    rw [dropMisaligned_fst_blocks, List.filter_map]; rfl
  · show List.map _ (dropMisaligned a b xa xb).2.blocks = List.filter _ (b.blocks.map (·.1))
    rw [dropMisaligned_snd_blocks, List.filter_map]; rfl

/-- everything but blocks and index tables is untouched; the index tables are the operand's
    tables pruned (`dropUnused`) to the kept sectors -/
theorem dropMisaligned_rest (a b : Arr R) (xa xb : List Nat) :
    let a' := (dropMisaligned a b xa xb).1
    let b' := (dropMisaligned a b xa xb).2
    a'.sym = a.sym ∧ a'.charge = a.charge ∧ a'.fermi = a.fermi ∧ a'.phases = a.phases ∧
    a'.oddpos = a.oddpos ∧ a'.indices = dropUnused a.indices a'.sectors ∧ a'.ndim = a.ndim ∧
    b'.sym = b.sym ∧ b'.charge = b.charge ∧ b'.fermi = b.fermi ∧ b'.phases = b.phases ∧
    b'.oddpos = b.oddpos ∧ b'.indices = dropUnused b.indices b'.sectors ∧ b'.ndim = b.ndim :=
  ⟨rfl, rfl, rfl, rfl, rfl, rfl, (dropMisaligned_ndim a b xa xb).1,
   rfl, rfl, rfl, rfl, rfl, rfl, (dropMisaligned_ndim a b xa xb).2⟩

/-- **dropMisaligned is idempotent**: aligning aligned operands changes nothing (blocks, index
    tables and all other fields). -/
theorem dropMisaligned_idempotent (a b : Arr R) (xa xb : List Nat) :
    dropMisaligned (dropMisaligned a b xa xb).1 (dropMisaligned a b xa xb).2 xa xb =
      dropMisaligned a b xa xb :=
  dropMisaligned_idem a b xa xb

example : (dropMisaligned exA exB [1, 2] [0, 1]).1.sectors = [[c0, c0, c0], [c0, c1, c1]]
    ∧ (dropMisaligned exA exB [1, 2] [0, 1]).2.sectors = [[c0, c0, c0], [c1, c1, c0]]
    ∧ (dropMisaligned exA exB [1, 2] [0, 1]).1.indices.map Index.cm =
        [[(c0, 2)], [(c0, 1), (c1, 2)], [(c0, 2), (c1, 2)]] := by decide +kernel

/-! ## 6. aligning first does not change the blockwise contraction -/

/-- **align_irrelevant (blocks, charge; no hypotheses).**  Same keys in the same order with the
    same block values, same charge and all other non-index fields, for any `l`, `r`:
    dropped sectors pair with nothing, so the visited list of aligned pairs is the same list. -/
theorem align_irrelevant_blocks [Zero R] [Add R] [Mul R] (a b : Arr R) (l xa xb r : List Nat) :
    let c' := tensordotBlockwise (dropMisaligned a b xa xb).1 (dropMisaligned a b xa xb).2 l xa xb r
    let c := tensordotBlockwise a b l xa xb r
    c'.blocks = c.blocks ∧ c'.sectors = c.sectors ∧ c'.charge = c.charge ∧ c'.sym = c.sym ∧
    c'.fermi = c.fermi ∧ c'.phases = c.phases ∧ c'.oddpos = c.oddpos ∧
    c'.indices = dropUnused (without (dropMisaligned a b xa xb).1.indices xa ++
                              without (dropMisaligned a b xa xb).2.indices xb) c.sectors ∧
    c.indices = dropUnused (without a.indices xa ++ without b.indices xb) c.sectors := by
  have h := tensordotBlockwise_blocks_dropMisaligned a b l xa xb r
  refine ⟨h, by rw [Arr.sectors, h]; rfl, rfl, rfl, rfl, rfl, rfl, ?_, rfl⟩
  rw [tensordotBlockwise_indices, Arr.sectors, h]; rfl

/-- **align_irrelevant.**  With `l`, `r` the free axes (complements of the contracted axes) and
    stored sectors having one charge per axis, the two results are equal as arrays — index
    tables included. -/
theorem align_irrelevant [Zero R] [Add R] [Mul R] (a b : Arr R) (xa xb : List Nat)
    (hla : ∀ s ∈ a.sectors, s.length = a.ndim) (hlb : ∀ s ∈ b.sectors, s.length = b.ndim) :
    tensordotBlockwise (dropMisaligned a b xa xb).1 (dropMisaligned a b xa xb).2
        (freeAxes a.ndim xa) xa xb (freeAxes b.ndim xb) =
      tensordotBlockwise a b (freeAxes a.ndim xa) xa xb (freeAxes b.ndim xb) :=
  tensordotBlockwise_dropMisaligned a b xa xb hla hlb

/-- the same for `tensordot(a, b, axes, mode="blockwise")` with any axes argument (`parseAxes`
    only sees the numbers of axes, which aligning does not change) -/
theorem align_irrelevant_tensordotA [Zero R] [Add R] [Mul R] (a b : Arr R) (axes : AxesArg)
    (hla : ∀ s ∈ a.sectors, s.length = a.ndim) (hlb : ∀ s ∈ b.sectors, s.length = b.ndim) :
    (parseAxes a.ndim b.ndim axes).bind (fun x =>
        tensordotA (dropMisaligned a b x.1 x.2).1 (dropMisaligned a b x.1 x.2).2 axes .blockwise) =
      tensordotA a b axes .blockwise :=
  tensordotA_blockwise_dropMisaligned a b axes hla hlb

/-- the aligned operands still satisfy the sector-length hypothesis (so the theorems compose) -/
theorem dropMisaligned_keeps_sector_length {a b : Arr R} {xa xb : List Nat}
    (hla : ∀ s ∈ a.sectors, s.length = a.ndim) (hlb : ∀ s ∈ b.sectors, s.length = b.ndim) :
    (∀ s ∈ (dropMisaligned a b xa xb).1.sectors, s.length = (dropMisaligned a b xa xb).1.ndim) ∧
    (∀ s ∈ (dropMisaligned a b xa xb).2.sectors, s.length = (dropMisaligned a b xa xb).2.ndim) :=
  dropMisaligned_sectors_length hla hlb

-- sanity on the example: aligned and unaligned contraction agree in blocks and index tables
example : freeAxes exA.ndim [1, 2] = [0] ∧ freeAxes exB.ndim [0, 1] = [2] := by decide
example :
    let c' := tensordotBlockwise (dropMisaligned exA exB [1, 2] [0, 1]).1
      (dropMisaligned exA exB [1, 2] [0, 1]).2 [0] [1, 2] [0, 1] [2]
    let c := tensordotBlockwise exA exB [0] [1, 2] [0, 1] [2]
    c.blocks.map (fun p => (p.1, p.2.shape, p.2.data)) = [([c0, c0], [2, 1], #[19, 49])]
    ∧ c'.blocks.map (fun p => (p.1, p.2.shape, p.2.data)) = [([c0, c0], [2, 1], #[19, 49])]
    ∧ c.indices.map Index.cm = [[(c0, 2)], [(c0, 1)]]
    ∧ c'.indices.map Index.cm = [[(c0, 2)], [(c0, 1)]] := by decide +kernel

end SymmModel.C06
