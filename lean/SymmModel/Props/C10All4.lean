/- umbrella for property C10: involutions / adjoint laws (C10), single-array norm (C10b), network
   norm of two tensors: halves first (C10c), sequential bracketings under a guard (C10d), the six
   bracketings without guard (C10e) -/
import SymmModel.Props.C10All3
import SymmModel.Props.C10e
