/- Property C07 — umbrella incl. C07i (total element bijection of the forward clause; the planner's window test exactly). -/
import SymmModel.Props.C07All7
import SymmModel.Props.C07i
