/-
  SymmModel.Props.C01c — property C01, anchor "debug-mode audit": how symmray's OWN audit
  (`BlockIndex.check`, `AbelianArray.check` = `FermionicArray.check`, `check_with`, `matches`;
  literal model in Model/Check.lean) relates to the validity predicate `Arr.validB`.

  * `validB_implies_check_ok`        a valid array is never rejected by a debug-mode run
  * `validB_iff_check_and_unaudited` EXACTLY what the audit does not look at: `validB` is the
                                      audit plus the decidable predicate `unauditedB`
  * `check_ok_implies_audited`        the converse for the clauses the audit does look at
  * `audit_misses_*`                  one accepted-but-invalid witness per unaudited clause
  * `audit_reads_nothing_fermionic`   sign table / labels / kind never reach the audit
  * `audit_looks_at_finiteness`, `valid_not_aligned`, `vec_check_*`
                                      what the audit looks at and `validB` does not
  * `matchesE_symm_plain`, `dictsDontConflict_symm`, `matches_implies_agree`,
    `checkWith_implies_contractibleCommon`, `matches_not_contractibleB`,
    `checkWith_ignores_axes_length`

  Partial: symmetry of `matches` is proved for indices WITHOUT sub-index information
  (`matchesE_symm_plain`).  The full statement
      theorem matchesE_symm (a b : RIndex) (ha : a.dictInvB) (hb : b.dictInvB) :
          RIndex.matchesE a b = RIndex.matchesE b a
  (dictInvB: distinct keys in every chargemap, extents table and extent, recursively) needs the
  symmetry of `dictEq` on equal-length distinct-key dicts (a pigeonhole step) and a mutual
  induction through `matchesAll`; it is not done.  The harness stream exercises `matches` in
  both argument orders on fused indices.
-/
import SymmModel.Proofs.CheckLemmas
import SymmModel.Proofs.AssocWeak
import SymmModel.Proofs.ValidTdot

namespace SymmModel.C01
open SymmModel SymmModel.Check SymmModel.ValidP SymmModel.CheckP

variable {R : Type}

/-! ## the audit, clause by clause -/

theorem checkSizes_ok_iff (cm : List (Charge × Int)) :
    checkSizes cm = .ok () ↔ ∀ p ∈ cm, 0 < p.2 := by
  unfold checkSizes
  rw [forE_ok_iff]
  simp only [guardE_ok_iff, decide_eq_true_eq]

/-- `BlockIndex.check` accepts exactly: positive sizes, keys in sorted order, and (fused index)
    the grand total of the extents equals the total size.  Nothing about the sub-indices. -/
theorem rindex_check_ok_iff (cm : List (Charge × Int)) (d : Bool) (sub : Option (List RIndex × RExtents)) :
    (RIndex.mk cm d sub).check = .ok () ↔
      (∀ p ∈ cm, 0 < p.2) ∧ isort Charge.lt (cm.map (·.1)) = cm.map (·.1)
      ∧ (∀ subs exts, sub = some (subs, exts) → sumZ (cm.map (·.2)) = extentsTotal exts) := by
  unfold RIndex.check
  dsimp only
  split
  · rename_i e hcs
    have : ¬ (∀ p ∈ cm, 0 < p.2) := by
      intro h; rw [(checkSizes_ok_iff cm).mpr h] at hcs; cases hcs
    constructor
    · intro h; cases h
    · intro h; exact absurd h.1 this
  · rename_i u hcs
    cases u
    have h1 := (checkSizes_ok_iff cm).mp hcs
    by_cases hs : isort Charge.lt (cm.map (·.1)) = cm.map (·.1)
    · have hb : (isort Charge.lt (cm.map (·.1)) == cm.map (·.1)) = true := by rw [hs]; simp
      rw [hb]
      simp only [Bool.not_true, Bool.false_eq_true, if_false]
      cases sub with
      | none => exact ⟨fun _ => ⟨h1, hs, fun _ _ he => by cases he⟩, fun _ => rfl⟩
      | some se =>
        obtain ⟨subs, exts⟩ := se
        simp only [guardE_ok_iff, beq_iff_eq]
        constructor
        · intro h; exact ⟨h1, hs, fun _ _ he => by cases he; exact h⟩
        · intro h; exact h.2.2 subs exts rfl
    · have hb : (isort Charge.lt (cm.map (·.1)) == cm.map (·.1)) = false := by
        cases hh : (isort Charge.lt (cm.map (·.1)) == cm.map (·.1)) with
        | false => rfl
        | true => exact absurd (eq_of_beq hh) hs
      rw [hb]
      simp only [Bool.not_false, if_true]
      constructor
      · intro h; cases h
      · intro h; exact absurd h.2.1 hs

theorem checkBlock_ok_iff (a : RArr) (sb : Sector × RBlock) :
    a.checkBlock sb = .ok () ↔
      a.isValidSector sb.1 = true
      ∧ ∃ exp, blockShapeE a.indices sb.1 = .ok exp ∧ shapesAgree sb.2.shape exp = true
        ∧ sb.2.finite = true := by
  unfold RArr.checkBlock
  cases hv : a.isValidSector sb.1 with
  | false => simp
  | true =>
    cases hb : blockShapeE a.indices sb.1 with
    | error e => simp
    | ok exp =>
      cases hs : shapesAgree sb.2.shape exp with
      | false => simp [hs]
      | true => cases hf : sb.2.finite <;> simp [hs]

theorem rarr_check_ok_iff (a : RArr) :
    a.check = .ok () ↔ (∀ ix ∈ a.indices, ix.check = .ok ()) ∧ ∀ sb ∈ a.blocks, a.checkBlock sb = .ok () := by
  unfold RArr.check
  split
  · rename_i e h
    have : ¬ (∀ ix ∈ a.indices, ix.check = .ok ()) := by
      intro hh; rw [(forE_ok_iff _ _).mpr hh] at h; cases h
    constructor
    · intro hh; cases hh
    · intro hh; exact absurd hh.1 this
  · rename_i u h
    cases u
    rw [forE_ok_iff] at h
    rw [forE_ok_iff]
    exact ⟨fun hb => ⟨h, hb⟩, fun hh => hh.2⟩

/-! ## what the audit does NOT look at -/

/-- the clauses of `Index.wfB` the audit never evaluates: distinct table keys (a dict invariant),
    charges valid for the symmetry, and the whole sub-index bookkeeping except its grand total
    (sub-indices well-formed, distinct extents keys, every charge has an extent that partitions
    its size with the right sub-sector lengths / sizes / charges, no extra extents key) -/
def unauditedIdxB (sym : Sym) : Index → Bool
  | .mk cm dual sub =>
    allDistinct (cm.map (·.1)) && cm.all (fun p => sym.valid p.1)
    && (match sub with
        | none => true
        | some (subs, exts) =>
          Index.wfListB sym subs && allDistinct (exts.map (·.1))
          && cm.all (fun p => match alookup exts p.1 with
                | some ext => extentOk sym dual subs p.1 p.2 ext
                | none => false)
          && exts.all (fun e => (alookup cm e.1).isSome))

/-- the clauses of `Arr.validB` the audit never evaluates: `unauditedIdxB` of every index, the
    total charge being a charge of the symmetry, distinct sectors (a dict invariant), sector
    length and block rank equal to the number of indices, the data size of a block (a numpy
    invariant), and everything fermionic: the sign table and the odd-position labels -/
def unauditedB (a : Arr R) : Bool :=
  a.indices.all (unauditedIdxB a.sym)
  && a.sym.valid a.charge
  && allDistinct a.sectors
  && a.blocks.all (fun sb => sb.1.length == a.ndim && sb.2.shape.length == a.ndim && sb.2.wf)
  && (if a.fermi then
        allDistinct (a.phases.map (·.1))
        && a.phases.all (fun (s, p) => s.length == a.ndim && a.isValidSector s && (p == 1 || p == -1))
        && (a.oddpos.length % 2 == 1) == a.parity
      else a.phases.isEmpty && a.oddpos.isEmpty)

theorem cmToRaw_pos_iff (cm : List (Charge × Nat)) :
    (∀ p ∈ cmToRaw cm, (0 : Int) < p.2) ↔ ∀ p ∈ cm, 0 < p.2 := by
  unfold cmToRaw
  constructor
  · intro h p hp
    have := h (p.1, (p.2 : Int)) (List.mem_map.mpr ⟨p, hp, rfl⟩)
    simpa using this
  · intro h q hq
    obtain ⟨p, hp, rfl⟩ := List.mem_map.mp hq
    have := h p hp
    simpa using this

/-- index level: well-formed = accepted by `BlockIndex.check` + the unaudited clauses -/
theorem wfB_iff_check_and_unaudited (sym : Sym) (ix : Index) :
    Index.wfB sym ix = true ↔ ((indexToRaw ix).check = .ok () ∧ unauditedIdxB sym ix = true) := by
  obtain ⟨cm, d, sub⟩ := ix
  cases sub with
  | none =>
    rw [wfB_none, indexToRaw.eq_1, rindex_check_ok_iff, cmToRaw_pos_iff, cmToRaw_keys]
    unfold unauditedIdxB CmOk
    simp only [Bool.and_true, Bool.and_eq_true, allDistinct_iff, List.all_eq_true]
    constructor
    · rintro ⟨hs, hp⟩
      exact ⟨⟨fun p hp' => (hp p hp').1, isort_of_sorted hs, by simp⟩,
        sortedCharges_nodup hs, fun p hp' => (hp p hp').2⟩
    · rintro ⟨⟨hpos, hfix, _⟩, hnd, hval⟩
      exact ⟨sorted_of_isort_fix hfix hnd, fun p hp' => ⟨hpos p hp', hval p hp'⟩⟩
  | some se =>
    obtain ⟨subs, exts⟩ := se
    rw [wfB_some, indexToRaw.eq_2, rindex_check_ok_iff, cmToRaw_pos_iff, cmToRaw_keys]
    unfold unauditedIdxB CmOk
    simp only [Bool.and_eq_true, allDistinct_iff, List.all_eq_true]
    constructor
    · rintro ⟨⟨hs, hp⟩, hsub, hnd, hext, hkeys⟩
      refine ⟨⟨fun p hp' => (hp p hp').1, isort_of_sorted hs, ?_⟩,
        ⟨⟨sortedCharges_nodup hs, fun p hp' => (hp p hp').2⟩, ⟨⟨hsub, hnd⟩, ?_⟩, hkeys⟩⟩
      · intro subs' exts' he
        cases he
        rw [cm_sizes_raw, extentsTotal_raw]
        congr 1
        apply cm_total_eq cm exts (sortedCharges_nodup hs) hnd _ hkeys
        intro p hp'
        obtain ⟨ext, he, hok⟩ := hext p hp'
        refine ⟨ext, he, ?_⟩
        unfold extentOk at hok
        simp only [Bool.and_eq_true, beq_iff_eq] at hok
        exact hok.1.1
      · intro p hp'
        obtain ⟨ext, he, hok⟩ := hext p hp'
        rw [he]; exact hok
    · rintro ⟨⟨hpos, hfix, _⟩, ⟨hnd, hval⟩, ⟨⟨hsub, hnde⟩, hext⟩, hkeys⟩
      refine ⟨⟨sorted_of_isort_fix hfix hnd, fun p hp' => ⟨hpos p hp', hval p hp'⟩⟩, hsub, hnde, ?_, hkeys⟩
      intro p hp'
      have := hext p hp'
      split at this
      · rename_i ext he; exact ⟨ext, he, this⟩
      · cases this

/-- block level, given the two rank clauses the audit does not evaluate -/
theorem blockOk_iff_checkBlock (a : Arr R) (sb : Sector × Blk R)
    (hs : sb.1.length = a.ndim) (hr : sb.2.shape.length = a.ndim) :
    (a.isValidSector sb.1 = true ∧ Arr.blockShape? a.indices sb.1 = some sb.2.shape)
      ↔ (arrToRaw a).checkBlock (sb.1, { shape := sb.2.shape, finite := true }) = .ok () := by
  rw [checkBlock_ok_iff, arrToRaw_isValidSector]
  constructor
  · rintro ⟨hv, hshape⟩
    exact ⟨hv, _, blockShapeE_of_blockShape? hshape, shapesAgree_cast _, rfl⟩
  · rintro ⟨hv, exp, he, ha, _⟩
    refine ⟨hv, blockShape?_of_blockShapeE hs hr ?_ ha⟩
    rw [← indexListToRaw_eq_map]; exact he

/-- EXACTLY what the library's audit does not look at: an array is valid iff `check()` accepts
    it and the clauses of `unauditedB` hold -/
theorem validB_iff_check_and_unaudited (a : Arr R) :
    a.validB = true ↔ (checkArr a = .ok () ∧ unauditedB a = true) := by
  unfold checkArr
  rw [rarr_check_ok_iff]
  unfold Arr.validB unauditedB
  simp only [Bool.and_eq_true, wfListB_iff, List.all_eq_true]
  have hidx : (arrToRaw a).indices = a.indices.map indexToRaw := by
    simp [arrToRaw, indexListToRaw_eq_map]
  have hblk : (arrToRaw a).blocks = a.blocks.map (fun sb => (sb.1, { shape := sb.2.shape, finite := true })) := rfl
  rw [hidx, hblk]
  simp only [List.mem_map, forall_exists_index, and_imp, forall_apply_eq_imp_iff₂]
  constructor
  · rintro ⟨⟨⟨⟨hi, hc⟩, hd⟩, hb⟩, hf⟩
    refine ⟨⟨fun ix hix => ((wfB_iff_check_and_unaudited a.sym ix).mp (hi ix hix)).1, ?_⟩,
      ⟨⟨⟨fun ix hix => ((wfB_iff_check_and_unaudited a.sym ix).mp (hi ix hix)).2, hc⟩, hd⟩, ?_⟩, hf⟩
    · intro sb hsb
      have := hb sb hsb
      simp only [Bool.and_eq_true, beq_iff_eq] at this
      obtain ⟨⟨⟨hl, hv⟩, hshape⟩, _⟩ := this
      have hr := (blockShape?_length hshape).1
      exact (blockOk_iff_checkBlock a sb hl (by rw [hr]; rfl)).mp ⟨hv, hshape⟩
    · intro sb hsb
      have := hb sb hsb
      simp only [Bool.and_eq_true, beq_iff_eq] at this ⊢
      obtain ⟨⟨⟨hl, _⟩, hshape⟩, hwf⟩ := this
      exact ⟨⟨hl, by rw [(blockShape?_length hshape).1]; rfl⟩, hwf⟩
  · rintro ⟨⟨hic, hbc⟩, ⟨⟨⟨hiu, hc⟩, hd⟩, hbu⟩, hf⟩
    refine ⟨⟨⟨⟨fun ix hix => (wfB_iff_check_and_unaudited a.sym ix).mpr ⟨hic ix hix, hiu ix hix⟩, hc⟩, hd⟩, ?_⟩, hf⟩
    intro sb hsb
    have hu := hbu sb hsb
    simp only [Bool.and_eq_true, beq_iff_eq] at hu ⊢
    obtain ⟨⟨hl, hr⟩, hwf⟩ := hu
    have := (blockOk_iff_checkBlock a sb hl hr).mpr (hbc sb hsb)
    exact ⟨⟨⟨hl, this.1⟩, this.2⟩, hwf⟩

/-- every array satisfying `Arr.validB` passes the library's audit: a debug-mode run never
    rejects a valid result -/
theorem validB_implies_check_ok (a : Arr R) (h : a.validB = true) : checkArr a = .ok () :=
  ((validB_iff_check_and_unaudited a).mp h).1

/-- the converse for all clauses at once -/
theorem check_ok_and_unaudited_implies_validB (a : Arr R) (h : checkArr a = .ok ())
    (hu : unauditedB a = true) : a.validB = true :=
  (validB_iff_check_and_unaudited a).mpr ⟨h, hu⟩

/-- the converse for the clauses the audit does look at, with no other hypothesis than the rank
    clauses where they are needed: every index table has positive sizes and keys in sorted order,
    a fused index has extents with the right grand total; every stored sector conserves the
    charge, and a stored block whose sector length and rank equal `ndim` has exactly the shape
    the index tables give to its sector -/
theorem check_ok_implies_audited (a : Arr R) (h : checkArr a = .ok ()) :
    (∀ ix ∈ a.indices,
        (∀ p ∈ ix.cm, 0 < p.2)
        ∧ isort Charge.lt (ix.cm.map (·.1)) = ix.cm.map (·.1)
        ∧ (∀ subs exts, ix.sub = some (subs, exts) → sumN (ix.cm.map (·.2)) = totalN exts))
    ∧ (∀ sb ∈ a.blocks,
        a.isValidSector sb.1 = true
        ∧ (sb.1.length = a.ndim → sb.2.shape.length = a.ndim →
            Arr.blockShape? a.indices sb.1 = some sb.2.shape)) := by
  unfold checkArr at h
  rw [rarr_check_ok_iff] at h
  obtain ⟨hi, hb⟩ := h
  constructor
  · intro ix hix
    have := hi (indexToRaw ix) (by
      simp only [arrToRaw, indexListToRaw_eq_map]; exact List.mem_map.mpr ⟨ix, hix, rfl⟩)
    obtain ⟨cm, d, sub⟩ := ix
    cases sub with
    | none =>
      rw [indexToRaw.eq_1, rindex_check_ok_iff, cmToRaw_pos_iff, cmToRaw_keys] at this
      exact ⟨this.1, this.2.1, fun _ _ he => by cases he⟩
    | some se =>
      obtain ⟨subs, exts⟩ := se
      rw [indexToRaw.eq_2, rindex_check_ok_iff, cmToRaw_pos_iff, cmToRaw_keys] at this
      refine ⟨this.1, this.2.1, ?_⟩
      intro subs' exts' he
      cases he
      have h3 := this.2.2 _ _ rfl
      rw [cm_sizes_raw, extentsTotal_raw] at h3
      exact_mod_cast h3
  · intro sb hsb
    have := hb (sb.1, { shape := sb.2.shape, finite := true }) (by
      show _ ∈ a.blocks.map _
      exact List.mem_map.mpr ⟨sb, hsb, rfl⟩)
    refine ⟨?_, fun hl hr => ((blockOk_iff_checkBlock a sb hl hr).mpr this).2⟩
    rw [checkBlock_ok_iff, arrToRaw_isValidSector] at this
    exact this.1

/-! ## witnesses: accepted by the audit, not valid — one per unaudited clause -/

def ckIx1 : Index := .mk [((0, 0), 1)] false none
def ckIx2 : Index := .mk [((0, 0), 1), ((1, 0), 2)] false none
def ckSub : Index := .mk [((0, 0), 1), ((1, 0), 1)] false none

/-- U1 index fused from `ckSub ⊗ ckSub` -/
def ckFusedWith (subs : List Index) (exts : Extents) : Index :=
  .mk [((0, 0), 1), ((1, 0), 2), ((2, 0), 1)] false (some (subs, exts))

def ckExts : Extents :=
  [((0, 0), [([(0, 0), (0, 0)], 1)]),
   ((1, 0), [([(0, 0), (1, 0)], 1), ([(1, 0), (0, 0)], 1)]),
   ((2, 0), [([(1, 0), (1, 0)], 1)])]

def ckArrWith (ix : Index) : Arr Int :=
  { sym := .U1, fermi := false, indices := [ix], charge := (1, 0),
    blocks := [([(1, 0)], ⟨[2], #[1, 2]⟩)] }

/-- the hypotheses of the theorems above are satisfiable: a valid array with a fused index,
    accepted by the audit, and a valid fermionic array with a pending sign and a label -/
def ckFermi : Arr Int :=
  { sym := .U1, fermi := true, indices := [ckIx2], charge := (1, 0),
    blocks := [([(1, 0)], ⟨[2], #[1, 2]⟩)], phases := [([(1, 0)], -1)], oddpos := [(3, false)] }

example : (ckArrWith (ckFusedWith [ckSub, ckSub] ckExts)).validB = true
    ∧ checkArr (ckArrWith (ckFusedWith [ckSub, ckSub] ckExts)) = .ok ()
    ∧ unauditedB (ckArrWith (ckFusedWith [ckSub, ckSub] ckExts)) = true
    ∧ ckFermi.validB = true ∧ checkArr ckFermi = .ok () ∧ unauditedB ckFermi = true := by decide

/-- a table charge that is not a charge of the symmetry (Z2 table listing charge 3) -/
theorem audit_misses_invalid_table_charge :
    let w : Arr Int := { sym := .Z2, fermi := false, indices := [.mk [((3, 0), 1)] false none],
                         charge := (1, 0), blocks := [([(3, 0)], ⟨[1], #[5]⟩)] }
    checkArr w = .ok () ∧ w.validB = false ∧ w.invalidReason = "index-table" := by decide

/-- a total charge that is not a charge of the symmetry (no stored block) -/
theorem audit_misses_invalid_total_charge :
    let w : Arr Int := { sym := .Z2, fermi := false, indices := [ckIx1], charge := (7, 0), blocks := [] }
    checkArr w = .ok () ∧ w.validB = false ∧ w.invalidReason = "charge-invalid" := by decide

/-- a sector LONGER than the number of indices (`zip` drops the extra charge, here 5 ≠ 0) -/
theorem audit_misses_sector_too_long :
    let w : Arr Int := { sym := .U1, fermi := false, indices := [ckIx1], charge := (0, 0),
                         blocks := [([(0, 0), (5, 0)], ⟨[1], #[1]⟩)] }
    checkArr w = .ok () ∧ w.validB = false ∧ w.invalidReason = "sector-charge" := by decide

/-- a sector SHORTER than the number of indices -/
theorem audit_misses_sector_too_short :
    let w : Arr Int := { sym := .U1, fermi := false, indices := [ckIx1, ckIx1], charge := (0, 0),
                         blocks := [([(0, 0)], ⟨[1], #[1]⟩)] }
    checkArr w = .ok () ∧ w.validB = false ∧ w.invalidReason = "sector-charge" := by decide

/-- a block of too small rank (`zip(ar.shape(array), expected)` truncates) -/
theorem audit_misses_block_rank_too_small :
    let w : Arr Int := { sym := .U1, fermi := false, indices := [ckIx2, ckIx2], charge := (2, 0),
                         blocks := [([(1, 0), (1, 0)], ⟨[2], #[1, 2]⟩)] }
    checkArr w = .ok () ∧ w.validB = false ∧ w.invalidReason = "block-shape" := by decide

/-- a block of too large rank -/
theorem audit_misses_block_rank_too_large :
    let w : Arr Int := { sym := .U1, fermi := false, indices := [ckIx1], charge := (0, 0),
                         blocks := [([(0, 0)], ⟨[1, 3], #[1, 2, 3]⟩)] }
    checkArr w = .ok () ∧ w.validB = false ∧ w.invalidReason = "block-shape" := by decide

/-- a sub-index table with a zero size and keys out of order (sub-indices are never visited) -/
theorem audit_misses_sub_index_table :
    let w := ckArrWith (ckFusedWith [.mk [((1, 0), 1), ((0, 0), 0)] false none, ckSub] ckExts)
    checkArr w = .ok () ∧ w.validB = false ∧ w.invalidReason = "index-table" := by decide

/-- sub-index extents with the right grand total (4) but a wrong partition: charge 0 is given
    2 = its size 1 + one unit taken from charge 1 (size 2, extent total 1) -/
theorem audit_misses_extents_partition :
    let w := ckArrWith (ckFusedWith [ckSub, ckSub]
      [((0, 0), [([(0, 0), (0, 0)], 2)]),
       ((1, 0), [([(0, 0), (1, 0)], 1)]),
       ((2, 0), [([(1, 0), (1, 0)], 1)])])
    checkArr w = .ok () ∧ w.validB = false ∧ w.invalidReason = "index-table" := by decide

/-- an extents key that is not a charge of the fused index (and charge 2 without an extent) -/
theorem audit_misses_extents_key :
    let w := ckArrWith (ckFusedWith [ckSub, ckSub]
      [((0, 0), [([(0, 0), (0, 0)], 1)]),
       ((1, 0), [([(0, 0), (1, 0)], 1), ([(1, 0), (0, 0)], 1)]),
       ((7, 0), [([(1, 0), (1, 0)], 1)])])
    checkArr w = .ok () ∧ w.validB = false ∧ w.invalidReason = "index-table" := by decide

/-- a sub-sector that does not combine to its fused charge / has the wrong length / whose size
    is not the product of the sub-index sizes -/
theorem audit_misses_extents_subsector :
    let w1 := ckArrWith (ckFusedWith [ckSub, ckSub]
      [((0, 0), [([(1, 0), (1, 0)], 1)]),
       ((1, 0), [([(0, 0), (1, 0)], 1), ([(1, 0), (0, 0)], 1)]),
       ((2, 0), [([(0, 0), (0, 0)], 1)])])
    let w2 := ckArrWith (ckFusedWith [ckSub, ckSub]
      [((0, 0), [([(0, 0)], 1)]),
       ((1, 0), [([(0, 0), (1, 0)], 1), ([(1, 0), (0, 0)], 1)]),
       ((2, 0), [([(1, 0), (1, 0)], 1)])])
    let w3 := ckArrWith (ckFusedWith [ckSub, ckSub]
      [((0, 0), [([(0, 0), (0, 0)], 1)]),
       ((1, 0), [([(0, 0), (1, 0)], 2), ([(1, 0), (0, 0)], 0)]),
       ((2, 0), [([(1, 0), (1, 0)], 1)])])
    checkArr w1 = .ok () ∧ w1.validB = false ∧ checkArr w2 = .ok () ∧ w2.validB = false
    ∧ checkArr w3 = .ok () ∧ w3.validB = false := by decide

/-- a stale key of the pending-sign table (a sector that is not stored and does not conserve the
    charge), and a sign that is not ±1 -/
theorem audit_misses_phase_table :
    let w1 : Arr Int := { ckFermi with phases := [([(0, 0)], -1)] }
    let w2 : Arr Int := { ckFermi with phases := [([(1, 0)], 2)] }
    checkArr w1 = .ok () ∧ w1.validB = false ∧ w1.invalidReason = "phase-table"
    ∧ checkArr w2 = .ok () ∧ w2.validB = false ∧ w2.invalidReason = "phase-table" := by decide

/-- an odd-charge fermionic array without an odd-position label -/
theorem audit_misses_label_parity :
    let w : Arr Int := { ckFermi with oddpos := [] }
    checkArr w = .ok () ∧ w.validB = false ∧ w.invalidReason = "oddpos-parity" := by decide

/-- `FermionicArray` has no `check` of its own: the kind, the pending-sign table and the labels
    never reach the audit -/
theorem audit_reads_nothing_fermionic (a : Arr R) (f : Bool) (p : List (Sector × Int))
    (o : List (Int × Bool)) :
    checkArr { a with fermi := f, phases := p, oddpos := o } = checkArr a := rfl

/-! ## what the audit looks at and `validB` does not -/

/-- finiteness of the data: the same raw state is accepted with finite data and rejected
    (ValueError) with a NaN / inf entry; the model's scalars are exact, `validB` has no such
    clause -/
theorem audit_looks_at_finiteness :
    let x : RArr := { sym := .U1, indices := [indexToRaw ckIx1], charge := (0, 0),
                      blocks := [([(0, 0)], { shape := [1], finite := false })] }
    x.check = .error Err.value
    ∧ ({ x with blocks := [([(0, 0)], { shape := [1], finite := true })] } : RArr).check = .ok () := by
  decide

/-- `check_chargemaps_aligned` (run on every contraction result in debug mode) is NOT implied by
    validity: a valid array whose table lists a charge that no stored block uses is rejected -/
theorem valid_not_aligned :
    let w : Arr Int := { sym := .U1, fermi := false, indices := [ckIx2], charge := (0, 0),
                         blocks := [([(0, 0)], ⟨[1], #[1]⟩)] }
    w.validB = true ∧ checkArr w = .ok () ∧ (arrToRaw w).checkAligned = .error Err.value
    ∧ (arrToRaw (w.syncCharges)).checkAligned = .ok () := by decide

/-- `BlockVector.check` rejects the EMPTY vector (ValueError) and accepts a vector of rank-2
    blocks -/
theorem vec_check_empty_and_rank2 :
    (RVec.mk []).check = .error Err.value
    ∧ (RVec.mk [((0, 0), { shape := [2, 1] }), ((1, 0), { shape := [1, 1] })]).check = .ok ()
    ∧ (RVec.mk [((0, 0), { shape := [2] }), ((1, 0), { shape := [1, 1] })]).check = .error Err.value := by
  decide

/-! ## `matches` / `check_with` -/

theorem ddc_iff {da db : List (Charge × Int)} (hn : (da.map (·.1)).Nodup) :
    dictsDontConflict (fun (x y : Int) => x != y) da db = true
      ↔ ∀ k va vb, alookup da k = some va → alookup db k = some vb → va = vb := by
  unfold dictsDontConflict
  rw [List.all_eq_true]
  constructor
  · intro h k va vb ha hb
    have := h (k, va) (alookup_some_mem ha)
    simp only [hb] at this
    simpa using this
  · intro h p hp
    have ha : alookup da p.1 = some p.2 := alookup_of_mem_nodup hn hp
    cases hb : alookup db p.1 with
    | none => rfl
    | some vb => simp [h p.1 p.2 vb ha hb]

/-- `dicts_dont_conflict` is symmetric on dicts (association lists with distinct keys) -/
theorem dictsDontConflict_symm {da db : List (Charge × Int)}
    (ha : (da.map (·.1)).Nodup) (hb : (db.map (·.1)).Nodup) :
    dictsDontConflict (fun (x y : Int) => x != y) da db
      = dictsDontConflict (fun (x y : Int) => x != y) db da := by
  rw [Bool.eq_iff_iff, ddc_iff ha, ddc_iff hb]
  constructor
  · intro h k va vb h1 h2; exact (h k vb va h2 h1).symm
  · intro h k va vb h1 h2; exact (h k vb va h2 h1).symm

/-- without the dict invariant the model's `dicts_dont_conflict` is not symmetric (such a state
    is not a Python dict; this is why the hypothesis is there) -/
example : dictsDontConflict (fun (x y : Int) => x != y) [((0, 0), 1), ((0, 0), 2)] [((0, 0), 1)] = false
    ∧ dictsDontConflict (fun (x y : Int) => x != y) [((0, 0), 1)] [((0, 0), 1), ((0, 0), 2)] = true := by
  decide

theorem matchesE_plain (cm1 cm2 : List (Charge × Int)) (d1 d2 : Bool) :
    RIndex.matchesE (.mk cm1 d1 none) (.mk cm2 d2 none)
      = .ok (dictsDontConflict (fun (x y : Int) => x != y) cm1 cm2 && (d1 != d2)) := by
  rw [RIndex.matchesE]
  cases dictsDontConflict (fun (x y : Int) => x != y) cm1 cm2 <;> cases (d1 != d2) <;> rfl

/-- `BlockIndex.matches` is symmetric on indices without sub-index information -/
theorem matchesE_symm_plain (cm1 cm2 : List (Charge × Int)) (d1 d2 : Bool)
    (h1 : (cm1.map (·.1)).Nodup) (h2 : (cm2.map (·.1)).Nodup) :
    RIndex.matchesE (.mk cm1 d1 none) (.mk cm2 d2 none)
      = RIndex.matchesE (.mk cm2 d2 none) (.mk cm1 d1 none) := by
  rw [matchesE_plain, matchesE_plain, dictsDontConflict_symm h1 h2]
  cases d1 <;> cases d2 <;> rfl

example : ((cmToRaw ckIx2.cm).map (·.1)).Nodup := by decide

/-- the first two conjuncts of `matches`, whatever the sub-index information -/
theorem matchesE_true_implies (cm1 cm2 : List (Charge × Int)) (d1 d2 : Bool)
    (s1 s2 : Option (List RIndex × RExtents))
    (h : RIndex.matchesE (.mk cm1 d1 s1) (.mk cm2 d2 s2) = .ok true) :
    dictsDontConflict (fun (x y : Int) => x != y) cm1 cm2 = true ∧ (d1 != d2) = true := by
  rw [RIndex.matchesE.eq_def] at h
  dsimp only at h
  cases hc : dictsDontConflict (fun (x y : Int) => x != y) cm1 cm2 with
  | false => rw [hc] at h; simp at h
  | true =>
    cases hd : (d1 != d2) with
    | false => rw [hc, hd] at h; simp at h
    | true => exact ⟨rfl, rfl⟩

theorem ddc_raw_eq_cmAgree (c1 c2 : List (Charge × Nat)) :
    dictsDontConflict (fun (x y : Int) => x != y) (cmToRaw c1) (cmToRaw c2) = AssocP.cmAgree c1 c2 := by
  unfold dictsDontConflict AssocP.cmAgree cmToRaw
  rw [List.all_map]
  congr 1
  funext p
  simp only [Function.comp_def]
  have := alookup_cmToRaw c2 p.1
  unfold cmToRaw at this
  rw [this]
  cases alookup c2 p.1 with
  | none => rfl
  | some d =>
    simp only [Option.map_some]
    by_cases hd : d = p.2
    · subst hd; simp
    · have hne : (p.2 : Int) ≠ (d : Int) := by intro hh; apply hd; exact_mod_cast hh.symm
      have h1 : ((p.2 : Int) != (d : Int)) = true := by simpa [bne_iff_ne] using hne
      have h2 : (d == p.2) = false := by simpa using hd
      rw [h1, h2]; rfl

/-- `ia.matches(ib)` implies contractibility of the pair of legs in the model's WEAK sense
    (`contractibleCommonB`: opposite directions, equal sizes on the charges both tables list) -/
theorem matches_implies_agree (ia ib : Index)
    (h : RIndex.matchesE (indexToRaw ia) (indexToRaw ib) = .ok true) :
    AssocP.cmAgree ia.cm ib.cm = true ∧ (ia.dual != ib.dual) = true := by
  have key : ∀ (x y : RIndex), RIndex.matchesE x y = .ok true →
      dictsDontConflict (fun (x y : Int) => x != y) x.cm y.cm = true ∧ (x.dual != y.dual) = true := by
    intro x y hxy
    obtain ⟨c1, e1, s1⟩ := x
    obtain ⟨c2, e2, s2⟩ := y
    exact matchesE_true_implies c1 c2 e1 e2 s1 s2 hxy
  have := key _ _ h
  rw [indexToRaw_cm, indexToRaw_cm, indexToRaw_dual, indexToRaw_dual, ddc_raw_eq_cmAgree] at this
  exact this

theorem pyIdx_nat {α : Type} (l : List α) (n : Nat) : pyIdx l (n : Int) = l[n]? := by
  unfold pyIdx; simp

/-- `a.check_with(b, axes_a, axes_b)` accepting (non-negative axes, as many on both sides — the
    audit does not compare the two lengths) implies that the pair is contractible in the model's
    weak sense `contractibleCommonB` -/
theorem checkWith_implies_contractibleCommon (a b : Arr R) (xa xb : List Nat)
    (hlen : xa.length = xb.length)
    (h : (arrToRaw a).checkWith (arrToRaw b) (xa.map (fun (n : Nat) => (n : Int)))
          (xb.map (fun (n : Nat) => (n : Int))) = .ok ()) :
    AssocP.contractibleCommonB a b xa xb = true := by
  unfold RArr.checkWith at h
  split at h
  · cases h
  · rw [forE_ok_iff] at h
    unfold AssocP.contractibleCommonB
    simp only [Bool.and_eq_true, beq_iff_eq, List.all_eq_true]
    refine ⟨hlen, ?_⟩
    intro p hp
    have hp' : (((p.1 : Nat) : Int), ((p.2 : Nat) : Int)) ∈
        (xa.map (fun (n : Nat) => (n : Int))).zip (xb.map (fun (n : Nat) => (n : Int))) := by
      rw [List.zip_map]; exact List.mem_map.mpr ⟨p, hp, rfl⟩
    have hh := h _ hp'
    have hia : (arrToRaw a).indices = a.indices.map indexToRaw := by
      simp [arrToRaw, indexListToRaw_eq_map]
    have hib : (arrToRaw b).indices = b.indices.map indexToRaw := by
      simp [arrToRaw, indexListToRaw_eq_map]
    simp only [pyIdx_nat, hia, hib, List.getElem?_map] at hh
    cases h1 : a.indices[p.1]? with
    | none => rw [h1] at hh; simp at hh
    | some ia =>
      cases h2 : b.indices[p.2]? with
      | none => rw [h1, h2] at hh; simp at hh
      | some ib =>
        rw [h1, h2] at hh
        simp only [Option.map_some] at hh
        have hm : RIndex.matchesE (indexToRaw ia) (indexToRaw ib) = .ok true := by
          cases hme : RIndex.matchesE (indexToRaw ia) (indexToRaw ib) with
          | error e => rw [hme] at hh; cases hh
          | ok v => cases v with
            | true => rfl
            | false => rw [hme] at hh; cases hh
        have hg1 : a.indices.getD p.1 default = ia := by
          rw [List.getD_eq_getElem?_getD, h1]; rfl
        have hg2 : b.indices.getD p.2 default = ib := by
          rw [List.getD_eq_getElem?_getD, h2]; rfl
        rw [hg1, hg2]
        exact matches_implies_agree ia ib hm

example :
    let a : Arr Int := { sym := .U1, fermi := false, indices := [ckIx2], charge := (0, 0), blocks := [] }
    let b : Arr Int := { sym := .U1, fermi := false, indices := [ckIx2.conj], charge := (0, 0), blocks := [] }
    (arrToRaw a).checkWith (arrToRaw b) [((0 : Nat) : Int)] [((0 : Nat) : Int)] = .ok () := by decide

/-- … but NOT in the strong sense `contractibleB` (equal tables) used as the documented
    precondition of a contraction: `matches` accepts a table with a dropped charge -/
theorem matches_not_contractibleB :
    let a : Arr Int := { sym := .U1, fermi := false, indices := [ckIx2], charge := (0, 0), blocks := [] }
    let b : Arr Int := { sym := .U1, fermi := false, indices := [.mk [((0, 0), 1)] true none],
                         charge := (0, 0), blocks := [] }
    a.validB = true ∧ b.validB = true
    ∧ (arrToRaw a).checkWith (arrToRaw b) [0] [0] = .ok ()
    ∧ (arrToRaw b).checkWith (arrToRaw a) [0] [0] = .ok ()
    ∧ contractibleB a b [0] [0] = false
    ∧ AssocP.contractibleCommonB a b [0] [0] = true := by decide

/-- `check_with` does not compare the NUMBER of axes (`zip` truncates), and the asymmetric
    AttributeError: a fused leg against a plain one raises instead of answering -/
theorem checkWith_ignores_axes_length :
    let a : Arr Int := { sym := .U1, fermi := false, indices := [ckIx2], charge := (0, 0), blocks := [] }
    (arrToRaw a).checkWith (arrToRaw a) [0] [] = .ok ()
    ∧ AssocP.contractibleCommonB a a [0] [] = false
    ∧ RIndex.matchesE (indexToRaw (ckFusedWith [ckSub, ckSub] ckExts))
        (indexToRaw (Index.mk [((0, 0), 1), ((1, 0), 2), ((2, 0), 1)] true none)) = .error Err.attr
    ∧ RIndex.matchesE (indexToRaw (Index.mk [((0, 0), 1), ((1, 0), 2), ((2, 0), 1)] true none))
        (indexToRaw (ckFusedWith [ckSub, ckSub] ckExts)) = .error Err.attr := by decide

end SymmModel.C01
