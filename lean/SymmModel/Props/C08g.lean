/-
  Property C08 (with clauses of C01 / C16 / C20), part g — sparsity management.

  Everything is about the literal models of Model/Sparse.lean:
    `Arr.fillMissing`  (AbelianArray.fill_missing_blocks),  `Arr.dropMissing` (drop_missing_blocks),
    `Arr.getSparsity`  (get_sparsity),  `Arr.allclose` (AbelianArray.allclose / FermionicArray.allclose),
    `Arr.getParams` / `Arr.setParams` (BlockBase.get_params / set_params),
  the value view `Arr.elem` and the dense form `Arr.toDenseA` (Model/Arr.lean), the validity predicate
  `Arr.validB` (Model/Valid.lean) and the sector enumeration `Arr.genValidSectors`, for EVERY array
  (all symmetries, ranks, sparsity patterns, abelian and fermionic with pending signs) over an arbitrary
  scalar type `R` with `[Zero R]`, a lawful `==` (`LawfulBEq R`) where zero tests occur, and `- - x = x`,
  `-0 = 0` (`Lazy.LawfulNeg R`) where pending signs occur.  Instances: `Int`, `GRat`.

  The only hypothesis on arrays is `a.validB = true` (and, for `allclose`, that the two operands have the
  same index tables and the same class); `fillMissing_elem`, `fillMissing_toDense`, `fillMissing_frame`,
  `fillMissing_idem`, `setParams_lookup`, `setParams_sectors` need no hypothesis at all.

  Tolerance: `allclose` is modelled on exact data (see the header of Model/Sparse.lean); the theorems say
  what the exact comparison decides.
-/
import SymmModel.Proofs.SparseLemmas

namespace SymmModel.C08
open SymmModel Arr SparseP

variable {R : Type}

/-! ## 1. `fill_missing_blocks` -/

section fill
variable [Zero R]

/-- on a valid array the fill never raises (`get_block_shape` is only asked for enumerated sectors) -/
theorem fillMissing_ok (a : Arr R) (hv : a.validB = true) : ∃ a', a.fillMissing = .ok a' := by
  have g := Good.of_valid hv
  unfold Arr.fillMissing
  rw [fill_fold a.indices _ _ g.gen_nodup (fun s hs => g.gen_shape hs)]
  exact ⟨_, rfl⟩

/-- the resulting dict, order included: the stored blocks in their stored order (untouched), followed
    by a zero block of the prescribed shape for every missing valid sector, in enumeration order -/
theorem fillMissing_blocks (a : Arr R) (hv : a.validB = true) :
    a.fillMissing = .ok { a with blocks := (a.blocks ++
      (a.genValidSectors.filter (fun s => !a.sectors.contains s)).map
        (fun s => (s, Blk.zeros ((blockShape? a.indices s).getD [])))) } := by
  have g := Good.of_valid hv
  unfold Arr.fillMissing
  rw [fill_fold a.indices _ _ g.gen_nodup (fun s hs => g.gen_shape hs)]
  rfl

/-- only the block dict changes: symmetry, class, index tables, total charge, the pending-sign table
    and the labels are untouched — every array -/
theorem fillMissing_frame (a a' : Arr R) (h : a.fillMissing = .ok a') :
    a'.sym = a.sym ∧ a'.fermi = a.fermi ∧ a'.indices = a.indices ∧ a'.charge = a.charge
      ∧ a'.phases = a.phases ∧ a'.oddpos = a.oddpos := by
  obtain ⟨bl, _, rfl⟩ := fillMissing_ok_iff.mp h
  exact ⟨rfl, rfl, rfl, rfl, rfl, rfl⟩

/-- the value view is unchanged at every address — every array, pending signs included -/
theorem fillMissing_elem [Neg R] [Lazy.LawfulNeg R] (a a' : Arr R) (h : a.fillMissing = .ok a')
    (s : Sector) (off : List Nat) : a'.elem s off = a.elem s off :=
  SparseP.fillMissing_elem h s off

/-- **the dense form is unchanged by the fill** — every array -/
theorem fillMissing_toDense [Neg R] [Lazy.LawfulNeg R] (a a' : Arr R) (h : a.fillMissing = .ok a') :
    a'.toDenseA = a.toDenseA :=
  toDenseA_congr_elem (fillMissing_frame a a' h).2.2.1 (SparseP.fillMissing_elem h)

/-- the filled array is valid -/
theorem fillMissing_valid (a a' : Arr R) (hv : a.validB = true) (h : a.fillMissing = .ok a') :
    a'.validB = true := by
  have g := Good.of_valid hv
  rw [fillMissing_blocks a hv] at h
  cases h
  apply validB_with_blocks hv
  · have hk := newBlocks_keys (R := R) a.indices a.sectors a.genValidSectors
    simp only [newBlocks] at hk
    rw [List.map_append, hk]
    refine List.nodup_append.mpr ⟨g.nodup, g.gen_nodup.filter _, ?_⟩
    intro x hx y hy e
    subst e
    simp only [List.mem_filter, Bool.not_eq_true', List.contains_eq_mem, decide_eq_false_iff_not] at hy
    exact hy.2 hx
  · intro p hp
    rcases List.mem_append.mp hp with hp | hp
    · exact g.stored p hp
    · obtain ⟨h1, _, h3⟩ := newBlocks_zero (idx := a.indices) (keys := a.sectors) hp
      obtain ⟨hf, hval⟩ := (g.mem_gen p.1).mp h1
      obtain ⟨shp, hshp⟩ := Option.isSome_iff_exists.mp (g.gen_shape h1)
      refine ⟨?_, hval, ?_, ?_⟩
      · simpa [Arr.ndim] using hf.length_eq
      · rw [h3, hshp]; rfl
      · rw [h3]; exact wf_zeros _

/-- **after the fill exactly the valid sectors are stored** (none missing, none extra) -/
theorem fillMissing_sectors (a a' : Arr R) (hv : a.validB = true) (h : a.fillMissing = .ok a')
    (s : Sector) : s ∈ a'.sectors ↔ s ∈ a.genValidSectors := by
  have g := Good.of_valid hv
  rw [fillMissing_blocks a hv] at h
  cases h
  have hk := newBlocks_keys (R := R) a.indices a.sectors a.genValidSectors
  simp only [newBlocks, Arr.sectors] at hk
  simp only [Arr.sectors, List.map_append]
  rw [hk, List.mem_append]
  constructor
  · rintro (h1 | h1)
    · exact g.stored_mem_gen h1
    · exact (List.mem_filter.mp h1).1
  · intro h1
    by_cases hm : s ∈ a.blocks.map (·.1)
    · exact Or.inl hm
    · exact Or.inr (List.mem_filter.mpr ⟨h1, by simpa using hm⟩)

/-- … that is (C17.genValidSectors_exact): a sector is stored after the fill iff it has one charge per
    index, each charge available on its index, and it conserves the total charge -/
theorem fillMissing_sectors_exact (a a' : Arr R) (hv : a.validB = true) (h : a.fillMissing = .ok a')
    (s : Sector) :
    s ∈ a'.sectors ↔
      (s.length = a.ndim
        ∧ (∀ (i : Nat) (h₁ : i < s.length) (h₂ : i < a.indices.length), s[i] ∈ (a.indices[i]).charges)
        ∧ a.isValidSector s = true) := by
  have g := Good.of_valid hv
  rw [fillMissing_sectors a a' hv h s]
  exact C17.genValidSectors_exact a g.cvalid g.chvalid s

/-- "resulting in a sparsity of 1": afterwards `get_sparsity` is `n / n` (or raises when `n = 0`) -/
theorem fillMissing_sparsity (a a' : Arr R) (hv : a.validB = true) (h : a.fillMissing = .ok a') :
    a'.blocks.length = a'.genValidSectors.length
      ∧ (a.genValidSectors ≠ [] →
          a'.getSparsity = .ok (a.genValidSectors.length, a.genValidSectors.length)) := by
  have g := Good.of_valid hv
  have hv' := fillMissing_valid a a' hv h
  have g' := Good.of_valid hv'
  have hgen : a'.genValidSectors = a.genValidSectors := by
    obtain ⟨bl, _, rfl⟩ := fillMissing_ok_iff.mp h
    rfl
  have hlen : a'.blocks.length = a.genValidSectors.length := by
    have hperm : a'.sectors.Perm a.genValidSectors :=
      (List.perm_ext_iff_of_nodup g'.nodup g.gen_nodup).mpr (fillMissing_sectors a a' hv h)
    have := hperm.length_eq
    simpa [Arr.sectors] using this
  refine ⟨by rw [hgen]; exact hlen, fun hne => ?_⟩
  unfold Arr.getSparsity
  rw [hgen, hlen]
  have : (a.genValidSectors.length == 0) = false := by
    simpa using hne
  simp [this]

/-- filling is idempotent (exact structural equality) — every array -/
theorem fillMissing_idem (a a' : Arr R) (h : a.fillMissing = .ok a') : a'.fillMissing = .ok a' := by
  obtain ⟨bl, hf, rfl⟩ := fillMissing_ok_iff.mp h
  exact fillMissing_ok_iff.mpr
    ⟨bl, fill_fold_noop a.indices _ bl (fill_fold_present a.indices _ _ _ hf).1, rfl⟩

end fill

/-! ## 2. `drop_missing_blocks` -/

section drop
variable [Zero R] [BEq R]

/-- the resulting dict, order included: exactly the all-zero blocks are deleted -/
theorem dropMissing_blocks (a : Arr R) (hv : a.validB = true) :
    a.dropMissing = { a with blocks := a.blocks.filter (fun p => !p.2.isZero) } :=
  dropMissing_eq (Good.of_valid hv).nodup

/-- no all-zero block is stored afterwards -/
theorem dropMissing_noZero (a : Arr R) (hv : a.validB = true) :
    ∀ p ∈ a.dropMissing.blocks, p.2.isZero = false := by
  rw [dropMissing_blocks a hv]
  intro p hp
  have := (List.mem_filter.mp hp).2
  simpa using this

/-- the value view is unchanged at every address (pending signs included; the sign entry of a
    deleted block stays behind and is harmless) -/
theorem dropMissing_elem [LawfulBEq R] [Neg R] [Lazy.LawfulNeg R] (a : Arr R) (hv : a.validB = true)
    (s : Sector) (off : List Nat) : a.dropMissing.elem s off = a.elem s off :=
  SparseP.dropMissing_elem (Good.of_valid hv).nodup s off

/-- **the dense form is unchanged by the drop** -/
theorem dropMissing_toDense [LawfulBEq R] [Neg R] [Lazy.LawfulNeg R] (a : Arr R)
    (hv : a.validB = true) : a.dropMissing.toDenseA = a.toDenseA :=
  toDenseA_congr_elem rfl (SparseP.dropMissing_elem (Good.of_valid hv).nodup)

/-- the result is valid -/
theorem dropMissing_valid (a : Arr R) (hv : a.validB = true) : a.dropMissing.validB = true := by
  have g := Good.of_valid hv
  rw [dropMissing_blocks a hv]
  exact validB_with_blocks hv _ (nodup_keys_filter g.nodup _)
    (fun p hp => g.stored p (List.mem_filter.mp hp).1)

/-- dropping is idempotent -/
theorem dropMissing_idem (a : Arr R) (hv : a.validB = true) :
    a.dropMissing.dropMissing = a.dropMissing := by
  rw [dropMissing_blocks _ (dropMissing_valid a hv), dropMissing_blocks a hv]
  simp only [List.filter_filter, Bool.and_self]

/-- **drop ∘ fill = drop**: the zero blocks the fill creates are exactly removed again (exact
    structural equality, dict order included) -/
theorem drop_fill [LawfulBEq R] (a a' : Arr R) (hv : a.validB = true) (h : a.fillMissing = .ok a') :
    a'.dropMissing = a.dropMissing := by
  rw [dropMissing_blocks a' (fillMissing_valid a a' hv h), dropMissing_blocks a hv]
  rw [fillMissing_blocks a hv] at h
  cases h
  simp only [List.filter_append]
  have : List.filter (fun (p : Sector × Blk R) => !p.2.isZero)
      ((a.genValidSectors.filter (fun s => !a.sectors.contains s)).map
        (fun s => (s, Blk.zeros ((blockShape? a.indices s).getD [])))) = [] := by
    rw [List.filter_eq_nil_iff]
    intro p hp
    obtain ⟨s, _, rfl⟩ := List.mem_map.mp hp
    simp [isZero_zeros]
  rw [this, List.append_nil]

/-- **fill ∘ drop versus fill**: the same value view, the same dense form, the same stored sector set
    (the dict orders may differ) -/
theorem fill_drop [LawfulBEq R] [Neg R] [Lazy.LawfulNeg R] (a c c' : Arr R) (hv : a.validB = true)
    (h1 : a.dropMissing.fillMissing = .ok c) (h2 : a.fillMissing = .ok c') :
    (∀ s off, c.elem s off = c'.elem s off) ∧ c.toDenseA = c'.toDenseA
      ∧ (∀ s, s ∈ c.sectors ↔ s ∈ c'.sectors) := by
  have he : ∀ s off, c.elem s off = c'.elem s off := fun s off => by
    rw [SparseP.fillMissing_elem h1, SparseP.fillMissing_elem h2, dropMissing_elem a hv]
  have hi : c.indices = c'.indices := by
    rw [(fillMissing_frame _ c h1).2.2.1, (fillMissing_frame _ c' h2).2.2.1, dropMissing_blocks a hv]
  refine ⟨he, toDenseA_congr_elem hi he, fun s => ?_⟩
  rw [fillMissing_sectors _ c (dropMissing_valid a hv) h1, fillMissing_sectors _ c' hv h2,
    dropMissing_blocks a hv]
  exact Iff.rfl

end drop

/-! ## 3. `allclose` -/

section close
variable [Zero R] [Neg R] [BEq R] [LawfulBEq R] [Lazy.LawfulNeg R]

/-- **`allclose` decides equality of the value views**: for two valid arrays of the same class over the
    same index tables, `x.allclose(y)` holds iff the stored number times the pending sign (zero for a
    sector that is not stored) agrees at every address -/
theorem allclose_iff_elem (a b : Arr R) (ha : a.validB = true) (hb : b.validB = true)
    (hi : a.indices = b.indices) (hf : a.fermi = b.fermi) :
    a.allclose b = true ↔ ∀ s off, a.elem s off = b.elem s off := by
  have ga := (Good.of_valid ha).shaped
  have gb := (Good.of_valid hb).shaped
  rw [← hi] at gb
  unfold Arr.allclose
  by_cases hfa : a.fermi = true
  · rw [if_pos hfa]
    exact allcloseF_iff_elem ga gb
  · have hfa' : a.fermi = false := by simpa using hfa
    rw [if_neg hfa]
    exact allcloseA_iff_elem ((validB_facts a ha).2.2.2.2.2 hfa')
      ((validB_facts b hb).2.2.2.2.2 (hf ▸ hfa')) ga gb

theorem allclose_refl (a : Arr R) (ha : a.validB = true) : a.allclose a = true :=
  (allclose_iff_elem a a ha ha rfl rfl).mpr (fun _ _ => rfl)

/-- `x.allclose(y) == y.allclose(x)` -/
theorem allclose_symm (a b : Arr R) (ha : a.validB = true) (hb : b.validB = true)
    (hi : a.indices = b.indices) (hf : a.fermi = b.fermi) : a.allclose b = b.allclose a := by
  rw [Bool.eq_iff_iff, allclose_iff_elem a b ha hb hi hf, allclose_iff_elem b a hb ha hi.symm hf.symm]
  exact ⟨fun h s off => (h s off).symm, fun h s off => (h s off).symm⟩

theorem allclose_trans (a b c : Arr R) (ha : a.validB = true) (hb : b.validB = true)
    (hc : c.validB = true) (hab : a.indices = b.indices) (hbc : b.indices = c.indices)
    (fab : a.fermi = b.fermi) (fbc : b.fermi = c.fermi)
    (h1 : a.allclose b = true) (h2 : b.allclose c = true) : a.allclose c = true := by
  rw [allclose_iff_elem a b ha hb hab fab] at h1
  rw [allclose_iff_elem b c hb hc hbc fbc] at h2
  exact (allclose_iff_elem a c ha hc (hab.trans hbc) (fab.trans fbc)).mpr
    (fun s off => (h1 s off).trans (h2 s off))

/-- close arrays have the same dense form -/
theorem allclose_toDense (a b : Arr R) (ha : a.validB = true) (hb : b.validB = true)
    (hi : a.indices = b.indices) (hf : a.fermi = b.fermi) (h : a.allclose b = true) :
    a.toDenseA = b.toDenseA :=
  toDenseA_congr_elem hi ((allclose_iff_elem a b ha hb hi hf).mp h)

/-- observationally equal arrays (C09.ObsEq: same tables, same stored skeleton, same value view) are
    close; `allclose` is coarser only in that it does not look at which zero blocks are stored -/
theorem allclose_of_obsEq (a b : Arr R) (ha : a.validB = true) (hb : b.validB = true)
    (h : Lazy.ObsEq a b) : a.allclose b = true :=
  (allclose_iff_elem a b ha hb h.indices h.fermi).mpr h.elem

/-- the sparsity pattern is invisible to `allclose`: an array is close to its filled and to its
    dropped form -/
theorem allclose_fill_drop (a a' : Arr R) (ha : a.validB = true) (h : a.fillMissing = .ok a') :
    a.allclose a' = true ∧ a.allclose a.dropMissing = true := by
  constructor
  · have fr := fillMissing_frame a a' h
    exact (allclose_iff_elem a a' ha (fillMissing_valid a a' ha h) fr.2.2.1.symm fr.2.1.symm).mpr
      (fun s off => (SparseP.fillMissing_elem h s off).symm)
  · have hd := dropMissing_blocks a ha
    exact (allclose_iff_elem a a.dropMissing ha (dropMissing_valid a ha) (by rw [hd]) (by rw [hd])).mpr
      (fun s off => (dropMissing_elem a ha s off).symm)

end close

/-! ## 4. `get_params` / `set_params` -/

section params

/-- **`set_params(get_params())` is the identity** (stored sectors distinct) -/
theorem setParams_getParams (a : Arr R) (hv : a.validB = true) : a.setParams a.getParams = a := by
  have hnd := (validB_facts a hv).2.1
  unfold Arr.setParams Arr.getParams
  rw [setParams_noop a.blocks a.blocks (fun p hp => alookup_of_mem_nodup hnd hp)]

/-- `dict.update`: afterwards a key has the LAST value given for it, any other key its old value -/
theorem setParams_lookup (a : Arr R) (ps : List (Sector × Blk R)) (k : Sector) :
    alookup (a.setParams ps).blocks k = (alookup ps.reverse k).or (alookup a.blocks k) :=
  SparseP.setParams_lookup ps a.blocks k

/-- … the existing keys keep their positions, new keys are appended; nothing else changes -/
theorem setParams_sectors (a : Arr R) (ps : List (Sector × Blk R)) :
    (∃ extra, (a.setParams ps).sectors = a.sectors ++ extra
      ∧ ∀ k ∈ extra, k ∈ ps.map (·.1) ∧ k ∉ a.sectors)
    ∧ (a.setParams ps).phases = a.phases ∧ (a.setParams ps).indices = a.indices
    ∧ (a.setParams ps).charge = a.charge :=
  ⟨SparseP.setParams_keys ps a.blocks, rfl, rfl, rfl⟩

end params

/-! ## 5. the hypotheses are satisfiable; the model on a concrete array -/

section Examples

/-- Z2, 3 × 3 with charges {0: 1, 1: 2} outgoing and {0: 2, 1: 1} incoming, total charge 0; only the
    sector (1, 1) is stored -/
def exSparse : Arr Int :=
  { sym := .Z2, fermi := false, charge := (0, 0),
    indices := [Index.mk [((0, 0), 1), ((1, 0), 2)] false none,
                Index.mk [((0, 0), 2), ((1, 0), 1)] true none],
    blocks := [([(1, 0), (1, 0)], ⟨[2, 1], #[3, -4]⟩)] }

/-- the same with an explicitly stored zero block first -/
def exZero : Arr Int :=
  { exSparse with blocks := [([(0, 0), (0, 0)], ⟨[1, 2], #[0, 0]⟩), ([(1, 0), (1, 0)], ⟨[2, 1], #[3, -4]⟩)] }

/-- a fermionic array with a pending sign on its only block -/
def exFermi : Arr Int :=
  { exSparse with fermi := true, phases := [([(1, 0), (1, 0)], -1)] }

example : exSparse.validB = true ∧ exZero.validB = true ∧ exFermi.validB = true := by decide

example : (exSparse.fillMissing.toOption.map Arr.sectors) = some [[(1, 0), (1, 0)], [(0, 0), (0, 0)]] := by
  decide

example : exZero.dropMissing.sectors = [[(1, 0), (1, 0)]] ∧ exSparse.getSparsity = .ok (1, 2) := by
  decide +kernel

example : exSparse.allclose exZero = true ∧ exZero.allclose exSparse = true
    ∧ exFermi.allclose exFermi = true ∧ exFermi.allclose { exFermi with phases := [] } = false := by
  decide +kernel

example : Lazy.LawfulNeg Int ∧ Lazy.LawfulNeg GRat := ⟨inferInstance, inferInstance⟩

end Examples

end SymmModel.C08
