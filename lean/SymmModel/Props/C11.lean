/-
  Property C11 — decompositions reconstruct the input from properly structured factors.

  Theorems about `qrA`, `svdA`, `applyCounts`, `eighA`, `solveA` (Model/Linalg.lean), for every
  symmetry, every valid matrix (any number of blocks, block shapes, charge, directions, pending
  signs) and an arbitrary scalar type `R`.  The per-block factorisations are the PARAMETER
  `K : Kernels R`; nothing is assumed about them except the explicit hypotheses

    `K.ShapeOk`      (Proofs/LinalgFactors.lean)  reduced LAPACK shapes, well-formed blocks
    `K.QRContract`   (Proofs/LinalgRecon.lean)    Σ_t q[i,t]·r[t,j] = b[i,j]
    `K.SVDContract`  (Proofs/LinalgRecon.lean)    Σ_t (u[i,t]·s[t])·vh[t,j] = b[i,j]

  which are satisfiable: `Kernels.shapeOnly` (any `R` with a zero) meets `ShapeOk`,
  `Kernels.trivialFactor` over `Int` meets all three (examples at the end).  The numeric clauses
  of LAPACK's contract that are not used here (orthonormal columns/rows, triangular `R`, sorted
  non-negative singular values) are inherited blockwise through
  `factor_blocks_are_kernel_outputs`; validating them on real outputs is the harness's part.

  Structure (no value contract):  `bond_index_spec_qr/svd`, `factor_blocks_are_kernel_outputs`,
  `qrA_valid`, `svdA_valid`, `eighA_valid`, `solveA_valid` (+ the counterexample
  `solve_odd_matrix_invalid`), `applyCounts_valid`.
  Values (under the value contract):  `qr_reconstructs`, `svd_reconstructs` for abelian arrays
  with the library's blockwise contraction; `qr_reconstructs_fermionic`,
  `svd_reconstructs_fermionic` for fermionic arrays with `q @ r` (`FermionicArray.__matmul__`,
  model `Arr.matmulF`), arbitrary pending signs on the input, at most one odd-position label.

  `solve_solves` (abelian): `a · solve(a, b) = b` on the paired blocks under the per-call
  value contract `K.SolvesOn a b` (Proofs/LinalgSolveRecon.lean).

  NOT proved here (see the final report): `eigh_reconstructs`; `solve_solves` for fermionic
  arrays; the fermionic reconstruction through `tensordot_fermionic` in fused mode and for
  inputs carrying more than one odd-position label.
-/
import SymmModel.Proofs.LinalgFactors
import SymmModel.Proofs.LinalgSolve
import SymmModel.Proofs.LinalgTrunc
import SymmModel.Proofs.LinalgRecon
import SymmModel.Proofs.LinalgFermi
import SymmModel.Proofs.LinalgSolveRecon

namespace SymmModel.C11
open SymmModel LinalgLemmas

variable {R : Type}

/-- column charge of a matrix sector -/
abbrev col (s : Sector) : Charge := s.getD 1 (0, 0)

/-- what `qr` / `svd` promise about the new bond index `bond` and the two factors `q` (left:
    `Q`, `U`) and `r` (right: `R`, `VH`) of the matrix `x` -/
structure BondSpec (x q r : Arr R) (bond : Index) : Prop where
  /-- one entry per input block: its column charge with size `min m n`, sorted by charge -/
  cm : bond.cm = Index.sortCm
        (x.blocks.map (fun p => (col p.1, min (p.2.shape.getD 0 0) (p.2.shape.getD 1 0))))
  sorted : isSortedStrict Charge.lt (bond.cm.map (·.1)) = true
  charges : bond.charges.Perm (x.sectors.map col)
  one_per_block : (x.sectors.map col).Nodup
  /-- direction of the input's column index on the left factor, opposite on the right -/
  dual : bond.dual = (x.indices.getD 1 default).dual
  plain : bond.sub = none
  left_indices : q.indices = [x.indices.getD 0 default, bond]
  right_indices : r.indices = [bond.conj, x.indices.getD 1 default]
  opposite : bond.conj.dual = !bond.dual ∧ bond.conj.cm = bond.cm
  /-- the right factor has identity charge and only diagonal sectors -/
  right_charge : r.charge = x.sym.zero
  right_sectors : r.sectors = x.sectors.map (fun s => [col s, col s])
  right_rest : r.sym = x.sym ∧ r.fermi = x.fermi ∧ r.oddpos = []
  /-- pending signs of the right factor: only for a fermionic input whose column index is not
      dual (the right factor's bond index is then dual): `-1` on the odd diagonal sectors -/
  right_phases : r.phases =
    if x.fermi && !(x.indices.getD 1 default).dual then
      ((x.sectors.map (fun s => [col s, col s])).filter
        (fun s => x.sym.parity (s.getD 0 (0, 0)))).map (fun s => (s, (-1 : Int)))
    else []
  /-- the left factor keeps the input's sectors, charge, pending signs and labels -/
  left_keeps : q.sectors = x.sectors ∧ q.charge = x.charge ∧ q.phases = x.phases
    ∧ q.oddpos = x.oddpos ∧ q.sym = x.sym ∧ q.fermi = x.fermi

theorem bondSpec_factors {x : Arr R} {L Rt : Blk R → Blk R} (hv : x.validB = true)
    (h2 : x.ndim = 2) (hL : FacShape L Rt) :
    BondSpec x (leftF x L) (rightF x L Rt) (bondIx x L) := by
  obtain ⟨i0, i1, hi⟩ := ndim_two h2
  have hcm : (bondIx x L).cm = Index.sortCm (bondCm x L) := by rw [bondIx_eq hi]; rfl
  have hnd := bondCm_keys_nodup (L := L) hv h2
  have hkeys : (bondCm x L).map (·.1) = x.sectors.map col := by
    simp [bondCm, Arr.sectors, List.map_map, Function.comp_def, colOf]
  obtain ⟨f1, f2, f3, f4, f5, f6⟩ := rightF_fields (x := x) (L := L) (Rt := Rt)
  have hi1 : x.indices.getD 1 default = i1 := by simp [hi]
  refine ⟨by rw [hcm, bondCm_eq hv hi hL], by rw [hcm]; exact sortCm_sorted _ hnd, ?_,
    by rw [← hkeys]; exact hnd, by rw [bondIx_eq hi, hi1]; rfl, by rw [bondIx_eq hi]; rfl, rfl, f3,
    ⟨conj_dual _, conj_cm _⟩, f4, ?_, ⟨f1, f2, f6⟩, ?_, ?_⟩
  · rw [← hkeys]; unfold Index.charges; rw [hcm]; exact (sortCm_perm _).map _
  · simp [Arr.sectors, f5, List.map_map, Function.comp_def, colOf]
  · rw [rightF_phases hv h2 hi, hi1]; rfl
  · exact ⟨by simp [leftF, Arr.sectors, List.map_map, Function.comp_def], rfl, rfl, rfl, rfl, rfl⟩

theorem facShape_qr {K : Kernels R} (hK : K.ShapeOk) :
    FacShape (fun b => (K.qr b).1) (fun b => (K.qr b).2) :=
  fun b m n h1 h2 => hK.qr b m n h1 h2

theorem facShape_svd {K : Kernels R} (hK : K.ShapeOk) :
    FacShape (fun b => (K.svd b).1) (fun b => (K.svd b).2.2) :=
  fun b m n h1 h2 => by
    obtain ⟨a1, a2, _, _, a5, a6⟩ := hK.svd b m n h1 h2
    exact ⟨a1, a2, a5, a6⟩

/-- **bond_index_spec (qr).**  For every valid matrix and shape-correct kernel `qr` succeeds and
    its factors and bond index meet `BondSpec`. -/
theorem bond_index_spec_qr (K : Kernels R) (hK : K.ShapeOk) (x : Arr R) (hv : x.validB = true)
    (h2 : x.ndim = 2) :
    ∃ q r bond, qrA K x = .ok (q, r) ∧ BondSpec x q r bond :=
  ⟨_, _, _, qrA_eq K hv h2, bondSpec_factors hv h2 (facShape_qr hK)⟩

/-- **qrA_valid.**  Both factors of a valid matrix are valid arrays (abelian and fermionic,
    including the pending signs `qr_fermionic` puts on `r`). -/
theorem qrA_valid (K : Kernels R) (hK : K.ShapeOk) (x : Arr R) (hv : x.validB = true)
    (h2 : x.ndim = 2) :
    ∃ q r, qrA K x = .ok (q, r) ∧ q.validB = true ∧ r.validB = true := by
  obtain ⟨i0, i1, hi⟩ := ndim_two h2
  exact ⟨_, _, qrA_eq K hv h2, leftF_valid hv h2 hi (facShape_qr hK),
    rightF_valid hv h2 hi (facShape_qr hK)⟩

/-- **bond_index_spec (svd)**, with the singular-value vector: one 1-D block per input block,
    keyed by the block's column charge, of length `min m n` -/
theorem bond_index_spec_svd (K : Kernels R) (hK : K.ShapeOk) (x : Arr R) (hv : x.validB = true)
    (h2 : x.ndim = 2) :
    ∃ u s vh bond, svdA K x = .ok (u, s, vh) ∧ BondSpec x u vh bond
      ∧ s.blocks.map (·.1) = x.sectors.map col
      ∧ (∀ c sb, (c, sb) ∈ s.blocks → alookup bond.cm c = some (sb.shape.getD 0 0)
            ∧ sb.shape.length = 1 ∧ sb.wf = true) := by
  obtain ⟨i0, i1, hi⟩ := ndim_two h2
  refine ⟨_, _, _, _, svdA_eq K hv h2, bondSpec_factors hv h2 (facShape_svd hK), ?_, ?_⟩
  · simp [Arr.sectors, List.map_map, Function.comp_def, colOf]
  · intro c sb hm
    simp only [List.mem_map] at hm
    obtain ⟨⟨s0, b⟩, hmem, e⟩ := hm
    have e1 := (Prod.mk.inj e).1; have e2 := (Prod.mk.inj e).2
    simp only at e1 e2
    subst e1 e2
    obtain ⟨r, c, m, n, B⟩ := mat_block hv hi hmem
    obtain ⟨_, _, a3, a4, _, _⟩ := hK.svd b m n B.hshape B.hwf
    have hl := bondCm_lookup hv h2 (facShape_svd hK) hmem B
    have hc : colOf s0 = c := by simp [colOf, B.hs]
    rw [hc, a3, bondIx_eq hi]
    exact ⟨hl, rfl, a4⟩

/-- **svdA_valid.**  Both array factors of `svd` of a valid matrix are valid arrays. -/
theorem svdA_valid (K : Kernels R) (hK : K.ShapeOk) (x : Arr R) (hv : x.validB = true)
    (h2 : x.ndim = 2) :
    ∃ u s vh, svdA K x = .ok (u, s, vh) ∧ u.validB = true ∧ vh.validB = true := by
  obtain ⟨i0, i1, hi⟩ := ndim_two h2
  exact ⟨_, _, _, svdA_eq K hv h2, leftF_valid hv h2 hi (facShape_svd hK),
    rightF_valid hv h2 hi (facShape_svd hK)⟩

/-- **factor_blocks_are_kernel_outputs.**  Each block of `Q`/`R` (`U`/`s`/`VH`) is literally the
    kernel's output for the corresponding input block, so per-block properties promised by the
    kernel contract (orthonormal columns, triangular, sorted non-negative values) are inherited. -/
theorem factor_blocks_are_kernel_outputs (K : Kernels R) (x : Arr R) (hv : x.validB = true)
    (h2 : x.ndim = 2) :
    (∃ q r, qrA K x = .ok (q, r)
      ∧ q.blocks = x.blocks.map (fun p => (p.1, (K.qr p.2).1))
      ∧ r.blocks = x.blocks.map (fun p => ([col p.1, col p.1], (K.qr p.2).2)))
    ∧ (∃ u s vh, svdA K x = .ok (u, s, vh)
      ∧ u.blocks = x.blocks.map (fun p => (p.1, (K.svd p.2).1))
      ∧ s.blocks = x.blocks.map (fun p => (col p.1, (K.svd p.2).2.1))
      ∧ vh.blocks = x.blocks.map (fun p => ([col p.1, col p.1], (K.svd p.2).2.2))) :=
  ⟨⟨_, _, qrA_eq K hv h2, rfl, rightF_fields.2.2.2.2.1⟩,
   ⟨_, _, _, svdA_eq K hv h2, rfl, rfl, rightF_fields.2.2.2.2.1⟩⟩

/-- **eighA_valid.**  A successful `eigh` (the model raises unless the matrix has rank 2, charge
    zero and square blocks) returns a valid eigenvector array with the input's indices, charge,
    sectors and labels and no pending signs, and one eigenvalue block per stored block, keyed by
    the block's column charge and of that charge's size. -/
theorem eighA_valid [Neg R] (K : Kernels R) (hK : K.ShapeOk) (a : Arr R) (hv : a.validB = true)
    (w : BVec R) (v : Arr R) (h : eighA K a = .ok (w, v)) :
    a.ndim = 2 ∧ a.charge = a.sym.zero
    ∧ v.validB = true
    ∧ v.sym = a.sym ∧ v.fermi = a.fermi ∧ v.indices = a.indices ∧ v.charge = a.charge
    ∧ v.sectors = a.sectors ∧ v.oddpos = a.oddpos ∧ v.phases = []
    ∧ w.blocks.map (·.1) = a.sectors.map col
    ∧ (∀ c wb, (c, wb) ∈ w.blocks →
        ∃ m, alookup (a.indices.getD 1 default).cm c = some m ∧ wb.shape = [m] ∧ wb.wf = true) :=
  eighA_spec hK hv h

/-- **solveA_valid.**  `a` a valid matrix, `b` a valid vector over the same symmetry and of the
    same kind whose index has the direction of `a`'s row index; for fermionic arrays `a` even.
    A successful `solve` returns a valid vector on the conjugate of `a`'s column index with
    charge `c_b − c_A`. -/
theorem solveA_valid [Neg R] (K : Kernels R) (hK : K.ShapeOk) (a b : Arr R)
    (hva : a.validB = true) (hvb : b.validB = true)
    (hsym : a.sym = b.sym) (hfer : a.fermi = b.fermi)
    (hdir : (b.indices.getD 0 default).dual = (a.indices.getD 0 default).dual)
    (heven : a.fermi = true → a.parity = false)
    (x : Arr R) (h : solveA K a b = .ok x) :
    a.ndim = 2 ∧ b.ndim = 1 ∧ x.validB = true
    ∧ x.charge = a.sym.combine [b.charge, a.sym.sign a.charge true]
    ∧ x.indices = [(a.indices.getD 1 default).conj]
    ∧ x.sym = b.sym ∧ x.fermi = b.fermi ∧ x.oddpos = b.oddpos :=
  solveA_spec hK hva hvb hsym hfer hdir heven h

/-! known finding "solve-odd-matrix": for a fermionic ODD matrix the result keeps `b`'s labels
    while its charge changes parity, so it is not a valid array. -/

def oddA : Arr Int :=
  { sym := .Z2, fermi := true, charge := (1, 0),
    indices := [Index.mk [((0, 0), 1), ((1, 0), 1)] false none,
                Index.mk [((0, 0), 1), ((1, 0), 1)] true none],
    blocks := [([(0, 0), (1, 0)], ⟨[1, 1], #[2]⟩), ([(1, 0), (0, 0)], ⟨[1, 1], #[3]⟩)],
    oddpos := [(0, false)] }

def evenB : Arr Int :=
  { sym := .Z2, fermi := true, charge := (0, 0),
    indices := [Index.mk [((0, 0), 1), ((1, 0), 1)] false none],
    blocks := [([(0, 0)], ⟨[1], #[5]⟩)] }

/-- all hypotheses of `solveA_valid` except evenness of `a` hold, the call succeeds, and the
    result is invalid (the clause that fails is the label-parity clause) -/
theorem solve_odd_matrix_invalid :
    oddA.validB = true ∧ evenB.validB = true ∧ oddA.sym = evenB.sym ∧ oddA.fermi = evenB.fermi
    ∧ (evenB.indices.getD 0 default).dual = (oddA.indices.getD 0 default).dual
    ∧ oddA.parity = true
    ∧ (solveA Kernels.shapeOnly oddA evenB).toOption.map Arr.validB = some false
    ∧ (solveA Kernels.shapeOnly oddA evenB).toOption.map Arr.invalidReason = some "oddpos-parity" := by
  decide +kernel

/-! ## truncation step of `svd_truncated` -/

theorem zip_map_filter {α β γ : Type} (l : List α) (f : α → β) (c : List Nat)
    (G : β × Nat → γ) :
    (((l.map f).zip c).filter (fun p => p.2 != 0)).map G
      = ((l.zip c).filter (fun p => p.2 != 0)).map (fun t => G (f t.1, t.2)) := by
  rw [List.zip_map_left, List.filter_map, List.map_map]
  rfl

/-- **applyCounts_valid.**  `u, s, vh` the factors `svdA` returns for a valid matrix `x`;
    `counts` aligned with `u.sectors`, each count at most the bond size of its sector (the guard
    under which numpy's `[:n]` is the model's `sliceK`).  Then both truncated factors are valid,
    both carry the same new bond table — sorted, and a permutation of
    `{column charge ↦ count}` restricted to the non-zero counts — and the kept blocks are the
    old blocks sliced to the counts (sectors with count 0 are dropped), on `u`, `s` and `vh`. -/
theorem applyCounts_valid [Zero R] (K : Kernels R) (hK : K.ShapeOk) (x : Arr R)
    (hv : x.validB = true) (h2 : x.ndim = 2) (u : Arr R) (s : BVec R) (vh : Arr R)
    (hsvd : svdA K x = .ok (u, s, vh)) (counts : List Nat)
    (hlen : counts.length = u.sectors.length)
    (_hle : ∀ p ∈ u.blocks.zip counts, p.2 ≤ p.1.2.shape.getD 1 0) :
    ∃ u' s' vh' T, applyCounts u s vh counts = (u', s', vh')
      ∧ u'.validB = true ∧ vh'.validB = true
      ∧ (u'.indices.getD 1 default).cm = T ∧ (vh'.indices.getD 0 default).cm = T
      ∧ isSortedStrict Charge.lt (T.map (·.1)) = true
      ∧ T.Perm (((u.sectors.map col).zip counts).filter (fun p => p.2 != 0))
      ∧ u'.blocks = ((u.blocks.zip counts).filter (fun p => p.2 != 0)).map
          (fun t => (t.1.1, t.1.2.sliceK [0, 0] [t.1.2.shape.getD 0 0, t.2]))
      ∧ s'.blocks = ((s.blocks.zip counts).filter (fun p => p.2 != 0)).map
          (fun t => (t.1.1, t.1.2.sliceK [0] [t.2]))
      ∧ vh'.blocks = ((vh.blocks.zip counts).filter (fun p => p.2 != 0)).map
          (fun t => (t.1.1, t.1.2.sliceK [0, 0] [t.2, t.1.2.shape.getD 1 0])) := by
  obtain ⟨i0, i1, hi⟩ := ndim_two h2
  have h' := Except.ok.inj ((svdA_eq K hv h2).symm.trans hsvd)
  have hu := (Prod.mk.inj h').1
  have hs := (Prod.mk.inj (Prod.mk.inj h').2).1
  have hvh := (Prod.mk.inj (Prod.mk.inj h').2).2
  subst hu hs hvh
  have hlen' : counts.length = x.blocks.length := by
    rw [hlen, leftF_sectors]; simp [Arr.sectors]
  obtain ⟨hsorted, _, hperm⟩ := newCm_props (counts := counts) hv h2 hlen'
  refine ⟨_, _, _, _, applyCounts_eq (S := fun b => (K.svd b).2.1) hv h2 hlen', truncU_valid hv h2 hi (facShape_svd hK) hlen',
    truncV_valid hv h2 hi (facShape_svd hK) hlen', ?_, ?_, hsorted, ?_, ?_, ?_, ?_⟩
  · simp [truncU, bondIx_eq hi, withCm_mk]
  · simp [truncV, bondIx_eq hi, withCm_mk, Index.conj]
  · refine hperm.trans (List.Perm.of_eq ?_)
    rw [leftF_sectors, Arr.sectors, List.map_map, List.zip_map_left, List.filter_map]
    rfl
  · simp only [leftF, truncU]
    rw [zip_map_filter]; rfl
  · simp only [truncS]
    rw [zip_map_filter]; rfl
  · simp only [truncV]
    rw [rightF_fields.2.2.2.2.1, zip_map_filter]; rfl

/-! ## reconstruction under the VALUE contract (abelian arrays) -/

/-- **qr_reconstructs.**  Under the shape and value contracts of the QR kernel, for a valid
    ABELIAN matrix `x` the library's own contraction of the two factors over the bond
    (`_tensordot_blockwise`, axes `(1, 0)`) has the same element as `x` at every address: every
    offset inside the box of a stored block, and (both zero) every offset of a sector `x` does
    not store.  No ring law is used: each result sector receives exactly one aligned pair
    (C12 `matrix_sector_injective`), so nothing is accumulated across blocks. -/
theorem qr_reconstructs [Zero R] [Add R] [Mul R] [Neg R] (K : Kernels R) (hK : K.ShapeOk)
    (hC : K.QRContract) (x : Arr R) (hv : x.validB = true) (h2 : x.ndim = 2)
    (hf : x.fermi = false) :
    ∃ q r, qrA K x = .ok (q, r) ∧
      ∀ s off, AddrOf x s off →
        (tensordotBlockwise q r [0] [1] [0] [1]).elem s off = x.elem s off :=
  ⟨_, _, qrA_eq K hv h2, fun s off ha => qr_recon hK hC hv h2 hf s off ha⟩

/-- **svd_reconstructs.**  Likewise `(U · diag s) · VH = x` with `multiply_diagonal` on the bond
    axis of `U`. -/
theorem svd_reconstructs [Zero R] [Add R] [Mul R] [Neg R] (K : Kernels R) (hK : K.ShapeOk)
    (hC : K.SVDContract) (x : Arr R) (hv : x.validB = true) (h2 : x.ndim = 2)
    (hf : x.fermi = false) :
    ∃ u s vh, svdA K x = .ok (u, s, vh) ∧
      ∀ sec off, AddrOf x sec off →
        (tensordotBlockwise (multiplyDiagonal u s 1) vh [0] [1] [0] [1]).elem sec off
          = x.elem sec off :=
  ⟨_, _, _, svdA_eq K hv h2, fun s off ha => svd_recon hK hC hv h2 hf s off ha⟩

/-- **solve_solves** (abelian).  `a` a valid abelian matrix, `b` without pending signs, the solve
    kernel correct on the block pairs the call forms (`K.SolvesOn a b`).  Then the blockwise
    contraction `a · x` of the matrix with the returned solution has `b`'s element at every row
    of every block of `b` that is paired with a block of `a` (blocks of `b` whose row charge does
    not occur in `a` cannot be reproduced by any `x`; `solve` ignores them). -/
theorem solve_solves [Zero R] [Add R] [Mul R] [Neg R] (K : Kernels R) (hK : K.ShapeOk)
    (a b x : Arr R) (hva : a.validB = true) (hfa : a.fermi = false) (hbp : b.phases = [])
    (hS : K.SolvesOn a b) (h : solveA K a b = .ok x)
    (s : Sector) (arr bb : Blk R) (hm : (s, arr) ∈ a.blocks)
    (hl : alookup b.blocks [s.getD 0 (0, 0)] = some bb) (i : Nat) (hi : i < arr.shape.getD 0 0) :
    (tensordotBlockwise a x [0] [1] [0] []).elem [s.getD 0 (0, 0)] [i]
      = b.elem [s.getD 0 (0, 0)] [i] :=
  solve_recon hK hva hfa hbp hS h hm hl hi

/-! ## reconstruction, fermionic arrays -/

/-- **qr_reconstructs_fermionic.**  Fermionic valid matrix `x` with ARBITRARY pending signs and
    at most one odd-position label, scalars with the three sign laws `NegLaws` (instances: `Int`,
    `GRat`).  Then `q @ r` (`FermionicArray.__matmul__`: flip of the right operand's first axis
    when it is dual, `phase_sync` of both, blockwise contraction, label resolution) succeeds,
    carries `x`'s label and has `x`'s elements (pending signs of `x` included) at every address.
    The inner-index flip `qr_fermionic` stores on `r` is exactly cancelled by the flip
    `__matmul__` applies (`phaseFlip0_twice`). -/
theorem qr_reconstructs_fermionic [Zero R] [Add R] [Mul R] [Neg R] [NegLaws R] (K : Kernels R)
    (hK : K.ShapeOk) (hC : K.QRContract) (x : Arr R) (hv : x.validB = true) (h2 : x.ndim = 2)
    (hf : x.fermi = true) (hodd : x.oddpos.length ≤ 1) :
    ∃ q r y, qrA K x = .ok (q, r) ∧ Arr.matmulF q r = .ok y ∧ y.oddpos = x.oddpos
      ∧ ∀ s off, AddrOf x s off → y.elem s off = x.elem s off := by
  obtain ⟨y, h1, h2', h3⟩ := qr_recon_fermi hK hC hv h2 hf hodd
  exact ⟨_, _, y, qrA_eq K hv h2, h1, h2', h3⟩

/-- **svd_reconstructs_fermionic.**  Likewise `(U · diag s) @ VH = x`. -/
theorem svd_reconstructs_fermionic [Zero R] [Add R] [Mul R] [Neg R] [NegLaws R] (K : Kernels R)
    (hK : K.ShapeOk) (hC : K.SVDContract) (x : Arr R) (hv : x.validB = true) (h2 : x.ndim = 2)
    (hf : x.fermi = true) (hodd : x.oddpos.length ≤ 1) :
    ∃ u s vh y, svdA K x = .ok (u, s, vh) ∧ Arr.matmulF (multiplyDiagonal u s 1) vh = .ok y
      ∧ y.oddpos = x.oddpos
      ∧ ∀ sec off, AddrOf x sec off → y.elem sec off = x.elem sec off := by
  obtain ⟨y, h1, h2', h3⟩ := svd_recon_fermi hK hC hv h2 hf hodd
  exact ⟨_, _, _, y, svdA_eq K hv h2, h1, h2', h3⟩

/-! ## examples: the hypotheses are satisfiable, the statements say something on concrete data -/

/-- `Kernels.shapeOnly` (the kernel of the structure correspondence) meets the shape contract -/
example [Zero R] : (Kernels.shapeOnly : Kernels R).ShapeOk := shapeOnly_shapeOk

/-- abelian U1 matrix, total charge 1, row index outgoing, column index incoming, two blocks
    (2×1 and 1×3) -/
def exM : Arr Int :=
  { sym := .U1, fermi := false, charge := (1, 0),
    indices := [Index.mk [((0, 0), 2), ((1, 0), 1)] false none,
                Index.mk [((-1, 0), 1), ((0, 0), 3)] true none],
    blocks := [([(0, 0), (-1, 0)], ⟨[2, 1], #[1, 2]⟩), ([(1, 0), (0, 0)], ⟨[1, 3], #[3, 4, 5]⟩)] }

/-- fermionic U1 matrix, odd (charge 1), row index incoming, column index outgoing (so the right
    factor's bond index is dual and gets the flip), a pending sign on the second block -/
def exF : Arr Int :=
  { sym := .U1, fermi := true, charge := (1, 0),
    indices := [Index.mk [((0, 0), 2), ((1, 0), 1)] true none,
                Index.mk [((1, 0), 1), ((2, 0), 3)] false none],
    blocks := [([(0, 0), (1, 0)], ⟨[2, 1], #[1, 2]⟩), ([(1, 0), (2, 0)], ⟨[1, 3], #[3, 4, 5]⟩)],
    phases := [([(1, 0), (2, 0)], -1)],
    oddpos := [(3, false)] }

example : exM.validB = true ∧ exM.ndim = 2 ∧ exM.fermi = false := by decide
example : exF.validB = true ∧ exF.ndim = 2 ∧ exF.fermi = true ∧ exF.oddpos.length ≤ 1 := by decide

/-- qr of `exM`: both factors valid, bond `{-1 ↦ 1, 0 ↦ 1}` with the column index's direction on
    `q` and the opposite one on `r`, `r` has charge 0, diagonal sectors and no pending signs -/
example : ((qrA Kernels.shapeOnly exM).toOption.map (fun p =>
      (p.1.validB, p.2.validB, (p.1.indices.getD 1 default).cm, (p.1.indices.getD 1 default).dual,
       (p.2.indices.getD 0 default).dual, p.2.sectors, p.2.charge, p.2.phases))
    == some (true, true, [((-1, 0), 1), ((0, 0), 1)], true, false,
        [[(-1, 0), (-1, 0)], [(0, 0), (0, 0)]], (0, 0), [])) = true := by decide +kernel

/-- qr of the fermionic `exF`: the right factor's bond index is dual, so its odd diagonal sector
    `(1, 1)` carries the pending sign `-1` -/
example : ((qrA Kernels.shapeOnly exF).toOption.map (fun p =>
      (p.1.validB, p.2.validB, (p.1.indices.getD 1 default).cm, (p.1.indices.getD 1 default).dual,
       (p.2.indices.getD 0 default).dual, p.2.sectors, p.2.charge, p.2.phases, p.1.phases))
    == some (true, true, [((1, 0), 1), ((2, 0), 1)], false, true,
        [[(1, 0), (1, 0)], [(2, 0), (2, 0)]], (0, 0), [([(1, 0), (1, 0)], -1)],
        [([(1, 0), (2, 0)], -1)])) = true := by decide +kernel

/-- svd of `exF` truncated with counts `[1, 0]`: the second sector disappears from `u`, `s`, `vh`
    and from the bond table; both factors stay valid -/
example : ((svdA Kernels.shapeOnly exF).toOption.map (fun p =>
      let t := applyCounts p.1 p.2.1 p.2.2 [1, 0]
      (t.1.validB, t.2.2.validB, (t.1.indices.getD 1 default).cm, (t.2.2.indices.getD 0 default).cm,
       t.1.sectors, t.2.2.sectors, t.2.1.blocks.map (·.1)))
    == some (true, true, [((1, 0), 1)], [((1, 0), 1)], [[(0, 0), (1, 0)]], [[(1, 0), (1, 0)]],
        [(1, 0)])) = true := by decide +kernel

/-- the value contracts are satisfiable: `Kernels.trivialFactor` over `Int` (`b = I·b` for wide
    blocks, `b = b·I` for tall ones) -/
example : (Kernels.trivialFactor).ShapeOk ∧ (Kernels.trivialFactor).QRContract
    ∧ (Kernels.trivialFactor).SVDContract :=
  ⟨trivialFactor_shapeOk, trivialFactor_qr, trivialFactor_svd⟩

/-- `q @ r` on the fermionic example with that kernel: the pending sign of `x` arrives in the
    data (`-3, -4, -5`), no pending sign and `x`'s label on the product -/
example : ((qrA Kernels.trivialFactor exF).toOption.bind (fun p =>
      (Arr.matmulF p.1 p.2).toOption.map (fun y =>
        (y.blocks.map (fun q => (q.1, q.2.shape, q.2.data.toList)), y.phases, y.oddpos)))
    == some ([([(0, 0), (1, 0)], [2, 1], [1, 2]), ([(1, 0), (2, 0)], [1, 3], [-3, -4, -5])],
        [], [(3, false)])) = true := by decide +kernel

/-- charge-zero matrix with square blocks for `eigh` -/
def exE : Arr Int :=
  { sym := .U1, fermi := false, charge := (0, 0),
    indices := [Index.mk [((0, 0), 2), ((1, 0), 1)] false none,
                Index.mk [((0, 0), 2), ((1, 0), 1)] true none],
    blocks := [([(0, 0), (0, 0)], ⟨[2, 2], #[1, 2, 2, 1]⟩), ([(1, 0), (1, 0)], ⟨[1, 1], #[7]⟩)] }

example : exE.validB = true
    ∧ (eighA Kernels.shapeOnly exE).toOption.map
        (fun p => (p.2.validB, p.1.blocks.map (fun q => (q.1, q.2.shape))))
      = some (true, [((0, 0), [2]), ((1, 0), [1])]) := by decide +kernel

/-- `solve` with a charged matrix (charge 1) and a charged right-hand side (charge 1): the
    solution has charge 0 and lives on the conjugate of the column index -/
def exA : Arr Int :=
  { sym := .U1, fermi := false, charge := (1, 0),
    indices := [Index.mk [((1, 0), 2), ((2, 0), 1)] false none,
                Index.mk [((0, 0), 2), ((1, 0), 1)] true none],
    blocks := [([(1, 0), (0, 0)], ⟨[2, 2], #[1, 2, 3, 4]⟩), ([(2, 0), (1, 0)], ⟨[1, 1], #[7]⟩)] }

def exB : Arr Int :=
  { sym := .U1, fermi := false, charge := (1, 0),
    indices := [Index.mk [((1, 0), 2), ((2, 0), 1)] false none],
    blocks := [([(1, 0)], ⟨[2], #[5, 6]⟩)] }

example : exA.validB = true ∧ exB.validB = true ∧ exA.sym = exB.sym ∧ exA.fermi = exB.fermi
    ∧ (exB.indices.getD 0 default).dual = (exA.indices.getD 0 default).dual
    ∧ (exA.fermi = true → exA.parity = false)
    ∧ ((solveA Kernels.shapeOnly exA exB).toOption.map
        (fun x => (x.validB, x.charge, x.sectors, (x.indices.getD 0 default).dual))
      == some (true, (0, 0), [[(0, 0)]], false)) = true := by decide +kernel

/-- a kernel whose `solve` returns the right-hand side: correct on identity blocks -/
def solveIdK : Kernels Int := { Kernels.shapeOnly with solve := fun _ b => b }

def exI : Arr Int :=
  { sym := .U1, fermi := false, charge := (1, 0),
    indices := [Index.mk [((1, 0), 1), ((2, 0), 1)] false none,
                Index.mk [((0, 0), 1), ((1, 0), 1)] true none],
    blocks := [([(1, 0), (0, 0)], ⟨[1, 1], #[1]⟩), ([(2, 0), (1, 0)], ⟨[1, 1], #[1]⟩)] }

def exIb : Arr Int :=
  { sym := .U1, fermi := false, charge := (1, 0),
    indices := [Index.mk [((1, 0), 1), ((2, 0), 1)] false none],
    blocks := [([(1, 0)], ⟨[1], #[5]⟩)] }

/-- the hypotheses of `solve_solves` are satisfiable -/
example : exI.validB = true ∧ exI.fermi = false ∧ exIb.phases = [] ∧ solveIdK.SolvesOn exI exIb
    ∧ (solveA solveIdK exI exIb).toOption.isSome = true := by
  refine ⟨by decide, rfl, rfl, ?_, by decide +kernel⟩
  intro s arr bb hm hl i hi
  simp only [exI, List.mem_cons, List.not_mem_nil, or_false, Prod.mk.injEq] at hm
  rcases hm with ⟨rfl, rfl⟩ | ⟨rfl, rfl⟩
  · have : bb = ⟨[1], #[5]⟩ := by
      have : alookup exIb.blocks [(1, 0)] = some bb := hl
      exact (Option.some.inj this).symm
    subst this
    have hi0 : i = 0 := by
      have : i < 1 := hi
      omega
    subst hi0
    decide
  · have h0 : alookup exIb.blocks [(2, 0)] = none := by decide
    have : alookup exIb.blocks [(2, 0)] = some bb := hl
    rw [h0] at this
    cases this

end SymmModel.C11
