/-
  Property C10, network clause, round 6.

  (3) the MIXED operand orders of the halves of the norm network `{a, b, ā, b̄}` with EVERY contraction
      call in its own mode (`blockwise`, `fused` or `auto`; norms in practice run in `auto` → `fused`).

  `a`, `b` as in C10g: valid fermionic, bonded along `xa`/`xb` (`tdotAdmissibleB`), sorted distinct
  ket labels (`KetLabels`, all labels distinct); commutative scalars (`hmul`), `0·x = 0` (`hz1`),
  `AddCommMonoid`, `NetLaws` (+ `AssocLaws` for the sequential bracketing).  `K` is the BLOCKWISE
  contraction `a·b` (the reference for `normSq`).

  PROVED
  * `cross_guard` — two halves of any mode contracted in opposite operand orders (table frames
    `U ++ V` and `V' ++ U'` with leg-wise opposite entries, both possibly pruned differently:
    `TdotP.SizeLe`) satisfy the weak guard with the crossed leg pairs `crossAx`.
  * `cross_call_any_mode` — a crossed full contraction transfers from the blockwise halves to the
    halves and the final call in any mode (`TdotP.pad_blockwise`, `TdotP.call_w`, `pad_elem_nil`).
  * `network_norm_mixed_any_mode` — the four mixed balanced bracketings
        `(b̄·ā)·(a·b)`, `(a·b)·(b̄·ā)`, `(ā·b̄)·(b·a)`, `(b·a)·(ā·b̄)`
    with the four halves in the modes `mK mKb mK' mKb'` and the four final calls in `md 0 … md 3`:
    every call succeeds; every result has rank 0, no labels, value `normSq K`.
    `network_norm_mixed_auto`: all eight calls in the default mode.
  * `network_norm_mixed_seq_any_mode` — `((ā·b̄)·b)·a` with its three calls in the modes `mKb m1 m2`
    (label hypothesis `netLabelsB` of the swapped roles as in C10g; automatic for at most one label per
    tensor: `network_norm_mixed_seq_any_mode_oneKet`); `tw_cross_any_mode` is the generic step
    `(Xm·q)·p` (half first against its SECOND factor) in any modes from the blockwise route.

  (1) THREE-TENSOR CHAINS `a – b – c`: see the second half of this file.
-/
import SymmModel.Proofs.NetNorm3
import SymmModel.Props.C10g

namespace SymmModel.C10
open SymmModel Lazy Norm NormNet TdotP

/-! ## (3) mixed operand orders in any mode -/

/-- leg-wise "can be contracted with": same charge table, opposite direction -/
theorem opp_def (i j : Index) : NormNet.Opp i j ↔ (j.cm = i.cm ∧ j.dual = !i.dual) := Iff.rfl

/-- **the weak guard with crossed leg pairs**, for halves of any mode -/
theorem cross_guard {R : Type} {Z X : Arr R} {U V U' V' : List Index}
    (hZ : List.Forall₂ SizeLe Z.indices (V' ++ U')) (hX : List.Forall₂ SizeLe X.indices (U ++ V))
    (hU : List.Forall₂ NormNet.Opp U U') (hV : List.Forall₂ NormNet.Opp V V')
    (hnZ : ∀ ix ∈ Z.indices, (ix.cm.map (·.1)).Nodup)
    (hnF : ∀ ix ∈ U ++ V, (ix.cm.map (·.1)).Nodup) :
    AssocP.contractibleCommonB Z X (crossAx U.length V.length) (List.range (U.length + V.length))
      = true :=
  NormNet.cross_common hZ hX hU hV hnZ hnF

/-- **a crossed full contraction in any mode** from the blockwise one -/
theorem cross_call_any_mode {R : Type} [AddCommMonoid R] [Mul R] [Neg R] [GradedP.SignRing R]
    (hz1 : ∀ x : R, 0 * x = 0) (hz2 : ∀ x : R, x * 0 = 0)
    {Z Zm X Xm : Arr R} {U V U' V' : List Index}
    (HZ : NormNet.Half Z Zm (V' ++ U')) (HX : NormNet.Half X Xm (U ++ V)) (hsym : Z.sym = X.sym)
    (hU : List.Forall₂ NormNet.Opp U U') (hV : List.Forall₂ NormNet.Opp V V')
    (hnF : ∀ ix ∈ U ++ V, (ix.cm.map (·.1)).Nodup) (r : Arr R)
    (hr : Z.tensordotF X (.pair ((crossAx U.length V.length).map Int.ofNat)
        ((List.range (U.length + V.length)).map Int.ofNat)) .blockwise = .ok r)
    (hrn : r.ndim = 0) (mode : TdotMode) :
    ∃ rm, Zm.tensordotF Xm (.pair ((crossAx U.length V.length).map Int.ofNat)
          ((List.range (U.length + V.length)).map Int.ofNat)) mode = .ok rm
      ∧ rm.ndim = 0 ∧ rm.oddpos = r.oddpos ∧ rm.elem [] [] = r.elem [] [] :=
  NormNet.cross_call_any hz1 hz2 HZ HX hsym hU hV hnF r hr hrn mode

section mixed
variable {R : Type} [AddCommMonoid R] [Mul R] [Neg R] [Conj R] [NetLaws R]

/-- **network_norm_mixed_any_mode.**  The four balanced bracketings with the halves in mixed
    operand orders, the four halves and the four final calls each in its own mode: all calls
    succeed; the results are rank-0 arrays without labels with value `normSq K`, `K` the blockwise
    `a·b`. -/
theorem network_norm_mixed_any_mode (hmul : ∀ x y : R, x * y = y * x) (hz1 : ∀ x : R, 0 * x = 0)
    (a b : Arr R) (xa xb : List Nat)
    (ha : a.validB = true) (hb : b.validB = true) (hfa : a.fermi = true) (hfb : b.fermi = true)
    (hadm : ValidP.tdotAdmissibleB a b xa xb = true)
    (hoA : KetLabels a.oddpos) (hoB : KetLabels b.oddpos)
    (hd : (a.oddpos ++ b.oddpos).Pairwise (fun x y => x.1 ≠ y.1))
    (mK mKb mK' mKb' : TdotMode) (md : Nat → TdotMode) :
    ∃ K Km Kbm Km' Kbm',
      a.tensordotF b (.pair (xa.map Int.ofNat) (xb.map Int.ofNat)) .blockwise = .ok K
      ∧ a.tensordotF b (.pair (xa.map Int.ofNat) (xb.map Int.ofNat)) mK = .ok Km
      ∧ (NormNet.braOf a xa).tensordotF (NormNet.braOf b xb)
          (.pair (xa.map Int.ofNat) (xb.map Int.ofNat)) mKb = .ok Kbm
      ∧ b.tensordotF a (.pair (xb.map Int.ofNat) (xa.map Int.ofNat)) mK' = .ok Km'
      ∧ (NormNet.braOf b xb).tensordotF (NormNet.braOf a xa)
          (.pair (xb.map Int.ofNat) (xa.map Int.ofNat)) mKb' = .ok Kbm'
      -- (b̄·ā)·(a·b)
      ∧ (∃ r, Kbm'.tensordotF Km (.pair
            ((crossAx (freeAxes a.ndim xa).length (freeAxes b.ndim xb).length).map Int.ofNat)
            ((List.range K.ndim).map Int.ofNat)) (md 0) = .ok r
          ∧ r.ndim = 0 ∧ r.oddpos = [] ∧ r.elem [] [] = normSq K)
      -- (a·b)·(b̄·ā)
      ∧ (∃ r, Km.tensordotF Kbm' (.pair
            ((crossAx (freeAxes b.ndim xb).length (freeAxes a.ndim xa).length).map Int.ofNat)
            ((List.range K.ndim).map Int.ofNat)) (md 1) = .ok r
          ∧ r.ndim = 0 ∧ r.oddpos = [] ∧ r.elem [] [] = normSq K)
      -- (ā·b̄)·(b·a)
      ∧ (∃ r, Kbm.tensordotF Km' (.pair
            ((crossAx (freeAxes b.ndim xb).length (freeAxes a.ndim xa).length).map Int.ofNat)
            ((List.range K.ndim).map Int.ofNat)) (md 2) = .ok r
          ∧ r.ndim = 0 ∧ r.oddpos = [] ∧ r.elem [] [] = normSq K)
      -- (b·a)·(ā·b̄)
      ∧ (∃ r, Km'.tensordotF Kbm (.pair
            ((crossAx (freeAxes a.ndim xa).length (freeAxes b.ndim xb).length).map Int.ofNat)
            ((List.range K.ndim).map Int.ofNat)) (md 3) = .ok r
          ∧ r.ndim = 0 ∧ r.oddpos = [] ∧ r.elem [] [] = normSq K) :=
  NormNet.network_norm_mixedM hmul hz1 a b xa xb ha hb hfa hfb hadm hoA hoB hd mK mKb mK' mKb' md

/-- the default mode everywhere: all eight calls in `mode = auto`
    (`MixedM` abbreviates the conclusion of `network_norm_mixed_any_mode`) -/
theorem network_norm_mixed_auto (hmul : ∀ x y : R, x * y = y * x) (hz1 : ∀ x : R, 0 * x = 0)
    (a b : Arr R) (xa xb : List Nat)
    (ha : a.validB = true) (hb : b.validB = true) (hfa : a.fermi = true) (hfb : b.fermi = true)
    (hadm : ValidP.tdotAdmissibleB a b xa xb = true)
    (hoA : KetLabels a.oddpos) (hoB : KetLabels b.oddpos)
    (hd : (a.oddpos ++ b.oddpos).Pairwise (fun x y => x.1 ≠ y.1)) :
    MixedM a b xa xb .auto .auto .auto .auto (fun _ => .auto) :=
  NormNet.network_norm_mixedM hmul hz1 a b xa xb ha hb hfa hfb hadm hoA hoB hd _ _ _ _ _

end mixed

section seq
variable {R : Type} [AddCommMonoid R] [Mul R] [Neg R]

/-- the generic step `(Xm·q)·p` in modes `m1`, `m2` from the blockwise `(X·q)·p`: the half `X`
    (frame: conjugated frame of `p·q`) meets first its SECOND factor `q`, then `p` -/
theorem tw_cross_any_mode [GradedP.SignRing R]
    (hz1 : ∀ x : R, 0 * x = 0) (hz2 : ∀ x : R, x * 0 = 0)
    (p q X Xm AB c : Arr R) (xp xq : List Nat)
    (hp : p.validB = true) (hq : q.validB = true) (hfp : p.fermi = true) (hfq : q.fermi = true)
    (hadm : ValidP.tdotAdmissibleB p q xp xq = true) (H : HalfPair X Xm p q xp xq)
    (e1 : X.tensordotF q (.pair
        (((List.range (freeAxes q.ndim xq).length).map ((freeAxes p.ndim xp).length + ·)).map
          Int.ofNat) ((freeAxes q.ndim xq).map Int.ofNat)) .blockwise = .ok AB)
    (e2 : AB.tensordotF p (.pair ((Assoc2P.axesAB
          ((freeAxes p.ndim xp).length + (freeAxes q.ndim xq).length) q.ndim
          ((List.range (freeAxes q.ndim xq).length).map ((freeAxes p.ndim xp).length + ·))
          (List.range (freeAxes p.ndim xp).length) (freeAxes q.ndim xq) xq).map Int.ofNat)
        ((freeAxes p.ndim xp ++ xp).map Int.ofNat)) .blockwise = .ok c)
    (hc : c.ndim = 0) (m1 m2 : TdotMode) :
    ∃ ABm cm, Xm.tensordotF q (.pair
          (((List.range (freeAxes q.ndim xq).length).map ((freeAxes p.ndim xp).length + ·)).map
            Int.ofNat) ((freeAxes q.ndim xq).map Int.ofNat)) m1 = .ok ABm
      ∧ ABm.tensordotF p (.pair ((Assoc2P.axesAB
            ((freeAxes p.ndim xp).length + (freeAxes q.ndim xq).length) q.ndim
            ((List.range (freeAxes q.ndim xq).length).map ((freeAxes p.ndim xp).length + ·))
            (List.range (freeAxes p.ndim xp).length) (freeAxes q.ndim xq) xq).map Int.ofNat)
          ((freeAxes p.ndim xp ++ xp).map Int.ofNat)) m2 = .ok cm
      ∧ cm.ndim = 0 ∧ cm.oddpos = c.oddpos ∧ cm.elem [] [] = c.elem [] [] :=
  NormNet.tw_cross_any hz1 hz2 p q X Xm AB c xp xq hp hq hfp hfq hadm H e1 e2 hc m1 m2

variable [Conj R] [NetLaws R] [AssocP.AssocLaws R]

/-- **network_norm_mixed_seq_any_mode.**  `((ā·b̄)·b)·a = normSq (a·b)` with the bra half in mode `mKb`
    and the two tensor-by-tensor calls in the modes `m1`, `m2` (the rank of the half is written out:
    `(freeAxes a.ndim xa).length + (freeAxes b.ndim xb).length`) -/
theorem network_norm_mixed_seq_any_mode (hmul : ∀ x y : R, x * y = y * x) (a b : Arr R)
    (xa xb : List Nat)
    (ha : a.validB = true) (hb : b.validB = true) (hfa : a.fermi = true) (hfb : b.fermi = true)
    (hadm : ValidP.tdotAdmissibleB a b xa xb = true)
    (hoA : KetLabels a.oddpos) (hoB : KetLabels b.oddpos)
    (hd : (a.oddpos ++ b.oddpos).Pairwise (fun x y => x.1 ≠ y.1))
    (hlab' : netLabelsB b.parity a.parity b.oddpos a.oddpos = true) (mKb m1 m2 : TdotMode) :
    ∃ K Kbm, a.tensordotF b (.pair (xa.map Int.ofNat) (xb.map Int.ofNat)) .blockwise = .ok K
      ∧ (NormNet.braOf a xa).tensordotF (NormNet.braOf b xb)
          (.pair (xa.map Int.ofNat) (xb.map Int.ofNat)) mKb = .ok Kbm
      ∧ ∃ T c, Kbm.tensordotF b (.pair
            (((List.range (freeAxes b.ndim xb).length).map ((freeAxes a.ndim xa).length + ·)).map
              Int.ofNat) ((freeAxes b.ndim xb).map Int.ofNat)) m1 = .ok T
        ∧ T.tensordotF a (.pair ((Assoc2P.axesAB
              ((freeAxes a.ndim xa).length + (freeAxes b.ndim xb).length) b.ndim
              ((List.range (freeAxes b.ndim xb).length).map ((freeAxes a.ndim xa).length + ·))
              (List.range (freeAxes a.ndim xa).length) (freeAxes b.ndim xb) xb).map Int.ofNat)
            ((freeAxes a.ndim xa ++ xa).map Int.ofNat)) m2 = .ok c
        ∧ c.ndim = 0 ∧ c.oddpos = [] ∧ c.elem [] [] = normSq K :=
  NormNet.network_norm_mixed_seqM hmul a b xa xb ha hb hfa hfb hadm hoA hoB hd hlab' mKb m1 m2

/-- at most one ket label per tensor: no label hypothesis -/
theorem network_norm_mixed_seq_any_mode_oneKet (hmul : ∀ x y : R, x * y = y * x) (a b : Arr R)
    (xa xb : List Nat)
    (ha : a.validB = true) (hb : b.validB = true) (hfa : a.fermi = true) (hfb : b.fermi = true)
    (hadm : ValidP.tdotAdmissibleB a b xa xb = true)
    (hoA : OneKet a.oddpos) (hoB : OneKet b.oddpos)
    (hd : (a.oddpos ++ b.oddpos).Pairwise (fun x y => x.1 ≠ y.1)) (mKb m1 m2 : TdotMode) :
    MixedSeqM a b xa xb mKb m1 m2 :=
  NormNet.network_norm_mixed_seqM hmul a b xa xb ha hb hfa hfb hadm hoA.ketLabels hoB.ketLabels hd
    (netLabelsB_of_oneKet hb ha hfb hfa hoB hoA (labels_swap hd)) mKb m1 m2

end seq

/-! ### non-vacuity of (3) -/

open scoped SymmModel.Lazy

/-- the pruned network `gAs`, `gB` of C10d, all eight calls in the default mode -/
example : MixedM gAs C03.gB [2] [0] .auto .auto .auto .auto (fun _ => .auto) :=
  network_norm_mixed_auto Int.mul_comm Int.zero_mul gAs C03.gB [2] [0] (by decide +kernel)
    (by decide +kernel) rfl rfl (by decide +kernel) (OneKet.ketLabels (Or.inr ⟨1, rfl⟩))
    (OneKet.ketLabels (Or.inr ⟨3, rfl⟩)) (by decide)

/-- mixed modes -/
example : MixedM C03.gA C03.gB [2] [0] .fused .blockwise .auto .fused
    (fun i => if i % 2 = 0 then .fused else .auto) :=
  NormNet.network_norm_mixedM Int.mul_comm Int.zero_mul C03.gA C03.gB [2] [0] (by decide +kernel)
    (by decide +kernel) rfl rfl (by decide +kernel) (OneKet.ketLabels (Or.inr ⟨1, rfl⟩))
    (OneKet.ketLabels (Or.inr ⟨3, rfl⟩)) (by decide) _ _ _ _ _

example : MixedSeqM gAs C03.gB [2] [0] .auto .auto .auto :=
  network_norm_mixed_seq_any_mode_oneKet Int.mul_comm gAs C03.gB [2] [0] (by decide +kernel)
    (by decide +kernel) rfl rfl (by decide +kernel) (Or.inr ⟨1, rfl⟩) (Or.inr ⟨3, rfl⟩) (by decide)
    _ _ _

/-- the values of `(b̄·ā)·(a·b)` and `((ā·b̄)·b)·a` of a concrete network with every call in mode `m`,
    and `normSq K` of the blockwise `K` -/
def mixedModeVals (a b : Arr Int) (xa xb : List Nat) (m : TdotMode) : List Int :=
  let fA := freeAxes a.ndim xa
  let fB := freeAxes b.ndim xb
  let sh := (List.range fB.length).map (fA.length + ·)
  let P (x y : List Nat) : AxesArg := .pair (x.map Int.ofNat) (y.map Int.ofNat)
  let val (r : Except Err (Arr Int)) : Int := match r with | .ok c => c.elem [] [] | .error _ => -1
  match a.tensordotF b (P xa xb) .blockwise, a.tensordotF b (P xa xb) m,
      (NormNet.braOf a xa).tensordotF (NormNet.braOf b xb) (P xa xb) m,
      (NormNet.braOf b xb).tensordotF (NormNet.braOf a xa) (P xb xa) m with
  | .ok K, .ok Km, .ok Kbm, .ok Kbm' =>
    [ val (Kbm'.tensordotF Km (P (crossAx fA.length fB.length) (List.range K.ndim)) m),
      val (do let T ← Kbm.tensordotF b (P sh fB) m
              T.tensordotF a (P (Assoc2P.axesAB (fA.length + fB.length) b.ndim sh
                (List.range fA.length) fB xb) (fA ++ xa)) m),
      normSq K ]
  | _, _, _, _ => []

example : mixedModeVals gAs C03.gB [2] [0] .fused = [2174, 2174, 2174] := by decide +kernel

end SymmModel.C10
